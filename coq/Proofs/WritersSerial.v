(* C12 - the versions side of the protocol: the granted writer works on the latest version
   (its unlocked reads are stable), commits never fail, and the history of versions is the serial
   application of the ended transactions in admission order. *)
From DV Require Import Base.Prelude Model.VersM Model.WritersM Proofs.VersInv Proofs.VersThms Proofs.WritersInv.
Import VersM WritersM.

Local Open Scope Z_scope.

(* ------------------------------------------------------------------ VersM steps used by the sections *)

Lemma prune_keeps_last p vs rs vs' :
  prune_post p vs rs vs' -> last_opt vs' = last_opt vs.
Proof.
  intros [[d [E _]] Hne _ _]. rewrite E. symmetry. apply last_opt_app_r. exact Hne.
Qed.

(* reader open / reader end / policy change: history and the newest version are untouched *)
Lemma vstep_other z o z' r :
  Inv z -> VersM.wtxn z = None ->
  (o = OpenLatest \/ (exists i, o = OpenId i) \/ (exists x, o = OpenSerial x) \/ (exists h, o = Close h) \/
   (exists p, o = SetPolicy p)) ->
  VersM.step z o = Ok (z', r) ->
  Inv z' /\ VersM.wtxn z' = None /\ hist z' = hist z /\ last_opt (versions z') = last_opt (versions z).
Proof.
  intros H Hw Ho E. split; [eapply step_inv; [exact H|exact E]|].
  destruct Ho as [->|[[i ->]|[[x ->]|[[h ->]|[p ->]]]]]; cbn [VersM.step] in E.
  - destruct (last_opt (versions z)) eqn:El; [|discriminate]. unfold register in E. inversion E; subst. cbn. auto.
  - destruct (find_id_rev _ _); [|discriminate]. unfold register in E. inversion E; subst. cbn. auto.
  - destruct (find_serial_rev _ _); [|discriminate]. unfold register in E. inversion E; subst. cbn. auto.
  - destruct (h <? next_h z); [|discriminate]. destruct (has_reader _ _); [|discriminate].
    assert (Hsub : forall r0, In r0 (remove_reader h (readers z)) -> In r0 (readers z))
      by (intros r0; apply in_remove_reader).
    destruct (prune_ok (policy z) (versions z) (remove_reader h (readers z))
                (inv_versions_sorted z H) (inv_nonempty z H) (pins_subset z _ H Hsub)) as [vs' [Ep Hpp]].
    rewrite Ep in E. cbn [bind] in E. inversion E; subst. cbn.
    repeat split; try assumption; try reflexivity. apply (prune_keeps_last _ _ _ _ Hpp).
  - unfold set_policy in E.
    destruct (prune_ok p (versions z) (readers z) (inv_versions_sorted z H) (inv_nonempty z H) (inv_pinned z H))
      as [vs' [Ep Hpp]].
    rewrite Ep in E. cbn [bind] in E. inversion E; subst. cbn.
    repeat split; try assumption; try reflexivity. apply (prune_keeps_last _ _ _ _ Hpp).
Qed.

(* _commit_version_unlocked by the granted writer, whose id is the next id: never fails *)
Lemma vstep_commit z id c :
  Inv z -> VersM.wtxn z = None -> id = next_id (versions z) ->
  exists z', VersM.step (vz_set_wtxn z (Some (mkW id c true))) WCommit = Ok (z', RUnit) /\
             Inv z' /\ VersM.wtxn z' = None /\ hist z' = hist z ++ [mkV id c] /\
             last_opt (versions z') = Some (mkV id c).
Proof.
  intros H Hw Eid.
  assert (Hi : Inv (vz_set_wtxn z (Some (mkW id c true)))).
  { apply inv_set_wtxn; [exact H|]. intros w E. inversion E; subst. reflexivity. }
  pose proof (inv_wid _ Hi (mkW id c true) eq_refl) as Eid'. cbn in Eid'.
  destruct (commit_sorted (vz_set_wtxn z (Some (mkW id c true))) (mkW id c true) Hi Eid') as [Hsv _].
  cbn in Hsv.
  assert (Hne : versions z ++ [mkV id c] <> []) by (destruct (versions z); discriminate).
  assert (Hpin : forall r0, In r0 (readers z) -> exists v, In v (versions z ++ [mkV id c]) /\ vid v = rvid r0).
  { intros r0 Hr0. destruct (inv_pinned z H r0 Hr0) as [v [Hv E']]. exists v.
    split; [apply in_or_app; left; exact Hv|exact E']. }
  destruct (prune_ok (policy z) _ (readers z) Hsv Hne Hpin) as [vs' [Ep Hpp]].
  assert (E : VersM.step (vz_set_wtxn z (Some (mkW id c true))) WCommit =
              Ok (VersM.mkSt vs' (readers z) (policy z) None (next_h z) (hist z ++ [mkV id c]), RUnit)).
  { cbn. rewrite Ep. reflexivity. }
  eexists. split; [exact E|]. split; [eapply step_inv; [exact Hi|exact E]|]. cbn.
  repeat split; try reflexivity.
  rewrite (prune_keeps_last _ _ _ _ Hpp). apply last_opt_app.
Qed.

(* ------------------------------------------------------------------ what a pc carries *)

Fixpoint wfam (p : pc) : bool :=
  match p with
  | Rel nx => wfam nx
  | Acq (CWriterTest _) | Crit (CWriterTest _) | Wait _ | SetupId | SetupBase _ | Body _ _ _ _ => true
  | Acq (CEndWrite _ _ _) | Crit (CEndWrite _ _ _) => true
  | _ => false
  end.

Fixpoint wid_of (p : pc) : option Z :=
  match p with
  | Rel nx => wid_of nx
  | SetupBase id | Body id _ _ _ | Acq (CEndWrite id _ _) | Crit (CEndWrite id _ _) => Some id
  | _ => None
  end.

Fixpoint on_track (pr : prog) (z : VersM.st) (p : pc) : Prop :=
  match p with
  | Rel nx => on_track pr z nx
  | Body id c ch todo => run_edits todo (c, ch) = run_edits (edits_of pr) (base_content pr z, false)
  | Acq (CEndWrite id c cm) | Crit (CEndWrite id c cm) =>
      c = fst (run_edits (edits_of pr) (base_content pr z, false)) /\
      cm = commit_flag pr && snd (run_edits (edits_of pr) (base_content pr z, false))
  | _ => True
  end.

Fixpoint rsnap (p : pc) : option (Z * content) :=
  match p with
  | Rel nx => rsnap nx
  | RBody _ i c => Some (i, c)
  | _ => None
  end.

Lemma wid_act p id : wid_of p = Some id -> act p = true.
Proof. induction p as [[]|[]|nx IH| | | | | |]; cbn; intros H; try discriminate; auto. Qed.

Lemma on_track_inactive pr z z' p : act p = false -> on_track pr z p -> on_track pr z' p.
Proof. induction p as [[]|[]|nx IH| | | | | |]; cbn; intros H; try discriminate; auto. Qed.

Lemma on_track_same_last pr z z' p :
  last_opt (versions z') = last_opt (versions z) -> on_track pr z p -> on_track pr z' p.
Proof.
  intros E. assert (Eb : base_content pr z' = base_content pr z).
  { unfold base_content. rewrite E. reflexivity. }
  induction p as [[]|[]|nx IH| | | | | |]; cbn; rewrite ?Eb; auto.
Qed.

Record InvC (s : st) : Prop := mkInvC {
  c_inv : Inv (vz s);
  c_nowtxn : VersM.wtxn (vz s) = None;
  c_id : forall t id, wid_of (pcs s t) = Some id -> id = next_id (versions (vz s));
  c_track : forall t, on_track (prg s t) (vz s) (pcs s t);
  c_fam : forall t, wfam (pcs s t) = true -> exists r es cm, prg s t = PWriter r es cm;
  c_hist : hist (vz s) = serial (map (prg s) (ended s));
  c_adm : granted s = ended s ++ match wtxn s with Some t => [t] | None => [] end;
  c_read : forall t i c, rsnap (pcs s t) = Some (i, c) -> In (mkV i c) (hist (vz s))
}.

Lemma initC progs : InvC (init progs).
Proof.
  constructor; cbn.
  - apply init_inv.
  - reflexivity.
  - intros t id H. destruct (progs t); discriminate.
  - intros t. destruct (progs t); exact Logic.I.
  - intros t H. destruct (progs t) as [r es cm| | |]; try discriminate. eauto.
  - reflexivity.
  - reflexivity.
  - intros t i c H. destruct (progs t); discriminate.
Qed.

(* a step that only moves thread t *)
Lemma invC_move s t p' :
  InvC s ->
  (forall id, wid_of p' = Some id -> id = next_id (versions (vz s))) ->
  on_track (prg s t) (vz s) p' ->
  (wfam p' = true -> wfam (pcs s t) = true) ->
  (forall i c, rsnap p' = Some (i, c) -> rsnap (pcs s t) = Some (i, c)) ->
  InvC (set_pc s t p').
Proof.
  intros H Hid Htr Hfam Hrs. destruct H. constructor; cbn; try assumption.
  - intros t' id. destruct (Nat.eq_dec t' t) as [->|Hn]; [rewrite upd_same; apply Hid|rewrite upd_other by exact Hn; apply c_id0].
  - intros t'. destruct (Nat.eq_dec t' t) as [->|Hn]; [rewrite upd_same; exact Htr|rewrite upd_other by exact Hn; apply c_track0].
  - intros t'. destruct (Nat.eq_dec t' t) as [->|Hn]; [rewrite upd_same; intros E; apply c_fam0; auto|rewrite upd_other by exact Hn; apply c_fam0].
  - intros t' i c. destruct (Nat.eq_dec t' t) as [->|Hn]; [rewrite upd_same; intros E; apply (c_read0 t); auto|rewrite upd_other by exact Hn; apply c_read0].
Qed.

Lemma invC_fields s s' :
  prg s' = prg s -> pcs s' = pcs s -> vz s' = vz s -> wtxn s' = wtxn s -> granted s' = granted s ->
  ended s' = ended s -> InvC s -> InvC s'.
Proof.
  intros E1 E2 E3 E4 E5 E6 H. destruct H. constructor; rewrite ?E1, ?E2, ?E3, ?E4, ?E5, ?E6; assumption.
Qed.

Lemma body_pc_carries pr id c ch todo :
  wid_of (body_pc pr id c ch todo) = Some id /\ wfam (body_pc pr id c ch todo) = true /\
  rsnap (body_pc pr id c ch todo) = None.
Proof. destruct todo; repeat split; reflexivity. Qed.

Lemma body_pc_track pr z id c ch todo :
  run_edits todo (c, ch) = run_edits (edits_of pr) (base_content pr z, false) ->
  on_track pr z (body_pc pr id c ch todo).
Proof.
  intros E. destruct todo as [|e todo]; cbn; [|exact E].
  cbn in E. rewrite <- E. cbn. split; reflexivity.
Qed.

Lemma carries_acq_crit c :
  wid_of (Crit c) = wid_of (Acq c) /\ wfam (Crit c) = wfam (Acq c) /\ rsnap (Crit c) = rsnap (Acq c) /\
  forall pr z, on_track pr z (Acq c) -> on_track pr z (Crit c).
Proof. destruct c; (split; [|split; [|split]]); cbn; auto. Qed.

(* the reader / policy sections *)
Lemma other_section_C s t o nx z' :
  InvC s -> wid_of nx = None -> wfam nx = false -> on_track (prg s t) z' nx ->
  (o = OpenLatest \/ (exists i, o = OpenId i) \/ (exists x, o = OpenSerial x) \/ (exists h, o = Close h) \/
   (exists p, o = SetPolicy p)) ->
  (z' = vz s \/ exists r, VersM.step (vz s) o = Ok (z', r)) ->
  (forall i c, rsnap nx = Some (i, c) -> In (mkV i c) (hist z')) ->
  InvC (set_vz (set_pc s t (Rel nx)) z').
Proof.
  intros H Hid Hfam Htr Ho Hz Hrs.
  assert (Hz' : Inv z' /\ VersM.wtxn z' = None /\ hist z' = hist (vz s) /\
                last_opt (versions z') = last_opt (versions (vz s))).
  { destruct Hz as [->|[r E]].
    - split; [apply (c_inv s H)|split; [apply (c_nowtxn s H)|split; reflexivity]].
    - eapply vstep_other; [apply (c_inv s H)|apply (c_nowtxn s H)|exact Ho|exact E]. }
  destruct Hz' as [Hi [Hw [Hh Hl]]].
  assert (Hnid : next_id (versions z') = next_id (versions (vz s))) by (unfold next_id; rewrite Hl; reflexivity).
  destruct H. constructor; cbn; try assumption.
  - intros t' id. rewrite Hnid. destruct (Nat.eq_dec t' t) as [->|Hn].
    + rewrite upd_same. cbn. rewrite Hid. discriminate.
    + rewrite upd_other by exact Hn. apply c_id0.
  - intros t'. destruct (Nat.eq_dec t' t) as [->|Hn].
    + rewrite upd_same. cbn. exact Htr.
    + rewrite upd_other by exact Hn. eapply on_track_same_last; [exact Hl|apply c_track0].
  - intros t'. destruct (Nat.eq_dec t' t) as [->|Hn].
    + rewrite upd_same. cbn. rewrite Hfam. discriminate.
    + rewrite upd_other by exact Hn. apply c_fam0.
  - rewrite Hh. exact c_hist0.
  - intros t' i c. destruct (Nat.eq_dec t' t) as [->|Hn].
    + rewrite upd_same. cbn. apply Hrs.
    + rewrite upd_other by exact Hn. rewrite Hh. apply c_read0.
Qed.

Lemma invC_set_failed s e : InvC s -> InvC (set_failed s e).
Proof. apply invC_fields; reflexivity. Qed.

Lemma serial_snoc ps p : serial (ps ++ [p]) = apply_txn (serial ps) p.
Proof. unfold serial. rewrite fold_left_app. reflexivity. Qed.

Lemma hist_step (f : nat -> prog) (h h' : list version) (es : list nat) (t : nat) :
  h' = apply_txn h (f t) -> h = serial (map f es) -> h' = serial (map f (es ++ [t])).
Proof. intros -> ->. rewrite map_app. cbn [map]. rewrite serial_snoc. reflexivity. Qed.

Theorem stepC s t : InvB s -> InvC s -> enabled s t = true -> InvC (step s t).
Proof.
  intros HB H He. unfold step. unfold enabled in He.
  destruct (pcs s t) as [c|c|nx|e| |id|id c ch todo|h i c|] eqn:Hpc.
  - (* Acq -> Crit *)
    destruct (carries_acq_crit c) as [K1 [K2 [K3 K4]]].
    apply (invC_fields (set_pc s t (Crit c))); try reflexivity.
    apply invC_move; rewrite ?Hpc; [exact H| | | |].
    + intros id E. rewrite K1 in E. apply (c_id s H t). rewrite Hpc. exact E.
    + apply K4. pose proof (c_track s H t) as T. rewrite Hpc in T. exact T.
    + rewrite K2. auto.
    + intros i x. rewrite K3. auto.
  - destruct c as [ev|id c cm|sel|h|p].
    + (* writer(): grant or enqueue; the versions are not touched *)
      cbn [exec_crit].
      assert (Hf : exists r es cm, prg s t = PWriter r es cm) by (apply (c_fam s H); rewrite Hpc; reflexivity).
      destruct ((match wtxn s with None => true | Some _ => false end) && oeqb ev (wevent s)) eqn:Ht.
      * apply andb_true_iff in Ht. destruct Ht as [Hw _]. destruct (wtxn s) eqn:Ew; [discriminate|].
        destruct H. constructor; cbn; try assumption.
        -- intros t' id. destruct (Nat.eq_dec t' t) as [->|Hn]; [rewrite upd_same; discriminate|rewrite upd_other by exact Hn; apply c_id0].
        -- intros t'. destruct (Nat.eq_dec t' t) as [->|Hn]; [rewrite upd_same; exact Logic.I|rewrite upd_other by exact Hn; apply c_track0].
        -- intros t'. destruct (Nat.eq_dec t' t) as [->|Hn]; [rewrite upd_same; intros _; exact Hf|rewrite upd_other by exact Hn; apply c_fam0].
        -- rewrite c_adm0, Ew, app_nil_r. reflexivity.
        -- intros t' i c. destruct (Nat.eq_dec t' t) as [->|Hn]; [rewrite upd_same; discriminate|rewrite upd_other by exact Hn; apply c_read0].
      * destruct H. constructor; cbn; try assumption.
        -- intros t' id. destruct (Nat.eq_dec t' t) as [->|Hn]; [rewrite upd_same; discriminate|rewrite upd_other by exact Hn; apply c_id0].
        -- intros t'. destruct (Nat.eq_dec t' t) as [->|Hn]; [rewrite upd_same; exact Logic.I|rewrite upd_other by exact Hn; apply c_track0].
        -- intros t'. destruct (Nat.eq_dec t' t) as [->|Hn]; [rewrite upd_same; intros _; exact Hf|rewrite upd_other by exact Hn; apply c_fam0].
        -- intros t' i c. destruct (Nat.eq_dec t' t) as [->|Hn]; [rewrite upd_same; discriminate|rewrite upd_other by exact Hn; apply c_read0].
    + (* _commit_version / _end_write by the owner *)
      cbn [exec_crit].
      assert (Hact : act (pcs s t) = true) by (rewrite Hpc; reflexivity).
      assert (Hw : wtxn s = Some t) by (apply (b_w2 s HB); exact Hact).
      assert (Hother : forall t', t' <> t -> act (pcs s t') = false).
      { intros t' Hne. destruct (act (pcs s t')) eqn:E; [|reflexivity].
        pose proof (b_w2 s HB t' E). congruence. }
      assert (Eid : id = next_id (versions (vz s))) by (apply (c_id s H t); rewrite Hpc; reflexivity).
      destruct (c_fam s H t) as [r [es [cf Epr]]]; [rewrite Hpc; reflexivity|].
      pose proof (c_track s H t) as T. rewrite Hpc, Epr in T. cbn [on_track edits_of commit_flag] in T.
      remember (base_content (PWriter r es cf) (vz s)) as B eqn:EB.
      destruct T as [Tc Tm].
      destruct (inv_last _ (c_inv s H)) as [vl Hl].
      pose proof (inv_last_hist _ vl (c_inv s H) Hl) as Hlh.
      (* the new versioned state and what the serial specification says about it *)
      assert (Hz : exists z', (if cm then VersM.step (vz_set_wtxn (vz s) (Some (mkW id c true))) WCommit
                               else Ok (vz s, RUnit)) = Ok (z', RUnit) /\
                  Inv z' /\ VersM.wtxn z' = None /\
                  hist z' = apply_txn (hist (vz s)) (prg s t) /\
                  (exists new, hist z' = hist (vz s) ++ new)).
      { assert (Hap : apply_txn (hist (vz s)) (prg s t) =
                      if cm then hist (vz s) ++ [mkV id c] else hist (vz s)).
        { rewrite Epr. unfold apply_txn. rewrite Hlh.
          assert (Eb : (if r then [] else vcont vl) = B).
          { rewrite EB. unfold base_content. rewrite Hl. destruct r; reflexivity. }
          rewrite Eb. cbv zeta. rewrite (hist_next_id _ (c_inv s H)), <- Eid. rewrite Tm at 1. rewrite Tc at 1. reflexivity. }
        destruct cm.
        - destruct (vstep_commit (vz s) id c (c_inv s H) (c_nowtxn s H) Eid) as [z' [E [Hi [Hw' [Hh _]]]]].
          exists z'. rewrite E. split; [reflexivity|]. split; [exact Hi|]. split; [exact Hw'|].
          split; [rewrite Hap; exact Hh|eexists; exact Hh].
        - exists (vz s). split; [reflexivity|]. split; [apply (c_inv s H)|]. split; [apply (c_nowtxn s H)|].
          split; [rewrite Hap; reflexivity|]. exists []. rewrite app_nil_r. reflexivity. }
      destruct Hz as [z' [Ez [Hi [Hw' [Hh [new Hnew]]]]]].
      rewrite Ez, Hw, Nat.eqb_refl.
      match goal with |- InvC (wakeup ?s0) => destruct (wakeup_fields s0) as [W1 [W2 [W3 [W4 [W5 [W6 [W7 [W8 [W9 W10]]]]]]]]]; apply (invC_fields s0); try assumption end.
      constructor; cbn; try assumption.
      * intros t' id'. destruct (Nat.eq_dec t' t) as [->|Hn]; [rewrite upd_same; discriminate|].
        rewrite upd_other by exact Hn. intros E. apply wid_act in E. rewrite (Hother t' Hn) in E. discriminate.
      * intros t'. destruct (Nat.eq_dec t' t) as [->|Hn]; [rewrite upd_same; exact Logic.I|].
        rewrite upd_other by exact Hn. eapply on_track_inactive; [apply Hother; exact Hn|apply (c_track s H)].
      * intros t'. destruct (Nat.eq_dec t' t) as [->|Hn]; [rewrite upd_same; discriminate|].
        rewrite upd_other by exact Hn. apply (c_fam s H).
      * apply (hist_step (prg s) (hist (vz s))); [exact Hh|apply (c_hist s H)].
      * rewrite (c_adm s H), Hw, app_nil_r. reflexivity.
      * intros t' i x. destruct (Nat.eq_dec t' t) as [->|Hn]; [rewrite upd_same; discriminate|].
        rewrite upd_other by exact Hn. intros E. rewrite Hnew. apply in_or_app. left. apply (c_read s H t' i x E).
    + (* reader() *)
      cbn [exec_crit].
      assert (Ho : sel_op sel = OpenLatest \/ (exists i, sel_op sel = OpenId i) \/ (exists x, sel_op sel = OpenSerial x) \/
                   (exists h, sel_op sel = Close h) \/ (exists p, sel_op sel = SetPolicy p)).
      { destruct sel; cbn; eauto. }
      destruct (VersM.step (vz s) (sel_op sel)) as [[z' [h i c|]]|e|e] eqn:E.
      * apply (other_section_C s t (sel_op sel)); try reflexivity; try exact H; try exact Ho; try exact Logic.I.
        -- right. eexists. exact E.
        -- cbn. intros i' c' X. inversion X; subst.
           destruct (open_reads_requested _ _ _ _ _ _ (c_inv s H) E) as [_ [v [Hv [Ei [Ec _]]]]].
           destruct (vstep_other _ _ _ _ (c_inv s H) (c_nowtxn s H) Ho E) as [_ [_ [Hh _]]].
           rewrite Hh. destruct (inv_suffix _ (c_inv s H)) as [d Ed]. rewrite Ed. apply in_or_app. right.
           destruct v as [vi vc]. cbn in Ei, Ec. subst. exact Hv.
      * apply invC_set_failed. apply (invC_fields (set_vz (set_pc s t (Rel Done)) (vz s))); try reflexivity.
        apply (other_section_C s t (sel_op sel)); try reflexivity; try exact H; try exact Ho; try exact Logic.I.
        -- left. reflexivity.
        -- discriminate.
      * apply (invC_fields (set_vz (set_pc s t (Rel Done)) (vz s))); try reflexivity.
        apply (other_section_C s t (sel_op sel)); try reflexivity; try exact H; try exact Ho; try exact Logic.I.
        -- left. reflexivity.
        -- discriminate.
      * apply invC_set_failed. apply (invC_fields (set_vz (set_pc s t (Rel Done)) (vz s))); try reflexivity.
        apply (other_section_C s t (sel_op sel)); try reflexivity; try exact H; try exact Ho; try exact Logic.I.
        -- left. reflexivity.
        -- discriminate.
    + (* _end_read *)
      cbn [exec_crit].
      assert (Ho : Close h = OpenLatest \/ (exists i, Close h = OpenId i) \/ (exists x, Close h = OpenSerial x) \/
                   (exists h', Close h = Close h') \/ (exists p, Close h = SetPolicy p)) by eauto 6.
      destruct (VersM.step (vz s) (Close h)) as [[z' r]|e|e] eqn:E.
      * apply (other_section_C s t (Close h)); try reflexivity; try exact H; try exact Ho; try exact Logic.I.
        -- right. eexists. exact E.
        -- discriminate.
      * apply invC_set_failed. apply (invC_fields (set_vz (set_pc s t (Rel Done)) (vz s))); try reflexivity.
        apply (other_section_C s t (Close h)); try reflexivity; try exact H; try exact Ho; try exact Logic.I.
        -- left. reflexivity.
        -- discriminate.
      * apply invC_set_failed. apply (invC_fields (set_vz (set_pc s t (Rel Done)) (vz s))); try reflexivity.
        apply (other_section_C s t (Close h)); try reflexivity; try exact H; try exact Ho; try exact Logic.I.
        -- left. reflexivity.
        -- discriminate.
    + (* set_pruning_policy *)
      cbn [exec_crit].
      assert (Ho : SetPolicy p = OpenLatest \/ (exists i, SetPolicy p = OpenId i) \/ (exists x, SetPolicy p = OpenSerial x) \/
                   (exists h', SetPolicy p = Close h') \/ (exists p', SetPolicy p = SetPolicy p')) by eauto 7.
      destruct (VersM.step (vz s) (SetPolicy p)) as [[z' r]|e|e] eqn:E.
      * apply (other_section_C s t (SetPolicy p)); try reflexivity; try exact H; try exact Ho; try exact Logic.I.
        -- right. eexists. exact E.
        -- discriminate.
      * apply invC_set_failed. apply (invC_fields (set_vz (set_pc s t (Rel Done)) (vz s))); try reflexivity.
        apply (other_section_C s t (SetPolicy p)); try reflexivity; try exact H; try exact Ho; try exact Logic.I.
        -- left. reflexivity.
        -- discriminate.
      * apply invC_set_failed. apply (invC_fields (set_vz (set_pc s t (Rel Done)) (vz s))); try reflexivity.
        apply (other_section_C s t (SetPolicy p)); try reflexivity; try exact H; try exact Ho; try exact Logic.I.
        -- left. reflexivity.
        -- discriminate.
  - (* Rel nx -> nx *)
    apply (invC_fields (set_pc s t nx)); try reflexivity.
    apply invC_move; rewrite ?Hpc; [exact H| | | |].
    + intros id E. apply (c_id s H t). rewrite Hpc. exact E.
    + pose proof (c_track s H t) as T. rewrite Hpc in T. exact T.
    + auto.
    + auto.
  - (* Wait -> Acq *)
    apply invC_move; rewrite ?Hpc; [exact H|discriminate|exact Logic.I|auto|discriminate].
  - (* SetupId: the unlocked read of the newest id *)
    apply invC_move; rewrite ?Hpc; [exact H| |exact Logic.I|auto|discriminate].
    intros id E. inversion E. reflexivity.
  - (* SetupBase: the unlocked read of the newest content *)
    destruct (body_pc_carries (prg s t) id (base_content (prg s t) (vz s)) false (edits_of (prg s t))) as [K1 [K2 K3]].
    apply invC_move; rewrite ?Hpc; [exact H| | |auto|].
    + intros id' E. rewrite K1 in E. inversion E; subst. apply (c_id s H t). rewrite Hpc. reflexivity.
    + apply body_pc_track. reflexivity.
    + intros i c E. rewrite K3 in E. discriminate.
  - pose proof (c_track s H t) as T. rewrite Hpc in T. cbn in T.
    destruct todo as [|e todo].
    + destruct (body_pc_carries (prg s t) id c ch []) as [K1 [K2 K3]].
      apply invC_move; rewrite ?Hpc; [exact H| | |auto|].
      * intros id' E. rewrite K1 in E. inversion E; subst. apply (c_id s H t). rewrite Hpc. reflexivity.
      * apply body_pc_track. exact T.
      * intros i x E. rewrite K3 in E. discriminate.
    + destruct (body_pc_carries (prg s t) id (fst (apply_edit e (c, ch))) (snd (apply_edit e (c, ch))) todo) as [K1 [K2 K3]].
      apply invC_move; rewrite ?Hpc; [exact H| | |auto|].
      * intros id' E. rewrite K1 in E. inversion E; subst. apply (c_id s H t). rewrite Hpc. reflexivity.
      * apply body_pc_track. rewrite <- surjective_pairing. exact T.
      * intros i x E. rewrite K3 in E. discriminate.
  - apply invC_move; rewrite ?Hpc; [exact H|discriminate|exact Logic.I|discriminate|discriminate].
  - discriminate.
Qed.
