(* C09: the per-record premise of zone_roundtrip (rdata_ok) holds for every record of the
   modelled field-list types whose fields are in range (names printed as stored). *)
From DV Require Import Base.Prelude Model.NameM Model.ZoneTextM.
From DV Require Import Proofs.NameValid Proofs.NameText Proofs.NameTok Proofs.NameOrder Proofs.NameRel.
From DV Require Import Proofs.ZoneTextBase Proofs.ZoneTextLex Proofs.ZoneTextRead Proofs.ZoneTextRecord Proofs.ZoneTextSweep
  Proofs.ZoneTextRoundtrip Proofs.ZoneTextNames.
Open Scope Z_scope.
Ltac Zify.zify_post_hook ::= Z.to_euclidean_division_equations.

(* ---------- tokens without delimiters or backslashes ---------- *)
Definition plain_char (c : Z) : bool := negb (is_delim c) && negb (c =? 92).
Definition plain_tok (v : list Z) : bool := negb (zlen v =? 0) && forallb plain_char v.

Lemma plain_go_clean v : forallb plain_char v = true -> id_clean_go v false = true.
Proof.
  induction v as [|c v IH]; [reflexivity|]. cbn [forallb id_clean_go]. intros H.
  apply andb_true_iff in H as [Hc Hv]. unfold plain_char in Hc. apply andb_true_iff in Hc as [H1 H2].
  apply negb_true_iff in H2. rewrite H2, H1. apply IH. exact Hv.
Qed.

Lemma plain_clean v : plain_tok v = true -> id_clean v = true.
Proof.
  unfold plain_tok. intros H. apply andb_true_iff in H as [Hn Hv].
  destruct v as [|c v]; [discriminate|]. unfold id_clean. apply plain_go_clean. exact Hv.
Qed.

Lemma plain_unescape v : forallb plain_char v = true -> tok_unescape v = Ok v.
Proof.
  induction v as [|c v IH]; [reflexivity|]. cbn [forallb tok_unescape]. intros H.
  apply andb_true_iff in H as [Hc Hv]. unfold plain_char in Hc. apply andb_true_iff in Hc as [_ H2].
  apply negb_true_iff in H2. rewrite H2, (IH Hv). reflexivity.
Qed.

Lemma digits_plain v : all_digits v = true -> forallb plain_char v = true.
Proof.
  induction v as [|c v IH]; [reflexivity|]. unfold all_digits. cbn [forallb]. intros H.
  apply andb_true_iff in H as [Hc Hv]. rewrite (IH Hv), andb_true_r.
  unfold is_digit in Hc. apply andb_true_iff in Hc as [H1 H2]. apply Z.leb_le in H1, H2.
  unfold plain_char, is_delim.
  repeat match goal with |- context [c =? ?k] => replace (c =? k) with false by (symmetry; apply Z.eqb_neq; lia) end.
  reflexivity.
Qed.

Lemma dec_plain z : 0 <= z -> plain_tok (dec z) = true /\ forallb plain_char (dec z) = true.
Proof.
  intros Hz. destruct (dec_spec z Hz) as (Ha & _ & Hne).
  pose proof (digits_plain _ Ha) as Hp. split; [|exact Hp].
  unfold plain_tok. rewrite Hp, andb_true_r. destruct (dec z); [congruence|reflexivity].
Qed.

(* ---------- character-strings: _escapify then unescape_to_bytes ---------- *)
Definition is_octet (c : Z) : Prop := 0 <= c < 256.

Lemma tu_esc c r : is_digit c = false ->
  tok_unescape (92 :: c :: r) = (do t <- tok_unescape r; Ok (c :: t)).
Proof. intros H. cbn. rewrite H. reflexivity. Qed.

Lemma tu_plain c r : (c =? 92) = false -> tok_unescape (c :: r) = (do t <- tok_unescape r; Ok (c :: t)).
Proof. intros H. cbn. rewrite H. reflexivity. Qed.

Lemma tu_ddd d1 d2 d3 r : is_digit d1 = true -> is_digit d2 = true -> is_digit d3 = true ->
  tok_unescape (92 :: d1 :: d2 :: d3 :: r) =
  (let cp := (d1 - 48) * 100 + (d2 - 48) * 10 + (d3 - 48) in
   if cp >? 255 then Lib eSyntax else do t <- tok_unescape r; Ok (cp :: t)).
Proof. intros H1 H2 H3. cbn. rewrite H1, H2, H3. reflexivity. Qed.

Lemma unescape_escapify x : Forall is_octet x -> tok_unescape (escapify_q x) = Ok x.
Proof.
  induction 1 as [|c x Hc _ IH]; [reflexivity|]. unfold is_octet in Hc.
  unfold escapify_q in *. cbn [flat_map]. unfold esc_qoctet at 1.
  destruct ((c =? 34) || (c =? 92)) eqn:E.
  - cbn [app].
    assert (Hd : is_digit c = false).
    { apply orb_true_iff in E as [E|E]; apply Z.eqb_eq in E; subst; reflexivity. }
    rewrite (tu_esc c _ Hd), IH. reflexivity.
  - apply orb_false_iff in E as [_ E92].
    destruct ((32 <=? c) && (c <? 127)) eqn:P.
    + cbn [app]. rewrite (tu_plain c _ E92), IH. reflexivity.
    + cbn [app].
      assert (D1 : is_digit (48 + c / 100) = true) by (apply is_digit_char; lia).
      assert (D2 : is_digit (48 + (c / 10) mod 10) = true) by (apply is_digit_char; lia).
      assert (D3 : is_digit (48 + c mod 10) = true) by (apply is_digit_char; lia).
      rewrite (tu_ddd _ _ _ _ D1 D2 D3). cbv zeta.
      replace ((48 + c / 100 - 48) * 100 + (48 + (c / 10) mod 10 - 48) * 10 + (48 + c mod 10 - 48)) with c by lia.
      replace (c >? 255) with false by (symmetry; rewrite Z.gtb_ltb; apply Z.ltb_ge; lia).
      rewrite IH. reflexivity.
Qed.

Lemma qc_esc c r : q_clean_go (92 :: c :: r) false = q_clean_go r false.
Proof. reflexivity. Qed.

Lemma qc_plain c r : (c =? 92) = false -> (c =? 34) = false -> (c =? 10) = false ->
  q_clean_go (c :: r) false = q_clean_go r false.
Proof. intros H1 H2 H3. cbn. rewrite H1, H2, H3. reflexivity. Qed.

Lemma escapify_q_clean x : Forall is_octet x -> q_clean (escapify_q x) = true.
Proof.
  unfold q_clean. induction 1 as [|c x Hc _ IH]; [reflexivity|]. unfold is_octet in Hc.
  unfold escapify_q in *. cbn [flat_map]. unfold esc_qoctet at 1.
  destruct ((c =? 34) || (c =? 92)) eqn:E.
  - cbn [app]. rewrite qc_esc. exact IH.
  - apply orb_false_iff in E as [E34 E92].
    destruct ((32 <=? c) && (c <? 127)) eqn:P.
    + cbn [app]. apply andb_true_iff in P as [P1 _]. apply Z.leb_le in P1.
      rewrite qc_plain; [exact IH|exact E92|exact E34|apply Z.eqb_neq; lia].
    + cbn [app]. rewrite qc_esc.
      rewrite qc_plain; [|apply Z.eqb_neq; lia|apply Z.eqb_neq; lia|apply Z.eqb_neq; lia].
      rewrite qc_plain; [exact IH|apply Z.eqb_neq; lia|apply Z.eqb_neq; lia|apply Z.eqb_neq; lia].
Qed.

Lemma quoted_string_roundtrip_proof x : Forall is_octet x ->
  tok_unescape (escapify_q x) = Ok x /\ q_clean (escapify_q x) = true.
Proof. intros H. split; [apply unescape_escapify|apply escapify_q_clean]; exact H. Qed.

(* ---------- fields ---------- *)
Section Fields.
  Variable rel : bool.
  Variable zo : name.
  Hypothesis Hzo : Valid zo /\ AllBytes zo /\ is_absolute zo = true.

  (* a domain name as a zone stores it: relative = under the origin (relativized zone only),
     absolute and - in a relativized zone - not under the origin *)
  Definition name_field_ok (n : name) : Prop :=
    Valid n /\ AllBytes n /\
    if rel then (is_absolute n = false /\ Valid (n ++ zo)) \/ (is_absolute n = true /\ is_subdomain n zo = false)
    else is_absolute n = true.

  Lemma name_field_rt n : name_field_ok n -> as_name false (to_text n) (Some zo) rel (Some zo) = Ok n.
  Proof.
    intros (V & B & H). destruct Hzo as (Vz & Bz & Az).
    unfold as_name. rewrite (text_roundtrip_origin n (Some zo) V B).
    destruct zo as [|z0 z'] eqn:Ez; [discriminate|]. rewrite <- Ez in *.
    destruct rel.
    - destruct H as [[A Vn]|[A Hs]]; rewrite A.
      + rewrite (mk_name_valid _ Vn). cbn [lift_name bind].
        destruct (derel_rel n zo V Vz A Az Vn) as [_ Hr].
        rewrite Ez. cbn [choose_relativity]. rewrite <- Ez, Hr. reflexivity.
      + cbn [lift_name bind]. rewrite Ez. cbn [choose_relativity]. rewrite <- Ez.
        unfold relativize. rewrite Hs. reflexivity.
    - rewrite H. cbn [lift_name bind]. rewrite (choose_derel_abs n (Some zo) H). reflexivity.
  Qed.

  Definition fval_ok (k : fkind) (f : fval) : Prop :=
    match k, f with
    | KName, VName n => name_field_ok n
    | KTok, VTok v => plain_tok v = true
    | KIPv4, VTok v => plain_tok v = true /\ ipv4_ok v = true
    | KU mx, VInt z => 0 <= z <= mx
    | KTtl, VInt z => 0 <= z <= MAX_TTL
    | _, _ => False
    end.

  Definition fval_tok (f : fval) : tok :=
    match f with
    | VName n => TId (to_text n)
    | VTok v => TId v
    | VInt z => TId (dec z)
    | _ => TId []
    end.

  Fixpoint rdata_fits (ks : list fkind) (rd : rdata) : Prop :=
    match ks, rd with
    | [], [] => True
    | [KStrs], [VStrs l] => l <> [] /\ Forall (fun x => Forall is_octet x /\ zlen x <= 255) l
    | [KRest ae], [VRest l] => Forall (fun v => plain_tok v = true) l /\ (l = [] -> ae = true)
    | k :: ks', f :: rd' =>
        match k with
        | KStrs | KRest _ | KType => False
        | _ => fval_ok k f /\ rdata_fits ks' rd'
        end
    | _, _ => False
    end.

  Fixpoint rd_toks (rd : rdata) : list tok :=
    match rd with
    | [] => []
    | VStrs l :: r => map (fun x => TQ (escapify_q x)) l ++ rd_toks r
    | VRest l :: r => map TId l ++ rd_toks r
    | f :: r => fval_tok f :: rd_toks r
    end.

  Lemma strs_parse l : Forall (fun x => Forall is_octet x /\ zlen x <= 255) l ->
    (fix go (l0 : list tok) : res (list (list Z)) :=
       match l0 with
       | [] => Ok []
       | t :: l' => do b <- tok_unescape (tokval t);
                    if zlen b >? 255 then Lib eSyntax else do rest <- go l'; Ok (b :: rest)
       end) (map (fun x => TQ (escapify_q x)) l) = Ok l.
  Proof.
    induction 1 as [|x l [Hb Hl] _ IH]; [reflexivity|].
    cbn [map tokval]. rewrite (unescape_escapify x Hb). cbn [bind].
    replace (zlen x >? 255) with false by (symmetry; rewrite Z.gtb_ltb; apply Z.ltb_ge; lia).
    rewrite IH. reflexivity.
  Qed.

  Lemma all_ids_map l : all_ids (map TId l) = Some l.
  Proof. induction l as [|v l IH]; [reflexivity|]. cbn [map all_ids]. rewrite IH. reflexivity. Qed.

  Lemma parse_fields_fits : forall ks rd, rdata_fits ks rd -> parse_fields ks (rd_toks rd) zo rel zo = Ok rd.
  Proof.
    induction ks as [|k ks IH]; intros rd H.
    - destruct rd; [reflexivity|destruct H].
    - destruct rd as [|f rd]; [destruct k; destruct ks; try destruct H; destruct H|].
      destruct k.
      + (* KName *) cbn [rdata_fits] in H. destruct H as [Hf Hr]. destruct f; cbn [fval_ok] in Hf; try contradiction.
        cbn [rd_toks fval_tok parse_fields]. rewrite (name_field_rt n Hf). cbn [bind].
        rewrite (IH rd Hr). reflexivity.
      + (* KTok *) cbn [rdata_fits] in H. destruct H as [Hf Hr]. destruct f; cbn [fval_ok] in Hf; try contradiction.
        cbn [rd_toks fval_tok parse_fields tokval].
        unfold plain_tok in Hf. apply andb_true_iff in Hf as [_ Hp].
        rewrite (plain_unescape v Hp). cbn [bind]. rewrite (IH rd Hr). reflexivity.
      + (* KIPv4 *) cbn [rdata_fits] in H. destruct H as [Hf Hr]. destruct f; cbn [fval_ok] in Hf; try contradiction.
        cbn [rd_toks fval_tok parse_fields]. destruct Hf as [Hp Hi].
        unfold plain_tok in Hp. apply andb_true_iff in Hp as [_ Hp].
        rewrite (plain_unescape v Hp). cbn [bind]. rewrite Hi. cbn [bind]. rewrite (IH rd Hr). reflexivity.
      + (* KU *) cbn [rdata_fits] in H. destruct H as [Hf Hr]. destruct f; cbn [fval_ok] in Hf; try contradiction.
        cbn [rd_toks fval_tok parse_fields].
        destruct (dec_spec z ltac:(lia)) as (Ha & Hi & Hne). destruct (dec_plain z ltac:(lia)) as [_ Hp].
        rewrite (plain_unescape _ Hp). cbn [bind]. rewrite Ha, Hi.
        replace (zlen (dec z) =? 0) with false by (symmetry; apply Z.eqb_neq; unfold zlen; destruct (dec z); [congruence|cbn; lia]).
        replace (z <=? max) with true by (symmetry; apply Z.leb_le; lia). cbn [negb andb bind].
        rewrite (IH rd Hr). reflexivity.
      + (* KTtl *) cbn [rdata_fits] in H. destruct H as [Hf Hr]. destruct f; cbn [fval_ok] in Hf; try contradiction.
        cbn [rd_toks fval_tok parse_fields].
        destruct (dec_plain z ltac:(lia)) as [_ Hp].
        rewrite (plain_unescape _ Hp). cbn [bind]. rewrite (ttl_from_text_dec z Hf). cbn [bind].
        rewrite (IH rd Hr). reflexivity.
      + (* KType *) destruct ks; destruct H.
      + (* KStrs *) destruct ks; [|destruct H]. destruct f; try destruct H. destruct rd; [|destruct H].
        destruct H as [Hne Hl]. cbn [rd_toks]. rewrite app_nil_r.
        pose proof (strs_parse l Hl) as Hs.
        destruct l as [|x l']; [congruence|]. cbn [map] in *. cbn [parse_fields]. rewrite Hs. reflexivity.
      + (* KRest *) destruct ks; [|destruct H]. destruct f; try destruct H. destruct rd; [|destruct H].
        destruct H as [Hl Hae]. cbn [rd_toks parse_fields]. rewrite app_nil_r, all_ids_map.
        destruct l; [rewrite (Hae eq_refl)|]; reflexivity.
  Qed.
End Fields.

(* ---------- the text of the record and its tokens ---------- *)
Lemma to_text_not_hash (n : name) : Forall (fun l => Forall (fun c => 0 <= c) l) n -> to_text n <> [92; 35].
Proof.
  unfold name, label in *. intros HB. destruct n as [|x n]; [discriminate|].
  destruct x as [|c x].
  - destruct n as [|y n]; [discriminate|].
    change (to_text ([] :: y :: n)) with ([] ++ 46 :: join_dot (map escapify (y :: n))). discriminate.
  - change (to_text ((c :: x) :: n)) with (join_dot (map escapify ((c :: x) :: n))).
    assert (Hh : exists r, join_dot (map escapify ((c :: x) :: n)) = esc_octet c ++ r).
    { destruct n as [|y n].
      - cbn [map join_dot]. unfold escapify. cbn [flat_map]. eauto.
      - change (join_dot (map escapify ((c :: x) :: y :: n)))
          with (escapify (c :: x) ++ 46 :: join_dot (map escapify (y :: n))).
        unfold escapify at 1. cbn [flat_map]. rewrite <- app_assoc. eauto. }
    destruct Hh as (r & ->). intros H.
    unfold esc_octet in H. destruct (escaped c) eqn:E.
    + cbn [app] in H. inversion H; subst. discriminate.
    + destruct ((c >? 32) && (c <? 127)).
      * cbn [app] in H. inversion H; subst. cbn in E. discriminate E.
      * cbn [app] in H. inversion H.
Qed.

Section RdataOk.
  Variable c : cfg.
  Variable st : style.
  Variable zo : name.
  Hypothesis Hzo : Valid zo /\ AllBytes zo /\ is_absolute zo = true.
  Hypothesis Hplain : st_origin st = None.
  Let rel := c_rel c.

  Lemma fvals_text_plain rd :
    fvals_text (st_origin st) (st_relativize st) false rd = Ok (map render_tok (rd_toks rd)).
  Proof.
    induction rd as [|f rd IH]; [reflexivity|]. cbn [fvals_text]. rewrite IH. cbn [bind].
    destruct f; cbn [rd_toks fval_tok map render_tok].
    - rewrite Hplain. reflexivity.
    - reflexivity.
    - reflexivity.
    - rewrite map_app, map_map. reflexivity.
    - rewrite map_app, map_map. cbn [render_tok]. rewrite map_id. reflexivity.
  Qed.

  Lemma rd_toks_clean : forall ks rd, rdata_fits rel zo ks rd -> forallb tok_clean (rd_toks rd) = true.
  Proof.
    induction ks as [|k ks IH]; intros rd H.
    - destruct rd; [reflexivity|destruct H].
    - destruct rd as [|f rd]; [destruct k; destruct ks; try destruct H; destruct H|].
      destruct k.
      + destruct H as [Hf Hr]. destruct f; cbn [fval_ok] in Hf; try contradiction.
        cbn [rd_toks fval_tok forallb tok_clean]. destruct Hf as (_ & B & _).
        rewrite (to_text_id_clean n B), (IH rd Hr). reflexivity.
      + destruct H as [Hf Hr]. destruct f; cbn [fval_ok] in Hf; try contradiction.
        cbn [rd_toks fval_tok forallb tok_clean]. rewrite (plain_clean v Hf), (IH rd Hr). reflexivity.
      + destruct H as [Hf Hr]. destruct f; cbn [fval_ok] in Hf; try contradiction.
        cbn [rd_toks fval_tok forallb tok_clean]. destruct Hf as [Hp _].
        rewrite (plain_clean v Hp), (IH rd Hr). reflexivity.
      + destruct H as [Hf Hr]. destruct f; cbn [fval_ok] in Hf; try contradiction.
        cbn [rd_toks fval_tok forallb tok_clean]. destruct (dec_plain z ltac:(lia)) as [Hp _].
        rewrite (plain_clean _ Hp), (IH rd Hr). reflexivity.
      + destruct H as [Hf Hr]. destruct f; cbn [fval_ok] in Hf; try contradiction.
        cbn [rd_toks fval_tok forallb tok_clean]. destruct (dec_plain z ltac:(lia)) as [Hp _].
        rewrite (plain_clean _ Hp), (IH rd Hr). reflexivity.
      + destruct ks; destruct H.
      + destruct ks; [|destruct H]. destruct f; try destruct H. destruct rd; [|destruct H].
        destruct H as [_ Hl]. cbn [rd_toks]. rewrite app_nil_r.
        induction Hl as [|x l [Hb _] _ IHl]; [reflexivity|]. cbn [map forallb tok_clean].
        rewrite (escapify_q_clean x Hb), IHl. reflexivity.
      + destruct ks; [|destruct H]. destruct f; try destruct H. destruct rd; [|destruct H].
        destruct H as [Hl _]. cbn [rd_toks]. rewrite app_nil_r.
        induction Hl as [|x l Hx _ IHl]; [reflexivity|]. cbn [map forallb tok_clean].
        rewrite (plain_clean x Hx), IHl. reflexivity.
  Qed.

  Lemma plain_not_hash v : plain_tok v = true -> v <> [92; 35].
  Proof.
    unfold plain_tok. intros H Hv. subst. cbn in H. discriminate.
  Qed.

  Definition not_generic_start (toks : list tok) : Prop :=
    match toks with TId [92; 35] :: _ => False | _ => True end.

  Lemma not_generic_intro v r : v <> [92; 35] -> not_generic_start (TId v :: r).
  Proof.
    intros H. unfold not_generic_start.
    destruct v as [|c0 v]; [exact Logic.I|].
    destruct c0 as [|p|p]; try exact Logic.I.
    repeat (destruct p as [p|p|]; try exact Logic.I).
    destruct v as [|c1 v]; [exact Logic.I|].
    destruct c1 as [|p|p]; try exact Logic.I.
    repeat (destruct p as [p|p|]; try exact Logic.I).
    destruct v; [congruence|exact Logic.I].
  Qed.

  Lemma rd_toks_not_generic ks rd : rdata_fits rel zo ks rd -> not_generic_start (rd_toks rd).
  Proof.
    destruct ks as [|k ks]; intros H.
    - destruct rd; [exact Logic.I|destruct H].
    - destruct rd as [|f rd]; [exact Logic.I|].
      destruct k.
      + destruct H as [Hf _]. destruct f; cbn [fval_ok] in Hf; try contradiction.
        cbn [rd_toks fval_tok]. apply not_generic_intro. apply to_text_not_hash.
        destruct Hf as (_ & B & _). eapply Forall_impl; [|exact B].
        intros l Hl. eapply Forall_impl; [|exact Hl]. intros a Ha. cbn in Ha. lia.
      + destruct H as [Hf _]. destruct f; cbn [fval_ok] in Hf; try contradiction.
        cbn [rd_toks fval_tok]. apply not_generic_intro, plain_not_hash. exact Hf.
      + destruct H as [Hf _]. destruct f; cbn [fval_ok] in Hf; try contradiction.
        cbn [rd_toks fval_tok]. apply not_generic_intro, plain_not_hash. apply Hf.
      + destruct H as [Hf _]. destruct f; cbn [fval_ok] in Hf; try contradiction.
        cbn [rd_toks fval_tok]. apply not_generic_intro, plain_not_hash. apply dec_plain. lia.
      + destruct H as [Hf _]. destruct f; cbn [fval_ok] in Hf; try contradiction.
        cbn [rd_toks fval_tok]. apply not_generic_intro, plain_not_hash. apply dec_plain. lia.
      + destruct ks; destruct H.
      + destruct ks; [|destruct H]. destruct f; try destruct H. destruct rd; [|destruct H].
        cbn [rd_toks]. destruct l; exact Logic.I.
      + destruct ks; [|destruct H]. destruct f; try destruct H. destruct rd; [|destruct H].
        destruct H as [Hl _]. cbn [rd_toks]. destruct l as [|x l]; [exact Logic.I|].
        cbn [map app]. apply not_generic_intro, plain_not_hash. inversion Hl; assumption.
  Qed.

  (* the per-record premise of zone_roundtrip, for every in-range record of a modelled type *)
  Theorem rdata_ok_fits_proof ty m ks rd :
    tbl_by_code type_table ty = Some (m, ks) -> ty <> tRRSIG ->
    rdata_fits rel zo ks rd ->
    rdata_ok c st zo ty rd (rd_toks rd).
  Proof.
    intros Htbl Hrr Hfit. unfold rdata_ok.
    split; [|split].
    - unfold rdata_text. rewrite fvals_text_plain. cbn [bind]. rewrite Htbl.
      assert (E : (ty =? tRRSIG) = false) by (apply Z.eqb_neq; exact Hrr).
      destruct rd as [|f rd']; [reflexivity|].
      destruct f; try reflexivity.
      cbn [rd_toks fval_tok map render_tok]. rewrite E. reflexivity.
    - apply (rd_toks_clean ks). exact Hfit.
    - unfold parse_rdata. rewrite Htbl.
      pose proof (rd_toks_not_generic ks rd Hfit) as Hng.
      pose proof (parse_fields_fits rel zo Hzo ks rd Hfit) as Hp. fold rel.
      assert (Hgoal : (do rd0 <- parse_fields ks (rd_toks rd) zo rel zo; if false then Lib eSyntax else Ok rd0) = Ok rd)
        by (rewrite Hp; reflexivity).
      revert Hng Hgoal. unfold not_generic_start.
      destruct (rd_toks rd) as [|t0 tl]; [intros _ H; exact H|].
      destruct t0 as [v|v]; [|intros _ H; exact H].
      destruct v as [|c0 v]; [intros _ H; exact H|].
      destruct c0 as [|p|p]; try (intros _ H; exact H).
      repeat (destruct p as [p|p|]; try (intros _ H; exact H)).
      destruct v as [|c1 v]; [intros _ H; exact H|].
      destruct c1 as [|p|p]; try (intros _ H; exact H).
      repeat (destruct p as [p|p|]; try (intros _ H; exact H)).
      destruct v; [intros []|intros _ H; exact H].
  Qed.
End RdataOk.

(* ---------- RRSIG (first field: the covered type, printed as a mnemonic) and the RFC 3597 form
   of unknown types ---------- *)
Definition rrsig_tail : list fkind := [KTok; KTok; KTtl; KTok; KTok; KTok; KName; KRest false].

Definition hex_lower (h : list Z) : bool :=
  forallb (fun c => is_digit c || ((97 <=? c) && (c <=? 102))) h.

Lemma hex_lower_facts h : hex_lower h = true ->
  forallb is_hex h = true /\ lower_l h = h /\ forallb plain_char h = true.
Proof.
  induction h as [|c h IH]; [repeat split; reflexivity|]. unfold hex_lower. cbn [forallb]. intros H.
  apply andb_true_iff in H as [Hc Hr]. destruct (IH Hr) as (I1 & I2 & I3).
  assert (Hb : (48 <= c <= 57) \/ (97 <= c <= 102)).
  { apply orb_true_iff in Hc as [Hc|Hc].
    - unfold is_digit in Hc. apply andb_true_iff in Hc as [A B]. apply Z.leb_le in A, B. lia.
    - apply andb_true_iff in Hc as [A B]. apply Z.leb_le in A, B. lia. }
  split; [|split].
  - cbn [forallb]. rewrite I1, andb_true_r. unfold is_hex. rewrite Hc. reflexivity.
  - cbn [lower_l map]. fold (lower_l h). rewrite I2. f_equal. unfold lower.
    replace ((65 <=? c) && (c <=? 90)) with false; [reflexivity|].
    symmetry. apply andb_false_iff. destruct Hb; [left; apply Z.leb_gt; lia|right; apply Z.leb_gt; lia].
  - cbn [forallb]. rewrite I3, andb_true_r. unfold plain_char, is_delim.
    repeat match goal with |- context [c =? ?k] => replace (c =? k) with false by (symmetry; apply Z.eqb_neq; lia) end.
    reflexivity.
Qed.

Section RdataOk2.
  Variable c : cfg.
  Variable st : style.
  Variable zo : name.
  Hypothesis Hzo : Valid zo /\ AllBytes zo /\ is_absolute zo = true.
  Hypothesis Hplain : st_origin st = None.
  Local Notation rel := (c_rel c).

  Theorem rdata_ok_rrsig_proof cov rest :
    0 <= cov <= 65535 -> rdata_fits rel zo rrsig_tail rest ->
    rdata_ok c st zo tRRSIG (VInt cov :: rest) (TId (type_to_text cov) :: rd_toks rest).
  Proof.
    intros Hc Hfit. destruct (type_ok_all cov Hc) as ((Hty & _ & _) & Hclean).
    unfold rdata_ok. split; [|split].
    - unfold rdata_text. rewrite (fvals_text_plain st Hplain). cbn [bind].
      cbn [rd_toks fval_tok map render_tok]. reflexivity.
    - cbn [forallb tok_clean]. rewrite Hclean. apply (rd_toks_clean c zo rrsig_tail). exact Hfit.
    - unfold parse_rdata.
      change (tbl_by_code type_table tRRSIG) with (Some ([82; 82; 83; 73; 71], KType :: rrsig_tail)).
      pose proof (parse_fields_fits rel zo Hzo rrsig_tail rest Hfit) as Hp.
      assert (Hgoal : (do rd0 <- parse_fields (KType :: rrsig_tail) (TId (type_to_text cov) :: rd_toks rest) zo rel zo;
                       if false then Lib eSyntax else Ok rd0) = Ok (VInt cov :: rest)).
      { cbn [parse_fields tokval]. rewrite Hty. cbn [bind]. fold rrsig_tail. rewrite Hp. reflexivity. }
      assert (Hnh : type_to_text cov <> [92; 35]) by (intros E; rewrite E in Hty; discriminate Hty).
      pose proof (not_generic_intro (type_to_text cov) (rd_toks rest) Hnh) as Hng.
      revert Hng Hgoal. unfold not_generic_start.
      destruct (type_to_text cov) as [|c0 v]; [intros _ H; exact H|].
      destruct c0 as [|p|p]; try (intros _ H; exact H).
      repeat (destruct p as [p|p|]; try (intros _ H; exact H)).
      destruct v as [|c1 v]; [intros _ H; exact H|].
      destruct c1 as [|p|p]; try (intros _ H; exact H).
      repeat (destruct p as [p|p|]; try (intros _ H; exact H)).
      destruct v; [intros []|intros _ H; exact H].
  Qed.

  Theorem rdata_ok_generic_proof ty n h :
    tbl_by_code type_table ty = None -> 0 < n -> hex_lower h = true -> zlen h = 2 * n ->
    rdata_ok c st zo ty [VTok [92; 35]; VInt n; VRest [h]] [TId [92; 35]; TId (dec n); TId h].
  Proof.
    intros Htbl Hn Hh Hl. destruct (hex_lower_facts h Hh) as (Hhex & Hlow & Hpl).
    destruct (dec_spec n ltac:(lia)) as (Ha & Hi & Hne). destruct (dec_plain n ltac:(lia)) as [Hdp Hdp'].
    assert (Hhne : h <> []) by (intro E; subst; cbn in Hl; lia).
    unfold rdata_ok. split; [|split].
    - unfold rdata_text. rewrite (fvals_text_plain st Hplain). cbn [bind]. rewrite Htbl.
      cbn [map render_tok join_sp concat]. rewrite app_nil_r. reflexivity.
    - cbn [forallb tok_clean]. rewrite (plain_clean _ Hdp).
      assert (Hpt : plain_tok h = true).
      { unfold plain_tok. rewrite Hpl, andb_true_r. destruct h; [congruence|reflexivity]. }
      rewrite (plain_clean _ Hpt). reflexivity.
    - unfold parse_rdata. rewrite Htbl. unfold parse_generic.
      rewrite (plain_unescape _ Hdp'). cbn [bind]. rewrite Ha.
      replace (zlen (dec n) =? 0) with false by (symmetry; apply Z.eqb_neq; unfold zlen; destruct (dec n); [congruence|cbn; lia]).
      cbn [negb andb all_ids unescape_all]. rewrite (plain_unescape _ Hpl). cbn [bind concat]. rewrite app_nil_r.
      rewrite Hhex, Hi, Hl, Z.eqb_refl. cbn [andb]. rewrite Hlow.
      destruct h; [congruence|reflexivity].
  Qed.
End RdataOk2.
