(* C08: with prefer_truncation the result is the rendering of a prefix (in section order) of the
   record sets, with TC set exactly when the cut lies before the additional section, and with
   the configured OPT and TSIG records. *)
From DV Require Import Base.Prelude Model.NameM Model.MessageM.
From DV Require Import Proofs.NameOrder Proofs.NameValid Proofs.NameRel Proofs.NameWire Proofs.NameCompress.
From DV Require Import Proofs.MessageName Proofs.MessageRender Proofs.MessageSize.
Open Scope Z_scope.

(* states that agree on everything but the current section and the header flags *)
Definition req (a b : rst) : Prop :=
  out a = out b /\ tbl a = tbl b /\ cq a = cq b /\ can a = can b /\ cau a = cau b /\ cad a = cad b /\
  maxsz a = maxsz b /\ reserved a = reserved b /\ padded a = padded b.

Lemma req_refl a : req a a.
Proof. unfold req. repeat split; reflexivity. Qed.

Lemma tracked_req E sec n a b ba a' :
  req a b -> rsec a <= sec -> rsec b <= sec -> tracked E sec n a = Ok (ba, a') ->
  exists b', tracked E sec n b = Ok (ba, b') /\ req a' b' /\
             rsec a' = sec /\ rsec b' = sec /\ rflags a' = rflags a /\ rflags b' = rflags b.
Proof.
  intros (E1 & E2 & E3 & E4 & E5 & E6 & E7 & E8 & E9) Ha Hb H. unfold tracked in *.
  assert (Sa : set_section sec a = Ok (set_rsec a sec)).
  { unfold set_section. destruct (Z.eqb_spec (rsec a) sec) as [e|e]; [destruct a; cbn in *; subst; reflexivity|].
    destruct (Z.gtb_spec (rsec a) sec); [lia|reflexivity]. }
  assert (Sb : set_section sec b = Ok (set_rsec b sec)).
  { unfold set_section. destruct (Z.eqb_spec (rsec b) sec) as [e|e]; [destruct b; cbn in *; subst; reflexivity|].
    destruct (Z.gtb_spec (rsec b) sec); [lia|reflexivity]. }
  rewrite Sa in H. rewrite Sb. cbn [bind out tbl set_rsec] in *. rewrite <- E1, <- E2.
  destruct (E (zlen (out a)) (tbl a)) as [[em t']| |]; cbn [bind fst snd] in *; try discriminate.
  unfold track_end in *. cbn [out set_out maxsz set_rsec] in *. rewrite <- E7.
  destruct (zlen (out a ++ em) >? maxsz a).
  - injection H as <- <-. eexists. split; [reflexivity|].
    unfold req, rollback. cbn [out tbl cq can cau cad maxsz reserved padded rsec rflags set_out set_rsec].
    repeat split; try reflexivity; try assumption; try congruence.
  - injection H as <- <-. eexists. split; [reflexivity|].
    unfold req. cbn [out tbl cq can cau cad maxsz reserved padded rsec rflags inc_count set_out set_rsec].
    rewrite ?E3, ?E4, ?E5, ?E6. repeat split; try reflexivity; try assumption; try congruence.
Qed.

Lemma add_questions_req o : forall l a b ba a',
  req a b -> rsec a <= 0 -> rsec b <= 0 -> add_questions o l a = Ok (ba, a') ->
  exists b', add_questions o l b = Ok (ba, b') /\ req a' b' /\ rsec a' <= 0 /\ rsec b' <= 0 /\
             rflags a' = rflags a /\ rflags b' = rflags b.
Proof.
  induction l as [|rs l IH]; intros a b ba a' R Ha Hb H.
  - injection H as <- <-. exists b. split; [reflexivity|]. split; [exact R|]. auto.
  - cbn [add_questions] in *. apply bind_ok in H. destruct H as ([b1 a1] & H1 & H).
    rewrite add_question_tracked in H1. rewrite add_question_tracked.
    destruct (tracked_req _ _ _ _ _ _ _ R Ha Hb H1) as (b1' & T & R' & S1 & S2 & F1 & F2).
    rewrite T. cbn [bind fst snd] in *. destruct b1.
    + injection H as <- <-. exists b1'. split; [reflexivity|]. split; [exact R'|]. repeat split; try assumption; lia.
    + destruct (IH _ _ _ _ R' ltac:(lia) ltac:(lia) H) as (b' & T' & R'' & S1' & S2' & F1' & F2').
      exists b'. split; [exact T'|]. split; [exact R''|]. repeat split; try assumption; congruence.
Qed.

Lemma add_rrsets_req o sec : forall l a b ba a',
  req a b -> rsec a <= sec -> rsec b <= sec -> add_rrsets o sec l a = Ok (ba, a') ->
  exists b', add_rrsets o sec l b = Ok (ba, b') /\ req a' b' /\ rsec a' <= sec /\ rsec b' <= sec /\
             rflags a' = rflags a /\ rflags b' = rflags b.
Proof.
  induction l as [|rs l IH]; intros a b ba a' R Ha Hb H.
  - injection H as <- <-. exists b. split; [reflexivity|]. split; [exact R|]. auto.
  - cbn [add_rrsets] in *. apply bind_ok in H. destruct H as ([b1 a1] & H1 & H).
    rewrite add_rrset_tracked in H1. rewrite add_rrset_tracked.
    destruct (tracked_req _ _ _ _ _ _ _ R Ha Hb H1) as (b1' & T & R' & S1 & S2 & F1 & F2).
    rewrite T. cbn [bind fst snd] in *. destruct b1.
    + injection H as <- <-. exists b1'. split; [reflexivity|]. split; [exact R'|]. repeat split; try assumption; lia.
    + destruct (IH _ _ _ _ R' ltac:(lia) ltac:(lia) H) as (b' & T' & R'' & S1' & S2' & F1' & F2').
      exists b'. split; [exact T'|]. split; [exact R''|]. repeat split; try assumption; congruence.
Qed.

(* ---------- where a section loop stops ---------- *)
Lemma add_rrsets_cut o sec : forall l r b r',
  add_rrsets o sec l r = Ok (b, r') ->
  exists l1 l2 r1, l = l1 ++ l2 /\ add_rrsets o sec l1 r = Ok (false, r1) /\
    ((b = false /\ l2 = [] /\ r' = r1) \/
     (b = true /\ exists rs l3, l2 = rs :: l3 /\ add_rrset o sec rs r1 = Ok (true, r'))).
Proof.
  induction l as [|rs l IH]; intros r b r' H.
  - injection H as <- <-. exists [], [], r. split; [reflexivity|]. split; [reflexivity|]. left. auto.
  - cbn [add_rrsets] in H. apply bind_ok in H. destruct H as ([b1 r1] & H1 & H). cbn [fst snd] in H.
    destruct b1.
    + injection H as <- <-. exists [], (rs :: l), r. split; [reflexivity|]. split; [reflexivity|].
      right. split; [reflexivity|]. exists rs, l. auto.
    + destruct (IH _ _ _ H) as (l1 & l2 & r2 & -> & A & B).
      exists (rs :: l1), l2, r2. split; [reflexivity|]. split; [|exact B].
      cbn [add_rrsets]. rewrite H1. cbn [bind fst snd]. exact A.
Qed.

Lemma add_questions_cut o : forall l r b r',
  add_questions o l r = Ok (b, r') ->
  exists l1 l2 r1, l = l1 ++ l2 /\ add_questions o l1 r = Ok (false, r1) /\
    ((b = false /\ l2 = [] /\ r' = r1) \/
     (b = true /\ exists rs l3, l2 = rs :: l3 /\
                  add_question o (rname rs) (rtype rs) (rclass rs) r1 = Ok (true, r'))).
Proof.
  induction l as [|rs l IH]; intros r b r' H.
  - injection H as <- <-. exists [], [], r. split; [reflexivity|]. split; [reflexivity|]. left. auto.
  - cbn [add_questions] in H. apply bind_ok in H. destruct H as ([b1 r1] & H1 & H). cbn [fst snd] in H.
    destruct b1.
    + injection H as <- <-. exists [], (rs :: l), r. split; [reflexivity|]. split; [reflexivity|].
      right. split; [reflexivity|]. exists rs, l. auto.
    + destruct (IH _ _ _ H) as (l1 & l2 & r2 & -> & A & B).
      exists (rs :: l1), l2, r2. split; [reflexivity|]. split; [|exact B].
      cbn [add_questions]. rewrite H1. cbn [bind fst snd]. exact A.
Qed.

(* ---------- the tail of Message.to_wire ---------- *)
Definition finish (m : msg) (origin : option name) (pad ores tres : Z) (r3 : rst) : res rst :=
  let r4 := release_reserved r3 in
  do r5 <- match mopt m with
           | Some o => do br <- add_opt origin o pad ores tres r4; raise_if_big br
           | None => Ok r4
           end;
  do r6 <- write_header (mid m) r5;
  match mtsig m with
  | Some (kn, rd) =>
      do br <- write_tsig origin kn rd r6;
      do r7 <- raise_if_big br;
      write_header (mid m) r7
  | None => Ok r6
  end.

Lemma write_header_req id a b a' :
  req a b -> rflags a = rflags b -> write_header id a = Ok a' ->
  exists b', write_header id b = Ok b' /\ req a' b' /\ out a' = out b' /\
             rsec a' = rsec a /\ rsec b' = rsec b /\ rflags a' = rflags a /\ rflags b' = rflags b.
Proof.
  intros (E1 & E2 & E3 & E4 & E5 & E6 & E7 & E8 & E9) EF H. unfold write_header in *.
  rewrite <- EF, <- E3, <- E4, <- E5, <- E6, <- E1, <- E2.
  destruct (pack16 id) as [x0| |]; cbn [bind] in *; try discriminate.
  destruct (pack16 (rflags a)) as [x1| |]; cbn [bind] in *; try discriminate.
  destruct (pack16 (cq a)) as [x2| |]; cbn [bind] in *; try discriminate.
  destruct (pack16 (can a)) as [x3| |]; cbn [bind] in *; try discriminate.
  destruct (pack16 (cau a)) as [x4| |]; cbn [bind] in *; try discriminate.
  destruct (pack16 (cad a)) as [x5| |]; cbn [bind] in *; try discriminate.
  injection H as <-. eexists. split; [reflexivity|].
  unfold req. cbn [out tbl cq can cau cad maxsz reserved padded rsec rflags set_out].
  repeat split; try reflexivity; try assumption; symmetry; assumption.
Qed.

Lemma add_opt_req o opt pad x y a b ba a' :
  req a b -> rsec a <= 3 -> rsec b <= 3 -> add_opt o opt pad x y a = Ok (ba, a') ->
  exists b', add_opt o opt pad x y b = Ok (ba, b') /\ req a' b' /\ rsec a' = 3 /\ rsec b' = 3 /\
             rflags a' = rflags a /\ rflags b' = rflags b.
Proof.
  intros R Ha Hb H. unfold add_opt in *. pose proof R as (E1 & _).
  rewrite <- E1.
  destruct (pad =? 0).
  - apply bind_ok in H. destruct H as (rs & HR & H). rewrite HR. cbn [bind].
    rewrite add_rrset_tracked in *. exact (tracked_req _ _ _ _ _ _ _ R Ha Hb H).
  - apply bind_ok in H. destruct H as (rs & HR & H). rewrite HR. cbn [bind].
    rewrite add_rrset_tracked in *.
    assert (R' : req (set_padded a) (set_padded b)).
    { destruct R as (F1 & F2 & F3 & F4 & F5 & F6 & F7 & F8 & F9). unfold req.
      cbn [out tbl cq can cau cad maxsz reserved padded set_padded]. repeat split; assumption. }
    exact (tracked_req _ _ _ _ _ _ _ R' Ha Hb H).
Qed.

Lemma write_tsig_req o kn rd a b ba a' :
  req a b -> rsec a <= 3 -> rsec b <= 3 -> write_tsig o kn rd a = Ok (ba, a') ->
  exists b', write_tsig o kn rd b = Ok (ba, b') /\ req a' b' /\ rsec a' = 3 /\ rsec b' = 3 /\
             rflags a' = rflags a /\ rflags b' = rflags b.
Proof.
  intros R Ha Hb H. rewrite write_tsig_eq in *. pose proof R as (_ & _ & _ & _ & _ & _ & _ & _ & E9).
  rewrite <- E9.
  apply bind_ok in H. destruct H as ([b1 a1] & H1 & H).
  destruct (tracked_req _ _ _ _ _ _ _ R Ha Hb H1) as (b1' & T & R' & S1 & S2 & F1 & F2).
  rewrite T. cbn [bind fst snd] in *. destruct b1.
  - injection H as <- <-. exists b1'. split; [reflexivity|]. split; [exact R'|]. auto.
  - destruct R' as (G1 & G2 & G3 & G4 & G5 & G6 & G7 & G8 & G9). rewrite <- G6, <- G1, <- G2.
    destruct (pack16 (cad a1)); cbn [bind] in *; try discriminate. injection H as <- <-.
    eexists. split; [reflexivity|]. unfold req.
    cbn [out tbl cq can cau cad maxsz reserved padded rsec rflags set_out].
    repeat split; try reflexivity; assumption.
Qed.

Lemma req_release a b : req a b -> req (release_reserved a) (release_reserved b).
Proof.
  intros (E1 & E2 & E3 & E4 & E5 & E6 & E7 & E8 & E9). unfold req, release_reserved.
  cbn [out tbl cq can cau cad maxsz reserved padded set_limits]. rewrite E7, E8. repeat split; try reflexivity; assumption.
Qed.

Lemma finish_req m origin pad x y a b ra :
  req a b -> rsec a <= 3 -> rsec b <= 3 -> rflags a = rflags b ->
  finish m origin pad x y a = Ok ra ->
  exists rb, finish m origin pad x y b = Ok rb /\ out ra = out rb.
Proof.
  intros R Ha Hb EF H. unfold finish in *.
  apply bind_ok in H. destruct H as (a5 & A5 & H).
  assert (X5 : exists b5, match mopt m with
                          | Some o => do br <- add_opt origin o pad x y (release_reserved b); raise_if_big br
                          | None => Ok (release_reserved b) end = Ok b5 /\
                          req a5 b5 /\ rsec a5 <= 3 /\ rsec b5 <= 3 /\ rflags a5 = rflags b5).
  { destruct (mopt m) as [o|].
    - apply bind_ok in A5. destruct A5 as ([ba s5] & O5 & A5). unfold raise_if_big in A5. cbn [fst snd] in A5.
      destruct ba; [discriminate|]. injection A5 as <-.
      destruct (add_opt_req _ _ _ _ _ _ _ _ _ (req_release _ _ R) Ha Hb O5) as (b5 & T & R' & S1 & S2 & F1 & F2).
      exists b5. rewrite T. cbn [bind raise_if_big fst snd]. split; [reflexivity|]. split; [exact R'|].
      cbn [rflags release_reserved set_limits] in F1, F2. repeat split; try lia; congruence.
    - injection A5 as <-. exists (release_reserved b). split; [reflexivity|]. split; [apply req_release; exact R|].
      cbn [rsec rflags release_reserved set_limits]. auto. }
  destruct X5 as (b5 & B5 & R5 & Sa5 & Sb5 & F5). rewrite B5. cbn [bind].
  apply bind_ok in H. destruct H as (a6 & A6 & H).
  destruct (write_header_req _ _ _ _ R5 F5 A6) as (b6 & B6 & R6 & O6 & Sa6 & Sb6 & Fa6 & Fb6).
  rewrite B6. cbn [bind].
  destruct (mtsig m) as [[kn rd]|].
  - apply bind_ok in H. destruct H as ([ba a7] & A7 & H). apply bind_ok in H. destruct H as (a8 & A8 & H).
    unfold raise_if_big in A8. cbn [fst snd] in A8. destruct ba; [discriminate|]. injection A8 as <-.
    destruct (write_tsig_req _ _ _ _ _ _ _ R6 ltac:(lia) ltac:(lia) A7) as (b7 & B7 & R7 & S1 & S2 & F1 & F2).
    rewrite B7. cbn [bind raise_if_big fst snd].
    destruct (write_header_req _ _ _ _ R7 ltac:(congruence) H) as (b8 & B8 & _ & O8 & _).
    exists b8. split; [exact B8|exact O8].
  - injection H as <-. exists b6. split; [reflexivity|exact O6].
Qed.

(* ---------- Message.to_wire = prologue; section loops; finish ---------- *)
Definition cut_msg (m : msg) (fl : Z) (q a u d : list rrset) : msg :=
  mkMsg (mid m) fl q a u d (mopt m) (mtsig m).

Lemma reserve_req size a b a' :
  req a b -> reserve size a = Ok a' ->
  exists b', reserve size b = Ok b' /\ req a' b' /\ rsec a' = rsec a /\ rsec b' = rsec b /\
             rflags a' = rflags a /\ rflags b' = rflags b.
Proof.
  intros (E1 & E2 & E3 & E4 & E5 & E6 & E7 & E8 & E9) H. unfold reserve in *. rewrite <- E7.
  destruct (size <? 0); [discriminate|]. destruct (size >? maxsz a); [discriminate|]. injection H as <-.
  eexists. split; [reflexivity|]. unfold req. cbn [out tbl cq can cau cad maxsz reserved padded rsec rflags set_limits].
  rewrite E8. repeat split; try reflexivity; assumption.
Qed.

Lemma replay_core m origin ms rp pad fl q1 a1 u1 d1 r1 tr r2 x1 x2 x3 x4 r3 r :
  let r0 := mkRst (repeat 0 12) [] 0 0 0 0 0 (mflags m) (eff_limit ms rp) 0 false in
  reserve (compute_opt_reserve m pad) r0 = Ok r1 -> compute_tsig_reserve m = Ok tr -> reserve tr r1 = Ok r2 ->
  add_questions origin q1 r2 = Ok (false, x1) -> add_rrsets origin 1 a1 x1 = Ok (false, x2) ->
  add_rrsets origin 2 u1 x2 = Ok (false, x3) -> add_rrsets origin 3 d1 x3 = Ok (false, x4) ->
  req r3 x4 -> rsec r3 <= 3 -> rflags r3 = fl ->
  finish m origin pad (compute_opt_reserve m pad) tr r3 = Ok r ->
  exists r', to_wire_st (cut_msg m fl q1 a1 u1 d1) origin ms rp false pad = Ok r' /\ out r' = out r.
Proof.
  intros r0 R1 TR R2 Q A U D RQ RS RF FIN.
  unfold to_wire_st. cbn [mflags mq man mau mad mid cut_msg].
  change (compute_opt_reserve (cut_msg m fl q1 a1 u1 d1) pad) with (compute_opt_reserve m pad).
  change (compute_tsig_reserve (cut_msg m fl q1 a1 u1 d1)) with (compute_tsig_reserve m).
  set (r0' := mkRst (repeat 0 12) [] 0 0 0 0 0 fl (eff_limit ms rp) 0 false).
  assert (R0 : req r0 r0') by (unfold req; repeat split; reflexivity).
  destruct (reserve_req _ _ _ _ R0 R1) as (r1' & R1' & Q1 & S1a & S1b & F1a & F1b). rewrite R1'. cbn [bind].
  rewrite TR. cbn [bind].
  destruct (reserve_req _ _ _ _ Q1 R2) as (r2' & R2' & Q2 & S2a & S2b & F2a & F2b). rewrite R2'. cbn [bind].
  assert (Z2 : rsec r2 <= 0 /\ rsec r2' <= 0) by (rewrite S2a, S1a, S2b, S1b; unfold r0, r0'; cbn [rsec]; lia).
  destruct (add_questions_req _ _ _ _ _ _ Q2 (proj1 Z2) (proj2 Z2) Q) as (y1 & Y1 & RQ1 & Sa1 & Sb1 & Fa1 & Fb1).
  rewrite Y1. cbn [bind fst snd].
  assert (Sa1' : rsec x1 <= 1) by lia. assert (Sb1' : rsec y1 <= 1) by lia.
  destruct (add_rrsets_req _ _ _ _ _ _ _ RQ1 Sa1' Sb1' A) as (y2 & Y2 & RQ2 & Sa2 & Sb2 & Fa2 & Fb2).
  rewrite Y2. cbn [bind fst snd].
  assert (Sa2' : rsec x2 <= 2) by lia. assert (Sb2' : rsec y2 <= 2) by lia.
  destruct (add_rrsets_req _ _ _ _ _ _ _ RQ2 Sa2' Sb2' U) as (y3 & Y3 & RQ3 & Sa3 & Sb3 & Fa3 & Fb3).
  rewrite Y3. cbn [bind fst snd].
  assert (Sa3' : rsec x3 <= 3) by lia. assert (Sb3' : rsec y3 <= 3) by lia.
  destruct (add_rrsets_req _ _ _ _ _ _ _ RQ3 Sa3' Sb3' D) as (y4 & Y4 & RQ4 & Sa4 & Sb4 & Fa4 & Fb4).
  rewrite Y4. cbn [bind fst snd].
  assert (RQ5 : req r3 y4).
  { destruct RQ as (A1 & A2 & A3 & A4 & A5 & A6 & A7 & A8 & A9).
    destruct RQ4 as (B1 & B2 & B3 & B4 & B5 & B6 & B7 & B8 & B9). unfold req. repeat split; congruence. }
  assert (F5 : rflags r3 = rflags y4).
  { rewrite RF, Fb4, Fb3, Fb2, Fb1, F2b, F1b. reflexivity. }
  destruct (finish_req (cut_msg m fl q1 a1 u1 d1) origin pad (compute_opt_reserve m pad) tr r3 y4 r RQ5 RS Sb4 F5 FIN) as (rb & FB & OB).
  exists rb. split; [exact FB|]. symmetry. exact OB.
Qed.

Lemma cut_state_rrsets o sec eff l r r' :
  SInv eff r -> add_rrsets o sec l r = Ok (true, r') ->
  exists l1 rs l3 rc, l = l1 ++ rs :: l3 /\ add_rrsets o sec l1 r = Ok (false, rc) /\
                      r' = set_rsec rc sec /\ rflags rc = rflags r /\ add_rrset o sec rs rc = Ok (true, r').
Proof.
  intros I H. destruct (add_rrsets_cut _ _ _ _ _ _ H) as (l1 & l2 & rc & -> & A & [(Hb & _)|(_ & rs & l3 & -> & B)]);
    [discriminate|].
  destruct (add_rrsets_SInv _ _ _ _ _ _ _ I A) as (Ic & _ & _ & Fc).
  rewrite add_rrset_tracked in B.
  destruct (tracked_spec _ _ _ _ _ _ (ext_rrset_em _ _ _) (proj1 (proj2 (proj2 Ic))) B) as (_ & em & new & _ & _ & [(Hb & _)|(_ & _ & ->)]);
    [discriminate|].
  exists l1, rs, l3, rc. split; [reflexivity|]. split; [exact A|]. split; [reflexivity|]. split; [exact Fc|].
  rewrite add_rrset_tracked. exact B.
Qed.

Lemma cut_state_questions o eff l r r' :
  SInv eff r -> add_questions o l r = Ok (true, r') ->
  exists l1 rs l3 rc, l = l1 ++ rs :: l3 /\ add_questions o l1 r = Ok (false, rc) /\
                      r' = set_rsec rc 0 /\ rflags rc = rflags r /\
                      add_question o (rname rs) (rtype rs) (rclass rs) rc = Ok (true, r').
Proof.
  intros I H. destruct (add_questions_cut _ _ _ _ _ H) as (l1 & l2 & rc & -> & A & [(Hb & _)|(_ & rs & l3 & -> & B)]);
    [discriminate|].
  destruct (add_questions_SInv _ _ _ _ _ _ I A) as (Ic & _ & _ & Fc).
  rewrite add_question_tracked in B.
  destruct (tracked_spec _ _ _ _ _ _ (ext_q_em _ _ _ _) (proj1 (proj2 (proj2 Ic))) B) as (_ & em & new & _ & _ & [(Hb & _)|(_ & _ & ->)]);
    [discriminate|].
  exists l1, rs, l3, rc. split; [reflexivity|]. split; [exact A|]. split; [reflexivity|]. split; [exact Fc|].
  rewrite add_question_tracked. exact B.
Qed.

Definition is_nil {A} (l : list A) : bool := match l with [] => true | _ => false end.
Definition cut_before (q2 a2 u2 : list rrset) : bool := negb (is_nil q2 && is_nil a2 && is_nil u2).

Lemma req_set r s f : req (set_rflags (set_rsec r s) f) r.
Proof. unfold req. repeat split; reflexivity. Qed.
Lemma req_set2 r s : req (set_rsec r s) r.
Proof. unfold req. repeat split; reflexivity. Qed.

(* ---------- truncation is maximal: the first record set that was left out really did not fit ---------- *)
Lemma add_rrsets_app o sec : forall l1 l2 r,
  add_rrsets o sec (l1 ++ l2) r =
  do br <- add_rrsets o sec l1 r; if fst br then Ok br else add_rrsets o sec l2 (snd br).
Proof.
  induction l1 as [|rs l1 IH]; intros l2 r; [reflexivity|].
  cbn [app add_rrsets]. destruct (add_rrset o sec rs r) as [[b r1]| |]; cbn [bind fst snd]; try reflexivity.
  destruct b; [reflexivity|]. apply IH.
Qed.

Lemma add_questions_app o : forall l1 l2 r,
  add_questions o (l1 ++ l2) r =
  do br <- add_questions o l1 r; if fst br then Ok br else add_questions o l2 (snd br).
Proof.
  induction l1 as [|rs l1 IH]; intros l2 r; [reflexivity|].
  cbn [app add_questions]. destruct (add_question o (rname rs) (rtype rs) (rclass rs) r) as [[b r1]| |]; cbn [bind fst snd]; try reflexivity.
  destruct b; [reflexivity|]. apply IH.
Qed.

(* the run of a message cut to (q, a, u, d) whose section loops reach an overflow *)
Lemma overflow_run m o ms rp pad q a u d r1 tr r2 :
  let r0 := mkRst (repeat 0 12) [] 0 0 0 0 0 (mflags m) (eff_limit ms rp) 0 false in
  reserve (compute_opt_reserve m pad) r0 = Ok r1 -> compute_tsig_reserve m = Ok tr -> reserve tr r1 = Ok r2 ->
  (exists b1 s1 b2 s2 b3 s3 s4,
     add_questions o q r2 = Ok (b1, s1) /\
     (if b1 then Ok (b1, s1) else add_rrsets o 1 a s1) = Ok (b2, s2) /\
     (if b2 then Ok (b2, s2) else add_rrsets o 2 u s2) = Ok (b3, s3) /\
     (if b3 then Ok (b3, s3) else add_rrsets o 3 d s3) = Ok (true, s4)) ->
  to_wire (cut_msg m (mflags m) q a u d) o ms rp false pad = Lib eTooBig.
Proof.
  intros r0 R1 TR R2 (b1 & s1 & b2 & s2 & b3 & s3 & s4 & S1 & S2 & S3 & S4).
  unfold to_wire, to_wire_st. cbn [cut_msg mflags mq man mau mad mopt mtsig mid].
  change (compute_opt_reserve (cut_msg m (mflags m) q a u d) pad) with (compute_opt_reserve m pad).
  change (compute_tsig_reserve (cut_msg m (mflags m) q a u d)) with (compute_tsig_reserve m).
  fold r0. rewrite R1. cbn [bind]. rewrite TR. cbn [bind]. rewrite R2. cbn [bind].
  rewrite S1. cbn [bind fst snd]. rewrite S2. cbn [bind fst snd]. rewrite S3. cbn [bind fst snd]. rewrite S4.
  reflexivity.
Qed.

Theorem trunc_prefix_maximal_lemma m origin ms rp pad w :
  to_wire m origin ms rp true pad = Ok w ->
  exists q1 q2 a1 a2 u1 u2 d1 d2,
    mq m = q1 ++ q2 /\ man m = a1 ++ a2 /\ mau m = u1 ++ u2 /\ mad m = d1 ++ d2 /\
    (q2 <> [] -> a1 = [] /\ u1 = [] /\ d1 = []) /\ (a2 <> [] -> u1 = [] /\ d1 = []) /\ (u2 <> [] -> d1 = []) /\
    to_wire (cut_msg m (if cut_before q2 a2 u2 then Z.lor (mflags m) fTC else mflags m) q1 a1 u1 d1)
            origin ms rp false pad = Ok w /\
    (forall rs l3, q2 = rs :: l3 ->
       to_wire (cut_msg m (mflags m) (q1 ++ [rs]) [] [] []) origin ms rp false pad = Lib eTooBig) /\
    (forall rs l3, q2 = [] -> a2 = rs :: l3 ->
       to_wire (cut_msg m (mflags m) q1 (a1 ++ [rs]) [] []) origin ms rp false pad = Lib eTooBig) /\
    (forall rs l3, q2 = [] -> a2 = [] -> u2 = rs :: l3 ->
       to_wire (cut_msg m (mflags m) q1 a1 (u1 ++ [rs]) []) origin ms rp false pad = Lib eTooBig) /\
    (forall rs l3, q2 = [] -> a2 = [] -> u2 = [] -> d2 = rs :: l3 ->
       to_wire (cut_msg m (mflags m) q1 a1 u1 (d1 ++ [rs])) origin ms rp false pad = Lib eTooBig).
Proof.
  intros H. unfold to_wire in H. apply bind_ok in H. destruct H as (r & H & Hw). injection Hw as <-.
  unfold to_wire_st in H.
  set (eff := eff_limit ms rp) in *. pose proof (eff_limit_range ms rp) as Heff. fold eff in Heff.
  set (r0 := mkRst (repeat 0 12) [] 0 0 0 0 0 (mflags m) eff 0 false) in *.
  set (ores := compute_opt_reserve m pad) in *.
  apply bind_ok in H. destruct H as (r1 & R1 & H).
  apply bind_ok in H. destruct H as (tr & TR & H).
  apply bind_ok in H. destruct H as (r2 & R2 & H).
  pose proof (reserve_spec _ _ _ R1) as (O1 & T1 & L1 & V1 & F1 & _ & S1r & _).
  pose proof (reserve_spec _ _ _ R2) as (O2 & T2 & L2 & V2 & F2 & _ & S2 & _).
  assert (Hr2 : rsec r2 <= 0) by (rewrite S2, S1r; cbn; lia).
  assert (I2 : SInv eff r2).
  { unfold SInv, TblBelow. rewrite O2, O1, T2, T1. cbn [out tbl r0 maxsz reserved] in *.
    change (zlen (repeat 0 12)) with 12. repeat split; try lia. constructor. }
  assert (FL2 : rflags r2 = mflags m) by (rewrite F2, F1; reflexivity).
  apply bind_ok in H. destruct H as ([b1 s1] & S1 & H). cbn [fst snd] in H.
  apply bind_ok in H. destruct H as ([b2 s2] & S2' & H). cbn [fst snd] in S2', H.
  apply bind_ok in H. destruct H as ([b3 s3] & S3 & H). cbn [fst snd] in S3, H.
  apply bind_ok in H. destruct H as ([b4 s4] & S4 & H). cbn [fst snd] in S4, H.
  apply bind_ok in H. destruct H as (r3 & R3 & H). cbn [fst snd] in R3.
  change (finish m origin pad ores tr r3 = Ok r) in H.
  assert (to_w : forall fl q a u d r', to_wire_st (cut_msg m fl q a u d) origin ms rp false pad = Ok r' ->
                                      out r' = out r -> to_wire (cut_msg m fl q a u d) origin ms rp false pad = Ok (out r)).
  { intros fl q a u d r' E1 E2. unfold to_wire. rewrite E1. cbn [bind]. rewrite E2. reflexivity. }
  destruct b1.
  - (* cut in the question section *)
    injection S2' as <- <-. injection S3 as <- <-. injection S4 as <- <-. injection R3 as <-.
    destruct (cut_state_questions _ _ _ _ _ I2 S1) as (q1 & rs & l3 & rc & EQ & A & -> & FC & B).
    cbn [rsec set_rsec Z.ltb Z.compare] in H.
    match type of H with finish _ _ _ _ _ ?x = _ => set (r3c := x) in * end.
    assert (RQ : req r3c rc) by (unfold r3c, req; repeat split; reflexivity).
    destruct (replay_core m origin ms rp pad (Z.lor (mflags m) fTC) q1 [] [] [] r1 tr r2 rc rc rc rc r3c r R1 TR R2 A eq_refl eq_refl eq_refl
                          RQ) as (r' & E1 & E2); [unfold r3c; cbn; lia|unfold r3c; cbn [rflags set_rflags set_rsec]; rewrite FC, FL2; reflexivity|exact H|].
    exists q1, (rs :: l3), [], (man m), [], (mau m), [], (mad m).
    split; [exact EQ|]. repeat (split; [reflexivity|]).
    split; [auto|]. split; [auto|]. split; [auto|].
    split; [cbn [cut_before is_nil andb negb]; eapply to_w; eassumption|].
    split; [|split; [discriminate|split; discriminate]].
    intros rs' l3' E. injection E as <- <-.
    eapply (overflow_run m origin ms rp pad); [exact R1|exact TR|exact R2|].
    exists true, (set_rsec rc 0), true, (set_rsec rc 0), true, (set_rsec rc 0), (set_rsec rc 0).
    rewrite add_questions_app, A. cbn [bind fst snd add_questions]. rewrite B. cbn [bind fst snd]. repeat split; reflexivity.
  - destruct (add_questions_SInv _ _ _ _ _ _ I2 S1) as (I3 & _ & _ & FL3).
    destruct b2.
    + injection S3 as <- <-. injection S4 as <- <-. injection R3 as <-.
      destruct (cut_state_rrsets _ _ _ _ _ _ I3 S2') as (a1 & rs & l3 & rc & EQ & A & -> & FC & B).
      cbn [rsec set_rsec Z.ltb Z.compare] in H.
      match type of H with finish _ _ _ _ _ ?x = _ => set (r3c := x) in * end.
      assert (RQ : req r3c rc) by (unfold r3c, req; repeat split; reflexivity).
      destruct (replay_core m origin ms rp pad (Z.lor (mflags m) fTC) (mq m) a1 [] [] r1 tr r2 s1 rc rc rc r3c r R1 TR R2 S1 A eq_refl eq_refl
                            RQ) as (r' & E1 & E2); [unfold r3c; cbn; lia|unfold r3c; cbn [rflags set_rflags set_rsec]; rewrite FC, FL3, FL2; reflexivity|exact H|].
      exists (mq m), [], a1, (rs :: l3), [], (mau m), [], (mad m).
      split; [symmetry; apply app_nil_r|]. split; [exact EQ|]. repeat (split; [reflexivity|]).
      split; [congruence|]. split; [auto|]. split; [auto|].
      split; [cbn [cut_before is_nil andb negb]; eapply to_w; eassumption|].
      split; [discriminate|]. split; [|split; discriminate].
      intros rs' l3' _ E. injection E as <- <-.
      eapply (overflow_run m origin ms rp pad); [exact R1|exact TR|exact R2|].
      exists false, s1, true, (set_rsec rc 1), true, (set_rsec rc 1), (set_rsec rc 1). split; [exact S1|].
      rewrite add_rrsets_app, A. cbn [bind fst snd add_rrsets]. rewrite B. cbn [bind fst snd]. repeat split; reflexivity.
    + destruct (add_rrsets_SInv _ _ _ _ _ _ _ I3 S2') as (I4 & _ & _ & FL4).
      destruct b3.
      * injection S4 as <- <-. injection R3 as <-.
        destruct (cut_state_rrsets _ _ _ _ _ _ I4 S3) as (u1 & rs & l3 & rc & EQ & A & -> & FC & B).
        cbn [rsec set_rsec Z.ltb Z.compare] in H.
        match type of H with finish _ _ _ _ _ ?x = _ => set (r3c := x) in * end.
        assert (RQ : req r3c rc) by (unfold r3c, req; repeat split; reflexivity).
        destruct (replay_core m origin ms rp pad (Z.lor (mflags m) fTC) (mq m) (man m) u1 [] r1 tr r2 s1 s2 rc rc r3c r R1 TR R2 S1 S2' A eq_refl
                              RQ) as (r' & E1 & E2); [unfold r3c; cbn; lia|unfold r3c; cbn [rflags set_rflags set_rsec]; rewrite FC, FL4, FL3, FL2; reflexivity|exact H|].
        exists (mq m), [], (man m), [], u1, (rs :: l3), [], (mad m).
        split; [symmetry; apply app_nil_r|]. split; [symmetry; apply app_nil_r|]. split; [exact EQ|]. split; [reflexivity|].
        split; [congruence|]. split; [congruence|]. split; [auto|].
        split; [cbn [cut_before is_nil andb negb]; eapply to_w; eassumption|].
        split; [discriminate|]. split; [discriminate|]. split; [|discriminate].
        intros rs' l3' _ _ E. injection E as <- <-.
        eapply (overflow_run m origin ms rp pad); [exact R1|exact TR|exact R2|].
        exists false, s1, false, s2, true, (set_rsec rc 2), (set_rsec rc 2). split; [exact S1|]. split; [exact S2'|].
        rewrite add_rrsets_app, A. cbn [bind fst snd add_rrsets]. rewrite B. cbn [bind fst snd]. split; reflexivity.
      * destruct (add_rrsets_SInv _ _ _ _ _ _ _ I4 S3) as (I5 & _ & _ & FL5).
        destruct b4.
        -- injection R3 as <-.
           destruct (cut_state_rrsets _ _ _ _ _ _ I5 S4) as (d1 & rs & l3 & rc & EQ & A & -> & FC & B).
           cbn [rsec set_rsec] in H. change (3 <? 3) with false in H. cbv iota in H.
           match type of H with finish _ _ _ _ _ ?x = _ => set (r3c := x) in * end.
           assert (RQ : req r3c rc) by (unfold r3c, req; repeat split; reflexivity).
           destruct (replay_core m origin ms rp pad (mflags m) (mq m) (man m) (mau m) d1 r1 tr r2 s1 s2 s3 rc r3c r R1 TR R2 S1 S2' S3 A
                                 RQ) as (r' & E1 & E2); [unfold r3c; cbn; lia|unfold r3c; cbn [rflags set_rsec]; rewrite FC, FL5, FL4, FL3, FL2; reflexivity|exact H|].
           exists (mq m), [], (man m), [], (mau m), [], d1, (rs :: l3).
           split; [symmetry; apply app_nil_r|]. split; [symmetry; apply app_nil_r|]. split; [symmetry; apply app_nil_r|].
           split; [exact EQ|]. split; [congruence|]. split; [congruence|]. split; [congruence|].
           split; [cbn [cut_before is_nil andb negb]; eapply to_w; eassumption|].
           split; [discriminate|]. split; [discriminate|]. split; [discriminate|].
           intros rs' l3' _ _ _ E. injection E as <- <-.
           eapply (overflow_run m origin ms rp pad); [exact R1|exact TR|exact R2|].
           exists false, s1, false, s2, false, s3, (set_rsec rc 3). split; [exact S1|]. split; [exact S2'|]. split; [exact S3|].
           rewrite add_rrsets_app, A. cbn [bind fst snd add_rrsets]. rewrite B. reflexivity.
        -- injection R3 as <-.
           destruct (add_rrsets_SInv _ _ _ _ _ _ _ I5 S4) as (I6 & _ & _ & FL6).
           destruct (replay_core m origin ms rp pad (mflags m) (mq m) (man m) (mau m) (mad m) r1 tr r2 s1 s2 s3 s4 s4 r R1 TR R2 S1 S2' S3 S4
                                 (req_refl s4)) as (r' & E1 & E2); [|rewrite FL6, FL5, FL4, FL3, FL2; reflexivity|exact H|].
           { destruct (add_questions_req origin (mq m) r2 r2 false s1 (req_refl r2) Hr2 Hr2 S1) as (_ & _ & _ & X1 & _).
             assert (X1' : rsec s1 <= 1) by lia.
             destruct (add_rrsets_req origin 1 (man m) s1 s1 false s2 (req_refl s1) X1' X1' S2') as (_ & _ & _ & X2 & _).
             assert (X2' : rsec s2 <= 2) by lia.
             destruct (add_rrsets_req origin 2 (mau m) s2 s2 false s3 (req_refl s2) X2' X2' S3) as (_ & _ & _ & X3 & _).
             assert (X3' : rsec s3 <= 3) by lia.
             destruct (add_rrsets_req origin 3 (mad m) s3 s3 false s4 (req_refl s3) X3' X3' S4) as (_ & _ & _ & X4 & _).
             exact X4. }
           exists (mq m), [], (man m), [], (mau m), [], (mad m), [].
           repeat (split; [symmetry; apply app_nil_r|]).
           split; [congruence|]. split; [congruence|]. split; [congruence|].
           split; [cbn [cut_before is_nil andb negb]; eapply to_w; eassumption|].
           split; [discriminate|]. split; [discriminate|]. split; discriminate.
Qed.

Theorem trunc_prefix_lemma m origin ms rp pad w :
  to_wire m origin ms rp true pad = Ok w ->
  exists q1 q2 a1 a2 u1 u2 d1 d2,
    mq m = q1 ++ q2 /\ man m = a1 ++ a2 /\ mau m = u1 ++ u2 /\ mad m = d1 ++ d2 /\
    (q2 <> [] -> a1 = [] /\ u1 = [] /\ d1 = []) /\ (a2 <> [] -> u1 = [] /\ d1 = []) /\ (u2 <> [] -> d1 = []) /\
    to_wire (cut_msg m (if cut_before q2 a2 u2 then Z.lor (mflags m) fTC else mflags m) q1 a1 u1 d1)
            origin ms rp false pad = Ok w.
Proof.
  intros H. destruct (trunc_prefix_maximal_lemma m origin ms rp pad w H)
    as (q1 & q2 & a1 & a2 & u1 & u2 & d1 & d2 & A1 & A2 & A3 & A4 & A5 & A6 & A7 & A8 & _).
  exists q1, q2, a1, a2, u1, u2, d1, d2. auto 10.
Qed.
