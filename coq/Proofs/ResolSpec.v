(* The decision table of Resolver.resolve as a function of the queries made and the replies seen
   (outcome_spec), together with the exact content of the cache afterwards. *)
From DV Require Import Base.Prelude Model.NameM Model.ResolM Proofs.NameOrder.
From DV Require Import Proofs.ResolBase Proofs.ResolTerm Proofs.ResolTrace.
Open Scope Z_scope.

Lemma name_eqb_refl : forall a, name_eqb a a = true.
Proof. intros. apply name_eqb_iff_ci. reflexivity. Qed.

Lemma name_eqb_sym : forall a b, name_eqb a b = true -> name_eqb b a = true.
Proof. intros a b H. apply name_eqb_iff_ci. apply name_eqb_iff_ci in H. unfold ci_equal in *. congruence. Qed.

Lemma name_eqb_trans : forall a b d, name_eqb a b = true -> name_eqb b d = true -> name_eqb a d = true.
Proof.
  intros a b d H1 H2. apply name_eqb_iff_ci. apply name_eqb_iff_ci in H1. apply name_eqb_iff_ci in H2.
  unfold ci_equal in *. congruence.
Qed.

Lemma ckey_eqb_refl : forall k, ckey_eqb k k = true.
Proof. intros. unfold ckey_eqb. rewrite name_eqb_refl, !Z.eqb_refl. reflexivity. Qed.

(* ---------- the cache ---------- *)
Lemma cache_lookup_put_same : forall chx k a, cache_lookup (cache_put chx k a) k = Some a.
Proof.
  induction chx as [|[k' a'] r IH]; intros k a; simpl.
  - rewrite ckey_eqb_refl. reflexivity.
  - destruct (ckey_eqb k' k) eqn:E; simpl; rewrite E; auto.
Qed.

Lemma cache_get_put_same : forall chx k a now,
  now < a_expiration a -> cache_get (cache_put chx k a) k now = Some a.
Proof.
  intros. unfold cache_get. rewrite cache_lookup_put_same.
  destruct (a_expiration a <=? now) eqn:E; auto. lia.
Qed.

(* ---------- nxdomain_responses ---------- *)
Definition has_nx (nx : list (name * Z)) (q : name) : Prop :=
  exists k v, In (k, v) nx /\ name_eqb k q = true.

Lemma nx_set_in : forall l q x k v,
  In (k, v) (nx_set l q x) -> In (k, v) l \/ (v = x /\ name_eqb k q = true).
Proof.
  induction l as [|[k' v'] r IH]; intros q x k v H; simpl in H.
  - destruct H as [H|[]]. inversion H; subst. right. split; auto. apply name_eqb_refl.
  - destruct (name_eqb k' q) eqn:E.
    + destruct H as [H|H]; [inversion H; subst; auto|]. left. right. exact H.
    + destruct H as [H|H]; [left; left; exact H|].
      destruct (IH _ _ _ _ H); auto. left. right. assumption.
Qed.

Lemma nx_set_has_self : forall l q x, has_nx (nx_set l q x) q.
Proof.
  induction l as [|[k' v'] r IH]; intros q x; simpl.
  - exists q, x. split; [left; reflexivity|apply name_eqb_refl].
  - destruct (name_eqb k' q) eqn:E.
    + exists k', x. split; [left; reflexivity|exact E].
    + destruct (IH q x) as (k & v & HI & HE). exists k, v. split; [right; exact HI|exact HE].
Qed.

Lemma nx_set_has_mono : forall l q x q', has_nx l q' -> has_nx (nx_set l q x) q'.
Proof.
  induction l as [|[k' v'] r IH]; intros q x q' (k & v & HI & HE); simpl in *; [tauto|].
  destruct HI as [HI|HI].
  - inversion HI; subst. destruct (name_eqb k q).
    + exists k, x. split; [left; reflexivity|exact HE].
    + exists k, v. split; [left; reflexivity|exact HE].
  - destruct (name_eqb k' q).
    + exists k, v. split; [right; exact HI|exact HE].
    + destruct (IH q x q') as (k2 & v2 & HI2 & HE2); [exists k, v; auto|].
      exists k2, v2. split; [right; exact HI2|exact HE2].
Qed.

Lemma nx_get_has : forall l q, has_nx l q -> nx_get l q <> None.
Proof.
  induction l as [|[k' v'] r IH]; intros q (k & v & HI & HE); simpl in *; [tauto|].
  destruct (name_eqb k' q) eqn:E; [discriminate|].
  destruct HI as [HI|HI]; [inversion HI; subst; congruence|].
  apply IH. exists k, v. auto.
Qed.

Lemma remove_server_in : forall x l l', remove_server x l = Some l' ->
  forall i, In i (ids l) -> i = sv_id x \/ In i (ids l').
Proof.
  induction l as [|y r IH]; intros l' H i Hi; simpl in H; try discriminate.
  destruct (sv_id y =? sv_id x) eqn:E.
  - inversion H; subst. apply Z.eqb_eq in E. simpl in Hi. destruct Hi; [left; congruence|auto].
  - destruct (remove_server x r) as [r'|] eqn:ER; try discriminate. inversion H; subst.
    simpl in Hi. simpl. destruct Hi as [Hi|Hi]; auto. destruct (IH r' eq_refl i Hi); auto.
Qed.

Section Spec.
Variables (sc : nat -> outcome) (c : cfg) (start : Z) (ch : cache).

Definition nonterminal (ev : event) : Prop := accepts (ev_obs ev) = None /\ is_yx (ev_obs ev) = false.

(* what a reply leaves in the cache: an acceptable NOERROR reply is stored under
   (question name, rdtype, rdclass), an acceptable NXDOMAIN under (question name, ANY, rdclass) *)
Definition cache_step (chx : cache) (ev : event) : cache :=
  if c_cache c then
    match ev_obs ev with
    | OMsg m =>
        if m_rcode m =? rcNOERROR then
          match make_answer (ev_qname ev) (c_rdtype c) (c_rdclass c) m (Some (ev_server ev)) (ev_end ev)
                            (Z.of_nat (ev_idx ev)) with
          | Ok a => cache_put chx {| k_name := ev_qname ev; k_type := c_rdtype c; k_class := c_rdclass c |} a
          | _ => chx
          end
        else if m_rcode m =? rcNXDOMAIN then
          match make_answer (ev_qname ev) tANY cIN m None (ev_end ev) (Z.of_nat (ev_idx ev)) with
          | Ok a => cache_put chx {| k_name := ev_qname ev; k_type := tANY; k_class := c_rdclass c |} a
          | _ => chx
          end
        else chx
    | OExn _ => chx
    end
  else chx.

Definition cache_after (tr : list event) : cache := fold_left cache_step tr ch.

Lemma cache_after_snoc : forall tr ev, cache_after (tr ++ [ev]) = cache_step (cache_after tr) ev.
Proof. intros. unfold cache_after. rewrite fold_left_app. reflexivity. Qed.

Lemma make_answer_ok_iff : forall q t k m sv now src,
  (exists a, make_answer q t k m sv now src = Ok a) <-> (exists x, resolve_chaining m = Ok x).
Proof.
  intros. unfold make_answer. destruct (resolve_chaining m) as [x|e|e]; simpl; split; intros (y & H); eauto; discriminate.
Qed.

Lemma cache_step_none : forall chx ev,
  accepts (ev_obs ev) = None -> nx_accepts (ev_obs ev) = None -> cache_step chx ev = chx.
Proof.
  intros chx ev HA HN. unfold cache_step. destruct (c_cache c); auto.
  destruct (ev_obs ev) as [k|m]; auto. simpl in HA, HN.
  destruct (m_rcode m =? rcNOERROR).
  - unfold make_answer. destruct (resolve_chaining m); simpl; auto. discriminate.
  - destruct (m_rcode m =? rcNXDOMAIN); auto.
    unfold make_answer. destruct (resolve_chaining m); simpl; auto. discriminate.
Qed.

(* NXDOMAIN evidence: from a reply seen in this resolution, or from the cache *)
Definition nx_cached (chx : cache) (now : Z) (k : name) (v : Z) : Prop :=
  exists q a, name_eqb k q = true /\
    cache_get chx {| k_name := q; k_type := tANY; k_class := c_rdclass c |} now = Some a /\
    a_rcode a = rcNXDOMAIN /\ a_src a = v.

Definition nx_prov (tr : list event) (k : name) (v : Z) : Prop :=
  (exists ev, In ev tr /\ name_eqb k (ev_qname ev) = true /\ nx_accepts (ev_obs ev) <> None /\
              Z.of_nat (ev_idx ev) = v)
  \/ (c_cache c = true /\ exists pre post now, tr = pre ++ post /\ nx_cached (cache_after pre) now k v).

Lemma nx_prov_snoc : forall tr ev k v, nx_prov tr k v -> nx_prov (tr ++ [ev]) k v.
Proof.
  intros tr ev k v [(e0 & HI & H)|(HC & pre & post & now & HE & H)].
  - left. exists e0. split; [apply in_or_app; auto|exact H].
  - right. split; auto. exists pre, (post ++ [ev]), now. split; [rewrite HE, app_assoc; reflexivity|exact H].
Qed.

(* ---------- next_request ---------- *)
Definition frame (s s0 : st) : Prop :=
  s_have_request s0 = s_have_request s /\ s_nameservers s0 = s_nameservers s /\ s_cache s0 = s_cache s.

Definition nxrel (s s0 : st) (skipped : list name) (now : Z) : Prop :=
  (forall q, In q skipped -> has_nx (s_nx s0) q) /\
  (forall q, has_nx (s_nx s) q -> has_nx (s_nx s0) q) /\
  (forall k v, In (k, v) (s_nx s0) -> In (k, v) (s_nx s) \/ (c_cache c = true /\ nx_cached (s_cache s) now k v)).

Lemma frame_refl_wq : forall s q rest, frame s (with_qname s q rest).
Proof. intros. unfold frame. simpl. auto. Qed.

Lemma nxrel_refl_wq : forall s q rest now, nxrel s (with_qname s q rest) [] now.
Proof. intros. unfold nxrel. simpl. repeat split; auto. intros ? []. Qed.

Lemma next_request_spec : forall qnames s now,
  match next_request c s qnames now with
  | NRequest s' =>
      exists skipped q rest s0, qnames = skipped ++ q :: rest /\ s' = arm c s0 q rest /\
        frame s s0 /\ nxrel s s0 skipped now
  | NAnswer s' a =>
      exists skipped q rest, qnames = skipped ++ q :: rest /\ frame s s' /\ nxrel s s' skipped now /\
        c_cache c = true /\
        cache_get (s_cache s) {| k_name := q; k_type := c_rdtype c; k_class := c_rdclass c |} now = Some a /\
        (a_rrset a <> None \/ c_raise c = false)
  | NNoAnswer s' a =>
      exists skipped q rest, qnames = skipped ++ q :: rest /\ frame s s' /\ nxrel s s' skipped now /\
        c_cache c = true /\
        cache_get (s_cache s) {| k_name := q; k_type := c_rdtype c; k_class := c_rdclass c |} now = Some a /\
        a_rrset a = None /\ c_raise c = true
  | NNXDOMAIN s' => frame s s' /\ nxrel s s' qnames now
  end.
Proof.
  induction qnames as [|q rest IH]; intros s now; simpl.
  - unfold frame, nxrel. repeat split; auto. intros ? [].
  - destruct (c_cache c) eqn:EC.
    + destruct (cache_get (s_cache s) {| k_name := q; k_type := c_rdtype c; k_class := c_rdclass c |} now) as [a|] eqn:EG.
      * destruct ((match a_rrset a with None => true | Some _ => false end) && c_raise c) eqn:EB.
        -- exists [], q, rest. split; [reflexivity|]. split; [apply frame_refl_wq|]. split; [apply nxrel_refl_wq|].
           split; [reflexivity|]. split; [exact EG|]. apply andb_true_iff in EB. destruct EB as [E1 E2].
           split; auto. destruct (a_rrset a); [discriminate|reflexivity].
        -- exists [], q, rest. split; [reflexivity|]. split; [apply frame_refl_wq|]. split; [apply nxrel_refl_wq|].
           split; [reflexivity|]. split; [exact EG|]. apply andb_false_iff in EB. destruct EB as [E1|E1]; auto.
           left. destruct (a_rrset a); [discriminate|discriminate].
      * destruct (cache_get (s_cache s) {| k_name := q; k_type := tANY; k_class := c_rdclass c |} now) as [a|] eqn:EA.
        -- destruct (a_rcode a =? rcNXDOMAIN) eqn:ER.
           ++ set (s1 := with_nx (with_qname s q rest) (nx_set (s_nx s) q (a_src a))).
              specialize (IH s1 now).
              assert (HF: frame s s1) by (unfold frame; simpl; auto).
              assert (HX: nxrel s s1 [q] now).
              { unfold nxrel. simpl. split; [|split].
                - intros q0 [H0|[]]. subst q0. apply nx_set_has_self.
                - intros q0 H0. apply nx_set_has_mono. exact H0.
                - intros k v H0. apply nx_set_in in H0. destruct H0 as [H0|(H0 & H1)]; auto.
                  right. split; auto. exists q, a. apply Z.eqb_eq in ER. subst v. auto. }
              assert (HCOMB: forall s2 sk, frame s1 s2 -> nxrel s1 s2 sk now -> frame s s2 /\ nxrel s s2 (q :: sk) now).
              { intros s2 sk (F1 & F2 & F3) (X1 & X2 & X3). destruct HF as (G1 & G2 & G3). destruct HX as (Y1 & Y2 & Y3).
                split; [unfold frame; repeat split; congruence|].
                unfold nxrel. split; [|split].
                - intros q0 [H0|H0]; [subst q0; apply X2; apply Y1; left; reflexivity|apply X1; exact H0].
                - intros q0 H0. apply X2, Y2, H0.
                - intros k v H0. destruct (X3 k v H0) as [H1|(H1 & H2)].
                  + apply Y3. exact H1.
                  + right. split; [exact H1|]. exact H2. }
              destruct (next_request c s1 rest now) as [s'|s' a'|s' a'|s'] eqn:ENR.
              ** destruct IH as (sk & q' & rest' & s0 & E1 & E2 & E3 & E4).
                 destruct (HCOMB s0 sk E3 E4) as (C1 & C2).
                 exists (q :: sk), q', rest', s0. subst rest. auto.
              ** destruct IH as (sk & q' & rest' & E1 & E3 & E4 & E5 & E6 & E7).
                 destruct (HCOMB s' sk E3 E4) as (C1 & C2).
                 exists (q :: sk), q', rest'. subst rest. repeat split; auto; try apply C1; try apply C2; try exact E6.
              ** destruct IH as (sk & q' & rest' & E1 & E3 & E4 & E5 & E6 & E7 & E8).
                 destruct (HCOMB s' sk E3 E4) as (C1 & C2).
                 exists (q :: sk), q', rest'. subst rest. repeat split; auto; try apply C1; try apply C2; try exact E6.
              ** destruct IH as (E3 & E4). destruct (HCOMB s' rest E3 E4) as (C1 & C2). auto.
           ++ exists [], q, rest, (with_qname s q rest). split; [reflexivity|]. split; [reflexivity|].
              split; [apply frame_refl_wq|apply nxrel_refl_wq].
        -- exists [], q, rest, (with_qname s q rest). split; [reflexivity|]. split; [reflexivity|].
           split; [apply frame_refl_wq|apply nxrel_refl_wq].
    + exists [], q, rest, (with_qname s q rest). split; [reflexivity|]. split; [reflexivity|].
      split; [apply frame_refl_wq|apply nxrel_refl_wq].
Qed.

(* ---------- the invariant ---------- *)
Definition covered (s : st) (tr : list event) : Prop :=
  forall sv, In sv (c_servers c) ->
    In (sv_id sv) (ids (s_nameservers s)) \/
    exists ev, In ev tr /\ ev_server ev = sv_id sv /\ ev_drops c ev = true.

Definition OInv (old : list event) (s : st) (e : env) : Prop :=
  exists new, e_trace e = old ++ new /\
    s_have_request s = true /\
    Forall nonterminal new /\
    s_cache s = cache_after new /\
    (exists done, c_qnames c = done ++ s_qname s :: s_qnames s /\ forall q, In q done -> has_nx (s_nx s) q) /\
    (forall k v, In (k, v) (s_nx s) -> nx_prov new k v) /\
    covered s new.

(* the documented results, as a function of the queries `new` of this resolution *)
Definition from_network (new : list event) (a : answer) : Prop :=
  exists pre ev m, new = pre ++ [ev] /\ Forall nonterminal pre /\ ev_obs ev = OMsg m /\
    accepts (ev_obs ev) <> None /\
    make_answer (ev_qname ev) (c_rdtype c) (c_rdclass c) m (Some (ev_server ev)) (ev_end ev)
                (Z.of_nat (ev_idx ev)) = Ok a.

Definition from_cache (new : list event) (now : Z) (a : answer) : Prop :=
  c_cache c = true /\ Forall nonterminal new /\
  exists q, In q (c_qnames c) /\
    cache_get (cache_after new) {| k_name := q; k_type := c_rdtype c; k_class := c_rdclass c |} now = Some a.

Definition outcome_ok (new : list event) (f : final) (now : Z) : Prop :=
  match f with
  | FAnswer a => (a_rrset a <> None \/ c_raise c = false) /\ (from_network new a \/ from_cache new now a)
  | FNoAnswer a => (a_rrset a = None /\ c_raise c = true) /\ (from_network new a \/ from_cache new now a)
  | FNXDOMAIN qs nx =>
      qs = c_qnames c /\ Forall nonterminal new /\
      forall q, In q (c_qnames c) -> exists k v, In (k, v) nx /\ name_eqb k q = true /\ nx_prov new k v
  | FYXDOMAIN => exists pre ev, new = pre ++ [ev] /\ Forall nonterminal pre /\ is_yx (ev_obs ev) = true
  | FNoNameservers _ =>
      Forall nonterminal new /\
      forall sv, In sv (c_servers c) -> exists ev, In ev new /\ ev_server ev = sv_id sv /\ ev_drops c ev = true
  | FLifetime _ d =>
      Forall nonterminal new /\ (c_lifetime c <= d \/ d < -1000) /\
      (d = now - start \/ (-1000 <= now - start < 0 /\ d = 0))
  | FInternal _ => True     (* excluded by broken_never_reasked for distinct servers *)
  | FFuel | FNoMetaqueries | FLibError _ => False
  end.

Lemma nonterminal_snoc : forall new ev, Forall nonterminal new -> nonterminal ev -> Forall nonterminal (new ++ [ev]).
Proof. intros. apply Forall_app. split; auto. Qed.

Lemma covered_snoc : forall s tr ev, covered s tr -> covered s (tr ++ [ev]).
Proof.
  intros s tr ev H sv Hsv. destruct (H sv Hsv) as [H1|(e0 & H1 & H2)]; auto.
  right. exists e0. split; [apply in_or_app; auto|exact H2].
Qed.

(* after an NXDOMAIN reply: the bookkeeping handed to next_request *)
Lemma after_next_state : forall new s1 s2 ev done,
  c_qnames c = done ++ s_qname s1 :: s_qnames s1 ->
  (forall q, In q done -> has_nx (s_nx s1) q) ->
  (forall k v, In (k, v) (s_nx s1) -> nx_prov new k v) ->
  s_nx s2 = nx_set (s_nx s1) (s_qname s1) (Z.of_nat (ev_idx ev)) ->
  s_qname s2 = s_qname s1 -> s_qnames s2 = s_qnames s1 ->
  ev_qname ev = s_qname s1 -> nx_accepts (ev_obs ev) <> None ->
  s_cache s2 = cache_after (new ++ [ev]) ->
  forall s3 skipped now,
    frame s2 s3 -> nxrel s2 s3 skipped now ->
    (forall q, In q (done ++ s_qname s1 :: skipped) -> has_nx (s_nx s3) q) /\
    (forall k v, In (k, v) (s_nx s3) -> nx_prov (new ++ [ev]) k v).
Proof.
  intros new s1 s2 ev done HQ HD HP HNX HQ2 HQS HEV HACC HCA s3 skipped now (F1 & F2 & F3) (X1 & X2 & X3).
  split.
  - intros q Hq. apply in_app_or in Hq. destruct Hq as [Hq|[Hq|Hq]].
    + apply X2. rewrite HNX. apply nx_set_has_mono. apply HD. exact Hq.
    + subst q. apply X2. rewrite HNX. apply nx_set_has_self.
    + apply X1. exact Hq.
  - intros k v Hkv. destruct (X3 k v Hkv) as [H1|(H1 & H2)].
    + rewrite HNX in H1. apply nx_set_in in H1. destruct H1 as [H1|(H1 & H2)].
      * apply nx_prov_snoc. apply HP. exact H1.
      * left. exists ev. split; [apply in_or_app; right; left; reflexivity|].
        split; [rewrite HEV; exact H2|]. split; [exact HACC|]. congruence.
    + right. split; auto. exists (new ++ [ev]), [], now. split; [rewrite app_nil_r; reflexivity|].
      rewrite <- HCA. exact H2.
Qed.

Lemma oinv_step : forall old s e s' e',
  OInv old s e -> step sc c start s e = inl (s', e') -> OInv old s' e'.
Proof.
  intros old s e s' e' (new & HE & O0 & O1 & O2 & (done & O3 & O3') & O4 & O5) H.
  apply step_inl in H.
  destruct H as (s1 & ns & tcp & backoff & T & ob & clock2 & HN & HT & HO & HE' & HQ).
  apply next_nameserver_ok in HN.
  destruct HN as (N1 & N2 & N3 & N4 & N5 & N6 & N7 & N8 & N9 & N10 & _).
  set (ev := mk_event s1 ns tcp backoff T e ob clock2) in *.
  subst e'. exists (new ++ [ev]). simpl. split; [rewrite HE, app_assoc; reflexivity|].
  destruct HQ as [HQ|(s2 & HQ & HR)].
  - pose proof (query_result_cont_class _ _ _ _ _ _ HQ) as (K1 & K2 & K3).
    apply query_result_cont in HQ.
    destruct HQ as (ns' & EN & (S1 & S2 & S3 & S4 & S5 & S6 & S7) & SNX & SCA & HD).
    rewrite N6 in EN. inversion EN; subst ns'.
    split; [congruence|].
    split; [apply nonterminal_snoc; auto; split; assumption|].
    split. { rewrite cache_after_snoc, cache_step_none by assumption. congruence. }
    split. { exists done. rewrite S1, S2, N1, N2, SNX, N3. auto. }
    split. { intros k v Hkv. apply nx_prov_snoc. apply O4. rewrite SNX, N3 in Hkv. exact Hkv. }
    intros sv Hsv. destruct (O5 sv Hsv) as [H1|(e0 & H1 & H2)].
    + destruct HD as [(HDr & nss & HRm & HD1 & HD2)|(HDr & HD1 & HD2)].
      * rewrite N4 in HRm. destruct (remove_server_in _ _ _ HRm _ H1) as [H2|H2].
        -- right. exists ev. split; [apply in_or_app; right; left; reflexivity|].
           split; [simpl; congruence|]. unfold ev_drops. simpl. rewrite <- N7. exact HDr.
        -- left. rewrite HD1. exact H2.
      * left. rewrite HD1, N4. exact H1.
    + right. exists e0. split; [apply in_or_app; auto|exact H2].
  - apply query_result_next in HQ.
    destruct HQ as (ns' & m & chx & a & EN & Hr & Hnx & Hacc & HMA & (S1 & S2 & S3 & S4 & S5 & S6 & S7) & S8 & S9 & SNX & SCA).
    rewrite N6 in EN. inversion EN; subst ns'.
    assert (HNT: nonterminal ev).
    { split; [exact Hacc|]. simpl. subst ob. unfold nx_accepts in Hnx. simpl.
      destruct (m_rcode m =? rcNXDOMAIN); [|discriminate]. rewrite andb_false_r. reflexivity. }
    assert (HCA: s_cache s2 = cache_after (new ++ [ev])).
    { rewrite cache_after_snoc. unfold cache_step. rewrite SCA, N10, O2.
      destruct (c_cache c); auto. simpl. subst ob.
      unfold nx_accepts in Hnx. destruct (m_rcode m =? rcNXDOMAIN) eqn:E3; [|discriminate].
      assert (m_rcode m =? rcNOERROR = false) as ->. { apply Z.eqb_eq in E3. rewrite E3. reflexivity. }
      simpl in HMA. rewrite HMA. reflexivity. }
    pose proof (next_request_spec (s_qnames s2) s2 clock2) as HS. rewrite HR in HS.
    destruct HS as (skipped & q & rest & s0 & E1 & E2 & E3 & E4).
    assert (HNXA: nx_accepts (ev_obs ev) <> None) by (simpl; congruence).
    destruct (after_next_state new s1 s2 ev done ltac:(rewrite N1, N2; exact O3)
                ltac:(rewrite N3; exact O3') ltac:(rewrite N3; exact O4) SNX S2 S1 eq_refl HNXA HCA
                s0 skipped clock2 E3 E4) as (A1 & A2).
    destruct E3 as (F1 & F2 & F3).
    subst s'. simpl.
    split; [reflexivity|].
    split; [apply nonterminal_snoc; auto|].
    split; [congruence|].
    split. { exists (done ++ s_qname s1 :: skipped). split.
             - rewrite O3, <- N2, <- N1, <- S1, E1, <- app_assoc. reflexivity.
             - exact A1. }
    split; [exact A2|].
    unfold covered. simpl. intros sv Hsv. rewrite F1, S6, N9, O0.
    destruct (O5 sv Hsv) as [H1|(e0 & H1 & H2)].
    + left. rewrite F2, S8, N4. exact H1.
    + right. exists e0. split; [apply in_or_app; auto|exact H2].
Qed.

Lemma compute_timeout_inr_gen : forall st0 L TO now d,
  compute_timeout st0 L TO now = inr d ->
  (L <= d \/ d < -1000) /\ (d = now - st0 \/ (-1000 <= now - st0 < 0 /\ d = 0)).
Proof.
  intros st0 L TO now d H. unfold compute_timeout in H.
  destruct (now - st0 <? 0) eqn:E1.
  - destruct (now - st0 <? -1000) eqn:E2.
    + inversion H; subst. lia.
    + destruct (0 >=? L) eqn:E3; [|discriminate]. inversion H; subst. lia.
  - destruct (now - st0 >=? L) eqn:E2; [|discriminate]. inversion H; subst. lia.
Qed.

Lemma oinv_final : forall old s e f s' e',
  OInv old s e -> step sc c start s e = inr (f, s', e') ->
  exists new, e_trace e' = old ++ new /\
    match f with
    | FInternal _ => True
    | _ => outcome_ok new f (e_clock e') /\ s_cache s' = cache_after new
    end.
Proof.
  intros old s e f s' e' (new & HE & O0 & O1 & O2 & (done & O3 & O3') & O4 & O5) H.
  apply step_inr in H.
  destruct H as [(k & HN & Hf & Hs & He)|[(HN & Hf & He)|[(ns & tcp & backoff & d & HN & HT & Hf & He)|
                 (s1 & ns & tcp & backoff & T & ob & clock2 & HN & HT & HO & He & HQ)]]].
  - subst. exists new. split; auto.
  - apply next_nameserver_none in HN. destruct HN as (Hs & _ & _ & HNS). subst s' e' f.
    exists new. split; auto. simpl. split; [|exact O2]. split; auto.
    intros sv Hsv. destruct (O5 sv Hsv) as [H1|H1]; auto. rewrite HNS in H1. destruct H1.
  - apply next_nameserver_ok in HN.
    destruct HN as (N1 & N2 & N3 & N4 & N5 & N6 & N7 & N8 & N9 & N10 & _).
    subst e' f. simpl. exists new. split; auto. split; [|congruence].
    split; [exact O1|]. apply (compute_timeout_inr_gen _ _ _ _ _ HT).
  - apply next_nameserver_ok in HN.
    destruct HN as (N1 & N2 & N3 & N4 & N5 & N6 & N7 & N8 & N9 & N10 & _).
    set (ev := mk_event s1 ns tcp backoff T e ob clock2) in *.
    subst e'. simpl. exists (new ++ [ev]). split; [rewrite HE, app_assoc; reflexivity|].
    destruct HQ as [(a & HQ & Hf)|[(a & HQ & Hf)|[(HQ & Hf)|[(k' & HQ & Hf & Hs)|(s2 & HQ & HNR)]]]].
    + apply query_result_answer in HQ.
      destruct HQ as (ns' & m & chx & EN & Hr & Hacc & HMA & SCA & SNX & SNS & HRR).
      rewrite N6 in EN. inversion EN; subst ns'. subst f. simpl. split.
      * split; [exact HRR|]. left.
        exists new, ev, m. split; [reflexivity|]. split; [exact O1|]. split; [exact Hr|].
        split; [simpl; congruence|]. simpl. exact HMA.
      * rewrite cache_after_snoc. unfold cache_step. rewrite SCA, N10, O2.
        destruct (c_cache c); auto. simpl. subst ob. simpl in Hacc.
        destruct (m_rcode m =? rcNOERROR); [|discriminate]. simpl. rewrite HMA. reflexivity.
    + apply query_result_noanswer in HQ.
      destruct HQ as (ns' & m & chx & EN & Hr & Hacc & HMA & SCA & SNX & SNS & HRR).
      rewrite N6 in EN. inversion EN; subst ns'. subst f. simpl. split.
      * split; [exact HRR|]. left.
        exists new, ev, m. split; [reflexivity|]. split; [exact O1|]. split; [exact Hr|].
        split; [simpl; congruence|]. simpl. exact HMA.
      * rewrite cache_after_snoc. unfold cache_step. rewrite SCA, N10, O2.
        destruct (c_cache c); auto. simpl. subst ob. simpl in Hacc.
        destruct (m_rcode m =? rcNOERROR); [|discriminate]. simpl. rewrite HMA. reflexivity.
    + apply query_result_yx in HQ. destruct HQ as (Y1 & Y2 & Y3 & Y4 & Y5). subst f. simpl. split.
      * exists new, ev. auto.
      * rewrite cache_after_snoc, cache_step_none by assumption. congruence.
    + subst f. exact Logic.I.
    + apply query_result_next in HQ.
      destruct HQ as (ns' & m & chx & a & EN & Hr & Hnx & Hacc & HMA & (S1 & S2 & S3 & S4 & S5 & S6 & S7) & S8 & S9 & SNX & SCA).
      rewrite N6 in EN. inversion EN; subst ns'.
      assert (HNT: nonterminal ev).
      { split; [exact Hacc|]. simpl. subst ob. unfold nx_accepts in Hnx. simpl.
        destruct (m_rcode m =? rcNXDOMAIN); [|discriminate]. rewrite andb_false_r. reflexivity. }
      assert (HCA: s_cache s2 = cache_after (new ++ [ev])).
      { rewrite cache_after_snoc. unfold cache_step. rewrite SCA, N10, O2.
        destruct (c_cache c); auto. simpl. subst ob.
        unfold nx_accepts in Hnx. destruct (m_rcode m =? rcNXDOMAIN) eqn:E3; [|discriminate].
        assert (m_rcode m =? rcNOERROR = false) as ->. { apply Z.eqb_eq in E3. rewrite E3. reflexivity. }
        simpl in HMA. rewrite HMA. reflexivity. }
      assert (HNXA: nx_accepts (ev_obs ev) <> None) by (simpl; congruence).
      assert (HNTS: Forall nonterminal (new ++ [ev])) by (apply nonterminal_snoc; auto).
      assert (HSUB: forall q, In q (s_qnames s2) -> In q (c_qnames c)).
      { intros q Hq. rewrite O3. apply in_or_app. right. right. rewrite <- N1, <- S1. exact Hq. }
      pose proof (next_request_spec (s_qnames s2) s2 clock2) as HS.
      pose proof (after_next_state new s1 s2 ev done ltac:(rewrite N1, N2; exact O3)
                ltac:(rewrite N3; exact O3') ltac:(rewrite N3; exact O4) SNX S2 S1 eq_refl HNXA HCA) as HAN.
      destruct HNR as [(a' & HNR & Hf)|[(a' & HNR & Hf)|(HNR & Hf)]]; rewrite HNR in HS; subst f; simpl.
      * destruct HS as (skipped & q & rest & E1 & (F1 & F2 & F3) & E4 & E5 & E6 & E7).
        split; [|congruence]. split; [exact E7|]. right. split; [exact E5|]. split; [exact HNTS|].
        exists q. split; [apply HSUB; rewrite E1; apply in_or_app; right; left; reflexivity|].
        rewrite <- HCA. exact E6.
      * destruct HS as (skipped & q & rest & E1 & (F1 & F2 & F3) & E4 & E5 & E6 & E7 & E8).
        split; [|congruence]. split; [auto|]. right. split; [exact E5|]. split; [exact HNTS|].
        exists q. split; [apply HSUB; rewrite E1; apply in_or_app; right; left; reflexivity|].
        rewrite <- HCA. exact E6.
      * destruct HS as (E3 & E4). destruct (HAN s' (s_qnames s2) clock2 E3 E4) as (A1 & A2).
        destruct E3 as (F1 & F2 & F3).
        split; [|congruence]. split; [reflexivity|]. split; [exact HNTS|].
        intros q Hq. assert (HI: In q (done ++ s_qname s1 :: s_qnames s2)).
        { rewrite S1, N1, N2, <- O3. exact Hq. }
        destruct (A1 q HI) as (k & v & K1 & K2). exists k, v. split; [exact K1|]. split; [exact K2|].
        apply A2. exact K1.
Qed.
End Spec.
