(* The sending side of a multi-message exchange (sign_stream: Message.to_wire(multi=True,
   tsig_ctx=previous) for signed envelopes, ctx.update(wire) for unsigned ones): every signed
   envelope carries the RFC 8945 5.3.1 MAC.  Together with Proofs/TsigStream.v both ends are
   tied to the same specification. *)
From DV Require Import Base.Prelude.
From DV Require Model.NameM.
From DV Require Import Model.TsigM Proofs.TsigSpec Proofs.TsigLemmas Proofs.TsigReader Proofs.TsigStream.
Open Scope Z_scope.

Section Sender.
  Variable H : hashid -> bytes -> bytes -> bytes.
  Variable k : key.
  Variable rmac : bytes.

  Lemma sign_ctx_multi : forall wire rd t ctx rd' c',
    sign H wire k rd (Some t) rmac ctx true = Ok (rd', c') ->
    exists c1, c' = Some c1 /\ c_data c1 = rfc_request_mac (t_mac rd') /\ c_key c1 = ksecret k
               /\ assoc_name hashes (kalg k) = Some (c_hash c1, c_size c1).
  Proof.
    intros until c'. intros S. unfold sign in S.
    destruct (digest wire k rd (Some t) rmac ctx true) as [c| |] eqn:D; cbn [bind] in S; try discriminate.
    destruct (mk_tsig _ _ _ _ _ _ _) as [r| |] eqn:M; cbn [bind] in S; try discriminate.
    destruct (maybe_start_digest k (ctx_sign H c) true) as [cc| |] eqn:MS; cbn [bind] in S; try discriminate.
    assert (r = rd' /\ cc = c') as [-> ->] by (split; congruence). clear S.
    apply mk_tsig_fields in M as (_ & _ & _ & Fm & _).
    rewrite Fm. now apply maybe_start_digest_multi.
  Qed.

  (* what the signed envelope looks like: the message, ARCOUNT + 1, the TSIG RR of rd' *)
  Definition signed_envelope (w : bytes) (rd' : tsig) (out : bytes) : Prop :=
    exists ad rr, get_adcount w = Ok ad /\ tsig_rr (kname k) rd' = Ok rr
                  /\ out = slice w 0 10 ++ u16 (ad + 1) ++ skipn 12 w ++ rr.

  Fixpoint sender_spec (run : running) (ms : list (bytes * option (tsig * Z))) (outs : list bytes) : Prop :=
    match ms, outs with
    | [], [] => True
    | (w, None) :: ms', o :: outs' => o = w /\ sender_spec (run_unsigned run w) ms' outs'
    | (w, Some (rd, now)) :: ms', o :: outs' =>
        exists rd' h sz,
          signed_envelope w rd' o
          /\ assoc_name hashes (kalg k) = Some (h, sz)
          /\ t_time rd' = now /\ t_fudge rd' = t_fudge rd /\ t_oid rd' = t_oid rd
          /\ t_error rd' = t_error rd /\ t_other rd' = t_other rd
          /\ t_mac rd' = rfc_truncate (trunc_of sz) (H h (ksecret k)
               (match run with
                | None => rfc8945_input (omac rmac) (t_oid rd) w (vars_of k rd now)
                | Some (p, u) => rfc8945_input_subsequent p u (t_oid rd) w now (t_fudge rd)
                end))
          /\ sender_spec (Some (t_mac rd', [])) ms' outs'
    | _, _ => False
    end.

  Lemma sign_message_inv : forall w owner rd now ctx multi out rd' c',
    sign_message H w k owner rd now rmac ctx multi = Ok (out, rd', c') ->
    sign H w k rd (Some now) rmac ctx multi = Ok (rd', c')
    /\ exists ad rr, get_adcount w = Ok ad /\ tsig_rr owner rd' = Ok rr
                     /\ out = slice w 0 10 ++ u16 (ad + 1) ++ skipn 12 w ++ rr.
  Proof.
    intros until c'. intros S. unfold sign_message in S.
    destruct (sign H w k rd (Some now) rmac ctx multi) as [[t c]| |] eqn:SG; cbn [bind] in S; try discriminate.
    cbn [fst snd] in S.
    destruct (tsig_rr owner t) as [rr| |] eqn:RR; cbn [bind] in S; try discriminate.
    destruct (get_adcount w) as [ad| |] eqn:AD; cbn [bind] in S; try discriminate.
    destruct (pack_u16 (ad + 1)) as [adb| |] eqn:PK; cbn [bind] in S; try discriminate.
    unfold pack_u16 in PK. destruct (in_u16 (ad + 1)); [|discriminate].
    assert (adb = u16 (ad + 1)) by congruence. subst adb.
    assert (out = slice w 0 10 ++ u16 (ad + 1) ++ skipn 12 w ++ rr /\ t = rd' /\ c = c') as (-> & -> & ->)
      by (repeat split; congruence).
    split; [reflexivity|]. exists ad, rr. auto.
  Qed.

  Lemma sign_stream_is_rfc_lemma : forall ms outs ctx run,
    ctx_matches k ctx run ->
    sign_stream H ms k rmac ctx = map Ok outs ->
    sender_spec run ms outs.
  Proof.
    induction ms as [|[w [[rd now]|]] ms IH]; intros outs ctx run CM E.
    - destruct outs; [exact Logic.I|discriminate].
    - cbn [sign_stream] in E.
      destruct (sign_message H w k (kname k) rd now rmac ctx true) as [[[o rd'] c']| |] eqn:SM.
      2,3: destruct outs as [|o0 [|]]; cbn in E; discriminate.
      destruct outs as [|o0 outs]; [discriminate|]. cbn [map] in E.
      inversion E as [[Eo Erest]]. subst o0. clear E.
      apply sign_message_inv in SM as (SG & ad & rr & AD & RR & ->).
      cbn [sender_spec].
      pose proof (sign_ctx_multi _ _ _ _ _ _ SG) as (c1 & -> & D1 & K1 & H1).
      unfold ctx_matches in CM.
      destruct ctx as [c|], run as [[p u]|]; try contradiction.
      + destruct CM as (Dd & Dk & Dh).
        pose proof SG as SG'. unfold sign in SG'.
        destruct (digest w k rd (Some now) rmac (Some c) true) as [cd| |] eqn:D; cbn [bind] in SG'; try discriminate.
        destruct (mk_tsig _ _ _ _ _ _ _) as [r| |] eqn:M; cbn [bind] in SG'; try discriminate.
        apply mk_tsig_fields in M as (Fa & Ft & Ff & Fm & Fo & Fe & Fot).
        destruct (maybe_start_digest k (ctx_sign H cd) true) as [cc| |]; cbn [bind] in SG'; try discriminate.
        assert (r = rd') by congruence. subst r.
        apply (sign_mac_subsequent H) in SG as (M & _).
        exists rd', (c_hash c), (c_size c).
        split; [exists ad, rr; auto|]. split; [assumption|].
        repeat (split; [assumption|]).
        split.
        * rewrite M, Dk, Dd. unfold rfc8945_input_subsequent. now rewrite <- !app_assoc.
        * apply (IH outs (Some c1)); [|exact Erest]. cbn [ctx_matches concat]. rewrite app_nil_r. auto.
      + apply (sign_mac_is_rfc H) in SG as (h & sz & Hh & M & Ft & Fa & Ff & Fo & Fe & Fot); [|now left].
        exists rd', h, sz.
        split; [exists ad, rr; auto|]. split; [assumption|].
        repeat (split; [assumption|]).
        apply (IH outs (Some c1)); [|exact Erest]. cbn [ctx_matches concat]. rewrite app_nil_r. auto.
    - cbn [sign_stream] in E.
      destruct outs as [|o0 outs]; [discriminate|]. cbn [map] in E.
      inversion E as [[Eo Erest]]. subst o0. cbn [sender_spec]. split; [reflexivity|].
      apply (IH outs (match ctx with Some c => Some (update c w) | None => None end)); [|exact Erest].
      unfold run_unsigned, ctx_matches in *.
      destruct ctx as [c|], run as [[p u]|]; try contradiction; [|exact Logic.I].
      destruct CM as (Dd & Dk & Dh). cbn [update c_data c_key c_hash c_size].
      rewrite Dd, concat_app. cbn [concat]. rewrite app_nil_r, <- app_assoc. auto.
  Qed.
End Sender.
