(* RdataStyle.txt_is_utf8: TXT-like strings that are well-formed UTF-8 are printed as characters
   (_escapify_unicode), the others octet-wise (_escapify); either way the tokenizer and
   Token.unescape_to_bytes give the octets back.  The quoted-string lemmas of TokEsc/TokTxt are
   redone for an arbitrary "quoted body" so that both escaping functions are instances. *)
From DV Require Import Base.Prelude Model.TokM Proofs.TokEsc Proofs.TokTxt Proofs.TokWords Proofs.TokShape Proofs.TokGeneric.
Open Scope Z_scope.

Ltac Zify.zify_post_hook ::= Z.to_euclidean_division_equations.

(* ---------- what may stand between two double quotes ---------- *)
Inductive qbody : list Z -> Prop :=
| qb_nil : qbody []
| qb_plain c w : c <> 34 -> c <> 10 -> c <> 92 -> qbody w -> qbody (c :: w)
| qb_pair c w : qbody w -> qbody (92 :: c :: w).

Lemma qbody_app a b : qbody a -> qbody b -> qbody (a ++ b).
Proof. induction 1; intros Hb; cbn [app]; [exact Hb|apply qb_plain; auto|apply qb_pair; auto]. Qed.

Lemma gl_qbody b : qbody b -> forall f wc r ml tok he,
  exists f' he', (f <= f')%nat /\
    get_loop (length b + f) wc (b ++ r) ml true tok tQUOTED he
    = get_loop f' wc r ml true (rev b ++ tok) tQUOTED he'.
Proof.
  induction 1 as [|c w H1 H2 H3 Hw IH|c w Hw IH]; intros f wc r ml tok he.
  - exists f, he. split; [lia|reflexivity].
  - cbn [length app Nat.add]. rewrite gl_plain by assumption.
    destruct (IH f wc r ml (c :: tok) he) as (f' & he' & Hf & E). rewrite E.
    exists f', he'. split; [exact Hf|]. cbn [rev]. rewrite <- app_assoc. reflexivity.
  - cbn [length app Nat.add]. rewrite gl_pair.
    replace (S (length w + f)) with (length w + S f)%nat by lia.
    destruct (IH (S f) wc r ml (c :: 92 :: tok) true) as (f' & he' & Hf & E). rewrite E.
    exists f', he'. split; [lia|]. cbn [rev]. rewrite <- !app_assoc. reflexivity.
Qed.

Lemma gl_quoted_body_g b : qbody b -> forall f wc r ml,
  exists he,
    get_loop (length b + S f) wc (b ++ 34 :: r) ml true [] tQUOTED false
    = Ok (mkTok tQUOTED b he None, (34 :: r, ml, true)).
Proof.
  intros Hb f wc r ml.
  destruct (gl_qbody b Hb (S f) wc (34 :: r) ml [] false) as (f' & he' & Hf & E).
  rewrite E. destruct f' as [|f']; [lia|]. rewrite gl_close. exists he'.
  rewrite app_nil_r, rev_involutive. reflexivity.
Qed.

Lemma gl_quoted_any_g b r k wc : qbody b ->
  exists he, get_loop (S (length (34 :: b ++ 34 :: r)) + k) wc (34 :: b ++ 34 :: r)
                      0%nat false [] tIDENT false
             = Ok (mkTok tQUOTED b he None, (34 :: r, 0%nat, true)).
Proof.
  intros Hb. cbn [length Nat.add].
  change (get_loop (S (S (length (b ++ 34 :: r) + k))) wc (34 :: b ++ 34 :: r) 0 false [] tIDENT false)
    with (get_loop (S (length (b ++ 34 :: r) + k)) wc (b ++ 34 :: r) 0 true [] tQUOTED false).
  rewrite app_length. cbn [length].
  replace (S (length b + S (length r) + k))%nat with (length b + S (S (length r + k)))%nat by lia.
  destruct (gl_quoted_body_g b Hb (S (length r + k)) wc r 0%nat) as (he & E). rewrite E. exists he. reflexivity.
Qed.

(* the next quoted string from either inter-field state *)
Theorem get0_quoted_body_q q bl b r : forallb is_blank bl = true -> qbody b ->
  exists he, get0 (stq q (bl ++ 34 :: b ++ 34 :: r)) = Ok (mkTok tQUOTED b he None, stq true r).
Proof.
  intros Hbl Hb. rewrite get0_stq by (auto; reflexivity).
  destruct (gl_quoted_any_g b r (if q then length bl else 0%nat) false Hb) as (he & E).
  rewrite E. exists he. reflexivity.
Qed.

(* a body that stands for the octet string s *)
Definition body_ok (b s : list Z) : Prop :=
  qbody b /\ forall t acc, ub_loop (b ++ t) acc = ub_loop t (rev s ++ acc).

Lemma body_ok_unescape b s : body_ok b s -> ub_loop b [] = Ok s.
Proof.
  intros [_ H]. rewrite <- (app_nil_r b), H. cbn [ub_loop]. rewrite app_nil_r, rev_involutive. reflexivity.
Qed.

(* ---------- _escapify ---------- *)
Lemma esc_octet_qbody c : 0 <= c < 256 -> qbody (esc_octet c).
Proof.
  intros Hc. destruct (esc_octet_shape c Hc) as [H|H1 H2 H3|d1 d2 d3 H -> -> ->].
  - apply qb_pair. constructor.
  - apply qb_plain; [lia|lia|lia|constructor].
  - apply qb_pair. apply qb_plain; [lia|lia|lia|]. apply qb_plain; [lia|lia|lia|constructor].
Qed.

Lemma escapify_body_ok s : all_bytes s = true -> body_ok (escapify s) s.
Proof.
  intros Hs. split; [|intros t acc; apply ub_escapify, Hs].
  induction s as [|c s IH]; [constructor|].
  cbn [all_bytes forallb] in Hs. apply andb_true_iff in Hs as [Hc Hs]. apply is_byte_range in Hc.
  unfold escapify in *. cbn [flat_map]. apply qbody_app; [apply esc_octet_qbody, Hc|apply IH, Hs].
Qed.

(* ---------- UTF-8 ---------- *)
Lemma cont_range b : cont b = true -> 128 <= b <= 191.
Proof. unfold cont. lia. Qed.

(* decode then encode is the identity (strict decoder: shortest forms only) *)
Theorem utf8_decode_encode s : forall u, utf8_decode s = Some u ->
  utf8_encode u = Ok s /\ Forall (fun c => 0 <= c) u.
Proof.
  induction s as [s IH] using (well_founded_induction (Wf_nat.well_founded_ltof _ (@length Z))).
  unfold Wf_nat.ltof in IH. intros u H. destruct s as [|b0 r]; [inversion H; split; [reflexivity|constructor]|].
  cbn [utf8_decode] in H.
  destruct ((0 <=? b0) && (b0 <? 128)) eqn:E1.
  { destruct (utf8_decode r) as [u'|] eqn:Er; [|discriminate]. inversion H; subst u.
    destruct (IH r ltac:(cbn; lia) u' Er) as [I1 I2].
    cbn [utf8_encode]. unfold utf8_cp. replace (b0 <? 128) with true by lia. cbn [bind]. rewrite I1.
    split; [reflexivity|constructor; [lia|exact I2]]. }
  destruct ((194 <=? b0) && (b0 <=? 223)) eqn:E2.
  { destruct r as [|b1 r1]; [discriminate|]. destruct (cont b1) eqn:C1; [|discriminate].
    destruct (utf8_decode r1) as [u'|] eqn:Er; [|discriminate]. inversion H; subst u.
    destruct (IH r1 ltac:(cbn; lia) u' Er) as [I1 I2]. apply cont_range in C1.
    cbn [utf8_encode]. unfold utf8_cp.
    replace ((b0 - 192) * 64 + (b1 - 128) <? 128) with false by lia.
    replace ((b0 - 192) * 64 + (b1 - 128) <? 2048) with true by lia.
    cbn [bind]. rewrite I1. cbn [bind app]. split; [|constructor; [lia|exact I2]].
    f_equal. f_equal; [lia|f_equal; lia]. }
  destruct ((224 <=? b0) && (b0 <=? 239)) eqn:E3.
  { destruct r as [|b1 [|b2 r2]]; try discriminate.
    destruct (cont b1 && cont b2 && (if b0 =? 224 then 160 <=? b1 else true)
              && (if b0 =? 237 then b1 <=? 159 else true)) eqn:C; [|discriminate].
    apply andb_true_iff in C as [C C4]. apply andb_true_iff in C as [C C3]. apply andb_true_iff in C as [C1 C2].
    apply cont_range in C1. apply cont_range in C2.
    destruct (utf8_decode r2) as [u'|] eqn:Er; [|discriminate]. inversion H; subst u.
    destruct (IH r2 ltac:(cbn; lia) u' Er) as [I1 I2].
    set (cp := (b0 - 224) * 4096 + (b1 - 128) * 64 + (b2 - 128)).
    assert (Hlo : 2048 <= cp) by (unfold cp; destruct (b0 =? 224) eqn:X; lia).
    assert (Hsur : (55296 <=? cp) && (cp <=? 57343) = false) by (unfold cp; destruct (b0 =? 237) eqn:X; lia).
    assert (Hhi : cp < 65536) by (unfold cp; lia).
    cbn [utf8_encode]. unfold utf8_cp.
    replace (cp <? 128) with false by lia. replace (cp <? 2048) with false by lia. rewrite Hsur.
    replace (cp <? 65536) with true by lia. cbn [bind]. rewrite I1. cbn [bind app].
    split; [|constructor; [lia|exact I2]].
    f_equal. unfold cp. f_equal; [lia|f_equal; [lia|f_equal; lia]]. }
  destruct ((240 <=? b0) && (b0 <=? 244)) eqn:E4; [|discriminate].
  destruct r as [|b1 [|b2 [|b3 r3]]]; try discriminate.
  destruct (cont b1 && cont b2 && cont b3 && (if b0 =? 240 then 144 <=? b1 else true)
            && (if b0 =? 244 then b1 <=? 143 else true)) eqn:C; [|discriminate].
  apply andb_true_iff in C as [C C5]. apply andb_true_iff in C as [C C4]. apply andb_true_iff in C as [C C3].
  apply andb_true_iff in C as [C1 C2].
  apply cont_range in C1. apply cont_range in C2. apply cont_range in C3.
  destruct (utf8_decode r3) as [u'|] eqn:Er; [|discriminate]. inversion H; subst u.
  destruct (IH r3 ltac:(cbn; lia) u' Er) as [I1 I2].
  set (cp := (b0 - 240) * 262144 + (b1 - 128) * 4096 + (b2 - 128) * 64 + (b3 - 128)).
  assert (Hlo : 65536 <= cp) by (unfold cp; destruct (b0 =? 240) eqn:X; lia).
  cbn [utf8_encode]. unfold utf8_cp.
  replace (cp <? 128) with false by lia. replace (cp <? 2048) with false by lia.
  replace ((55296 <=? cp) && (cp <=? 57343)) with false by lia.
  replace (cp <? 65536) with false by lia. cbn [bind]. rewrite I1. cbn [bind app].
  split; [|constructor; [lia|exact I2]].
  f_equal. unfold cp. f_equal; [lia|f_equal; [lia|f_equal; [lia|f_equal; lia]]].
Qed.

(* ---------- _escapify_unicode ---------- *)
Lemma esc_cp_ok c a : 0 <= c -> utf8_cp c = Ok a ->
  qbody (esc_cp c) /\ forall t acc, ub_loop (esc_cp c ++ t) acc = ub_loop t (rev a ++ acc).
Proof.
  intros Hc Ha. unfold esc_cp, q_escaped.
  destruct ((c =? 34) || (c =? 92)) eqn:E.
  - assert (c = 34 \/ c = 92) as Hq by lia.
    assert (a = [c]) by (unfold utf8_cp in Ha; replace (c <? 128) with true in Ha by lia; congruence). subst a.
    split; [apply qb_pair; constructor|]. intros t acc. cbn [app ub_loop]. replace (92 =? 92) with true by reflexivity.
    replace (is_decimal c) with false by (unfold is_decimal; lia).
    unfold utf8_cp. replace (c <? 128) with true by lia. reflexivity.
  - destruct (c >=? 32) eqn:E2.
    + split; [apply qb_plain; [lia|lia|lia|constructor]|]. intros t acc. cbn [app ub_loop].
      replace (c =? 92) with false by lia. rewrite Ha. reflexivity.
    + assert (a = [c]) by (unfold utf8_cp in Ha; replace (c <? 128) with true in Ha by lia; congruence). subst a.
      split; [apply qb_pair; apply qb_plain; [lia|lia|lia|]; apply qb_plain; [lia|lia|lia|constructor]|].
      intros t acc. cbn [app ub_loop]. replace (92 =? 92) with true by reflexivity. unfold is_decimal.
      replace ((48 <=? 48 + c / 100) && (48 + c / 100 <=? 57)) with true by lia.
      replace ((48 <=? 48 + (c / 10) mod 10) && (48 + (c / 10) mod 10 <=? 57)) with true by lia.
      replace ((48 <=? 48 + c mod 10) && (48 + c mod 10 <=? 57)) with true by lia.
      cbn [andb negb].
      replace ((48 + c / 100 - 48) * 100 + (48 + (c / 10) mod 10 - 48) * 10 + (48 + c mod 10 - 48)) with c by lia.
      replace (c >? 255) with false by lia. reflexivity.
Qed.

Lemma escapify_unicode_body_ok u : forall s, utf8_encode u = Ok s -> Forall (fun c => 0 <= c) u ->
  body_ok (escapify_unicode u) s.
Proof.
  induction u as [|c u IH]; intros s Hs Hnn.
  - inversion Hs. split; [constructor|]. intros; reflexivity.
  - cbn [utf8_encode] in Hs. destruct (utf8_cp c) as [a| |] eqn:Ea; cbn [bind] in Hs; try discriminate.
    destruct (utf8_encode u) as [s'| |] eqn:Eu; cbn [bind] in Hs; try discriminate. inversion Hs; subst s.
    inversion Hnn; subst. destruct (IH s' eq_refl ltac:(assumption)) as [I1 I2].
    destruct (esc_cp_ok c a ltac:(assumption) Ea) as [C1 C2].
    unfold escapify_unicode in *. cbn [flat_map]. split; [apply qbody_app; assumption|].
    intros t acc. rewrite <- app_assoc, C2, I2, rev_app_distr, <- app_assoc. reflexivity.
Qed.

(* one TXT string under either setting of txt_is_utf8 *)
Theorem txt_body_ok utf8 s : all_bytes s = true -> body_ok (txt_body utf8 s) s.
Proof.
  intros Hs. unfold txt_body. destruct utf8; [|apply escapify_body_ok, Hs].
  destruct (utf8_decode s) as [u|] eqn:E; [|apply escapify_body_ok, Hs].
  destruct (utf8_decode_encode s u E) as [H1 H2]. apply escapify_unicode_body_ok; assumption.
Qed.

(* ---------- TXT-like records over arbitrary bodies ---------- *)
Fixpoint txt_tail_b (bs : list (list Z)) (rest : list Z) : list Z :=
  match bs with
  | [] => rest
  | b :: r => 32 :: 34 :: b ++ 34 :: txt_tail_b r rest
  end.

Lemma txt_join_tail b bs rest : txt_join (b :: bs) ++ rest = 34 :: b ++ 34 :: txt_tail_b bs rest.
Proof.
  revert b. induction bs as [|b2 bs IH]; intros b.
  - unfold txt_join, quote_body, txt_tail_b. rewrite <- app_comm_cons. f_equal. rewrite <- app_assoc. reflexivity.
  - change (txt_join (b :: b2 :: bs)) with (quote_body b ++ 32 :: txt_join (b2 :: bs)).
    unfold quote_body at 1. rewrite <- !app_comm_cons. f_equal. rewrite <- !app_assoc. f_equal.
    cbn [app txt_tail_b]. f_equal. f_equal. rewrite IH. reflexivity.
Qed.

Lemma txt_tail_b_length bs rest : (length bs <= length (txt_tail_b bs rest))%nat.
Proof. induction bs as [|b bs IH]; cbn [txt_tail_b length]; [lia|]. rewrite app_length. cbn [length]. lia. Qed.

Definition tok_body (b : list Z) (t : token) : Prop := ttype t = tQUOTED /\ tvalue t = b.

Lemma get_remaining_tail_b bs : Forall qbody bs ->
  forall rest fuel acc, line_end rest -> (length bs < fuel)%nat ->
  exists toks t st,
    Forall2 tok_body bs toks /\ is_eol_or_eof t = true /\ ungot st = Some t /\
    get_remaining_loop fuel (stq true (txt_tail_b bs rest)) 0 acc = Ok (rev acc ++ toks, st).
Proof.
  induction bs as [|b bs IH]; intros Hbs rest fuel acc Hrest Hfuel.
  - destruct fuel as [|f]; [cbn in Hfuel; lia|].
    destruct (get0_end_q true [] rest eq_refl Hrest) as (t & st & Ht & _ & _ & Hu & E). cbn [app] in E.
    cbn [txt_tail_b]. rewrite grl_unfold. rewrite E. cbn [bind]. rewrite Ht. unfold unget. rewrite Hu. cbn [bind].
    do 3 eexists. split; [constructor|]. split; [exact Ht|]. split; [|rewrite app_nil_r; reflexivity]. reflexivity.
  - destruct fuel as [|f]; [cbn in Hfuel; lia|]. inversion Hbs as [|? ? Hb Hbs']; subst.
    destruct (get0_quoted_body_q true [32] b (txt_tail_b bs rest) eq_refl Hb) as (he & E).
    cbn [txt_tail_b]. rewrite grl_unfold. cbn [app] in E. rewrite E. cbn [bind].
    unfold is_eol_or_eof at 1. cbn [ttype]. change (tQUOTED =? tEOL) with false. change (tQUOTED =? tEOF) with false.
    cbn [orb]. cbn [length] in Hfuel.
    destruct (IH Hbs' rest f (mkTok tQUOTED b he None :: acc) Hrest ltac:(lia)) as (toks & te & st & HF & Hte & Hu & E2).
    rewrite E2. exists (mkTok tQUOTED b he None :: toks), te, st. split; [constructor; [split; reflexivity|assumption]|].
    split; [exact Hte|]. split; [exact Hu|]. cbn [rev]. rewrite <- app_assoc. reflexivity.
Qed.

Lemma txt_strings_ok_b bs ss toks :
  Forall2 body_ok bs ss -> Forall (fun s => zlen s <= 255) ss -> Forall2 tok_body bs toks ->
  txt_strings toks = Ok ss.
Proof.
  intros HB. revert toks. induction HB as [|b s bs ss Hb HB IH]; intros toks Hl HT.
  - inversion HT; subst. reflexivity.
  - inversion HT as [|? t ? toks' Htb HT']; subst. destruct Htb as [Ht Hv]. inversion Hl; subst.
    cbn [txt_strings]. unfold unescape_to_bytes. rewrite (body_ok_unescape _ s Hb). cbn [bind].
    unfold is_quoted, is_identifier. cbn [ttype tvalue]. rewrite Ht. change (tQUOTED =? tQUOTED) with true.
    cbn [orb negb]. replace (zlen s >? 255) with false by lia. rewrite IH by assumption. reflexivity.
Qed.

(* TXT-like to_styled_text / from_text, both settings of txt_is_utf8 *)
Theorem txt_roundtrip_style utf8 strings rest :
  strings <> [] ->
  Forall (fun s => all_bytes s = true /\ zlen s <= 255) strings ->
  line_end rest ->
  rdata_from_text_txt (txt_to_text_style utf8 strings ++ rest) = Ok strings.
Proof.
  intros Hne Hss Hrest. destruct strings as [|s ss]; [congruence|].
  unfold txt_to_text_style. cbn [map]. rewrite txt_join_tail.
  inversion Hss as [|? ? [Hb Hl] Hss']; subst.
  assert (HB : Forall2 body_ok (map (txt_body utf8) (s :: ss)) (s :: ss)).
  { clear - Hss. induction Hss as [|x l [Hx _] _ IH]; cbn [map]; constructor; [apply txt_body_ok, Hx|exact IH]. }
  assert (HL : Forall (fun s => zlen s <= 255) (s :: ss)).
  { eapply Forall_impl; [|exact Hss]. intros ? [_ ?]; assumption. }
  assert (HQ : Forall qbody (map (txt_body utf8) ss)).
  { inversion HB as [|? ? ? ? _ HB']; subst. clear - HB'. induction HB' as [|? ? ? ? [Hq _] _ IH]; constructor; assumption. }
  pose proof (txt_body_ok utf8 s Hb) as [Hq0 _].
  unfold rdata_from_text_txt, rdata_from_text, init.
  destruct (get0_quoted_body_q false [] (txt_body utf8 s) (txt_tail_b (map (txt_body utf8) ss) rest) eq_refl Hq0) as (he & E1).
  cbn [app] in E1. change (mkSt (34 :: txt_body utf8 s ++ 34 :: txt_tail_b (map (txt_body utf8) ss) rest) 0%nat false None)
    with (stq false (34 :: txt_body utf8 s ++ 34 :: txt_tail_b (map (txt_body utf8) ss) rest)).
  rewrite E1. cbn [bind]. unfold unget at 1. cbn [ungot stq bind inp multiline quoting].
  unfold is_identifier at 1. cbn [ttype]. change (tQUOTED =? tIDENT) with false. cbn [andb].
  unfold txt_from_text, get_remaining, rem_fuel. cbn [inp]. rewrite grl_unfold.
  unfold get0 at 1, get at 1. cbn [ungot ttype]. change (tQUOTED =? tWS) with false. change (tQUOTED =? tCOMMENT) with false.
  cbn [bind inp multiline quoting]. unfold is_eol_or_eof at 1. cbn [ttype].
  change (tQUOTED =? tEOL) with false. change (tQUOTED =? tEOF) with false. cbn [orb].
  pose proof (txt_tail_b_length (map (txt_body utf8) ss) rest) as Hlen.
  destruct (get_remaining_tail_b _ HQ rest (S (length (pend true ++ txt_tail_b (map (txt_body utf8) ss) rest)))
              [mkTok tQUOTED (txt_body utf8 s) he None] Hrest ltac:(rewrite app_length; lia))
    as (toks & te & st & HF & Hte & Hu & E2).
  unfold stq in E2. rewrite E2. cbn [bind rev app fst snd].
  rewrite (txt_strings_ok_b _ (s :: ss) (_ :: toks) HB HL); [|constructor; [split; reflexivity|exact HF]].
  cbn [bind is_nil fst snd].
  destruct (get_eol_ungot st te Hu Hte) as (st' & E3). rewrite E3. reflexivity.
Qed.
