(* Names inside RDATA: an uncompressed, valid, absolute name written by Name.to_wire is read back
   by dns.name.from_wire wherever it sits in a message, consuming exactly its own octets. *)
From DV Require Import Base.Prelude Model.NameM.
Open Scope Z_scope.

(* ---------- list helpers ---------- *)
Lemma skipn_app_len {A} (a b : list A) : skipn (length a) (a ++ b) = b.
Proof. induction a; cbn; auto. Qed.

Lemma firstn_app_len {A} (a b : list A) : firstn (length a) (a ++ b) = a.
Proof. induction a; cbn; congruence. Qed.

Lemma zlen_nonneg {A} (l : list A) : 0 <= zlen l.
Proof. unfold zlen. lia. Qed.

Lemma zlen_cons {A} (x : A) (l : list A) : zlen (x :: l) = zlen l + 1.
Proof. unfold zlen. cbn [length]. lia. Qed.

Lemma zlen_app {A} (a b : list A) : zlen (a ++ b) = zlen a + zlen b.
Proof. unfold zlen. rewrite app_length. lia. Qed.

Lemma zlen_nil {A} : zlen (@nil A) = 0.
Proof. reflexivity. Qed.

(* ---------- reading at a known position ---------- *)
Lemma nm_get_bytes_at : forall (A b C : list Z) (p : pst),
  cur p = length A -> furthest p = length A ->
  NameM.get_bytes (A ++ b ++ C) p (length b)
  = Ok (b, {| cur := (length A + length b)%nat; furthest := (length A + length b)%nat |}).
Proof.
  intros A b C p Hc Hf. unfold NameM.get_bytes.
  rewrite Hc, Hf, !app_length.
  destruct (Nat.ltb_spec (length A + (length b + length C) - length A) (length b)); [lia|].
  rewrite skipn_app_len, firstn_app_len.
  rewrite Nat.max_r by lia. reflexivity.
Qed.

Lemma nm_get_u8_at : forall (A C : list Z) (x : Z) (p : pst),
  cur p = length A -> furthest p = length A ->
  NameM.get_u8 (A ++ x :: C) p
  = Ok (x, {| cur := (length A + 1)%nat; furthest := (length A + 1)%nat |}).
Proof.
  intros. unfold NameM.get_u8.
  change (A ++ x :: C) with (A ++ [x] ++ C).
  change 1%nat with (length [x]) at 1.
  rewrite nm_get_bytes_at by assumption. reflexivity.
Qed.

(* ---------- structure of valid absolute names ---------- *)
Fixpoint labels_ok (ls : name) : Prop :=
  match ls with
  | [] => False
  | [l] => l = []
  | l :: r => 0 < zlen l <= 63 /\ labels_ok r
  end.

Fixpoint first_empty (ls : name) (j : nat) : option nat :=
  match ls with
  | [] => None
  | l :: r => if zlen l =? 0 then Some j else first_empty r (S j)
  end.

Lemma vl_loop_spec : forall ls total i j t i',
  vl_loop ls total i j = Ok (t, i') ->
  Forall (fun l => zlen l <= 63) ls /\ t = total + wire_length ls /\
  i' = match i with Some k => Some k | None => first_empty ls j end.
Proof.
  induction ls as [|l r IH]; intros total i j t i' H; cbn [vl_loop] in H.
  - injection H as <- <-. cbn. split; [apply Forall_nil|split; [lia|destruct i; reflexivity]].
  - destruct (zlen l >? 63) eqn:E; [discriminate|].
    apply IH in H as (Hall & Ht & Hi). split; [|split].
    + constructor; [lia|assumption].
    + cbn [wire_length fold_right]. fold (wire_length r). lia.
    + subst i'. destruct i; [reflexivity|]. cbn [first_empty]. destruct (zlen l =? 0); reflexivity.
Qed.

Lemma vl_loop_ok : forall ls total i j,
  Forall (fun l => zlen l <= 63) ls ->
  vl_loop ls total i j
  = Ok (total + wire_length ls, match i with Some k => Some k | None => first_empty ls j end).
Proof.
  induction ls as [|l r IH]; intros total i j Hall; cbn [vl_loop].
  - cbn. destruct i; f_equal; f_equal; lia.
  - inversion Hall; subst. destruct (zlen l >? 63) eqn:E; [lia|].
    rewrite IH by assumption. cbn [wire_length fold_right]. fold (wire_length r).
    f_equal. f_equal; [lia|]. destruct i; [reflexivity|]. cbn [first_empty].
    destruct (zlen l =? 0); reflexivity.
Qed.

Lemma is_absolute_cons : forall l r, r <> [] -> is_absolute (l :: r) = is_absolute r.
Proof. intros l [|x r] H; [congruence|reflexivity]. Qed.

Lemma first_empty_last : forall ls j,
  Forall (fun l => zlen l <= 63) ls -> is_absolute ls = true ->
  first_empty ls j = Some (j + (length ls - 1))%nat -> labels_ok ls.
Proof.
  induction ls as [|l r IH]; intros j Hall Habs Hfe; [discriminate|].
  inversion Hall; subst.
  destruct r as [|x r'].
  - cbn in Habs. destruct l; [reflexivity|discriminate].
  - rewrite is_absolute_cons in Habs by discriminate.
    assert (Hlen : (length (l :: x :: r') - 1 = S (length (x :: r') - 1))%nat) by (cbn [length]; lia).
    rewrite Hlen in Hfe. clear Hlen.
    assert (Hlo : labels_ok (l :: x :: r') <-> (0 < zlen l <= 63 /\ labels_ok (x :: r'))) by reflexivity.
    apply Hlo. clear Hlo.
    remember (x :: r') as r eqn:Hr.
    cbn [first_empty] in Hfe. destruct (zlen l =? 0) eqn:E.
    + inversion Hfe. lia.
    + split; [pose proof (zlen_nonneg l); lia|].
      eapply IH with (j := S j); eauto. rewrite Hfe. f_equal. lia.
Qed.

Lemma is_absolute_first_empty : forall ls j, is_absolute ls = true -> first_empty ls j <> None.
Proof.
  induction ls as [|l r IH]; intros j H; [discriminate|].
  cbn [first_empty]. destruct (zlen l =? 0) eqn:E; [discriminate|].
  destruct r as [|x r']; [cbn in H; destruct l; [cbn in E; discriminate|discriminate]|].
  rewrite is_absolute_cons in H by discriminate. apply IH; assumption.
Qed.

(* a name accepted by Name.__init__ that is absolute has the expected shape *)
Lemma validate_labels_ok : forall n,
  validate_labels n = Ok tt -> is_absolute n = true -> labels_ok n /\ wire_length n <= 255.
Proof.
  intros n Hv Habs. unfold validate_labels in Hv.
  destruct (vl_loop n 0 None 0) as [[t i]| |] eqn:E; try discriminate.
  apply vl_loop_spec in E as (Hall & Ht & Hi).
  destruct (t >? 255) eqn:Et; [discriminate|]. split; [|lia].
  destruct i as [k|].
  - destruct (Nat.eqb_spec k (length n - 1)); [|discriminate].
    eapply first_empty_last with (j := 0%nat); eauto. rewrite <- Hi. subst k. reflexivity.
  - exfalso. eapply is_absolute_first_empty; eauto.
Qed.

Lemma labels_ok_absolute : forall ls, labels_ok ls -> is_absolute ls = true.
Proof.
  induction ls as [|l r IH]; intros H; [contradiction|].
  destruct r as [|x r']; [cbn in H; subst; reflexivity|].
  rewrite is_absolute_cons by discriminate. apply IH. apply H.
Qed.

Lemma labels_ok_le63 : forall ls, labels_ok ls -> Forall (fun l => zlen l <= 63) ls.
Proof.
  induction ls as [|l r IH]; intros H; [constructor|].
  destruct r as [|x r']; [cbn in H; subst; repeat constructor; cbn; lia|].
  destruct H as [H1 H2]. constructor; [lia|auto].
Qed.

Lemma labels_ok_first_empty : forall ls j, labels_ok ls -> first_empty ls j = Some (j + (length ls - 1))%nat.
Proof.
  induction ls as [|l r IH]; intros j H; [contradiction|].
  destruct r as [|x r'].
  - cbn in H; subst. cbn. f_equal. lia.
  - destruct H as [H1 H2].
    assert (Hlen : (length (l :: x :: r') - 1 = S (length (x :: r') - 1))%nat) by (cbn [length]; lia).
    rewrite Hlen. clear Hlen. remember (x :: r') as r eqn:Hr.
    cbn [first_empty]. destruct (zlen l =? 0) eqn:E; [lia|].
    rewrite IH by assumption. f_equal. lia.
Qed.

Lemma labels_ok_validate : forall n, labels_ok n -> wire_length n <= 255 -> validate_labels n = Ok tt.
Proof.
  intros n H Hw. unfold validate_labels.
  rewrite vl_loop_ok by (apply labels_ok_le63; assumption).
  destruct (0 + wire_length n >? 255) eqn:E; [lia|].
  rewrite labels_ok_first_empty by assumption.
  rewrite Nat.add_0_l, Nat.eqb_refl. reflexivity.
Qed.

(* ---------- the wire form ---------- *)
Lemma wire_labels_cons : forall c l r, wire_labels c (l :: r) = (zlen l :: (if c then lower_l l else l)) ++ wire_labels c r.
Proof. reflexivity. Qed.

Lemma wire_labels_length : forall n, Z.of_nat (length (wire_labels false n)) = wire_length n.
Proof.
  induction n as [|l r IH]; [reflexivity|].
  rewrite wire_labels_cons. cbn [wire_length fold_right]. fold (wire_length r).
  rewrite app_length. cbn [length]. unfold zlen. lia.
Qed.

Lemma length_le_wire_labels : forall n, (length n <= length (wire_labels false n))%nat.
Proof.
  induction n as [|l r IH]; [cbn; lia|]. rewrite wire_labels_cons, app_length. cbn [length]. lia.
Qed.

(* the label loop of from_wire on an uncompressed name *)
Lemma fw_go_plain : forall ls fuel A C acc biggest,
  labels_ok ls -> (length ls < fuel)%nat ->
  fw_go (A ++ wire_labels false ls ++ C) fuel
        {| cur := length A; furthest := length A |} biggest acc
  = Ok (rev acc ++ ls,
        {| cur := (length A + length (wire_labels false ls))%nat;
           furthest := (length A + length (wire_labels false ls))%nat |}).
Proof.
  induction ls as [|l r IH]; intros fuel A C acc biggest Hok Hfuel; [contradiction|].
  destruct fuel as [|f]; [cbn in Hfuel; lia|].
  cbn [fw_go]. rewrite wire_labels_cons. cbn [app].
  rewrite <- app_assoc. cbn [app].
  rewrite nm_get_u8_at by reflexivity.
  destruct r as [|x r'].
  - cbn in Hok. subst l. cbn [zlen length Z.of_nat]. cbn [Z.eqb].
    cbn [wire_labels flat_map app length]. reflexivity.
  - destruct Hok as [Hl Hr].
    destruct (zlen l =? 0) eqn:E0; [lia|].
    destruct (zlen l <? 64) eqn:E1; [|lia].
    replace (Z.to_nat (zlen l)) with (length l) by (unfold zlen; lia).
    change (A ++ zlen l :: l ++ wire_labels false (x :: r') ++ C)
      with (A ++ [zlen l] ++ l ++ (wire_labels false (x :: r') ++ C)).
    rewrite app_assoc.
    assert (Hlen : length (A ++ [zlen l]) = (length A + 1)%nat) by (rewrite app_length; reflexivity).
    rewrite <- Hlen.
    rewrite nm_get_bytes_at by reflexivity.
    assert (HA : (length (A ++ [zlen l]) + length l)%nat = length ((A ++ [zlen l]) ++ l))
      by (symmetry; apply app_length).
    rewrite HA.
    replace ((A ++ [zlen l]) ++ l ++ wire_labels false (x :: r') ++ C)
      with (((A ++ [zlen l]) ++ l) ++ wire_labels false (x :: r') ++ C)
      by (rewrite <- !app_assoc; reflexivity).
    rewrite IH by (auto; cbn [length] in *; lia).
    cbn [rev]. rewrite <- app_assoc. cbn [app].
    f_equal. f_equal.
    assert (length ((A ++ [zlen l]) ++ l) + length (wire_labels false (x :: r'))
            = length A + length (zlen l :: l ++ wire_labels false (x :: r')))%nat.
    { rewrite !app_length. cbn [length]. rewrite app_length. lia. }
    f_equal; assumption.
Qed.

(* dns.name.from_wire on an uncompressed valid absolute name embedded in a message *)
Theorem from_wire_plain : forall n A C,
  validate_labels n = Ok tt -> is_absolute n = true ->
  NameM.from_wire (A ++ wire_labels false n ++ C) (length A)
  = Ok (n, length (wire_labels false n)).
Proof.
  intros n A C Hv Habs.
  destruct (validate_labels_ok n Hv Habs) as [Hok Hlen].
  unfold NameM.from_wire.
  destruct (Nat.ltb_spec (length (A ++ wire_labels false n ++ C)) (length A)) as [H|H].
  { rewrite app_length in H. lia. }
  rewrite fw_go_plain; auto.
  2:{ unfold fw_fuel. pose proof (length_le_wire_labels n). rewrite !app_length. nia. }
  cbn [rev app]. unfold mk_name. rewrite Hv. cbn [bind fst snd furthest].
  f_equal. f_equal. lia.
Qed.
