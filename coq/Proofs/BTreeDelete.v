(* C19 - deletion: balance (steal left / steal right / merge), successor replacement, exact
   deletes; the result is well-formed and its traversal is the sorted-list deletion. *)
From DV Require Import Base.Prelude Model.BTreeM Proofs.BTreeBase Proofs.BTreeWf Proofs.BTreeInsert.

(* what BTree._delete reports, as a function of the reference dictionary *)
Definition dspec (exact : option Z) (found : option elt) : dout :=
  match found, exact with
  | Some x, Some v => if snd x =? v then DDel x else DMismatch
  | Some x, None => DDel x
  | None, Some _ => DNoMatch
  | None, None => DNone
  end.

Definition after_del (key : Z) (o : dout) (l : list elt) : list elt :=
  match o with DDel _ => del_sorted key l | _ => l end.

(* replace the element stored under k *)
Fixpoint repl_sorted (k : Z) (e : elt) (l : list elt) : list elt :=
  match l with
  | [] => []
  | (k', v) :: r => if k =? k' then e :: r else (k', v) :: repl_sorted k e r
  end.

Lemma repl_sorted_lt a l k e : all_lt a k -> repl_sorted k e (a ++ l) = a ++ repl_sorted k e l.
Proof.
  intros Ha. induction a as [|[k' v] a IH]; cbn; [reflexivity|]. inversion Ha; subst. cbn in *.
  destruct (Z.eqb_spec k k'); [lia|]. now rewrite IH.
Qed.

Lemma repl_sorted_gt b k e : all_gt b k -> repl_sorted k e b = b.
Proof.
  induction b as [|[k' v] b IH]; cbn; [reflexivity|]. intros H; inversion H; subst. cbn in *.
  destruct (Z.eqb_spec k k'); [lia|]. now rewrite IH.
Qed.

Lemma repl_sorted_app_gt c b k e : all_gt b k -> repl_sorted k e (c ++ b) = repl_sorted k e c ++ b.
Proof.
  intros Hb. induction c as [|[k' v] c IH]; cbn; [now apply repl_sorted_gt|].
  destruct (Z.eqb_spec k k'); [reflexivity|]. cbn. now rewrite IH.
Qed.

Lemma repl_sorted_in_mid a c b k e :
  all_lt a k -> all_gt b k -> repl_sorted k e (a ++ c ++ b) = a ++ repl_sorted k e c ++ b.
Proof. intros. rewrite repl_sorted_lt by assumption. f_equal. now apply repl_sorted_app_gt. Qed.

Lemma repl_sorted_hit k v e b : repl_sorted k e ((k, v) :: b) = e :: b.
Proof. cbn. now rewrite Z.eqb_refl. Qed.

Lemma del_sorted_all_gt l k k' : all_gt l k' -> all_gt (del_sorted k l) k'.
Proof.
  induction l as [|[k0 v] l IH]; cbn; intros H; [assumption|]. inversion H as [|? ? H3 H4]; subst.
  destruct (k =? k0); [exact H4|]. constructor; [exact H3|exact (IH H4)].
Qed.

Lemma del_sorted_sorted k l : ksorted l -> ksorted (del_sorted k l).
Proof.
  induction l as [|[k' v] r IH]; cbn; intros Hs; [exact Logic.I|]. destruct Hs as (Hg & Hs).
  destruct (k =? k'); [assumption|]. cbn. split; [now apply del_sorted_all_gt|auto].
Qed.

Lemma list_last_cases {A} (l : list A) : l = [] \/ exists l' x, l = l' ++ [x].
Proof.
  destruct l as [|a l]; [now left|right].
  destruct (@exists_last A (a :: l)) as (l' & x & E); [discriminate|]. exists l', x. exact E.
Qed.

Ltac rw_app E := let Et := fresh in pose proof E as Et; cbn [app] in Et; rewrite Et; clear Et.
Ltac split_ands := repeat match goal with |- _ /\ _ => split end.

Section DEL.
Variable t : nat.
Hypothesis Ht : (3 <= t)%nat.
Notation wfn := (wfn t).

(* ---------------------------------------------------------------- separators *)

Lemma sep_bounds ea pe eb ka l r kb :
  length ka = length ea -> length kb = length eb ->
  ksorted (elements (Node false (ea ++ pe :: eb) (ka ++ l :: r :: kb))) ->
  (forall x, In x (elements l) -> fst x < fst pe) /\ (forall x, In x (elements r) -> fst pe < fst x).
Proof.
  intros H1 H2 Hs. rewrite elements_split2 in Hs by assumption.
  apply ksorted_app in Hs as (_ & Hs & _). apply ksorted_app in Hs as (Hs & _ & _).
  apply ksorted_mid in Hs as (Hl & Hr & _). unfold all_lt, all_gt in *. rewrite Forall_forall in *. auto.
Qed.

Lemma wfn_merge_parent lo h ea pe eb ka l r kb m :
  wfn lo (S h) (Node false (ea ++ pe :: eb) (ka ++ l :: r :: kb)) -> wfn (t_min t) h m ->
  wfn (length (ea ++ pe :: eb) - 1) (S h) (Node false (ea ++ eb) (ka ++ m :: kb)).
Proof.
  intros H Hm. apply wfn_inv in H as (Hb & [(? & _)|(_ & h' & Hh & Hk & Hall)]); [discriminate|].
  inversion Hh; subst h'. rewrite !app_length in *. cbn [length] in *.
  constructor; [rewrite app_length; lia|rewrite !app_length; cbn [length]; lia|].
  apply Forall_mid in Hall as (H1 & _ & H3). inversion H3; subst. apply Forall_mid. auto.
Qed.

(* ---------------------------------------------------------------- balance *)

(* the index of the child that has grown (the one the deletion continues in): one to the left when
   the child was merged into its left sibling *)
Definition grown (p p' : tree) (i : nat) : nat :=
  if (length (n_kids p') <? length (n_kids p))%nat && (0 <? i)%nat then (i - 1)%nat else i.

Ltac grown_tac :=
  unfold grown; cbn [n_kids]; rewrite ?app_length; cbn [length]; rewrite ?app_length; cbn [length];
  repeat (match goal with |- context [(?a <? ?b)%nat] => destruct (Nat.ltb_spec a b) end); cbn [andb]; lia.

Lemma balance_spec lo h key ea eb ka c kb :
  length ka = length ea -> length kb = length eb ->
  wfn lo (S h) (Node false (ea ++ eb) (ka ++ c :: kb)) ->
  (1 <= length (ea ++ eb))%nat ->
  length (n_elts c) = t_min t ->
  ksorted (elements (Node false (ea ++ eb) (ka ++ c :: kb))) ->
  all_lt ea key -> all_gt eb key ->
  exists ea1 eb1 ka1 c1 kb1,
    balance t (Node false (ea ++ eb) (ka ++ c :: kb)) (length ka)
      = Ok (Node false (ea1 ++ eb1) (ka1 ++ c1 :: kb1)) /\
    length ka1 = length ea1 /\ length kb1 = length eb1 /\
    all_lt ea1 key /\ all_gt eb1 key /\
    wfn (length (ea ++ eb) - 1) (S h) (Node false (ea1 ++ eb1) (ka1 ++ c1 :: kb1)) /\
    elements (Node false (ea1 ++ eb1) (ka1 ++ c1 :: kb1)) = elements (Node false (ea ++ eb) (ka ++ c :: kb)) /\
    (t_min t < length (n_elts c1))%nat /\
    length ka1 = grown (Node false (ea ++ eb) (ka ++ c :: kb)) (Node false (ea1 ++ eb1) (ka1 ++ c1 :: kb1)) (length ka).
Proof.
  intros H1 H2 Hw Hne Hc Hs Hlt Hgt.
  pose proof (t_min_lt_max t Ht) as Htm.
  pose proof Hw as Hw0.
  apply wfn_inv in Hw as (Hb & [(? & _)|(_ & h' & Hh & Hk & Hall)]); [discriminate|].
  inversion Hh; subst h'. apply Forall_mid in Hall as (Hka & Hcw & Hkb).
  unfold balance. cbn [n_leaf].
  destruct (list_last_cases ka) as [->|(ka' & l & ->)].
  - (* leftmost child *)
    destruct ea; [|discriminate]. cbn [app length] in *.
    rewrite try_left_steal_zero. cbn [bind].
    destruct eb as [|pe eb']; [cbn in Hne; lia|]. destruct kb as [|r kb']; [discriminate|].
    inversion Hkb as [|? ? Hrw Hkb']; subst.
    assert (H2' : length kb' = length eb') by (cbn in H2; lia).
    destruct (sep_bounds [] pe eb' [] c r kb' eq_refl H2' Hs) as (Hsl & Hsr).
    pose proof (try_right_steal_spec t Ht h [] pe eb' [] c r kb' (t_min t) eq_refl H2' Hcw Hrw) as Hst.
    cbn [app length] in Hst. specialize (Hst ltac:(lia)). cbn zeta in Hst.
    inversion Hgt as [|? ? Hpe Hgt']; subst.
    destruct (Nat.eqb_spec (length (n_elts r)) (t_min t)) as [Hrm|Hrm].
    + rewrite Hst. cbn [bind].
      destruct (merge_spec t Ht h [] pe eb' [] c r kb' eq_refl H2' Hcw Hrw) as (m & Hm & Hmw & Hme & Hml).
      { unfold t_min, t_max in *. lia. }
      cbn [app length] in Hm. rewrite Hm.
      exists [], eb', [], m, kb'. cbn [app length]. split_ands.
      * reflexivity.
      * reflexivity.
      * assumption.
      * constructor.
      * assumption.
      * apply (wfn_merge_parent lo h [] pe eb' [] c r kb' m Hw0 Hmw).
      * rw_app (elements_split [] eb' [] m kb' eq_refl H2'). rw_app (elements_split2 [] pe eb' [] c r kb' eq_refl H2').
        now rewrite Hme.
      * unfold t_min, t_max in *. lia.
      * grown_tac.
    + destruct Hst as (c' & re & r' & Hst & Hcw' & Hrw' & Hcl & Hrl & He & Hin). rewrite Hst. cbn [bind].
      exists [], (re :: eb'), [], c', (r' :: kb'). cbn [app length]. split_ands.
      * reflexivity.
      * reflexivity.
      * lia.
      * constructor.
      * constructor; [|assumption]. specialize (Hsr re Hin). lia.
      * eapply (wfn_lo t Ht); [apply (wfn_replace2 t Ht lo h [] pe eb' [] c r kb' re c' r' Hw0 Hcw' Hrw')|]. cbn. lia.
      * rw_app (elements_split2 [] re eb' [] c' r' kb' eq_refl H2'). rw_app (elements_split2 [] pe eb' [] c r kb' eq_refl H2').
        now rewrite He.
      * lia.
      * grown_tac.
  - (* there is a left sibling *)
    destruct (list_last_cases ea) as [->|(ea' & pe & ->)]; [rewrite app_length in H1; cbn in H1; lia|].
    assert (H1' : length ka' = length ea') by (rewrite !app_length in H1; cbn in H1; lia).
    rewrite <- !app_assoc in *. cbn [app] in *.
    apply Forall_app in Hka as (Hka' & Hlw). inversion Hlw as [|? ? Hlw' _]; subst. clear Hlw.
    replace (length (ka' ++ [l])) with (S (length ka')) by (rewrite app_length; cbn; lia).
    destruct (sep_bounds ea' pe eb ka' l c kb H1' H2 Hs) as (Hsl & Hsr).
    apply all_lt_app in Hlt as (Hlt' & Hpe). inversion Hpe as [|? ? Hpek _]; subst. clear Hpe.
    pose proof (try_left_steal_spec t Ht h ea' pe eb ka' l c kb (t_min t) H1' H2 Hlw' Hcw) as Hst.
    specialize (Hst ltac:(lia)). cbn zeta in Hst.
    destruct (Nat.eqb_spec (length (n_elts l)) (t_min t)) as [Hlm|Hlm].
    + rewrite Hst. cbn [bind].
      destruct kb as [|r kb'].
      * destruct eb; [|discriminate].
        rewrite (try_right_steal_last t _ (S (length ka')) (ka' ++ [l]) c).
        2:{ cbn [n_kids]. replace (ka' ++ l :: [c]) with ((ka' ++ [l]) ++ [c]) by (now rewrite <- app_assoc).
            apply split_at_app. rewrite app_length. cbn. lia. }
        cbn [bind].
        destruct (merge_spec t Ht h ea' pe [] ka' l c [] H1' eq_refl Hlw' Hcw) as (m & Hm & Hmw & Hme & Hml).
        { unfold t_min, t_max in *. lia. }
        rewrite Hm.
        exists ea', [], ka', m, []. split_ands.
        -- reflexivity.
        -- assumption.
        -- reflexivity.
        -- assumption.
        -- constructor.
        -- apply (wfn_merge_parent lo h ea' pe [] ka' l c [] m Hw0 Hmw).
        -- rewrite (elements_split ea' [] ka' m []), (elements_split2 ea' pe [] ka' l c []) by assumption.
           now rewrite Hme.
        -- unfold t_min, t_max in *. lia.
        -- grown_tac.
      * destruct eb as [|pe2 eb']; [discriminate|].
        inversion Hkb as [|? ? Hrw Hkb']; subst.
        assert (H2' : length kb' = length eb') by (cbn in H2; lia).
        assert (Hs2 : ksorted (elements (Node false ((ea' ++ [pe]) ++ pe2 :: eb') ((ka' ++ [l]) ++ c :: r :: kb')))).
        { rewrite <- !app_assoc. exact Hs. }
        assert (H1'' : length (ka' ++ [l]) = length (ea' ++ [pe])) by (rewrite !app_length; cbn; lia).
        destruct (sep_bounds (ea' ++ [pe]) pe2 eb' (ka' ++ [l]) c r kb' H1'' H2' Hs2) as (Hsl2 & Hsr2).
        pose proof (try_right_steal_spec t Ht h (ea' ++ [pe]) pe2 eb' (ka' ++ [l]) c r kb' (t_min t) H1'' H2' Hcw Hrw) as Hst2.
        specialize (Hst2 ltac:(lia)). cbn zeta in Hst2.
        rewrite <- !app_assoc in Hst2. cbn [app] in Hst2.
        replace (length (ka' ++ [l])) with (S (length ka')) in Hst2 by (rewrite app_length; cbn; lia).
        inversion Hgt as [|? ? Hpe2 Hgt']; subst.
        destruct (Nat.eqb_spec (length (n_elts r)) (t_min t)) as [Hrm|Hrm].
        -- rewrite Hst2. cbn [bind].
           destruct (merge_spec t Ht h ea' pe (pe2 :: eb') ka' l c (r :: kb') H1' H2 Hlw' Hcw) as (m & Hm & Hmw & Hme & Hml).
           { unfold t_min, t_max in *. lia. }
           rewrite Hm.
           exists ea', (pe2 :: eb'), ka', m, (r :: kb'). split_ands.
           ++ reflexivity.
           ++ assumption.
           ++ assumption.
           ++ assumption.
           ++ assumption.
           ++ apply (wfn_merge_parent lo h ea' pe (pe2 :: eb') ka' l c (r :: kb') m Hw0 Hmw).
           ++ rewrite (elements_split ea' (pe2 :: eb') ka' m (r :: kb')), (elements_split2 ea' pe (pe2 :: eb') ka' l c (r :: kb')) by assumption.
              now rewrite Hme.
           ++ unfold t_min, t_max in *. lia.
           ++ grown_tac.
        -- destruct Hst2 as (c' & re & r' & Hst2 & Hcw' & Hrw' & Hcl & Hrl & He & Hin). rewrite Hst2. cbn [bind].
           exists (ea' ++ [pe]), (re :: eb'), (ka' ++ [l]), c', (r' :: kb').
           rewrite <- !app_assoc. cbn [app]. split_ands.
           ++ reflexivity.
           ++ assumption.
           ++ cbn [length]. lia.
           ++ apply all_lt_app. split; [assumption|]. constructor; [assumption|constructor].
           ++ constructor; [|assumption]. specialize (Hsr2 re Hin). lia.
           ++ eapply (wfn_lo t Ht).
              { pose proof (wfn_replace2 t Ht lo h (ea' ++ [pe]) pe2 eb' (ka' ++ [l]) c r kb' re c' r') as Hrp.
                rewrite <- !app_assoc in Hrp. cbn [app] in Hrp. apply Hrp; assumption. }
              cbn [n_elts]. rewrite !app_length. cbn [length]. lia.
           ++ pose proof (elements_split2 (ea' ++ [pe]) re eb' (ka' ++ [l]) c' r' kb' H1'' H2') as E1.
              pose proof (elements_split2 (ea' ++ [pe]) pe2 eb' (ka' ++ [l]) c r kb' H1'' H2') as E2.
              replace (ea' ++ pe :: re :: eb') with ((ea' ++ [pe]) ++ re :: eb') by (now rewrite <- app_assoc).
              replace (ea' ++ pe :: pe2 :: eb') with ((ea' ++ [pe]) ++ pe2 :: eb') by (now rewrite <- app_assoc).
              replace (ka' ++ l :: c' :: r' :: kb') with ((ka' ++ [l]) ++ c' :: r' :: kb') by (now rewrite <- app_assoc).
              replace (ka' ++ l :: c :: r :: kb') with ((ka' ++ [l]) ++ c :: r :: kb') by (now rewrite <- app_assoc).
              rewrite E1, E2. now rewrite He.
           ++ lia.
           ++ grown_tac.
    + destruct Hst as (l' & le & c' & Hst & Hlw2 & Hcw' & Hll & Hcl & He & Hin). rewrite Hst. cbn [bind].
      exists (ea' ++ [le]), eb, (ka' ++ [l']), c', kb.
      rewrite <- !app_assoc. cbn [app]. split_ands.
      * reflexivity.
      * rewrite !app_length. cbn. lia.
      * assumption.
      * apply all_lt_app. split; [assumption|]. constructor; [|constructor]. specialize (Hsl le Hin). lia.
      * assumption.
      * eapply (wfn_lo t Ht); [apply (wfn_replace2 t Ht lo h ea' pe eb ka' l c kb le l' c' Hw0 Hlw2 Hcw')|].
        cbn [n_elts]. rewrite !app_length. cbn [length]. lia.
      * rewrite (elements_split2 ea' le eb ka' l' c' kb), (elements_split2 ea' pe eb ka' l c kb) by assumption.
        now rewrite He.
      * lia.
      * grown_tac.
Qed.

(* ---------------------------------------------------------------- the recursive step *)

Definition del_ok (h : nat) (n : tree) (key : Z) (exact : option Z) (r : res (tree * dout)) : Prop :=
  let o := dspec exact (find_sorted key (elements n)) in
  exists n', r = Ok (n', o) /\ wfn (length (n_elts n) - 1) h n' /\
             elements n' = after_del key o (elements n).

Definition drec_ok (rec : tree -> Z -> option Z -> res (tree * dout)) (h : nat) : Prop :=
  forall c key exact, wfn (t_min t) h c -> (t_min t < length (n_elts c))%nat -> ksorted (elements c) ->
                      del_ok h c key exact (rec c key exact).

Lemma after_del_in_mid a c b key exact :
  all_lt a key -> all_gt b key ->
  let o := dspec exact (find_sorted key c) in
  after_del key o (a ++ c ++ b) = a ++ after_del key o c ++ b.
Proof.
  intros Ha Hb o. destruct o; cbn [after_del]; try reflexivity. now apply del_sorted_in_mid.
Qed.

Lemma del_tail rec lo h key exact ea eb ka c kb :
  drec_ok rec h ->
  length ka = length ea -> length kb = length eb ->
  wfn lo (S h) (Node false (ea ++ eb) (ka ++ c :: kb)) ->
  (t_min t < length (n_elts c))%nat ->
  ksorted (elements (Node false (ea ++ eb) (ka ++ c :: kb))) ->
  all_lt ea key -> all_gt eb key ->
  let o := dspec exact (find_sorted key (elements (Node false (ea ++ eb) (ka ++ c :: kb)))) in
  exists c', rec c key exact = Ok (c', o) /\
    wfn lo (S h) (Node false (ea ++ eb) (ka ++ c' :: kb)) /\
    elements (Node false (ea ++ eb) (ka ++ c' :: kb)) = after_del key o (elements (Node false (ea ++ eb) (ka ++ c :: kb))).
Proof.
  intros Hrec H1 H2 Hw Hc Hs Hlt Hgt o.
  pose proof Hw as Hw0.
  apply wfn_inv in Hw as (Hb & [(? & _)|(_ & h' & Hh & Hk & Hall)]); [discriminate|].
  inversion Hh; subst h'. apply Forall_mid in Hall as (Hka & Hcw & Hkb).
  destruct (kid_sorted ea eb ka c kb H1 H2 Hs) as (Hcs & Hzl & Hzr & Hcb & Hbound).
  assert (HA : all_lt (zipl ka ea) key) by (apply zipl_lt; assumption).
  assert (HB : all_gt (zipr eb kb) key) by (apply zipr_gt; assumption).
  destruct (Hrec c key exact Hcw Hc Hcs) as (c' & Hr & Hcw' & Hce).
  assert (Ho : o = dspec exact (find_sorted key (elements c))).
  { unfold o. rewrite elements_split by assumption. now rewrite find_sorted_in_mid. }
  exists c'. rewrite Ho. split; [assumption|]. split.
  - apply (wfn_replace1 t Ht lo h ea eb ka c kb c' Hw0). eapply (wfn_lo t Ht); [exact Hcw'|].
    pose proof (wfn_len t Ht _ _ _ Hcw'). lia.
  - rewrite !elements_split by assumption. rewrite Hce. symmetry. now apply after_del_in_mid.
Qed.

Lemma del_down_spec rec lo h key exact ea eb ka c kb :
  drec_ok rec h ->
  length ka = length ea -> length kb = length eb ->
  wfn lo (S h) (Node false (ea ++ eb) (ka ++ c :: kb)) ->
  (1 <= length (ea ++ eb))%nat ->
  ksorted (elements (Node false (ea ++ eb) (ka ++ c :: kb))) ->
  all_lt ea key -> all_gt eb key ->
  del_ok (S h) (Node false (ea ++ eb) (ka ++ c :: kb)) key exact
         (del_down t rec (Node false (ea ++ eb) (ka ++ c :: kb)) key (length ka) exact).
Proof.
  intros Hrec H1 H2 Hw Hne Hs Hlt Hgt.
  pose proof Hw as Hw0.
  apply wfn_inv in Hw as (Hb & [(? & _)|(_ & h' & Hh & Hk & Hall)]); [discriminate|].
  inversion Hh; subst h'. apply Forall_mid in Hall as (Hka & Hcw & Hkb).
  unfold del_down. cbn [n_kids]. rewrite split_at_app by reflexivity. cbn [bind].
  rewrite (is_minimal_ok t Ht _ _ Hcw). cbn [bind].
  pose proof (wfn_len t Ht _ _ _ Hcw) as Hcl.
  destruct (Nat.eqb_spec (length (n_elts c)) (t_min t)) as [Hmin|Hmin].
  - destruct (balance_spec lo h key ea eb ka c kb H1 H2 Hw0 Hne Hmin Hs Hlt Hgt)
      as (ea1 & eb1 & ka1 & c1 & kb1 & -> & H1' & H2' & Hlt1 & Hgt1 & Hw1 & He1 & Hc1 & _).
    cbn [bind n_elts].
    assert (Hs1 : ksorted (elements (Node false (ea1 ++ eb1) (ka1 ++ c1 :: kb1)))) by now rewrite He1.
    pose proof (node_es_sorted t Ht _ _ _ Hw1 Hs1) as Hes1. cbn [n_elts] in Hes1.
    rewrite search_miss by assumption. cbn [bind].
    rewrite <- H1'. rewrite split_at_app by reflexivity. cbn [bind].
    apply wfn_inv in Hw1 as Hw1i. destruct Hw1i as (Hb1 & [(? & _)|(_ & h' & Hh' & Hk1 & Hall1)]); [discriminate|].
    inversion Hh'; subst h'. apply Forall_mid in Hall1 as (_ & Hcw1 & _).
    rewrite (is_minimal_ok t Ht _ _ Hcw1). cbn [bind].
    destruct (Nat.eqb_spec (length (n_elts c1)) (t_min t)); [lia|].
    destruct (del_tail rec _ h key exact ea1 eb1 ka1 c1 kb1 Hrec H1' H2' Hw1 Hc1 Hs1 Hlt1 Hgt1) as (c' & Hr & Hw' & He').
    rewrite He1 in Hr. rewrite Hr. cbn [bind].
    eexists. split; [reflexivity|]. split; [exact Hw'|]. rewrite He', He1. reflexivity.
  - cbn [bind]. rewrite split_at_app by reflexivity. cbn [bind].
    destruct (del_tail rec lo h key exact ea eb ka c kb Hrec H1 H2 Hw0) as (c' & Hr & Hw' & He'); try assumption; [lia|].
    rewrite Hr. cbn [bind].
    eexists. split; [reflexivity|]. split; [|exact He'].
    eapply (wfn_lo t Ht); [exact Hw'|]. cbn [n_elts]. lia.
Qed.

(* ---------------------------------------------------------------- minimum / replace_key *)

Lemma minimum_spec : forall h lo n, wfn lo h n -> (1 <= lo)%nat ->
  exists e rest, minimum n = Ok e /\ elements n = e :: rest.
Proof.
  induction h as [|h IH]; intros lo [lf es ks] Hw Hlo.
  { pose proof (wfn_pos t Ht _ _ _ Hw). lia. }
  apply wfn_inv in Hw as (Hb & [(-> & Hh & ->)|(-> & h' & Hh & Hk & Hall)]).
  - destruct es as [|e es]; [cbn in Hb; lia|]. exists e, es. split; reflexivity.
  - inversion Hh; subst h'. destruct ks as [|k0 ks]; [discriminate|]. inversion Hall; subst.
    assert (Hm : (1 <= t_min t)%nat) by (unfold t_min; lia).
    destruct (IH _ k0 H1 Hm) as (e & rest & Hmin & He).
    destruct es as [|e0 es]; [cbn in Hb; lia|].
    cbn [minimum]. rewrite Hmin. exists e. eexists. split; [reflexivity|].
    rewrite elements_node. cbn [interleave]. rewrite He. reflexivity.
Qed.

Lemma replace_key_spec key e : forall fuel h, (h <= fuel)%nat -> forall lo n old,
  wfn lo h n -> ksorted (elements n) -> find_sorted key (elements n) = Some old ->
  exists n', replace_key fuel n key e = Ok (n', old) /\ wfn lo h n' /\
             elements n' = repl_sorted key e (elements n).
Proof.
  induction fuel as [|f IH]; intros h Hf lo n old Hw Hs Hfind.
  { pose proof (wfn_pos t Ht _ _ _ Hw). lia. }
  pose proof (node_es_sorted t Ht _ _ _ Hw Hs) as Hes.
  destruct n as [lf es ks]. cbn [n_elts] in Hes. cbn [replace_key].
  destruct (search_cases key es Hes) as [(ea & v & eb & -> & Hsr & Hlt & Hgt)|(ea & eb & -> & Hsr & Hlt & Hgt)];
    rewrite Hsr; cbn [bind].
  - rewrite split_at_app by reflexivity. cbn [bind].
    pose proof Hw as Hw0.
    apply wfn_inv in Hw as (Hb & [(-> & -> & ->)|(-> & h' & -> & Hk & Hall)]).
    + cbn [elements] in *. rewrite find_sorted_lt in Hfind by assumption. cbn in Hfind. rewrite Z.eqb_refl in Hfind.
      inversion Hfind; subst old. eexists. split; [reflexivity|]. split.
      * constructor. len_lia.
      * rewrite repl_sorted_lt, repl_sorted_hit by assumption. reflexivity.
    + destruct (elements_at_elt ea eb ks) as (A & B & HAB).
      { rewrite Hk, !app_length. reflexivity. }
      rewrite HAB in Hs, Hfind. apply ksorted_mid in Hs as (HA & _). cbn [fst] in HA.
      rewrite find_sorted_lt in Hfind by assumption. cbn in Hfind. rewrite Z.eqb_refl in Hfind.
      inversion Hfind; subst old. eexists. split; [reflexivity|]. split.
      * constructor; try assumption; len_lia.
      * rewrite !HAB. rewrite repl_sorted_lt, repl_sorted_hit by assumption. reflexivity.
  - pose proof Hw as Hw0.
    apply wfn_inv in Hw as (Hb & [(-> & -> & ->)|(-> & h' & -> & Hk & Hall)]).
    + cbn [elements] in Hfind. rewrite find_sorted_lt, find_sorted_gt in Hfind by assumption. discriminate.
    + destruct (node_decomp1 (ea ++ eb) ks (length ea) Hk) as (ea' & eb' & ka & c & kb & He & -> & H1 & H2 & H3).
      { rewrite app_length. lia. }
      destruct (app_eq_len _ _ _ _ He H1) as (-> & ->).
      rewrite split_at_app by assumption. cbn [bind].
      apply Forall_mid in Hall as (Ha & Hc & Hbk).
      destruct (kid_sorted ea eb ka c kb H2 H3 Hs) as (Hcs & Hzl & Hzr & Hcb & Hbound).
      assert (HA : all_lt (zipl ka ea) key) by (apply zipl_lt; assumption).
      assert (HB : all_gt (zipr eb kb) key) by (apply zipr_gt; assumption).
      rewrite elements_split, find_sorted_in_mid in Hfind by assumption.
      destruct (IH h' ltac:(lia) _ c old Hc Hcs Hfind) as (c' & -> & Hc' & Hec). cbn [bind].
      eexists. split; [reflexivity|]. split.
      * apply (wfn_replace1 t Ht lo h' ea eb ka c kb c' Hw0 Hc').
      * rewrite !elements_split by assumption. rewrite Hec. symmetry. now apply repl_sorted_in_mid.
Qed.

(* ---------------------------------------------------------------- _Node.delete *)

Lemma del_spec : forall fuel h, (h <= fuel)%nat -> forall (isroot : bool) (n : tree) (key : Z) (exact : option Z),
  wfn (if isroot then root_lo n else t_min t) h n ->
  (isroot = false -> (t_min t < length (n_elts n))%nat) ->
  ksorted (elements n) ->
  del_ok h n key exact (del t fuel isroot n key exact).
Proof.
  induction fuel as [|f IH]; intros h Hf isroot n key exact Hw Hnm Hs.
  { pose proof (wfn_pos t Ht _ _ _ Hw). lia. }
  pose proof (node_es_sorted t Ht _ _ _ Hw Hs) as Hes.
  pose proof (wfn_len t Ht _ _ _ Hw) as Hlen.
  destruct n as [lf es ks]. cbn [n_elts] in *. cbn [del].
  assert (Hmn : (if isroot then Ok false else is_minimal t (Node lf es ks)) = Ok false).
  { destruct isroot; [reflexivity|]. specialize (Hnm eq_refl). unfold is_minimal. cbn [n_elts].
    destruct (Nat.ltb_spec (length es) (t_min t)); [lia|]. destruct (Nat.eqb_spec (length es) (t_min t)); [lia|reflexivity]. }
  rewrite Hmn. cbn [bind].
  assert (Hrec : forall h', h = S h' -> drec_ok (fun c k ex => del t f false c k ex) h').
  { intros h' -> c k ex Hc Hcl Hcs. apply (IH h' ltac:(lia) false c k ex); auto. }
  assert (Hne : lf = false -> (1 <= length es)%nat).
  { intros ->. unfold root_lo in Hlen. cbn [n_leaf] in Hlen. destruct isroot; [cbn in Hlen; lia|]. specialize (Hnm eq_refl). lia. }
  unfold del_ok. cbn zeta.
  destruct (search_cases key es Hes) as [(ea & v & eb & -> & Hsr & Hlt & Hgt)|(ea & eb & -> & Hsr & Hlt & Hgt)];
    rewrite Hsr; cbn [bind].
  - (* the key is in this node *)
    rewrite split_at_app by reflexivity. cbn [bind].
    pose proof Hw as Hw0.
    apply wfn_inv in Hw as (Hb & [(-> & -> & ->)|(-> & h' & -> & Hk & Hall)]).
    + (* leaf *)
      cbn [elements]. rewrite find_sorted_lt by assumption. cbn [find_sorted]. rewrite Z.eqb_refl.
      unfold exact_mismatch, dspec. cbn [snd].
      destruct exact as [vx|]; [destruct (Z.eqb_spec v vx); cbn [negb]|].
      * eexists. split; [reflexivity|]. split; [constructor; len_lia|].
        cbn [after_del]. rewrite del_sorted_lt, del_sorted_hit by assumption. reflexivity.
      * eexists. split; [reflexivity|]. split; [|reflexivity]. eapply (wfn_lo t Ht); [exact Hw0|]. cbn. lia.
      * eexists. split; [reflexivity|]. split; [constructor; len_lia|].
        cbn [after_del]. rewrite del_sorted_lt, del_sorted_hit by assumption. reflexivity.
    + (* internal: replace by the least successor *)
      destruct (node_decomp2 (ea ++ (key, v) :: eb) ks (length ea) Hk) as (ea' & pe & eb' & ka & cl & cr & kb & He & -> & H1 & H2 & H3).
      { rewrite app_length. cbn. lia. }
      destruct (app_eq_len _ _ _ _ He H1) as (-> & Hq). inversion Hq; subst pe eb'. clear Hq He H1.
      rewrite (elements_split2 ea (key, v) eb ka cl cr kb H2 H3) in *.
      set (X := zipl ka ea ++ elements cl) in *.
      assert (HX : all_lt X key).
      { rewrite <- app_assoc in Hs. rewrite app_assoc in Hs. apply ksorted_mid in Hs. tauto. }
      assert (Hfind : find_sorted key (zipl ka ea ++ (elements cl ++ (key, v) :: elements cr) ++ zipr eb kb) = Some (key, v)).
      { rewrite <- app_assoc. rewrite app_assoc. fold X. rewrite find_sorted_lt by assumption. cbn. now rewrite Z.eqb_refl. }
      rewrite Hfind.
      unfold exact_mismatch, dspec. cbn [snd].
      assert (Hgo : forall ex, (match ex with Some vx => negb (v =? vx) | None => false end) = false ->
                exists n', (do (_, rk, _) <- split_at (S (length ea)) (ka ++ cl :: cr :: kb);
                            do succ <- minimum rk;
                            do (n1, o) <- del_down t (fun c k ex0 => del t f false c k ex0)
                                            (Node false (ea ++ (key, v) :: eb) (ka ++ cl :: cr :: kb)) (fst succ) (S (length ea)) None;
                            match o with
                            | DDel selt => do (n2, old) <- replace_key (S f) n1 key selt; Ok (n2, DDel old)
                            | _ => Internal eAssert
                            end) = Ok (n', DDel (key, v)) /\
                  wfn (length (ea ++ (key, v) :: eb) - 1) (S h') n' /\
                  elements n' = del_sorted key (zipl ka ea ++ (elements cl ++ (key, v) :: elements cr) ++ zipr eb kb)).
      { intros ex _.
        apply Forall_mid in Hall as (Hka & Hclw & Hkb). inversion Hkb; subst. rename H1 into Hcrw. rename H4 into Hkb'.
        replace (ka ++ cl :: cr :: kb) with ((ka ++ [cl]) ++ cr :: kb) by (now rewrite <- app_assoc).
        rewrite split_at_app by (rewrite app_length; cbn; lia). cbn [bind].
        assert (Hm : (1 <= t_min t)%nat) by (unfold t_min; lia).
        destruct (minimum_spec h' _ cr Hcrw Hm) as (succ & rest & -> & Hcr). cbn [bind].
        replace (ea ++ (key, v) :: eb) with ((ea ++ [(key, v)]) ++ eb) by (now rewrite <- app_assoc).
        replace (S (length ea)) with (length (ka ++ [cl])) by (rewrite app_length; cbn; lia).
        assert (H2' : length (ka ++ [cl]) = length (ea ++ [(key, v)])) by (rewrite !app_length; cbn; lia).
        assert (Hw1 : wfn (if isroot then root_lo (Node false (ea ++ (key, v) :: eb) (ka ++ cl :: cr :: kb)) else t_min t) (S h')
                          (Node false ((ea ++ [(key, v)]) ++ eb) ((ka ++ [cl]) ++ cr :: kb))).
        { rewrite <- !app_assoc. exact Hw0. }
        assert (Hs1 : ksorted (elements (Node false ((ea ++ [(key, v)]) ++ eb) ((ka ++ [cl]) ++ cr :: kb)))).
        { rewrite <- !app_assoc. cbn [app]. rewrite (elements_split2 ea (key, v) eb ka cl cr kb H2 H3). exact Hs. }
        destruct (kid_sorted _ _ _ _ _ H2' H3 Hs1) as (_ & _ & _ & _ & Hbound).
        assert (Hsin : In succ (elements cr)) by (rewrite Hcr; now left).
        destruct (Hbound succ Hsin) as (Hslt & Hsgt).
        assert (Hne1 : (1 <= length ((ea ++ [(key, v)]) ++ eb))%nat) by (rewrite !app_length; cbn; lia).
        destruct (del_down_spec _ _ h' (fst succ) None _ _ _ cr kb (Hrec h' eq_refl) H2' H3 Hw1 Hne1 Hs1 Hslt Hsgt)
          as (n1 & Hd & Hn1w & Hn1e).
        rewrite Hd. cbn [bind].
        (* the successor is found and deleted *)
        assert (Hel : elements (Node false ((ea ++ [(key, v)]) ++ eb) ((ka ++ [cl]) ++ cr :: kb))
                      = X ++ (key, v) :: succ :: rest ++ zipr eb kb).
        { rewrite <- !app_assoc. cbn [app]. rewrite (elements_split2 ea (key, v) eb ka cl cr kb H2 H3).
          unfold X. rewrite Hcr. rewrite <- !app_assoc. reflexivity. }
        rewrite Hel in *.
        assert (HXs : all_lt (X ++ [(key, v)]) (fst succ)).
        { apply all_lt_app in Hslt as (_ & Hkv). inversion Hkv; subst. cbn [fst] in *.
          apply all_lt_app. split; [eapply all_lt_weaken; [|exact HX]; lia|]. constructor; [assumption|constructor]. }
        assert (Hfs : find_sorted (fst succ) (X ++ (key, v) :: succ :: rest ++ zipr eb kb) = Some succ).
        { replace (X ++ (key, v) :: succ :: rest ++ zipr eb kb) with ((X ++ [(key, v)]) ++ succ :: rest ++ zipr eb kb)
            by (now rewrite <- app_assoc).
          rewrite find_sorted_lt by assumption. destruct succ as [sk sv]. cbn. now rewrite Z.eqb_refl. }
        rewrite Hfs in *. cbn [dspec after_del] in *.
        assert (Hds : del_sorted (fst succ) (X ++ (key, v) :: succ :: rest ++ zipr eb kb) = X ++ (key, v) :: rest ++ zipr eb kb).
        { replace (X ++ (key, v) :: succ :: rest ++ zipr eb kb) with ((X ++ [(key, v)]) ++ succ :: rest ++ zipr eb kb)
            by (now rewrite <- app_assoc).
          rewrite del_sorted_lt by assumption. destruct succ as [sk sv]. cbn [fst]. rewrite del_sorted_hit.
          now rewrite <- app_assoc. }
        rewrite Hds in Hn1e.
        assert (Hn1s : ksorted (elements n1)).
        { rewrite Hn1e, <- Hds. now apply del_sorted_sorted. }
        assert (Hn1f : find_sorted key (elements n1) = Some (key, v)).
        { rewrite Hn1e. rewrite find_sorted_lt by assumption. cbn. now rewrite Z.eqb_refl. }
        destruct (replace_key_spec key succ (S f) (S h') ltac:(lia) _ n1 (key, v) Hn1w Hn1s Hn1f) as (n2 & -> & Hn2w & Hn2e).
        cbn [bind]. exists n2. split; [reflexivity|]. split.
        - exact Hn2w.
        - rewrite Hn2e, Hn1e. rewrite repl_sorted_lt, repl_sorted_hit by assumption.
          replace (zipl ka ea ++ (elements cl ++ (key, v) :: elements cr) ++ zipr eb kb)
            with (X ++ (key, v) :: succ :: rest ++ zipr eb kb)
            by (unfold X; rewrite Hcr; rewrite <- !app_assoc; cbn [app]; reflexivity).
          rewrite del_sorted_lt, del_sorted_hit by assumption. reflexivity. }
      destruct exact as [vx|]; [destruct (Z.eqb_spec v vx); cbn [negb]|].
      * destruct (Hgo (Some vx)) as (n' & Hr & Hw' & He'); [cbn; destruct (Z.eqb_spec v vx); [reflexivity|contradiction]|].
        rewrite Hr. exists n'. auto.
      * eexists. split; [reflexivity|]. split; [|cbn [after_del]; apply (elements_split2 ea (key, v) eb ka cl cr kb H2 H3)].
        eapply (wfn_lo t Ht); [exact Hw0|]. cbn [n_elts]. lia.
      * destruct (Hgo None eq_refl) as (n' & Hr & Hw' & He'). rewrite Hr. exists n'. auto.
  - (* the key is not in this node *)
    pose proof Hw as Hw0.
    apply wfn_inv in Hw as (Hb & [(-> & -> & ->)|(-> & h' & -> & Hk & Hall)]).
    + cbn [elements]. rewrite find_sorted_lt, find_sorted_gt by assumption.
      eexists. split; [destruct exact; reflexivity|]. split; [eapply (wfn_lo t Ht); [exact Hw0|]; cbn; lia|].
      destruct exact; reflexivity.
    + destruct (node_decomp1 (ea ++ eb) ks (length ea) Hk) as (ea' & eb' & ka & c & kb & He & -> & H1 & H2 & H3).
      { rewrite app_length. lia. }
      destruct (app_eq_len _ _ _ _ He H1) as (-> & ->).
      rewrite <- H2.
      apply (del_down_spec _ _ h' key exact ea eb ka c kb (Hrec h' eq_refl) H2 H3 Hw0 (Hne eq_refl) Hs Hlt Hgt).
Qed.

(* ---------------------------------------------------------------- BTree._delete at tree level *)

Theorem delete_tree_spec h root key exact :
  wfr t h root -> ksorted (elements root) ->
  let o := dspec exact (find_sorted key (elements root)) in
  exists h' root',
    delete_tree t root key exact = Ok (root', o) /\
    wfr t h' root' /\ ksorted (elements root') /\
    elements root' = after_del key o (elements root).
Proof.
  intros Hw Hs o. unfold delete_tree. unfold wfr in Hw.
  rewrite (wfn_depth t _ _ _ Hw).
  destruct (del_spec h h (le_n _) true root key exact Hw ltac:(discriminate) Hs) as (n' & -> & Hw' & He').
  cbn [bind]. fold o in He'. fold o.
  assert (Hs' : ksorted (elements n')).
  { rewrite He'. destruct o; cbn [after_del]; try assumption. now apply del_sorted_sorted. }
  destruct n' as [lf es ks]. unfold collapse_root.
  destruct es as [|e es].
  - destruct lf.
    + cbn [bind]. exists h, (Node true [] ks). split; [reflexivity|]. repeat split; try assumption.
      unfold wfr, root_lo. cbn [n_leaf]. eapply (wfn_lo t Ht); [exact Hw'|]. lia.
    + apply wfn_inv in Hw' as (Hb & [(? & _)|(_ & h' & -> & Hk & Hall)]); [discriminate|].
      destruct ks as [|k [|]]; try discriminate. cbn [bind]. inversion Hall; subst.
      exists h', k. split; [reflexivity|]. split; [|split].
      * unfold wfr. eapply (wfn_lo t Ht); [eassumption|]. unfold root_lo.
        pose proof (wfn_len t Ht _ _ _ H1). unfold t_min in *. destruct (n_leaf k); lia.
      * cbn in Hs'. exact Hs'.
      * rewrite <- He'. reflexivity.
  - cbn [bind]. exists h, (Node lf (e :: es) ks). split; [reflexivity|]. repeat split; try assumption.
    unfold wfr, root_lo. eapply (wfn_lo t Ht); [exact Hw'|]. cbn. destruct lf; lia.
Qed.

End DEL.
