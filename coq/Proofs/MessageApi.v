(* dns.renderer.Renderer used directly: an invariant over arbitrary sequences of add_question / add_rrset /
   reserve / release_reserved / add_opt / write_header / _write_tsig calls with TooBig caught by the caller. *)
From DV Require Import Base.Prelude Model.NameM Model.MessageM.
From DV Require Import Proofs.NameOrder Proofs.NameValid Proofs.NameRel Proofs.NameWire Proofs.NameCompress.
From DV Require Import Proofs.MessageName Proofs.MessageRender Proofs.MessageRead Proofs.MessageRoundtrip Proofs.MessageRoundtrip2.
From DV Require Import Proofs.MessageSize Proofs.MessagePad Proofs.MessageTrunc Proofs.MessageRoundtrip3.
Open Scope Z_scope.

(* ---------- every successful emission keeps the compression table sound (no well-formedness needed) ---------- *)
Definition ts_em (E : emitter) : Prop :=
  forall file t em t', TableSound file t -> E (zlen file) t = Ok (em, t') -> TableSound (file ++ em) t'.

Lemma full_labels_ok n o L : full_labels n o = Ok L -> name_ok L.
Proof.
  unfold full_labels. intros H. destruct (is_absolute n) eqn:A.
  - cbn [bind] in H. apply mk_name_ok in H. destruct H as (-> & V). split; assumption.
  - destruct o as [org|]; [|discriminate]. destruct (is_absolute org) eqn:Ao; [|discriminate].
    cbn [bind] in H. apply mk_name_ok in H. destruct H as (-> & V). split; [exact V|].
    destruct org as [|x org']; [discriminate|]. rewrite is_absolute_app. exact Ao.
Qed.

Lemma ts_nm_em n o c : ts_em (nm_em n o c).
Proof.
  intros file t em t' TS H. pose proof H as H0. unfold nm_em in H0. apply bind_ok in H0. destruct H0 as (L & HF & _).
  exact (proj1 (nm_em_sound n o L c file t em t' TS HF (full_labels_ok _ _ _ HF) H)).
Qed.

Lemma ts_seq (E1 E2 : emitter) file t e1 t1 e2 t2 :
  ts_em E1 -> ts_em E2 -> TableSound file t -> E1 (zlen file) t = Ok (e1, t1) -> E2 (zlen file + zlen e1) t1 = Ok (e2, t2) ->
  TableSound (file ++ e1 ++ e2) t2.
Proof.
  intros X1 X2 TS H1 H2. rewrite app_assoc. apply (X2 (file ++ e1) t1 e2 t2); [exact (X1 file t e1 t1 TS H1)|]. rewrite zlen_app'. exact H2.
Qed.

Lemma ts_rd_em : forall ps o c, ts_em (rd_em ps o c).
Proof.
  induction ps as [|p r IH]; intros o c file t em t' TS H.
  - injection H as <- <-. rewrite app_nil_r. exact TS.
  - destruct p as [b|n|n|n]; cbn [rd_em] in H.
    + apply bind_ok in H. destruct H as ([e2 t2] & H2 & H). injection H as <- <-. cbn [fst snd].
      rewrite app_assoc. apply (IH o c (file ++ b) t e2 t2); [apply TableSound_app; exact TS|]. rewrite zlen_app'. exact H2.
    + apply bind_ok in H. destruct H as ([e1 t1] & H1 & H). apply bind_ok in H. destruct H as ([e2 t2] & H2 & H).
      injection H as <- <-. cbn [fst snd] in *.
      exact (ts_seq _ _ _ _ _ _ _ _ (ts_nm_em n o c) (IH o c) TS H1 H2).
    + apply bind_ok in H. destruct H as ([e1 t1] & H1 & H). apply bind_ok in H. destruct H as ([e2 t2] & H2 & H).
      injection H as <- <-. cbn [fst snd] in *.
      exact (ts_seq _ _ _ _ _ _ _ _ (ts_nm_em n o false) (IH o c) TS H1 H2).
    + apply bind_ok in H. destruct H as ([e1 t1] & H1 & H). apply bind_ok in H. destruct H as ([e2 t2] & H2 & H).
      injection H as <- <-. cbn [fst snd] in *.
      exact (ts_seq _ _ _ _ _ _ _ _ (ts_nm_em n o false) (IH o c) TS H1 H2).
Qed.

Lemma ts_rr_em owner ty cl ttl rd oo ro oc rc : ts_em (rr_em owner ty cl ttl rd oo ro oc rc).
Proof.
  intros file t em t' TS H.
  destruct (rr_em_split _ _ _ _ _ _ _ _ _ _ _ _ _ H) as (e1 & t1 & e2 & N1 & D1 & _ & _ & _ & _ & ->).
  pose proof (ts_nm_em owner oo oc file t e1 t1 TS N1) as TS1.
  set (hdr := MessageM.u16 ty ++ MessageM.u16 cl ++ MessageM.u32 ttl ++ MessageM.u16 (zlen e2)).
  replace (file ++ e1 ++ MessageM.u16 ty ++ MessageM.u16 cl ++ MessageM.u32 ttl ++ MessageM.u16 (zlen e2) ++ e2)
    with (((file ++ e1) ++ hdr) ++ e2) by (unfold hdr; rewrite <- !app_assoc; reflexivity).
  apply (ts_rd_em rd ro rc ((file ++ e1) ++ hdr) t1 e2 t'); [apply TableSound_app; exact TS1|].
  replace (zlen ((file ++ e1) ++ hdr)) with (zlen file + zlen e1 + 10); [exact D1|].
  rewrite !zlen_app'. unfold hdr. rewrite !zlen_app'. reflexivity.
Qed.

Lemma ts_rrs_em : forall rds owner ty cl ttl o c, ts_em (rrs_em owner ty cl ttl rds o c).
Proof.
  induction rds as [|rd r IH]; intros owner ty cl ttl o c file t em t' TS H.
  - injection H as <- <-. rewrite app_nil_r. exact TS.
  - cbn [rrs_em] in H. apply bind_ok in H. destruct H as ([e1 t1] & H1 & H).
    apply bind_ok in H. destruct H as ([e2 t2] & H2 & H). injection H as <- <-. cbn [fst snd] in *.
    exact (ts_seq _ _ _ _ _ _ _ _ (ts_rr_em owner ty cl ttl rd o o c c) (IH owner ty cl ttl o c) TS H1 H2).
Qed.

Lemma ts_rrset_em rs o c : ts_em (rrset_em rs o c).
Proof.
  unfold rrset_em. intros file t em t' TS H. destruct (rrds rs).
  - exact (ts_rr_em _ _ _ _ _ _ _ _ _ file t em t' TS H).
  - exact (ts_rrs_em _ _ _ _ _ _ _ file t em t' TS H).
Qed.

Lemma ts_q_em o n ty cl : ts_em (q_em o n ty cl).
Proof.
  intros file t em t' TS H. unfold q_em in H.
  apply bind_ok in H. destruct H as ([e1 t1] & H1 & H).
  apply bind_ok in H. destruct H as (h1 & _ & H). apply bind_ok in H. destruct H as (h2 & _ & H).
  injection H as <- <-. cbn [fst snd]. rewrite app_assoc. apply TableSound_app.
  exact (ts_nm_em n o true file t e1 t1 TS H1).
Qed.

(* ---------- the invariant ---------- *)
(* e = the max_size the Renderer was created with (maxsz + reserved stays e) *)
Definition AInv (e : Z) (r : rst) : Prop :=
  12 <= zlen (out r) /\ zlen (out r) <= Z.max 12 e /\ TblBelow r /\
  maxsz r + reserved r = e /\ 0 <= reserved r /\
  (forall h, length h = 12%nat -> TableSound (h ++ skipn 12 (out r)) (tbl r)).

Lemma skipn_app_ge {A} (a b : list A) n : (n <= length a)%nat -> skipn n (a ++ b) = skipn n a ++ b.
Proof. intros H. rewrite skipn_app. replace (n - length a)%nat with 0%nat by lia. reflexivity. Qed.

Lemma zlen_ghost (h f : list Z) : length h = 12%nat -> 12 <= zlen f -> zlen (h ++ skipn 12 f) = zlen f.
Proof. intros Hh Hf. rewrite zlen_app'. unfold zlen in *. rewrite skipn_length, Hh. lia. Qed.

Lemma skipn_patch16_hdr f v : (12 <= length f)%nat -> skipn 12 (patch16 f 10 v) = skipn 12 f.
Proof.
  intros H. unfold patch16. change (Z.to_nat 10) with 10%nat.
  replace (firstn 10 f ++ MessageM.u16 v ++ skipn (10 + 2) f) with ((firstn 10 f ++ MessageM.u16 v) ++ skipn 12 f)
    by (rewrite <- app_assoc; reflexivity).
  apply skipn_app_exact'. rewrite app_length, firstn_length. cbn [length MessageM.u16]. lia.
Qed.

Lemma tracked_AInv E sec n e r b r' :
  ext_em E -> ts_em E -> AInv e r -> tracked E sec n r = Ok (b, r') ->
  AInv e r' /\ padded r' = padded r /\
  (0 <= sec <= 3 -> counts_sum r' = counts_sum r + (if b then 0 else n)).
Proof.
  intros X T (I1 & I2 & I3 & I4 & I5 & I6) H.
  destruct (tracked_spec E sec n r b r' X I3 H) as (_ & em & new & HE & F & [(-> & Hfit & ->)|(-> & Hbig & ->)]).
  - pose proof (zlen_nn em). pose proof (TblBelow_step r em new I3 F) as TB'.
    split; [|split; [reflexivity|]].
    + unfold AInv, TblBelow. cbn [out tbl maxsz reserved inc_count set_out set_rsec].
      split; [rewrite zlen_app'; lia|]. split; [rewrite zlen_app'; lia|]. split; [exact TB'|]. split; [exact I4|]. split; [exact I5|].
      intros h Hh. rewrite skipn_app_ge by (unfold zlen in I1; lia). rewrite app_assoc.
      apply (T (h ++ skipn 12 (out r)) (tbl r) em (tbl r ++ new)); [apply I6; exact Hh|].
      rewrite zlen_ghost by assumption. exact HE.
    + intros Hs. unfold counts_sum. cbn [cq can cau cad inc_count set_out set_rsec].
      assert (sec = 0 \/ sec = 1 \/ sec = 2 \/ sec = 3) as [Hx|[Hx|[Hx|Hx]]] by lia; subst sec; cbn [Z.eqb Pos.eqb]; lia.
  - split; [|split; [reflexivity|]].
    + unfold AInv, TblBelow. cbn [out tbl maxsz reserved set_rsec]. auto 10.
    + intros _. unfold counts_sum. cbn [cq can cau cad set_rsec]. lia.
Qed.

Definition rop_cnt (op : rop) : Z :=
  match op with
  | RQ _ _ _ => 1
  | RRS s rs => if (0 <=? s) && (s <=? 3) then rrset_count rs else 0
  | ROPT _ _ _ _ => 1
  | RTSIG _ _ => 1
  | _ => 0
  end.

Lemma AInv_set_padded e r : AInv e r -> AInv e (set_padded r).
Proof. intros H. exact H. Qed.

Lemma rop_step_AInv origin id e op r b r' :
  AInv e r -> rop_step origin id op r = Ok (b, r') ->
  AInv e r' /\ counts_sum r' = counts_sum r + (if b then 0 else rop_cnt op).
Proof.
  intros I H. destruct op as [n t c|s rs|size| |oo pad os ts| |kn rd]; cbn [rop_step rop_cnt] in *.
  - rewrite add_question_tracked in H.
    destruct (tracked_AInv _ _ _ _ _ _ _ (ext_q_em _ _ _ _) (ts_q_em _ _ _ _) I H) as (A & _ & C).
    split; [exact A|apply C; lia].
  - rewrite add_rrset_tracked in H.
    destruct (tracked_AInv _ _ _ _ _ _ _ (ext_rrset_em _ _ _) (ts_rrset_em _ _ _) I H) as (A & _ & C).
    split; [exact A|].
    destruct (Z.leb_spec 0 s); destruct (Z.leb_spec s 3); cbn [andb]; try (apply C; lia).
    + (* a section outside 0..3: nothing is counted *)
      destruct (tracked_spec _ _ _ _ _ _ (ext_rrset_em _ _ _) (proj1 (proj2 (proj2 I))) H) as (_ & em & new & _ & _ & [(-> & _ & ->)|(-> & _ & ->)]);
        unfold counts_sum; cbn [cq can cau cad inc_count set_out set_rsec];
        destruct (Z.eqb_spec s 0); destruct (Z.eqb_spec s 1); destruct (Z.eqb_spec s 2); destruct (Z.eqb_spec s 3); lia.
    + destruct (tracked_spec _ _ _ _ _ _ (ext_rrset_em _ _ _) (proj1 (proj2 (proj2 I))) H) as (_ & em & new & _ & _ & [(-> & _ & ->)|(-> & _ & ->)]);
        unfold counts_sum; cbn [cq can cau cad inc_count set_out set_rsec];
        destruct (Z.eqb_spec s 0); destruct (Z.eqb_spec s 1); destruct (Z.eqb_spec s 2); destruct (Z.eqb_spec s 3); lia.
    + destruct (tracked_spec _ _ _ _ _ _ (ext_rrset_em _ _ _) (proj1 (proj2 (proj2 I))) H) as (_ & em & new & _ & _ & [(-> & _ & ->)|(-> & _ & ->)]);
        unfold counts_sum; cbn [cq can cau cad inc_count set_out set_rsec];
        destruct (Z.eqb_spec s 0); destruct (Z.eqb_spec s 1); destruct (Z.eqb_spec s 2); destruct (Z.eqb_spec s 3); lia.
  - (* reserve *)
    apply bind_ok in H. destruct H as (r1 & R & H). injection H as <- <-.
    destruct I as (I1 & I2 & I3 & I4 & I5 & I6).
    unfold reserve in R. destruct (Z.ltb_spec size 0); [discriminate|]. destruct (size >? maxsz r); [discriminate|].
    injection R as <-. split; [|unfold counts_sum; cbn; lia].
    unfold AInv, TblBelow. cbn [out tbl maxsz reserved set_limits].
    split; [exact I1|]. split; [exact I2|]. split; [exact I3|]. split; [lia|]. split; [lia|exact I6].
  - (* release_reserved *)
    injection H as <- <-. destruct I as (I1 & I2 & I3 & I4 & I5 & I6). split; [|unfold counts_sum; cbn; lia].
    unfold AInv, TblBelow, release_reserved. cbn [out tbl maxsz reserved set_limits].
    split; [exact I1|]. split; [exact I2|]. split; [exact I3|]. split; [lia|]. split; [lia|exact I6].
  - (* add_opt *)
    rewrite add_opt_pad in H. unfold add_opt in H. cbn [Z.eqb] in H.
    apply bind_ok in H. destruct H as (rs & HR & H). rewrite add_rrset_tracked in H.
    assert (I' : AInv e (pad_st r pad)) by (unfold pad_st; destruct (pad =? 0); exact I).
    destruct (tracked_AInv _ _ _ _ _ _ _ (ext_rrset_em _ _ _) (ts_rrset_em _ _ _) I' H) as (A & _ & C).
    split; [exact A|]. rewrite (C ltac:(lia)).
    assert (counts_sum (pad_st r pad) = counts_sum r) by (unfold pad_st; destruct (pad =? 0); reflexivity).
    assert (rrset_count rs = 1).
    { unfold opt_rrset in HR. apply bind_ok in HR. destruct HR as (w & _ & HR). injection HR as <-. reflexivity. }
    destruct b; lia.
  - (* write_header *)
    apply bind_ok in H. destruct H as (r1 & R & H). injection H as <- <-.
    destruct I as (I1 & I2 & I3 & I4 & I5 & I6).
    destruct (write_header_spec _ _ _ I1 R) as (A & B & C & D & _ & S12 & _ & _ & Q0 & Q1 & Q2 & Q3).
    split; [|unfold counts_sum; lia].
    unfold AInv, TblBelow. rewrite A, B, C, D, S12.
    split; [exact I1|]. split; [exact I2|]. split; [exact I3|]. split; [lia|]. split; [lia|exact I6].
  - (* _write_tsig *)
    rewrite write_tsig_eq in H. apply bind_ok in H. destruct H as ([b1 r1] & H1 & H). cbn [fst snd] in H.
    destruct (tracked_AInv _ _ _ _ _ _ _ (ext_rr_em _ _ _ _ _ _ _ _ _) (ts_rr_em _ _ _ _ _ _ _ _ _) I H1) as (A & _ & C).
    specialize (C ltac:(lia)).
    destruct b1.
    + injection H as <- <-. split; [exact A|lia].
    + apply bind_ok in H. destruct H as (c & _ & H). injection H as <- <-.
      destruct A as (J1 & J2 & J3 & J4 & J5 & J6).
      assert (Hz : zlen (patch16 (out r1) 10 (cad r1)) = zlen (out r1)) by (apply zlen_patch16; lia).
      split; [|unfold counts_sum in *; cbn [cq can cau cad set_out]; lia].
      unfold AInv, TblBelow. cbn [out tbl maxsz reserved set_out]. rewrite Hz.
      split; [exact J1|]. split; [exact J2|]. split; [exact J3|]. split; [exact J4|]. split; [exact J5|].
      intros h Hh. rewrite skipn_patch16_hdr by (unfold zlen in J1; lia). apply J6. exact Hh.
Qed.

(* the records accepted by a sequence of calls (TooBig calls count nothing) *)
Fixpoint accepted (origin : option name) (id : Z) (ops : list rop) (r : rst) : Z :=
  match ops with
  | [] => 0
  | op :: rest =>
      match rop_step origin id op r with
      | Ok (big, r') => (if big then 0 else rop_cnt op) + accepted origin id rest r'
      | _ => 0
      end
  end.

Theorem api_invariant_lemma origin id e : forall ops r acc res r',
  AInv e r -> run_rops origin id ops r acc = (res, r') ->
  AInv e r' /\ counts_sum r' = counts_sum r + accepted origin id ops r.
Proof.
  induction ops as [|op ops IH]; intros r acc res r' I H.
  - injection H as _ <-. split; [exact I|cbn; lia].
  - cbn [run_rops accepted] in *. destruct (rop_step origin id op r) as [[b r1]| |] eqn:S.
    + destruct (rop_step_AInv _ _ _ _ _ _ _ I S) as (I1 & C1).
      destruct (IH r1 _ res r' I1 H) as (I2 & C2). split; [exact I2|lia].
    + injection H as _ <-. split; [exact I|lia].
    + injection H as _ <-. split; [exact I|lia].
Qed.

Lemma AInv_init flags ms : AInv ms (mkRst (repeat 0 12) [] 0 0 0 0 0 flags ms 0 false).
Proof.
  unfold AInv, TblBelow. cbn [out tbl maxsz reserved]. change (zlen (repeat 0 12)) with 12.
  split; [lia|]. split; [lia|]. split; [constructor|]. split; [lia|]. split; [lia|]. intros h Hh k v [].
Qed.

(* a Renderer created with max_size, after ANY sequence of calls: the output is at most max(12, max_size)
   octets, the header counts add up to the records accepted, every compression-table offset lies inside
   the output and decodes (in the output as it is, header included) to its key *)
Theorem renderer_api_invariant_lemma origin id flags ms ops res r :
  run_rops origin id ops (mkRst (repeat 0 12) [] 0 0 0 0 0 flags ms 0 false) [] = (res, r) ->
  12 <= zlen (out r) <= Z.max 12 ms /\
  cq r + can r + cau r + cad r = accepted origin id ops (mkRst (repeat 0 12) [] 0 0 0 0 0 flags ms 0 false) /\
  Forall (fun kv => snd kv < zlen (out r)) (tbl r) /\
  TableSound (out r) (tbl r) /\
  (maxsz r + reserved r = ms /\ 0 <= reserved r).
Proof.
  intros H. destruct (api_invariant_lemma origin id ms ops _ _ _ _ (AInv_init flags ms) H) as ((I1 & I2 & I3 & I4 & I5 & I6) & C).
  split; [lia|]. split; [unfold counts_sum in C; cbn [cq can cau cad] in C; lia|]. split; [exact I3|].
  split; [|split; [exact I4|exact I5]].
  specialize (I6 (firstn 12 (out r))). rewrite firstn_skipn in I6. apply I6.
  rewrite firstn_length. unfold zlen in I1. lia.
Qed.

(* ======================================================================= *)
(*  EDNS options: what the reader returns is in the form the option classes render          *)
(* ======================================================================= *)
Definition octets (l : list Z) : Prop := Forall (fun b => 0 <= b < 256) l.

Lemma rstrip0_idem l : rstrip0 (rstrip0 l) = rstrip0 l.
Proof.
  induction l as [|a l IH]; [reflexivity|].
  change (rstrip0 (a :: l)) with (match rstrip0 l with [] => if a =? 0 then [] else [a] | r' => a :: r' end).
  destruct (rstrip0 l) as [|z l0] eqn:E.
  - destruct (a =? 0) eqn:Ea; [reflexivity|]. cbn. rewrite Ea. reflexivity.
  - change (rstrip0 (a :: z :: l0)) with (match rstrip0 (z :: l0) with [] => if a =? 0 then [] else [a] | r' => a :: r' end).
    rewrite IH. reflexivity.
Qed.

Lemma removelast_snoc {A} (l : list A) x : removelast (l ++ [x]) = l.
Proof. rewrite removelast_app by discriminate. cbn. apply app_nil_r. Qed.

Lemma ecs_mask_idem src p : ecs_mask src (ecs_mask src p) = ecs_mask src p.
Proof.
  unfold ecs_mask. cbv zeta. destruct (src mod 8 =? 0) eqn:E; [reflexivity|].
  rewrite removelast_snoc, last_last. f_equal. f_equal.
  rewrite <- Z.land_assoc, Z.land_diag. reflexivity.
Qed.

Lemma ecs_mask_len src p : 0 <= src -> zlen p = (src + 7) / 8 -> zlen (ecs_mask src p) = zlen p.
Proof.
  intros H0 HL. unfold ecs_mask. cbv zeta. destruct (src mod 8 =? 0) eqn:E; [reflexivity|].
  apply Z.eqb_neq in E.
  destruct p as [|x p]; [exfalso|].
  { unfold zlen in HL. cbn in HL. assert (1 <= src) by (destruct (Z.eq_dec src 0); [subst; cbn in E; lia|lia]).
    assert (1 <= (src + 7) / 8) by (apply Z.div_le_lower_bound; lia). lia. }
  unfold zlen. rewrite app_length. cbn [length].
  assert (L : (length (removelast (x :: p)) = length p)%nat).
  { clear. revert x. induction p as [|y p IH]; intros x; [reflexivity|].
    change (removelast (x :: y :: p)) with (x :: removelast (y :: p)). cbn [length]. rewrite IH. reflexivity. }
  rewrite L. lia.
Qed.

(* an option the reader accepted is accepted again, unchanged, when its octets come back *)
Lemma opt_dec_idem code d d' : octets d -> opt_dec code d = Ok d' -> opt_dec code d' = Ok d'.
Proof.
  intros OC. unfold opt_dec.
  destruct (code =? 3); [intros H; injection H as <-; reflexivity|].
  destruct (code =? 10).
  { destruct ((zlen d =? 8) || ((16 <=? zlen d) && (zlen d <=? 40))) eqn:C; [|discriminate].
    intros H; injection H as <-. rewrite C. reflexivity. }
  destruct ((22 <=? code) && (code <=? 25)).
  { destruct (utf8_ok d) eqn:C; [|discriminate]. intros H; injection H as <-. rewrite C. reflexivity. }
  destruct (code =? 15).
  { destruct d as [|a [|b text]]; try discriminate.
    destruct (utf8_ok (rstrip0 text)) eqn:C; [|discriminate]. intros H; injection H as <-.
    rewrite rstrip0_idem, C. reflexivity. }
  destruct (code =? 8).
  { destruct d as [|f1 [|f2 [|src [|scope prefix]]]]; try discriminate.
    destruct (negb ((f1 * 256 + f2 =? 1) || (f1 * 256 + f2 =? 2))) eqn:C1; [discriminate|].
    destruct (negb (zlen prefix =? (src + 7) / 8)) eqn:C2; [discriminate|].
    destruct ((((if f1 * 256 + f2 =? 1 then 32 else 128) <? src) || ((if f1 * 256 + f2 =? 1 then 32 else 128) <? scope))) eqn:C3; [discriminate|].
    intros H; injection H as <-. rewrite C1.
    assert (0 <= src).
    { inversion OC as [|? ? _ O1]; subst. inversion O1 as [|? ? _ O2]; subst. inversion O2 as [|? ? Hs _]; subst. lia. }
    apply Bool.negb_false_iff in C2. apply Z.eqb_eq in C2.
    rewrite (ecs_mask_len src prefix H C2). rewrite C2, Z.eqb_refl. cbn [negb]. rewrite C3, ecs_mask_idem. reflexivity. }
  destruct (code =? 18); [discriminate|].
  intros H; injection H as <-. reflexivity.
Qed.

Lemma In_firstn_in {A} (x : A) : forall n l, In x (firstn n l) -> In x l.
Proof. induction n as [|n IH]; intros [|y l] H; cbn in H; try contradiction. destruct H as [->|H]; [left; reflexivity|right; exact (IH l H)]. Qed.
Lemma In_skipn_in {A} (x : A) : forall n l, In x (skipn n l) -> In x l.
Proof. induction n as [|n IH]; intros [|y l] H; cbn in H; try contradiction; try exact H. right. exact (IH l H). Qed.

Lemma octets_rd_bytes wire endp cur n b : octets wire -> rd_bytes wire endp cur n = Ok b -> octets b.
Proof.
  intros OW. unfold rd_bytes. destruct (Nat.ltb (endp - cur) n); [discriminate|]. intros H; injection H as <-.
  unfold octets in *. rewrite Forall_forall in *. intros x Hx. apply OW.
  apply (In_skipn_in x cur). apply (In_firstn_in x n). exact Hx.
Qed.

(* a name the reader returns is absolute (it ends where the root label was read) and valid *)
Lemma nm_lab_abs wire endp jump biggest :
  (forall c f a r, jump c f a = Ok r -> is_absolute (fst r) = true) ->
  forall fl cur fur acc r, nm_lab wire endp jump biggest fl cur fur acc = Ok r -> is_absolute (fst r) = true.
Proof.
  intros HJ. induction fl as [|fl IH]; intros cur fur acc r H; [discriminate|].
  cbn [nm_lab] in H. destruct (rd_u8 wire endp cur) as [count| |]; try discriminate.
  destruct (count =? 0).
  { injection H as <-. cbn [fst rev]. apply is_absolute_app_last. }
  destruct (count <? 64).
  { destruct (rd_bytes wire endp (cur + 1) (Z.to_nat count)) as [l| |]; try discriminate. exact (IH _ _ _ _ H). }
  destruct (192 <=? count); [|discriminate].
  destruct (rd_u8 wire endp (cur + 1)) as [lo| |]; try discriminate.
  destruct (Nat.leb _ _); [discriminate|]. destruct (Nat.ltb _ _); [discriminate|]. exact (HJ _ _ _ _ H).
Qed.

Lemma nm_ptr_abs wire endp : forall fp cur fur biggest acc r,
  nm_ptr wire endp fp cur fur biggest acc = Ok r -> is_absolute (fst r) = true.
Proof.
  induction fp as [|fp IH]; intros cur fur biggest acc r H; [discriminate|].
  cbn [nm_ptr] in H. refine (nm_lab_abs wire endp _ biggest _ _ _ _ _ _ H).
  intros c f a r' HJ. exact (IH _ _ _ _ _ HJ).
Qed.

Lemma nm_from_wire_ok wire endp start nc : nm_from_wire wire endp start = Ok nc -> name_ok (fst nc).
Proof.
  unfold nm_from_wire. destruct (Nat.ltb endp start); [discriminate|].
  destruct (nm_ptr wire endp (S start) start start start []) as [[labels fur]| |] eqn:E; try discriminate.
  intros H. apply bind_ok in H. destruct H as (n & M & H). injection H as <-. cbn [fst].
  apply mk_name_ok in M. destruct M as (-> & V). split; [exact V|].
  exact (nm_ptr_abs _ _ _ _ _ _ _ _ E).
Qed.

Lemma opts_loop_fixed wire : octets wire -> forall fuel endp cur acc os,
  opts_ok acc -> opts_loop wire fuel endp cur acc = Ok os -> opts_ok os.
Proof.
  intros OW. induction fuel as [|f IH]; intros endp cur acc os OA H; [discriminate|].
  cbn [opts_loop] in H. destruct (Nat.leb endp cur).
  { injection H as <-. unfold opts_ok in *. apply Forall_rev. exact OA. }
  apply bind_ok in H. destruct H as (otype & _ & H). apply bind_ok in H. destruct H as (olen & _ & H).
  apply bind_ok in H. destruct H as (data & ED & H). apply bind_ok in H. destruct H as (d & EO & H).
  refine (IH _ _ _ _ (Forall_cons (otype, d) _ OA) H).
  unfold opt_wf. cbn [fst snd]. destruct (otype =? 18).
  - apply bind_ok in EO. destruct EO as (nc & EN & EO). destruct (Nat.eqb _ _); [|discriminate].
    injection EO as <-. exists (fst nc). split; [exact (nm_from_wire_ok _ _ _ _ EN)|reflexivity].
  - exact (opt_dec_idem otype data d (octets_rd_bytes _ _ _ _ _ OW ED) EO).
Qed.

Definition OptInv (m : msg) : Prop :=
  match mopt m with Some oo => opts_ok (oopts oo) | None => True end.

Lemma get_question_optinv wire origin iu : forall k cur m r,
  OptInv m -> get_question wire origin iu k cur m = Ok r -> OptInv (snd r).
Proof.
  induction k as [|k IH]; intros cur m r OI H.
  - injection H as <-. exact OI.
  - cbn [get_question] in H. apply bind_ok in H. destruct H as (nc & _ & H).
    apply bind_ok in H. destruct H as (ty & _ & H). apply bind_ok in H. destruct H as (cl & _ & H).
    apply bind_ok in H. destruct H as ([[[c' t'] dl] em] & _ & H).
    refine (IH _ _ _ _ H). exact OI.
Qed.

Lemma get_rr_optinv wire origin po iu section count i cur fu m r :
  octets wire -> OptInv m -> get_rr wire origin po iu section count i cur fu m = Ok r -> OptInv (snd r).
Proof.
  intros OW OI H. unfold get_rr in H.
  apply bind_ok in H. destruct H as ([[[[[[an n] c1] ty] cl] ttl] rdlen] & _ & H).
  apply bind_ok in H. destruct H as ([[[c' t'] dl] em] & _ & H).
  destruct em.
  { destruct (rdlen >? 0); [discriminate|]. injection H as <-. exact OI. }
  destruct (Nat.ltb _ _); [discriminate|].
  destruct (t' =? tOPT).
  { apply bind_ok in H. destruct H as (os & EO & H). injection H as <-.
    unfold OptInv. cbn [snd set_opt mopt oopts]. apply (opts_loop_fixed wire OW _ _ _ _ _ (Forall_nil _) EO). }
  apply bind_ok in H. destruct H as (rd & _ & H).
  destruct (t' =? tTSIG).
  { destruct (negb (ttl =? 0)); [discriminate|]. destruct (negb (p_keyring_false po)); [discriminate|].
    injection H as <-. exact OI. }
  injection H as <-. exact OI.
Qed.

Lemma get_section_optinv wire origin po iu section count : octets wire -> forall k i cur fu m r,
  OptInv m -> get_section wire origin po iu section count i k cur fu m = Ok r -> OptInv (snd r).
Proof.
  intros OW. induction k as [|k IH]; intros i cur fu m r OI H.
  - injection H as <-. exact OI.
  - cbn [get_section] in H. apply bind_ok in H. destruct H as ([[c2 f2] m2] & E & H).
    apply (IH _ _ _ _ _ (get_rr_optinv _ _ _ _ _ _ _ _ _ _ _ OW OI E) H).
Qed.

(* every message the reader returns carries its EDNS options in the octets their classes render: the options
   hypothesis of render_parse (opts_ok) holds for parsed messages, for every wire and every reader option *)
Lemma parsed_options_wf_lemma wire origin po m :
  octets wire -> from_wire wire origin po = Ok m -> OptInv m.
Proof.
  intros OW H. unfold from_wire in H. destruct (Nat.ltb (length wire) 12); [discriminate|].
  apply bind_ok in H. destruct H as (id & _ & H). apply bind_ok in H. destruct H as (flags & _ & H).
  apply bind_ok in H. destruct H as (qc & _ & H). apply bind_ok in H. destruct H as (anc & _ & H).
  apply bind_ok in H. destruct H as (auc & _ & H). apply bind_ok in H. destruct H as (adc & _ & H).
  cbv zeta in H.
  match type of H with (match ?b with _ => _ end) = _ => destruct b as [mb|e|e] eqn:EB end.
  2: { destruct (_ && _ && _); discriminate. }
  2: discriminate.
  destruct (_ && _); [discriminate|]. injection H as <-.
  apply bind_ok in EB. destruct EB as (q & EQ & EB).
  assert (OQ : OptInv (snd q)) by (refine (get_question_optinv _ _ _ _ _ _ _ _ EQ); exact Logic.I).
  destruct (p_question_only po); [injection EB as <-; exact OQ|].
  apply bind_ok in EB. destruct EB as (a & EA & EB). apply bind_ok in EB. destruct EB as (b & EBB & EB).
  apply bind_ok in EB. destruct EB as (c & EC & EB).
  destruct (_ && _); [discriminate|]. injection EB as <-.
  pose proof (get_section_optinv _ _ _ _ _ _ OW _ _ _ _ _ _ OQ EA) as OA.
  pose proof (get_section_optinv _ _ _ _ _ _ OW _ _ _ _ _ _ OA EBB) as OB.
  exact (get_section_optinv _ _ _ _ _ _ OW _ _ _ _ _ _ OB EC).
Qed.
