(* C04, wire side: ExceptionWrapper closes every per-type parser; dns.rdata.from_wire and the
   message reader raise only the documented library errors; continue_on_error records. *)
From DV Require Import Base.Prelude Model.NameM Model.ParserM Model.UntrustedM
                       Proofs.NameValid Proofs.ParserSafe.
Open Scope Z_scope.

(* ---------- ExceptionWrapper ---------- *)
(* for ANY inner computation: only a value, or an instance of the wrapper's class, comes out;
   the parser state is whatever the inner computation left *)
Theorem wrap_closes {A} (cls : Z) (fam : Z -> bool) (m : M A) (s : pstate) :
  fam cls = true ->
  match wrap cls fam m s with
  | (Val a, s') => m s = (Val a, s')
  | (Exn (XLib e), s') => fam e = true /\ snd (m s) = s'
  | (Exn (XInt _), _) => False
  end.
Proof.
  intros Hc. unfold wrap. destruct (m s) as [[a|[e|e]] s1]; cbn; auto.
  destruct (fam e) eqn:E; cbn; auto.
Qed.

Theorem wrap_res_closes {A} (cls : Z) (fam : Z -> bool) (r : res A) :
  fam cls = true ->
  match wrap_res cls fam r with
  | Ok a => r = Ok a
  | Lib e => fam e = true
  | Internal _ => False
  end.
Proof.
  intros Hc. unfold wrap_res. destruct r as [a|e|e]; auto. destruct (fam e) eqn:E; auto.
Qed.

(* which classes the wrapper converts: everything that is not an instance *)
Lemma wrap_converts {A} cls fam (m : M A) s e s' :
  m s = (Exn (XLib e), s') -> fam e = false -> wrap cls fam m s = (Exn (XLib cls), s').
Proof. intros H F. unfold wrap. rewrite H, F. reflexivity. Qed.

Lemma wrap_converts_internal {A} cls fam (m : M A) s e s' :
  m s = (Exn (XInt e), s') -> wrap cls fam m s = (Exn (XLib cls), s').
Proof. intros H. unfold wrap. rewrite H. reflexivity. Qed.

Lemma is_form_FormError : is_form eFormError = true.
Proof. reflexivity. Qed.
Lemma is_syntax_Syntax : is_syntax eSyntax = true.
Proof. reflexivity. Qed.

Section Wire.
  Variable wire : list Z.
  Hypothesis Hwire : bytes_ok wire.

  (* API discipline of a per-type parser: whatever it returns or raises (Python-level exceptions
     included) it leaves the parser inside the message, with its end restored and furthest not
     decreased.  Every function built from the Parser methods has this property; it says nothing
     about WHICH exception is raised. *)
  Definition tame {A} (lo : Z) (m : M A) : Prop :=
    forall s, wfl wire lo s ->
      wfl wire lo (snd (m s)) /\ pend (snd (m s)) = pend s /\ pfur s <= pfur (snd (m s)).
  Definition api_disciplined {A} (m : M A) : Prop := forall lo, 0 <= lo -> tame lo m.

  Definition isFormFam (e : Z) : Prop := is_form e = true.

  Lemma nameerr_form e : isNameErr e -> isFormFam e.
  Proof.
    unfold isNameErr, isNameWireErr, isFormFam.
    intros [[H|[H|H]]|H]; subst; reflexivity.
  Qed.
  Lemma form_formfam e : isForm e -> isFormFam e.
  Proof. intros ->. reflexivity. Qed.

  (* dns.rdata.from_wire_parser around an arbitrary disciplined per-type parser *)
  Lemma good_wrapped lo (m : M unit) s :
    tame lo m -> wfl wire lo s ->
    good wire lo isFormFam s (wrap eFormError is_form m s) (fun _ _ => True).
  Proof.
    intros T W. specialize (T s W). unfold wrap, good.
    destruct (m s) as [[a|[e|e]] s1]; cbn in T |- *.
    - destruct T as (? & ? & ?). auto.
    - destruct T as (? & ? & ?). destruct (is_form e) eqn:E; cbn; unfold isFormFam; auto.
    - destruct T as (? & ? & ?). unfold isFormFam. auto.
  Qed.

  (* ---------- the reader monad ---------- *)
  Definition okcode (e : Z) : Prop := is_form e = true \/ e = eUnknownTSIGKey.
  (* invariant of the reader's bookkeeping: every recorded error is a library error with an
     offset between the end of the header and the end of the message *)
  Definition MI (m : mstate) : Prop :=
    Forall (fun eo => okcode (fst eo) /\ 12 <= snd eo <= zlen wire) (ms_errors m).

  Definition mgood {A} (lo : Z) (s : pstate) (r : out A * mstate * pstate)
             (Q : A -> mstate -> pstate -> Prop) : Prop :=
    match r with
    | (Val a, m', s') => wfl wire lo s' /\ pend s' = pend s /\ pfur s <= pfur s' /\ MI m' /\ Q a m' s'
    | (Exn (XLib e), m', s') => okcode e /\ wfl wire lo s' /\ pend s' = pend s /\ pfur s <= pfur s' /\ MI m'
    | (Exn (XInt _), _, _) => False
    end.

  Lemma mgood_weaken {A} lo s (r : out A * mstate * pstate) (Q Q' : A -> mstate -> pstate -> Prop) :
    mgood lo s r Q ->
    (forall a m' s', wfl wire lo s' -> pend s' = pend s -> MI m' -> Q a m' s' -> Q' a m' s') ->
    mgood lo s r Q'.
  Proof.
    unfold mgood. destruct r as [[[a|[e|e]] m'] s']; intros H HQ; auto.
    destruct H as (? & ? & ? & ? & ?). auto 10.
  Qed.

  Lemma mgood_bind {A B} lo s m0 (c : MM A) (k : A -> MM B) Q1 (Q2 : B -> mstate -> pstate -> Prop) :
    mgood lo s (c m0 s) Q1 ->
    (forall a m1 s1, wfl wire lo s1 -> pend s1 = pend s -> pfur s <= pfur s1 -> MI m1 -> Q1 a m1 s1 ->
                     mgood lo s1 (k a m1 s1) Q2) ->
    mgood lo s (mmbind c k m0 s) Q2.
  Proof.
    unfold mmbind, mgood. destruct (c m0 s) as [[[a|[e|e]] m1] s1]; intros H K; auto.
    destruct H as (W & E & F & I & Q). specialize (K a m1 s1 W E F I Q).
    destruct (k a m1 s1) as [[[b|[e|e]] m2] s2]; auto.
    - destruct K as (? & ? & ? & ? & ?). repeat split; auto; try congruence; try lia; apply H.
    - destruct K as (? & ? & ? & ? & ?). repeat split; auto; try congruence; try lia; apply H0.
  Qed.

  Lemma mgood_ret {A} lo s m0 (a : A) (Q : A -> mstate -> pstate -> Prop) :
    wfl wire lo s -> MI m0 -> Q a m0 s -> mgood lo s (mret a m0 s) Q.
  Proof. unfold mgood, mret. intros. repeat split; auto; try lia; apply H. Qed.

  Lemma mgood_raise {A} lo s m0 e (Q : A -> mstate -> pstate -> Prop) :
    wfl wire lo s -> MI m0 -> okcode e -> mgood lo s (mraise (XLib e) m0 s) Q.
  Proof. unfold mgood, mraise. intros. repeat split; auto; try lia; apply H. Qed.

  Lemma mgood_liftP {A} lo s m0 (c : M A) (P : Z -> Prop) (Q : A -> pstate -> Prop) :
    good wire lo P s (c s) Q -> (forall e, P e -> okcode e) -> MI m0 ->
    mgood lo s (liftP c m0 s) (fun a m' s' => m' = m0 /\ Q a s').
  Proof.
    unfold good, mgood, liftP. destruct (c s) as [[a|[e|e]] s1]; intros H HP I; auto.
    - destruct H as (? & ? & ? & ?). auto 10.
    - destruct H as (? & ? & ? & ?). auto 10.
  Qed.

  Lemma mgood_upd lo s m0 (f : mstate -> mstate) :
    wfl wire lo s -> MI (f m0) -> mgood lo s (upd f m0 s) (fun _ m' s' => m' = f m0 /\ s' = s).
  Proof. unfold mgood, upd. intros. repeat split; auto; try lia; apply H. Qed.

  Lemma mgood_getm lo s m0 : wfl wire lo s -> MI m0 -> mgood lo s (getm m0 s) (fun a m' s' => a = m0 /\ m' = m0 /\ s' = s).
  Proof. unfold mgood, getm. intros. repeat split; auto; try lia; apply H. Qed.

  Lemma mgood_getp lo s m0 : wfl wire lo s -> MI m0 -> mgood lo s (getp m0 s) (fun a m' s' => a = s /\ m' = m0 /\ s' = s).
  Proof. unfold mgood, getp. intros. repeat split; auto; try lia; apply H. Qed.

  (* try / except Exception: the handler sees a library error and the state at the raise *)
  Lemma mgood_catch {A} lo s m0 (c : MM A) (h : exn -> MM A) (Q : A -> mstate -> pstate -> Prop) :
    mgood lo s (c m0 s) Q ->
    (forall e m1 s1, okcode e -> wfl wire lo s1 -> pend s1 = pend s -> pfur s <= pfur s1 -> MI m1 ->
                     mgood lo s1 (h (XLib e) m1 s1) Q) ->
    mgood lo s (catch c h m0 s) Q.
  Proof.
    unfold catch, mgood. destruct (c m0 s) as [[[a|[e|e]] m1] s1]; intros H K; auto; try contradiction.
    destruct H as (Pe & W & E & F & I). specialize (K e m1 s1 Pe W E F I).
    destruct (h (XLib e) m1 s1) as [[[b|[e'|e']] m2] s2]; auto.
    - destruct K as (? & ? & ? & ? & ?). repeat split; auto; try congruence; try lia; apply H.
    - destruct K as (? & ? & ? & ? & ?). repeat split; auto; try congruence; try lia; apply H0.
  Qed.

  (* MI is about ms_errors only *)
  Lemma MI_add_q q m : MI m -> MI (add_q q m). Proof. auto. Qed.
  Lemma MI_add_rr r m : MI m -> MI (add_rr r m). Proof. auto. Qed.
  Lemma MI_set_opt m : MI m -> MI (set_opt m). Proof. auto. Qed.
  Lemma MI_set_tsig m : MI m -> MI (set_tsig m). Proof. auto. Qed.
  Lemma MI_add_trace t m : MI m -> MI (add_trace t m). Proof. auto. Qed.
  Lemma MI_start u f m : MI m -> MI (start_msg u f m). Proof. auto. Qed.
  Lemma MI_add_err e off m : MI m -> okcode e -> 12 <= off <= zlen wire -> MI (add_err (e, off) m).
  Proof. intros I Pe Ho. unfold MI, add_err. cbn. constructor; auto. Qed.

  Section Reader.
    Variable rdparse : Z -> Z -> M unit.
    Hypothesis rd_api : forall c t, api_disciplined (rdparse c t).

    Lemma okcode_form e : isFormFam e -> okcode e.
    Proof. left. assumption. Qed.
    Lemma okcode_name e : isNameErr e -> okcode e.
    Proof. intros H. left. apply nameerr_form, H. Qed.
    Lemma okcode_isForm e : isForm e -> okcode e.
    Proof. intros ->. left. reflexivity. Qed.

    Lemma mgood_traced lo c t s m0 :
      0 <= lo -> wfl wire lo s -> MI m0 ->
      mgood lo s (traced_rdata rdparse c t m0 s) (fun _ _ _ => True).
    Proof.
      intros Hlo W I. unfold traced_rdata, rdata_from_wire_parser.
      pose proof (good_wrapped lo (rdparse c t) s (rd_api c t lo Hlo) W) as G.
      unfold good in G. unfold mgood.
      destruct (wrap eFormError is_form (rdparse c t) s) as [[a|[e|e]] s1]; auto.
      - destruct G as (? & ? & ? & ?). repeat split; auto; try lia; try apply H.
      - destruct G as (? & ? & ? & ?). repeat split; auto; try lia; try apply H0; try (apply okcode_form; auto).
    Qed.

    Lemma mgood_mrestrict {A} lo size (body : MM A) s m0 (Q : A -> mstate -> pstate -> Prop) :
      0 <= lo -> wfl wire lo s -> MI m0 -> 0 <= size ->
      (forall s0, wfl wire lo s0 -> pend s0 = pcur s + size -> pcur s0 = pcur s -> pfur s0 = pfur s ->
                  mgood lo s0 (body m0 s0) Q) ->
      mgood lo s (mrestrict_to size body m0 s)
            (fun a m' s' => pcur s' = pcur s + size /\ pcur s' <= pend s').
    Proof.
      intros Hlo W I Hs Hb. pose proof W as (Hc & He & Hf). unfold mrestrict_to, remaining.
      destruct (size <? 0) eqn:E1; [lia|].
      destruct (size >? pend s - pcur s) eqn:E2.
      - cbn. repeat split; auto; try lia. left; reflexivity.
      - assert (W0 : wfl wire lo (set_end s (pcur s + size))) by (unfold wfl, set_end; cbn; repeat split; lia).
        specialize (Hb _ W0 eq_refl eq_refl eq_refl).
        destruct (body m0 (set_end s (pcur s + size))) as [[[a|[e|e]] m1] s1]; cbn in Hb |- *.
        + destruct Hb as ((Hc1 & He1 & Hf1) & E & F & I1 & Qa). cbn in E, F.
          destruct (pcur s1 =? pend s1) eqn:E3; cbn.
          * unfold wfl; cbn. repeat split; auto; lia.
          * unfold wfl; cbn. repeat split; auto; try lia. left; reflexivity.
        + destruct Hb as (Pe & (Hc1 & He1 & Hf1) & E & F & I1). cbn in E, F. unfold wfl; cbn. repeat split; auto; lia.
        + contradiction.
    Qed.

    Lemma mgood_parse_rr_header lo section rdclass rdtype s m0 :
      wfl wire lo s -> MI m0 ->
      mgood lo s (parse_rr_header section rdclass rdtype m0 s) (fun _ m' s' => m' = m0 /\ s' = s).
    Proof.
      intros W I. unfold parse_rr_header.
      eapply mgood_bind; [apply mgood_getm; auto|].
      intros m m1 s1 W1 E1 F1 I1 (-> & -> & ->).
      destruct (ms_update m0); cbn [negb].
      2:{ apply mgood_ret; auto. }
      destruct (section =? 0).
      - match goal with |- context [if ?c then _ else _] => destruct c end.
        + apply mgood_raise; auto. left; reflexivity.
        + apply mgood_ret; auto.
      - destruct (zone_classes m0).
        + apply mgood_raise; auto. left; reflexivity.
        + destruct ((rdclass =? cANY) || (rdclass =? cNONE)); apply mgood_ret; auto.
    Qed.

    Lemma mgood_parse_special lo section count position nm rdclass rdtype s m0 :
      wfl wire lo s -> MI m0 ->
      mgood lo s (parse_special_rr_header section count position nm rdclass rdtype m0 s)
            (fun _ m' s' => m' = m0 /\ s' = s).
    Proof.
      intros W I. unfold parse_special_rr_header.
      eapply mgood_bind; [apply mgood_getm; auto|].
      intros m m1 s1 W1 E1 F1 I1 (-> & -> & ->).
      destruct (rdtype =? tOPT).
      - match goal with |- context [if ?c then _ else _] => destruct c end.
        + apply mgood_raise; auto. left; reflexivity.
        + apply mgood_ret; auto.
      - match goal with |- context [if ?c then _ else _] => destruct c end.
        + apply mgood_raise; auto. left; reflexivity.
        + apply mgood_ret; auto.
    Qed.

    (* _get_question *)
    Lemma mgood_get_question lo : forall n s m0,
      0 <= lo -> wfl wire lo s -> MI m0 ->
      mgood lo s (get_question wire n m0 s) (fun _ _ _ => True).
    Proof.
      induction n as [|n IH]; intros s m0 Hlo W I; cbn [get_question].
      - apply mgood_ret; auto.
      - eapply mgood_bind; [eapply mgood_liftP; [apply good_get_name; auto| apply okcode_name | auto]|].
        intros qn m1 s1 W1 E1 F1 I1 (-> & _).
        eapply mgood_bind; [eapply mgood_liftP; [apply (good_get_struct wire Hwire lo [2; 2]); auto| apply okcode_isForm | auto]|].
        { repeat constructor; lia. }
        intros h m2 s2 W2 E2 F2 I2 (-> & Hl & _).
        destruct h as [|rdtype [|rdclass [|? ?]]]; cbn in Hl; try discriminate.
        eapply mgood_bind; [apply mgood_parse_rr_header; auto|].
        intros hd m3 s3 W3 E3 F3 I3 (-> & ->).
        eapply mgood_bind; [apply mgood_upd; auto|].
        intros [] m4 s4 W4 E4 F4 I4 (-> & ->).
        apply IH; auto.
    Qed.

    (* one record of a section, under any options *)
    Lemma mgood_get_rr lo o section count i fu s m0 :
      12 <= lo -> wfl wire lo s -> MI m0 ->
      mgood lo s (get_rr wire rdparse o section count i fu m0 s) (fun _ _ _ => True).
    Proof.
      intros Hlo W I. unfold get_rr.
      eapply mgood_bind; [eapply mgood_liftP; [apply good_get_name; auto; lia| apply okcode_name | auto]|].
      intros nm m1 s1 W1 E1 F1 I1 (-> & _).
      eapply mgood_bind; [eapply mgood_liftP; [apply (good_get_struct wire Hwire lo [2; 2; 4; 2]); auto; try lia| apply okcode_isForm | auto]|].
      { repeat constructor; lia. }
      intros h m2 s2 W2 E2 F2 I2 (-> & Hl & Hnn & _).
      destruct h as [|rdtype [|rdclass [|ttl [|rdlen [|? ?]]]]]; cbn in Hl; try discriminate.
      assert (Hrdlen : 0 <= rdlen).
      { inversion Hnn as [|? ? _ K1]; inversion K1 as [|? ? _ K2]; inversion K2 as [|? ? _ K3]; inversion K3; auto. }
      eapply mgood_bind.
      { instantiate (1 := fun _ m' s' => m' = m0 /\ s' = s2).
        destruct ((rdtype =? tOPT) || (rdtype =? tTSIG));
          [apply mgood_parse_special; auto|apply mgood_parse_rr_header; auto]. }
      intros [[rdclass' deleting] empty] m3 s3 W3 E3 F3 I3 (-> & ->).
      eapply mgood_bind; [apply mgood_getp; auto|].
      intros s0 m4 s4 W4 E4 F4 I4 (-> & -> & ->).
      apply mgood_catch.
      - eapply mgood_bind.
        { instantiate (1 := fun _ _ _ => True).
          destruct empty.
          - destruct (rdlen >? 0); [apply mgood_raise; auto; left; reflexivity|apply mgood_ret; auto].
          - eapply mgood_bind.
            + eapply mgood_mrestrict; auto; try lia.
              intros s0 W0 _ _ _. apply mgood_traced; auto; lia.
            + intros [] m5 s5 W5 E5 F5 I5 _. apply mgood_ret; auto. }
        intros have_rd m5 s5 W5 E5 F5 I5 _.
        destruct (rdtype =? tOPT).
        { eapply mgood_bind; [apply mgood_upd; auto; apply MI_set_opt; auto|].
          intros [] m6 s6 W6 E6 F6 I6 (-> & ->). apply mgood_ret; auto. }
        destruct (rdtype =? tTSIG).
        { destruct (negb (ttl =? 0)); [apply mgood_raise; auto; left; reflexivity|].
          destruct (negb (o_keyring_false o)); [apply mgood_raise; auto; right; reflexivity|].
          eapply mgood_bind; [apply mgood_upd; auto; apply MI_set_tsig; auto|].
          intros [] m6 s6 W6 E6 F6 I6 (-> & ->). apply mgood_ret; auto. }
        eapply mgood_bind; [apply mgood_upd; auto; apply MI_add_rr; auto|].
        intros [] m6 s6 W6 E6 F6 I6 (-> & ->). apply mgood_ret; auto.
      - intros e m5 s5 Pe W5 E5 F5 I5. cbn [code_of].
        destruct (o_coe o); [|apply mgood_raise; auto].
        eapply mgood_bind; [apply mgood_getp; auto|].
        intros s6 m6 s6' W6 E6 F6 I6 (-> & -> & ->).
        eapply mgood_bind.
        { apply mgood_upd; auto. apply MI_add_err; auto. destruct W6 as (? & ? & ?). lia. }
        intros [] m7 s7 W7 E7 F7 I7 (-> & ->).
        eapply mgood_bind.
        { eapply mgood_liftP; [apply good_seek; auto| apply okcode_isForm | auto].
          destruct W2 as (? & ? & ?). lia. }
        intros [] m8 s8 W8 E8 F8 I8 (-> & _). apply mgood_ret; auto.
    Qed.

    Lemma mgood_get_section_loop lo o section count : forall n i fu s m0,
      12 <= lo -> wfl wire lo s -> MI m0 ->
      mgood lo s (get_section_loop wire rdparse o section count n i fu m0 s) (fun _ _ _ => True).
    Proof.
      induction n as [|n IH]; intros i fu s m0 Hlo W I; cbn [get_section_loop].
      - apply mgood_ret; auto.
      - eapply mgood_bind; [apply mgood_get_rr; auto|].
        intros fu' m1 s1 W1 E1 F1 I1 _. apply IH; auto.
    Qed.

    Lemma mgood_get_section lo o orps section count s m0 :
      12 <= lo -> wfl wire lo s -> MI m0 ->
      mgood lo s (get_section wire rdparse o orps section count m0 s) (fun _ _ _ => True).
    Proof. intros. unfold get_section. apply mgood_get_section_loop; auto. Qed.

    (* the try block of _WireReader.read *)
    Lemma mgood_read_sections o orps qc an au ad s m0 :
      wfl wire 12 s -> MI m0 ->
      mgood 12 s (read_sections wire rdparse o orps qc an au ad m0 s) (fun _ _ _ => True).
    Proof.
      intros W I. unfold read_sections.
      eapply mgood_bind; [apply mgood_get_question; auto; lia|].
      intros [] m2 s2 W2 E2 F2 I2 _.
      destruct (o_qonly o); [apply mgood_ret; auto|].
      eapply mgood_bind; [apply mgood_get_section; auto; lia|].
      intros [] m3 s3 W3 E3 F3 I3 _.
      eapply mgood_bind; [apply mgood_get_section; auto; lia|].
      intros [] m4 s4 W4 E4 F4 I4 _.
      eapply mgood_bind; [apply mgood_get_section; auto; lia|].
      intros [] m5 s5 W5 E5 F5 I5 _.
      eapply mgood_bind; [apply mgood_getp; auto|].
      intros s6 m6 s6' W6 E6 F6 I6 (-> & -> & ->).
      match goal with |- context [if ?c then _ else _] => destruct c end.
      - apply mgood_raise; auto. left; reflexivity.
      - apply mgood_ret; auto.
    Qed.

    (* its except clause: with continue_on_error nothing is raised, the failure is appended to
       errors with the parser offset *)
    Lemma catch_read_handler coe s m0 (c : MM unit) :
      mgood 12 s (c m0 s) (fun _ _ _ => True) ->
      match catch c (read_handler coe) m0 s with
      | (Val _, m', _) => MI m'
      | (Exn (XLib e), m', _) => okcode e /\ MI m' /\ coe = false
      | (Exn (XInt _), _, _) => False
      end.
    Proof.
      intros H. unfold catch, mgood, read_handler in *.
      destruct (c m0 s) as [[[a|[e|e]] m1] s1]; try contradiction.
      - destruct H as (_ & _ & _ & I & _). exact I.
      - destruct H as (Pe & W & _ & _ & I). destruct coe; cbn.
        + apply MI_add_err; auto. destruct W as (? & ? & ?). lia.
        + auto.
    Qed.

    Definition s_init : pstate := mkP 0 (zlen wire) 0.

    Lemma MI_ms0 : MI ms0.
    Proof. constructor. Qed.

    (* _WireReader.read *)
    Lemma read_spec o :
      match read wire rdparse o ms0 s_init with
      | (Val _, m, _) => MI m
      | (Exn (XLib e), m, _) => MI m /\ okcode e /\ (o_coe o = true -> e = eShortHeader)
      | (Exn (XInt _), _, _) => False
      end.
    Proof.
      pose proof (zlen_nonneg wire) as Hz.
      assert (W0 : wfl wire 0 s_init) by (unfold wfl, s_init; cbn; lia).
      unfold read. unfold mmbind at 1. unfold getp at 1.
      destruct (remaining s_init <? 12) eqn:E12.
      { cbn. split; [apply MI_ms0|]. split; [left; reflexivity|auto]. }
      unfold mmbind at 1. unfold liftP at 1.
      assert (Hws : Forall (fun w => 0 <= w) [2; 2; 2; 2; 2; 2]) by (repeat constructor; lia).
      pose proof (good_get_struct wire Hwire 0 [2; 2; 2; 2; 2; 2] s_init ltac:(lia) W0 Hws) as G.
      unfold good in G.
      destruct (get_struct wire [2; 2; 2; 2; 2; 2] s_init) as [[h|[e|e]] s1] eqn:EG; try contradiction.
      2:{ (* remaining >= 12: the header read cannot fail *)
          exfalso. unfold get_struct, mbind, get_bytes in EG.
          change (calcsize [2; 2; 2; 2; 2; 2]) with 12 in EG.
          destruct (12 <? 0) eqn:X; [lia|].
          destruct (12 >? remaining s_init) eqn:Y; [lia|].
          destruct (unpack [2; 2; 2; 2; 2; 2] (slice wire (pcur s_init) 12)); discriminate. }
      destruct G as (W1 & E1 & F1 & Hl & Hnn & Hc & Hle & Hfu).
      destruct h as [|id [|flags [|qc [|an [|au [|ad [|? ?]]]]]]]; cbn in Hl; try discriminate.
      change (calcsize [2; 2; 2; 2; 2; 2]) with 12 in Hc.
      assert (W12 : wfl wire 12 s1).
      { destruct W1 as (? & ? & ?). unfold wfl, s_init in *. cbn in *. lia. }
      unfold mmbind at 1. unfold upd at 1.
      set (m1 := start_msg _ flags ms0).
      assert (I1 : MI m1) by (apply MI_start, MI_ms0).
      match goal with |- context [catch ?c ?h m1 s1] =>
        pose proof (catch_read_handler (o_coe o) s1 m1 c (mgood_read_sections _ _ _ _ _ _ s1 m1 W12 I1)) as K;
        destruct (catch c h m1 s1) as [[[a|[e|e]] m2] s2]
      end; auto.
      destruct K as (Pe & I2 & Hcoe). split; auto. split; auto. intros Hc'. congruence.
    Qed.

    (* dns.message.from_wire: a message, or ShortHeader / a FormError-family error / the documented
       UnknownTSIGKey / Truncated (only when requested) - never a Python-level exception, for an
       arbitrary (disciplined) per-type parser and every option combination *)
    Theorem message_from_wire_family o :
      match message_from_wire wire rdparse o with
      | (Val _, m) => MI m
      | (Exn (XLib e), m) => MI m /\ (okcode e \/ (e = eTruncated /\ o_raise_trunc o = true))
      | (Exn (XInt _), _) => False
      end.
    Proof.
      unfold message_from_wire. pose proof (read_spec o) as R. fold s_init.
      destruct (read wire rdparse o ms0 s_init) as [[[a|[e|e]] m] s]; try contradiction.
      - destruct (tc_set m && o_raise_trunc o) eqn:E; auto.
        split; auto. right. apply andb_true_iff in E as [_ E]. auto.
      - destruct R as (I & Pe & _).
        destruct (is_form e && ms_have m && tc_set m && o_raise_trunc o) eqn:E.
        + split; auto. right. apply andb_true_iff in E as [_ E]. auto.
        + auto.
    Qed.

    (* continue_on_error: once the header has been read nothing is raised (the requested
       truncation signal excepted); every failure is in `errors` with an offset inside the
       message and after the header *)
    Theorem continue_on_error_records o :
      o_coe o = true ->
      match message_from_wire wire rdparse o with
      | (Val _, m) => MI m
      | (Exn (XLib e), _) => e = eShortHeader \/ (e = eTruncated /\ o_raise_trunc o = true)
      | (Exn (XInt _), _) => False
      end.
    Proof.
      intros Hcoe. unfold message_from_wire. pose proof (read_spec o) as R. fold s_init.
      destruct (read wire rdparse o ms0 s_init) as [[[a|[e|e]] m] s]; try contradiction.
      - destruct (tc_set m && o_raise_trunc o) eqn:E; auto.
        right. apply andb_true_iff in E as [_ E]. auto.
      - destruct R as (I & Pe & Hs). specialize (Hs Hcoe). subst e.
        destruct (is_form eShortHeader && ms_have m && tc_set m && o_raise_trunc o) eqn:E.
        + right. apply andb_true_iff in E as [_ E]. auto.
        + left. reflexivity.
    Qed.
  End Reader.
End Wire.
