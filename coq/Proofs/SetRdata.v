(* Value semantics of records: Rdata.__eq__ / __ne__ / __hash__ / _cmp of Model/SetM.v. *)
From DV Require Import Base.Prelude Model.SetM.
Open Scope Z_scope.

Lemma zlist_eqb_eq a b : zlist_eqb a b = true <-> a = b.
Proof.
  revert b. induction a as [|x a IH]; destruct b as [|y b]; cbn; try (split; congruence).
  rewrite andb_true_iff, Z.eqb_eq, IH. split; [intros [-> ->]; reflexivity|].
  intros H; inversion H; auto.
Qed.

Lemma zlist_eqb_refl a : zlist_eqb a a = true.
Proof. apply zlist_eqb_eq. reflexivity. Qed.

(* ---------- equality ---------- *)

Theorem rd_eqb_iff a b :
  rd_eqb a b = true <->
  rcls a = rcls b /\ rtyp a = rtyp b /\ rrel a = rrel b /\ rdig a = rdig b.
Proof.
  unfold rd_eqb.
  destruct (rcls a =? rcls b) eqn:E1; cbn.
  2:{ apply Z.eqb_neq in E1. split; [discriminate|tauto]. }
  destruct (rtyp a =? rtyp b) eqn:E2; cbn.
  2:{ apply Z.eqb_neq in E2. split; [discriminate|tauto]. }
  apply Z.eqb_eq in E1, E2.
  destruct (Bool.eqb (rrel a) (rrel b)) eqn:E3; cbn.
  - apply eqb_prop in E3. rewrite zlist_eqb_eq. tauto.
  - apply eqb_false_iff in E3. split; [discriminate|tauto].
Qed.

Lemma rd_eqb_refl a : rd_eqb a a = true.
Proof. apply rd_eqb_iff. auto. Qed.

Lemma rd_eqb_sym a b : rd_eqb a b = rd_eqb b a.
Proof.
  destruct (rd_eqb a b) eqn:E1, (rd_eqb b a) eqn:E2; try reflexivity.
  - apply rd_eqb_iff in E1. assert (rd_eqb b a = true) by (apply rd_eqb_iff; intuition congruence).
    congruence.
  - apply rd_eqb_iff in E2. assert (rd_eqb a b = true) by (apply rd_eqb_iff; intuition congruence).
    congruence.
Qed.

Lemma rd_eqb_trans a b c : rd_eqb a b = true -> rd_eqb b c = true -> rd_eqb a c = true.
Proof. rewrite !rd_eqb_iff. intuition congruence. Qed.

Theorem rd_neb_negb a b : rd_neb a b = negb (rd_eqb a b).
Proof.
  unfold rd_neb, rd_eqb.
  destruct (negb (rcls a =? rcls b) || negb (rtyp a =? rtyp b)); reflexivity.
Qed.

Theorem rd_hash_congr a b : rd_eqb a b = true -> rd_hashkey a = rd_hashkey b.
Proof. intros H. apply rd_eqb_iff in H. unfold rd_hashkey. tauto. Qed.

(* ---------- order ---------- *)

(* RFC 4034 6.3: RDATA as a left-justified unsigned octet sequence in which the absence of an
   octet sorts before a zero octet *)
Inductive lex_lt : list Z -> list Z -> Prop :=
| lex_nil : forall y b, lex_lt [] (y :: b)
| lex_head : forall x y a b, x < y -> lex_lt (x :: a) (y :: b)
| lex_tail : forall x a b, lex_lt a b -> lex_lt (x :: a) (x :: b).

Lemma cmp_bytes_lt a b : cmp_bytes a b = Lt <-> lex_lt a b.
Proof.
  revert b. induction a as [|x a IH]; destruct b as [|y b]; cbn.
  - split; [discriminate|inversion 1].
  - split; [constructor|reflexivity].
  - split; [discriminate|inversion 1].
  - destruct (Z.compare_spec x y) as [->|H|H].
    + rewrite IH. split; [constructor; assumption|].
      inversion 1; subst; [lia|assumption].
    + split; [constructor; assumption|reflexivity].
    + split; [discriminate|]. inversion 1; subst; lia.
Qed.

Lemma cmp_bytes_eq a b : cmp_bytes a b = Eq <-> a = b.
Proof.
  revert b. induction a as [|x a IH]; destruct b as [|y b]; cbn; try (split; congruence).
  destruct (Z.compare_spec x y) as [->|H|H].
  - rewrite IH. split; [congruence|]. intros E; inversion E; reflexivity.
  - split; [discriminate|]. intros E; inversion E; lia.
  - split; [discriminate|]. intros E; inversion E; lia.
Qed.

Lemma cmp_bytes_opp a b : cmp_bytes b a = CompOpp (cmp_bytes a b).
Proof.
  revert b. induction a as [|x a IH]; destruct b as [|y b]; cbn; try reflexivity.
  rewrite (Z.compare_antisym x y). destruct (x ?= y); cbn; auto.
Qed.

Lemma lex_lt_trans a b c : lex_lt a b -> lex_lt b c -> lex_lt a c.
Proof.
  intros H. revert c. induction H; intros c Hc; inversion Hc; subst;
    try (constructor; auto; lia).
Qed.

Lemma lex_lt_irrefl a : ~ lex_lt a a.
Proof. induction a; inversion 1; subst; [lia|auto]. Qed.

(* the key the order compares: relative records first, then the octets *)
Definition cmp_le (a b : rdata) : Prop := rd_cmp a b <= 0.

Lemma rd_cmp_range a b : rd_cmp a b = -1 \/ rd_cmp a b = 0 \/ rd_cmp a b = 1.
Proof.
  unfold rd_cmp. destruct (negb (Bool.eqb (rrel a) (rrel b))); [destruct (rrel a); auto|].
  destruct (cmp_bytes (rdig a) (rdig b)); auto.
Qed.

Theorem rd_cmp_antisym a b : rd_cmp b a = - rd_cmp a b.
Proof.
  unfold rd_cmp. destruct (rrel a), (rrel b); cbn; try reflexivity;
    rewrite (cmp_bytes_opp (rdig a) (rdig b)); destruct (cmp_bytes (rdig a) (rdig b)); reflexivity.
Qed.

Theorem rd_cmp_zero_iff a b :
  rcls a = rcls b -> rtyp a = rtyp b -> (rd_cmp a b = 0 <-> rd_eqb a b = true).
Proof.
  intros Hc Ht. rewrite rd_eqb_iff. unfold rd_cmp.
  destruct (rrel a) eqn:Ra, (rrel b) eqn:Rb; cbn;
    try (split; [discriminate|intros (_ & _ & H & _); discriminate]);
    (destruct (cmp_bytes (rdig a) (rdig b)) eqn:E;
     [apply cmp_bytes_eq in E; tauto| |];
     (split; [discriminate|]; intros (_ & _ & _ & H); apply cmp_bytes_eq in H; congruence)).
Qed.

(* canonical RDATA octet order between records of the same relativity *)
Theorem rd_cmp_canonical a b :
  rrel a = rrel b -> (rd_cmp a b = -1 <-> lex_lt (rdig a) (rdig b)).
Proof.
  intros H. unfold rd_cmp. rewrite H, eqb_reflx. cbn. rewrite <- cmp_bytes_lt.
  destruct (cmp_bytes (rdig a) (rdig b)); split; congruence.
Qed.

Theorem rd_cmp_relative_first a b : rrel a = true -> rrel b = false -> rd_cmp a b = -1.
Proof. intros Ha Hb. unfold rd_cmp. rewrite Ha, Hb. reflexivity. Qed.

Lemma rd_cmp_lt_iff a b :
  rd_cmp a b = -1 <->
  (rrel a = true /\ rrel b = false) \/ (rrel a = rrel b /\ lex_lt (rdig a) (rdig b)).
Proof.
  split.
  - intros H. destruct (rrel a) eqn:Ra, (rrel b) eqn:Rb.
    + right. split; [reflexivity|]. apply rd_cmp_canonical; congruence.
    + left. auto.
    + unfold rd_cmp in H. rewrite Ra, Rb in H. discriminate.
    + right. split; [reflexivity|]. apply rd_cmp_canonical; congruence.
  - intros [[Ha Hb]|[Hr Hl]]; [apply rd_cmp_relative_first; assumption|].
    apply rd_cmp_canonical; assumption.
Qed.

Theorem rd_cmp_lt_trans a b c : rd_cmp a b = -1 -> rd_cmp b c = -1 -> rd_cmp a c = -1.
Proof.
  rewrite !rd_cmp_lt_iff.
  intros [[A1 A2]|[A1 A2]] [[B1 B2]|[B1 B2]]; try congruence.
  - left. split; congruence.
  - left. split; congruence.
  - right. split; [congruence|]. eapply lex_lt_trans; eassumption.
Qed.

Lemma rd_cmp_zero_key a b :
  rd_cmp a b = 0 <-> rrel a = rrel b /\ rdig a = rdig b.
Proof.
  unfold rd_cmp. destruct (rrel a), (rrel b); cbn;
    try (split; [discriminate|intros [H _]; discriminate]);
    (destruct (cmp_bytes (rdig a) (rdig b)) eqn:E;
     [apply cmp_bytes_eq in E; tauto| |];
     (split; [discriminate|]; intros [_ H]; apply cmp_bytes_eq in H; congruence)).
Qed.

(* <= is a total preorder whose equivalence is == (on records of one class and type) *)
Theorem rd_cmp_le_trans a b c : rd_cmp a b <= 0 -> rd_cmp b c <= 0 -> rd_cmp a c <= 0.
Proof.
  intros H1 H2.
  destruct (rd_cmp_range a b) as [E1|[E1|E1]]; [| |lia];
  destruct (rd_cmp_range b c) as [E2|[E2|E2]]; try lia.
  - rewrite (rd_cmp_lt_trans _ _ _ E1 E2). lia.
  - apply rd_cmp_zero_key in E2 as [R D].
    assert (rd_cmp a c = rd_cmp a b) by (unfold rd_cmp; rewrite R, D; reflexivity). lia.
  - apply rd_cmp_zero_key in E1 as [R D].
    assert (rd_cmp a c = rd_cmp b c) by (unfold rd_cmp; rewrite R, D; reflexivity). lia.
  - apply rd_cmp_zero_key in E1 as [R D]. apply rd_cmp_zero_key in E2 as [R2 D2].
    assert (rd_cmp a c = 0) by (apply rd_cmp_zero_key; split; congruence). lia.
Qed.

Theorem rd_cmp_total a b : rd_cmp a b <= 0 \/ rd_cmp b a <= 0.
Proof. rewrite (rd_cmp_antisym a b). lia. Qed.

(* the rich comparisons are the sign tests of _cmp, and are defined exactly between records
   of the same class and type *)
Theorem rd_rich_spec w a b :
  rcls a = rcls b -> rtyp a = rtyp b ->
  rd_rich w a b = Ok (match w with
                      | RLt => rd_cmp a b <? 0
                      | RLe => rd_cmp a b <=? 0
                      | RGe => rd_cmp a b >=? 0
                      | RGt => rd_cmp a b >? 0
                      end).
Proof.
  intros Hc Ht. unfold rd_rich. rewrite Hc, Ht, !Z.eqb_refl. reflexivity.
Qed.

(* everything the property says about record ordering, in one statement *)
Theorem rd_order_total_spec :
  (forall a b, rd_cmp b a = - rd_cmp a b) /\
  (forall a b c, rd_cmp a b <= 0 -> rd_cmp b c <= 0 -> rd_cmp a c <= 0) /\
  (forall a b, rd_cmp a b <= 0 \/ rd_cmp b a <= 0) /\
  (forall a b, rcls a = rcls b -> rtyp a = rtyp b -> (rd_cmp a b = 0 <-> rd_eqb a b = true)) /\
  (forall a b, rrel a = rrel b -> (rd_cmp a b < 0 <-> lex_lt (rdig a) (rdig b))).
Proof.
  repeat split.
  - apply rd_cmp_antisym.
  - apply rd_cmp_le_trans.
  - apply rd_cmp_total.
  - apply rd_cmp_zero_iff; assumption.
  - apply rd_cmp_zero_iff; assumption.
  - intros Hlt. apply rd_cmp_canonical; [assumption|].
    destruct (rd_cmp_range a b) as [E|[E|E]]; lia.
  - intros Hl. apply rd_cmp_canonical in Hl; [lia|assumption].
Qed.
