(* C19 - the statements exported to Props/C19.v *)
From DV Require Import Base.Prelude Model.BTreeM Proofs.BTreeBase Proofs.BTreeWf Proofs.BTreeInsert Proofs.BTreeLookup Proofs.BTreeDelete.

(* insertion (BTree.insert_element at tree level: root growth + insert_nonfull, in_order on or
   off) never fails on a well-formed tree and yields a well-formed tree *)
Lemma insert_wf_proof t io root e :
  wf t root -> exists root' o, insert_tree t io root e = Ok (root', o) /\ wf t root'.
Proof.
  intros (Ht & (h & Hw) & Hs).
  destruct (insert_tree_spec t Ht io h root e Hw Hs) as (h' & root' & Hr & Hw' & Hs' & He).
  exists root', (find_sorted (fst e) (elements root)). split; [assumption|]. repeat split; eauto.
Qed.

(* ... its in-order traversal is the sorted-association-list insertion, and the returned
   element is the one previously stored under the key *)
Lemma insert_elements_proof t io root e :
  wf t root ->
  exists root', insert_tree t io root e = Ok (root', find_sorted (fst e) (elements root)) /\
                elements root' = ins_sorted e (elements root).
Proof.
  intros (Ht & (h & Hw) & Hs).
  destruct (insert_tree_spec t Ht io h root e Hw Hs) as (h' & root' & Hr & Hw' & Hs' & He).
  exists root'. auto.
Qed.

Lemma lookup_spec_proof t root k :
  wf t root -> get (depth root) root k = Ok (find_sorted k (elements root)).
Proof.
  intros (Ht & (h & Hw) & Hs). unfold wfr in Hw.
  rewrite (wfn_depth t _ _ _ Hw). apply (get_spec t Ht k h h (le_n _) _ root Hw Hs).
Qed.

(* size bookkeeping of insert_element *)
Lemma ins_sorted_length e l :
  ksorted l ->
  length (ins_sorted e l) = match find_sorted (fst e) l with Some _ => length l | None => S (length l) end.
Proof.
  induction l as [|[k v] r IH]; cbn; intros Hs; [reflexivity|]. destruct Hs as (Hg & Hs).
  destruct (Z.eqb_spec (fst e) k); [reflexivity|]. destruct (Z.ltb_spec (fst e) k).
  - cbn. rewrite find_sorted_gt; [reflexivity|]. eapply all_gt_weaken; [|exact Hg]. cbn. lia.
  - cbn. rewrite IH by assumption. destruct (find_sorted (fst e) r); reflexivity.
Qed.

(* the handle level: insert_element keeps `size = number of elements`, rejects frozen trees *)
Definition bwf (b : btree) : Prop := wf (b_t b) (b_root b) /\ b_size b = zlen (elements (b_root b)).

Lemma insert_element_spec_proof b e io :
  bwf b -> b_immut b = false ->
  exists b', insert_element b e io = Ok (b', find_sorted (fst e) (elements (b_root b))) /\ bwf b' /\
             elements (b_root b') = ins_sorted e (elements (b_root b)) /\ b_immut b' = false /\ b_t b' = b_t b.
Proof.
  intros (Hw & Hsz) Him. unfold insert_element. rewrite Him.
  pose proof Hw as (Ht & (h & Hwr) & Hs).
  destruct (insert_tree_spec (b_t b) Ht io h (b_root b) e Hwr Hs) as (h' & root' & -> & Hw' & Hs' & He).
  cbn [bind]. eexists. split; [reflexivity|]. unfold bwf. cbn [b_root b_t b_size b_immut].
  split; [split|auto].
  - repeat split; eauto.
  - unfold zlen in *. rewrite He, ins_sorted_length by assumption.
    destruct (find_sorted (fst e) (elements (b_root b))); lia.
Qed.

Lemma frozen_rejects_proof b e io k exact :
  b_immut b = true ->
  insert_element b e io = Lib eImmutable /\ delete_btree b k exact = Lib eImmutable.
Proof. intros H. unfold insert_element, delete_btree. now rewrite H. Qed.

(* deletion (BTree._delete at tree level: _Node.delete with balance / steal / merge / successor
   replacement, then the root collapse) never fails on a well-formed tree - no IndexError, no
   failed assert - keeps the invariant, reports what the reference dictionary reports, and
   removes exactly the key from the in-order traversal (nothing when ValueError is raised) *)
Lemma delete_wf_proof t root key exact :
  wf t root -> exists root' o, delete_tree t root key exact = Ok (root', o) /\ wf t root'.
Proof.
  intros (Ht & (h & Hw) & Hs).
  destruct (delete_tree_spec t Ht h root key exact Hw Hs) as (h' & root' & Hr & Hw' & Hs' & He).
  exists root'. eexists. split; [exact Hr|]. repeat split; eauto.
Qed.

Lemma delete_elements_proof t root key exact :
  wf t root ->
  let o := dspec exact (find_sorted key (elements root)) in
  exists root', delete_tree t root key exact = Ok (root', o) /\
                elements root' = after_del key o (elements root).
Proof.
  intros (Ht & (h & Hw) & Hs) o.
  destruct (delete_tree_spec t Ht h root key exact Hw Hs) as (h' & root' & Hr & Hw' & Hs' & He).
  exists root'. auto.
Qed.

Lemma del_sorted_length k l :
  match find_sorted k l with
  | Some _ => S (length (del_sorted k l)) = length l
  | None => length (del_sorted k l) = length l
  end.
Proof.
  induction l as [|[k' v] r IH]; cbn [find_sorted del_sorted]; [reflexivity|].
  destruct (Z.eqb_spec k k'); [reflexivity|]. cbn [length].
  destruct (find_sorted k r); lia.
Qed.

Lemma delete_btree_spec_proof b key exact :
  bwf b -> b_immut b = false ->
  let o := dspec exact (find_sorted key (elements (b_root b))) in
  exists b', delete_btree b key exact = Ok (b', o) /\ bwf b' /\
             elements (b_root b') = after_del key o (elements (b_root b)) /\ b_immut b' = false /\ b_t b' = b_t b.
Proof.
  intros (Hw & Hsz) Him o. unfold delete_btree. rewrite Him.
  pose proof Hw as (Ht & (h & Hwr) & Hs).
  destruct (delete_tree_spec (b_t b) Ht h (b_root b) key exact Hwr Hs) as (h' & root' & -> & Hw' & Hs' & He).
  cbn [bind]. fold o in He |- *. eexists. split; [reflexivity|]. unfold bwf. cbn [b_root b_t b_size b_immut].
  split; [split|auto].
  - repeat split; eauto.
  - unfold zlen in *. rewrite He. unfold o in *.
    destruct (find_sorted key (elements (b_root b))) as [x|] eqn:Ef; destruct exact as [vx|]; cbn [dspec after_del];
      try (destruct (snd x =? vx); cbn [after_del]); try lia;
      pose proof (del_sorted_length key (elements (b_root b))) as Hdl; rewrite Ef in Hdl; lia.
Qed.

(* ---------------------------------------------------------------- cursors *)
From DV Require Import Proofs.BTreeCursor.

Lemma cursor_seek_proof t root key before :
  wf t root ->
  exists c', cursor_seek root key before = Ok c' /\ cinv t root c' /\ c_parked c' = false /\
             anchor_of c' = if before then AB key else AA key.
Proof. intros (Ht & (h & Hw) & Hs). exact (cursor_seek_spec t Ht root h key before Hw Hs). Qed.

Lemma cursor_next_proof t root c :
  wf t root -> cinv t root c ->
  exists bef aft c',
    pos_ok (anchor_of c) (elements root) bef aft /\
    cursor_next root c = Ok (c', hd_error aft) /\
    cinv t root c' /\ c_parked c' = false /\
    anchor_of c' = match aft with x :: _ => AA (fst x) | [] => AR end.
Proof. intros (Ht & (h & Hw) & Hs). exact (cursor_next_spec t Ht root h c Hw Hs). Qed.

Lemma cursor_prev_proof t root c :
  wf t root -> cinv t root c ->
  exists bef aft c',
    pos_ok (anchor_of c) (elements root) bef aft /\
    cursor_prev root c = Ok (c', hd_error (rev bef)) /\
    cinv t root c' /\ c_parked c' = false /\
    anchor_of c' = match rev bef with x :: _ => AB (fst x) | [] => AL end.
Proof. intros (Ht & (h & Hw) & Hs). exact (cursor_prev_spec t Ht root h c Hw Hs). Qed.

Lemma cursor_park_proof t root c :
  cinv t root c -> anchor_of (cursor_park c) = anchor_of c /\ forall root', cinv t root' (cursor_park c).
Proof. apply cursor_park_spec. Qed.

Lemma cursor_boundary_proof t root c :
  cinv t root (cursor_seek_first c) /\ anchor_of (cursor_seek_first c) = AL /\
  cinv t root (cursor_seek_last c) /\ anchor_of (cursor_seek_last c) = AR /\
  cinv t root new_cursor /\ anchor_of new_cursor = AL.
Proof. apply cursor_boundary_spec. Qed.

(* ---------------------------------------------------------------- the repaired defect, for the record *)

(* BTree._delete as it was before /repo 68e82b5: the root is collapsed only when something was
   deleted *)
Definition delete_tree_before_fix (t : nat) (root : tree) (key : Z) (exact : option Z) : res (tree * dout) :=
  do (root1, o) <- del t (depth root) true root key exact;
  match o with
  | DDel _ => do root2 <- collapse_root root1; Ok (root2, o)
  | _ => Ok (root1, o)
  end.

Definition lf2 (a b : Z) : tree := Node true [(a, a); (b, b)] [].
Definition all_minimal_17 : tree :=
  Node false [(80, 80)]
    [Node false [(20, 20); (50, 50)] [lf2 0 10; lf2 30 40; lf2 60 70];
     Node false [(110, 110); (140, 140)] [lf2 90 100; lf2 120 130; lf2 150 160]].

(* three deletes of absent keys leave an internal root without keys whose only child is minimal;
   the next delete - of a key that IS in the tree - ends in IndexError *)
Lemma delete_before_fix_refuted_proof :
  wf 3 all_minimal_17 /\
  exists r1 r2 r3,
    delete_tree_before_fix 3 all_minimal_17 1 None = Ok (r1, DNone) /\
    delete_tree_before_fix 3 r1 91 None = Ok (r2, DNone) /\
    delete_tree_before_fix 3 r2 151 None = Ok (r3, DNone) /\
    find_sorted 0 (elements r3) = Some (0, 0) /\
    delete_tree_before_fix 3 r3 0 None = Internal eIndex.
Proof.
  split; [apply wf_b_iff; vm_compute; reflexivity|].
  eexists _, _, _. split; [vm_compute; reflexivity|]. split; [vm_compute; reflexivity|].
  split; [vm_compute; reflexivity|]. split; vm_compute; reflexivity.
Qed.
