(* C09: basic lemmas - decimal text, TTL text round trip, name equality helpers. *)
From DV Require Import Base.Prelude Model.NameM Model.ZoneTextM.
Open Scope Z_scope.
Ltac Zify.zify_post_hook ::= Z.to_euclidean_division_equations.

(* ---------- decimal ---------- *)
Lemma int_of_digits_snoc l c : int_of_digits (l ++ [c]) = int_of_digits l * 10 + (c - 48).
Proof. unfold int_of_digits. rewrite fold_left_app. reflexivity. Qed.

Lemma all_digits_app a b : all_digits (a ++ b) = all_digits a && all_digits b.
Proof. unfold all_digits. apply forallb_app. Qed.

Lemma is_digit_char d : 0 <= d < 10 -> is_digit (48 + d) = true.
Proof. intros. unfold is_digit. apply andb_true_intro; split; apply Z.leb_le; lia. Qed.

Lemma digits10_spec : forall fuel n,
  0 <= n < 2 ^ Z.of_nat fuel -> (0 < fuel)%nat ->
  all_digits (digits_fuel 10 false fuel n) = true /\
  int_of_digits (digits_fuel 10 false fuel n) = n /\
  digits_fuel 10 false fuel n <> [].
Proof.
  induction fuel as [|f IH]; intros n Hn Hf; [lia|].
  cbn [digits_fuel].
  destruct (Z.ltb_spec n 10) as [Hlt|Hge].
  - unfold digit_char. replace (n <? 10) with true by (symmetry; apply Z.ltb_lt; lia).
    repeat split.
    + cbn. rewrite is_digit_char by lia. reflexivity.
    + unfold int_of_digits. cbn. lia.
    + discriminate.
  - assert (Hf4 : (4 <= S f)%nat).
    { destruct f as [|[|[|f']]]; try lia; cbn in Hn; lia. }
    assert (Hpow : 2 ^ Z.of_nat (S f) = 2 * 2 ^ Z.of_nat f).
    { rewrite Nat2Z.inj_succ, Z.pow_succ_r by lia. reflexivity. }
    assert (Hq : 0 <= n / 10 < 2 ^ Z.of_nat f).
    { split; [apply Z.div_pos; lia|].
      apply Z.div_lt_upper_bound; [lia|]. lia. }
    destruct (IH (n / 10) Hq ltac:(lia)) as (Ha & Hi & Hne).
    assert (Hm : 0 <= n mod 10 < 10) by (apply Z.mod_pos_bound; lia).
    repeat split.
    + rewrite all_digits_app, Ha. cbn. unfold digit_char.
      replace (n mod 10 <? 10) with true by (symmetry; apply Z.ltb_lt; lia).
      rewrite is_digit_char by lia. reflexivity.
    + rewrite int_of_digits_snoc, Hi. unfold digit_char.
      replace (n mod 10 <? 10) with true by (symmetry; apply Z.ltb_lt; lia).
      pose proof (Z.div_mod n 10 ltac:(lia)). lia.
    + intro H. apply app_eq_nil in H. destruct H as [_ H]; discriminate.
Qed.

Lemma dec_spec n : 0 <= n ->
  all_digits (dec n) = true /\ int_of_digits (dec n) = n /\ dec n <> [].
Proof.
  intros Hn. unfold dec, digits. apply digits10_spec; [|lia].
  split; [lia|].
  destruct (Z.eq_dec n 0) as [->|Hnz]; [cbn; lia|].
  rewrite Nat2Z.inj_succ, Z2Nat.id by apply Z.log2_nonneg.
  apply Z.log2_spec. lia.
Qed.

(* ---------- ttl_text_roundtrip ---------- *)
Lemma ttl_from_text_dec n : 0 <= n <= MAX_TTL -> ttl_from_text (dec n) = Ok n.
Proof.
  intros Hn. destruct (dec_spec n ltac:(lia)) as (Ha & Hi & Hne).
  unfold ttl_from_text.
  destruct (dec n) as [|c r] eqn:E; [congruence|].
  rewrite Ha, Hi. cbn [bind].
  replace (n <? 0) with false by (symmetry; apply Z.ltb_ge; lia).
  replace (n >? MAX_TTL) with false by (symmetry; rewrite Z.gtb_ltb; apply Z.ltb_ge; lia).
  reflexivity.
Qed.

(* the only values ttl_from_text ever returns are in range *)
Lemma ttl_from_text_range t n : ttl_from_text t = Ok n -> 0 <= n <= MAX_TTL.
Proof.
  unfold ttl_from_text.
  destruct (match t with [] => Lib eBadTTL | _ => _ end) as [total| |]; cbn [bind]; try discriminate.
  destruct (Z.ltb_spec total 0); cbn [orb]; [discriminate|].
  destruct (total >? MAX_TTL) eqn:E; [discriminate|].
  intros HH; inversion HH; subst. rewrite Z.gtb_ltb in E. apply Z.ltb_ge in E. lia.
Qed.

(* a text that does not start with a digit is never a TTL: class and type mnemonics *)
Lemma ttl_from_text_nondigit c r : is_digit c = false -> ttl_from_text (c :: r) = Lib eBadTTL.
Proof.
  intros H. unfold ttl_from_text, all_digits. cbn [forallb]. rewrite H. cbn [andb ttl_loop].
  rewrite H. reflexivity.
Qed.

(* ---------- name equality ---------- *)
Lemma cmp_bytes_refl l : cmp_bytes l l = Eq.
Proof. induction l as [|x l IH]; cbn; [reflexivity|]. rewrite Z.compare_refl. exact IH. Qed.

Lemma fc_loop_refl : forall r nl, fc_loop r r 0 nl = (rEQUAL, 0, nl + zlen r).
Proof.
  induction r as [|l r IH]; intros nl; cbn [fc_loop].
  - cbn. f_equal. unfold zlen. cbn. lia.
  - rewrite cmp_bytes_refl, IH. f_equal. unfold zlen. cbn [length]. lia.
Qed.

Lemma name_eqb_refl n : name_eqb n n = true.
Proof.
  unfold name_eqb, order, fullcompare. rewrite Bool.eqb_reflx. cbn [negb].
  replace (zlen n - zlen n) with 0 by lia. rewrite fc_loop_refl. reflexivity.
Qed.

Lemma is_subdomain_refl n : is_subdomain n n = true.
Proof.
  unfold is_subdomain, reln, fullcompare. rewrite Bool.eqb_reflx. cbn [negb].
  replace (zlen n - zlen n) with 0 by lia. rewrite fc_loop_refl. reflexivity.
Qed.
