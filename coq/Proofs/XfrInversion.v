(* C13 - the converse of ixfr_sections_applied: WHENEVER an incremental transfer completes, the records that
   were read form a well-formed IXFR response (the announced SOA, difference sequences chained by their
   serials from the client's serial to the announced one, the announced SOA again as the last record of its
   message) and the zone is exactly what these sequences denote.  Together with error_leaves_zone: whatever
   the fault, the outcome is "error and zone untouched" or "the faulted stream is itself a well-formed
   response and the zone is its denotation". *)
From DV Require Import Base.Prelude Model.XfrM Proofs.XfrSets Proofs.XfrSpec Proofs.XfrZone Proofs.XfrDiff
  Proofs.XfrSafety Proofs.XfrBasic Proofs.XfrRun Proofs.XfrIxfr Proofs.XfrAxfr Proofs.XfrPerm Proofs.XfrOrder
  Proofs.XfrFault Proofs.XfrGlue Proofs.XfrSections Proofs.XfrGroup Proofs.XfrSoaFaults.

(* the vocabulary of the stream: apex SOA records (class IN), ordinary in-zone records, out-of-zone records *)
Definition wire_rec (r : rr) : Prop :=
  (exists b, r = soa_rr b /\ ttl_ok (v_ttl b)) \/ okrec r.

(* ---- being last in the message only matters when the transfer completes ---- *)
Lemma step_last_mid : forall s r s', step Last s r = (s', None) -> done s' = false -> step Mid s r = (s', None).
Proof.
  intros s r s' H Hd. unfold step in *.
  destruct (done s); [discriminate|].
  destruct (txn s) as [tz|]; [|discriminate].
  destruct ((s_type r =? tSOA) && (s_name r =? origin)); [|exact H].
  match type of H with (if ?c then _ else _) = _ => destruct c end; [|exact H].
  destruct (soa_serial r); [|discriminate].
  match type of H with (if ?c then _ else _) = _ => destruct c end; [discriminate|].
  match type of H with (if ?c then _ else _) = _ => destruct c end; [discriminate|].
  exfalso. rewrite andb_false_r in H.
  unfold res_of in H. destruct (t_add true tz r) as [z'|e|e]; inversion H; subst; cbn [done set_done] in Hd; discriminate.
Qed.

Lemma loop_not_done_loopn : forall rs s s', loop s rs = (s', None) -> done s' = false -> loopn s rs = (s', None).
Proof.
  induction rs as [|r rest IH]; intros s s' H Hd; cbn [loopT loopn] in *; [exact H|].
  destruct rest as [|r2 rest].
  - cbn [loopT loopn] in *. destruct (step Last s r) as [s1 [e|]] eqn:Hs; [discriminate|].
    inversion H; subst. rewrite (step_last_mid _ _ _ Hs Hd). reflexivity.
  - destruct (step Mid s r) as [s1 [e|]] eqn:Hs; [discriminate|]. apply IH; assumption.
Qed.

(* ---- the driver, read backwards: a completed transfer has read records c, then x, and x completed it ---- *)
Lemma cont_done_inv : forall ws a s z' n,
  running s -> Forall (header_ok (rdtype s)) ws ->
  cont true (loop s (map single a)) ws = (Done z', n) ->
  exists c x extra s1 s2,
    a ++ concat (map w_records ws) = c ++ x :: extra /\
    loopn s (map single c) = (s1, None) /\ done s1 = false /\
    step Last s1 (single x) = (s2, None) /\ done s2 = true /\ pub s2 = z'.
Proof.
  induction ws as [|w ws IH]; intros a s z' n Hrun Hh H.
  - (* the last message *)
    destruct (loop s (map single a)) as [s' [e|]] eqn:Hl; cbn [cont] in H; [discriminate|].
    destruct (done s') eqn:Hd; [|cbn in H; discriminate]. inversion H; subst.
    destruct a as [|x0 a0] using rev_ind.
    + cbn in Hl. inversion Hl; subst. destruct Hrun as (Hdn & _). congruence.
    + clear IHa0. rewrite map_app in Hl. cbn [map] in Hl. rewrite loop_snoc in Hl.
      destruct (loopn s (map single a0)) as [s1 [e|]] eqn:Hn; [discriminate|].
      exists a0, x0, [], s1, s'. cbn [map concat]. rewrite app_nil_r.
      split; [reflexivity|]. split; [exact Hn|]. split; [apply (step_none_not_done _ _ _ _ Hl)|]. auto.
  - destruct (loop s (map single a)) as [s' [e|]] eqn:Hl; cbn [cont] in H; [discriminate|].
    destruct (done s') eqn:Hd.
    + inversion H; subst.
      destruct a as [|x0 a0] using rev_ind.
      * cbn in Hl. inversion Hl; subst. destruct Hrun as (Hdn & _). congruence.
      * clear IHa0. rewrite map_app in Hl. cbn [map] in Hl. rewrite loop_snoc in Hl.
        destruct (loopn s (map single a0)) as [s1 [e|]] eqn:Hn; [discriminate|].
        exists a0, x0, (concat (map w_records (w :: ws))), s1, s'.
        split; [rewrite <- app_assoc; reflexivity|]. split; [exact Hn|].
        split; [apply (step_none_not_done _ _ _ _ Hl)|]. auto.
    + pose proof (running_after_loop _ _ _ Hrun Hl Hd) as Hra.
      assert (Hrt : rdtype s' = rdtype s) by (apply loop_inv in Hl; tauto).
      inversion Hh as [|? ? Hw Hws]; subst.
      destruct (drive true s' (w :: ws)) as [r0 n0] eqn:Hdr. inversion H; subst r0.
      rewrite drive_cons in Hdr by (apply Hra). unfold from_wire in Hdr. rewrite group_true in Hdr.
      rewrite process_running in Hdr; [|exact Hra|apply Hw|rewrite Hrt; apply Hw]. cbn [m_answer] in Hdr.
      destruct (IH (w_records w) s' z' n0 Hra) as (c & x & extra & s1 & s2 & Hc & Hn & Hd1 & Hs & Hd2 & Hp).
      { rewrite Hrt. exact Hws. }
      { exact Hdr. }
      exists (a ++ c), x, extra, s1, s2. split.
      * cbn [map concat]. rewrite <- app_assoc. f_equal. exact Hc.
      * split; [|auto]. rewrite map_app, loopn_app, (loop_not_done_loopn _ _ _ Hl Hd). exact Hn.
Qed.

(* ---- the records read so far, parsed ---- *)
Section INV.
Variables (u : bool) (p z0 : zone) (ser : Z) (fin : version).
Hypothesis Hq0 : quiet z0.
Let s0 := single (soa_rr fin).

Inductive ixfr_inv : list rr -> st -> Prop :=
| inv_start : ixfr_inv [] (ist u p z0 ser s0 true false)
| inv_secs : forall secs tz,
    secs <> [] -> skel_ok ser fin secs -> apply_secs z0 secs = Some tz ->
    ixfr_inv (secs_stream secs) (ist u p tz (end_serial ser secs) s0 false false)
| inv_del : forall secs a D tz0 tz,
    skel_ok ser fin secs -> v_serial a = end_serial ser secs -> v_soa a <> v_soa fin -> Forall okrec D ->
    apply_secs z0 secs = Some tz0 -> dels tz0 (erase D) = Some tz ->
    ixfr_inv (secs_stream secs ++ soa_rr a :: D) (ist u p tz (v_serial a) s0 false true).

Lemma glue_not_plain : forall r, plain r -> glue r = false.
Proof.
  intros r (_ & _ & Hn & _). unfold glue. apply andb_false_iff. left. apply Z.ltb_ge. exact Hn.
Qed.

(* one more added record: it joins the additions of the last section *)
Lemma extend_last : forall secs z cur tz x,
  secs <> [] -> skel_ok cur fin secs -> apply_secs z secs = Some tz -> okrec x ->
  exists secs', secs' <> [] /\ secs_stream secs' = secs_stream secs ++ [x] /\ skel_ok cur fin secs' /\
                apply_secs z secs' = Some (adds tz (erase [x])) /\ end_serial cur secs' = end_serial cur secs.
Proof.
  induction secs as [|c rest IH]; intros z cur tz x Hne Hsk Hap Hx; [congruence|].
  cbn [skel_ok] in Hsk. destruct Hsk as (H1 & H2 & H3 & H4 & H5 & H6).
  cbn [apply_secs] in Hap. destruct (dels z (erase (c_dels c))) as [z1|] eqn:Hd; [|discriminate].
  destruct rest as [|c2 rest].
  - exists [set_adds c (c_adds c ++ [x])]. split; [discriminate|]. split; [|split; [|split]].
    + cbn [secs_stream set_adds c_old c_dels c_new c_adds].
      repeat (first [rewrite <- app_assoc | progress cbn [app] | rewrite app_nil_r]). reflexivity.
    + cbn [skel_ok set_adds c_old c_dels c_new c_adds].
      split; [exact H1|]. split; [exact H2|]. split; [exact H3|]. split; [exact H4|]. split; [|exact Logic.I].
      apply Forall_app. split; [exact H5|constructor; [exact Hx|constructor]].
    + cbn [apply_secs set_adds c_old c_dels c_new c_adds]. rewrite Hd.
      cbn [apply_secs] in Hap. inversion Hap; subst. rewrite erase_app, adds_app. reflexivity.
    + reflexivity.
  - destruct (IH _ _ _ x (ltac:(discriminate)) H6 Hap Hx) as (secs' & N & S1 & S2 & S3 & S4).
    exists (c :: secs'). split; [discriminate|]. split; [|split; [|split]].
    + cbn [secs_stream] in *. rewrite S1.
      repeat (first [rewrite <- app_assoc | progress cbn [app] | rewrite app_nil_r]). reflexivity.
    + cbn [skel_ok]. auto 10.
    + cbn [apply_secs]. rewrite Hd. exact S3.
    + cbn [end_serial]. exact S4.
Qed.

Lemma erase_glue1 : forall x, glue x = true -> erase [x] = [].
Proof. intros x H. unfold erase. cbn [filter]. rewrite H. reflexivity. Qed.

Lemma erase_plain1 : forall x, plain x -> erase [x] = [x].
Proof. intros x H. unfold erase. cbn [filter]. rewrite (glue_not_plain x H). reflexivity. Qed.

Lemma quiet_inv_secs : forall secs tz, skel_ok ser fin secs -> apply_secs z0 secs = Some tz -> quiet tz.
Proof. intros secs tz Hsk Hap. apply (quiet_apply_secs _ _ _ _ _ Hsk Hap Hq0). Qed.

(* the announced SOA again while nothing can complete: an error *)
Lemma step_fin_mid : forall tz cur e b, v_soa b = v_soa fin ->
  exists s' c, step Mid (ist u p tz cur s0 e false) (single (soa_rr b)) = (s', Some c).
Proof.
  intros tz cur e b Hb. unfold step, ist, s0. cbn [done txn incremental delmode soa set_delmode negb].
  change ((s_type (single (soa_rr b)) =? tSOA) && (s_name (single (soa_rr b)) =? origin)) with true. cbv iota.
  rewrite soa_eqb. apply Z.eqb_eq in Hb. rewrite Hb. cbn [andb orb].
  rewrite soa_serial_single. cbn [expecting incremental serial set_delmode].
  destruct e; [eauto|]. destruct (cur =? v_serial b); cbn [negb andb]; eauto.
Qed.

(* one more record, not the completing one *)
Lemma ixfr_inv_step : forall c s x s',
  ixfr_inv c s -> wire_rec x -> (c = [] -> exists b, x = soa_rr b /\ ttl_ok (v_ttl b)) ->
  step Mid s (single x) = (s', None) -> ixfr_inv (c ++ [x]) s'.
Proof.
  intros c s x s' Hinv Hx Hfirst Hs. destruct Hinv as [|secs tz Hne Hsk Hap|secs a D tz0 tz Hsk Hser Hna HD Hap Hd].
  - (* the record after the announced SOA *)
    destruct (Hfirst eq_refl) as [b [-> Httl]].
    destruct (Z.eq_dec (v_serial b) ser) as [Eser|Eser].
    + destruct (Z.eq_dec (v_soa b) (v_soa fin)) as [Eb|Eb].
      * destruct (step_fin_mid z0 ser true b Eb) as (s1 & c1 & Hc). unfold s0 in *. rewrite Hc in Hs. discriminate.
      * rewrite <- Eser in Hs. unfold s0 in Hs. rewrite (step_del_start u Mid p z0 fin b true Eb) in Hs. inversion Hs; subst.
        apply (inv_del [] b [] z0 z0); try assumption; try reflexivity; constructor.
    + unfold s0 in Hs. rewrite (step_soa_mismatch Mid u p z0 ser fin true b Eser) in Hs. discriminate.
  - (* after complete sections *)
    pose proof (quiet_inv_secs _ _ Hsk Hap) as Hq.
    destruct Hx as [[b [-> Httl]]|[Hg|Hp]].
    + destruct (Z.eq_dec (v_serial b) (end_serial ser secs)) as [Eser|Eser].
      * destruct (Z.eq_dec (v_soa b) (v_soa fin)) as [Eb|Eb].
        -- destruct (step_fin_mid tz (end_serial ser secs) false b Eb) as (s1 & c1 & Hc). rewrite Hc in Hs. discriminate.
        -- rewrite <- Eser in Hs. unfold s0 in Hs. rewrite (step_del_start u Mid p tz fin b false Eb) in Hs. inversion Hs; subst.
           apply (inv_del secs b [] tz tz); try assumption; try reflexivity; constructor.
      * unfold s0 in Hs. rewrite (step_soa_mismatch Mid u p tz _ fin false b Eser) in Hs. discriminate.
    + rewrite (step_glue_skip_ist Mid u p tz _ s0 false x Hg) in Hs. inversion Hs; subst.
      destruct (extend_last secs z0 ser tz x Hne Hsk Hap (or_introl Hg)) as (secs' & N & S1 & S2 & S3 & S4).
      rewrite (erase_glue1 x Hg) in S3. cbn [adds] in S3. rewrite <- S1, <- S4. apply inv_secs; assumption.
    + unfold ist in Hs. rewrite (step_plain_add Mid p tz tIXFR true _ u (Some s0) false x Hp Hq) in Hs. inversion Hs; subst.
      destruct (extend_last secs z0 ser tz x Hne Hsk Hap (or_intror Hp)) as (secs' & N & S1 & S2 & S3 & S4).
      rewrite (erase_plain1 x Hp) in S3. cbn [adds] in S3. rewrite <- S1, <- S4.
      fold (ist u p (zput (rkey x) (add1 (look tz (rkey x)) (r_ttl x) (r_data x)) tz) (end_serial ser secs') s0 false false).
      apply inv_secs; assumption.
  - (* inside a deletion section *)
    pose proof (quiet_inv_secs _ _ Hsk Hap) as Hq0'. pose proof (quiet_dels _ _ _ Hd Hq0') as Hq.
    destruct Hx as [[b [-> Httl]]|[Hg|Hp]].
    + unfold s0 in Hs. rewrite (step_add_start u Mid p tz fin b (v_serial a) Httl Hq) in Hs. inversion Hs; subst.
      set (c := mkSect a D b []).
      assert (E1 : (secs_stream secs ++ soa_rr a :: D) ++ [soa_rr b] = secs_stream (secs ++ [c])).
      { rewrite secs_stream_app. cbn [secs_stream c c_old c_dels c_new c_adds]. rewrite !app_nil_r.
        rewrite <- app_assoc. reflexivity. }
      assert (E2 : v_serial b = end_serial ser (secs ++ [c])) by (rewrite end_serial_join; reflexivity).
      rewrite E1, E2. apply inv_secs.
      * destruct secs; discriminate.
      * apply skel_ok_join; [exact Hsk|]. cbn [skel_ok c c_old c_dels c_new c_adds].
        split; [exact Hser|]. split; [exact Hna|]. split; [exact Httl|]. split; [exact HD|]. split; [constructor|exact Logic.I].
      * rewrite (apply_secs_join _ _ _ _ Hap). cbn [apply_secs c c_old c_dels c_new c_adds]. rewrite Hd. reflexivity.
    + rewrite (step_glue_skip_ist Mid u p tz _ s0 true x Hg) in Hs. inversion Hs; subst.
      assert (E : (secs_stream secs ++ soa_rr a :: D) ++ [x] = secs_stream secs ++ soa_rr a :: (D ++ [x])).
      { rewrite <- app_assoc. reflexivity. }
      rewrite E. apply (inv_del secs a (D ++ [x]) tz0 tz); try assumption.
      * apply Forall_app. split; [exact HD|constructor; [left; exact Hg|constructor]].
      * rewrite erase_app, (erase_glue1 x Hg), app_nil_r. exact Hd.
    + unfold ist in Hs. rewrite (step_plain_del Mid p tz tIXFR true _ u (Some s0) false x Hp Hq) in Hs.
      destruct (del1 (look tz (rkey x)) (r_data x)) as [oe|] eqn:Ed; [|discriminate]. inversion Hs; subst.
      assert (E : (secs_stream secs ++ soa_rr a :: D) ++ [x] = secs_stream secs ++ soa_rr a :: (D ++ [x])).
      { rewrite <- app_assoc. reflexivity. }
      rewrite E. fold (ist u p (zset (rkey x) oe tz) (v_serial a) s0 false true).
      apply (inv_del secs a (D ++ [x]) tz0 (zset (rkey x) oe tz)); try assumption.
      * apply Forall_app. split; [exact HD|constructor; [right; exact Hp|constructor]].
      * rewrite erase_app, (erase_plain1 x Hp), dels_app, Hd. cbn [dels]. rewrite Ed. reflexivity.
Qed.

Lemma ixfr_inv_run : forall c c0 s s1,
  ixfr_inv c0 s -> Forall wire_rec c ->
  (c0 = [] -> match c with x :: _ => exists b, x = soa_rr b /\ ttl_ok (v_ttl b) | [] => True end) ->
  loopn s (map single c) = (s1, None) -> ixfr_inv (c0 ++ c) s1.
Proof.
  induction c as [|x c IH]; intros c0 s s1 Hinv Hf Hfirst Hl; cbn [map loopn] in Hl.
  - inversion Hl; subst. rewrite app_nil_r. exact Hinv.
  - inversion Hf as [|? ? Hx Hf']; subst.
    destruct (step Mid s (single x)) as [s' [e|]] eqn:Hs; [discriminate|].
    assert (H1 : ixfr_inv (c0 ++ [x]) s') by (apply (ixfr_inv_step c0 s x s' Hinv Hx Hfirst Hs)).
    replace (c0 ++ x :: c) with ((c0 ++ [x]) ++ c) by (rewrite <- app_assoc; reflexivity).
    apply (IH _ s' s1 H1 Hf'); [|exact Hl].
    intros E. destruct c0; discriminate.
Qed.

(* the completing record: the announced SOA, after complete sections that end at its serial *)
Lemma ixfr_inv_final : forall c s x s2,
  ixfr_inv c s -> wire_rec x -> (c = [] -> exists b, x = soa_rr b /\ ttl_ok (v_ttl b)) ->
  step Last s (single x) = (s2, None) -> done s2 = true ->
  exists secs tz b, secs <> [] /\ c = secs_stream secs /\ skel_ok ser fin secs /\ apply_secs z0 secs = Some tz /\
    end_serial ser secs = v_serial fin /\ x = soa_rr b /\ ttl_ok (v_ttl b) /\ v_soa b = v_soa fin /\
    pub s2 = zput soakey (v_ttl b, [v_soa b]) tz.
Proof.
  intros c s x s2 Hinv Hx Hfirst Hs Hd.
  (* a step that is not the completing one leaves done = false *)
  destruct (step Mid s (single x)) as [sm [em|]] eqn:Hm.
  2:{ exfalso. pose proof (ixfr_inv_step c s x sm Hinv Hx Hfirst Hm) as Hi.
      rewrite (step_false_true _ _ _ Hm) in Hs. inversion Hs; subst.
      destruct Hi; cbn [ist done] in Hd; discriminate. }
  destruct Hinv as [|secs tz Hne Hsk Hap|secs a D tz0 tz Hsk Hser Hna HD Hap Hd0].
  - exfalso. destruct (Hfirst eq_refl) as [b [-> Httl]].
    destruct (Z.eq_dec (v_serial b) ser) as [Eser|Eser].
    + destruct (Z.eq_dec (v_soa b) (v_soa fin)) as [Eb|Eb].
      * unfold step, ist, s0 in Hs. cbn [done txn incremental delmode soa set_delmode negb] in Hs.
        change ((s_type (single (soa_rr b)) =? tSOA) && (s_name (single (soa_rr b)) =? origin)) with true in Hs. cbv iota in Hs.
        rewrite soa_eqb in Hs. apply Z.eqb_eq in Eb. rewrite Eb in Hs. cbn [andb orb] in Hs.
        rewrite soa_serial_single in Hs. cbn [expecting incremental serial set_delmode] in Hs. discriminate.
      * rewrite <- Eser in Hs. unfold s0 in Hs. rewrite (step_del_start u Last p z0 fin b true Eb) in Hs. inversion Hs; subst.
        cbn [ist done] in Hd. discriminate.
    + unfold s0 in Hs. rewrite (step_soa_mismatch Last u p z0 ser fin true b Eser) in Hs. discriminate.
  - pose proof (quiet_inv_secs _ _ Hsk Hap) as Hq.
    destruct Hx as [[b [-> Httl]]|[Hg|Hp]].
    + destruct (Z.eq_dec (v_serial b) (end_serial ser secs)) as [Eser|Eser].
      * destruct (Z.eq_dec (v_soa b) (v_soa fin)) as [Eb|Eb].
        -- (* the completing step *)
           exists secs, tz, b. split; [exact Hne|]. split; [reflexivity|]. split; [exact Hsk|]. split; [exact Hap|].
           assert (Esf : v_serial b = v_serial fin) by (unfold v_serial; rewrite Eb; reflexivity).
           split; [congruence|]. split; [reflexivity|]. split; [exact Httl|]. split; [exact Eb|].
           unfold step, ist, s0 in Hs. cbn [done txn incremental delmode soa set_delmode negb] in Hs.
           change ((s_type (single (soa_rr b)) =? tSOA) && (s_name (single (soa_rr b)) =? origin)) with true in Hs. cbv iota in Hs.
           rewrite soa_eqb in Hs. pose proof Eb as Eb'. apply Z.eqb_eq in Eb'. rewrite Eb' in Hs. cbn [andb orb] in Hs.
           rewrite soa_serial_single in Hs. cbn [expecting incremental serial] in Hs.
           rewrite <- Eser, Z.eqb_refl in Hs. cbn [negb andb] in Hs.
           rewrite (t_add_soa tz b Httl Hq) in Hs. cbn [res_of] in Hs. inversion Hs; subst. reflexivity.
        -- exfalso. rewrite <- Eser in Hs. unfold s0 in Hs. rewrite (step_del_start u Last p tz fin b false Eb) in Hs.
           inversion Hs; subst. cbn [ist done] in Hd. discriminate.
      * exfalso. unfold s0 in Hs. rewrite (step_soa_mismatch Last u p tz _ fin false b Eser) in Hs. discriminate.
    + exfalso. rewrite (step_glue_skip_ist Last u p tz _ s0 false x Hg) in Hs. inversion Hs; subst. cbn [ist done] in Hd. discriminate.
    + exfalso. unfold ist in Hs. rewrite (step_plain_add Last p tz tIXFR true _ u (Some s0) false x Hp Hq) in Hs.
      inversion Hs; subst. cbn [done] in Hd. discriminate.
  - exfalso. pose proof (quiet_inv_secs _ _ Hsk Hap) as Hq0'. pose proof (quiet_dels _ _ _ Hd0 Hq0') as Hq.
    destruct Hx as [[b [-> Httl]]|[Hg|Hp]].
    + unfold s0 in Hs. rewrite (step_add_start u Last p tz fin b (v_serial a) Httl Hq) in Hs. inversion Hs; subst.
      cbn [ist done] in Hd. discriminate.
    + rewrite (step_glue_skip_ist Last u p tz _ s0 true x Hg) in Hs. inversion Hs; subst. cbn [ist done] in Hd. discriminate.
    + unfold ist in Hs. rewrite (step_plain_del Last p tz tIXFR true _ u (Some s0) false x Hp Hq) in Hs.
      destruct (del1 (look tz (rkey x)) (r_data x)); inversion Hs; subst. cbn [done] in Hd. discriminate.
Qed.
End INV.

(* Whenever an incremental transfer (proper IXFR: the record after the announced SOA is an SOA) completes:
   the records read are  announced SOA, well-formed difference sequences from the client's serial to the
   announced serial, the announced SOA again; every deletion applied exactly; and the zone is what the
   sequences denote.  The records `extra` (later messages) were never read. *)
Theorem ixfr_done_is_denotation : forall fin z0 ser ws rest z' n,
  quiet z0 -> ttl_ok (v_ttl fin) -> v_serial fin <> ser -> serial_lt (v_serial fin) ser = false ->
  chunking tIXFR (soa_rr fin :: rest) ws -> Forall wire_rec rest ->
  match rest with x :: _ => exists b, x = soa_rr b /\ ttl_ok (v_ttl b) | [] => True end ->
  inbound_xfr z0 tIXFR (Some ser) false ws = (Done z', n) ->
  exists secs z1 b extra,
    rest = secs_stream secs ++ soa_rr b :: extra /\ secs <> [] /\ skel_ok ser fin secs /\
    end_serial ser secs = v_serial fin /\ v_soa b = v_soa fin /\ apply_secs z0 secs = Some z1 /\
    z' = zput soakey (v_ttl b, [v_soa b]) z1.
Proof.
  intros fin z0 ser ws rest z' n Hq Httl Hs Hlt Hch Hwr Hhead H.
  apply chunking_first in Hch. destruct Hch as (w & ws' & a & -> & Hr & Hw & Hws & Hcat).
  unfold inbound_xfr, xfr_run in H. rewrite init_ixfr in H. cbn [Z.eqb tIXFR Pos.eqb] in H.
  rewrite drive_cons in H by solve_req.
  rewrite (first_message_ixfr z0 ser false w (soa_rr fin) a Hw Hr) in H by (split; reflexivity).
  cbv zeta in H. change (r_data (soa_rr fin) mod two32) with (v_serial fin) in H.
  apply Z.eqb_neq in Hs. rewrite Hs, Hlt in H. cbn [andb] in H. rewrite after_tcp in H by reflexivity.
  set (s := ist false z0 z0 ser (single (soa_rr fin)) true false) in *.
  assert (Hrun : running s) by (repeat split; try reflexivity; discriminate).
  destruct (cont_done_inv ws' a s z' n Hrun Hws H) as (c & x & extra & s1 & s2 & Hc & Hn & Hd1 & Hst & Hd2 & Hp).
  rewrite Hcat in Hc. clear Hcat. subst rest.
  apply Forall_app in Hwr. destruct Hwr as [Hwc Hwx]. inversion Hwx as [|? ? Hx _]; subst.
  assert (Hinv : ixfr_inv false z0 z0 ser fin c s1).
  { apply (ixfr_inv_run false z0 z0 ser fin Hq c [] s s1 (inv_start _ _ _ _ _) Hwc); [|exact Hn].
    intros _. destruct c; [exact Logic.I|exact Hhead]. }
  destruct (ixfr_inv_final false z0 z0 ser fin Hq c s1 x s2 Hinv Hx) as (secs & tz & b & N & Ec & Hsk & Hap & Hend & Ex & Hb & Eb & Hpub); try assumption.
  { intros ->. exact Hhead. }
  exists secs, tz, b, extra. subst. auto 10.
Qed.

(* ---- steps of a full transfer in progress ---- *)
Lemma step_ast_plain : forall l u rdt p ser s0 tz x, plain x -> quiet tz ->
  step l (ast u rdt p tz ser s0) (single x) = (ast u rdt p (adds tz [x]) ser s0, None).
Proof.
  intros l u rdt p ser s0 tz x Hp Hq. rewrite (step_rs_add l u rdt p tz ser s0 (single x) (single_ok x Hp) Hq).
  rewrite <- (addrs_singles [x] tz) by (constructor; [exact Hp|constructor]). reflexivity.
Qed.

Lemma step_ast_soa_other : forall l u rdt p ser fin tz b, v_soa b <> v_soa fin ->
  exists s', step l (ast u rdt p tz ser (single (soa_rr fin))) (single (soa_rr b)) = (s', Some eAXFRSOA).
Proof.
  intros l u rdt p ser fin tz b Hb. unfold step, ast. cbn [done txn incremental delmode soa set_delmode negb].
  change ((s_type (single (soa_rr b)) =? tSOA) && (s_name (single (soa_rr b)) =? origin)) with true. cbv iota.
  rewrite soa_eqb. apply Z.eqb_neq in Hb. rewrite Hb. cbn [andb].
  rewrite soa_serial_single. cbn [incremental set_expecting set_delmode]. eauto.
Qed.

Lemma step_ast_soa_fin_mid : forall u rdt p ser fin tz b, v_soa b = v_soa fin ->
  exists s', step Mid (ast u rdt p tz ser (single (soa_rr fin))) (single (soa_rr b)) = (s', Some eAfterFinal).
Proof.
  intros u rdt p ser fin tz b Hb. unfold step, ast. cbn [done txn incremental delmode soa set_delmode negb].
  change ((s_type (single (soa_rr b)) =? tSOA) && (s_name (single (soa_rr b)) =? origin)) with true. cbv iota.
  rewrite soa_eqb. apply Z.eqb_eq in Hb. rewrite Hb. cbn [andb orb negb].
  rewrite soa_serial_single. cbn [expecting incremental negb andb set_delmode]. eauto.
Qed.

Lemma step_ast_soa_fin_last : forall u rdt p ser fin tz b, v_soa b = v_soa fin -> ttl_ok (v_ttl b) -> quiet tz ->
  step Last (ast u rdt p tz ser (single (soa_rr fin))) (single (soa_rr b)) =
  (mkSt (zput soakey (v_ttl b, [v_soa b]) tz) None rdt false ser u (Some (single (soa_rr fin))) true false false false, None).
Proof.
  intros u rdt p ser fin tz b Hb Httl Hq. unfold step, ast. cbn [done txn incremental delmode soa set_delmode negb].
  change ((s_type (single (soa_rr b)) =? tSOA) && (s_name (single (soa_rr b)) =? origin)) with true. cbv iota.
  rewrite soa_eqb. apply Z.eqb_eq in Hb. rewrite Hb. cbn [andb orb negb].
  rewrite soa_serial_single. cbn [expecting incremental negb andb set_delmode].
  rewrite t_add_soa by assumption. reflexivity.
Qed.


(* ---- the same for an AXFR-style answer to an IXFR request (the record after the announced SOA is not an SOA) ---- *)
Section INVA.
Variables (p : zone) (ser : Z) (fin : version).
Let s0 := single (soa_rr fin).

Inductive axs_inv : list rr -> st -> Prop :=
| axs_start : axs_inv [] (ist false p p ser s0 true false)
| axs_body : forall B, B <> [] -> Forall okrec B ->
    axs_inv B (ast false tIXFR p (adds [] (erase B)) ser s0).

Lemma quiet_body : forall B, Forall okrec B -> quiet (adds [] (erase B)).
Proof. intros B HB. apply quiet_adds; [apply erase_plain, HB|apply quiet_nil]. Qed.

Lemma axs_inv_step : forall c s x s',
  axs_inv c s -> wire_rec x -> (c = [] -> okrec x) ->
  step Mid s (single x) = (s', None) -> axs_inv (c ++ [x]) s'.
Proof.
  intros c s x s' Hinv Hx Hfirst Hs. destruct Hinv as [|B Hne HB].
  - pose proof (Hfirst eq_refl) as Hok. unfold s0 in Hs. rewrite (step_fallback_glue Mid p p ser _ x Hok) in Hs.
    inversion Hs; subst. cbn [app]. apply axs_body; [discriminate|constructor; [exact Hok|constructor]].
  - pose proof (quiet_body B HB) as Hq.
    assert (HB' : forall y, okrec y -> Forall okrec (B ++ [y])).
    { intros y Hy. apply Forall_app. split; [exact HB|constructor; [exact Hy|constructor]]. }
    assert (N : forall y, B ++ [y] <> []) by (intros y E; destruct B; discriminate).
    destruct Hx as [[b [-> Httl]]|[Hg|Hp]].
    + exfalso. destruct (Z.eq_dec (v_soa b) (v_soa fin)) as [Eb|Eb].
      * destruct (step_ast_soa_fin_mid false tIXFR p ser fin (adds [] (erase B)) b Eb) as [s1 Hc]. unfold s0 in Hs. rewrite Hc in Hs. discriminate.
      * destruct (step_ast_soa_other Mid false tIXFR p ser fin (adds [] (erase B)) b Eb) as [s1 Hc]. unfold s0 in Hs. rewrite Hc in Hs. discriminate.
    + rewrite step_glue_skip in Hs by (unfold rs_glue, single; cbn [s_name s_type]; exact Hg).
      assert (E : s' = ast false tIXFR p (adds [] (erase (B ++ [x]))) ser s0).
      { rewrite erase_app, (erase_glue1 x Hg), app_nil_r. congruence. }
      rewrite E. apply axs_body; [apply N|apply HB'; left; exact Hg].
    + rewrite (step_ast_plain Mid false tIXFR p ser s0 _ x Hp Hq) in Hs.
      assert (E : s' = ast false tIXFR p (adds [] (erase (B ++ [x]))) ser s0).
      { rewrite erase_app, (erase_plain1 x Hp), adds_app. congruence. }
      rewrite E. apply axs_body; [apply N|apply HB'; right; exact Hp].
Qed.

Lemma axs_inv_run : forall c c0 s s1,
  axs_inv c0 s -> Forall wire_rec c ->
  (c0 = [] -> match c with x :: _ => okrec x | [] => True end) ->
  loopn s (map single c) = (s1, None) -> axs_inv (c0 ++ c) s1.
Proof.
  induction c as [|x c IH]; intros c0 s s1 Hinv Hf Hfirst Hl; cbn [map loopn] in Hl.
  - inversion Hl; subst. rewrite app_nil_r. exact Hinv.
  - inversion Hf as [|? ? Hx Hf']; subst.
    destruct (step Mid s (single x)) as [s' [e|]] eqn:Hs; [discriminate|].
    assert (H1 : axs_inv (c0 ++ [x]) s') by (apply (axs_inv_step c0 s x s' Hinv Hx Hfirst Hs)).
    replace (c0 ++ x :: c) with ((c0 ++ [x]) ++ c) by (rewrite <- app_assoc; reflexivity).
    apply (IH _ s' s1 H1 Hf'); [|exact Hl].
    intros E. destruct c0; discriminate.
Qed.

Lemma axs_inv_final : forall c s x s2,
  axs_inv c s -> wire_rec x -> (c = [] -> okrec x) ->
  step Last s (single x) = (s2, None) -> done s2 = true ->
  exists b, c <> [] /\ Forall okrec c /\ x = soa_rr b /\ ttl_ok (v_ttl b) /\ v_soa b = v_soa fin /\
    pub s2 = zput soakey (v_ttl b, [v_soa b]) (adds [] (erase c)).
Proof.
  intros c s x s2 Hinv Hx Hfirst Hs Hd.
  destruct (step Mid s (single x)) as [sm [em|]] eqn:Hm.
  2:{ exfalso. pose proof (axs_inv_step c s x sm Hinv Hx Hfirst Hm) as Hi.
      rewrite (step_false_true _ _ _ Hm) in Hs. inversion Hs; subst.
      destruct Hi; cbn [ist ast done] in Hd; discriminate. }
  destruct Hinv as [|B Hne HB].
  - exfalso. pose proof (Hfirst eq_refl) as Hok. unfold s0 in Hm. rewrite (step_fallback_glue Mid p p ser _ x Hok) in Hm. discriminate.
  - pose proof (quiet_body B HB) as Hq.
    destruct Hx as [[b [-> Httl]]|[Hg|Hp]].
    + destruct (Z.eq_dec (v_soa b) (v_soa fin)) as [Eb|Eb].
      * unfold s0 in Hs. rewrite (step_ast_soa_fin_last false tIXFR p ser fin _ b Eb Httl Hq) in Hs. inversion Hs; subst. exists b. cbn [pub]. auto 10.
      * exfalso. destruct (step_ast_soa_other Last false tIXFR p ser fin (adds [] (erase B)) b Eb) as [s1 Hc]. unfold s0 in Hs. rewrite Hc in Hs. discriminate.
    + exfalso. rewrite step_glue_skip in Hm by (unfold rs_glue, single; cbn [s_name s_type]; exact Hg). discriminate.
    + exfalso. rewrite (step_ast_plain Mid false tIXFR p ser s0 _ x Hp Hq) in Hm. discriminate.
Qed.
End INVA.

(* Whenever an IXFR request answered in AXFR style completes: the records read are the announced SOA, a
   non-empty body of ordinary / out-of-zone records, the announced SOA again (last record of its message);
   the zone is the SOA plus the in-zone records of the body. *)
Theorem axfr_style_done_is_denotation : forall fin z0 ser ws x rest z' n,
  ttl_ok (v_ttl fin) -> v_serial fin <> ser -> serial_lt (v_serial fin) ser = false ->
  chunking tIXFR (soa_rr fin :: x :: rest) ws -> okrec x -> Forall wire_rec rest ->
  inbound_xfr z0 tIXFR (Some ser) false ws = (Done z', n) ->
  exists B b extra,
    x :: rest = B ++ soa_rr b :: extra /\ B <> [] /\ Forall okrec B /\ v_soa b = v_soa fin /\
    z' = zput soakey (v_ttl b, [v_soa b]) (adds [] (erase B)).
Proof.
  intros fin z0 ser ws x rest z' n Httl Hs Hlt Hch Hx Hwr H.
  apply chunking_first in Hch. destruct Hch as (w & ws' & a & -> & Hr & Hw & Hws & Hcat).
  unfold inbound_xfr, xfr_run in H. rewrite init_ixfr in H. cbn [Z.eqb tIXFR Pos.eqb] in H.
  rewrite drive_cons in H by solve_req.
  rewrite (first_message_ixfr z0 ser false w (soa_rr fin) a Hw Hr) in H by (split; reflexivity).
  cbv zeta in H. change (r_data (soa_rr fin) mod two32) with (v_serial fin) in H.
  apply Z.eqb_neq in Hs. rewrite Hs, Hlt in H. cbn [andb] in H. rewrite after_tcp in H by reflexivity.
  set (s := ist false z0 z0 ser (single (soa_rr fin)) true false) in *.
  assert (Hrun : running s) by (repeat split; try reflexivity; discriminate).
  destruct (cont_done_inv ws' a s z' n Hrun Hws H) as (c & y & extra & s1 & s2 & Hc & Hn & Hd1 & Hst & Hd2 & Hp).
  rewrite Hcat in Hc. clear Hcat.
  assert (Hall : Forall wire_rec (c ++ y :: extra)) by (rewrite <- Hc; constructor; [right; exact Hx|exact Hwr]).
  apply Forall_app in Hall. destruct Hall as [Hwc Hwy]. inversion Hwy as [|? ? Hy _]; subst.
  assert (Hhead : match c with x0 :: _ => okrec x0 | [] => okrec y end).
  { destruct c as [|c1 c']; cbn [app] in Hc; inversion Hc; subst; exact Hx. }
  assert (Hinv : axs_inv z0 ser fin c s1).
  { apply (axs_inv_run z0 ser fin c [] s s1 (axs_start _ _ _) Hwc); [|exact Hn].
    intros _. destruct c; [exact Logic.I|exact Hhead]. }
  destruct (axs_inv_final z0 ser fin c s1 y s2 Hinv Hy) as (b & N & HB & Ey & Hb & Eb & Hpub); try assumption.
  { intros ->. exact Hhead. }
  exists c, b, extra. subst. auto 10.
Qed.

(* ---- AXFR: the messages after the first are merged into RRsets by the parser ---- *)
Lemma wire_split : forall x, Forall wire_rec x ->
  Forall okrec x \/ exists x1 b x2, x = x1 ++ soa_rr b :: x2 /\ Forall okrec x1 /\ ttl_ok (v_ttl b).
Proof.
  induction x as [|r x IH]; intros H; [left; constructor|].
  inversion H as [|? ? Hr Hx]; subst. destruct Hr as [[b [-> Httl]]|Hok].
  - right. exists [], b, x. auto.
  - destruct (IH Hx) as [Hall|(x1 & b & x2 & -> & H1 & H2)].
    + left. constructor; assumption.
    + right. exists (r :: x1), b, x2. split; [reflexivity|]. split; [constructor; assumption|exact H2].
Qed.

Lemma axfr_cont_inv : forall ws g a p tz ser fin z' n,
  parse_ok_glue g ->
  (forall x1 r x2, r_type r = tSOA -> g (x1 ++ r :: x2) = g x1 ++ single r :: map single x2) ->
  Forall (header_ok tAXFR) ws -> Forall wire_rec (a ++ concat (map w_records ws)) -> zsorted tz -> quiet tz ->
  cont false (loop (ast false tAXFR p tz ser (single (soa_rr fin))) (g a)) ws = (Done z', n) ->
  exists B b extra,
    a ++ concat (map w_records ws) = B ++ soa_rr b :: extra /\ Forall okrec B /\ ttl_ok (v_ttl b) /\
    v_soa b = v_soa fin /\ zeq z' (zput soakey (v_ttl b, [v_soa b]) (adds tz (erase B))).
Proof.
  induction ws as [|w ws IH]; intros g a p tz ser fin z' n Hg Hsp Hh Hwr Hz Hq H;
    apply Forall_app in Hwr; destruct Hwr as [Hwa Hwrest];
    destruct (wire_split a Hwa) as [Hall|(x1 & b & x2 & -> & Hx1 & Httl)].
  - (* no SOA in the last message: the stream has ended *)
    rewrite (loop_loopn _ _ _ (loopn_okrec g a false tAXFR p tz ser _ Hg Hall Hq)) in H. cbn in H. discriminate.
  - (* the message with the SOA *)
    rewrite (Hsp x1 (soa_rr b) x2 eq_refl) in H.
    pose proof (loopn_okrec g x1 false tAXFR p tz ser (single (soa_rr fin)) Hg Hx1 Hq) as Hl1.
    pose proof (quiet_okrec g x1 tz Hg Hx1 Hq) as Hq1.
    destruct (Z.eq_dec (v_soa b) (v_soa fin)) as [Eb|Eb].
    + destruct x2 as [|y x2].
      * change (g x1 ++ single (soa_rr b) :: map single []) with (g x1 ++ [single (soa_rr b)]) in H.
        rewrite loop_snoc, Hl1, (step_ast_soa_fin_last false tAXFR p ser fin _ b Eb Httl Hq1) in H.
        cbn [cont done pub] in H. inversion H; subst.
        exists x1, b, []. cbn [map concat]. rewrite app_nil_r. split; [reflexivity|]. split; [exact Hx1|]. split; [exact Httl|].
        split; [exact Eb|]. apply zput_zeq. destruct Hg as ((_ & _ & G3) & _ & _). apply G3; [apply erase_plain, Hx1|exact Hz].
      * exfalso. destruct (step_ast_soa_fin_mid false tAXFR p ser fin (addrs tz (g (erase x1))) b Eb) as [s1 Hc].
        cbn [map] in H. rewrite (loop_app_error_mid _ _ _ _ _ _ _ _ Hl1 Hc) in H. cbn in H. discriminate.
    + exfalso. destruct x2 as [|y x2].
      * change (g x1 ++ single (soa_rr b) :: map single []) with (g x1 ++ [single (soa_rr b)]) in H.
        destruct (step_ast_soa_other Last false tAXFR p ser fin (addrs tz (g (erase x1))) b Eb) as [s1 Hc].
        rewrite loop_snoc, Hl1, Hc in H. cbn in H. discriminate.
      * destruct (step_ast_soa_other Mid false tAXFR p ser fin (addrs tz (g (erase x1))) b Eb) as [s1 Hc].
        cbn [map] in H. rewrite (loop_app_error_mid _ _ _ _ _ _ _ _ Hl1 Hc) in H. cbn in H. discriminate.
  - (* a body message: go on with the next one *)
    rewrite (loop_loopn _ _ _ (loopn_okrec g a false tAXFR p tz ser _ Hg Hall Hq)) in H.
    cbn [cont] in H. unfold ast at 1 in H. cbn [done] in H.
    fold (ast false tAXFR p (addrs tz (g (erase a))) ser (single (soa_rr fin))) in H.
    inversion Hh as [|? ? Hw Hws]; subst.
    destruct (drive false _ (w :: ws)) as [r0 n0] eqn:Hdr. inversion H; subst r0.
    rewrite drive_cons in Hdr by reflexivity. unfold from_wire in Hdr.
    rewrite process_running in Hdr; [|apply running_ast|apply Hw|apply Hw]. cbn [m_answer] in Hdr.
    cbn [map concat] in Hwrest.
    pose proof Hg as ((_ & _ & G3) & _ & _).
    assert (Hz1 : zsorted (addrs tz (g (erase a)))).
    { eapply zsorted_zeq; [apply G3; [apply erase_plain, Hall|exact Hz]|apply adds_sorted, Hz]. }
    destruct (IH (group false) (w_records w) p (addrs tz (g (erase a))) ser fin z' n0 parse_group_ok_glue
                (group_after_soa false) Hws Hwrest Hz1 (quiet_okrec g a tz Hg Hall Hq) Hdr)
      as (B & b & extra & Hc & HB & Httl & Eb & Hzz).
    exists (a ++ B), b, extra. split; [cbn [map concat]; rewrite <- app_assoc; f_equal; exact Hc|].
    split; [apply Forall_app; split; assumption|]. split; [exact Httl|]. split; [exact Eb|].
    eapply zeq_trans; [exact Hzz|]. apply zput_zeq. rewrite erase_app, adds_app. apply adds_zeq.
    apply G3; [apply erase_plain, Hall|exact Hz].
  - (* the message with the SOA, more messages behind it (never read) *)
    rewrite (Hsp x1 (soa_rr b) x2 eq_refl) in H.
    pose proof (loopn_okrec g x1 false tAXFR p tz ser (single (soa_rr fin)) Hg Hx1 Hq) as Hl1.
    pose proof (quiet_okrec g x1 tz Hg Hx1 Hq) as Hq1.
    destruct (Z.eq_dec (v_soa b) (v_soa fin)) as [Eb|Eb].
    + destruct x2 as [|y x2].
      * change (g x1 ++ single (soa_rr b) :: map single []) with (g x1 ++ [single (soa_rr b)]) in H.
        rewrite loop_snoc, Hl1, (step_ast_soa_fin_last false tAXFR p ser fin _ b Eb Httl Hq1) in H.
        cbn [cont done pub] in H. inversion H; subst.
        exists x1, b, (concat (map w_records (w :: ws))). split; [rewrite <- app_assoc; reflexivity|].
        split; [exact Hx1|]. split; [exact Httl|].
        split; [exact Eb|]. apply zput_zeq. destruct Hg as ((_ & _ & G3) & _ & _). apply G3; [apply erase_plain, Hx1|exact Hz].
      * exfalso. destruct (step_ast_soa_fin_mid false tAXFR p ser fin (addrs tz (g (erase x1))) b Eb) as [s1 Hc].
        cbn [map] in H. rewrite (loop_app_error_mid _ _ _ _ _ _ _ _ Hl1 Hc) in H. cbn in H. discriminate.
    + exfalso. destruct x2 as [|y x2].
      * change (g x1 ++ single (soa_rr b) :: map single []) with (g x1 ++ [single (soa_rr b)]) in H.
        destruct (step_ast_soa_other Last false tAXFR p ser fin (addrs tz (g (erase x1))) b Eb) as [s1 Hc].
        rewrite loop_snoc, Hl1, Hc in H. cbn in H. discriminate.
      * destruct (step_ast_soa_other Mid false tAXFR p ser fin (addrs tz (g (erase x1))) b Eb) as [s1 Hc].
        cbn [map] in H. rewrite (loop_app_error_mid _ _ _ _ _ _ _ _ Hl1 Hc) in H. cbn in H. discriminate.
Qed.

(* Whenever an AXFR completes: the records read are the SOA, a body of ordinary / out-of-zone records, the
   same SOA again (last record of its message); the zone is the SOA plus the in-zone records of the body. *)
Theorem axfr_done_is_denotation : forall fin z0 ser ws rest z' n,
  chunking tAXFR (soa_rr fin :: rest) ws -> Forall wire_rec rest ->
  inbound_xfr z0 tAXFR ser false ws = (Done z', n) ->
  exists B b extra,
    rest = B ++ soa_rr b :: extra /\ Forall okrec B /\ v_soa b = v_soa fin /\
    zeq z' (zput soakey (v_ttl b, [v_soa b]) (adds [] (erase B))).
Proof.
  intros fin z0 ser ws rest z' n Hch Hwr H.
  apply chunking_first in Hch. destruct Hch as (w & ws' & a & -> & Hr & Hw & Hws & Hcat).
  unfold inbound_xfr, xfr_run in H. rewrite init_axfr in H. cbn [Z.eqb tAXFR tIXFR Pos.eqb] in H.
  rewrite drive_cons in H by solve_req.
  rewrite (first_message_axfr z0 ser w (soa_rr fin) a Hw Hr) in H by (split; reflexivity).
  rewrite <- Hcat in Hwr.
  destruct (axfr_cont_inv ws' (map single) a z0 [] _ fin z' n parse_single_ok_glue split_single Hws Hwr zsorted_nil quiet_nil H)
    as (B & b & extra & Hc & HB & _ & Eb & Hzz).
  exists B, b, extra. rewrite <- Hcat. auto.
Qed.

(* ---- the single-fault lemma in its strongest form: whatever was done to a (proper) IXFR response - records
        dropped, duplicated, swapped, altered, at any position, in any division into messages - the outcome is
        an error with the zone untouched, or the stream that was read is itself a well-formed response and the
        zone is exactly its denotation ---- *)
Theorem ixfr_outcome_dichotomy : forall fin z0 ser ws rest,
  quiet z0 -> ttl_ok (v_ttl fin) -> v_serial fin <> ser -> serial_lt (v_serial fin) ser = false ->
  chunking tIXFR (soa_rr fin :: rest) ws -> Forall wire_rec rest ->
  match rest with x :: _ => exists b, x = soa_rr b /\ ttl_ok (v_ttl b) | [] => True end ->
  (exists e n, inbound_xfr z0 tIXFR (Some ser) false ws = (Error e z0, n)) \/
  (exists secs z1 b extra n,
     inbound_xfr z0 tIXFR (Some ser) false ws = (Done (zput soakey (v_ttl b, [v_soa b]) z1), n) /\
     rest = secs_stream secs ++ soa_rr b :: extra /\ secs <> [] /\ skel_ok ser fin secs /\
     end_serial ser secs = v_serial fin /\ v_soa b = v_soa fin /\ apply_secs z0 secs = Some z1).
Proof.
  intros fin z0 ser ws rest Hq Httl Hs Hlt Hch Hwr Hhead.
  destruct (inbound_xfr z0 tIXFR (Some ser) false ws) as [[z'|e z] n] eqn:E.
  - right. destruct (ixfr_done_is_denotation fin z0 ser ws rest z' n Hq Httl Hs Hlt Hch Hwr Hhead E)
      as (secs & z1 & b & extra & H1 & H2 & H3 & H4 & H5 & H6 & H7).
    exists secs, z1, b, extra, n. subst z'. auto 10.
  - left. pose proof (error_leaves_zone _ _ _ _ _ _ _ _ E). subst z. eauto.
Qed.

(* ---- every way an IXFR request can complete (TCP): up to date, incremental, or AXFR style ---- *)
Theorem ixfr_done_classification : forall fin z0 ser ws rest z' n,
  quiet z0 -> ttl_ok (v_ttl fin) ->
  chunking tIXFR (soa_rr fin :: rest) ws -> Forall wire_rec rest ->
  inbound_xfr z0 tIXFR (Some ser) false ws = (Done z', n) ->
  (* the server has nothing newer: nothing is applied *)
  (v_serial fin = ser /\ z' = z0) \/
  (* difference sequences *)
  (v_serial fin <> ser /\ exists secs z1 b extra,
     rest = secs_stream secs ++ soa_rr b :: extra /\ secs <> [] /\ skel_ok ser fin secs /\
     end_serial ser secs = v_serial fin /\ v_soa b = v_soa fin /\ apply_secs z0 secs = Some z1 /\
     z' = zput soakey (v_ttl b, [v_soa b]) z1) \/
  (* the whole zone *)
  (v_serial fin <> ser /\ exists B b extra,
     rest = B ++ soa_rr b :: extra /\ B <> [] /\ Forall okrec B /\ v_soa b = v_soa fin /\
     z' = zput soakey (v_ttl b, [v_soa b]) (adds [] (erase B))).
Proof.
  intros fin z0 ser ws rest z' n Hq Httl Hch Hwr H.
  destruct (Z.eq_dec (v_serial fin) ser) as [Es|Es].
  - left. split; [exact Es|].
    pose proof Hch as Hch0. apply chunking_first in Hch0. destruct Hch0 as (w & ws' & a & -> & Hr & Hw & Hws & Hcat).
    unfold inbound_xfr, xfr_run in H. rewrite init_ixfr in H. cbn [Z.eqb tIXFR Pos.eqb] in H.
    rewrite drive_cons in H by solve_req.
    rewrite (first_message_ixfr z0 ser false w (soa_rr fin) a Hw Hr) in H by (split; reflexivity).
    cbv zeta in H. change (r_data (soa_rr fin) mod two32) with (v_serial fin) in H.
    rewrite Es, Z.eqb_refl in H.
    destruct a as [|y a'].
    + cbn in H. inversion H. reflexivity.
    + exfalso. cbn [map loopT] in H. unfold step at 1 in H. cbn [done set_done] in H.
      destruct a'; cbn in H; discriminate.
  - right.
    destruct (serial_lt (v_serial fin) ser) eqn:Hlt.
    { exfalso. pose proof Hch as Hch0. apply chunking_first in Hch0. destruct Hch0 as (w & ws' & a & -> & Hr & Hw & Hws & Hcat).
      unfold inbound_xfr, xfr_run in H. rewrite init_ixfr in H. cbn [Z.eqb tIXFR Pos.eqb] in H.
      rewrite drive_cons in H by solve_req.
      rewrite (first_message_ixfr z0 ser false w (soa_rr fin) a Hw Hr) in H by (split; reflexivity).
      cbv zeta in H. change (r_data (soa_rr fin) mod two32) with (v_serial fin) in H.
      apply Z.eqb_neq in Es. rewrite Es, Hlt in H. cbn in H. discriminate. }
    destruct rest as [|x rest'].
    + exfalso. pose proof Hch as Hch0. apply chunking_first in Hch0. destruct Hch0 as (w & ws' & a & -> & Hr & Hw & Hws & Hcat).
      unfold inbound_xfr, xfr_run in H. rewrite init_ixfr in H. cbn [Z.eqb tIXFR Pos.eqb] in H.
      rewrite drive_cons in H by solve_req.
      rewrite (first_message_ixfr z0 ser false w (soa_rr fin) a Hw Hr) in H by (split; reflexivity).
      cbv zeta in H. change (r_data (soa_rr fin) mod two32) with (v_serial fin) in H.
      apply Z.eqb_neq in Es. rewrite Es, Hlt in H. cbn [andb] in H. rewrite after_tcp in H by reflexivity.
      set (s := ist false z0 z0 ser (single (soa_rr fin)) true false) in *.
      assert (Hrun : running s) by (repeat split; try reflexivity; discriminate).
      destruct (cont_done_inv ws' a s z' n Hrun Hws H) as (c & y & extra & _ & _ & Hc & _).
      rewrite Hcat in Hc. destruct c; discriminate.
    + inversion Hwr as [|? ? Hx Hwr']; subst. destruct Hx as [[b [-> Hb]]|Hok].
      * left. split; [exact Es|].
        apply (ixfr_done_is_denotation fin z0 ser ws _ z' n Hq Httl Es Hlt Hch Hwr (ex_intro _ b (conj eq_refl Hb)) H).
      * right. split; [exact Es|].
        apply (axfr_style_done_is_denotation fin z0 ser ws x rest' z' n Httl Es Hlt Hch Hok Hwr' H).
Qed.

(* ---- the same over UDP: the whole answer is one datagram ---- *)
Theorem udp_ixfr_done_is_denotation : forall fin z0 ser w ws rest z' n,
  quiet z0 -> ttl_ok (v_ttl fin) -> v_serial fin <> ser ->
  header_ok tIXFR w -> w_records w = soa_rr fin :: rest -> Forall wire_rec rest ->
  match rest with x :: _ => exists b, x = soa_rr b /\ ttl_ok (v_ttl b) | [] => True end ->
  inbound_xfr z0 tIXFR (Some ser) true (w :: ws) = (Done z', n) ->
  exists secs z1 b,
    rest = secs_stream secs ++ [soa_rr b] /\ secs <> [] /\ skel_ok ser fin secs /\
    end_serial ser secs = v_serial fin /\ v_soa b = v_soa fin /\ apply_secs z0 secs = Some z1 /\
    z' = zput soakey (v_ttl b, [v_soa b]) z1.
Proof.
  intros fin z0 ser w ws rest z' n Hq Httl Hs Hw Hr Hwr Hhead H.
  unfold inbound_xfr, xfr_run in H. rewrite init_ixfr in H. cbn [Z.eqb tIXFR Pos.eqb] in H.
  rewrite drive_cons in H by solve_req.
  rewrite (first_message_ixfr z0 ser true w (soa_rr fin) rest Hw Hr) in H by (split; reflexivity).
  cbv zeta in H. change (r_data (soa_rr fin) mod two32) with (v_serial fin) in H.
  apply Z.eqb_neq in Hs. rewrite Hs in H.
  destruct (serial_lt (v_serial fin) ser); [cbn in H; discriminate|].
  destruct rest as [|x0 rest0]; [cbn in H; discriminate|]. cbn [andb] in H.
  change (set_expecting (set_soa (set_txn (ixfr_init z0 ser true) (Some z0)) (Some (single (soa_rr fin)))) true)
    with (ist true z0 z0 ser (single (soa_rr fin)) true false) in H.
  set (s := ist true z0 z0 ser (single (soa_rr fin)) true false) in *.
  destruct (loop s (map single (x0 :: rest0))) as [s' [e|]] eqn:Hl; [cbn in H; discriminate|].
  destruct (done s') eqn:Hd.
  2:{ assert (Hu : is_udp s' = true) by (apply loop_inv in Hl; destruct Hl as (_ & Hu & _); rewrite Hu; reflexivity).
      rewrite Hu in H. cbn in H. discriminate. }
  cbn [negb] in H. rewrite andb_false_r in H. cbn [cont] in H. rewrite Hd in H. inversion H; subst z' n.
  destruct (exists_last (l := x0 :: rest0)) as (c & x & Ec); [discriminate|].
  assert (Hhead' : match c with y :: _ => exists b, y = soa_rr b /\ ttl_ok (v_ttl b) | [] => exists b, x = soa_rr b /\ ttl_ok (v_ttl b) end).
  { destruct c as [|c1 c']; cbn [app] in Ec; inversion Ec; subst; exact Hhead. }
  clear Hhead. rewrite Ec in *. rewrite map_app in Hl. cbn [map] in Hl. rewrite loop_snoc in Hl.
  destruct (loopn s (map single c)) as [s1 [e|]] eqn:Hn; [discriminate|].
  apply Forall_app in Hwr. destruct Hwr as [Hwc Hwx]. inversion Hwx as [|? ? Hx _]; subst.
  assert (Hinv : ixfr_inv true z0 z0 ser fin c s1).
  { apply (ixfr_inv_run true z0 z0 ser fin Hq c [] s s1 (inv_start _ _ _ _ _) Hwc); [|exact Hn].
    intros _. destruct c; [exact Logic.I|exact Hhead']. }
  destruct (ixfr_inv_final true z0 z0 ser fin Hq c s1 x s' Hinv Hx) as (secs & tz & b & N & Ec' & Hsk & Hap & Hend & Ex & Hb & Eb & Hpub); try assumption.
  { intros ->. exact Hhead'. }
  exists secs, tz, b. subst. auto 10.
Qed.

Theorem axfr_outcome_dichotomy : forall fin z0 ser ws rest,
  chunking tAXFR (soa_rr fin :: rest) ws -> Forall wire_rec rest ->
  (exists e n, inbound_xfr z0 tAXFR ser false ws = (Error e z0, n)) \/
  (exists B b extra z' n,
     inbound_xfr z0 tAXFR ser false ws = (Done z', n) /\
     rest = B ++ soa_rr b :: extra /\ Forall okrec B /\ v_soa b = v_soa fin /\
     zeq z' (zput soakey (v_ttl b, [v_soa b]) (adds [] (erase B)))).
Proof.
  intros fin z0 ser ws rest Hch Hwr.
  destruct (inbound_xfr z0 tAXFR ser false ws) as [[z'|e z] n] eqn:E.
  - right. destruct (axfr_done_is_denotation fin z0 ser ws rest z' n Hch Hwr E) as (B & b & extra & H1 & H2 & H3 & H4).
    exists B, b, extra, z', n. auto 10.
  - left. pose proof (error_leaves_zone _ _ _ _ _ _ _ _ E). subst z. eauto.
Qed.
