(* C20, layer A: the canonical order of dns.name (NameM.fullcompare) as a lexicographic order on
   keys; subdomains are key prefixes; the subtree of a name is an interval of the order. *)
From DV Require Import Base.Prelude Model.NameM.
Open Scope Z_scope.

(* ---------- generic lexicographic comparison ---------- *)
Section Lex.
  Context {A : Type} (c : A -> A -> comparison).
  Hypothesis c_eq : forall x y, c x y = Eq <-> x = y.
  Hypothesis c_anti : forall x y, c y x = CompOpp (c x y).
  Hypothesis c_trans : forall x y z, c x y = Lt -> c y z = Lt -> c x z = Lt.

  Fixpoint lexc (a b : list A) : comparison :=
    match a, b with
    | [], [] => Eq
    | [], _ :: _ => Lt
    | _ :: _, [] => Gt
    | x :: a', y :: b' => match c x y with Eq => lexc a' b' | r => r end
    end.

  Lemma lexc_eq : forall a b, lexc a b = Eq <-> a = b.
  Proof.
    induction a as [|x a IH]; destruct b as [|y b]; cbn; try (split; congruence).
    destruct (c x y) eqn:E.
    - apply c_eq in E; subst. rewrite IH. split; congruence.
    - split; [discriminate|]. intros H; inversion H; subst.
      assert (c y y = Eq) by (apply c_eq; reflexivity). congruence.
    - split; [discriminate|]. intros H; inversion H; subst.
      assert (c y y = Eq) by (apply c_eq; reflexivity). congruence.
  Qed.

  Lemma lexc_refl : forall a, lexc a a = Eq.
  Proof. intros; apply lexc_eq; reflexivity. Qed.

  Lemma lexc_anti : forall a b, lexc b a = CompOpp (lexc a b).
  Proof.
    induction a as [|x a IH]; destruct b as [|y b]; cbn; try reflexivity.
    rewrite (c_anti x y). destruct (c x y); cbn; auto.
  Qed.

  Lemma c_refl : forall x, c x x = Eq.
  Proof. intros; apply c_eq; reflexivity. Qed.

  Lemma lexc_trans : forall a b d, lexc a b = Lt -> lexc b d = Lt -> lexc a d = Lt.
  Proof.
    induction a as [|x a IH]; destruct b as [|y b]; destruct d as [|z d]; cbn; try congruence.
    destruct (c x y) eqn:E1; destruct (c y z) eqn:E2; try congruence.
    - apply c_eq in E1; apply c_eq in E2; subst. rewrite c_refl. apply IH.
    - apply c_eq in E1; subst. rewrite E2. auto.
    - apply c_eq in E2; subst. rewrite E1. auto.
    - rewrite (c_trans _ _ _ E1 E2). auto.
  Qed.

  Lemma lexc_gt_lt : forall a b, lexc a b = Gt <-> lexc b a = Lt.
  Proof. intros. rewrite (lexc_anti a b). destruct (lexc a b); cbn; split; congruence. Qed.

  Lemma lexc_le_lt_trans : forall a b d, lexc a b <> Gt -> lexc b d = Lt -> lexc a d = Lt.
  Proof.
    intros a b d H1 H2. destruct (lexc a b) eqn:E; try congruence.
    - apply lexc_eq in E; subst; auto.
    - eapply lexc_trans; eauto.
  Qed.

  Lemma lexc_lt_le_trans : forall a b d, lexc a b = Lt -> lexc b d <> Gt -> lexc a d = Lt.
  Proof.
    intros a b d H1 H2. destruct (lexc b d) eqn:E; try congruence.
    - apply lexc_eq in E; subst; auto.
    - eapply lexc_trans; eauto.
  Qed.

  Lemma lexc_le_trans : forall a b d, lexc a b <> Gt -> lexc b d <> Gt -> lexc a d <> Gt.
  Proof.
    intros a b d H1 H2. destruct (lexc b d) eqn:E; try congruence.
    - apply lexc_eq in E; subst; auto.
    - rewrite (lexc_le_lt_trans _ _ _ H1 E). discriminate.
  Qed.

  (* prefixes *)
  Lemma lexc_app_r : forall p s, lexc p (p ++ s) <> Gt.
  Proof.
    induction p as [|x p IH]; intros s; cbn.
    - destruct s; discriminate.
    - rewrite c_refl. apply IH.
  Qed.

  Lemma lexc_app_lt : forall p s, s <> [] -> lexc p (p ++ s) = Lt.
  Proof.
    induction p as [|x p IH]; intros s Hs; cbn.
    - destruct s; congruence.
    - rewrite c_refl. apply IH; auto.
  Qed.

  Lemma lexc_app_same : forall p a b, lexc (p ++ a) (p ++ b) = lexc a b.
  Proof. induction p as [|x p IH]; intros; cbn; auto. rewrite c_refl. auto. Qed.

  (* the subtree of p is convex: between two names under p everything is under p *)
  Lemma lexc_convex : forall p s1 s2 b,
      lexc (p ++ s1) b <> Gt -> lexc b (p ++ s2) <> Gt -> exists s, b = p ++ s.
  Proof.
    induction p as [|x p IH]; intros s1 s2 b H1 H2.
    - exists b; reflexivity.
    - destruct b as [|y b]; cbn in *; [congruence|].
      destruct (c x y) eqn:E1; try congruence.
      + apply c_eq in E1; subst y. rewrite c_refl in H2.
        destruct (IH _ _ _ H1 H2) as [s Hs]. exists s. subst; reflexivity.
      + rewrite c_anti, E1 in H2. cbn in H2. congruence.
  Qed.

  (* once past the subtree of p, never under p again *)
  Lemma lexc_past_subtree : forall p b d,
      lexc p b = Lt -> (forall s, b <> p ++ s) -> lexc b d <> Gt -> forall s, d <> p ++ s.
  Proof.
    intros p b d H1 H2 H3 s Hd. subst d.
    assert (Hb : lexc (p ++ []) b <> Gt) by (rewrite app_nil_r, H1; discriminate).
    destruct (lexc_convex _ _ _ _ Hb H3) as [s' Hs']. eapply H2; eauto.
  Qed.
End Lex.

(* ---------- cmp_bytes is the lexicographic order on octets ---------- *)
Lemma Zcompare_anti : forall x y : Z, (y ?= x) = CompOpp (x ?= y).
Proof. intros. apply Z.compare_antisym. Qed.

Lemma Zcompare_trans : forall x y z : Z, (x ?= y) = Lt -> (y ?= z) = Lt -> (x ?= z) = Lt.
Proof. intros x y z. rewrite !Z.compare_lt_iff. lia. Qed.

Lemma cmp_bytes_lexc : forall a b, cmp_bytes a b = lexc Z.compare a b.
Proof. induction a as [|x a IH]; destruct b as [|y b]; cbn; auto; rewrite IH; reflexivity. Qed.

Lemma cmp_bytes_eq : forall a b, cmp_bytes a b = Eq <-> a = b.
Proof. intros. rewrite cmp_bytes_lexc. apply lexc_eq. apply Z.compare_eq_iff. Qed.

Lemma cmp_bytes_anti : forall a b, cmp_bytes b a = CompOpp (cmp_bytes a b).
Proof. intros. rewrite !cmp_bytes_lexc. apply lexc_anti. apply Zcompare_anti. Qed.

Lemma cmp_bytes_trans : forall a b d, cmp_bytes a b = Lt -> cmp_bytes b d = Lt -> cmp_bytes a d = Lt.
Proof.
  intros a b d. rewrite !cmp_bytes_lexc.
  apply lexc_trans; [apply Z.compare_eq_iff | apply Zcompare_trans].
Qed.

(* ---------- keys ---------- *)
Definition key := list label.
Definition kcmp : key -> key -> comparison := lexc cmp_bytes.

Lemma kcmp_eq : forall a b, kcmp a b = Eq <-> a = b.
Proof. exact (lexc_eq cmp_bytes cmp_bytes_eq). Qed.
Lemma kcmp_refl : forall a, kcmp a a = Eq.
Proof. exact (lexc_refl cmp_bytes cmp_bytes_eq). Qed.
Lemma kcmp_anti : forall a b, kcmp b a = CompOpp (kcmp a b).
Proof. exact (lexc_anti cmp_bytes cmp_bytes_anti). Qed.
Lemma kcmp_trans : forall a b d, kcmp a b = Lt -> kcmp b d = Lt -> kcmp a d = Lt.
Proof. exact (lexc_trans cmp_bytes cmp_bytes_eq cmp_bytes_trans). Qed.
Lemma kcmp_gt_lt : forall a b, kcmp a b = Gt <-> kcmp b a = Lt.
Proof. exact (lexc_gt_lt cmp_bytes cmp_bytes_anti). Qed.
Lemma kcmp_le_lt_trans : forall a b d, kcmp a b <> Gt -> kcmp b d = Lt -> kcmp a d = Lt.
Proof. exact (lexc_le_lt_trans cmp_bytes cmp_bytes_eq cmp_bytes_trans). Qed.
Lemma kcmp_lt_le_trans : forall a b d, kcmp a b = Lt -> kcmp b d <> Gt -> kcmp a d = Lt.
Proof. exact (lexc_lt_le_trans cmp_bytes cmp_bytes_eq cmp_bytes_trans). Qed.
Lemma kcmp_le_trans : forall a b d, kcmp a b <> Gt -> kcmp b d <> Gt -> kcmp a d <> Gt.
Proof. exact (lexc_le_trans cmp_bytes cmp_bytes_eq cmp_bytes_trans). Qed.
Lemma kcmp_app_r : forall p s, kcmp p (p ++ s) <> Gt.
Proof. exact (lexc_app_r cmp_bytes cmp_bytes_eq). Qed.
Lemma kcmp_app_lt : forall p s, s <> [] -> kcmp p (p ++ s) = Lt.
Proof. exact (lexc_app_lt cmp_bytes cmp_bytes_eq). Qed.
Lemma kcmp_app_same : forall p a b, kcmp (p ++ a) (p ++ b) = kcmp a b.
Proof. exact (lexc_app_same cmp_bytes cmp_bytes_eq). Qed.
Lemma kcmp_convex : forall p s1 s2 b,
    kcmp (p ++ s1) b <> Gt -> kcmp b (p ++ s2) <> Gt -> exists s, b = p ++ s.
Proof. exact (lexc_convex cmp_bytes cmp_bytes_eq cmp_bytes_anti). Qed.
Lemma kcmp_past_subtree : forall p b d,
    kcmp p b = Lt -> (forall s, b <> p ++ s) -> kcmp b d <> Gt -> forall s, d <> p ++ s.
Proof. exact (lexc_past_subtree cmp_bytes cmp_bytes_eq cmp_bytes_anti). Qed.

(* the labels from the root down, lower-cased *)
Definition lkey (n : name) : key := rev (map lower_l n).
(* with the relativity in front: relative names sort before absolute ones *)
Definition ekey (n : name) : key := (if is_absolute n then [1] else [0]) :: lkey n.

Definition prefix (p a : key) : Prop := exists s, a = p ++ s.

Lemma prefix_refl : forall a, prefix a a.
Proof. intros; exists []; rewrite app_nil_r; reflexivity. Qed.

Lemma prefix_trans : forall a b d, prefix a b -> prefix b d -> prefix a d.
Proof. intros a b d [s1 H1] [s2 H2]. exists (s1 ++ s2). subst. rewrite app_assoc. reflexivity. Qed.

Lemma prefix_length : forall p a, prefix p a -> (length p <= length a)%nat.
Proof. intros p a [s H]; subst. rewrite app_length. lia. Qed.

Lemma prefix_antisym : forall a b, prefix a b -> prefix b a -> a = b.
Proof.
  intros a b [s1 H1] [s2 H2]. subst b.
  rewrite <- app_assoc in H2. rewrite <- (app_nil_r a) in H2 at 1.
  apply app_inv_head in H2. symmetry in H2. apply app_eq_nil in H2 as [-> _].
  rewrite app_nil_r; reflexivity.
Qed.

(* two prefixes of one key are comparable *)
Lemma prefix_comparable : forall p q a, prefix p a -> prefix q a -> prefix p q \/ prefix q p.
Proof.
  induction p as [|x p IH]; intros q a Hp Hq.
  - left. exists q; reflexivity.
  - destruct q as [|y q]; [right; exists (x :: p); reflexivity|].
    destruct Hp as [s1 H1], Hq as [s2 H2]. subst a. cbn in H2. inversion H2; subst y.
    destruct (IH q (p ++ s1)) as [[s Hs]|[s Hs]].
    + exists s1; reflexivity.
    + exists s2; auto.
    + left. exists s. subst; reflexivity.
    + right. exists s. subst; reflexivity.
Qed.

Lemma prefix_kcmp_le : forall p a, prefix p a -> kcmp p a <> Gt.
Proof. intros p a [s H]; subst. apply kcmp_app_r. Qed.

Lemma prefix_kcmp_lt : forall p a, prefix p a -> p <> a -> kcmp p a = Lt.
Proof.
  intros p a [s H] Hne; subst. apply kcmp_app_lt. intros ->. rewrite app_nil_r in Hne. congruence.
Qed.

Lemma prefix_convex : forall p a b d,
    prefix p a -> prefix p d -> kcmp a b <> Gt -> kcmp b d <> Gt -> prefix p b.
Proof. intros p a b d [s1 H1] [s2 H2] Hab Hbd. subst. eapply kcmp_convex; eauto. Qed.

Lemma prefix_past : forall p b d, kcmp p b = Lt -> ~ prefix p b -> kcmp b d <> Gt -> ~ prefix p d.
Proof.
  intros p b d H1 H2 H3 [s Hs].
  eapply (kcmp_past_subtree p b d H1); eauto. intros s' Hb. apply H2. exists s'; auto.
Qed.

(* ---------- fc_loop in terms of keys ---------- *)
Fixpoint lcp (a b : key) : Z :=
  match a, b with
  | x :: a', y :: b' => match cmp_bytes x y with Eq => 1 + lcp a' b' | _ => 0 end
  | _, _ => 0
  end.

Lemma zlen_cons : forall {A} (x : A) l, zlen (x :: l) = zlen l + 1.
Proof. intros. unfold zlen. cbn [length]. lia. Qed.

Lemma zlen_nonneg : forall {A} (l : list A), 0 <= zlen l.
Proof. intros; unfold zlen; lia. Qed.

Lemma fc_nil_l : forall (lb : label) rb, zlen (@nil label) - zlen (lb :: rb) <? 0 = true.
Proof. intros. rewrite zlen_cons. pose proof (zlen_nonneg rb). unfold zlen at 1; cbn [length]. apply Z.ltb_lt. lia. Qed.

Lemma fc_nil_r : forall (la : label) ra,
    (zlen (la :: ra) - zlen (@nil label) <? 0 = false) /\ (zlen (la :: ra) - zlen (@nil label) >? 0 = true).
Proof.
  intros. rewrite zlen_cons. pose proof (zlen_nonneg ra). unfold zlen at 2 4; cbn [length].
  split; [apply Z.ltb_ge | apply Z.gtb_lt]; lia.
Qed.

Lemma fc_cons : forall (la lb : label) ra rb, zlen (la :: ra) - zlen (lb :: rb) = zlen ra - zlen rb.
Proof. intros. rewrite !zlen_cons. lia. Qed.

Lemma fc_loop_order : forall ra rb nl,
    (snd (fst (fc_loop ra rb (zlen ra - zlen rb) nl)) ?= 0) = kcmp (map lower_l ra) (map lower_l rb).
Proof.
  unfold kcmp.
  induction ra as [|la ra IH]; intros rb nl.
  - destruct rb as [|lb rb]; cbn [fc_loop map lexc].
    + reflexivity.
    + rewrite fc_nil_l. reflexivity.
  - destruct rb as [|lb rb]; cbn [fc_loop map lexc].
    + destruct (fc_nil_r la ra) as [-> ->]. reflexivity.
    + destruct (cmp_bytes (lower_l la) (lower_l lb)) eqn:E; [|reflexivity|reflexivity].
      rewrite fc_cons. apply IH.
Qed.

Lemma fc_loop_common : forall ra rb ld nl,
    snd (fc_loop ra rb ld nl) = nl + lcp (map lower_l ra) (map lower_l rb).
Proof.
  induction ra as [|la ra IH]; intros rb ld nl.
  - destruct rb; cbn [fc_loop map lcp]; destruct (ld <? 0); try destruct (ld >? 0); cbn; lia.
  - destruct rb as [|lb rb]; cbn [fc_loop map lcp].
    + destruct (ld <? 0); try destruct (ld >? 0); cbn; lia.
    + destruct (cmp_bytes (lower_l la) (lower_l lb)) eqn:E; cbn; try lia.
      rewrite IH. lia.
Qed.

Lemma fc_loop_sub : forall ra rb nl,
    ((fst (fst (fc_loop ra rb (zlen ra - zlen rb) nl)) =? rSUB) ||
     (fst (fst (fc_loop ra rb (zlen ra - zlen rb) nl)) =? rEQUAL) = true) <->
    prefix (map lower_l rb) (map lower_l ra).
Proof.
  induction ra as [|la ra IH]; intros rb nl.
  - destruct rb as [|lb rb]; cbn [fc_loop map].
    + cbn. split; auto. intros _. apply prefix_refl.
    + rewrite fc_nil_l. cbn. split; [discriminate|]. intros [s H]. discriminate.
  - destruct rb as [|lb rb]; cbn [fc_loop map].
    + destruct (fc_nil_r la ra) as [-> ->]. cbn. split; auto. intros _.
      exists (lower_l la :: map lower_l ra). reflexivity.
    + destruct (cmp_bytes (lower_l la) (lower_l lb)) eqn:E.
      * apply cmp_bytes_eq in E. rewrite E, fc_cons, IH. split.
        -- intros [s H]. exists s. cbn. rewrite H. reflexivity.
        -- intros [s H]. cbn in H. inversion H. exists s. auto.
      * assert (lower_l la <> lower_l lb) by (intros Heq; apply cmp_bytes_eq in Heq; congruence).
        split.
        -- destruct (nl >? 0); cbn; discriminate.
        -- intros [s Hs]. cbn in Hs. inversion Hs. congruence.
      * assert (lower_l la <> lower_l lb) by (intros Heq; apply cmp_bytes_eq in Heq; congruence).
        split.
        -- destruct (nl >? 0); cbn; discriminate.
        -- intros [s Hs]. cbn in Hs. inversion Hs. congruence.
Qed.

Lemma fc_loop_equal : forall ra rb nl,
    (fst (fst (fc_loop ra rb (zlen ra - zlen rb) nl)) =? rEQUAL) = true <-> map lower_l ra = map lower_l rb.
Proof.
  induction ra as [|la ra IH]; intros rb nl.
  - destruct rb as [|lb rb]; cbn [fc_loop map].
    + cbn. split; auto.
    + rewrite fc_nil_l. cbn. split; discriminate.
  - destruct rb as [|lb rb]; cbn [fc_loop map].
    + destruct (fc_nil_r la ra) as [-> ->]. cbn. split; discriminate.
    + destruct (cmp_bytes (lower_l la) (lower_l lb)) eqn:E.
      * apply cmp_bytes_eq in E. rewrite E, fc_cons, IH. split; [congruence|]. intros H; inversion H; auto.
      * assert (lower_l la <> lower_l lb) by (intros Heq; apply cmp_bytes_eq in Heq; congruence).
        split; [destruct (nl >? 0); cbn; discriminate|]. intros Hs; inversion Hs; congruence.
      * assert (lower_l la <> lower_l lb) by (intros Heq; apply cmp_bytes_eq in Heq; congruence).
        split; [destruct (nl >? 0); cbn; discriminate|]. intros Hs; inversion Hs; congruence.
Qed.

(* ---------- NameM.order / is_subdomain / name_eqb / common on ekeys ---------- *)
Lemma zlen_rev : forall {A} (l : list A), zlen (rev l) = zlen l.
Proof. intros. unfold zlen. rewrite rev_length. reflexivity. Qed.

Lemma lkey_rev : forall n, map lower_l (rev n) = lkey n.
Proof. intros. unfold lkey. rewrite map_rev. reflexivity. Qed.

Lemma order_kcmp : forall a b, (order a b ?= 0) = kcmp (ekey a) (ekey b).
Proof.
  intros a b. unfold order, fullcompare, ekey.
  destruct (is_absolute a) eqn:Ea; destruct (is_absolute b) eqn:Eb; cbn [Bool.eqb negb kcmp lexc cmp_bytes fst snd];
    try reflexivity.
  - rewrite <- (zlen_rev a), <- (zlen_rev b), fc_loop_order, !lkey_rev. reflexivity.
  - rewrite <- (zlen_rev a), <- (zlen_rev b), fc_loop_order, !lkey_rev. reflexivity.
Qed.

Lemma is_subdomain_prefix : forall a b, is_subdomain a b = true <-> prefix (ekey b) (ekey a).
Proof.
  intros a b. unfold is_subdomain, reln, fullcompare, ekey.
  destruct (is_absolute a) eqn:Ea; destruct (is_absolute b) eqn:Eb; cbn [Bool.eqb negb fst snd].
  - rewrite <- (zlen_rev a), <- (zlen_rev b). rewrite (fc_loop_sub (rev a) (rev b) 0), !lkey_rev.
    split; intros [s H]; exists s; [cbn; rewrite H; reflexivity | cbn in H; inversion H; auto].
  - cbn. split; [discriminate|]. intros [s H]; cbn in H; inversion H.
  - cbn. split; [discriminate|]. intros [s H]; cbn in H; inversion H.
  - rewrite <- (zlen_rev a), <- (zlen_rev b). rewrite (fc_loop_sub (rev a) (rev b) 0), !lkey_rev.
    split; intros [s H]; exists s; [cbn; rewrite H; reflexivity | cbn in H; inversion H; auto].
Qed.

Lemma name_eqb_ekey : forall a b, name_eqb a b = true <-> ekey a = ekey b.
Proof.
  intros a b. unfold name_eqb. rewrite Z.eqb_eq, <- Z.compare_eq_iff, order_kcmp. apply kcmp_eq.
Qed.

Lemma name_eqb_false_ekey : forall a b, name_eqb a b = false <-> ekey a <> ekey b.
Proof.
  intros a b. rewrite <- name_eqb_ekey. destruct (name_eqb a b); split; congruence.
Qed.

Lemma order_lt_kcmp : forall a b, (order a b <? 0) = true <-> kcmp (ekey a) (ekey b) = Lt.
Proof. intros. rewrite <- order_kcmp, Z.ltb_lt, Z.compare_lt_iff. reflexivity. Qed.

Lemma order_le_kcmp : forall a b, (order a b <=? 0) = true <-> kcmp (ekey a) (ekey b) <> Gt.
Proof. intros. rewrite <- order_kcmp, Z.leb_le, Z.compare_le_iff. reflexivity. Qed.

Lemma order_eq_kcmp : forall a b, (order a b =? 0) = true <-> kcmp (ekey a) (ekey b) = Eq.
Proof. intros. rewrite <- order_kcmp, Z.eqb_eq, Z.compare_eq_iff. reflexivity. Qed.

Lemma reln_equal_ekey : forall a b, (reln a b =? rEQUAL) = true <-> ekey a = ekey b.
Proof.
  intros a b. unfold reln, fullcompare, ekey.
  destruct (is_absolute a) eqn:Ea; destruct (is_absolute b) eqn:Eb; cbn [Bool.eqb negb fst snd].
  - rewrite <- (zlen_rev a), <- (zlen_rev b), fc_loop_equal, !lkey_rev. split; congruence.
  - cbn. split; congruence.
  - cbn. split; congruence.
  - rewrite <- (zlen_rev a), <- (zlen_rev b), fc_loop_equal, !lkey_rev. split; congruence.
Qed.

Lemma common_lcp : forall a b,
    common a b = if Bool.eqb (is_absolute a) (is_absolute b) then lcp (lkey a) (lkey b) else 0.
Proof.
  intros a b. unfold common, fullcompare.
  destruct (is_absolute a) eqn:Ea; destruct (is_absolute b) eqn:Eb; cbn [Bool.eqb negb fst snd]; auto.
  - rewrite fc_loop_common, !lkey_rev. lia.
  - rewrite fc_loop_common, !lkey_rev. lia.
Qed.

#[global] Arguments ekey : simpl never.
#[global] Arguments kcmp : simpl never.
#[global] Arguments lkey : simpl never.
