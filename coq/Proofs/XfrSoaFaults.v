(* C13 - SOA records out of place: after any number of well-formed difference sequences, an SOA that
   does not carry the current serial (a dropped / duplicated / swapped SOA makes the next one such).
   Also: duplicated first / final SOA, and the up-to-date shape. *)
From DV Require Import Base.Prelude Model.XfrM Proofs.XfrSets Proofs.XfrSpec Proofs.XfrZone Proofs.XfrDiff
  Proofs.XfrSafety Proofs.XfrBasic Proofs.XfrRun Proofs.XfrIxfr Proofs.XfrAxfr Proofs.XfrPerm Proofs.XfrOrder
  Proofs.XfrFault Proofs.XfrGlue Proofs.XfrSections Proofs.XfrGroup.

Definition mis_code (fin b : version) (expecting : bool) : Z :=
  if v_soa b =? v_soa fin then (if expecting then eEmptyIXFR else eUnexpectedEnd) else eBaseMismatch.

Lemma step_soa_mismatch : forall l u p tz cur fin e b, v_serial b <> cur ->
  step l (ist u p tz cur (single (soa_rr fin)) e false) (single (soa_rr b)) =
  (ist u p tz cur (single (soa_rr fin)) (if v_soa b =? v_soa fin then e else false) true,
   Some (mis_code fin b e)).
Proof.
  intros l u p tz cur fin e b Hser. unfold mis_code.
  destruct (v_soa b =? v_soa fin) eqn:E.
  - unfold step, ist. cbn [done txn incremental delmode soa set_delmode negb].
    change ((s_type (single (soa_rr b)) =? tSOA) && (s_name (single (soa_rr b)) =? origin)) with true. cbv iota.
    rewrite soa_eqb, E. cbn [andb orb].
    rewrite soa_serial_single. cbn [expecting incremental serial set_delmode].
    destruct e; [reflexivity|].
    assert (Hn : (cur =? v_serial b) = false) by (apply Z.eqb_neq; congruence).
    rewrite Hn. reflexivity.
  - apply Z.eqb_neq in E. apply (step_bad_base l u p tz cur fin e b E Hser).
Qed.

(* After the well-formed sections pre and the records P (taken as additions), an SOA whose serial is
   not the current one: rejected - IXFR base serial mismatch, or, when it is the announced SOA,
   unexpected end / empty IXFR sequence.  Whatever follows, wherever the message boundaries are. *)
Theorem ixfr_soa_out_of_place : forall fin pre P b rest z0 z1 ser ws,
  skel_ok ser fin pre -> apply_secs z0 pre = Some z1 ->
  Forall okrec P -> (pre <> [] \/ P = []) ->
  v_serial b <> end_serial ser pre ->
  v_serial fin <> ser -> serial_lt (v_serial fin) ser = false -> (pre = [] /\ P = [] \/ quiet z0) ->
  chunking tIXFR (soa_rr fin :: secs_stream pre ++ P ++ soa_rr b :: rest) ws ->
  exists n, inbound_xfr z0 tIXFR (Some ser) false ws =
            (Error (mis_code fin b (match pre with [] => true | _ => false end)) z0, n).
Proof.
  intros fin pre P b rest z0 z1 ser ws Hsk Hap HP Hcase Hser Hs Hlt Hq0 Hch.
  apply chunking_first in Hch. destruct Hch as (w & ws' & a & -> & Hr & Hw & Hws & Hcat).
  unfold inbound_xfr, xfr_run. rewrite init_ixfr. cbn [Z.eqb tIXFR Pos.eqb]. rewrite drive_cons by solve_req.
  rewrite (first_message_ixfr z0 ser false w (soa_rr fin) a Hw Hr) by (split; reflexivity).
  cbv zeta. change (r_data (soa_rr fin) mod two32) with (v_serial fin).
  apply Z.eqb_neq in Hs. rewrite Hs, Hlt. cbn [andb]. rewrite after_tcp by reflexivity.
  assert (Hrun : running (ist false z0 z0 ser (single (soa_rr fin)) true false)).
  { repeat split; try reflexivity; discriminate. }
  set (e1 := match pre with [] => true | _ :: _ => false end) in *.
  assert (Hl2 : loopn (ist false z0 z0 ser (single (soa_rr fin)) true false) (map single (secs_stream pre ++ P)) =
                (ist false z0 (adds z1 (erase P)) (end_serial ser pre) (single (soa_rr fin)) e1 false, None)).
  { destruct Hq0 as [[-> ->]|Hq0].
    - cbn in Hap. inversion Hap; subst. reflexivity.
    - pose proof (secs_run false pre z0 z0 ser fin true z1 Hsk Hap Hq0) as Hl.
      assert (Hq1 : quiet z1) by (apply (quiet_apply_secs _ _ _ _ _ Hsk Hap Hq0)).
      fold e1 in Hl.
      rewrite map_app, loopn_app, Hl. destruct Hcase as [Hne| ->].
      + assert (e1 = false) as -> by (subst e1; destruct pre; [congruence|reflexivity]).
        apply loopn_erase_adds; [exact HP|exact Hq1].
      + reflexivity. }
  assert (Hcat2 : a ++ concat (map w_records ws') = (secs_stream pre ++ P) ++ soa_rr b :: rest).
  { rewrite Hcat, <- app_assoc. reflexivity. }
  destruct (cont_error_after ws' a _ _ (soa_rr b) rest _ _ _ Hrun Hws Hcat2 Hl2 eq_refl
              (fun l => step_soa_mismatch l false z0 (adds z1 (erase P)) (end_serial ser pre) fin e1 b Hser)) as [n Hn].
  exists n. exact Hn.
Qed.

Lemma ixfr_soa_out_of_place_q : forall fin pre P b rest z0 z1 ser ws,
  skel_ok ser fin pre -> apply_secs z0 pre = Some z1 ->
  Forall okrec P -> (pre <> [] \/ P = []) ->
  v_serial b <> end_serial ser pre ->
  v_serial fin <> ser -> serial_lt (v_serial fin) ser = false -> quiet z0 ->
  chunking tIXFR (soa_rr fin :: secs_stream pre ++ P ++ soa_rr b :: rest) ws ->
  exists n, inbound_xfr z0 tIXFR (Some ser) false ws =
            (Error (mis_code fin b (match pre with [] => true | _ => false end)) z0, n).
Proof. intros. eapply ixfr_soa_out_of_place; eauto. Qed.

(* ---- a valid chain of versions as sections ---- *)
Fixpoint secs_of (v : version) (chain : list version) : list sect :=
  match chain with
  | [] => []
  | w :: r => mkSect v (zminus (v_rest v) (v_rest w)) w (zminus (v_rest w) (v_rest v)) :: secs_of w r
  end.

Lemma secs_stream_of : forall chain v, secs_stream (secs_of v chain) = diff_seqs v chain.
Proof.
  induction chain as [|w r IH]; intros v; cbn [secs_of secs_stream diff_seqs]; [reflexivity|].
  rewrite IH. unfold diff_seq. cbn [c_old c_dels c_new c_adds app]. rewrite <- app_assoc. reflexivity.
Qed.

Lemma end_serial_of : forall chain v, end_serial (v_serial v) (secs_of v chain) = v_serial (last chain v).
Proof.
  induction chain as [|w r IH]; intros v; cbn [secs_of end_serial]; [reflexivity|].
  cbn [c_new]. rewrite IH. destruct r as [|w2 r']; [reflexivity|].
  change (last (w :: w2 :: r') v) with (last (w2 :: r') v). f_equal. apply last_default. discriminate.
Qed.

Lemma erase_plain_id : forall x, Forall plain x -> erase x = x.
Proof.
  induction x as [|r x IH]; intros H; cbn [erase filter]; [reflexivity|].
  inversion H as [|? ? Hp H']; subst. fold (erase x).
  assert (Hg : glue r = false).
  { destruct Hp as (_ & _ & Hn & _). unfold glue. apply andb_false_iff. left. apply Z.ltb_ge. exact Hn. }
  rewrite Hg. cbn [negb]. f_equal. apply IH, H'.
Qed.

Lemma plain_okrec : forall x, Forall plain x -> Forall okrec x.
Proof. intros x H. eapply Forall_impl; [|exact H]. intros r Hr. right. exact Hr. Qed.

(* the sections of a valid chain are well formed and apply; the result is the last version *)
Lemma secs_of_valid : forall chain v fin z,
  version_wf v -> Forall version_wf chain -> chain <> [] ->
  (forall x, In x (v :: removelast chain) -> v_soa x <> v_soa fin) ->
  (forall k, k <> soakey -> look z k = look (v_rest v) k) ->
  skel_ok (v_serial v) fin (secs_of v chain) /\
  exists z', apply_secs z (secs_of v chain) = Some z' /\ zeq z' (zone_of (last chain v)).
Proof.
  induction chain as [|w r IH]; intros v fin z Hv Hch Hne Hd Hz; [congruence|].
  inversion Hch as [|? ? Hw Hch']; subst.
  destruct Hv as [Htv Hrv]. pose proof Hw as [Htw Hrw].
  destruct (diff_apply (v_rest v) (v_rest w) z Hrv Hrw Hz) as [z1 [Hd1 [_ Hadd]]].
  set (z2 := adds (zput soakey (v_ttl w, [v_soa w]) z1) (zminus (v_rest w) (v_rest v))).
  assert (Hz2 : zeq z2 (zone_of w)).
  { intros k. unfold z2. rewrite Hadd, look_zone_of. reflexivity. }
  assert (HeD : erase (zminus (v_rest v) (v_rest w)) = zminus (v_rest v) (v_rest w))
    by (apply erase_plain_id, zminus_plain, Hrv).
  assert (HeA : erase (zminus (v_rest w) (v_rest v)) = zminus (v_rest w) (v_rest v))
    by (apply erase_plain_id, zminus_plain, Hrw).
  assert (HEAD : v_serial v = v_serial v /\ v_soa v <> v_soa fin /\ ttl_ok (v_ttl w) /\
                 Forall okrec (zminus (v_rest v) (v_rest w)) /\ Forall okrec (zminus (v_rest w) (v_rest v))).
  { split; [reflexivity|]. split; [apply Hd; left; reflexivity|]. split; [exact Htw|].
    split; apply plain_okrec, zminus_plain; assumption. }
  destruct r as [|w2 r'].
  - cbn [secs_of skel_ok apply_secs c_old c_dels c_new c_adds last]. rewrite HeD, Hd1, HeA.
    destruct HEAD as (h1 & h2 & h3 & h4 & h5).
    split; [exact (conj h1 (conj h2 (conj h3 (conj h4 (conj h5 Logic.I)))))|]. exists z2. split; [reflexivity|exact Hz2].
  - assert (Hd' : forall x, In x (w :: removelast (w2 :: r')) -> v_soa x <> v_soa fin).
    { intros x Hin. apply Hd. right. exact Hin. }
    assert (Hz' : forall k, k <> soakey -> look z2 k = look (v_rest w) k).
    { intros k Hk. rewrite Hz2, look_zone_of. apply key_eqb_neq in Hk. rewrite Hk. reflexivity. }
    destruct (IH w fin z2 Hw Hch' ltac:(discriminate) Hd' Hz') as [Hsk [z' [Hap Hzq]]].
    cbn [secs_of skel_ok apply_secs c_old c_dels c_new c_adds]. rewrite HeD, Hd1, HeA.
    destruct HEAD as (h1 & h2 & h3 & h4 & h5).
    split; [exact (conj h1 (conj h2 (conj h3 (conj h4 (conj h5 Hsk)))))|]. exists z'. split; [exact Hap|].
    change (last (w :: w2 :: r') v) with (last (w2 :: r') v).
    rewrite (last_default (w2 :: r') v w) by discriminate. exact Hzq.
Qed.

Lemma secs_of_valid0 : forall chain v fin z,
  version_wf v -> Forall version_wf chain ->
  (forall x, In x (v :: removelast chain) -> v_soa x <> v_soa fin) ->
  (forall k, k <> soakey -> look z k = look (v_rest v) k) ->
  skel_ok (v_serial v) fin (secs_of v chain) /\
  exists z', apply_secs z (secs_of v chain) = Some z' /\
             forall k, k <> soakey -> look z' k = look (v_rest (last chain v)) k.
Proof.
  intros chain v fin z Hv Hch Hd Hz. destruct chain as [|w r].
  - cbn. split; [exact Logic.I|]. exists z. split; [reflexivity|exact Hz].
  - destruct (secs_of_valid (w :: r) v fin z Hv Hch ltac:(discriminate) Hd Hz) as [Hsk [z' [Hap Hzq]]].
    split; [exact Hsk|]. exists z'. split; [exact Hap|].
    intros k Hk. rewrite Hzq, look_zone_of. apply key_eqb_neq in Hk. rewrite Hk. reflexivity.
Qed.

Lemma skel_ok_join : forall a b cur fin,
  skel_ok cur fin a -> skel_ok (end_serial cur a) fin b -> skel_ok cur fin (a ++ b).
Proof.
  induction a as [|c a IH]; intros b cur fin Ha Hb; cbn [app skel_ok end_serial] in *; [exact Hb|].
  destruct Ha as (H1 & H2 & H3 & H4 & H5 & H6).
  exact (conj H1 (conj H2 (conj H3 (conj H4 (conj H5 (IH _ _ _ H6 Hb)))))).
Qed.

Lemma apply_secs_join : forall a b z z1, apply_secs z a = Some z1 -> apply_secs z (a ++ b) = apply_secs z1 b.
Proof.
  induction a as [|c a IH]; intros b z z1 H; cbn [app apply_secs] in *; [inversion H; reflexivity|].
  destruct (dels z (erase (c_dels c))); [apply IH, H|discriminate].
Qed.

Lemma end_serial_join : forall a b cur, end_serial cur (a ++ b) = end_serial (end_serial cur a) b.
Proof. induction a as [|c a IH]; intros b cur; cbn [app end_serial]; [reflexivity|apply IH]. Qed.

Lemma removelast_prefix : forall {A} (c1 : list A) b c2 x, In x c1 -> In x (removelast (c1 ++ b :: c2)).
Proof.
  intros A c1. induction c1 as [|y c1 IH]; intros b c2 x Hin; [destruct Hin|].
  cbn [app]. destruct (c1 ++ b :: c2) eqn:E; [destruct c1; discriminate|]. rewrite <- E.
  change (removelast (y :: c1 ++ b :: c2)) with (match c1 ++ b :: c2 with [] => [] | _ => y :: removelast (c1 ++ b :: c2) end).
  rewrite E. rewrite <- E. destruct Hin as [->|Hin]; [left; reflexivity|right; apply IH, Hin].
Qed.

Lemma last_app_cons : forall {A} (c1 : list A) b c2 d, last (c1 ++ b :: c2) d = last (b :: c2) d.
Proof.
  intros A c1. induction c1 as [|y c1 IH]; intros b c2 d; [reflexivity|].
  cbn [app]. destruct (c1 ++ b :: c2) eqn:E; [destruct c1; discriminate|]. rewrite <- E.
  change (last (y :: c1 ++ b :: c2) d) with (match c1 ++ b :: c2 with [] => y | _ => last (c1 ++ b :: c2) d end).
  rewrite E. rewrite <- E. apply IH.
Qed.

Section SoaFaults.
Variables (v0 : version) (c1 : list version) (b : version) (c2 : list version).
Let chain := c1 ++ b :: c2.
Let a := last c1 v0.
Let fin := last chain v0.

Hypothesis Hok : chain_ok v0 chain.
Hypothesis Hcons : v_serial b <> v_serial a.    (* consecutive versions have different serials *)

Lemma z0_quiet : forall z0, zeq z0 (zone_of v0) -> quiet z0.
Proof. intros z0 Hz. destruct Hok as (_ & Hv0 & _). exact (zeq_zone_of_quiet _ _ Hv0 Hz). Qed.

Lemma prefix_facts : forall z0, zeq z0 (zone_of v0) ->
  skel_ok (v_serial v0) fin (secs_of v0 c1) /\
  exists z1, apply_secs z0 (secs_of v0 c1) = Some z1 /\
             (forall k, k <> soakey -> look z1 k = look (v_rest a) k) /\
             version_wf a /\ version_wf b /\ v_soa a <> v_soa fin.
Proof.
  intros z0 Hz. destruct Hok as (_ & Hv0 & Hch & _ & _).
  pose proof (chain_ok_soa v0 chain Hok) as Hsoa.
  apply Forall_app in Hch. destruct Hch as [Hc1 Hbc2]. inversion Hbc2 as [|? ? Hb _]; subst.
  assert (Hd : forall x, In x (v0 :: removelast c1) -> v_soa x <> v_soa fin).
  { intros x [<-|Hin]; [apply Hsoa; left; reflexivity|].
    apply Hsoa. right. apply removelast_prefix.
    clear - Hin. induction c1 as [|y l IH]; [destruct Hin|]. destruct l; [destruct Hin|].
    destruct Hin as [->|Hin]; [left; reflexivity|right; apply IH, Hin]. }
  destruct (secs_of_valid0 c1 v0 fin z0 Hv0 Hc1 Hd) as [Hsk [z1 [Hap Hl]]].
  { intros k Hk. rewrite Hz, look_zone_of. apply key_eqb_neq in Hk. rewrite Hk. reflexivity. }
  split; [exact Hsk|]. exists z1. split; [exact Hap|]. split; [exact Hl|].
  split; [apply version_wf_last; assumption|]. split; [exact Hb|].
  apply Hsoa. unfold a. destruct c1 as [|y l] eqn:E; [left; reflexivity|]. right. rewrite <- E.
  apply removelast_prefix. rewrite E. clear. revert y. induction l as [|y2 l IH]; intros y; [left; reflexivity|].
  right. apply IH.
Qed.

(* the SOA that starts the deletion section a -> b is DROPPED (a is not the client's version) *)
Theorem ixfr_dropped_section_soa_rejected : forall z0 ws,
  c1 <> [] -> zeq z0 (zone_of v0) ->
  chunking tIXFR (soa_rr fin :: diff_seqs v0 c1 ++ zminus (v_rest a) (v_rest b) ++
                  soa_rr b :: zminus (v_rest b) (v_rest a) ++ diff_seqs b c2 ++ [soa_rr fin]) ws ->
  exists n, inbound_xfr z0 tIXFR (Some (v_serial v0)) false ws = (Error (mis_code fin b false) z0, n).
Proof.
  intros z0 ws Hne Hz Hch. pose proof (z0_quiet z0 Hz) as Hq0.
  destruct (prefix_facts z0 Hz) as [Hsk [z1 [Hap [Hl [Hwa [Hwb Hsa]]]]]].
  destruct Hok as (_ & _ & _ & Hser & Hlt).
  rewrite <- secs_stream_of in Hch.
  assert (Hend : end_serial (v_serial v0) (secs_of v0 c1) = v_serial a) by apply end_serial_of.
  destruct (ixfr_soa_out_of_place_q fin (secs_of v0 c1) (zminus (v_rest a) (v_rest b)) b
              (zminus (v_rest b) (v_rest a) ++ diff_seqs b c2 ++ [soa_rr fin]) z0 z1 (v_serial v0) ws
              Hsk Hap) as [n Hn]; try assumption.
  - apply plain_okrec, zminus_plain. destruct Hwa; assumption.
  - left. destruct c1; [congruence|discriminate].
  - rewrite Hend. exact Hcons.
  - intros E. apply (Hser v0 (or_introl eq_refl)). symmetry. exact E.
  - exists n. rewrite Hn. destruct c1; [congruence|reflexivity].
Qed.

(* the SOA that starts the deletion section a -> b is sent TWICE *)
Theorem ixfr_duplicated_section_soa_rejected : forall z0 rest ws,
  zeq z0 (zone_of v0) ->
  chunking tIXFR (soa_rr fin :: diff_seqs v0 c1 ++ soa_rr a :: soa_rr a :: zminus (v_rest a) (v_rest b) ++
                  soa_rr b :: rest) ws ->
  exists n, inbound_xfr z0 tIXFR (Some (v_serial v0)) false ws = (Error (mis_code fin b false) z0, n).
Proof.
  intros z0 rest ws Hz Hch. pose proof (z0_quiet z0 Hz) as Hq0.
  destruct (prefix_facts z0 Hz) as [Hsk [z1 [Hap [Hl [Hwa [Hwb Hsa]]]]]].
  destruct Hok as (_ & _ & _ & Hser & Hlt).
  set (extra := mkSect a [] a (zminus (v_rest a) (v_rest b))).
  assert (Hend : end_serial (v_serial v0) (secs_of v0 c1) = v_serial a) by apply end_serial_of.
  assert (Hsk2 : skel_ok (v_serial v0) fin (secs_of v0 c1 ++ [extra])).
  { apply skel_ok_join; [exact Hsk|]. rewrite Hend. cbn [skel_ok extra c_old c_dels c_new c_adds].
    destruct Hwa as [Hta Hra].
    exact (conj eq_refl (conj Hsa (conj Hta (conj (Forall_nil _) (conj (plain_okrec _ (zminus_plain _ _ Hra)) Logic.I))))). }
  assert (Hap2 : apply_secs z0 (secs_of v0 c1 ++ [extra]) =
                 Some (adds (zput soakey (v_ttl a, [v_soa a]) z1) (erase (zminus (v_rest a) (v_rest b))))).
  { rewrite (apply_secs_join _ _ _ _ Hap). reflexivity. }
  assert (Hstream : soa_rr fin :: diff_seqs v0 c1 ++ soa_rr a :: soa_rr a :: zminus (v_rest a) (v_rest b) ++ soa_rr b :: rest =
                    soa_rr fin :: secs_stream (secs_of v0 c1 ++ [extra]) ++ [] ++ soa_rr b :: rest).
  { rewrite secs_stream_app, secs_stream_of. cbn [secs_stream extra c_old c_dels c_new c_adds app].
    repeat (first [rewrite <- app_assoc | progress cbn [app] | rewrite app_nil_r]). reflexivity. }
  rewrite Hstream in Hch.
  destruct (ixfr_soa_out_of_place_q fin _ [] b rest z0 _ (v_serial v0) ws Hsk2 Hap2) as [n Hn]; try assumption.
  - constructor.
  - right. reflexivity.
  - rewrite end_serial_join, Hend. exact Hcons.
  - intros E. apply (Hser v0 (or_introl eq_refl)). symmetry. exact E.
  - exists n. rewrite Hn. destruct (secs_of v0 c1); reflexivity.
Qed.
End SoaFaults.

(* the first SOA sent twice: "empty IXFR sequence", whatever follows *)
Theorem ixfr_duplicated_first_soa_rejected : forall fin rest z0 ser ws,
  v_serial fin <> ser -> serial_lt (v_serial fin) ser = false ->
  chunking tIXFR (soa_rr fin :: soa_rr fin :: rest) ws ->
  exists n, inbound_xfr z0 tIXFR (Some ser) false ws = (Error eEmptyIXFR z0, n).
Proof.
  intros fin rest z0 ser ws Hs Hlt Hch.
  destruct (ixfr_soa_out_of_place fin [] [] fin rest z0 z0 ser ws Logic.I eq_refl (Forall_nil _)
              (or_intror eq_refl) Hs Hs Hlt (or_introl (conj eq_refl eq_refl)) Hch) as [n Hn].
  exists n. rewrite Hn. unfold mis_code. rewrite Z.eqb_refl. reflexivity.
Qed.

(* the up-to-date shape (first SOA carries the client's serial) followed by anything in the same
   message: rejected; the zone is never touched on this path *)
Theorem uptodate_surplus_rejected : forall z ser udp w ws r0 y rest,
  header_ok tIXFR w -> w_records w = r0 :: y :: rest -> apex_soa r0 ->
  r_data r0 mod two32 = ser ->
  inbound_xfr z tIXFR (Some ser) udp (w :: ws) = (Error eAfterFinal z, 0%nat).
Proof.
  intros z ser udp w ws r0 y rest Hh Hr Ha He.
  unfold inbound_xfr, xfr_run. rewrite init_ixfr. cbn [Z.eqb tIXFR Pos.eqb]. rewrite drive_cons by solve_req.
  rewrite (first_message_ixfr z ser udp w r0 (y :: rest) Hh Hr Ha). cbv zeta.
  rewrite He, Z.eqb_refl. cbn [map loopT]. unfold step. cbn [done set_done]. reflexivity.
Qed.

(* ---- records after the final SOA of a complete response ---- *)
Lemma cont_records_surplus : forall ws a s c fin y extra s1 s2 s1',
  running s -> Forall (header_ok (rdtype s)) ws ->
  a ++ concat (map w_records ws) = c ++ fin :: y :: extra ->
  loopn s (map single c) = (s1, None) -> done s1 = false ->
  step Last s1 (single fin) = (s2, None) -> done s2 = true ->
  step Mid s1 (single fin) = (s1', Some eAfterFinal) ->
  exists n, cont true (loop s (map single a)) ws = (Done (pub s2), n)
         \/ cont true (loop s (map single a)) ws = (Error eAfterFinal (pub s1'), n).
Proof.
  induction ws as [|w ws IH]; intros a s c fin y extra s1 s2 s1' Hrun Hh Hcat Hl Hd1 Hf Hd2 Hm.
  - cbn [map concat] in Hcat. rewrite app_nil_r in Hcat. subst a.
    exists 0%nat. right. rewrite map_app. cbn [map].
    rewrite (loop_app_error_mid _ _ _ _ _ _ _ _ Hl Hm). reflexivity.
  - apply app_mid_split in Hcat. destruct Hcat as [[c' [-> Hrest]]|[a' ->]].
    + rewrite map_app, loopn_app in Hl.
      destruct (loopn s (map single a)) as [sa [e0|]] eqn:Ha; [discriminate|].
      pose proof (loopn_none_not_done _ _ _ Hl Hd1) as Hda.
      pose proof (loop_loopn _ _ _ Ha) as Hla. rewrite Hla. cbn [cont]. rewrite Hda.
      pose proof (running_after_loop _ _ _ Hrun Hla Hda) as Hra.
      assert (Hrt : rdtype sa = rdtype s) by (apply loop_inv in Hla; tauto).
      inversion Hh as [|? ? Hw Hws]; subst.
      rewrite drive_cons by solve_req. unfold from_wire. rewrite group_true.
      rewrite process_running; [|exact Hra|apply Hw|rewrite Hrt; apply Hw].
      cbn [m_answer]. cbn [map concat] in Hrest.
      destruct (IH (w_records w) sa c' fin y extra s1 s2 s1') as [n [Hn|Hn]]; auto.
      { rewrite Hrt. exact Hws. }
      * exists (S n). left. rewrite Hn. reflexivity.
      * exists (S n). right. rewrite Hn. reflexivity.
    + destruct a' as [|y' a''].
      * exists 1%nat. left. rewrite map_app. cbn [map]. rewrite loop_snoc, Hl, Hf. cbn [cont]. rewrite Hd2. reflexivity.
      * exists 0%nat. right. rewrite map_app. cbn [map].
        rewrite (loop_app_error_mid _ _ _ _ _ _ _ _ Hl Hm). reflexivity.
Qed.

(* A complete valid IXFR response followed by more records (a duplicated final SOA, anything): if
   they come in the message of the final SOA the transfer is rejected and the zone untouched;
   otherwise it completes with the target (the surplus is never read). *)
Theorem ixfr_surplus_after_final : forall v0 chain z0 y extra ws,
  chain_ok v0 chain -> zeq z0 (zone_of v0) ->
  chunking tIXFR (ixfr_stream v0 chain ++ y :: extra) ws ->
  exists n, inbound_xfr z0 tIXFR (Some (v_serial v0)) false ws = (Error eAfterFinal z0, n)
         \/ exists z', inbound_xfr z0 tIXFR (Some (v_serial v0)) false ws = (Done z', n)
                       /\ zeq z' (zone_of (last chain v0)).
Proof.
  intros v0 chain z0 y extra ws Hok Hz Hch.
  unfold ixfr_stream in Hch. cbv zeta in Hch. cbn [app] in Hch.
  apply chunking_first in Hch. destruct Hch as (w & ws' & a & -> & Hr & Hw & Hws & Hcat).
  destruct (ixfr_records false v0 chain z0 Hok Hz) as (s1 & s2 & Hl & Hd1 & Hf & Hd2 & Hz2).
  pose proof Hok as (_ & Hv0 & Hchain & Hser & Hlt).
  unfold inbound_xfr, xfr_run. rewrite init_ixfr. cbn [Z.eqb tIXFR Pos.eqb]. rewrite drive_cons by solve_req.
  rewrite (first_message_ixfr z0 (v_serial v0) false w (soa_rr (last chain v0)) a Hw Hr) by (split; reflexivity).
  cbv zeta. change (r_data (soa_rr (last chain v0)) mod two32) with (v_serial (last chain v0)).
  assert (Hne : (v_serial (last chain v0) =? v_serial v0) = false).
  { apply Z.eqb_neq. intros E. apply (Hser v0 (or_introl eq_refl)). symmetry. exact E. }
  rewrite Hne, Hlt. cbn [andb]. rewrite after_tcp by reflexivity.
  assert (Hrun : running (ist false z0 z0 (v_serial v0) (single (soa_rr (last chain v0))) true false)).
  { repeat split; try reflexivity; discriminate. }
  rewrite <- app_assoc in Hcat. cbn [app] in Hcat.
  (* the state before the final SOA is an ist state: step Mid on the final SOA is "answers after final SOA" *)
  assert (Hmid : exists s1', step Mid s1 (single (soa_rr (last chain v0))) = (s1', Some eAfterFinal) /\ pub s1' = z0).
  { pose proof Hok as (Hne0 & _).
    destruct (chain_run false chain z0 z0 (last chain v0) v0 true Hne0 Hv0 Hchain (chain_ok_soa v0 chain Hok)) as [tz' [Hr' _]].
    { intros k Hk. rewrite Hz, look_zone_of. apply key_eqb_neq in Hk. rewrite Hk. reflexivity. }
    assert (E1 : s1 = ist false z0 tz' (v_serial (last chain v0)) (single (soa_rr (last chain v0))) false false)
      by (rewrite Hr' in Hl; inversion Hl; reflexivity).
    rewrite E1. eexists. split.
    - unfold step, ist. cbn [done txn incremental delmode soa set_delmode negb].
      change ((s_type (single (soa_rr (last chain v0))) =? tSOA) && (s_name (single (soa_rr (last chain v0))) =? origin)) with true. cbv iota.
      rewrite soa_eqb, Z.eqb_refl. cbn [andb orb].
      rewrite soa_serial_single. cbn [expecting incremental serial set_delmode]. rewrite Z.eqb_refl. reflexivity.
    - reflexivity. }
  destruct Hmid as [s1' [Hm Hp1']].
  destruct (cont_records_surplus ws' a _ (diff_seqs v0 chain) (soa_rr (last chain v0)) y extra s1 s2 s1'
              Hrun Hws Hcat Hl Hd1 Hf Hd2 Hm) as [n [Hn|Hn]].
  - exists n. right. exists (pub s2). split; [exact Hn|exact Hz2].
  - exists n. left. etransitivity; [exact Hn|]. rewrite Hp1'. reflexivity.
Qed.
