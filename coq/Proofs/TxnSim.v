(* C10: the high-level transaction code (dns.transaction.Transaction) preserves any simulation between
   two low-level stores: equal results for every call, related private and published states.
   Generic in the two stores, in the two zone configurations and in a relation E between the owner
   names given on the two sides.  Instances (TxnThm.v):
     zone version model vs reference store, same names            (refinement)
     reference store vs itself, names spelled differently / other zone configuration (irrelevance). *)
From DV Require Import Base.Prelude Model.NameM Model.TxnM.
From DV Require Import Proofs.NameValid Proofs.TxnName Proofs.TxnStore.
Open Scope Z_scope.

#[local] Hint Constructors Forall2 : core.

Section Rel.
  Variable it : bool.   (* are the iterate calls (OIter) part of the relation? *)
  Variable E : name -> name -> Prop.

  Inductive arg_rel : arg -> arg -> Prop :=
  | AR_name n1 n2 : E n1 n2 -> arg_rel (AName n1) (AName n2)
  | AR_str n1 n2 : E n1 n2 -> arg_rel (AStr n1) (AStr n2)
  | AR_rrset n1 n2 r : E n1 n2 -> arg_rel (ARRset n1 r) (ARRset n2 r)
  | AR_rds r : arg_rel (ARds r) (ARds r)
  | AR_int z : arg_rel (AInt z) (AInt z)
  | AR_rdata ty body aux cls : arg_rel (ARdata ty body aux cls) (ARdata ty body aux cls)
  | AR_tystr ty : arg_rel (ATyStr ty) (ATyStr ty)
  | AR_none : arg_rel ANone ANone.

  Definition oarg_rel (a b : option arg) : Prop :=
    match a, b with
    | Some x, Some y => arg_rel x y
    | None, None => True
    | _, _ => False
    end.

  (* OIter (counting names / rdatasets of the private state) is related only when `it` is set: it needs
     a store relation strong enough to count (Proofs/TxnCount.v) *)
  Inductive op_rel_it : op -> op -> Prop :=
  | OR_add a b : Forall2 arg_rel a b -> op_rel_it (OAdd a) (OAdd b)
  | OR_replace a b : Forall2 arg_rel a b -> op_rel_it (OReplace a) (OReplace b)
  | OR_delete a b : Forall2 arg_rel a b -> op_rel_it (ODelete a) (ODelete b)
  | OR_delete_exact a b : Forall2 arg_rel a b -> op_rel_it (ODeleteExact a) (ODeleteExact b)
  | OR_serial v r a b : oarg_rel a b -> op_rel_it (OSerial v r a) (OSerial v r b)
  | OR_get a b ty cov : arg_rel a b -> op_rel_it (OGet a ty cov) (OGet b ty cov)
  | OR_exists a b : arg_rel a b -> op_rel_it (OExists a) (OExists b)
  | OR_changed : op_rel_it OChanged OChanged
  | OR_getnode a b : arg_rel a b -> op_rel_it (OGetNode a) (OGetNode b)
  | OR_commit : op_rel_it OCommit OCommit
  | OR_rollback : op_rel_it ORollback ORollback
  | OR_iter : it = true -> op_rel_it OIter OIter.

  Definition spec_rel_it (x y : txnspec) : Prop :=
    x_mode x = x_mode y /\ x_style x = x_style y /\ x_fault x = x_fault y /\ Forall2 op_rel_it (x_ops x) (x_ops y).

  Definition parsed_rel (x y : option rds * list arg) : Prop := fst x = fst y /\ Forall2 arg_rel (snd x) (snd y).

  Lemma rdataset_from_args_rel d a b :
    Forall2 arg_rel a b -> res_rel parsed_rel (rdataset_from_args d a) (rdataset_from_args d b).
  Proof.
    intros F. destruct F as [|x y a b Hxy F]; [destruct d; cbn; [split; cbn; auto|reflexivity]|].
    assert (forall t a1 b1 r1 r2, arg_rel a1 b1 -> Forall2 arg_rel r1 r2 ->
              res_rel parsed_rel
                (match a1 with
                 | ARdata ty body aux cls => Ok (Some (from_rdata t ty body aux cls), r1)
                 | _ => Lib eTypeError
                 end)
                (match b1 with
                 | ARdata ty body aux cls => Ok (Some (from_rdata t ty body aux cls), r2)
                 | _ => Lib eTypeError
                 end)) as K.
    { intros t a1 b1 r1 r2 H1 H2. destruct H1; cbn; auto. split; cbn; auto. }
    destruct Hxy; cbn [rdataset_from_args];
      try (destruct d; cbn; try reflexivity; split; cbn; auto; fail).
    - destruct (to_rdataset r); cbn; auto. split; cbn; auto.
    - destruct d; [cbn; reflexivity|]. cbn [bind].
      destruct (z >? MAX_TTL); [reflexivity|].
      destruct F as [|x2 y2 a2 b2 H2 F2]; [reflexivity|]. cbn [bind]. apply K; auto.
  Qed.

  Definition added_rel (x y : name * rds * list arg) : Prop :=
    E (fst (fst x)) (fst (fst y)) /\ snd (fst x) = snd (fst y) /\ Forall2 arg_rel (snd x) (snd y).

  Lemma add_parse_rel a b r1 r2 :
    arg_rel a b -> Forall2 arg_rel r1 r2 -> res_rel added_rel (add_parse a r1) (add_parse b r2).
  Proof.
    intros H F. unfold add_parse.
    assert (forall n1 n2, E n1 n2 ->
              res_rel added_rel
                (do y <- rdataset_from_args false r1;
                 match fst y with Some r => Ok (n1, r, snd y) | None => Internal eAssertion end)
                (do y <- rdataset_from_args false r2;
                 match fst y with Some r => Ok (n2, r, snd y) | None => Internal eAssertion end)) as K.
    { intros n1 n2 He. pose proof (rdataset_from_args_rel false r1 r2 F) as P.
      destruct (rdataset_from_args false r1) as [[o1 l1]| |], (rdataset_from_args false r2) as [[o2 l2]| |];
        cbn in P |- *; try contradiction; auto.
      destruct P as [P1 P2]. cbn in P1, P2. subst o2. destruct o1; cbn; [|reflexivity].
      unfold added_rel. cbn. auto. }
    destruct H; cbn; auto.
    destruct (to_rdataset r); cbn; auto. unfold added_rel. cbn. auto.
  Qed.
End Rel.

Notation op_rel := (op_rel_it false).
Notation spec_rel := (spec_rel_it false).

Section Sim.
  Context {P1 S1 P2 S2 : Type}.
  Variable st1 : store P1 S1.
  Variable st2 : store P2 S2.
  Variable c1 c2 : cfg.
  Variable E : name -> name -> Prop.
  Variable RS : S1 -> S2 -> Prop.
  Variable RP : P1 -> P2 -> Prop.
  Variable it : bool.

  Hypothesis H_empty : E NameM.empty NameM.empty.
  Hypothesis H_origin : forall n1 n2, E n1 n2 -> origin_ok c1 n1 = origin_ok c2 n2.
  Hypothesis H_begin : forall z1 z2 b, RP z1 z2 -> RS (s_begin st1 z1 b) (s_begin st2 z2 b).
  Hypothesis H_publish : forall s1 s2, RS s1 s2 -> RP (s_publish st1 s1) (s_publish st2 s2).
  Hypothesis H_get : forall s1 s2 n1 n2 ty cov, RS s1 s2 -> E n1 n2 ->
                                               s_get st1 s1 n1 ty cov = s_get st2 s2 n2 ty cov.
  Hypothesis H_get_cls : forall s2 n ty cov r, s_get st2 s2 n ty cov = Ok (Some r) -> r_cls r = cIN.
  Hypothesis H_put : forall s1 s2 n1 n2 r, RS s1 s2 -> E n1 n2 -> r_cls r = cIN ->
                                           res_rel RS (s_put st1 s1 n1 r) (s_put st2 s2 n2 r).
  Hypothesis H_del_name : forall s1 s2 n1 n2, RS s1 s2 -> E n1 n2 ->
                                              res_rel RS (s_del_name st1 s1 n1) (s_del_name st2 s2 n2).
  Hypothesis H_del_rds : forall s1 s2 n1 n2 ty cov, RS s1 s2 -> E n1 n2 ->
                                                    res_rel RS (s_del_rds st1 s1 n1 ty cov) (s_del_rds st2 s2 n2 ty cov).
  Hypothesis H_exists : forall s1 s2 n1 n2, RS s1 s2 -> E n1 n2 -> s_exists st1 s1 n1 = s_exists st2 s2 n2.
  Hypothesis H_node : forall s1 s2 n1 n2, RS s1 s2 -> E n1 n2 -> s_node st1 s1 n1 = s_node st2 s2 n2.
  Hypothesis H_changed : forall s1 s2, RS s1 s2 -> s_changed st1 s1 = s_changed st2 s2.
  Hypothesis H_count : it = true -> forall s1 s2, RS s1 s2 -> s_count st1 s1 = s_count st2 s2.

  Notation arel := (arg_rel E).

  Lemma rds_union_cls e r : r_cls (rds_union e r) = r_cls e.
  Proof.
    unfold rds_union.
    assert (forall l x, r_cls (fold_left rds_add l x) = r_cls x) as K.
    { induction l; cbn; intros; [reflexivity|]. rewrite IHl. reflexivity. }
    rewrite K. unfold update_ttl. destruct (r_items e); [reflexivity|]. destruct (_ <? _); reflexivity.
  Qed.

  Lemma sim_add rep a b s1 s2 :
    RS s1 s2 -> Forall2 arel a b ->
    res_rel RS (hl_add st1 c1 rep a s1) (hl_add st2 c2 rep b s2).
  Proof.
    intros HR F. unfold hl_add. destruct F as [|x y a b Hxy F]; [reflexivity|].
    pose proof (add_parse_rel E x y a b Hxy F) as P.
    destruct (add_parse x a) as [[[n1 r1] l1]|e|e], (add_parse y b) as [[[n2 r2] l2]|e'|e'];
      cbn in P |- *; try contradiction; auto.
    destruct P as (He & Hr & Hl). cbn in He, Hr, Hl. subst r2.
    destruct (r_cls r1 =? cIN) eqn:Ec; cbn [negb]; [|reflexivity]. apply Z.eqb_eq in Ec.
    rewrite (H_origin n1 n2 He).
    destruct ((r_ty r1 =? tSOA) && negb (origin_ok c2 n2)); [reflexivity|].
    destruct Hl; [|reflexivity].
    destruct rep; cbn [bind].
    - apply H_put; auto.
    - rewrite (H_get s1 s2 n1 n2 (r_ty r1) (r_cov r1) HR He).
      destruct (s_get st2 s2 n2 (r_ty r1) (r_cov r1)) as [ex|e|e] eqn:G; cbn [bind]; try reflexivity.
      apply H_put; auto. destruct ex as [e0|]; [|exact Ec].
      apply H_get_cls in G. rewrite rds_union_cls. exact G.
  Qed.

  Lemma sim_delete_common exact n1 n2 ord r1 r2 s1 s2 :
    RS s1 s2 -> E n1 n2 -> Forall2 arel r1 r2 ->
    res_rel RS (hl_delete_common st1 exact n1 ord r1 s1) (hl_delete_common st2 exact n2 ord r2 s2).
  Proof.
    intros HR He F. unfold hl_delete_common. destruct F; [|reflexivity].
    assert (res_rel RS (if exact then do ex <- s_exists st1 s1 n1; if negb ex then Lib eDeleteNotExact else s_del_name st1 s1 n1
                        else s_del_name st1 s1 n1)
                       (if exact then do ex <- s_exists st2 s2 n2; if negb ex then Lib eDeleteNotExact else s_del_name st2 s2 n2
                        else s_del_name st2 s2 n2)) as Kname.
    { destruct exact; [|apply H_del_name; auto].
      rewrite (H_exists s1 s2 n1 n2 HR He). destruct (s_exists st2 s2 n2) as [b|e|e]; cbn [bind]; try reflexivity.
      destruct b; cbn [negb]; [apply H_del_name; auto|reflexivity]. }
    destruct ord as [[cls ty cov ttl items]|]; [|exact Kname].
    destruct items as [|i items]; [exact Kname|].
    destruct (cls =? cIN); cbn [negb]; [|reflexivity].
    rewrite (H_get s1 s2 n1 n2 ty cov HR He).
    destruct (s_get st2 s2 n2 ty cov) as [ex|e|e] eqn:G; cbn [bind]; try reflexivity.
    destruct ex as [e0|]; [|destruct exact; [reflexivity|exact HR]].
    destruct (exact && _); [reflexivity|].
    destruct (r_items (rds_difference e0 _)) eqn:D.
    - apply H_del_rds; auto.
    - apply H_put; auto. apply H_get_cls in G. exact G.
  Qed.

  Lemma make_type_rel a b : arel a b -> make_type a = make_type b.
  Proof. intros H; destruct H; reflexivity. Qed.

  Lemma is_type_arg_rel a b : arel a b -> is_type_arg a = is_type_arg b.
  Proof. intros H; destruct H; reflexivity. Qed.

  Lemma sim_delete_bytype exact n1 n2 t1 t2 r1 r2 s1 s2 :
    RS s1 s2 -> E n1 n2 -> arel t1 t2 -> Forall2 arel r1 r2 ->
    res_rel RS (hl_delete_bytype st1 exact n1 t1 r1 s1) (hl_delete_bytype st2 exact n2 t2 r2 s2).
  Proof.
    intros HR He Ht F. unfold hl_delete_bytype. rewrite (make_type_rel t1 t2 Ht).
    destruct (make_type t2) as [ty|e|e]; cbn [bind]; try reflexivity.
    assert (res_rel (fun x y => fst x = fst y /\ Forall2 arel (snd x) (snd y))
              (match r1 with [] => Ok (0, []) | c0 :: rest2 => do cv <- make_type c0; Ok (cv, rest2) end)
              (match r2 with [] => Ok (0, []) | c0 :: rest2 => do cv <- make_type c0; Ok (cv, rest2) end)) as K.
    { destruct F as [|x y r1 r2 Hxy F]; cbn; [split; cbn; auto|].
      rewrite (make_type_rel x y Hxy). destruct (make_type y); cbn; auto. }
    destruct (match r1 with [] => Ok (0, []) | c0 :: rest2 => do cv <- make_type c0; Ok (cv, rest2) end) as [[cov1 l1]|e|e],
             (match r2 with [] => Ok (0, []) | c0 :: rest2 => do cv <- make_type c0; Ok (cv, rest2) end) as [[cov2 l2]|e'|e'];
      cbn in K |- *; try contradiction; auto.
    destruct K as [K1 K2]. cbn in K1, K2. subst cov2.
    destruct K2; [|reflexivity].
    rewrite (H_get s1 s2 n1 n2 ty cov1 HR He).
    destruct (s_get st2 s2 n2 ty cov1) as [ex|e|e]; cbn [bind]; try reflexivity.
    destruct ex; [apply H_del_rds; auto|destruct exact; [reflexivity|exact HR]].
  Qed.

  Lemma sim_delete exact a b s1 s2 :
    RS s1 s2 -> Forall2 arel a b ->
    res_rel RS (hl_delete st1 exact a s1) (hl_delete st2 exact b s2).
  Proof.
    intros HR F. unfold hl_delete. destruct F as [|x y a b Hxy F]; [reflexivity|].
    assert (forall n1 n2, E n1 n2 ->
              res_rel RS
                (match a with
                 | t :: rest1 =>
                     if is_type_arg t then hl_delete_bytype st1 exact n1 t rest1 s1
                     else do y0 <- rdataset_from_args true a; hl_delete_common st1 exact n1 (fst y0) (snd y0) s1
                 | [] => do y0 <- rdataset_from_args true a; hl_delete_common st1 exact n1 (fst y0) (snd y0) s1
                 end)
                (match b with
                 | t :: rest1 =>
                     if is_type_arg t then hl_delete_bytype st2 exact n2 t rest1 s2
                     else do y0 <- rdataset_from_args true b; hl_delete_common st2 exact n2 (fst y0) (snd y0) s2
                 | [] => do y0 <- rdataset_from_args true b; hl_delete_common st2 exact n2 (fst y0) (snd y0) s2
                 end)) as K.
    { intros n1 n2 He.
      assert (res_rel RS (do y0 <- rdataset_from_args true a; hl_delete_common st1 exact n1 (fst y0) (snd y0) s1)
                         (do y0 <- rdataset_from_args true b; hl_delete_common st2 exact n2 (fst y0) (snd y0) s2)) as Kc.
      { pose proof (rdataset_from_args_rel E true a b F) as P.
        destruct (rdataset_from_args true a) as [[o1 l1]| |], (rdataset_from_args true b) as [[o2 l2]| |];
          cbn in P |- *; try contradiction; auto.
        destruct P as [Q1 Q2]. cbn in Q1, Q2. subst o2. apply sim_delete_common; auto. }
      destruct F as [|t1 t2 a b Ht F]; [exact Kc|].
      rewrite (is_type_arg_rel t1 t2 Ht). destruct (is_type_arg t2); [|exact Kc].
      apply sim_delete_bytype; auto. }
    destruct Hxy; try reflexivity.
    - apply K; auto.
    - apply K; auto.
    - apply sim_delete_common; auto.
  Qed.

  (* ---------------------------------------------------------------- transactions *)
  Definition RT (t1 : txn (S:=S1)) (t2 : txn (S:=S2)) : Prop :=
    RS (t_st t1) (t_st t2) /\ t_ro t1 = t_ro t2 /\ t_ended t1 = t_ended t2.

  Lemma sim_write f1 f2 t1 t2 :
    RT t1 t2 -> (forall s1 s2, RS s1 s2 -> res_rel RS (f1 s1) (f2 s2)) ->
    res_rel RT (hl_write f1 t1) (hl_write f2 t2).
  Proof.
    intros (HR & Hro & Hen) Hf. unfold hl_write. rewrite Hro, Hen.
    destruct (t_ended t2) eqn:Een; [reflexivity|]. destruct (t_ro t2) eqn:Ero; [reflexivity|].
    specialize (Hf _ _ HR). destruct (f1 (t_st t1)), (f2 (t_st t2)); cbn in *; try contradiction; auto.
    unfold RT, with_st. cbn. repeat split; congruence.
  Qed.

  Lemma name_of_arg_rel a b :
    arel a b -> res_rel E (name_of_arg a) (name_of_arg b).
  Proof. intros H; destruct H; cbn; auto. Qed.

  Lemma sim_update_serial value rel a b t1 t2 :
    RT t1 t2 -> oarg_rel E a b ->
    res_rel RT (hl_update_serial st1 c1 value rel a t1) (hl_update_serial st2 c2 value rel b t2).
  Proof.
    intros HT Va. pose proof HT as (HR & Hro & Hen). unfold hl_update_serial. rewrite Hen.
    destruct (t_ended t2); [reflexivity|]. destruct (value <? 0); [reflexivity|].
    assert (res_rel E (match a with None => Ok NameM.empty | Some x => name_of_arg x end)
                      (match b with None => Ok NameM.empty | Some x => name_of_arg x end)) as Kn.
    { destruct a, b; cbn in Va; try contradiction; [apply name_of_arg_rel; auto|exact H_empty]. }
    destruct (match a with None => Ok NameM.empty | Some x => name_of_arg x end) as [n1|e|e],
             (match b with None => Ok NameM.empty | Some x => name_of_arg x end) as [n2|e'|e'];
      cbn in Kn |- *; try contradiction; auto.
    rewrite (H_get _ _ n1 n2 tSOA 0 HR Kn).
    destruct (s_get st2 (t_st t2) n2 tSOA 0) as [ex|e|e]; cbn [bind]; try reflexivity.
    destruct ex as [e0|]; [|reflexivity]. destruct (r_items e0) as [|[body serial] ?]; [reflexivity|].
    destruct (if rel then serial_add serial value else Ok (value mod 4294967296)) as [ser|e|e]; cbn [bind]; try reflexivity.
    apply sim_write; [exact HT|]. intros s1 s2 HR'. apply sim_add; auto.
    constructor; [constructor; exact Kn|constructor; [constructor|constructor]].
  Qed.

  Definition RE (x : P1 * txn (S:=S1)) (y : P2 * txn (S:=S2)) : Prop := RP (fst x) (fst y) /\ RT (snd x) (snd y).

  Lemma sim_end commit z1 z2 t1 t2 :
    RP z1 z2 -> RT t1 t2 -> res_rel RE (hl_end st1 commit z1 t1) (hl_end st2 commit z2 t2).
  Proof.
    intros HP (HR & Hro & Hen). unfold hl_end. rewrite Hen, Hro, (H_changed _ _ HR).
    destruct (t_ended t2); [reflexivity|]. cbn [res_rel]. split; cbn [fst snd].
    - destruct (negb (t_ro t2) && commit && s_changed st2 (t_st t2)); [apply H_publish; exact HR|exact HP].
    - unfold RT. cbn. auto.
  Qed.

  Definition RStep (x : out * P1 * txn (S:=S1)) (y : out * P2 * txn (S:=S2)) : Prop :=
    fst (fst x) = fst (fst y) /\ RP (snd (fst x)) (snd (fst y)) /\ RT (snd x) (snd y).

  Lemma sim_step o1 o2 z1 z2 t1 t2 :
    op_rel_it it E o1 o2 -> RP z1 z2 -> RT t1 t2 -> res_rel RStep (step st1 c1 o1 z1 t1) (step st2 c2 o2 z2 t2).
  Proof.
    intros Vo HP HT. pose proof HT as (HR & Hro & Hen).
    assert (forall (x : res (txn (S:=S1))) (y : res (txn (S:=S2))), res_rel RT x y ->
              res_rel RStep (do t' <- x; Ok (RNone, z1, t')) (do t' <- y; Ok (RNone, z2, t'))) as Kw.
    { intros x y H. destruct x, y; cbn in *; try contradiction; auto. unfold RStep. cbn. auto. }
    assert (forall commit, res_rel RStep (do x <- hl_end st1 commit z1 t1; Ok (RNone, fst x, snd x))
                                         (do x <- hl_end st2 commit z2 t2; Ok (RNone, fst x, snd x))) as Ke.
    { intros commit. pose proof (sim_end commit z1 z2 t1 t2 HP HT) as H.
      destruct (hl_end st1 commit z1 t1), (hl_end st2 commit z2 t2); cbn in *; try contradiction; auto.
      destruct H. unfold RStep. cbn. auto. }
    destruct Vo; cbn [step].
    - apply Kw, sim_write; [exact HT|]. intros; apply sim_add; auto.
    - apply Kw, sim_write; [exact HT|]. intros; apply sim_add; auto.
    - apply Kw, sim_write; [exact HT|]. intros; apply sim_delete; auto.
    - apply Kw, sim_write; [exact HT|]. intros; apply sim_delete; auto.
    - apply Kw, sim_update_serial; auto.
    - rewrite Hen. destruct (t_ended t2); [reflexivity|].
      pose proof (name_of_arg_rel a b H) as Kn.
      destruct (name_of_arg a) as [n1|e|e], (name_of_arg b) as [n2|e'|e']; cbn [bind res_rel] in Kn |- *; try contradiction; auto.
      destruct (make_type (AInt ty)) as [ty'|e|e]; cbn [bind]; try reflexivity.
      destruct (make_type (AInt cov)) as [cov'|e|e]; cbn [bind]; try reflexivity.
      rewrite (H_get _ _ n1 n2 ty' cov' HR Kn).
      destruct (s_get st2 (t_st t2) n2 ty' cov'); cbn [bind]; try reflexivity. unfold RStep. cbn. auto.
    - rewrite Hen. destruct (t_ended t2); [reflexivity|].
      pose proof (name_of_arg_rel a b H) as Kn.
      destruct (name_of_arg a) as [n1|e|e], (name_of_arg b) as [n2|e'|e']; cbn [bind res_rel] in Kn |- *; try contradiction; auto.
      rewrite (H_exists _ _ n1 n2 HR Kn).
      destruct (s_exists st2 (t_st t2) n2); cbn [bind]; try reflexivity. unfold RStep. cbn. auto.
    - rewrite Hen, Hro, (H_changed _ _ HR). destruct (t_ended t2); [reflexivity|]. unfold RStep. cbn. auto.
    - rewrite Hen. destruct (t_ended t2); [reflexivity|].
      pose proof (name_of_arg_rel a b H) as Kn.
      destruct (name_of_arg a) as [n1|e|e], (name_of_arg b) as [n2|e'|e']; cbn [bind res_rel] in Kn |- *; try contradiction; auto.
      rewrite (H_node _ _ n1 n2 HR Kn).
      destruct (s_node st2 (t_st t2) n2); cbn [bind]; try reflexivity. unfold RStep. cbn. auto.
    - apply Ke.
    - apply Ke.
    - rewrite Hen, (H_count H _ _ HR). destruct (t_ended t2); [reflexivity|].
      destruct (s_count st2 (t_st t2)). unfold RStep. cbn. auto.
  Qed.

  Lemma sim_exit clean z1 z2 t1 t2 :
    RP z1 z2 -> RT t1 t2 -> RP (hl_exit st1 clean z1 t1) (hl_exit st2 clean z2 t2).
  Proof.
    intros HP HT. unfold hl_exit. pose proof (sim_end clean z1 z2 t1 t2 HP HT) as H.
    destruct (hl_end st1 clean z1 t1) as [[? ?]| |], (hl_end st2 clean z2 t2) as [[? ?]| |];
      cbn in *; try contradiction; auto. destruct H. auto.
  Qed.

  Definition ROut (x : list (res out) * P1) (y : list (res out) * P2) : Prop :=
    fst x = fst y /\ RP (snd x) (snd y).

  Lemma sim_run_manual ops1 ops2 : Forall2 (op_rel_it it E) ops1 ops2 -> forall z1 z2 t1 t2,
    RP z1 z2 -> RT t1 t2 ->
    ROut (run_manual st1 c1 ops1 z1 t1) (run_manual st2 c2 ops2 z2 t2).
  Proof.
    induction 1 as [|o1 o2 ops1 ops2 Fo Fr IH]; intros z1 z2 t1 t2 HP HT; cbn [run_manual].
    - split; [reflexivity|]. apply sim_exit; auto.
    - pose proof (sim_step o1 o2 z1 z2 t1 t2 Fo HP HT) as H.
      destruct (step st1 c1 o1 z1 t1) as [[[x1 z1'] t1']|e1|e1], (step st2 c2 o2 z2 t2) as [[[x2 z2'] t2']|e2|e2];
        cbn in H; try contradiction.
      + destruct H as (Ho & HP' & HT'). cbn in Ho, HP', HT'. subst x2.
        specialize (IH z1' z2' t1' t2' HP' HT').
        destruct (run_manual st1 c1 ops1 z1' t1'), (run_manual st2 c2 ops2 z2' t2'). destruct IH as [I1 I2].
        cbn in *. split; cbn; [congruence|exact I2].
      + subst e2. specialize (IH z1 z2 t1 t2 HP HT).
        destruct (run_manual st1 c1 ops1 z1 t1), (run_manual st2 c2 ops2 z2 t2). destruct IH as [I1 I2].
        cbn in *. split; cbn; [congruence|exact I2].
      + subst e2. specialize (IH z1 z2 t1 t2 HP HT).
        destruct (run_manual st1 c1 ops1 z1 t1), (run_manual st2 c2 ops2 z2 t2). destruct IH as [I1 I2].
        cbn in *. split; cbn; [congruence|exact I2].
  Qed.

  Lemma sim_run_with ops1 ops2 : Forall2 (op_rel_it it E) ops1 ops2 -> forall fault z1 z2 t1 t2,
    RP z1 z2 -> RT t1 t2 ->
    ROut (run_with st1 c1 ops1 fault z1 t1) (run_with st2 c2 ops2 fault z2 t2).
  Proof.
    induction 1 as [|o1 o2 ops1 ops2 Fo Fr IH]; intros fault z1 z2 t1 t2 HP HT.
    - destruct fault as [[|k]|]; cbn [run_with]; (split; [reflexivity|apply sim_exit; auto]).
    - destruct fault as [[|k]|]; cbn [run_with].
      + split; [reflexivity|apply sim_exit; auto].
      + pose proof (sim_step o1 o2 z1 z2 t1 t2 Fo HP HT) as H.
        destruct (step st1 c1 o1 z1 t1) as [[[x1 z1'] t1']|e1|e1], (step st2 c2 o2 z2 t2) as [[[x2 z2'] t2']|e2|e2];
          cbn in H; try contradiction.
        * destruct H as (Ho & HP' & HT'). cbn in Ho, HP', HT'. subst x2.
          specialize (IH (Some k) z1' z2' t1' t2' HP' HT').
          destruct (run_with st1 c1 ops1 (Some k) z1' t1'), (run_with st2 c2 ops2 (Some k) z2' t2'). destruct IH as [I1 I2].
          cbn in *. split; cbn; [congruence|exact I2].
        * subst e2. split; [reflexivity|apply sim_exit; auto].
        * subst e2. split; [reflexivity|apply sim_exit; auto].
      + pose proof (sim_step o1 o2 z1 z2 t1 t2 Fo HP HT) as H.
        destruct (step st1 c1 o1 z1 t1) as [[[x1 z1'] t1']|e1|e1], (step st2 c2 o2 z2 t2) as [[[x2 z2'] t2']|e2|e2];
          cbn in H; try contradiction.
        * destruct H as (Ho & HP' & HT'). cbn in Ho, HP', HT'. subst x2.
          specialize (IH None z1' z2' t1' t2' HP' HT').
          destruct (run_with st1 c1 ops1 None z1' t1'), (run_with st2 c2 ops2 None z2' t2'). destruct IH as [I1 I2].
          cbn in *. split; cbn; [congruence|exact I2].
        * subst e2. split; [reflexivity|apply sim_exit; auto].
        * subst e2. split; [reflexivity|apply sim_exit; auto].
  Qed.

  Lemma sim_open mode z1 z2 : RP z1 z2 -> RT (open_txn st1 mode z1) (open_txn st2 mode z2).
  Proof.
    intros HP. unfold open_txn. destruct (mode =? 2); unfold RT; cbn; auto.
  Qed.

  Lemma sim_run_txn x y z1 z2 :
    spec_rel_it it E x y -> RP z1 z2 -> ROut (run_txn st1 c1 x z1) (run_txn st2 c2 y z2).
  Proof.
    intros (Hm & Hs & Hf & Ho) HP. unfold run_txn. rewrite Hm, Hs, Hf. destruct (x_style y =? 1).
    - apply sim_run_with; auto. apply sim_open; auto.
    - apply sim_run_manual; auto. apply sim_open; auto.
  Qed.

  Theorem sim_run_hist h1 h2 : Forall2 (spec_rel_it it E) h1 h2 -> forall z1 z2,
    RP z1 z2 ->
    Forall2 ROut (run_hist st1 c1 h1 z1) (run_hist st2 c2 h2 z2).
  Proof.
    induction 1 as [|x y h1 h2 Fx Fh IH]; intros z1 z2 HP; cbn [run_hist]; [constructor|].
    pose proof (sim_run_txn x y z1 z2 Fx HP) as H.
    destruct (run_txn st1 c1 x z1) as [o1 z1'], (run_txn st2 c2 y z2) as [o2 z2'].
    constructor; [exact H|]. apply IH. destruct H. auto.
  Qed.
End Sim.

(* ---------------------------------------------------------------- the diagonal: one list of operations *)
(* the names handed to the transaction are dns.name.Name objects, i.e. within the DNS limits *)
Definition arg_valid (a : arg) : Prop :=
  match a with
  | AName n | AStr n | ARRset n _ => Valid n
  | _ => True
  end.

Definition op_valid (o : op) : Prop :=
  match o with
  | OAdd a | OReplace a | ODelete a | ODeleteExact a => Forall arg_valid a
  | OSerial _ _ (Some a) => arg_valid a
  | OGet a _ _ | OExists a | OGetNode a => arg_valid a
  | OIter => False
  | _ => True
  end.

Definition spec_valid (x : txnspec) : Prop := Forall op_valid (x_ops x).

Definition EV (n1 n2 : name) : Prop := n1 = n2 /\ Valid n1.

Lemma arg_valid_rel a : arg_valid a -> arg_rel EV a a.
Proof. destruct a; cbn; intros H; constructor; split; cbn; auto. Qed.

Lemma args_valid_rel a : Forall arg_valid a -> Forall2 (arg_rel EV) a a.
Proof. induction 1; constructor; auto using arg_valid_rel. Qed.

Lemma op_valid_rel o : op_valid o -> op_rel EV o o.
Proof.
  destruct o; cbn; intros H; try contradiction; constructor; auto using args_valid_rel, arg_valid_rel.
  destruct n; cbn; auto using arg_valid_rel.
Qed.

Lemma spec_valid_rel x : spec_valid x -> spec_rel EV x x.
Proof.
  intros H. repeat split; cbn; auto. induction H; constructor; auto using op_valid_rel.
Qed.

Lemma hist_valid_rel h : Forall spec_valid h -> Forall2 (spec_rel EV) h h.
Proof. induction 1; constructor; auto using spec_valid_rel. Qed.
