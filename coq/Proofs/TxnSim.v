(* C10: the high-level transaction code (dns.transaction.Transaction) preserves any simulation between
   two low-level stores: equal results for every call, related private and published states.
   Generic in the two stores; instantiated in TxnThm.v with the zone version model and the reference store. *)
From DV Require Import Base.Prelude Model.NameM Model.TxnM.
From DV Require Import Proofs.NameValid Proofs.TxnName Proofs.TxnStore.
Open Scope Z_scope.

(* the names handed to the transaction are dns.name.Name objects, i.e. within the DNS limits *)
Definition arg_valid (a : arg) : Prop :=
  match a with
  | AName n | AStr n | ARRset n _ => Valid n
  | _ => True
  end.

(* OIter (counting names / rdatasets of the private state) is outside the simulation: see TxnThm.v *)
Definition op_valid (o : op) : Prop :=
  match o with
  | OAdd a | OReplace a | ODelete a | ODeleteExact a => Forall arg_valid a
  | OSerial _ _ (Some a) => arg_valid a
  | OGet a _ _ | OExists a | OGetNode a => arg_valid a
  | OIter => False
  | _ => True
  end.

Lemma rdataset_from_args_valid d args o rest :
  Forall arg_valid args -> rdataset_from_args d args = Ok (o, rest) -> Forall arg_valid rest.
Proof.
  intros F. unfold rdataset_from_args.
  destruct args as [|a args]; [destruct d; intros H; inversion H; constructor|].
  inversion F as [|? ? Fa Fr]; subst.
  assert (forall (x : res (Z * arg * list arg)),
            (forall t a1 r1, x = Ok (t, a1, r1) -> Forall arg_valid r1) ->
            (do x0 <- x; let '(ttl, a1, rest1) := x0 in
             match a1 with
             | ARdata ty body aux cls => Ok (Some (from_rdata ttl ty body aux cls), rest1)
             | _ => Lib eTypeError
             end) = Ok (o, rest) -> Forall arg_valid rest) as K.
  { intros x Hx. destruct x as [[[t a1] r1]| |]; cbn [bind]; try discriminate.
    destruct a1; try discriminate. intros H; inversion H; subst. eapply Hx; eauto. }
  destruct a; try (apply K; destruct d;
                   [intros ? ? ? H; inversion H; subst; auto
                   |try (intros ? ? ? H; discriminate H)]).
  - intros H; inversion H; subst; auto.
  - destruct (to_rdataset r); cbn [bind]; intros H; inversion H; subst; auto.
  - destruct (z >? MAX_TTL); [intros ? ? ? H; discriminate H|].
    destruct args as [|a2 r2]; intros ? ? ? H; inversion H; subst. inversion Fr; auto.
Qed.

Lemma add_parse_valid a rest n r rest1 :
  Forall arg_valid (a :: rest) -> add_parse a rest = Ok (n, r, rest1) -> Valid n.
Proof.
  intros F. inversion F as [|? ? Fa Fr]; subst. unfold add_parse.
  destruct a; try discriminate.
  - destruct (rdataset_from_args false rest) as [[o r1]| |]; cbn [bind fst snd]; try discriminate.
    destruct o; intros H; inversion H; subst. exact Fa.
  - destruct (rdataset_from_args false rest) as [[o r1]| |]; cbn [bind fst snd]; try discriminate.
    destruct o; intros H; inversion H; subst. exact Fa.
  - destruct (to_rdataset r0); cbn [bind]; intros H; inversion H; subst. exact Fa.
Qed.

Section Sim.
  Context {P1 S1 P2 S2 : Type}.
  Variable st1 : store P1 S1.
  Variable st2 : store P2 S2.
  Variable c : cfg.
  Variable RS : S1 -> S2 -> Prop.
  Variable RP : P1 -> P2 -> Prop.

  Hypothesis H_begin : forall z1 z2 b, RP z1 z2 -> RS (s_begin st1 z1 b) (s_begin st2 z2 b).
  Hypothesis H_publish : forall s1 s2, RS s1 s2 -> RP (s_publish st1 s1) (s_publish st2 s2).
  Hypothesis H_get : forall s1 s2 n ty cov, RS s1 s2 -> Valid n -> s_get st1 s1 n ty cov = s_get st2 s2 n ty cov.
  Hypothesis H_get_cls : forall s2 n ty cov r, s_get st2 s2 n ty cov = Ok (Some r) -> r_cls r = cIN.
  Hypothesis H_put : forall s1 s2 n r, RS s1 s2 -> Valid n -> r_cls r = cIN ->
                                       res_rel RS (s_put st1 s1 n r) (s_put st2 s2 n r).
  Hypothesis H_del_name : forall s1 s2 n, RS s1 s2 -> Valid n ->
                                          res_rel RS (s_del_name st1 s1 n) (s_del_name st2 s2 n).
  Hypothesis H_del_rds : forall s1 s2 n ty cov, RS s1 s2 -> Valid n ->
                                                res_rel RS (s_del_rds st1 s1 n ty cov) (s_del_rds st2 s2 n ty cov).
  Hypothesis H_exists : forall s1 s2 n, RS s1 s2 -> Valid n -> s_exists st1 s1 n = s_exists st2 s2 n.
  Hypothesis H_node : forall s1 s2 n, RS s1 s2 -> Valid n -> s_node st1 s1 n = s_node st2 s2 n.
  Hypothesis H_changed : forall s1 s2, RS s1 s2 -> s_changed st1 s1 = s_changed st2 s2.

  Lemma rr_lib {A B} (R : A -> B -> Prop) e : res_rel R (Lib e) (Lib e).
  Proof. reflexivity. Qed.

  Lemma sim_add rep args s1 s2 :
    RS s1 s2 -> Forall arg_valid args ->
    res_rel RS (hl_add st1 c rep args s1) (hl_add st2 c rep args s2).
  Proof.
    intros HR F. unfold hl_add. destruct args as [|a rest]; [reflexivity|].
    destruct (add_parse a rest) as [[[n r] rest1]|e|e] eqn:Ep; cbn [bind]; try reflexivity.
    pose proof (add_parse_valid a rest n r rest1 F Ep) as Vn.
    destruct (r_cls r =? cIN) eqn:Ec; cbn [negb]; [|reflexivity]. apply Z.eqb_eq in Ec.
    destruct ((r_ty r =? tSOA) && negb (origin_ok c n)); [reflexivity|].
    destruct rest1; [|reflexivity].
    destruct rep; cbn [bind].
    - apply H_put; auto.
    - rewrite (H_get s1 s2 n (r_ty r) (r_cov r) HR Vn).
      destruct (s_get st2 s2 n (r_ty r) (r_cov r)) as [ex|e|e] eqn:G; cbn [bind]; try reflexivity.
      apply H_put; auto. destruct ex as [e0|]; [|exact Ec].
      apply H_get_cls in G. unfold rds_union.
      assert (forall l x, r_cls (fold_left rds_add l x) = r_cls x) as K.
      { induction l; cbn; intros; [reflexivity|]. rewrite IHl. reflexivity. }
      rewrite K. unfold update_ttl. destruct (r_items e0); [exact G|]. destruct (_ <? _); exact G.
  Qed.

  Lemma sim_delete_common exact n ord rest s1 s2 :
    RS s1 s2 -> Valid n ->
    res_rel RS (hl_delete_common st1 exact n ord rest s1) (hl_delete_common st2 exact n ord rest s2).
  Proof.
    intros HR Vn. unfold hl_delete_common. destruct rest; [|reflexivity].
    assert (res_rel RS (if exact then do ex <- s_exists st1 s1 n; if negb ex then Lib eDeleteNotExact else s_del_name st1 s1 n
                        else s_del_name st1 s1 n)
                       (if exact then do ex <- s_exists st2 s2 n; if negb ex then Lib eDeleteNotExact else s_del_name st2 s2 n
                        else s_del_name st2 s2 n)) as Kname.
    { destruct exact; [|apply H_del_name; auto].
      rewrite (H_exists s1 s2 n HR Vn). destruct (s_exists st2 s2 n) as [b|e|e]; cbn [bind]; try reflexivity.
      destruct b; cbn [negb]; [apply H_del_name; auto|reflexivity]. }
    destruct ord as [[cls ty cov ttl items]|]; [|exact Kname].
    destruct items as [|i items]; [exact Kname|].
    destruct (cls =? cIN); cbn [negb]; [|reflexivity].
    rewrite (H_get s1 s2 n ty cov HR Vn).
    destruct (s_get st2 s2 n ty cov) as [ex|e|e] eqn:G; cbn [bind]; try reflexivity.
    destruct ex as [e0|]; [|destruct exact; [reflexivity|exact HR]].
    destruct (exact && _); [reflexivity|].
    destruct (r_items (rds_difference e0 _)) eqn:D.
    - apply H_del_rds; auto.
    - apply H_put; auto. apply H_get_cls in G. exact G.
  Qed.

  Lemma sim_delete exact args s1 s2 :
    RS s1 s2 -> Forall arg_valid args ->
    res_rel RS (hl_delete st1 exact args s1) (hl_delete st2 exact args s2).
  Proof.
    intros HR F. unfold hl_delete. destruct args as [|a rest]; [reflexivity|].
    inversion F as [|? ? Fa Fr]; subst.
    assert (forall n, Valid n ->
              res_rel RS
                (match rest with
                 | (AInt _ | ATyStr _ | AStr _) as t :: rest1 =>
                     do ty <- make_type t;
                     do x <- match rest1 with
                             | [] => Ok (0, [])
                             | c0 :: rest2 => do cv <- make_type c0; Ok (cv, rest2)
                             end;
                     let '(cov, rest2) := x in
                     match rest2 with
                     | _ :: _ => Lib eTypeError
                     | [] =>
                         do ex <- s_get st1 s1 n ty cov;
                         match ex with
                         | None => if exact then Lib eDeleteNotExact else Ok s1
                         | Some _ => s_del_rds st1 s1 n ty cov
                         end
                     end
                 | _ => do y <- rdataset_from_args true rest; hl_delete_common st1 exact n (fst y) (snd y) s1
                 end)
                (match rest with
                 | (AInt _ | ATyStr _ | AStr _) as t :: rest1 =>
                     do ty <- make_type t;
                     do x <- match rest1 with
                             | [] => Ok (0, [])
                             | c0 :: rest2 => do cv <- make_type c0; Ok (cv, rest2)
                             end;
                     let '(cov, rest2) := x in
                     match rest2 with
                     | _ :: _ => Lib eTypeError
                     | [] =>
                         do ex <- s_get st2 s2 n ty cov;
                         match ex with
                         | None => if exact then Lib eDeleteNotExact else Ok s2
                         | Some _ => s_del_rds st2 s2 n ty cov
                         end
                     end
                 | _ => do y <- rdataset_from_args true rest; hl_delete_common st2 exact n (fst y) (snd y) s2
                 end)) as Kn.
    { intros n Vn.
      assert (res_rel RS (do y <- rdataset_from_args true rest; hl_delete_common st1 exact n (fst y) (snd y) s1)
                         (do y <- rdataset_from_args true rest; hl_delete_common st2 exact n (fst y) (snd y) s2)) as Kc.
      { destruct (rdataset_from_args true rest) as [[o r1]| |]; cbn [bind]; try reflexivity.
        apply sim_delete_common; auto. }
      assert (forall t rest1,
                res_rel RS
                  (do ty <- make_type t;
                   do x <- match rest1 with
                           | [] => Ok (0, [])
                           | c0 :: rest2 => do cv <- make_type c0; Ok (cv, rest2)
                           end;
                   let '(cov, rest2) := x in
                   match rest2 with
                   | _ :: _ => Lib eTypeError
                   | [] => do ex <- s_get st1 s1 n ty cov;
                           match ex with
                           | None => if exact then Lib eDeleteNotExact else Ok s1
                           | Some _ => s_del_rds st1 s1 n ty cov
                           end
                   end)
                  (do ty <- make_type t;
                   do x <- match rest1 with
                           | [] => Ok (0, [])
                           | c0 :: rest2 => do cv <- make_type c0; Ok (cv, rest2)
                           end;
                   let '(cov, rest2) := x in
                   match rest2 with
                   | _ :: _ => Lib eTypeError
                   | [] => do ex <- s_get st2 s2 n ty cov;
                           match ex with
                           | None => if exact then Lib eDeleteNotExact else Ok s2
                           | Some _ => s_del_rds st2 s2 n ty cov
                           end
                   end)) as Kt.
      { intros t rest1. destruct (make_type t) as [ty|e|e]; cbn [bind]; try reflexivity.
        destruct (match rest1 with
                  | [] => Ok (0, [])
                  | c0 :: rest2 => do cv <- make_type c0; Ok (cv, rest2)
                  end) as [[cov rest2]|e|e]; cbn [bind]; try reflexivity.
        destruct rest2; [|reflexivity].
        rewrite (H_get s1 s2 n ty cov HR Vn).
        destruct (s_get st2 s2 n ty cov) as [ex|e|e]; cbn [bind]; try reflexivity.
        destruct ex; [apply H_del_rds; auto|destruct exact; [reflexivity|exact HR]]. }
      destruct rest as [|t rest1]; [exact Kc|].
      destruct t; try exact Kc; apply Kt. }
    destruct a; try reflexivity.
    - apply Kn. exact Fa.
    - apply Kn. exact Fa.
    - apply sim_delete_common; auto.
  Qed.

  (* ---------------------------------------------------------------- transactions *)
  Definition RT (t1 : txn (S:=S1)) (t2 : txn (S:=S2)) : Prop :=
    RS (t_st t1) (t_st t2) /\ t_ro t1 = t_ro t2 /\ t_ended t1 = t_ended t2.

  Lemma sim_write f1 f2 t1 t2 :
    RT t1 t2 -> (forall s1 s2, RS s1 s2 -> res_rel RS (f1 s1) (f2 s2)) ->
    res_rel RT (hl_write f1 t1) (hl_write f2 t2).
  Proof.
    intros (HR & Hro & Hen) Hf. unfold hl_write. rewrite Hro, Hen.
    destruct (t_ended t2) eqn:Een; [reflexivity|]. destruct (t_ro t2) eqn:Ero; [reflexivity|].
    specialize (Hf _ _ HR). destruct (f1 (t_st t1)), (f2 (t_st t2)); cbn in *; try contradiction; auto.
    unfold RT, with_st. cbn. repeat split; congruence.
  Qed.

  Lemma name_of_arg_valid a n : arg_valid a -> name_of_arg a = Ok n -> Valid n.
  Proof. destruct a; cbn; intros V H; inversion H; subst; auto. Qed.

  Lemma sim_update_serial value rel nm t1 t2 :
    RT t1 t2 -> match nm with Some a => arg_valid a | None => True end ->
    res_rel RT (hl_update_serial st1 c value rel nm t1) (hl_update_serial st2 c value rel nm t2).
  Proof.
    intros HT Va. pose proof HT as (HR & Hro & Hen). unfold hl_update_serial. rewrite Hen.
    destruct (t_ended t2); [reflexivity|]. destruct (value <? 0); [reflexivity|].
    destruct (match nm with None => Ok NameM.empty | Some a => name_of_arg a end) as [n|e|e] eqn:En;
      cbn [bind]; try reflexivity.
    assert (Valid n) as Vn.
    { destruct nm as [a|]; [eapply name_of_arg_valid; eauto|]. inversion En; subst. apply Valid_nil. }
    rewrite (H_get _ _ n tSOA 0 HR Vn).
    destruct (s_get st2 (t_st t2) n tSOA 0) as [ex|e|e]; cbn [bind]; try reflexivity.
    destruct ex as [e0|]; [|reflexivity]. destruct (r_items e0) as [|[body serial] ?]; [reflexivity|].
    destruct (if rel then serial_add serial value else Ok (value mod 4294967296)) as [ser|e|e]; cbn [bind]; try reflexivity.
    apply sim_write; [exact HT|]. intros s1 s2 HR'. apply sim_add; auto.
    constructor; [exact Vn|constructor; [exact Logic.I|constructor]].
  Qed.

  Definition RE (x : P1 * txn (S:=S1)) (y : P2 * txn (S:=S2)) : Prop := RP (fst x) (fst y) /\ RT (snd x) (snd y).

  Lemma sim_end commit z1 z2 t1 t2 :
    RP z1 z2 -> RT t1 t2 -> res_rel RE (hl_end st1 commit z1 t1) (hl_end st2 commit z2 t2).
  Proof.
    intros HP (HR & Hro & Hen). unfold hl_end. rewrite Hen, Hro, (H_changed _ _ HR).
    destruct (t_ended t2); [reflexivity|]. cbn [res_rel]. split; cbn [fst snd].
    - destruct (negb (t_ro t2) && commit && s_changed st2 (t_st t2)); [apply H_publish; exact HR|exact HP].
    - unfold RT. cbn. auto.
  Qed.

  Definition RStep (x : out * P1 * txn (S:=S1)) (y : out * P2 * txn (S:=S2)) : Prop :=
    fst (fst x) = fst (fst y) /\ RP (snd (fst x)) (snd (fst y)) /\ RT (snd x) (snd y).

  Lemma sim_step o z1 z2 t1 t2 :
    op_valid o -> RP z1 z2 -> RT t1 t2 -> res_rel RStep (step st1 c o z1 t1) (step st2 c o z2 t2).
  Proof.
    intros Vo HP HT. pose proof HT as (HR & Hro & Hen).
    assert (forall (x : res (txn (S:=S1))) (y : res (txn (S:=S2))), res_rel RT x y ->
              res_rel RStep (do t' <- x; Ok (RNone, z1, t')) (do t' <- y; Ok (RNone, z2, t'))) as Kw.
    { intros x y H. destruct x, y; cbn in *; try contradiction; auto. unfold RStep. cbn. auto. }
    assert (forall commit, res_rel RStep (do x <- hl_end st1 commit z1 t1; Ok (RNone, fst x, snd x))
                                         (do x <- hl_end st2 commit z2 t2; Ok (RNone, fst x, snd x))) as Ke.
    { intros commit. pose proof (sim_end commit z1 z2 t1 t2 HP HT) as H.
      destruct (hl_end st1 commit z1 t1), (hl_end st2 commit z2 t2); cbn in *; try contradiction; auto.
      destruct H. unfold RStep. cbn. auto. }
    destruct o; cbn [step op_valid] in *.
    - apply Kw, sim_write; [exact HT|]. intros; apply sim_add; auto.
    - apply Kw, sim_write; [exact HT|]. intros; apply sim_add; auto.
    - apply Kw, sim_write; [exact HT|]. intros; apply sim_delete; auto.
    - apply Kw, sim_write; [exact HT|]. intros; apply sim_delete; auto.
    - apply Kw, sim_update_serial; auto.
    - rewrite Hen. destruct (t_ended t2); [reflexivity|].
      destruct (name_of_arg n) as [n0|e|e] eqn:En; cbn [bind]; try reflexivity.
      destruct (make_type (AInt ty)) as [ty'|e|e]; cbn [bind]; try reflexivity.
      destruct (make_type (AInt cov)) as [cov'|e|e]; cbn [bind]; try reflexivity.
      rewrite (H_get _ _ n0 ty' cov' HR (name_of_arg_valid _ _ Vo En)).
      destruct (s_get st2 (t_st t2) n0 ty' cov'); cbn [bind]; try reflexivity. unfold RStep. cbn. auto.
    - rewrite Hen. destruct (t_ended t2); [reflexivity|].
      destruct (name_of_arg n) as [n0|e|e] eqn:En; cbn [bind]; try reflexivity.
      rewrite (H_exists _ _ n0 HR (name_of_arg_valid _ _ Vo En)).
      destruct (s_exists st2 (t_st t2) n0); cbn [bind]; try reflexivity. unfold RStep. cbn. auto.
    - rewrite Hen, Hro, (H_changed _ _ HR). destruct (t_ended t2); [reflexivity|]. unfold RStep. cbn. auto.
    - contradiction.
    - rewrite Hen. destruct (t_ended t2); [reflexivity|].
      destruct (name_of_arg n) as [n0|e|e] eqn:En; cbn [bind]; try reflexivity.
      rewrite (H_node _ _ n0 HR (name_of_arg_valid _ _ Vo En)).
      destruct (s_node st2 (t_st t2) n0); cbn [bind]; try reflexivity. unfold RStep. cbn. auto.
    - apply Ke.
    - apply Ke.
  Qed.

  Lemma sim_exit clean z1 z2 t1 t2 :
    RP z1 z2 -> RT t1 t2 -> RP (hl_exit st1 clean z1 t1) (hl_exit st2 clean z2 t2).
  Proof.
    intros HP HT. unfold hl_exit. pose proof (sim_end clean z1 z2 t1 t2 HP HT) as H.
    destruct (hl_end st1 clean z1 t1) as [[? ?]| |], (hl_end st2 clean z2 t2) as [[? ?]| |];
      cbn in *; try contradiction; auto. destruct H. auto.
  Qed.

  Definition ROut (x : list (res out) * P1) (y : list (res out) * P2) : Prop :=
    fst x = fst y /\ RP (snd x) (snd y).

  Lemma sim_run_manual ops : forall z1 z2 t1 t2,
    Forall op_valid ops -> RP z1 z2 -> RT t1 t2 ->
    ROut (run_manual st1 c ops z1 t1) (run_manual st2 c ops z2 t2).
  Proof.
    induction ops as [|o ops IH]; intros z1 z2 t1 t2 F HP HT; cbn [run_manual].
    - split; [reflexivity|]. apply sim_exit; auto.
    - inversion F as [|? ? Fo Fr]; subst.
      pose proof (sim_step o z1 z2 t1 t2 Fo HP HT) as H.
      destruct (step st1 c o z1 t1) as [[[x1 z1'] t1']|e1|e1], (step st2 c o z2 t2) as [[[x2 z2'] t2']|e2|e2];
        cbn in H; try contradiction.
      + destruct H as (Ho & HP' & HT'). cbn in Ho, HP', HT'. subst x2.
        specialize (IH z1' z2' t1' t2' Fr HP' HT').
        destruct (run_manual st1 c ops z1' t1'), (run_manual st2 c ops z2' t2'). destruct IH as [I1 I2].
        cbn in *. split; cbn; [congruence|exact I2].
      + subst e2. specialize (IH z1 z2 t1 t2 Fr HP HT).
        destruct (run_manual st1 c ops z1 t1), (run_manual st2 c ops z2 t2). destruct IH as [I1 I2].
        cbn in *. split; cbn; [congruence|exact I2].
      + subst e2. specialize (IH z1 z2 t1 t2 Fr HP HT).
        destruct (run_manual st1 c ops z1 t1), (run_manual st2 c ops z2 t2). destruct IH as [I1 I2].
        cbn in *. split; cbn; [congruence|exact I2].
  Qed.

  Lemma sim_run_with ops : forall fault z1 z2 t1 t2,
    Forall op_valid ops -> RP z1 z2 -> RT t1 t2 ->
    ROut (run_with st1 c ops fault z1 t1) (run_with st2 c ops fault z2 t2).
  Proof.
    induction ops as [|o ops IH]; intros fault z1 z2 t1 t2 F HP HT.
    - destruct fault as [[|k]|]; cbn [run_with]; (split; [reflexivity|apply sim_exit; auto]).
    - destruct fault as [[|k]|]; cbn [run_with].
      + split; [reflexivity|apply sim_exit; auto].
      + inversion F as [|? ? Fo Fr]; subst.
        pose proof (sim_step o z1 z2 t1 t2 Fo HP HT) as H.
        destruct (step st1 c o z1 t1) as [[[x1 z1'] t1']|e1|e1], (step st2 c o z2 t2) as [[[x2 z2'] t2']|e2|e2];
          cbn in H; try contradiction.
        * destruct H as (Ho & HP' & HT'). cbn in Ho, HP', HT'. subst x2.
          specialize (IH (Some k) z1' z2' t1' t2' Fr HP' HT').
          destruct (run_with st1 c ops (Some k) z1' t1'), (run_with st2 c ops (Some k) z2' t2'). destruct IH as [I1 I2].
          cbn in *. split; cbn; [congruence|exact I2].
        * subst e2. split; [reflexivity|apply sim_exit; auto].
        * subst e2. split; [reflexivity|apply sim_exit; auto].
      + inversion F as [|? ? Fo Fr]; subst.
        pose proof (sim_step o z1 z2 t1 t2 Fo HP HT) as H.
        destruct (step st1 c o z1 t1) as [[[x1 z1'] t1']|e1|e1], (step st2 c o z2 t2) as [[[x2 z2'] t2']|e2|e2];
          cbn in H; try contradiction.
        * destruct H as (Ho & HP' & HT'). cbn in Ho, HP', HT'. subst x2.
          specialize (IH None z1' z2' t1' t2' Fr HP' HT').
          destruct (run_with st1 c ops None z1' t1'), (run_with st2 c ops None z2' t2'). destruct IH as [I1 I2].
          cbn in *. split; cbn; [congruence|exact I2].
        * subst e2. split; [reflexivity|apply sim_exit; auto].
        * subst e2. split; [reflexivity|apply sim_exit; auto].
  Qed.

  Definition spec_valid (x : txnspec) : Prop := Forall op_valid (x_ops x).

  Lemma sim_open mode z1 z2 : RP z1 z2 -> RT (open_txn st1 mode z1) (open_txn st2 mode z2).
  Proof.
    intros HP. unfold open_txn. destruct (mode =? 2); unfold RT; cbn; auto.
  Qed.

  Lemma sim_run_txn x z1 z2 :
    spec_valid x -> RP z1 z2 -> ROut (run_txn st1 c x z1) (run_txn st2 c x z2).
  Proof.
    intros V HP. unfold run_txn. destruct (x_style x =? 1).
    - apply sim_run_with; auto. apply sim_open; auto.
    - apply sim_run_manual; auto. apply sim_open; auto.
  Qed.

  Theorem sim_run_hist h : forall z1 z2,
    Forall spec_valid h -> RP z1 z2 ->
    Forall2 ROut (run_hist st1 c h z1) (run_hist st2 c h z2).
  Proof.
    induction h as [|x h IH]; intros z1 z2 F HP; cbn [run_hist]; [constructor|].
    inversion F as [|? ? Fx Fh]; subst.
    pose proof (sim_run_txn x z1 z2 Fx HP) as H.
    destruct (run_txn st1 c x z1) as [o1 z1'], (run_txn st2 c x z2) as [o2 z2'].
    constructor; [exact H|]. apply IH; [exact Fh|]. destruct H. auto.
  Qed.
End Sim.
