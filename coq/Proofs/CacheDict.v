(* C17 - lemmas about the insertion-ordered dict (dget/dset/ddel) and the list-level LRU
   specification (afind/aremove/atrim), plus the zipped (node id, entry) lists used by the
   refinement relation. *)
From DV Require Import Base.Prelude Model.CacheM.

(* ------------------------------------------------------------------ dict *)
Section Dict.
Context {V : Type}.
Implicit Types d : list (Z * V).

Lemma dget_dset : forall d k v k', dget (dset d k v) k' = if k =? k' then Some v else dget d k'.
Proof.
  induction d as [|[x w] d IH]; intros k v k'; cbn.
  - destruct (k =? k'); reflexivity.
  - destruct (x =? k) eqn:E1; cbn.
    + apply Z.eqb_eq in E1; subst x. destruct (k =? k'); reflexivity.
    + rewrite IH. destruct (x =? k') eqn:E2; [|reflexivity].
      apply Z.eqb_eq in E2; subst x. rewrite Z.eqb_sym, E1. reflexivity.
Qed.

Lemma dget_in : forall d k, dget d k <> None <-> In k (dkeys d).
Proof.
  unfold dkeys. induction d as [|[x w] d IH]; intros k; cbn.
  - split; [congruence|tauto].
  - destruct (x =? k) eqn:E.
    + apply Z.eqb_eq in E. split; [auto|discriminate].
    + apply Z.eqb_neq in E. rewrite IH. split; [auto|]. intros [H|H]; [congruence|auto].
Qed.

Lemma dget_none_notin : forall d k, dget d k = None -> ~ In k (dkeys d).
Proof. intros d k H Hin. apply dget_in in Hin. congruence. Qed.

Lemma dkeys_dset : forall d k v x, In x (dkeys (dset d k v)) <-> x = k \/ In x (dkeys d).
Proof.
  unfold dkeys. induction d as [|[y w] d IH]; intros k v x; cbn.
  - intuition.
  - destruct (y =? k) eqn:E; cbn.
    + apply Z.eqb_eq in E; subst y. intuition.
    + rewrite IH. intuition.
Qed.

Lemma nodup_dset : forall d k v, NoDup (dkeys d) -> NoDup (dkeys (dset d k v)).
Proof.
  pose proof dkeys_dset as DK. unfold dkeys in *.
  induction d as [|[y w] d IH]; intros k v H; cbn.
  - constructor; [tauto|constructor].
  - cbn in H. apply NoDup_cons_iff in H. destruct H as [H1 H2].
    destruct (y =? k) eqn:E; cbn.
    + apply Z.eqb_eq in E; subst y. constructor; auto.
    + apply Z.eqb_neq in E. constructor; [|apply IH; auto].
      rewrite DK. intros [->|H]; [congruence|auto].
Qed.

Lemma length_dset_new : forall d k v, dget d k = None -> length (dset d k v) = S (length d).
Proof.
  induction d as [|[y w] d IH]; intros k v H; cbn in *; [reflexivity|].
  destruct (y =? k); [discriminate|]. cbn. rewrite IH; auto.
Qed.

Lemma ddel_some : forall d k v, dget d k = Some v -> exists d', ddel d k = Some d'.
Proof.
  induction d as [|[y w] d IH]; intros k v H; cbn in *; [discriminate|].
  destruct (y =? k); [eauto|]. destruct (IH _ _ H) as [d' ->]. eauto.
Qed.

Lemma ddel_none : forall d k, dget d k = None -> ddel d k = None.
Proof.
  induction d as [|[y w] d IH]; intros k H; cbn in *; [reflexivity|].
  destruct (y =? k); [discriminate|]. rewrite IH; auto.
Qed.

Lemma ddel_spec : forall d k d', ddel d k = Some d' -> NoDup (dkeys d) ->
  (forall k', dget d' k' = if k =? k' then None else dget d k') /\
  NoDup (dkeys d') /\ length d = S (length d') /\ (forall x, In x (dkeys d') -> In x (dkeys d)).
Proof.
  pose proof dget_in as DI. unfold dkeys in *.
  induction d as [|[y w] d IH]; intros k d' H Hnd; cbn in *; [discriminate|].
  apply NoDup_cons_iff in Hnd. destruct Hnd as [Hy Hnd].
  destruct (y =? k) eqn:E.
  - apply Z.eqb_eq in E; subst y. injection H as Hd; subst d'. repeat split; auto.
    intros k'. destruct (k =? k') eqn:E2; [|reflexivity].
    apply Z.eqb_eq in E2; subst k'. destruct (dget d k) eqn:E3; [|reflexivity].
    exfalso. apply Hy. apply DI. congruence.
  - destruct (ddel d k) as [r|] eqn:Er; [|discriminate]. injection H as Hd; subst d'.
    destruct (IH _ _ Er Hnd) as [A [B [C D]]]. cbn. repeat split.
    + intros k'. destruct (y =? k') eqn:E2.
      * apply Z.eqb_eq in E2; subst k'. rewrite Z.eqb_sym, E. reflexivity.
      * apply A.
    + constructor; auto.
    + lia.
    + intros x [->|Hx]; auto.
Qed.
End Dict.

(* ------------------------------------------------------------------ zipped (id, entry) lists *)
Definition zent := (nat * aent)%type.
Definition zkey (z : zent) : Z := e_key (snd z).

Fixpoint zfind (k : Z) (zs : list zent) : option zent :=
  match zs with
  | [] => None
  | z :: r => if zkey z =? k then Some z else zfind k r
  end.

Lemma afind_zfind : forall zs k, afind (map snd zs) k = option_map snd (zfind k zs).
Proof.
  induction zs as [|z zs IH]; intros k; cbn; [reflexivity|].
  unfold zkey. destruct (e_key (snd z) =? k); [reflexivity|apply IH].
Qed.

Lemma zfind_split : forall zs k z, zfind k zs = Some z ->
  exists z1 z2, zs = z1 ++ z :: z2 /\ zkey z = k /\ zfind k z1 = None.
Proof.
  induction zs as [|y zs IH]; intros k z H; cbn in H; [discriminate|].
  destruct (zkey y =? k) eqn:E.
  - inversion H; subst y. exists [], zs. apply Z.eqb_eq in E. auto.
  - destruct (IH _ _ H) as [z1 [z2 [-> [A B]]]]. exists (y :: z1), z2. cbn. rewrite E. auto.
Qed.

Lemma zfind_none_notin : forall zs k, zfind k zs = None <-> ~ In k (map zkey zs).
Proof.
  induction zs as [|y zs IH]; intros k; cbn; [tauto|].
  destruct (zkey y =? k) eqn:E.
  - apply Z.eqb_eq in E. split; [discriminate|tauto].
  - apply Z.eqb_neq in E. rewrite IH. tauto.
Qed.

Lemma zfind_app_none : forall z1 z2 k, zfind k z1 = None -> zfind k (z1 ++ z2) = zfind k z2.
Proof.
  induction z1 as [|y z1 IH]; intros z2 k H; cbn in *; [reflexivity|].
  destruct (zkey y =? k); [discriminate|auto].
Qed.

Lemma zfind_app_some : forall z1 z2 k z, zfind k z1 = Some z -> zfind k (z1 ++ z2) = Some z.
Proof.
  induction z1 as [|y z1 IH]; intros z2 k z H; cbn in *; [discriminate|].
  destruct (zkey y =? k); auto.
Qed.

(* removing the (unique) entry of key k *)
Lemma zfind_remove : forall z1 z z2 k',
  NoDup (map zkey (z1 ++ z :: z2)) ->
  zfind k' (z1 ++ z2) = if zkey z =? k' then None else zfind k' (z1 ++ z :: z2).
Proof.
  intros z1 z z2 k' Hnd.
  rewrite map_app in Hnd. cbn in Hnd.
  destruct (zkey z =? k') eqn:E.
  - apply Z.eqb_eq in E. subst k'. apply NoDup_remove_2 in Hnd.
    apply zfind_none_notin. rewrite map_app. exact Hnd.
  - destruct (zfind k' z1) as [w|] eqn:E1.
    + rewrite !(zfind_app_some _ _ _ _ E1). reflexivity.
    + rewrite !zfind_app_none by auto. cbn. rewrite E. reflexivity.
Qed.

Lemma aremove_split : forall z1 z z2,
  zfind (zkey z) z1 = None ->
  aremove (map snd (z1 ++ z :: z2)) (zkey z) = map snd (z1 ++ z2).
Proof.
  induction z1 as [|y z1 IH]; intros z z2 H; cbn in *.
  - unfold zkey. rewrite Z.eqb_refl. reflexivity.
  - fold (zkey y). destruct (zkey y =? zkey z) eqn:E; [discriminate|]. rewrite IH; auto.
Qed.

Lemma aremove_absent : forall l k, afind l k = None -> aremove l k = l.
Proof.
  induction l as [|e l IH]; intros k H; cbn in *; [reflexivity|].
  destruct (e_key e =? k); [discriminate|]. rewrite IH; auto.
Qed.

(* ------------------------------------------------------------------ list-level invariants *)
Definition akeys (l : list aent) : list Z := map e_key l.

Lemma akeys_aremove_incl : forall l k x, In x (akeys (aremove l k)) -> In x (akeys l).
Proof.
  induction l as [|e l IH]; intros k x H; cbn in *; [auto|].
  destruct (e_key e =? k); cbn in *; [auto|]. destruct H; eauto.
Qed.

Lemma nodup_aremove : forall l k, NoDup (akeys l) -> NoDup (akeys (aremove l k)).
Proof.
  induction l as [|e l IH]; intros k H; cbn in *; [constructor|].
  apply NoDup_cons_iff in H. destruct H as [H1 H2].
  destruct (e_key e =? k); [auto|]. cbn. constructor; [|auto].
  intros Hin. apply H1. eapply akeys_aremove_incl; eauto.
Qed.

Lemma aremove_notin : forall l k, NoDup (akeys l) -> ~ In k (akeys (aremove l k)).
Proof.
  induction l as [|e l IH]; intros k H; cbn in *; [tauto|].
  apply NoDup_cons_iff in H. destruct H as [H1 H2].
  destruct (e_key e =? k) eqn:E.
  - apply Z.eqb_eq in E; subst k. auto.
  - apply Z.eqb_neq in E. cbn. intros [H|H]; [auto|]. eapply IH; eauto.
Qed.

Lemma afind_in : forall l k, afind l k <> None <-> In k (akeys l).
Proof.
  induction l as [|e l IH]; intros k; cbn; [split; [congruence|tauto]|].
  destruct (e_key e =? k) eqn:E.
  - apply Z.eqb_eq in E. split; [auto|discriminate].
  - apply Z.eqb_neq in E. rewrite IH. split; [auto|]. intros [H|H]; [congruence|auto].
Qed.

Lemma afind_key : forall l k e, afind l k = Some e -> e_key e = k /\ In e l.
Proof.
  induction l as [|x l IH]; intros k e H; cbn in *; [discriminate|].
  destruct (e_key x =? k) eqn:E.
  - inversion H; subst. apply Z.eqb_eq in E. auto.
  - destruct (IH _ _ H); auto.
Qed.

Lemma afind_aremove : forall l k k', NoDup (akeys l) ->
  afind (aremove l k) k' = if k =? k' then None else afind l k'.
Proof.
  induction l as [|e l IH]; intros k k' H; cbn in *.
  - destruct (k =? k'); reflexivity.
  - apply NoDup_cons_iff in H. destruct H as [H1 H2].
    destruct (e_key e =? k) eqn:E.
    + apply Z.eqb_eq in E; subst k. destruct (e_key e =? k') eqn:E2; [|reflexivity].
      apply Z.eqb_eq in E2; subst k'. destruct (afind l (e_key e)) eqn:E3; [|reflexivity].
      exfalso. apply H1. apply afind_in. congruence.
    + cbn. rewrite IH by auto. destruct (e_key e =? k') eqn:E2; [|reflexivity].
      apply Z.eqb_eq in E2; subst k'. rewrite Z.eqb_sym, E. reflexivity.
Qed.

Lemma in_firstn : forall {A} n (l : list A) x, In x (firstn n l) -> In x l.
Proof.
  intros A n. induction n as [|n IH]; intros l x H; cbn in H; [destruct H|].
  destruct l as [|y l]; [destruct H|]. destruct H as [H|H]; [left; auto|right; auto].
Qed.

Lemma nodup_firstn : forall {A} n (l : list A), NoDup l -> NoDup (firstn n l).
Proof.
  intros A n. induction n as [|n IH]; intros l H; cbn; [constructor|].
  destruct l as [|x l]; [constructor|]. apply NoDup_cons_iff in H. destruct H as [H1 H2].
  constructor; [|auto]. intros Hin. apply H1. eapply in_firstn. exact Hin.
Qed.
