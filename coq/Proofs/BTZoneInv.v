(* C20, layer D2: the invariant "derived state = specification of the content" and the facts
   about the delegation index that follow from it. *)
From DV Require Import Base.Prelude Model.NameM Model.BTZoneM
     Proofs.BTZoneOrder Proofs.BTZoneList Proofs.BTZoneSpec Proofs.BTZoneWalk.
Open Scope Z_scope.

Definition key_eq_dec : forall a b : key, {a = b} + {a <> b} := list_eq_dec (list_eq_dec Z.eq_dec).

(* ---------- the apex ---------- *)
Definition apexname (c : cfg) : name := if c_rel c then empty else c_origin c.
Definition apexkey (c : cfg) : key := K (apexname c).

Lemma is_apex_key : forall c n, is_apex c n = true <-> K n = apexkey c.
Proof. intros. unfold is_apex, apexkey, apexname. destruct (c_rel c); apply name_eqb_ekey. Qed.

Lemma is_apex_false_key : forall c n, is_apex c n = false <-> K n <> apexkey c.
Proof. intros. rewrite <- is_apex_key. destruct (is_apex c n); split; congruence. Qed.

Lemma is_origin_apex : forall c n, is_origin c n = is_apex c n.
Proof. reflexivity. Qed.

(* names handed to a version are at or beneath the apex (dns.zone._validate_name) *)
Definition validk (c : cfg) (k : key) : Prop := below k (apexkey c).

Lemma valid_sbelow_not_apex : forall c k n, validk c n -> sbelow k n -> k <> apexkey c.
Proof.
  intros c k n Hv Hs ->. eapply sbelow_irrefl. eapply sbelow_below_trans; eauto.
Qed.

(* ---------- the invariant ---------- *)
Record Inv (c : cfg) (v : ver) : Prop := {
  inv_sn : sorted (v_nodes v);
  inv_sd : sorted (v_delegs v);
  inv_v : forall k, In k (keys (v_nodes v)) -> validk c k;
  inv_nd : forall n nd, In (n, nd) (v_nodes v) -> NoDup (map fst (nrds nd));
  inv_f : forall n nd, In (n, nd) (v_nodes v) -> nflags nd = flags_of c (v_nodes v) (n, nd);
  inv_d : forall k, In k (keys (v_delegs v)) <-> (owner c (v_nodes v) k /\ ~ occk c (v_nodes v) k) }.

Lemma owner_unfold : forall c l k,
    owner c l k <-> exists m nd, In (m, nd) l /\ K m = k /\ has_ns nd = true /\ k <> apexkey c.
Proof.
  intros. unfold owner, ns_owner. cbn [fst snd]. split.
  - intros (m & nd & Hin & H & E). apply andb_true_iff in H as [H1 H2]. apply negb_true_iff in H2.
    apply is_apex_false_key in H2. exists m, nd. subst k. auto.
  - intros (m & nd & Hin & E & H1 & H2). exists m, nd. subst k. repeat split; auto.
    apply andb_true_iff. split; auto. apply negb_true_iff, is_apex_false_key; auto.
Qed.

(* ---------- describing a new node list relative to an old one ----------
   every entry whose key is not K n is kept with its value transformed by tr (which keeps the
   rdatasets); the entry at K n is en (None: no such entry) *)
Definition Desc (l l' : nodes_t) (n : name) (en : option (name * node)) (tr : name -> node -> node) : Prop :=
  forall k' nd', In (k', nd') l' <->
                 ((K k' <> K n /\ exists nd, In (k', nd) l /\ nd' = tr k' nd) \/
                  (en = Some (k', nd') /\ K k' = K n)).

Lemma Desc_owner : forall c l l' n en tr,
    Desc l l' n en tr -> (forall k nd, nrds (tr k nd) = nrds nd) ->
    forall k, owner c l' k <->
              ((k <> K n /\ owner c l k) \/
               (k = K n /\ exists e, en = Some e /\ K (fst e) = K n /\ ns_owner c e = true)).
Proof.
  intros c l l' n en tr D Htr k. unfold owner. split.
  - intros (m & nd & Hin & Hns & E). apply D in Hin as [[Hk (nd0 & Hin & ->)]|[He Hk]].
    + left. split; [congruence|]. exists m, nd0. repeat split; auto.
      unfold ns_owner, has_ns in *. cbn [fst snd] in *. rewrite Htr in Hns. auto.
    + right. split; [congruence|]. exists (m, nd). auto.
  - intros [[Hk (m & nd & Hin & Hns & E)]|[Hk ([m nd] & He & Hke & Hns)]].
    + exists m, (tr m nd). repeat split; auto.
      * apply D. left. split; [congruence|]. eauto.
      * unfold ns_owner, has_ns in *. cbn [fst snd] in *. rewrite Htr. auto.
    + exists m, nd. repeat split; auto. apply D. right. auto. cbn in Hke. congruence.
Qed.

Lemma Desc_keys : forall l l' n en tr, Desc l l' n en tr ->
    forall k, In k (keys l') <-> ((k <> K n /\ In k (keys l)) \/ (k = K n /\ exists e, en = Some e /\ K (fst e) = K n)).
Proof.
  intros l l' n en tr D k. split.
  - intros H. apply keys_in in H as (k' & nd' & Hin & <-). apply D in Hin as [[Hk (nd & Hin & _)]|[He Hk]].
    + left. split; auto. eapply in_keys; eauto.
    + right. split; auto. exists (k', nd'). auto.
  - intros [[Hk H]|[Hk ([m nd] & He & Hke)]].
    + apply keys_in in H as (k' & nd & Hin & <-). apply (in_keys _ k' (tr k' nd)). apply D. left. eauto.
    + subst k. cbn in Hke. rewrite <- Hke. apply (in_keys _ m nd). apply D. right. auto.
Qed.

(* ---------- set reasoning about "occluded" when the owner set changes ---------- *)
Definition occP (O : key -> Prop) (k : key) : Prop := exists o, O o /\ sbelow k o.

Lemma occk_occP : forall c l k, occk c l k <-> occP (owner c l) k.
Proof. reflexivity. Qed.

Lemma occP_ext : forall (O O' : key -> Prop) k, (forall x, O x <-> O' x) -> (occP O k <-> occP O' k).
Proof. intros O O' k H. unfold occP. split; intros (o & Ho & Hs); exists o; split; auto; apply H; auto. Qed.

(* adding or removing an owner that is itself occluded changes nothing *)
Lemma occP_add_occluded : forall (O O' : key -> Prop) n,
    (forall x, O' x <-> (O x \/ x = n)) -> occP O n -> forall k, occP O' k <-> occP O k.
Proof.
  intros O O' n H (o2 & Ho2 & Hs2) k. split.
  - intros (o & Ho & Hs). apply H in Ho as [Ho| ->]; [exists o; auto|].
    exists o2. split; auto. eapply sbelow_below_trans; eauto. apply sbelow_below; auto.
  - intros (o & Ho & Hs). exists o. split; auto. apply H; auto.
Qed.

Lemma occP_remove_occluded : forall (O O' : key -> Prop) n,
    (forall x, O' x <-> (O x /\ x <> n)) -> occP O n -> forall k, occP O' k <-> occP O k.
Proof.
  intros O O' n H (o2 & Ho2 & Hs2) k. split.
  - intros (o & Ho & Hs). apply H in Ho as [Ho _]. exists o; auto.
  - intros (o & Ho & Hs). destruct (key_eq_dec o n) as [-> |Hn].
    + exists o2. split.
      * apply H. split; auto. intros ->. eapply sbelow_irrefl; eauto.
      * eapply sbelow_below_trans; eauto. apply sbelow_below; auto.
    + exists o. split; auto. apply H; auto.
Qed.

Lemma occP_remove_nonowner : forall (O O' : key -> Prop) n,
    (forall x, O' x <-> (O x /\ x <> n)) -> ~ O n -> forall k, occP O' k <-> occP O k.
Proof.
  intros O O' n H Hn k. apply occP_ext. intros x. rewrite H. split; [tauto|].
  intros Hx. split; auto. intros ->. auto.
Qed.

(* a new unoccluded owner occludes exactly its subtree in addition *)
Lemma occP_add_top : forall (O O' : key -> Prop) n,
    (forall x, O' x <-> (O x \/ x = n)) -> forall k, occP O' k <-> (occP O k \/ sbelow k n).
Proof.
  intros O O' n H k. split.
  - intros (o & Ho & Hs). apply H in Ho as [Ho| ->]; auto. left. exists o; auto.
  - intros [(o & Ho & Hs)|Hs].
    + exists o. split; auto. apply H; auto.
    + exists n. split; auto. apply H; auto.
Qed.

(* removing an unoccluded owner n: outside its subtree nothing changes; inside, the owners
   that remain are those strictly beneath n *)
Lemma occP_remove_top_outside : forall (O O' : key -> Prop) n,
    (forall x, O' x <-> (O x /\ x <> n)) -> forall k, ~ sbelow k n -> (occP O' k <-> occP O k).
Proof.
  intros O O' n H k Hk. split.
  - intros (o & Ho & Hs). apply H in Ho as [Ho _]. exists o; auto.
  - intros (o & Ho & Hs). exists o. split; auto. apply H. split; auto. intros ->. auto.
Qed.

Lemma occP_remove_top_inside : forall (O O' : key -> Prop) n,
    (forall x, O' x <-> (O x /\ x <> n)) -> ~ occP O n ->
    forall k, sbelow k n -> (occP O' k <-> exists o, O o /\ sbelow o n /\ sbelow k o).
Proof.
  intros O O' n H Hn k Hk. split.
  - intros (o & Ho & Hs). apply H in Ho as [Ho Hne]. exists o. split; [auto|]. split; [|auto].
    destruct (prefix_comparable o n k) as [Hc|Hc]; [apply Hs|apply Hk| |].
    + (* o is a prefix of n: n at or beneath o *)
      destruct (below_dec_eq n o Hc) as [E|Hs']; [congruence|].
      exfalso. apply Hn. exists o. auto.
    + destruct (below_dec_eq o n Hc) as [E|Hs']; [congruence|]. auto.
  - intros (o & Ho & Hon & Hko). exists o. split; auto. apply H. split; auto.
    intros ->. eapply sbelow_irrefl; eauto.
Qed.

(* ---------- Delegations.get_delegation ---------- *)
Lemma reln_sub_strict : forall n x, is_subdomain n x = true -> (reln n x =? rSUB) = strictly_beneath n x.
Proof.
  intros n x H. unfold strictly_beneath. rewrite H. cbn [andb].
  unfold is_subdomain in H. apply orb_true_iff in H.
  destruct (name_eqb n x) eqn:E.
  - apply name_eqb_ekey, reln_equal_ekey in E. apply Z.eqb_eq in E. rewrite E. reflexivity.
  - destruct H as [H|H]; [rewrite H; reflexivity|].
    apply reln_equal_ekey, name_eqb_ekey in H. congruence.
Qed.

Lemma gd_sound : forall (d : delegs_t) n cut sub,
    sorted d -> get_delegation d n = (Some cut, sub) ->
    In (cut, tt) d /\ below (K n) (K cut) /\ sub = strictly_beneath n cut.
Proof.
  intros d n cut sub S H. unfold get_delegation in H.
  destruct (c_seek d n) as [b a] eqn:Es. destruct (c_seek_spec _ _ _ _ S Es) as (E & Hb & Ha).
  unfold c_prev in H. cbn [fst snd] in H. destruct b as [|[g []] b]; [inversion H|].
  destruct ((reln n g =? rSUB) || (reln n g =? rEQUAL)) eqn:Er; [|inversion H].
  inversion H; subst. assert (Hsub : is_subdomain n cut = true) by exact Er.
  repeat split.
  - apply in_or_app. left. apply in_rev. rewrite rev_involutive. left; auto.
  - apply is_subdomain_below; auto.
  - apply reln_sub_strict; auto.
Qed.

Definition antichain (d : delegs_t) : Prop :=
  forall a b, In a (keys d) -> In b (keys d) -> ~ sbelow a b.

Lemma gd_complete : forall (d : delegs_t) n x,
    sorted d -> antichain d -> In (x, tt) d -> below (K n) (K x) ->
    exists x', K x' = K x /\ get_delegation d n = (Some x', strictly_beneath n x).
Proof.
  intros d n x S A Hin Hb. unfold get_delegation.
  destruct (c_seek d n) as [b a] eqn:Es. destruct (c_seek_spec _ _ _ _ S Es) as (E & Hbb & Ha).
  assert (Hxb : In (x, tt) (rev b)).
  { rewrite E in Hin. apply in_app_or in Hin as [H|H]; auto. exfalso.
    apply Ha in H. apply below_kle in Hb. unfold klt in H. apply kcmp_gt_lt in H. congruence. }
  unfold c_prev. cbn [fst snd]. destruct b as [|[g []] b]; [destruct Hxb|].
  (* g is the greatest element <= n *)
  assert (Hg_le : kcmp (K g) (K n) <> Gt) by (apply (Hbb g tt); left; auto).
  assert (Hxg : kcmp (K x) (K g) <> Gt).
  { cbn [rev] in Hxb. apply in_app_or in Hxb as [H|[H|[]]].
    - rewrite E in S. cbn [rev] in S. rewrite <- app_assoc in S. apply sorted_app in S as (_ & _ & S3).
      assert (klt (K x) (K g)) by (eapply S3; [exact H|left; reflexivity]).
      unfold klt in H0. rewrite H0. discriminate.
    - inversion H; subst. rewrite kcmp_refl. discriminate. }
  assert (Hgx : below (K g) (K x)).
  { unfold below. eapply prefix_convex; [apply prefix_refl|exact Hb|exact Hxg|exact Hg_le]. }
  assert (Egx : K g = K x).
  { destruct (below_dec_eq _ _ Hgx) as [Eq|Hs]; auto. exfalso.
    apply (A (K g) (K x)); auto.
    - rewrite E. apply (in_keys _ g tt). apply in_or_app. left. apply in_rev. rewrite rev_involutive. left; auto.
    - apply (in_keys _ x tt); auto. }
  assert (Hsub : is_subdomain n g = true) by (apply is_subdomain_below; rewrite Egx; auto).
  exists g. split; auto.
  assert (Er : (reln n g =? rSUB) || (reln n g =? rEQUAL) = true) by exact Hsub.
  rewrite Er. rewrite reln_sub_strict by auto. f_equal. apply strictly_beneath_ext; auto.
Qed.

Lemma gd_none : forall (d : delegs_t) n,
    sorted d -> (forall x, In x (keys d) -> ~ below (K n) x) -> get_delegation d n = (None, false).
Proof.
  intros d n S H. destruct (get_delegation d n) as [[cut|] sub] eqn:G.
  - apply gd_sound in G as (Hin & Hb & _); auto. exfalso. apply (H (K cut)); auto. apply (in_keys _ cut tt); auto.
  - unfold get_delegation in G. destruct (c_prev (c_seek d n)) as [[[g u]|] cur]; [|inversion G; auto].
    destruct ((reln n g =? rSUB) || (reln n g =? rEQUAL)); inversion G; auto.
Qed.

(* ---------- what the invariant says about the delegation index ---------- *)
Section WithInv.
  Variable c : cfg.
  Variable v : ver.
  Hypothesis HI : Inv c v.

  Lemma inv_antichain : antichain (v_delegs v).
  Proof.
    intros a b Ha Hb Hs. apply (inv_d c v HI) in Ha as [_ Ha]. apply (inv_d c v HI) in Hb as [Hb _].
    apply Ha. exists b. auto.
  Qed.

  Lemma inv_is_glue : forall n, deleg_is_glue (v_delegs v) n = occluded c (v_nodes v) n.
  Proof.
    intros n. unfold deleg_is_glue. destruct (occluded c (v_nodes v) n) eqn:Occ.
    - apply occluded_iff in Occ. destruct Occ as (o & Ho & Hs).
      destruct (topmost_owner c (v_nodes v) (length o) o (le_n _) Ho) as (o0 & H0 & Hb & Hn).
      assert (Hd : In o0 (keys (v_delegs v))) by (apply (inv_d c v HI); auto).
      apply keys_in in Hd as (x & [] & Hin & Ex).
      assert (Hs0 : sbelow (K n) (K x)) by (rewrite Ex; eapply sbelow_below_trans; eauto).
      destruct (gd_complete (v_delegs v) n x (inv_sd c v HI) inv_antichain Hin (sbelow_below _ _ Hs0))
        as (x' & Ex' & G).
      rewrite G. apply strictly_beneath_iff; auto.
    - destruct (get_delegation (v_delegs v) n) as [[cut|] sub] eqn:G; auto.
      apply gd_sound in G as (Hin & Hb & ->); [|apply (inv_sd c v HI)].
      destruct (strictly_beneath n cut) eqn:Es; auto. exfalso.
      apply occluded_false_iff in Occ. apply Occ. exists (K cut). split.
      + apply (inv_d c v HI). apply (in_keys _ cut tt); auto.
      + apply strictly_beneath_iff; auto.
  Qed.

  Lemma inv_mem : forall n, al_mem n (v_delegs v) = true <->
                            (owner c (v_nodes v) (K n) /\ ~ occk c (v_nodes v) (K n)).
  Proof. intros. rewrite al_mem_iff. apply (inv_d c v HI). Qed.

  Lemma inv_deleg_keys_nodes : forall k, In k (keys (v_delegs v)) -> In k (keys (v_nodes v)).
  Proof.
    intros k H. apply (inv_d c v HI) in H as [(m & nd & Hin & _ & E) _]. subst k. eapply in_keys; eauto.
  Qed.

  (* the flags of a node, by cases *)
  Lemma inv_flags : forall n nd, In (n, nd) (v_nodes v) ->
      nflags nd = if is_apex c n then fORIGIN
                  else if occluded c (v_nodes v) n then fGLUE
                       else if has_ns nd then fDELEGATION else 0.
  Proof. intros. rewrite (inv_f c v HI n nd H). apply flags_of_eq. Qed.
End WithInv.

(* flags as case analysis *)
Lemma flag_cases : forall (a o h : bool),
    let f := if a then fORIGIN else if o then fGLUE else if h then fDELEGATION else 0 in
    (Z.land f (Z.lor fORIGIN fGLUE) =? 0) = negb a && negb o /\
    (negb (Z.land f fDELEGATION =? 0)) = negb a && negb o && h /\
    (negb (Z.land f fGLUE =? 0)) = negb a && o.
Proof. intros [] [] []; cbn; auto. Qed.
