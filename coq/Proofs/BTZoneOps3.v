(* C20, layer D6: delete_rdataset / delete_node preserve the invariant and never hit the
   KeyError of `del self.nodes[name]`. *)
From DV Require Import Base.Prelude Model.NameM Model.BTZoneM
     Proofs.BTZoneOrder Proofs.BTZoneList Proofs.BTZoneSpec Proofs.BTZoneWalk Proofs.BTZoneInv
     Proofs.BTZoneMaster Proofs.BTZoneOps Proofs.BTZoneOps2.
Open Scope Z_scope.

(* removing an entry that is not an unoccluded NS owner *)
Lemma Inv_remove_entry : forall c l d ch l' ch' n,
    Inv c (mkVer l d ch) -> sorted l' -> Desc l l' n None idtr -> validk c (K n) ->
    (~ owner c l (K n) \/ occk c l (K n)) ->
    Inv c (mkVer l' d ch').
Proof.
  intros c l d ch l' ch' n HI S' D Hv Hcase.
  assert (Hown : forall k, owner c l' k <-> (owner c l k /\ k <> K n)).
  { intros k. rewrite (Desc_owner c _ _ _ _ _ D) by auto. split.
    - intros [[H1 H2]|[_ (e & He & _)]]; auto. discriminate.
    - intros [H1 H2]; auto. }
  eapply (Inv_same_occ c l d ch l' d ch' n None idtr); eauto.
  - apply (inv_sd c _ HI).
  - intros k. rewrite !occk_occP. destruct Hcase as [Hc|Hc].
    + eapply occP_remove_nonowner; eauto.
    + eapply occP_remove_occluded; eauto.
  - intros k Hk. rewrite Hown. split; [tauto|]. intros H. split; auto. intros ->.
    destruct Hcase as [Hc|Hc]; auto.
  - intros ? ? He. discriminate.
  - tauto.
  - intros ? He. discriminate.
Qed.

(* changing the rdatasets of the node at n without creating an unoccluded NS owner *)
Lemma Inv_change_entry : forall c l d ch ch' n n0 nd nd',
    Inv c (mkVer l d ch) -> In (n0, nd) l -> K n0 = K n -> validk c (K n) ->
    nflags nd' = nflags nd -> NoDup (map fst (nrds nd')) ->
    (has_ns nd' = has_ns nd \/ (has_ns nd' = false /\ (~ owner c l (K n) \/ occk c l (K n)))) ->
    Inv c (mkVer (al_update n nd' l) d ch').
Proof.
  intros c l d ch ch' n n0 nd nd' HI Hin E0 Hv Hfl Hnd Hcase.
  pose proof (inv_sn c _ HI) as S. cbn [v_nodes] in S.
  pose proof (D_update l l n n0 nd nd' idtr S (D_refl l n n0 nd S Hin E0) E0) as D.
  pose proof (inv_flags c _ HI n0 nd Hin) as Hf. cbn [v_nodes] in Hf.
  rewrite (is_apex_ext c n0 n), (occluded_ext c l n0 n) in Hf by auto.
  pose proof (owner_entry c l n0 nd S Hin) as Hoe. rewrite E0 in Hoe.
  assert (Hsame : ns_owner c (n0, nd') = ns_owner c (n0, nd) ->
                  nflags nd' = (if is_apex c n then fORIGIN else if occluded c l n then fGLUE
                                else if has_ns nd' then fDELEGATION else 0) ->
                  Inv c (mkVer (al_update n nd' l) d ch')).
  { intros Hns Hfl'.
    assert (Hown : forall k, owner c (al_update n nd' l) k <-> owner c l k) by (eapply owner_same_entry; eauto).
    eapply (Inv_same_occ c l d ch _ d ch' n (Some (n0, nd')) idtr); eauto.
    - apply al_update_sorted; auto.
    - apply (inv_sd c _ HI).
    - intros k. apply occP_ext. exact Hown.
    - intros n1 nd1 He. injection He as <- <-. exact Hfl'.
    - tauto.
    - intros e He. inversion He; subst e. exact Hnd. }
  destruct Hcase as [Hh|[Hh [Hc|Hc]]].
  - apply Hsame; [unfold ns_owner; cbn [fst snd]; rewrite Hh; reflexivity|]. rewrite Hfl, Hh. exact Hf.
  - (* the old node was not an owner either *)
    assert (Hno : ns_owner c (n0, nd) = false).
    { apply not_true_is_false. intros H. apply Hc. exists n0, nd. auto. }
    apply Hsame.
    + rewrite Hno. unfold ns_owner. cbn [fst snd]. rewrite Hh. reflexivity.
    + rewrite Hfl, Hf, Hh. unfold ns_owner in Hno. cbn [fst snd] in Hno.
      rewrite (is_apex_ext c n0 n) in Hno by auto.
      destruct (is_apex c n); auto. destruct (occluded c l n); auto.
      rewrite andb_true_r in Hno. rewrite Hno. reflexivity.
  - (* the name is occluded: dropping it from the owners changes nothing *)
    assert (Hown : forall k, owner c (al_update n nd' l) k <-> (owner c l k /\ k <> K n) \/ (k = K n /\ False)).
    { intros k. rewrite (Desc_owner c _ _ _ _ _ D) by auto. split.
      - intros [[H1 H2]|[_ (e & He & _ & H)]]; auto. inversion He; subst e.
        unfold ns_owner in H. cbn [fst snd] in H. rewrite Hh in H. discriminate.
      - intros [[H1 H2]|[_ []]]; auto. }
    assert (Hown' : forall k, owner c (al_update n nd' l) k <-> (owner c l k /\ k <> K n)).
    { intros k. rewrite Hown. tauto. }
    assert (Hoccb : occluded c l n = true) by (apply occluded_iff; auto).
    eapply (Inv_same_occ c l d ch _ d ch' n (Some (n0, nd')) idtr); eauto.
    + apply al_update_sorted; auto.
    + apply (inv_sd c _ HI).
    + intros k. rewrite !occk_occP. eapply occP_remove_occluded; eauto.
    + intros k Hk. rewrite Hown'. split; [tauto|]. intros H. split; auto. intros ->. auto.
    + intros n1 nd1 He. injection He as <- <-. rewrite Hfl, Hf, Hoccb.
      destruct (is_apex c n); reflexivity.
    + tauto.
    + intros e He. inversion He; subst e. exact Hnd.
Qed.

Lemma inner_ext : forall (l l' : nodes_t) n,
    (forall k v, K k <> K n -> (In (k, v) l' <-> In (k, v) l)) ->
    forall k, inner l' n k = inner l n k.
Proof.
  intros l l' n H k. unfold inner.
  assert (forall a b : nodes_t, (forall k v, K k <> K n -> (In (k, v) a -> In (k, v) b)) ->
          existsb (fun e => has_ns (snd e) && strictly_beneath (fst e) n && strictly_beneath k (fst e)) a = true ->
          existsb (fun e => has_ns (snd e) && strictly_beneath (fst e) n && strictly_beneath k (fst e)) b = true).
  { intros a b Hab Ha. apply existsb_exists in Ha as ([m nd] & Hin & Hx). apply existsb_exists.
    exists (m, nd). split; auto. apply Hab; auto. cbn [fst snd] in Hx.
    apply andb_true_iff in Hx as [Hx _]. apply andb_true_iff in Hx as [_ Hx].
    apply strictly_beneath_iff in Hx. intros E. rewrite E in Hx. eapply sbelow_irrefl; eauto. }
  destruct (existsb _ l') eqn:A; destruct (existsb _ l) eqn:B; auto.
  - apply (H0 l' l) in A; [congruence|]. intros; apply H; auto.
  - apply (H0 l l') in B; [congruence|]. intros; apply H; auto.
Qed.

Lemma al_del_present : forall (l : nodes_t) n n0 nd, In (n0, nd) l -> K n0 = K n -> exists l', al_del n l = Some l'.
Proof.
  intros l n n0 nd Hin E. destruct (al_del n l) eqn:D; eauto. apply al_del_none in D.
  exfalso. apply D. rewrite <- E. eapply in_keys; eauto.
Qed.

(* the common part of delete_rdataset(NS at a delegation point) and delete_node(delegation point):
   discard from the index, clear the glue of the subtree *)
Lemma expose_desc : forall c l1 d1 ch1 n n0 nd nd2,
    Inv c (mkVer l1 d1 ch1) -> In (n0, nd) l1 -> K n0 = K n ->
    exists l3 d3 ch3 trw,
      update_glue_flag (mkVer (al_update n nd2 l1) (al_discard n d1) ch1) n false = mkVer l3 d3 ch3 /\
      sorted l3 /\ sorted d3 /\
      Desc l1 l3 n (Some (n0, nd2)) trw /\
      (forall k y, nrds (trw k y) = nrds y) /\
      (forall k y, In (k, y) l1 -> K k <> K n ->
                   nflags (trw k y) =
                   if strictly_beneath k n
                   then (if inner l1 n k then fGLUE else if has_ns y then fDELEGATION else 0)
                   else nflags y) /\
      (forall y, In y (keys d3) <->
                 ((In y (keys d1) /\ y <> K n) \/
                  exists k nd, In (k, nd) l1 /\ K k = y /\ sbelow y (K n) /\ has_ns nd = true /\ inner l1 n k = false)).
Proof.
  intros c l1 d1 ch1 n n0 nd nd2 HI Hin0 E0.
  pose proof (inv_sn c _ HI) as S1. pose proof (inv_sd c _ HI) as Sd1. cbn [v_nodes v_delegs] in S1, Sd1.
  pose proof (D_update l1 l1 n n0 nd nd2 idtr S1 (D_refl l1 n n0 nd S1 Hin0 E0) E0) as D2.
  pose proof (al_update_sorted l1 n nd2 S1) as S2.
  destruct (al_discard_spec d1 n Sd1) as [Sd2 Hd2].
  destruct (ugf_false_desc (al_update n nd2 l1) (al_discard n d1) ch1 n S2 Sd2)
    as (l3 & d3 & ch3 & Eu & S3 & Sd3 & Hl3 & Hd3).
  assert (Hother : forall k v, K k <> K n -> (In (k, v) (al_update n nd2 l1) <-> In (k, v) l1)).
  { intros k v Hk. rewrite al_update_in by auto. split.
    - intros [(v0 & _ & E & _)|[H _]]; auto. congruence.
    - intros H. right; auto. }
  pose proof (inner_ext l1 (al_update n nd2 l1) n Hother) as Hinner.
  set (trw := fun (k : name) (y : node) =>
                if strictly_beneath k n
                then mkNode (if inner l1 n k then fGLUE else if has_ns y then fDELEGATION else 0) (nrds y)
                else y).
  exists l3, d3, ch3, trw. split; [exact Eu|]. split; [exact S3|]. split; [exact Sd3|]. split; [|split; [|split]].
  - eapply D_trans_walk; eauto.
    + intros k nd'. rewrite Hl3. unfold trw. split; intros (y & Hy & ->); exists y; split; auto;
        rewrite Hinner; reflexivity.
    + intros k y Ek. unfold trw. rewrite not_sb_self; auto.
  - intros k y. unfold trw. destruct (strictly_beneath k n); reflexivity.
  - intros k y _ _. unfold trw. destruct (strictly_beneath k n); reflexivity.
  - intros y. rewrite Hd3. split.
    + intros [Hy|(k & v & Hin & Ek & Hs & Hns & Hi)].
      * left. apply keys_in in Hy as (k & u & Hin & <-). apply Hd2 in Hin as [Hin Hk].
        split; auto. eapply in_keys; eauto.
      * right. exists k, v. rewrite <- Hinner. repeat split; auto; try apply Hs.
        apply Hother; auto. rewrite Ek. intros E. rewrite E in Hs. eapply sbelow_irrefl; eauto.
    + intros [[Hy Hn]|(k & v & Hin & Ek & Hs & Hns & Hi)].
      * left. apply keys_in in Hy as (k & u & Hin & <-). apply (in_keys _ k u). apply Hd2. auto.
      * right. exists k, v. rewrite Hinner. repeat split; auto; try apply Hs.
        apply Hother; auto. rewrite Ek. intros E. rewrite E in Hs. eapply sbelow_irrefl; eauto.
Qed.

(* ---------- delete_rdataset ---------- *)
Theorem delete_rdataset_inv : forall c v n t,
    Inv c v -> validk c (K n) -> exists v', delete_rdataset c v n t = Ok v' /\ Inv c v'.
Proof.
  intros c v n t HI Hv. unfold delete_rdataset.
  destruct (maybe_cow c v n) as [[l1 d1 ch1] nd] eqn:Ec.
  destruct (cow_spec c v n _ nd HI Hv Ec) as (HI1 & _ & (n0 & E0 & Hin0) & _).
  cbn [v_nodes v_delegs v_changed] in *.
  pose proof (inv_sn c _ HI1) as S1. pose proof (inv_sd c _ HI1) as Sd1. cbn [v_nodes v_delegs] in S1, Sd1.
  pose proof (inv_flags c _ HI1 n0 nd Hin0) as Hf. cbn [v_nodes] in Hf.
  rewrite (is_apex_ext c n0 n), (occluded_ext c l1 n0 n) in Hf by auto.
  pose proof (inv_nd c _ HI1 n0 nd Hin0) as Hnd.
  pose proof (owner_entry c l1 n0 nd S1 Hin0) as Hoe. rewrite E0 in Hoe.
  pose proof (inv_mem c _ HI1 n) as Hmem. cbn [v_nodes v_delegs] in Hmem.
  destruct ((t =? tNS) && al_mem n d1) eqn:Eb.
  - (* the NS rdataset of a delegation point *)
    apply andb_true_iff in Eb as [Et Em]. apply Z.eqb_eq in Et. subst t.
    pose proof (proj1 (al_mem_iff d1 n) Em) as Hkd.
    apply Hmem in Em as [Ho Hno]. apply Hoe in Ho as [Hns Hna].
    assert (Ea : is_apex c n = false) by (apply is_apex_false_key; auto).
    assert (Eo : occluded c l1 n = false) by (apply occluded_false_iff; auto).
    rewrite Ea, Eo, Hns in Hf.
    assert (Hf2 : Z.land (nflags nd) (Z.lnot fDELEGATION) = 0) by (rewrite Hf; reflexivity).
    rewrite Hf2. set (nd2 := mkNode 0 (nrds nd)).
    destruct (expose_desc c l1 d1 ch1 n n0 nd nd2 HI1 Hin0 E0)
      as (l3 & d3 & ch3 & trw & Eu & S3 & Sd3 & D3 & Htr & Hfl & Hd3).
    rewrite Eu. cbn [v_nodes v_delegs v_changed nflags nrds].
    change (nrds nd2) with (nrds nd). change (nflags nd2) with 0.
    destruct (rds_remove tNS (nrds nd)) as [|r0 rr] eqn:Er.
    + (* the node becomes empty and is deleted *)
      assert (Hin3 : In (n0, nd2) l3) by (apply D3; right; auto).
      destruct (al_del_present l3 n n0 nd2 Hin3 E0) as [l4 Ed]. rewrite Ed.
      eexists. split; [reflexivity|].
      destruct (al_del_some _ _ _ S3 Ed) as [S4 _].
      eapply (Inv_del_top c l1 d1 ch1 l4 d3 ch3 n None trw); eauto.
      * apply (D_del l1 l3 l4 n _ trw S3 D3 Ed).
      * intros e He. discriminate.
      * intros e He. discriminate.
    + eexists. split; [reflexivity|]. rewrite <- Er.
      set (nd3 := mkNode 0 (rds_remove tNS (nrds nd))).
      eapply (Inv_del_top c l1 d1 ch1 _ d3 ch3 n (Some (n0, nd3)) trw); eauto.
      * apply al_update_sorted; auto.
      * eapply D_update; eauto.
      * intros e He. inversion He; subst e. cbn [snd]. split; [apply has_ns_remove_ns; auto|reflexivity].
      * intros e He. inversion He; subst e. cbn [snd nrds]. apply rds_remove_nodup; auto.
  - (* anything else *)
    cbn [v_nodes v_delegs v_changed].
    assert (Hcase : t <> tNS \/ (t = tNS /\ (~ owner c l1 (K n) \/ occk c l1 (K n)))).
    { destruct (t =? tNS) eqn:Et; [|left; apply Z.eqb_neq; auto]. apply Z.eqb_eq in Et. right. split; auto.
      cbn [andb] in Eb. destruct (occluded c l1 n) eqn:Eo; [right; apply occluded_iff; auto|].
      left. intros Ho. assert (al_mem n d1 = true); [|congruence].
      apply Hmem. split; auto. apply occluded_false_iff; auto. }
    destruct (rds_remove t (nrds nd)) as [|r0 rr] eqn:Er; cbn [nrds].
    + destruct (al_del_present l1 n n0 nd Hin0 E0) as [l4 Ed]. rewrite Ed.
      eexists. split; [reflexivity|].
      destruct (al_del_some _ _ _ S1 Ed) as [S4 _].
      eapply Inv_remove_entry; eauto.
      * apply (D_del l1 l1 l4 n _ idtr S1 (D_refl l1 n n0 nd S1 Hin0 E0) Ed).
      * destruct Hcase as [Ht|[_ Hc]]; auto. left. intros Ho. apply Hoe in Ho as [Hns _].
        unfold has_ns in Hns. rewrite <- (rds_get_remove_other t tNS) in Hns by auto.
        rewrite Er in Hns. discriminate.
    + eexists. split; [reflexivity|]. rewrite <- Er.
      eapply Inv_change_entry; eauto.
      * cbn [nrds]. apply rds_remove_nodup; auto.
      * destruct Hcase as [Ht|[-> Hc]].
        -- left. rewrite has_ns_remove_other by auto. reflexivity.
        -- right. split; auto. apply has_ns_remove_ns; auto.
Qed.

(* ---------- delete_node ---------- *)
Theorem delete_node_inv : forall c v n,
    Inv c v -> validk c (K n) -> exists v', delete_node c v n = Ok v' /\ Inv c v'.
Proof.
  intros c [l d ch] n HI Hv. unfold delete_node. cbn [v_nodes v_delegs v_changed].
  pose proof (inv_sn c _ HI) as S. pose proof (inv_sd c _ HI) as Sd. cbn [v_nodes v_delegs] in S, Sd.
  destruct (al_get n l) as [nd|] eqn:G; [|eexists; split; [reflexivity|exact HI]].
  apply al_get_some in G as (n0 & Hin0 & E0).
  pose proof (inv_flags c _ HI n0 nd Hin0) as Hf. cbn [v_nodes] in Hf.
  rewrite (is_apex_ext c n0 n), (occluded_ext c l n0 n) in Hf by auto.
  pose proof (owner_entry c l n0 nd S Hin0) as Hoe. rewrite E0 in Hoe.
  pose proof (flag_cases (is_apex c n) (occluded c l n) (has_ns nd)) as (_ & Fc2 & _).
  cbn zeta in Fc2. rewrite <- Hf in Fc2. rewrite Fc2.
  destruct (negb (is_apex c n) && negb (occluded c l n) && has_ns nd) eqn:Eb.
  - (* a delegation point *)
    apply andb_true_iff in Eb as [Eb Hns]. apply andb_true_iff in Eb as [Ea Eo].
    apply negb_true_iff in Ea, Eo.
    assert (Hkd : In (K n) (keys d)).
    { apply (inv_d c _ HI). cbn [v_nodes]. split; [|apply occluded_false_iff; auto].
      apply Hoe. split; auto. apply is_apex_false_key; auto. }
    destruct (expose_desc c l d ch n n0 nd nd HI Hin0 E0)
      as (l3 & d3 & ch3 & trw & Eu & S3 & Sd3 & D3 & Htr & Hfl & Hd3).
    assert (Eupd : al_update n nd l = l).
    { clear - S Hin0 E0. induction l as [|[k v] l IH]; cbn; auto.
      apply sorted_cons in S as [S1 S2]. destruct Hin0 as [H|H].
      - inversion H; subst. assert (name_eqb n n0 = true) by (apply name_eqb_ekey; auto). rewrite H0. reflexivity.
      - assert (name_eqb n k = false).
        { apply name_eqb_false_ekey. rewrite <- E0. apply not_eq_sym, klt_neq. eauto. }
        rewrite H0. f_equal. auto. }
    rewrite Eupd in Eu. rewrite Eu. cbn [v_nodes v_delegs v_changed].
    assert (Hin3 : In (n0, nd) l3) by (apply D3; right; auto).
    destruct (al_del_present l3 n n0 nd Hin3 E0) as [l4 Ed]. rewrite Ed.
    eexists. split; [reflexivity|].
    destruct (al_del_some _ _ _ S3 Ed) as [S4 _].
    eapply (Inv_del_top c l d ch l4 d3 _ n None trw); eauto.
    + apply (D_del l l3 l4 n _ trw S3 D3 Ed).
    + intros e He. discriminate.
    + intros e He. discriminate.
  - cbn [v_nodes v_delegs v_changed].
    destruct (al_del_present l n n0 nd Hin0 E0) as [l4 Ed]. rewrite Ed.
    eexists. split; [reflexivity|].
    destruct (al_del_some _ _ _ S Ed) as [S4 _].
    eapply Inv_remove_entry; eauto.
    + apply (D_del l l l4 n _ idtr S (D_refl l n n0 nd S Hin0 E0) Ed).
    + destruct (is_apex c n) eqn:Ea.
      * left. intros Ho. apply Hoe in Ho as [_ Hna]. apply is_apex_key in Ea. contradiction.
      * destruct (occluded c l n) eqn:Eo; [right; apply occluded_iff; auto|].
        cbn [negb andb] in Eb. left. intros Ho. apply Hoe in Ho as [Hns _]. congruence.
Qed.
