(* C19 - the height of a well-formed B-tree is logarithmic in the number of elements:
   2 * t^(depth-1) <= n + 1 for every tree with an internal root.  (Every operation of the model
   runs with fuel = depth, so this bounds the length of every root-to-leaf descent.) *)
From DV Require Import Base.Prelude Model.BTreeM Proofs.BTreeBase Proofs.BTreeWf Proofs.BTreeInsert Proofs.BTreeLookup.

Fixpoint sum1 (ks : list tree) : nat :=
  match ks with [] => O | k :: r => (S (length (elements k)) + sum1 r)%nat end.

Lemma interleave_count : forall ks es, length ks = S (length es) ->
  S (length (interleave (fun k => elements k) es ks)) = sum1 ks.
Proof.
  induction ks as [|k ks IH]; intros es H; [discriminate|]. cbn [interleave sum1].
  destruct es as [|e es].
  - destruct ks; [|discriminate]. cbn. lia.
  - cbn in H. rewrite app_length. cbn [length]. rewrite <- (IH es) by lia. lia.
Qed.

Section H.
Variable t : nat.
Hypothesis Ht : (3 <= t)%nat.

Lemma min_count : forall h n, wfn t (t_min t) h n -> (t ^ h <= S (length (elements n)))%nat.
Proof.
  induction h as [|h IH]; intros [lf es ks] Hw.
  { pose proof (wfn_pos t Ht _ _ _ Hw). lia. }
  apply wfn_inv in Hw as (Hb & [(-> & Hh & ->)|(-> & h' & Hh & Hk & Hall)]).
  - inversion Hh; subst h. cbn. unfold t_min in Hb. lia.
  - inversion Hh; subst h'. cbn [elements]. rewrite (interleave_count ks es Hk).
    assert (Hs : (length ks * t ^ h <= sum1 ks)%nat).
    { clear Hk. induction Hall as [|k ks Hkw Hall IHs]; [cbn; lia|]. cbn [length sum1].
      pose proof (IH k Hkw). lia. }
    rewrite Hk in Hs. unfold t_min in Hb. cbn [Nat.pow].
    assert (t * t ^ h <= S (length es) * t ^ h)%nat by (apply Nat.mul_le_mono_r; lia). lia.
Qed.

Theorem height_bound_proof root :
  wf t root -> n_leaf root = false ->
  (2 * t ^ (depth root - 1) <= S (length (elements root)))%nat.
Proof.
  intros (_ & (h & Hw) & _) Hl. unfold wfr, root_lo in Hw. rewrite Hl in Hw.
  rewrite (wfn_depth t _ _ _ Hw). destruct root as [lf es ks]. cbn in Hl. subst lf.
  apply wfn_inv in Hw as (Hb & [(? & _)|(_ & h' & -> & Hk & Hall)]); [discriminate|].
  replace (S h' - 1)%nat with h' by lia. cbn [elements]. rewrite (interleave_count ks es Hk).
  assert (Hs : (length ks * t ^ h' <= sum1 ks)%nat).
  { clear Hk. induction Hall as [|k ks Hkw Hall IHs]; [cbn; lia|]. cbn [length sum1].
    pose proof (min_count h' k Hkw). lia. }
  rewrite Hk in Hs.
  assert (2 * t ^ h' <= S (length es) * t ^ h')%nat by (apply Nat.mul_le_mono_r; lia). lia.
Qed.

End H.
