(* C13 - full transfers (AXFR) of a version with RRsets of any type: singleton types with one rdata,
   CNAME-kind RRsets, every node obeying "CNAME and other data".  The message parser merges the
   records of a later message into RRsets; a singleton RRset has one record in the whole stream, so
   Rdataset.add never replaces anything, and dns/node.py never evicts anything. *)
From DV Require Import Base.Prelude Model.XfrM Proofs.XfrSets Proofs.XfrSpec Proofs.XfrZone Proofs.XfrDiff
  Proofs.XfrSafety Proofs.XfrBasic Proofs.XfrRun Proofs.XfrIxfr Proofs.XfrAxfr Proofs.XfrGeneral.

Definition rs_ok_g (s : rrset) : Prop :=
  s_class s = cIN /\ s_type s <> tSOA /\ 0 <= s_name s /\ s_data s <> [] /\ ssorted (s_data s).

Definition acc_ok_g (acc : list rrset) : Prop := Forall rs_ok_g acc /\ NoDup (map skey acc).

Lemma merge_rrset_add_g : forall e s r, wf_e e -> rs_ok_g s -> rec_g r -> is_singleton (s_type s) = false ->
  merge e (s_ttl (rrset_add s r)) (s_data (rrset_add s r)) =
  add1 (Some (merge e (s_ttl s) (s_data s))) (r_ttl r) (r_data r).
Proof.
  intros e s r He (_ & _ & _ & Hne & Hs) (_ & _ & _ & Httl) Hsg.
  unfold rrset_add. cbn [s_ttl s_data]. rewrite (clamp_ok _ Httl), (rds_add_plain _ _ _ Hsg).
  destruct (s_data s) as [|d0 ds] eqn:Ed; [congruence|]. rewrite <- Ed in *.
  destruct e as [[t0 S0]|]; cbn [merge add1].
  - fold (tmin (r_ttl r) (s_ttl s)). fold (tmin (r_ttl r) (tmin (s_ttl s) t0)).
    rewrite tmin_assoc. f_equal. apply union_ins_comm. exact He.
  - reflexivity.
Qed.

Lemma key_type_eq : forall r s, rkey r = skey s -> r_type r = s_type s.
Proof. intros r s E. unfold rkey, skey in E. inversion E. reflexivity. Qed.

Lemma add_to_effect_g : forall k r acc e, rec_g r -> acc_ok_g acc -> wf_e e ->
  (is_singleton (r_type r) = true -> ~ In (rkey r) (map skey acc)) ->
  fm k e (add_to r acc) =
  if key_eqb (rkey r) k then Some (add1 (fm k e acc) (r_ttl r) (r_data r)) else fm k e acc.
Proof.
  intros k r acc. induction acc as [|s acc IH]; intros e Hp [Hok Hnd] He Hfresh.
  - cbn [add_to]. unfold fm. cbn [fold_left]. rewrite skey_single.
    destruct (key_eqb (rkey r) k); [|reflexivity].
    destruct Hp as (_ & _ & _ & Httl). unfold single. cbn [s_ttl s_data]. rewrite (clamp_ok _ Httl).
    destruct e as [[t0 S0]|]; reflexivity.
  - inversion Hok as [|? ? Hs Hok']; subst. inversion Hnd as [|? ? Hni Hnd']; subst.
    cbn [add_to]. pose proof Hp as (Hc & _). pose proof Hs as (Hsc & Hrest).
    rewrite (same_rrset_key r s Hc Hsc).
    destruct (key_eqb (rkey r) (skey s)) eqn:Ers.
    + apply key_eqb_eq in Ers.
      assert (Hsg : is_singleton (s_type s) = false).
      { destruct (is_singleton (s_type s)) eqn:E; [|reflexivity]. exfalso.
        rewrite <- (key_type_eq _ _ Ers) in E. apply (Hfresh E). left. symmetry. exact Ers. }
      rewrite !fm_cons, skey_rrset_add.
      destruct (key_eqb (skey s) k) eqn:Esk.
      * apply key_eqb_eq in Esk. rewrite Ers, Esk, key_eqb_refl.
        rewrite !fm_notin by (rewrite <- Esk; exact Hni).
        f_equal. apply merge_rrset_add_g; assumption.
      * rewrite Ers, Esk. reflexivity.
    + assert (Hfresh' : is_singleton (r_type r) = true -> ~ In (rkey r) (map skey acc)).
      { intros E Hin. apply (Hfresh E). right. exact Hin. }
      rewrite !fm_cons.
      destruct (key_eqb (skey s) k) eqn:Esk.
      * apply IH; [exact Hp|split; assumption| |exact Hfresh'].
        destruct Hrest as (_ & _ & _ & Hss). destruct e as [[t0 S0]|]; cbn [merge wf_e]; [apply union_sorted, He|exact Hss].
      * apply IH; [exact Hp|split; assumption|exact He|exact Hfresh'].
Qed.

Lemma add_to_keys_g : forall r acc, rec_g r -> Forall rs_ok_g acc -> forall k,
  In k (map skey (add_to r acc)) <-> k = rkey r \/ In k (map skey acc).
Proof.
  intros r acc Hp. induction acc as [|s acc IH]; intros Hok k; cbn [add_to].
  - cbn. rewrite skey_single. intuition.
  - inversion Hok as [|? ? Hs Hok']; subst. destruct Hp as (Hc & _). destruct Hs as (Hsc & _).
    rewrite (same_rrset_key r s Hc Hsc). destruct (key_eqb (rkey r) (skey s)) eqn:E.
    + apply key_eqb_eq in E. cbn [map In]. rewrite skey_rrset_add. rewrite E. intuition.
    + cbn [map In]. rewrite IH by assumption. intuition.
Qed.

Lemma single_ok_g : forall r, rec_g r -> rs_ok_g (single r).
Proof.
  intros r (Hc & Ht & Hn & Httl). unfold rs_ok_g, single. cbn.
  split; [exact Hc|]. split; [exact Ht|]. split; [exact Hn|]. split; [discriminate|apply ssorted_one].
Qed.

Lemma add_to_ok_g : forall r acc, rec_g r -> acc_ok_g acc ->
  (is_singleton (r_type r) = true -> ~ In (rkey r) (map skey acc)) -> acc_ok_g (add_to r acc).
Proof.
  intros r acc Hp. induction acc as [|s acc IH]; intros [Hok Hnd] Hfresh; cbn [add_to].
  - split; [constructor; [apply single_ok_g, Hp|constructor]|constructor; [intros []|constructor]].
  - inversion Hok as [|? ? Hs Hok']; subst. inversion Hnd as [|? ? Hni Hnd']; subst.
    pose proof Hp as (Hc & Ht & Hn & Httl). pose proof Hs as (Hsc & Hst & Hsn & Hsne & Hss).
    rewrite (same_rrset_key r s Hc Hsc). destruct (key_eqb (rkey r) (skey s)) eqn:E.
    + apply key_eqb_eq in E.
      assert (Hsg : is_singleton (s_type s) = false).
      { destruct (is_singleton (s_type s)) eqn:E1; [|reflexivity]. exfalso.
        rewrite <- (key_type_eq _ _ E) in E1. apply (Hfresh E1). left. symmetry. exact E. }
      split.
      * constructor; [|assumption]. unfold rs_ok_g, rrset_add. cbn [s_class s_type s_name s_data].
        rewrite (rds_add_plain _ _ _ Hsg).
        split; [exact Hsc|]. split; [exact Hst|]. split; [exact Hsn|]. split.
        -- intros Hnil. assert (In (r_data r) (ins (r_data r) (s_data s))) by (apply ins_In; auto).
           rewrite Hnil in H. destruct H.
        -- apply ins_sorted, Hss.
      * cbn [map]. rewrite skey_rrset_add. constructor; assumption.
    + assert (Hfresh' : is_singleton (r_type r) = true -> ~ In (rkey r) (map skey acc)).
      { intros E1 Hin. apply (Hfresh E1). right. exact Hin. }
      destruct (IH (conj Hok' Hnd') Hfresh') as [Hok2 Hnd2]. split.
      * constructor; assumption.
      * cbn [map]. constructor; [|assumption]. intros Hin. apply (add_to_keys_g r acc Hp Hok') in Hin.
        destruct Hin as [Hin|Hin]; [|auto]. apply key_eqb_neq in E. auto.
Qed.

(* a singleton-typed record occurs once (key-wise) in x, and not in acc *)
Definition singles_once (acc : list rrset) (x : list rr) : Prop :=
  forall pre r post, x = pre ++ r :: post -> is_singleton (r_type r) = true ->
    ~ In (rkey r) (map skey acc) /\ ~ In (rkey r) (map rkey pre).

Lemma group_effect_g : forall k x acc e, Forall rec_g x -> acc_ok_g acc -> wf_e e -> singles_once acc x ->
  fm k e (group_go false acc x) = fa k (fm k e acc) x /\ acc_ok_g (group_go false acc x) /\
  (forall k', In k' (map skey (group_go false acc x)) <-> In k' (map skey acc) \/ In k' (map rkey x)).
Proof.
  intros k x. induction x as [|r x IH]; intros acc e Hf Hacc He Hso.
  - cbn [group_go]. unfold fa. cbn. split; [reflexivity|]. split; [exact Hacc|]. intros k'. tauto.
  - inversion Hf as [|? ? Hp Hf']; subst.
    assert (E : group_go false acc (r :: x) = group_go false (add_to r acc) x).
    { cbn [group_go]. destruct Hp as (_ & Ht & _). apply Z.eqb_neq in Ht. rewrite Ht. reflexivity. }
    assert (Hfresh : is_singleton (r_type r) = true -> ~ In (rkey r) (map skey acc)).
    { intros Es. apply (Hso [] r x eq_refl Es). }
    assert (Hso' : singles_once (add_to r acc) x).
    { intros pre r' post Ex Es. destruct (Hso (r :: pre) r' post) as [H1 H2]; [rewrite Ex; reflexivity|exact Es|].
      split; [|intros Hin; apply H2; right; exact Hin].
      intros Hin. apply (add_to_keys_g r acc Hp (proj1 Hacc)) in Hin. destruct Hin as [Hin|Hin]; [|auto].
      apply H2. left. symmetry. exact Hin. }
    rewrite E. destruct (IH (add_to r acc) e Hf' (add_to_ok_g r acc Hp Hacc Hfresh) He Hso') as (H1 & H2 & H3).
    split; [|split; [exact H2|]].
    + rewrite H1, (add_to_effect_g k r acc e Hp Hacc He Hfresh).
      unfold fa at 2. cbn [fold_left]. reflexivity.
    + intros k'. rewrite H3, (add_to_keys_g r acc Hp (proj1 Hacc)). cbn [map In]. intuition.
Qed.

(* ---- zone level ---- *)
Lemma t_add_rs_g : forall z s, rs_ok_g s -> addable z (skey s) ->
  (is_singleton (s_type s) = true -> look z (skey s) = None) ->
  t_add false z s = Ok (zput (skey s) (merge (look z (skey s)) (s_ttl s) (s_data s)) z).
Proof.
  intros z s (Hc & Ht & _ & Hne & _) Ha Hs. unfold t_add.
  rewrite (node_put_id _ _ _ Ha).
  destruct (s_data s) as [|d ds] eqn:Ed; [congruence|]. rewrite <- Ed.
  rewrite Hc. cbn [Z.eqb cIN Pos.eqb negb].
  apply Z.eqb_neq in Ht. rewrite Ht. cbn [andb]. unfold merge, tmin.
  destruct (look z (skey s)) as [[t0 S0]|] eqn:El; [|reflexivity].
  destruct (is_singleton (s_type s)) eqn:Es; [specialize (Hs eq_refl); discriminate|].
  rewrite (fold_rds_add_union _ _ _ Es). reflexivity.
Qed.

Lemma step_rs_add_g : forall l u rdt p tz ser s0 s, rs_ok_g s -> addable tz (skey s) ->
  (is_singleton (s_type s) = true -> look tz (skey s) = None) ->
  step l (ast u rdt p tz ser s0) s =
  (ast u rdt p (zput (skey s) (merge (look tz (skey s)) (s_ttl s) (s_data s)) tz) ser s0, None).
Proof.
  intros l u rdt p tz ser s0 s Hs Ha Hsg. pose proof Hs as (Hc & Ht & Hn & _).
  unfold ast, step. cbn [done txn expecting delmode].
  assert (E : (s_type s =? tSOA) = false) by (apply Z.eqb_neq; exact Ht).
  rewrite E. cbn [andb].
  assert (Z : in_zone (s_name s) = true) by (apply Z.leb_le; exact Hn).
  rewrite Z. cbn [negb]. rewrite (t_add_rs_g tz s Hs Ha Hsg). reflexivity.
Qed.

Definition addrs_ok (z : zone) (l : list rrset) : Prop :=
  forall pre s post, l = pre ++ s :: post ->
    addable (addrs z pre) (skey s) /\ (is_singleton (s_type s) = true -> look (addrs z pre) (skey s) = None).

Lemma loopn_addrs_g : forall l u rdt p tz ser s0, Forall rs_ok_g l -> addrs_ok tz l ->
  loopn (ast u rdt p tz ser s0) l = (ast u rdt p (addrs tz l) ser s0, None).
Proof.
  induction l as [|s l IH]; intros u rdt p tz ser s0 Hf Hok; cbn [loopn addrs]; [reflexivity|].
  inversion Hf as [|? ? Hs Hf']; subst. destruct (Hok [] s l eq_refl) as [Ha Hsg]. cbn [addrs] in Ha, Hsg.
  rewrite (step_rs_add_g _ _ _ _ _ _ _ _ Hs Ha Hsg).
  apply IH; [exact Hf'|]. intros pre s' post E. apply (Hok (s :: pre) s' post). rewrite E. reflexivity.
Qed.

Lemma fm_keys : forall k l e, fm k e l <> None -> e <> None \/ In k (map skey l).
Proof.
  intros k. induction l as [|s l IH]; intros e H; [left; exact H|].
  rewrite fm_cons in H. destruct (key_eqb (skey s) k) eqn:E.
  - right. left. apply key_eqb_eq, E.
  - destruct (IH _ H) as [H1|H1]; [left; exact H1|right; right; exact H1].
Qed.

Lemma keys_addrs : forall tz l k, look (addrs tz l) k <> None -> look tz k <> None \/ In k (map skey l).
Proof. intros tz l k H. rewrite look_addrs in H. apply fm_keys, H. Qed.

Lemma skey_type : forall s, (let '(_, ty, _) := skey s in ty) = s_type s.
Proof. reflexivity. Qed.

(* a conflict-free set of keys K that holds the zone's keys and the RRsets' keys; singleton RRsets are new *)
Lemma addrs_ok_keys : forall (K : key -> Prop) tz l,
  (forall k k', K k -> K k' -> conflicts k k' = false) ->
  (forall k, look tz k <> None -> K k) -> (forall k, In k (map skey l) -> K k) ->
  (forall pre s post, l = pre ++ s :: post -> is_singleton (s_type s) = true ->
     look tz (skey s) = None /\ ~ In (skey s) (map skey pre)) ->
  addrs_ok tz l.
Proof.
  intros K tz l HK Htz Hl Hfresh pre s post E. split.
  - intros k' Hk'. apply HK.
    + apply Hl. rewrite E, map_app. apply in_or_app. right. left. reflexivity.
    + destruct (keys_addrs _ _ _ Hk') as [H|H]; [apply Htz, H|].
      apply Hl. rewrite E, map_app. apply in_or_app. left. exact H.
  - intros Es. destruct (Hfresh pre s post E Es) as [H1 H2].
    rewrite look_addrs, H1. apply fm_notin, H2.
Qed.

(* ---- how the records of one message reach the zone ---- *)
Definition once (x : list rr) : Prop :=
  forall pre r post, x = pre ++ r :: post -> is_singleton (r_type r) = true -> ~ In (rkey r) (map rkey pre).

Definition msg_parse_ok_g (g : list rr -> list rrset) : Prop :=
  (forall x r, Forall rec_g x -> r_type r = tSOA -> g (x ++ [r]) = g x ++ [single r]) /\
  (forall x, Forall rec_g x -> once x ->
     Forall rs_ok_g (g x) /\ (forall k, In k (map skey (g x)) -> In k (map rkey x)) /\
     (forall pre s post, g x = pre ++ s :: post -> is_singleton (s_type s) = true -> ~ In (skey s) (map skey pre))) /\
  (forall x tz, Forall rec_g x -> once x -> zsorted tz -> zeq (addrs tz (g x)) (adds tz x)).

Lemma addrs_singles_g : forall x tz, Forall rec_g x -> addrs tz (map single x) = adds tz x.
Proof.
  induction x as [|r x IH]; intros tz Hf; cbn [map addrs adds]; [reflexivity|].
  inversion Hf as [|? ? Hp Hf']; subst. rewrite <- IH by assumption. f_equal.
  rewrite skey_single. f_equal. destruct Hp as (_ & _ & _ & Httl).
  unfold single. cbn [s_ttl s_data]. rewrite (clamp_ok _ Httl).
  unfold merge, add1, tmin. destruct (look tz (rkey r)) as [[t0 S0]|]; reflexivity.
Qed.

Lemma map_skey_single : forall x, map skey (map single x) = map rkey x.
Proof. induction x as [|r x IH]; cbn [map]; [reflexivity|]. rewrite skey_single, IH. reflexivity. Qed.

Lemma parse_single_ok_g : msg_parse_ok_g (map single).
Proof.
  split; [|split].
  - intros x r _ _. rewrite map_app. reflexivity.
  - intros x Hf Ho. split; [|split].
    + apply Forall_forall. intros s Hs. apply in_map_iff in Hs. destruct Hs as [r [<- Hr]].
      apply single_ok_g. rewrite Forall_forall in Hf. auto.
    + intros k. rewrite map_skey_single. tauto.
    + intros pre s post E Es.
      apply map_eq_app in E. destruct E as (pre' & rest & -> & <- & E2).
      apply map_eq_cons in E2. destruct E2 as (r & post' & -> & <- & _).
      rewrite map_skey_single, skey_single. apply (Ho pre' r post' eq_refl). exact Es.
  - intros x tz Hf _ _. rewrite addrs_singles_g by assumption. apply zeq_refl.
Qed.

Lemma once_singles_once : forall x, once x -> singles_once [] x.
Proof. intros x Ho pre r post E Es. split; [intros []|apply (Ho pre r post E Es)]. Qed.

Lemma NoDup_split_notin : forall {A} (l1 : list A) x l2, NoDup (l1 ++ x :: l2) -> ~ In x l1.
Proof. intros A l1 x l2 H Hin. apply NoDup_remove_2 in H. apply H. apply in_or_app. left. exact Hin. Qed.

Lemma parse_group_ok_g : msg_parse_ok_g (group false).
Proof.
  assert (A0 : acc_ok_g []) by (split; constructor).
  split; [|split].
  - intros x r _ Hr. unfold group. apply group_go_snoc_soa, Hr.
  - intros x Hf Ho.
    destruct (group_effect_g soakey x [] None Hf A0 Logic.I (once_singles_once x Ho)) as (_ & [H1 H2] & H3).
    split; [exact H1|]. split.
    + intros k Hk. apply H3 in Hk. destruct Hk as [[]|Hk]. exact Hk.
    + intros pre s post E _. unfold group in E. rewrite E, map_app in H2. cbn [map] in H2.
      apply (NoDup_split_notin _ _ _ H2).
  - intros x tz Hf Ho Hz k. rewrite look_addrs, look_adds_fa.
    destruct (group_effect_g k x [] (look tz k) Hf A0 (Hz k) (once_singles_once x Ho)) as [H _]. exact H.
Qed.

Lemma parse_group_true_ok_g : msg_parse_ok_g (group true).
Proof.
  destruct parse_single_ok_g as (G1 & G2 & G3).
  split; [|split]; intros; rewrite ?group_true; auto.
Qed.

(* ---- the driver on a full transfer, message by message ---- *)
Section FULL.
Variable K : key -> Prop.
Hypothesis HK : forall k k', K k -> K k' -> conflicts k k' = false.
Hypothesis HKsoa : K soakey.

(* the records c still to come: in K; a singleton-typed one is new to the zone and occurs once *)
Definition todo_ok (tz : zone) (c : list rr) : Prop :=
  (forall k, look tz k <> None -> K k) /\ (forall r, In r c -> K (rkey r)) /\
  (forall pre r post, c = pre ++ r :: post -> is_singleton (r_type r) = true ->
     look tz (rkey r) = None /\ ~ In (rkey r) (map rkey pre)).

Lemma todo_once : forall tz c, todo_ok tz c -> once c.
Proof. intros tz c (_ & _ & H) pre r post E Es. apply (H pre r post E Es). Qed.

Lemma todo_prefix : forall tz a c', todo_ok tz (a ++ c') -> todo_ok tz a.
Proof.
  intros tz a c' (H1 & H2 & H3). split; [exact H1|]. split.
  - intros r Hr. apply H2. apply in_or_app. left. exact Hr.
  - intros pre r post E Es. apply (H3 pre r (post ++ c')); [|exact Es]. rewrite E, <- app_assoc. reflexivity.
Qed.

Lemma todo_addrs_ok : forall g tz a, msg_parse_ok_g g -> Forall rec_g a -> todo_ok tz a -> addrs_ok tz (g a).
Proof.
  intros g tz a (_ & G2 & _) Hf Ht. pose proof (todo_once _ _ Ht) as Ho.
  destruct (G2 a Hf Ho) as (R1 & R2 & R3). destruct Ht as (H1 & H2 & H3).
  apply (addrs_ok_keys K); [exact HK|exact H1| |].
  - intros k Hk. apply R2 in Hk. apply in_map_iff in Hk. destruct Hk as [r [<- Hr]]. apply H2, Hr.
  - intros pre s post E Es. split; [|apply (R3 pre s post E Es)].
    assert (Hin : In (skey s) (map rkey a)).
    { apply R2. rewrite E, map_app. apply in_or_app. right. left. reflexivity. }
    apply in_map_iff in Hin. destruct Hin as [r [Ek Hr]].
    apply in_split in Hr. destruct Hr as (p1 & p2 & Ea).
    assert (Es' : is_singleton (r_type r) = true) by (rewrite (key_type_eq _ _ Ek); exact Es).
    destruct (H3 p1 r p2 Ea Es') as [Hl _]. rewrite <- Ek. exact Hl.
Qed.

Lemma todo_after : forall g tz a c', msg_parse_ok_g g -> Forall rec_g a -> zsorted tz ->
  todo_ok tz (a ++ c') -> todo_ok (addrs tz (g a)) c'.
Proof.
  intros g tz a c' Hg Hf Hz Ht. pose proof (todo_prefix _ _ _ Ht) as Hta. pose proof (todo_once _ _ Hta) as Ho.
  destruct Hg as (_ & G2 & G3). destruct (G2 a Hf Ho) as (_ & R2 & _).
  destruct Ht as (H1 & H2 & H3). split; [|split].
  - intros k Hk. destruct (keys_addrs _ _ _ Hk) as [H|H]; [apply H1, H|].
    apply R2 in H. apply in_map_iff in H. destruct H as [r [<- Hr]]. apply H2. apply in_or_app. left. exact Hr.
  - intros r Hr. apply H2. apply in_or_app. right. exact Hr.
  - intros pre r post E Es.
    destruct (H3 (a ++ pre) r post) as [Hl Hn]; [rewrite E, <- app_assoc; reflexivity|exact Es|].
    rewrite map_app in Hn. split.
    + rewrite (G3 a tz Hf Ho Hz), look_adds_fa, Hl. apply fa_none.
      intros r' Hr'. apply key_eqb_neq. intros Ek. apply Hn. apply in_or_app. left.
      rewrite <- Ek. apply in_map, Hr'.
    + intros Hin. apply Hn. apply in_or_app. right. exact Hin.
Qed.

Lemma cont_full_g : forall ws one_rr g a rdt p tz ser v c,
  msg_parse_ok_g g -> msg_parse_ok_g (group one_rr) -> ttl_ok (v_ttl v) ->
  Forall (header_ok rdt) ws -> Forall rec_g c -> zsorted tz -> todo_ok tz c ->
  a ++ concat (map w_records ws) = c ++ [soa_rr v] ->
  exists z' n, cont one_rr (loop (ast false rdt p tz ser (single (soa_rr v))) (g a)) ws = (Done z', n)
    /\ zeq z' (zput soakey (v_ttl v, [v_soa v]) (adds tz c)).
Proof.
  assert (FIN : forall g c rdt p tz ser v, msg_parse_ok_g g -> ttl_ok (v_ttl v) -> Forall rec_g c -> zsorted tz ->
            todo_ok tz c ->
            exists z', loop (ast false rdt p tz ser (single (soa_rr v))) (g (c ++ [soa_rr v])) =
                       (mkSt z' None rdt false ser false (Some (single (soa_rr v))) true false false false, None)
                       /\ zeq z' (zput soakey (v_ttl v, [v_soa v]) (adds tz c))).
  { intros g c rdt p tz ser v Hg Httl Hc Hz Ht. pose proof Hg as (G1 & G2 & G3).
    pose proof (todo_once _ _ Ht) as Ho. destruct (G2 c Hc Ho) as (R1 & R2 & _).
    rewrite (G1 c (soa_rr v) Hc eq_refl).
    rewrite loop_snoc, (loopn_addrs_g _ _ _ _ _ _ _ R1 (todo_addrs_ok g tz c Hg Hc Ht)).
    rewrite step_final_full_g; [|exact Httl|].
    - eexists. split; [reflexivity|].
      intros k. rewrite !look_zput. destruct (key_eqb k soakey); [reflexivity|apply G3; assumption].
    - intros k' Hk'. apply HK; [exact HKsoa|].
      rewrite <- (app_nil_r c) in Ht. destruct (todo_after g tz c [] Hg Hc Hz Ht) as (H1 & _). apply H1, Hk'. }
  induction ws as [|w ws IH]; intros one_rr g a rdt p tz ser v c Hg Hg1 Httl Hh Hc Hz Ht Hcat.
  - cbn [map concat] in Hcat. rewrite app_nil_r in Hcat. subst a.
    destruct (FIN g c rdt p tz ser v Hg Httl Hc Hz Ht) as [z' [Hl Hz']].
    rewrite Hl. cbn [cont done pub]. eexists. eexists. split; [reflexivity|exact Hz'].
  - apply app_snoc_split in Hcat. destruct Hcat as [[c' [-> Hrest]]|[-> Hrest]].
    + apply Forall_app in Hc. destruct Hc as [Ha Hc'].
      pose proof (todo_prefix _ _ _ Ht) as Hta. pose proof (todo_once _ _ Hta) as Hoa.
      pose proof Hg as (G1 & G2 & G3). destruct (G2 a Ha Hoa) as (R1 & _ & _).
      rewrite (loop_loopn _ _ _ (loopn_addrs_g _ _ _ _ _ _ _ R1 (todo_addrs_ok g tz a Hg Ha Hta))).
      cbn [cont]. unfold ast at 1. cbn [done]. fold (ast false rdt p (addrs tz (g a)) ser (single (soa_rr v))).
      inversion Hh as [|? ? Hw Hws]; subst.
      rewrite drive_cons by solve_req. unfold from_wire.
      rewrite process_running; [|apply running_ast|apply Hw|apply Hw]. cbn [m_answer].
      cbn [map concat] in Hrest.
      assert (Hz1 : zsorted (addrs tz (g a))).
      { eapply zsorted_zeq; [apply G3; assumption|apply adds_sorted, Hz]. }
      destruct (IH one_rr (group one_rr) (w_records w) rdt p (addrs tz (g a)) ser v c' Hg1 Hg1 Httl Hws Hc' Hz1
                  (todo_after g tz a c' Hg Ha Hz Ht) Hrest) as [z' [n [Hn Hz']]].
      rewrite Hn. exists z', (S n). split; [reflexivity|].
      eapply zeq_trans; [exact Hz'|]. intros k. rewrite !look_zput.
      destruct (key_eqb k soakey); [reflexivity|]. rewrite adds_app.
      apply adds_zeq. apply G3; assumption.
    + destruct (FIN g c rdt p tz ser v Hg Httl Hc Hz Ht) as [z' [Hl Hz']].
      rewrite Hl. cbn [cont done pub]. eexists. eexists. split; [reflexivity|exact Hz'].
Qed.
(* a full transfer whose stream stops inside the body *)
Lemma cont_full_eof_g : forall ws one_rr g a rdt p tz ser s0,
  msg_parse_ok_g g -> msg_parse_ok_g (group one_rr) ->
  Forall (header_ok rdt) ws -> Forall rec_g (a ++ concat (map w_records ws)) -> zsorted tz ->
  todo_ok tz (a ++ concat (map w_records ws)) ->
  exists n, cont one_rr (loop (ast false rdt p tz ser s0) (g a)) ws = (Error eEOF p, n).
Proof.
  induction ws as [|w ws IH]; intros one_rr g a rdt p tz ser s0 Hg Hg1 Hh Hpl Hz Ht.
  - cbn [map concat] in Hpl, Ht. rewrite app_nil_r in Hpl, Ht.
    pose proof Hg as (_ & G2 & _). destruct (G2 a Hpl (todo_once _ _ Ht)) as (R1 & _ & _).
    rewrite (loop_loopn _ _ _ (loopn_addrs_g _ _ _ _ _ _ _ R1 (todo_addrs_ok g tz a Hg Hpl Ht))). cbn. eauto.
  - cbn [map concat] in Hpl, Ht. apply Forall_app in Hpl. destruct Hpl as [Ha Hrest].
    pose proof (todo_prefix _ _ _ Ht) as Hta.
    pose proof Hg as (_ & G2 & G3). destruct (G2 a Ha (todo_once _ _ Hta)) as (R1 & _ & _).
    rewrite (loop_loopn _ _ _ (loopn_addrs_g _ _ _ _ _ _ _ R1 (todo_addrs_ok g tz a Hg Ha Hta))).
    cbn [cont]. unfold ast at 1. cbn [done]. fold (ast false rdt p (addrs tz (g a)) ser s0).
    inversion Hh as [|? ? Hw Hws]; subst.
    rewrite drive_cons by solve_req. unfold from_wire.
    rewrite process_running; [|apply running_ast|apply Hw|apply Hw]. cbn [m_answer].
    assert (Hz1 : zsorted (addrs tz (g a))).
    { eapply zsorted_zeq; [apply G3; [exact Ha|exact (todo_once _ _ Hta)|exact Hz]|apply adds_sorted, Hz]. }
    destruct (IH one_rr (group one_rr) (w_records w) rdt p (addrs tz (g a)) ser s0 Hg1 Hg1 Hws Hrest Hz1
                (todo_after g tz a _ Hg Ha Hz Ht)) as [n Hn].
    rewrite Hn. eauto.
Qed.
End FULL.

(* the body of a version: every key is a key of the version; a singleton RRset has one record *)
Lemma todo_body : forall v, version_wf_g v ->
  todo_ok (fun k => look (zone_of v) k <> None) [] (body (v_rest v)).
Proof.
  intros v (_ & Hb & Sb & _). split; [|split].
  - intros k H. exfalso. apply H. reflexivity.
  - intros r Hr. destruct (body_in_look0 _ r Hb Hr) as (S0 & Hl & _ & Hk & _).
    apply zone_of_keys. right. rewrite Hl. discriminate.
  - intros pre r post E Es. split; [reflexivity|].
    intros Hin. apply in_map_iff in Hin. destruct Hin as [r' [Ek Hr']].
    assert (Hbr : In r (body (v_rest v))) by (rewrite E; apply in_or_app; right; left; reflexivity).
    assert (Hbr' : In r' (body (v_rest v))) by (rewrite E; apply in_or_app; left; exact Hr').
    destruct (body_in_look0 _ r Hb Hbr) as (S0 & Hl & Hd & _ & Hg).
    destruct (body_in_look0 _ r' Hb Hbr') as (S1 & Hl' & Hd' & _ & Hg').
    destruct (look_single _ (rkey r) _ _ Sb Hl Es) as [d ->]. destruct Hd as [Hd|[]].
    rewrite Ek, Hl in Hl'. inversion Hl' as [[Et ES]]. subst S1. destruct Hd' as [Hd'|[]].
    assert (r = r') by (apply rr_ext; [apply Hg|apply Hg'|symmetry; exact Ek|exact Et|congruence]).
    subst r'. pose proof (NoDup_body _ Hb) as Hnd. rewrite E in Hnd.
    apply (NoDup_split_notin _ _ _ Hnd Hr').
Qed.

(* AXFR of a version of any content, any client zone, any division into messages *)
Theorem axfr_converges_general : forall v z0 ser ws,
  version_wf_g v -> chunking tAXFR (axfr_stream v) ws ->
  exists z' n, inbound_xfr z0 tAXFR ser false ws = (Done z', n) /\ zeq z' (zone_of v).
Proof.
  intros v z0 ser ws Hv Hch. unfold axfr_stream in Hch.
  apply chunking_first in Hch. destruct Hch as (w & ws' & a & -> & Hr & Hw & Hws & Hcat).
  unfold inbound_xfr, xfr_run. rewrite init_axfr. cbn [Z.eqb tAXFR tIXFR Pos.eqb]. rewrite drive_cons by solve_req.
  rewrite (first_message_axfr z0 ser w (soa_rr v) a Hw Hr) by (split; reflexivity).
  pose proof Hv as (Httl & Hwf & _ & Cv).
  assert (Hpl : Forall rec_g (body (v_rest v))) by (rewrite <- zminus_nil; apply zminus_rec_g, Hwf).
  destruct (cont_full_g (fun k => look (zone_of v) k <> None) Cv (proj2 (zone_of_keys v soakey) (or_introl eq_refl))
              ws' false (map single) a tAXFR z0 [] (match ser with Some sv => sv | None => 0 end) v
              (body (v_rest v)) parse_single_ok_g parse_group_ok_g Httl Hws Hpl zsorted_nil (todo_body v Hv) Hcat)
    as [z' [n [Hn Hz']]].
  exists z', n. split; [exact Hn|]. apply full_target_g; [exact Hv|exact Hz'].
Qed.

(* "ends early" for AXFR of a version of any content: every proper prefix of the stream, in any division
   into messages, is an error and leaves the zone alone *)
Theorem axfr_early_end_rejected_general : forall v z0 ser ws q,
  version_wf_g v -> Forall (header_ok tAXFR) ws -> q <> [] ->
  concat (map w_records ws) ++ q = axfr_stream v ->
  exists e n, inbound_xfr z0 tAXFR ser false ws = (Error e z0, n).
Proof.
  intros v z0 ser ws q Hv Hh Hq Hcat. pose proof Hv as (Httl & Hwf & _ & Cv).
  destruct ws as [|w ws'].
  { unfold inbound_xfr, xfr_run. rewrite init_axfr. cbn. eauto. }
  inversion Hh as [|? ? Hw Hws]; subst.
  destruct (w_records w) as [|r0 a] eqn:Hr.
  { unfold inbound_xfr, xfr_run. rewrite init_axfr. cbn [Z.eqb tAXFR tIXFR Pos.eqb]. rewrite drive_cons by solve_req.
    unfold process_message, from_wire. cbn [txn axfr_init incremental pub set_txn rdtype m_rcode m_question m_answer].
    destruct Hw as [Hrc Hqq]. rewrite Hrc. cbn [Z.eqb negb]. rewrite (header_ok_question tAXFR w (conj Hrc Hqq)).
    cbn [soa]. rewrite Hr. cbn. eauto. }
  unfold axfr_stream in Hcat. cbn [map concat] in Hcat. rewrite Hr in Hcat.
  cbn [app] in Hcat. inversion Hcat as [[E0 Hcat']]. subst r0. rewrite <- app_assoc in Hcat'.
  rewrite app_assoc in Hcat'. apply app_snoc_split in Hcat'.
  destruct Hcat' as [[c' [Hbody Hq']]|[_ Hq']]; [|congruence].
  assert (Hpl : Forall rec_g (body (v_rest v))) by (rewrite <- zminus_nil; apply zminus_rec_g, Hwf).
  pose proof (todo_body v Hv) as Htd.
  rewrite Hbody in Hpl, Htd. apply Forall_app in Hpl. destruct Hpl as [Hpl _].
  apply todo_prefix in Htd.
  unfold inbound_xfr, xfr_run. rewrite init_axfr. cbn [Z.eqb tAXFR tIXFR Pos.eqb]. rewrite drive_cons by solve_req.
  rewrite (first_message_axfr z0 ser w (soa_rr v) a Hw Hr) by (split; reflexivity).
  destruct (cont_full_eof_g (fun k => look (zone_of v) k <> None) Cv
              ws' false (map single) a tAXFR z0 [] (match ser with Some sv => sv | None => 0 end)
              (single (soa_rr v)) parse_single_ok_g parse_group_ok_g Hws Hpl zsorted_nil Htd) as [n Hn].
  exists eEOF, n. exact Hn.
Qed.
