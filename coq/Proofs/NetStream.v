(* C18, stream side: _net_read / _net_write under every chunking, EOF, deadline, and the
   2-octet length framing of send_tcp / receive_tcp / tcp. *)
From DV Require Import Base.Prelude Model.NameM Model.NetM Proofs.NameOrder Proofs.NetUdp.
Open Scope Z_scope.

(* ------------------------------------------------------------------ *)
(* list facts                                                           *)

Lemma firstn_add {A} : forall (a b : nat) (l : list A),
  firstn (a + b) l = firstn a l ++ firstn b (skipn a l).
Proof.
  induction a as [|a IH]; intros b l; cbn [Nat.add firstn skipn app]; auto.
  destruct l as [|x l]; cbn [firstn skipn app].
  - destruct b; reflexivity.
  - rewrite IH. reflexivity.
Qed.

Lemma firstn_len_firstn {A} : forall (m : nat) (l : list A),
  firstn (length (firstn m l)) l = firstn m l.
Proof.
  induction m as [|m IH]; intros l; cbn [firstn length]; auto.
  destruct l as [|x l]; cbn [firstn length]; auto. rewrite IH. reflexivity.
Qed.

Lemma skipn_add {A} : forall (a b : nat) (l : list A), skipn b (skipn a l) = skipn (a + b) l.
Proof.
  induction a as [|a IH]; intros b l; cbn [Nat.add skipn]; auto.
  destruct l as [|x l]; cbn [skipn]; auto. destruct b; reflexivity.
Qed.

Lemma firstn_nil_inv {A} (m : nat) (l : list A) : firstn m l = [] -> m = 0%nat \/ l = [].
Proof. destruct m; destruct l; cbn; auto. discriminate. Qed.

(* ------------------------------------------------------------------ *)
(* _net_read                                                            *)

Section Read.
  Variable expiration : option Z.

  (* SOUNDNESS, for every script (every chunking, any would-blocks, EOF events, any deadline):
     if _net_read returns at all, it returns exactly the next `count` octets of the stream, and
     the octets after them are still in the stream; the script consumed is a prefix *)
  Lemma net_read_loop_ok : forall evs stream count s now res sk,
    net_read_loop expiration evs stream count s now = Ok (res, sk) ->
    (count <= length stream)%nat /\ res = s ++ firstn count stream /\
    rs_stream sk = skipn count stream /\ exists used, evs = used ++ rs_evs sk.
  Proof.
    induction evs as [|ev evs IH]; intros stream count s now res sk H.
    - destruct count as [|c]; cbn [net_read_loop] in H.
      + inversion H; subst. cbn. rewrite app_nil_r. repeat split; auto; try lia. exists []. reflexivity.
      + destruct (Nat.leb (S c) (length stream)) eqn:L; [|discriminate].
        apply Nat.leb_le in L. inversion H; subst. cbn [rs_stream rs_evs].
        repeat split; auto. exists []. reflexivity.
    - destruct count as [|c].
      + cbn [net_read_loop] in H. inversion H; subst. cbn. rewrite app_nil_r.
        repeat split; auto; try lia. exists []. reflexivity.
      + destruct ev as [k|dt|]; cbn [net_read_loop] in H.
        * remember (firstn (Nat.min k (S c)) stream) as n eqn:En.
          destruct n as [|x n']; [discriminate|].
          rewrite En in H. apply IH in H. rewrite <- En in H.
          destruct H as (Hle & Hres & Hst & used & Hev).
          assert (Hlen : (length (x :: n') <= S c)%nat).
          { rewrite En, firstn_length. lia. }
          assert (Hlen2 : (length (x :: n') <= length stream)%nat).
          { rewrite En, firstn_length. lia. }
          rewrite skipn_length in Hle.
          assert (Hn : x :: n' = firstn (length (x :: n')) stream).
          { rewrite En. symmetry. apply firstn_len_firstn. }
          split; [lia|]. split.
          -- rewrite Hres, <- app_assoc. f_equal.
             replace (S c) with (length (x :: n') + (S c - length (x :: n')))%nat at 2 by lia.
             rewrite firstn_add. rewrite <- Hn. reflexivity.
          -- split.
             ++ rewrite Hst, skipn_add. f_equal. lia.
             ++ exists (RAvail k :: used). rewrite Hev. reflexivity.
        * destruct (wait_for now expiration dt) as [now'| |]; cbn [bind] in H; try discriminate.
          apply IH in H. destruct H as (Hle & Hres & Hst & used & Hev).
          repeat split; auto. exists (RBlock dt :: used). rewrite Hev. reflexivity.
        * discriminate.
  Qed.

  Theorem net_read_chunking sk count res sk' :
    net_read expiration sk count = Ok (res, sk') ->
    res = firstn count (rs_stream sk) /\ length res = count /\
    rs_stream sk = res ++ rs_stream sk'.
  Proof.
    unfold net_read. intros H. apply net_read_loop_ok in H.
    destruct H as (Hle & Hres & Hst & _). cbn [app] in Hres. subst res.
    split; auto. split.
    - rewrite firstn_length. lia.
    - rewrite Hst. symmetry. apply firstn_skipn.
  Qed.

  (* never a short message: an early end of the stream is never an Ok *)
  Theorem eof_is_error sk count :
    (length (rs_stream sk) < count)%nat -> forall r, net_read expiration sk count <> Ok r.
  Proof.
    intros Hlt [res sk'] H. unfold net_read in H. apply net_read_loop_ok in H. lia.
  Qed.

  (* the only possible failures are the documented ones *)
  Lemma net_read_loop_errors : forall evs stream count s now,
    match net_read_loop expiration evs stream count s now with
    | Ok _ => True
    | Lib e => e = neEOF \/ e = neTimeout
    | Internal e => e = niScriptEnd /\ expiration = None
    end.
  Proof.
    induction evs as [|ev evs IH]; intros stream count s now.
    - destruct count; cbn [net_read_loop]; auto. destruct (Nat.leb (S count) (length stream)); auto.
    - destruct count as [|c]; cbn [net_read_loop]; auto.
      destruct ev as [k|dt|]; auto.
      + destruct (firstn (Nat.min k (S c)) stream); auto. apply IH.
      + unfold wait_for. destruct expiration as [e|].
        * destruct (e - now <=? 0); cbn [bind]; auto.
          destruct dt as [d|]; cbn [bind]; auto. destruct (d <? e - now); cbn [bind]; auto. apply IH.
        * destruct dt as [d|]; cbn [bind]; auto. apply IH.
  Qed.
End Read.

(* a script that only fragments and delays: every recv hands over at least one octet or
   would-blocks for a finite time; no EOF event *)
Definition benign_r (e : rxev) : Prop :=
  match e with
  | RAvail k => (1 <= k)%nat
  | RBlock (Some _) => True
  | _ => False
  end.

(* COMPLETENESS: for every such chunking of a stream, without a deadline, reading count octets
   that are there succeeds (and by soundness yields exactly them) *)
Lemma net_read_loop_complete : forall evs stream count s now,
  Forall benign_r evs -> (count <= length stream)%nat ->
  exists sk, net_read_loop None evs stream count s now = Ok (s ++ firstn count stream, sk)
             /\ rs_stream sk = skipn count stream /\ Forall benign_r (rs_evs sk).
Proof.
  induction evs as [|ev evs IH]; intros stream count s now Hb Hle.
  - destruct count as [|c]; cbn [net_read_loop].
    + eexists. cbn. rewrite app_nil_r. split; [reflexivity|]. cbn. auto.
    + apply Nat.leb_le in Hle. rewrite Hle. eexists. split; [reflexivity|]. cbn. auto.
  - inversion Hb as [|? ? Hev Hrest]; subst.
    destruct count as [|c]; cbn [net_read_loop].
    + eexists. cbn. rewrite app_nil_r. split; [reflexivity|]. cbn. auto.
    + destruct ev as [k|[d|]|]; cbn [benign_r] in Hev; try contradiction.
      * remember (firstn (Nat.min k (S c)) stream) as n eqn:En.
        destruct n as [|x n'].
        { symmetry in En. apply firstn_nil_inv in En. destruct En as [E|E]; [lia|].
          subst stream. cbn in Hle. lia. }
        assert (Hlen : (length (x :: n') <= S c)%nat) by (rewrite En, firstn_length; lia).
        assert (Hlen2 : (length (x :: n') <= length stream)%nat) by (rewrite En, firstn_length; lia).
        assert (Hn : x :: n' = firstn (length (x :: n')) stream).
        { rewrite En. symmetry. apply firstn_len_firstn. }
        destruct (IH (skipn (length (x :: n')) stream) (S c - length (x :: n'))%nat (s ++ x :: n') now Hrest)
          as (sk & Hr & Hst & Hbs).
        { rewrite skipn_length. lia. }
        exists sk. split; [|split; auto].
        -- rewrite Hr. f_equal. f_equal. rewrite <- app_assoc. f_equal.
           replace (S c) with (length (x :: n') + (S c - length (x :: n')))%nat at 2 by lia.
           rewrite firstn_add, <- Hn. reflexivity.
        -- rewrite Hst, skipn_add. f_equal. lia.
      * cbn [wait_for bind]. apply IH; auto.
Qed.

Theorem net_read_chunking_complete sk count :
  Forall benign_r (rs_evs sk) -> (count <= length (rs_stream sk))%nat ->
  exists sk', net_read None sk count = Ok (firstn count (rs_stream sk), sk')
              /\ rs_stream sk' = skipn count (rs_stream sk) /\ Forall benign_r (rs_evs sk').
Proof.
  intros Hb Hle. unfold net_read.
  destruct (net_read_loop_complete (rs_evs sk) (rs_stream sk) count [] (rs_now sk) Hb Hle)
    as (sk' & H1 & H2 & H3).
  exists sk'. cbn [app] in H1. auto.
Qed.

(* ... and when the stream ends early the outcome is EOFError *)
Lemma net_read_loop_eof : forall evs stream count s now,
  Forall benign_r evs -> (length stream < count)%nat ->
  net_read_loop None evs stream count s now = Lib neEOF.
Proof.
  induction evs as [|ev evs IH]; intros stream count s now Hb Hlt.
  - destruct count as [|c]; [lia|]. cbn [net_read_loop].
    destruct (Nat.leb (S c) (length stream)) eqn:L; auto. apply Nat.leb_le in L. lia.
  - inversion Hb as [|? ? Hev Hrest]; subst.
    destruct count as [|c]; [lia|]. cbn [net_read_loop].
    destruct ev as [k|[d|]|]; cbn [benign_r] in Hev; try contradiction.
    + remember (firstn (Nat.min k (S c)) stream) as n eqn:En.
      destruct n as [|x n']; auto.
      assert (Hlen2 : (length (x :: n') <= length stream)%nat) by (rewrite En, firstn_length; lia).
      apply IH; auto. rewrite skipn_length. lia.
    + cbn [wait_for bind]. apply IH; auto.
Qed.

Theorem eof_is_eoferror sk count :
  Forall benign_r (rs_evs sk) -> (length (rs_stream sk) < count)%nat ->
  net_read None sk count = Lib neEOF.
Proof. intros. unfold net_read. apply net_read_loop_eof; auto. Qed.

(* DEADLINE: a successful read never waited beyond the deadline ... *)
Lemma net_read_loop_deadline e : forall evs stream count s now res sk,
  net_read_loop (Some e) evs stream count s now = Ok (res, sk) ->
  rs_now sk = now \/ rs_now sk < e.
Proof.
  induction evs as [|ev evs IH]; intros stream count s now res sk H.
  - destruct count; cbn [net_read_loop] in H.
    + inversion H; subst. auto.
    + destruct (Nat.leb (S count) (length stream)); inversion H; subst. auto.
  - destruct count as [|c]; cbn [net_read_loop] in H.
    + inversion H; subst. auto.
    + destruct ev as [k|dt|].
      * destruct (firstn (Nat.min k (S c)) stream); [discriminate|]. eapply IH; eauto.
      * destruct (wait_for now (Some e) dt) as [now'| |] eqn:W; cbn [bind] in H; try discriminate.
        apply wait_for_ok_lt in W. apply IH in H. lia.
      * discriminate.
Qed.

(* ... and a would-block that lasts to the deadline (or a deadline already passed) is Timeout,
   whatever arrived before it: the octets read so far are not returned *)
Fixpoint no_wait (pre : list rxev) : Prop :=
  match pre with
  | [] => True
  | RAvail _ :: r => no_wait r
  | _ => False
  end.

Lemma net_read_loop_timeout e : forall pre dt rest stream count s now,
  no_wait pre ->
  (match dt with Some d => e - now <= d | None => True end) ->
  match net_read_loop (Some e) (pre ++ RBlock dt :: rest) stream count s now with
  | Ok (res, sk) => (length (rs_evs sk) > length rest)%nat
  | Lib e' => e' = neTimeout \/ e' = neEOF
  | Internal _ => False
  end.
Proof.
  induction pre as [|ev pre IH]; intros dt rest stream count s now Hnw Hdt.
  - destruct count as [|c]; cbn [app net_read_loop rs_evs length].
    + lia.
    + assert (W : wait_for now (Some e) dt = Lib neTimeout).
      { unfold wait_for. destruct (e - now <=? 0); auto. destruct dt as [d|]; auto.
        destruct (d <? e - now) eqn:D; auto. apply Z.ltb_lt in D. lia. }
      rewrite W. cbn [bind]. auto.
  - destruct ev as [k| |]; cbn [no_wait] in Hnw; try contradiction.
    destruct count as [|c]; cbn [app net_read_loop rs_evs].
    + cbn [length]. rewrite app_length. cbn [length]. lia.
    + destruct (firstn (Nat.min k (S c)) stream) as [|x n']; auto.
      apply IH; auto.
Qed.

(* the form used in the property file: if the read gets as far as a would-block that cannot end
   before the deadline, it does not return a message *)
Theorem deadline_is_error e pre dt rest sk count :
  rs_evs sk = pre ++ RBlock dt :: rest -> no_wait pre ->
  (match dt with Some d => e - rs_now sk <= d | None => True end) ->
  forall res sk', net_read (Some e) sk count = Ok (res, sk') ->
  (length (rs_evs sk') > length rest)%nat.
Proof.
  intros Hev Hnw Hdt res sk' H. unfold net_read in H. rewrite Hev in H.
  pose proof (net_read_loop_timeout e pre dt rest (rs_stream sk) count [] (rs_now sk) Hnw Hdt) as T.
  rewrite H in T. exact T.
Qed.

(* ------------------------------------------------------------------ *)
(* _net_write                                                           *)

(* SOUNDNESS for every script: when _net_write returns, the socket has received exactly the
   data, each octet once and in order *)
Lemma net_write_loop_ok exp : forall evs data sent now sent' evs' now',
  net_write_loop exp evs data sent now = Ok (sent', evs', now') -> sent' = sent ++ data.
Proof.
  induction evs as [|ev evs IH]; intros data sent now sent' evs' now' H.
  - destruct data; cbn [net_write_loop] in H; inversion H; subst; auto. rewrite app_nil_r. auto.
  - destruct data as [|x data]; cbn [net_write_loop] in H.
    + inversion H; subst. rewrite app_nil_r. auto.
    + destruct ev as [k|dt].
      * apply IH in H. rewrite H, <- app_assoc, firstn_skipn. reflexivity.
      * destruct (wait_for now exp dt); cbn [bind] in H; try discriminate.
        apply IH in H. auto.
Qed.

Theorem send_all_in_order exp evs data now sent evs' now' :
  net_write_loop exp evs data [] now = Ok (sent, evs', now') -> sent = data.
Proof. intros H. apply net_write_loop_ok in H. auto. Qed.

Definition benign_w (e : txev) : Prop :=
  match e with
  | WAccept _ => True           (* even a send that takes nothing *)
  | WBlock (Some _) => True
  | WBlock None => False
  end.

(* COMPLETENESS: without a deadline, every fragmentation of the writes gets all data out *)
Theorem send_all_complete : forall evs data sent now,
  Forall benign_w evs ->
  exists evs' now', net_write_loop None evs data sent now = Ok (sent ++ data, evs', now').
Proof.
  induction evs as [|ev evs IH]; intros data sent now Hb.
  - destruct data; cbn [net_write_loop]; [rewrite app_nil_r|]; eauto.
  - inversion Hb as [|? ? Hev Hrest]; subst.
    destruct data as [|x data]; cbn [net_write_loop].
    + rewrite app_nil_r. eauto.
    + destruct ev as [k|[d|]]; cbn [benign_w] in Hev; try contradiction.
      * destruct (IH (skipn k (x :: data)) (sent ++ firstn k (x :: data)) now Hrest) as (e' & n' & H).
        rewrite H, <- app_assoc, firstn_skipn. eauto.
      * cbn [wait_for bind]. apply IH; auto.
Qed.

(* on a failure what reached the socket is a prefix of the data: nothing out of order, nothing
   twice (trace version of the loop) *)
Fixpoint net_write_trace (exp : option Z) (evs : list txev) (data sent : list Z) (now : Z) : list Z :=
  match data with
  | [] => sent
  | _ :: _ =>
      match evs with
      | [] => sent ++ data
      | WAccept k :: r => net_write_trace exp r (skipn k data) (sent ++ firstn k data) now
      | WBlock dt :: r =>
          match wait_for now exp dt with
          | Ok now' => net_write_trace exp r data sent now'
          | _ => sent
          end
      end
  end.

Lemma net_write_trace_prefix exp : forall evs data sent now,
  exists done, net_write_trace exp evs data sent now = sent ++ done /\ exists rest, data = done ++ rest.
Proof.
  induction evs as [|ev evs IH]; intros data sent now.
  - destruct data; cbn [net_write_trace].
    + exists []. rewrite app_nil_r. split; auto. exists []. auto.
    + exists (z :: data). split; auto. exists []. rewrite app_nil_r. auto.
  - destruct data as [|x data]; cbn [net_write_trace].
    + exists []. rewrite app_nil_r. split; auto. exists []. auto.
    + destruct ev as [k|dt].
      * destruct (IH (skipn k (x :: data)) (sent ++ firstn k (x :: data)) now) as (d & Hd & rest & Hr).
        exists (firstn k (x :: data) ++ d). split.
        -- rewrite Hd, app_assoc. reflexivity.
        -- exists rest. rewrite <- app_assoc, <- Hr, firstn_skipn. reflexivity.
      * destruct (wait_for now exp dt).
        -- apply IH.
        -- exists []. rewrite app_nil_r. split; auto. exists (x :: data). auto.
        -- exists []. rewrite app_nil_r. split; auto. exists (x :: data). auto.
Qed.

Lemma net_write_trace_ok exp : forall evs data sent now sent' evs' now',
  net_write_loop exp evs data sent now = Ok (sent', evs', now') ->
  net_write_trace exp evs data sent now = sent'.
Proof.
  induction evs as [|ev evs IH]; intros data sent now sent' evs' now' H.
  - destruct data; cbn [net_write_loop net_write_trace] in *; inversion H; auto.
  - destruct data as [|x data]; cbn [net_write_loop net_write_trace] in *.
    + inversion H; auto.
    + destruct ev as [k|dt].
      * eapply IH; eauto.
      * destruct (wait_for now exp dt); cbn [bind] in H; try discriminate. eapply IH; eauto.
Qed.

(* ------------------------------------------------------------------ *)
(* length framing                                                       *)

Definition frame (w : list Z) : list Z := u16be (zlen w) ++ w.

Lemma u16be_decode n : 0 <= n -> (n / 256) * 256 + n mod 256 = n.
Proof. intros H. pose proof (Z.div_mod n 256). lia. Qed.

Section Framing.
  Variable parse : list Z -> pabs.

  Theorem send_tcp_frames exp evs what now n sent evs' now' :
    send_tcp exp evs what now = Ok (n, (sent, evs', now')) ->
    zlen what <= 65535 /\ sent = frame what /\ n = zlen what + 2.
  Proof.
    unfold send_tcp. destruct (zlen what >? 65535) eqn:G; [discriminate|].
    destruct (net_write_loop exp evs (u16be (zlen what) ++ what) [] now) as [[[s e] t]| |] eqn:W;
      cbn [bind]; try discriminate.
    intros H. inversion H; subst. apply net_write_loop_ok in W. cbn [app] in W. subst.
    split; [lia|]. split; [reflexivity|].
    unfold zlen, u16be. cbn [app length]. lia.
  Qed.

  (* a message longer than the prefix can express is refused, not mis-framed *)
  Theorem send_tcp_too_long exp evs what now :
    zlen what > 65535 -> send_tcp exp evs what now = Internal niOverflow.
  Proof. intros H. unfold send_tcp. destruct (zlen what >? 65535) eqn:G; auto. lia. Qed.

  (* EXACT FRAMING on arbitrary input, for every script: a message returned by receive_tcp is
     the octets that follow a 2-octet big-endian length, exactly that many, and everything after
     them is left in the stream *)
  Theorem receive_tcp_exact exp it sk m wire sk' :
    receive_tcp parse exp it sk = Ok (m, wire, sk') ->
    exists hi lo, rs_stream sk = hi :: lo :: wire ++ rs_stream sk' /\
                  length wire = Z.to_nat (hi * 256 + lo) /\
                  from_wire_out (parse wire) it false = POk m.
  Proof.
    unfold receive_tcp.
    destruct (net_read exp sk 2) as [[ldata sk1]| |] eqn:R1; cbn [bind]; try discriminate.
    apply net_read_chunking in R1. destruct R1 as (_ & Hlen & Hs1).
    destruct ldata as [|hi [|lo [|]]]; try discriminate.
    destruct (net_read exp sk1 (Z.to_nat (hi * 256 + lo))) as [[w sk2]| |] eqn:R2; cbn [bind]; try discriminate.
    apply net_read_chunking in R2. destruct R2 as (_ & Hlen2 & Hs2).
    destruct (from_wire_out (parse w) it false) as [m'|m'|e] eqn:P; try discriminate.
    - intros H. inversion H; subst. exists hi, lo. rewrite Hs1, Hs2. cbn [app]. auto.
    - unfold err_res. destruct (e <? 20); discriminate.
  Qed.

  (* ROUND TRIP: what send_tcp put on the wire (under any write fragmentation) is read back by
     receive_tcp (under any read fragmentation) as exactly the same message, and what follows
     it on the connection is untouched *)
  Theorem tcp_frame_roundtrip what more exp wevs now n sent evs' now' exp2 it revs now2 m wire sk' :
    send_tcp exp wevs what now = Ok (n, (sent, evs', now')) ->
    receive_tcp parse exp2 it {| rs_stream := sent ++ more; rs_evs := revs; rs_now := now2 |}
      = Ok (m, wire, sk') ->
    wire = what /\ rs_stream sk' = more /\ from_wire_out (parse what) it false = POk m.
  Proof.
    intros Hs Hr. apply send_tcp_frames in Hs. destruct Hs as (Hlen & -> & _).
    apply receive_tcp_exact in Hr. destruct Hr as (hi & lo & Hst & Hl & Hp).
    cbn [rs_stream] in Hst. unfold frame, u16be in Hst. cbn [app] in Hst.
    inversion Hst as [[Hhi Hlo Hrest]]. subst hi lo.
    assert (0 <= zlen what) by (unfold zlen; lia).
    rewrite u16be_decode in Hl by auto. unfold zlen in Hl. rewrite Nat2Z.id in Hl.
    assert (E : wire = what /\ rs_stream sk' = more).
    { clear - Hrest Hl. revert wire Hrest Hl. induction what as [|x w IH]; intros wire Hrest Hl.
      - destruct wire; [|discriminate]. cbn in Hrest. auto.
      - destruct wire as [|y wire]; [discriminate|]. cbn [app] in Hrest. inversion Hrest; subst.
        cbn [length] in Hl. destruct (IH wire) as [-> ->]; auto. }
    destruct E as [-> ->]. auto.
  Qed.

  (* completeness of the round trip under scripts that only fragment and delay *)
  Theorem tcp_frame_roundtrip_complete what more it revs now2 :
    zlen what <= 65535 -> Forall benign_r revs ->
    exists sk', rs_stream sk' = more /\ Forall benign_r (rs_evs sk') /\
      receive_tcp parse None it {| rs_stream := frame what ++ more; rs_evs := revs; rs_now := now2 |}
      = match from_wire_out (parse what) it false with
        | POk m => Ok (m, what, sk')
        | PTrunc _ => Lib neTruncated
        | PErr e => err_res e
        end.
  Proof.
    intros Hlen Hb. unfold receive_tcp.
    assert (H0 : 0 <= zlen what) by (unfold zlen; lia).
    assert (L1 : (2 <= length (rs_stream {| rs_stream := frame what ++ more; rs_evs := revs; rs_now := now2 |}))%nat).
    { cbn [rs_stream]. unfold frame, u16be. cbn [app length]. lia. }
    destruct (net_read_chunking_complete
                {| rs_stream := frame what ++ more; rs_evs := revs; rs_now := now2 |} 2 Hb L1) as (sk1 & R1 & S1 & B1).
    rewrite R1. cbn [bind rs_stream]. unfold frame, u16be. cbn [app firstn].
    cbn [rs_stream] in S1. unfold frame, u16be in S1. cbn [app skipn] in S1.
    rewrite u16be_decode by auto.
    assert (L2 : (Z.to_nat (zlen what) <= length (rs_stream sk1))%nat).
    { rewrite S1, app_length. unfold zlen. rewrite Nat2Z.id. lia. }
    destruct (net_read_chunking_complete sk1 (Z.to_nat (zlen what)) B1 L2) as (sk2 & R2 & S2 & B2).
    rewrite R2. cbn [bind]. rewrite S1. unfold zlen. rewrite Nat2Z.id.
    rewrite firstn_app, Nat.sub_diag, firstn_all. cbn [firstn]. rewrite app_nil_r.
    exists sk2. split.
    - rewrite S2, S1. unfold zlen. rewrite Nat2Z.id.
      rewrite skipn_app, Nat.sub_diag, skipn_all. reflexivity.
    - split; auto.
  Qed.

  (* ---- several messages on one connection ---- *)

  Theorem send_tcp_n_frames exp : forall msgs evs now sent,
    send_tcp_n exp evs msgs now = Ok sent ->
    sent = concat (map frame msgs) /\ Forall (fun w => zlen w <= 65535) msgs.
  Proof.
    induction msgs as [|w msgs IH]; intros evs now sent H; cbn [send_tcp_n] in H.
    - inversion H. cbn. auto.
    - destruct (send_tcp exp evs w now) as [[n [[s e] t]]| |] eqn:S; cbn [bind] in H; try discriminate.
      destruct (send_tcp_n exp e msgs t) as [rest| |] eqn:R; cbn [bind] in H; try discriminate.
      inversion H; subst. apply send_tcp_frames in S. destruct S as (Hl & -> & _).
      apply IH in R. destruct R as [-> Hf]. cbn [map concat]. auto.
  Qed.

  (* the j-th message returned is the j-th message sent: no message is lost, duplicated,
     merged with its neighbour or split, under any fragmentation *)
  Theorem receive_tcp_n_in_order exp it more : forall msgs k sk j m w t,
    (k <= length msgs)%nat ->
    rs_stream sk = concat (map frame msgs) ++ more ->
    Forall (fun w => zlen w <= 65535) msgs ->
    nth_error (receive_tcp_n parse exp it k sk) j = Some (Ok (m, w, t)) ->
    nth_error msgs j = Some w /\ from_wire_out (parse w) it false = POk m.
  Proof.
    induction msgs as [|w0 msgs IH]; intros k sk j m w t Hk Hst Hf Hn.
    - destruct k; [|cbn in Hk; lia]. cbn in Hn. destruct j; discriminate.
    - destruct k as [|k]; [destruct j; discriminate|].
      cbn [receive_tcp_n] in Hn.
      destruct (receive_tcp parse exp it sk) as [[[m1 w1] sk1]| |] eqn:R.
      + inversion Hf as [|? ? Hl Hf']; subst.
        cbn [map concat] in Hst. rewrite <- app_assoc in Hst.
        destruct sk as [st ev nw]. cbn [rs_stream] in Hst. subst st.
        assert (S : send_tcp None [] w0 0 = Ok (zlen (frame w0), (frame w0, [], 0))).
        { unfold send_tcp. destruct (zlen w0 >? 65535) eqn:G; [lia|].
          fold (frame w0). destruct (frame w0) eqn:F; [discriminate|]. reflexivity. }
        destruct (tcp_frame_roundtrip _ _ _ _ _ _ _ _ _ _ _ _ _ _ _ _ S R) as (-> & Hm & Hp).
        destruct j as [|j]; cbn [nth_error] in Hn.
        * inversion Hn; subst. cbn [nth_error]. auto.
        * cbn [nth_error]. cbn [length] in Hk. apply (IH k sk1 j m w t); [lia | exact Hm | exact Hf' | exact Hn].
      + destruct j as [|[|j]]; cbn in Hn; discriminate.
      + destruct j as [|[|j]]; cbn in Hn; discriminate.
  Qed.

  (* ---- tcp() ---- *)

  (* for every write / read script and every option: a message returned by tcp() is a response to
     the query, is the first frame of the stream, was parsed without error, the query went out
     length-prefixed, and nothing beyond the frame was consumed *)
  Theorem tcp_returns_genuine q qwire timeout it wevs stream revs now m wire t sent sk :
    tcp parse q qwire timeout it wevs stream revs now = Ok (m, wire, t, sent, sk) ->
    genuine q m /\ sent = frame qwire /\
    from_wire_out (parse wire) it false = POk m /\
    exists hi lo, stream = hi :: lo :: wire ++ rs_stream sk /\ length wire = Z.to_nat (hi * 256 + lo).
  Proof.
    unfold tcp. destruct (compute_times now timeout) as [begin_time expiration].
    destruct (send_tcp expiration wevs qwire now) as [[n [[s e] t1]]| |] eqn:S; cbn [bind]; try discriminate.
    destruct (receive_tcp parse expiration it {| rs_stream := stream; rs_evs := revs; rs_now := t1 |})
      as [[[m1 w1] sk1]| |] eqn:R; cbn [bind]; try discriminate.
    destruct (negb (is_response q m1)) eqn:Ir; [discriminate|].
    intros H. inversion H; subst.
    apply negb_false_iff, is_response_iff in Ir.
    apply send_tcp_frames in S. destruct S as (_ & -> & _).
    apply receive_tcp_exact in R. destruct R as (hi & lo & Hst & Hl & Hp). cbn [rs_stream] in Hst.
    split; auto. split; auto. split; auto. exists hi, lo. auto.
  Qed.

  (* a well-formed reply that does not answer the query is BadResponse, never returned *)
  Theorem tcp_bad_response q qwire timeout it wevs stream revs now :
    forall n s e t1 m w sk1,
    send_tcp (snd (compute_times now timeout)) wevs qwire now = Ok (n, (s, e, t1)) ->
    receive_tcp parse (snd (compute_times now timeout)) it
                {| rs_stream := stream; rs_evs := revs; rs_now := t1 |} = Ok (m, w, sk1) ->
    ~ genuine q m ->
    tcp parse q qwire timeout it wevs stream revs now = Lib neBadResponse.
  Proof.
    intros n s e t1 m w sk1 S R G. unfold tcp.
    destruct (compute_times now timeout) as [begin_time expiration]. cbn [snd] in S, R.
    rewrite S. cbn [bind]. rewrite R. cbn [bind].
    apply not_genuine_false in G. rewrite G. reflexivity.
  Qed.
End Framing.

(* ------------------------------------------------------------------ *)
(* udp_with_fallback                                                    *)

Section Fallback.
  Variable parse : list Z -> pabs.

  (* whichever transport answered, the message returned answers the query; one that came over
     UDP came from the queried address and does not have the TC bit; TCP is used only after the
     UDP exchange ended in Truncated *)
  Theorem udp_with_fallback_returns_genuine q qwire where_ timeout af o evs wevs stream revs now used m wire t :
    udp_with_fallback parse q qwire where_ timeout af o evs wevs stream revs now = Ok (used, (m, wire, t)) ->
    genuine q m /\
    (used = false ->
       has_tc m = false /\
       exists pre from rest, evs = pre ++ UData wire from :: rest /\ src_ok af from (Some where_)) /\
    (used = true ->
       exists i, udp parse q qwire where_ timeout af (with_rot o) [] evs now = (i, Lib neTruncated)).
  Proof.
    unfold udp_with_fallback.
    destruct (udp parse q qwire where_ timeout af (with_rot o) [] evs now) as [i [x|e|e]] eqn:U.
    - destruct x as [[[[r w] t0] from] rest]. intros H. inversion H; subst.
      apply udp_returns_genuine in U. destruct U as (Hg & Hs & Hp & pre & Hev & _).
      split; auto. split; [|discriminate].
      intros _. split.
      + apply from_wire_ok_wellformed in Hp. destruct Hp as (_ & _ & _ & _ & Htc). apply Htc. reflexivity.
      + exists pre, from, rest. auto.
    - destruct (e =? neTruncated) eqn:E; [|discriminate].
      apply Z.eqb_eq in E. subst e.
      destruct (tcp parse q qwire timeout (o_ignore_trailing o) wevs stream revs
                    (now + blocks_time (firstn i evs))) as [[[[[m1 w1] t1] s1] sk1]| |] eqn:T;
        cbn [bind]; try discriminate.
      intros H. inversion H; subst.
      apply tcp_returns_genuine in T. destruct T as (Hg & _).
      split; auto. split; [discriminate|]. intros _. exists i. reflexivity.
    - discriminate.
  Qed.

  (* a genuine truncated UDP reply (behind any ignorable prefix) makes the call go to TCP: the
     result is the TCP exchange's *)
  Theorem fallback_on_truncation q qwire where_ timeout af o pre wire from rest wevs stream revs now now' :
    let exp := snd (compute_times now timeout) in
    passes parse af (Some where_) exp (with_rot o) (Some q) pre now now' ->
    src_defined af (Some where_) -> src_ok af from (Some where_) ->
    p_short (parse wire) = false -> has_tc (p_msg (parse wire)) = true ->
    (forall e, p_err (parse wire) = Some e -> is_formerr e = true) ->
    genuine q (p_msg (parse wire)) ->
    udp_with_fallback parse q qwire where_ timeout af o (pre ++ UData wire from :: rest) wevs stream revs now
    = match tcp parse q qwire timeout (o_ignore_trailing o) wevs stream revs
                (now + blocks_time (firstn (length pre + 1) (pre ++ UData wire from :: rest))) with
      | Ok (m, w, t, _, _) => Ok (true, (m, w, t))
      | Lib e => Lib e
      | Internal e => Internal e
      end.
  Proof.
    intros exp Hp Hd Hs Hsh Htc He Hg. unfold udp_with_fallback.
    rewrite (NetUdp.truncation_reported parse q qwire where_ timeout af (with_rot o) pre wire from rest
               now now' Hp Hd Hs eq_refl Hsh Htc He Hg).
    cbn [Z.eqb neTruncated Pos.eqb].
    destruct (tcp parse q qwire timeout (o_ignore_trailing o) wevs stream revs
                (now + blocks_time (firstn (length pre + 1) (pre ++ UData wire from :: rest))))
      as [[[[[m1 w1] t1] s1] sk1]| |]; reflexivity.
  Qed.
End Fallback.

(* completeness of tcp(): without a deadline, under write and read scripts that only fragment and
   delay, a well-formed genuine reply is returned, and what follows it stays on the connection *)
Theorem tcp_genuine_returned (parse : list Z -> pabs) q qwire it wevs what more revs now m :
  zlen qwire <= 65535 -> zlen what <= 65535 -> Forall benign_w wevs -> Forall benign_r revs ->
  from_wire_out (parse what) it false = POk m -> genuine q m ->
  exists t sk, tcp parse q qwire None it wevs (frame what ++ more) revs now
               = Ok (m, what, t, frame qwire, sk) /\ rs_stream sk = more.
Proof.
  intros Hq Hw Bw Br Hp Hg. unfold tcp. cbn [compute_times].
  unfold send_tcp. destruct (zlen qwire >? 65535) eqn:G; [lia|].
  destruct (send_all_complete wevs (u16be (zlen qwire) ++ qwire) [] now Bw) as (evs' & now' & Hs).
  rewrite Hs. cbn [bind app].
  destruct (tcp_frame_roundtrip_complete parse what more it revs now' Hw Br) as (sk' & Hst & _ & Hr).
  rewrite Hr, Hp. cbn [bind].
  apply is_response_iff in Hg. rewrite Hg. cbn [negb].
  exists (rs_now sk' - now), sk'. split; auto.
Qed.

(* the same at the octet level for tcp(), for the parser used in the correspondence runs *)
Theorem tcp_answer_on_the_wire tab q qwire timeout it wevs stream revs now m wire t sent sk :
  tcp (lookup tab) q qwire timeout it wevs stream revs now = Ok (m, wire, t, sent, sk) ->
  exists b0 b1 b2 b3 tl, wire = b0 :: b1 :: b2 :: b3 :: tl /\
    b0 * 256 + b1 = m_id q /\ Z.land (b2 * 256 + b3) fQR <> 0 /\ (12 <= length wire)%nat.
Proof.
  intros H. apply tcp_returns_genuine in H. destruct H as (Hg & _ & Hp & _).
  apply from_wire_ok_wellformed in Hp. destruct Hp as (Hsh & He & Hm & _).
  pose proof (lookup_header_ok tab wire He) as Hh. unfold header_ok in Hh. rewrite Hsh in Hh.
  apply andb_true_iff in Hh. destruct Hh as [Hl Hh].
  apply negb_true_iff, Nat.ltb_ge in Hl.
  destruct wire as [|b0 [|b1 [|b2 [|b3 tl]]]]; cbn [wire_header] in Hh; try discriminate.
  apply andb_true_iff in Hh. destruct Hh as [Hid Hfl]. apply Z.eqb_eq in Hid, Hfl.
  destruct Hg as (Hqr & Hi & _). unfold qr_set in Hqr. subst m.
  exists b0, b1, b2, b3, tl. split; auto. split; [congruence|]. split; [congruence|auto].
Qed.

Theorem tcp_answer_question_on_the_wire tab q qwire timeout it wevs stream revs now m wire t sent sk :
  tcp (lookup tab) q qwire timeout it wevs stream revs now = Ok (m, wire, t, sent, sk) ->
  wire_question_section wire = Some (m_question m) /\ genuine q m.
Proof.
  intros H. apply tcp_returns_genuine in H. destruct H as (Hg & _ & Hp & _).
  split; auto.
  apply from_wire_ok_wellformed in Hp. destruct Hp as (Hsh & He & Hm & _).
  destruct (lookup_checked tab wire He) as [_ Hq]. unfold question_ok in Hq.
  rewrite He, Hsh in Hq.
  destruct (wire_question_section wire) as [qs|]; [|discriminate].
  apply qents_same_eq in Hq. subst. reflexivity.
Qed.

(* ------------------------------------------------------------------ *)
(* tcp(): an answer is never handed out after the deadline               *)

Lemma net_write_loop_deadline e : forall evs data sent now sent' evs' now',
  net_write_loop (Some e) evs data sent now = Ok (sent', evs', now') -> now' = now \/ now' < e.
Proof.
  induction evs as [|ev evs IH]; intros data sent now sent' evs' now' H.
  - destruct data; cbn [net_write_loop] in H; inversion H; auto.
  - destruct data as [|x data]; cbn [net_write_loop] in H.
    + inversion H; auto.
    + destruct ev as [k|dt].
      * eapply IH; eauto.
      * destruct (wait_for now (Some e) dt) as [n1| |] eqn:W; cbn [bind] in H; try discriminate.
        apply wait_for_ok_lt in W. apply IH in H. lia.
Qed.

Theorem tcp_answer_within_timeout (parse : list Z -> pabs) q qwire T it wevs stream revs now m wire t sent sk :
  tcp parse q qwire (Some T) it wevs stream revs now = Ok (m, wire, t, sent, sk) -> t = 0 \/ t < T.
Proof.
  unfold tcp. cbn [compute_times].
  unfold send_tcp. destruct (zlen qwire >? 65535); [discriminate|].
  destruct (net_write_loop (Some (now + T)) wevs (u16be (zlen qwire) ++ qwire) [] now)
    as [[[s e] t1]| |] eqn:W; cbn [bind]; try discriminate.
  apply net_write_loop_deadline in W.
  unfold receive_tcp.
  destruct (net_read (Some (now + T)) {| rs_stream := stream; rs_evs := revs; rs_now := t1 |} 2)
    as [[ldata sk1]| |] eqn:R1; cbn [bind]; try discriminate.
  unfold net_read in R1. apply net_read_loop_deadline in R1. cbn [rs_now] in R1.
  destruct ldata as [|hi [|lo [|]]]; try discriminate.
  destruct (net_read (Some (now + T)) sk1 (Z.to_nat (hi * 256 + lo))) as [[w sk2]| |] eqn:R2;
    cbn [bind]; try discriminate.
  unfold net_read in R2. apply net_read_loop_deadline in R2.
  destruct (from_wire_out (parse w) it false) as [m'|m'|e']; try discriminate.
  - cbn [bind]. destruct (negb (is_response q m')); [discriminate|].
    intros H. inversion H; subst. lia.
  - unfold err_res. destruct (e' <? 20); discriminate.
Qed.

(* ------------------------------------------------------------------ *)
(* the deadline, stated directly: octets already read are not handed out  *)

Definition late (e now : Z) (dt : option Z) : Prop :=
  match dt with Some d => e - now <= d | None => True end.

Lemma wait_for_late_timeout e now dt : late e now dt -> wait_for now (Some e) dt = Lib neTimeout.
Proof.
  unfold late, wait_for. intros H. destruct (e - now <=? 0); auto. destruct dt as [d|]; auto.
  destruct (d <? e - now) eqn:D; auto. apply Z.ltb_lt in D. lia.
Qed.

(* the socket hands over chunks of k1, k2, ... octets - fewer in total than asked for - and then
   would-blocks until the deadline: the result is Timeout, not the octets read so far *)
Theorem deadline_is_timeout e : forall ks dt rest stream count s now,
  Forall (fun k => (1 <= k)%nat) ks ->
  (list_sum ks < count)%nat -> (list_sum ks <= length stream)%nat ->
  late e now dt ->
  net_read_loop (Some e) (map RAvail ks ++ RBlock dt :: rest) stream count s now = Lib neTimeout.
Proof.
  induction ks as [|k ks IH]; intros dt rest stream count s now Hk Hlt Hle Hl.
  - change (list_sum []) with 0%nat in *. cbn [map app]. destruct count as [|c]; [lia|]. cbn [net_read_loop].
    rewrite wait_for_late_timeout by auto. reflexivity.
  - inversion Hk as [|? ? Hk1 Hks]; subst. change (list_sum (k :: ks)) with (k + list_sum ks)%nat in *.
    destruct count as [|c]; [lia|]. cbn [map app net_read_loop].
    rewrite Nat.min_l by lia.
    assert (Hlen : length (firstn k stream) = k) by (rewrite firstn_length; lia).
    destruct (firstn k stream) as [|x n'] eqn:En; [cbn in Hlen; lia|].
    rewrite Hlen. apply IH.
    + exact Hks.
    + lia.
    + rewrite skipn_length. lia.
    + exact Hl.
Qed.

(* the same for writes: short sends of k1, k2, ... octets and then a would-block until the
   deadline is Timeout *)
Theorem write_deadline_is_timeout e : forall ks dt rest data sent now,
  (list_sum ks < length data)%nat -> late e now dt ->
  net_write_loop (Some e) (map WAccept ks ++ WBlock dt :: rest) data sent now = Lib neTimeout.
Proof.
  induction ks as [|k ks IH]; intros dt rest data sent now Hlt Hl.
  - change (list_sum []) with 0%nat in *. cbn [map app]. destruct data as [|x data]; [cbn in Hlt; lia|].
    cbn [net_write_loop]. rewrite wait_for_late_timeout by auto. reflexivity.
  - change (list_sum (k :: ks)) with (k + list_sum ks)%nat in *. destruct data as [|x data]; [cbn in Hlt; lia|].
    cbn [map app net_write_loop]. apply IH; auto. rewrite skipn_length. lia.
Qed.
