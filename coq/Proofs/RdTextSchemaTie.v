(* Tie to the C02 wire model (Model/SchemaM.v, imported read-only): for the self-delimiting field kinds the
   value that from_text returns is a valid value of the corresponding SchemaM wire field, so the C02 encoder
   (encode_rdata = the constructor checks followed by to_wire) does not stop at its validation step. *)
From DV Require Import Base.Prelude Model.NameM Model.TokM Model.RdTextM.
From DV Require Model.SchemaM.
From DV Require Import Proofs.NameValid Proofs.RdText Proofs.RdTextRel Proofs.RdTextWire.
Open Scope Z_scope.

Definition width (m : Z) : nat :=
  if m <=? 255 then 1 else if m <=? 65535 then 2 else if m <=? 4294967295 then 4 else 6.

Definition to_sfld (f : tfield) : option SchemaM.sfld :=
  match f with
  | FDec m => Some (SchemaM.FU (width m) m)
  | FTtl => Some (SchemaM.FU 4 MAX_TTL)
  | FAlg => Some (SchemaM.FU 1 255)
  | FEnum k => Some (SchemaM.FU (width (enum_max k)) (enum_max k))
  | FIntC m => Some (SchemaM.FU (width m) m)
  | FSigTime => Some (SchemaM.FU 4 4294967295)
  | FOct16 => Some (SchemaM.FU 2 65535)
  | FWksProto => Some (SchemaM.FU 1 255)
  | FQStr _ ctormax _ => if ctormax =? 255 then Some (SchemaM.FCounted 1 0 255) else None
  | FHexTok => Some (SchemaM.FCounted 1 0 255)
  | FB32 => Some (SchemaM.FCounted 1 0 255)
  | FTag => Some (SchemaM.FCounted 1 0 255)
  | FGposStr => Some (SchemaM.FCounted 1 0 255)
  | FName => Some (SchemaM.FName true)
  | FNameNoRel => Some (SchemaM.FName false)
  | _ => None
  end.

Definition to_sval (v : tval) : option SchemaM.sval :=
  match v with
  | VInt z => Some (SchemaM.VI z)
  | VBytes b => Some (SchemaM.VB b)
  | VName n => Some (SchemaM.VN n)
  | _ => None
  end.

Definition shape_of (s : SchemaM.sfld) (v : tval) : Prop :=
  match s, v with
  | SchemaM.FU _ _, VInt _ => True
  | SchemaM.FCounted _ _ _, VBytes _ => True
  | SchemaM.FName _, VName _ => True
  | _, _ => False
  end.

Ltac crack H :=
  repeat match type of H with
         | (do _ <- ?e; _) = _ =>
             let E := fresh "E" in
             first [destruct e as [[? ?]| |] eqn:E | destruct e as [?| |] eqn:E]; cbn [bind fst snd] in H; try discriminate
         | (if ?b then _ else _) = _ => destruct b; try discriminate
         end.

Ltac crack1 H :=
  repeat match type of H with
         | (do _ <- ?e; _) = _ => let E := fresh "E" in destruct e as [?| |] eqn:E; cbn [bind fst snd] in H; try discriminate
         | (if ?b then _ else _) = _ => destruct b; try discriminate
         end.

(* the constructor of the value follows from the field *)
Lemma parse_shape c f st raw st' v s : to_sfld f = Some s ->
  parse_field c f st = Ok (raw, st') -> ctor_field f raw = Ok v -> shape_of s v.
Proof.
  intros Hs H Hc.
  destruct f; cbn [to_sfld] in Hs; try discriminate;
    try (destruct (ctormax =? 255) eqn:Ec; [|discriminate]);
    inversion Hs; subst s; clear Hs; cbn [parse_field] in H; crack H; inversion H; subst; clear H;
    cbn [ctor_field] in Hc; crack1 Hc; inversion Hc; subst; exact Logic.I.
Qed.

Theorem tie_field c f st raw st' v s : to_sfld f = Some s ->
  parse_field c f st = Ok (raw, st') -> ctor_field f raw = Ok v ->
  exists x, to_sval v = Some x /\ SchemaM.valid_s s x = true.
Proof.
  intros Hs H Hc. pose proof (parse_shape c f st raw st' v s Hs H Hc) as Hsh.
  destruct (parse_field_wire c f st raw st' v H Hc) as [He Hx].
  destruct f; cbn [to_sfld] in Hs; try discriminate;
    try (destruct (ctormax =? 255) eqn:Ec; [|discriminate]);
    inversion Hs; subst s; clear Hs;
    destruct v; cbn [shape_of] in Hsh; try contradiction;
    cbn [val_encodable] in He; cbn [wire_extra] in Hx;
    (eexists; split; [reflexivity|]); cbn [SchemaM.valid_s]; unfold SchemaM.len_in; try lia.
  all: try (apply validate_iff in Hx; rewrite Hx; reflexivity).
  all: try (apply Z.eqb_eq in Ec); unfold zlen in *; lia.
Qed.

Fixpoint seq_z (n : nat) (s : Z) : list Z := match n with O => [] | S k => s :: seq_z k (s + 1) end.

(* ---------- whole records: self-delimiting fields, then possibly one field that runs to the end ---------- *)
Definition to_fld (f : tfield) : option SchemaM.fld :=
  match to_sfld f with
  | Some s => Some (SchemaM.FS s)
  | None =>
      match f with
      | FHexRest | FB64Rest _ | FNsap | FB64RestE => Some (SchemaM.FRemaining 0)
      | FTxtRest => Some (SchemaM.FRepeat true false [SchemaM.FCounted 1 0 255])
      | _ => None
      end
  end.

Definition to_val (f : tfield) (v : tval) : option SchemaM.val :=
  match f, v with
  | FTxtRest, VStrs l => Some (SchemaM.VL (map (fun s => [SchemaM.VB s]) l))
  | FTxtRest, _ => None
  | _, _ => match to_sval v with Some x => Some (SchemaM.VS x) | None => None end
  end.

Fixpoint to_fields (fs : list tfield) : option (list SchemaM.fld) :=
  match fs with
  | [] => Some []
  | f :: r => match to_fld f, to_fields r with
              | Some s, Some t => Some (s :: t)
              | _, _ => None
              end
  end.

Fixpoint to_vals (fs : list tfield) (vs : list tval) : option (list SchemaM.val) :=
  match fs, vs with
  | [], [] => Some []
  | f :: fr, v :: r => match to_val f v, to_vals fr r with
                       | Some x, Some t => Some (x :: t)
                       | _, _ => None
                       end
  | _, _ => None
  end.

Lemma tie_fld c f st raw st' v g : to_fld f = Some g ->
  parse_field c f st = Ok (raw, st') -> ctor_field f raw = Ok v ->
  exists x, to_val f v = Some x /\ SchemaM.valid_f g x = true.
Proof.
  intros Hg H Hc. unfold to_fld in Hg. destruct (to_sfld f) as [s|] eqn:Es.
  - inversion Hg; subst g. destruct (tie_field c f st raw st' v s Es H Hc) as (x & X1 & X2).
    exists (SchemaM.VS x). split; [|exact X2]. unfold to_val. rewrite X1.
    destruct f; try reflexivity. cbn [to_sfld] in Es. discriminate.
  - destruct (parse_field_wire c f st raw st' v H Hc) as [He Hx].
    destruct f; try discriminate; inversion Hg; subst g; clear Hg; cbn [parse_field] in H.
    + (* FHexRest *) unfold rest_bytes in H. crack H. inversion H; subst. cbn [ctor_field] in Hc. inversion Hc; subst.
      eexists. split; [reflexivity|]. cbn [SchemaM.valid_f]. apply Z.leb_le. unfold zlen. lia.
    + (* FB64Rest *) unfold rest_bytes in H. crack H. inversion H; subst. cbn [ctor_field] in Hc. inversion Hc; subst.
      eexists. split; [reflexivity|]. cbn [SchemaM.valid_f]. apply Z.leb_le. unfold zlen. lia.
    + (* FTxtRest *) crack H. inversion H; subst. cbn [ctor_field] in Hc. inversion Hc; subst. cbn [wire_extra] in Hx.
      destruct Hx as [Hne Hl]. eexists. split; [reflexivity|]. cbn [SchemaM.valid_f].
      apply andb_true_iff. split; [apply andb_true_iff; split|reflexivity].
      * apply forallb_forall. intros row Hr. apply in_map_iff in Hr as (s0 & <- & Hs0). rewrite Forall_forall in Hl.
        specialize (Hl s0 Hs0). cbn [SchemaM.valid_row SchemaM.valid_s]. unfold SchemaM.len_in, zlen in *. lia.
      * cbn [negb orb]. rewrite map_length. destruct l; [congruence|reflexivity].
    + (* FNsap *) crack H. inversion H; subst. cbn [ctor_field] in Hc. inversion Hc; subst.
      eexists. split; [reflexivity|]. cbn [SchemaM.valid_f]. apply Z.leb_le. unfold zlen. lia.
    + (* FB64RestE *) crack H. inversion H; subst. cbn [ctor_field] in Hc. inversion Hc; subst.
      eexists. split; [reflexivity|]. cbn [SchemaM.valid_f]. apply Z.leb_le. unfold zlen. lia.
Qed.

Lemma tie_fields c : forall fs wfs st raws st', to_fields fs = Some wfs ->
  parse_fields c fs st = Ok (raws, st') -> forall vs, ctor_fields fs raws = Ok vs ->
  exists xs, to_vals fs vs = Some xs /\ SchemaM.valid_fields wfs xs = true.
Proof.
  induction fs as [|f fs IH]; intros wfs st raws st' Hw H vs Hc.
  - cbn [to_fields] in Hw. inversion Hw; subst. cbn [parse_fields] in H. inversion H; subst. cbn [ctor_fields] in Hc.
    inversion Hc; subst. exists []. split; reflexivity.
  - cbn [to_fields] in Hw. destruct (to_fld f) as [s|] eqn:Es; [|discriminate].
    destruct (to_fields fs) as [t|] eqn:Et; [|discriminate]. inversion Hw; subst wfs.
    cbn [parse_fields] in H.
    destruct (parse_field c f st) as [[r s1]| |] eqn:E1; cbn [bind fst snd] in H; try discriminate.
    destruct (parse_fields c fs s1) as [[rs s2]| |] eqn:E2; cbn [bind fst snd] in H; try discriminate.
    inversion H; subst. cbn [ctor_fields] in Hc.
    destruct (ctor_field f r) as [v| |] eqn:E3; cbn [bind] in Hc; try discriminate.
    destruct (ctor_fields fs rs) as [vr| |] eqn:E4; cbn [bind] in Hc; try discriminate. inversion Hc; subst.
    destruct (tie_fld c f st r s1 v s Es E1 E3) as (x & X1 & X2).
    destruct (IH t s1 rs st' eq_refl E2 vr E4) as (xs & Y1 & Y2).
    exists (x :: xs). cbn [to_vals]. rewrite X1, Y1. split; [reflexivity|].
    cbn [SchemaM.valid_fields]. rewrite X2, Y2. reflexivity.
Qed.

(* accepted by from_text => the C02 encoder passes its constructor-validation step and proceeds to the octets *)
Theorem text_then_schema_encoder c fs chk st vs st' wfs origin :
  to_fields fs = Some wfs -> class_from_text c fs chk st = Ok (vs, st') ->
  exists xs, to_vals fs vs = Some xs /\
    SchemaM.encode_rdata origin wfs SchemaM.CkNone xs = SchemaM.enc_fields origin wfs xs.
Proof.
  intros Hw H. unfold class_from_text in H.
  destruct (parse_fields c fs st) as [[raws s1]| |] eqn:E1; cbn [bind fst snd] in H; try discriminate.
  destruct (ctor_fields fs raws) as [v| |] eqn:E2; cbn [bind fst snd] in H; try discriminate.
  destruct (chk v); cbn [bind] in H; try discriminate. inversion H; subst.
  destruct (tie_fields c fs wfs st raws _ Hw E1 vs E2) as (xs & X1 & X2).
  exists xs. split; [exact X1|]. unfold SchemaM.encode_rdata, SchemaM.validate. rewrite X2. reflexivity.
Qed.

(* the types of the table this covers *)
Definition tie_types : list Z :=
  filter (fun t => match schema_of t with Some fs => match to_fields fs with Some _ => true | None => false end | None => false end)
         (seq_z 300 0 ++ [32769; 196609]).
