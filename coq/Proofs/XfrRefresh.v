(* C13 - a secondary refreshing its zone: make_query on the zone as it is, extract_serial_from_query,
   the server's answer for that serial, the transfer. *)
From DV Require Import Base.Prelude Model.XfrM Proofs.XfrSets Proofs.XfrSpec Proofs.XfrZone Proofs.XfrDiff
  Proofs.XfrSafety Proofs.XfrBasic Proofs.XfrRun Proofs.XfrIxfr Proofs.XfrAxfr Proofs.XfrPerm Proofs.XfrOrder.

(* the query is built from the zone's current SOA serial, and the serial read back from the query
   (the one the transfer is then based on) is that serial *)
Theorem refresh_query_serial : forall z table qt s s2 c z',
  refresh1 z table = Ok (qt, s, s2, c, z') ->
  s = zone_serial z /\ s2 = s /\ qt = (match zone_serial z with Some _ => tIXFR | None => tAXFR end).
Proof.
  intros z table qt s s2 c z' H. unfold refresh1, make_query in H. cbn [Z.eqb bind] in H.
  destruct (zone_serial z) as [zs|]; cbn [bind extract_serial Z.eqb tIXFR tAXFR Pos.eqb negb] in H.
  - destruct (inbound_xfr z tIXFR (Some zs) false (pick table (Some zs))) as [r n]. inversion H; subst. auto.
  - destruct (inbound_xfr z tAXFR None false (pick table None)) as [r n]. inversion H; subst. auto.
Qed.

Lemma zone_serial_zeq : forall z v, zeq z (zone_of v) -> zone_serial z = Some (v_serial v).
Proof.
  intros z v H. unfold zone_serial. change (origin, tSOA, 0) with soakey. rewrite H, look_zone_of, key_eqb_refl.
  reflexivity.
Qed.

(* an incremental refresh: the zone equals v0, the server answers the serial of v0 with a valid
   IXFR response (any record order, any division into messages) leading to vn: afterwards the zone
   equals vn, and the next query will carry vn's serial *)
Theorem refresh_converges : forall v0 chain z table recs ws,
  chain_ok v0 chain -> zeq z (zone_of v0) ->
  find_row table (Some (v_serial v0)) = Some ws ->
  ixfr_response v0 chain recs -> chunking tIXFR recs ws ->
  exists z', refresh1 z table = Ok (tIXFR, Some (v_serial v0), Some (v_serial v0), 0, z')
             /\ zeq z' (zone_of (last chain v0))
             /\ zone_serial z' = Some (v_serial (last chain v0)).
Proof.
  intros v0 chain z table recs ws Hok Hz Hrow Hresp Hch.
  destruct (ixfr_converges_any_order v0 chain z recs ws Hok Hz Hresp Hch) as [z' [n [Hrun Hz']]].
  exists z'. split; [|split; [exact Hz'|apply zone_serial_zeq, Hz']].
  unfold refresh1, make_query. rewrite (zone_serial_zeq z v0 Hz). cbn [Z.eqb bind extract_serial tIXFR tAXFR Pos.eqb negb].
  unfold pick. rewrite Hrow, Hrun. reflexivity.
Qed.

(* a full refresh: the zone has no SOA yet (AXFR query), the server sends the whole zone *)
Theorem refresh_full : forall v z table recs ws,
  version_wf v -> zone_serial z = None ->
  find_row table None = Some ws ->
  axfr_response v recs -> chunking tAXFR recs ws ->
  exists z', refresh1 z table = Ok (tAXFR, None, None, 0, z')
             /\ zeq z' (zone_of v) /\ zone_serial z' = Some (v_serial v).
Proof.
  intros v z table recs ws Hv Hs Hrow Hresp Hch.
  destruct (axfr_converges_any_order v z None recs ws Hv Hresp Hch) as [z' [n [Hrun Hz']]].
  exists z'. split; [|split; [exact Hz'|apply zone_serial_zeq, Hz']].
  unfold refresh1, make_query. rewrite Hs. cbn [Z.eqb bind extract_serial tIXFR tAXFR Pos.eqb negb].
  unfold pick. rewrite Hrow, Hrun. reflexivity.
Qed.

(* the server has no history for the client's serial and answers the IXFR query AXFR-style *)
Theorem refresh_axfr_style : forall v z zs table recs ws,
  version_wf v -> v_rest v <> [] -> zone_serial z = Some zs ->
  v_serial v <> zs -> serial_lt (v_serial v) zs = false ->
  find_row table (Some zs) = None -> find_row table None = Some ws ->
  axfr_response v recs -> chunking tIXFR recs ws ->
  exists z', refresh1 z table = Ok (tIXFR, Some zs, Some zs, 0, z')
             /\ zeq z' (zone_of v) /\ zone_serial z' = Some (v_serial v).
Proof.
  intros v z zs table recs ws Hv Hne Hs Hser Hlt Hrow Hrow0 Hresp Hch.
  destruct (axfr_style_ixfr_converges_any_order v z zs recs ws Hv Hne Hresp Hser Hlt Hch) as [z' [n [Hrun Hz']]].
  exists z'. split; [|split; [exact Hz'|apply zone_serial_zeq, Hz']].
  unfold refresh1, make_query. rewrite Hs. cbn [Z.eqb bind extract_serial tIXFR tAXFR Pos.eqb negb].
  unfold pick. rewrite Hrow, Hrow0, Hrun. reflexivity.
Qed.

(* dns.query.inbound_xfr with udp_mode TRY_FIRST: the server answers the UDP query with its bare SOA
   ("retry over TCP"), then sends the valid incremental response over TCP: the zone converges.
   With udp_mode ONLY the UseTCP error is reported and the zone is untouched. *)
Theorem try_first_falls_back : forall v0 chain z tbu tbt wu recs ws,
  chain_ok v0 chain -> zeq z (zone_of v0) ->
  find_row tbu (Some (v_serial v0)) = Some [wu] ->
  header_ok tIXFR wu -> w_records wu = [soa_rr (last chain v0)] ->
  find_row tbt (Some (v_serial v0)) = Some ws ->
  ixfr_response v0 chain recs -> chunking tIXFR recs ws ->
  (exists z', xfr_top z 1 tbu tbt = Ok (0, z') /\ zeq z' (zone_of (last chain v0)))
  /\ xfr_top z 2 tbu tbt = Ok (eUseTCP, z).
Proof.
  intros v0 chain z tbu tbt wu recs ws Hok Hz Hu Hwu Hru Ht Hresp Hch.
  pose proof Hok as (_ & _ & _ & Hser & Hlt).
  assert (UDP : inbound_xfr z tIXFR (Some (v_serial v0)) true [wu] = (Error eUseTCP z, 0%nat)).
  { apply (use_tcp_signalled z (v_serial v0) wu [] (soa_rr (last chain v0)) Hwu Hru); [split; reflexivity| |].
    - change (r_data (soa_rr (last chain v0)) mod two32) with (v_serial (last chain v0)).
      intros E. apply (Hser v0 (or_introl eq_refl)). symmetry. exact E.
    - exact Hlt. }
  destruct (ixfr_converges_any_order v0 chain z recs ws Hok Hz Hresp Hch) as [z' [n [Hrun Hz']]].
  split.
  - exists z'. split; [|exact Hz'].
    unfold xfr_top, make_query. rewrite (zone_serial_zeq z v0 Hz). cbn [Z.eqb bind tIXFR Pos.eqb negb andb].
    unfold xfr_core. cbn [Z.eqb tIXFR Pos.eqb negb andb].
    change (xfr_run false) with inbound_xfr.
    unfold pick. rewrite Hu, UDP. cbn [Z.eqb eUseTCP Pos.eqb]. rewrite Ht, Hrun. reflexivity.
  - unfold xfr_top, make_query. rewrite (zone_serial_zeq z v0 Hz). cbn [Z.eqb bind tIXFR Pos.eqb negb andb].
    unfold xfr_core. cbn [Z.eqb tIXFR Pos.eqb negb andb].
    change (xfr_run false) with inbound_xfr.
    unfold pick. rewrite Hu, UDP. reflexivity.
Qed.

(* ---- a whole sequence of incremental refreshes ---- *)
Inductive refresh_plan : version -> list (list (option Z * list wmsg)) -> version -> Prop :=
| rp_nil : forall v, refresh_plan v [] v
| rp_cons : forall v chain table recs ws rest vfin,
    chain_ok v chain ->
    find_row table (Some (v_serial v)) = Some ws ->
    ixfr_response v chain recs -> chunking tIXFR recs ws ->
    refresh_plan (last chain v) rest vfin ->
    refresh_plan v (table :: rest) vfin.

Definition refresh_ok (r : res (Z * option Z * option Z * Z * zone)) : Prop :=
  exists s z', r = Ok (tIXFR, Some s, Some s, 0, z').

Definition final_zone (z : zone) (rs : list (res (Z * option Z * option Z * Z * zone))) : zone :=
  match last rs (Ok (0, None, None, 0, z)) with
  | Ok (_, _, _, _, z') => z'
  | _ => z
  end.

Lemma last_in : forall {A} (l : list A) d, l <> [] -> In (last l d) l.
Proof.
  induction l as [|x l IH]; intros d H; [congruence|].
  destruct l as [|y l]; [left; reflexivity|]. right. apply IH. discriminate.
Qed.

Theorem refreshes_converge : forall v tables vfin, refresh_plan v tables vfin ->
  forall z, zeq z (zone_of v) ->
  length (refreshes z tables) = length tables
  /\ Forall refresh_ok (refreshes z tables)
  /\ zeq (final_zone z (refreshes z tables)) (zone_of vfin).
Proof.
  intros v tables vfin P. induction P as [v|v chain table recs ws rest vfin Hok Hrow Hresp Hch P IH]; intros z Hz.
  - cbn. split; [reflexivity|]. split; [constructor|exact Hz].
  - destruct (refresh_converges v chain z table recs ws Hok Hz Hrow Hresp Hch) as [z' [Hr [Hz' _]]].
    cbn [refreshes]. rewrite Hr.
    destruct (IH z' Hz') as (Hlen & Hall & Hfin).
    split; [cbn [length]; rewrite Hlen; reflexivity|].
    split; [constructor; [exists (v_serial v), z'; reflexivity|exact Hall]|].
    unfold final_zone in *. destruct (refreshes z' rest) as [|r rs] eqn:E.
    + cbn. cbn in Hfin. exact Hfin.
    + change (last (Ok (tIXFR, Some (v_serial v), Some (v_serial v), 0, z') :: r :: rs) (Ok (0, None, None, 0, z)))
        with (last (r :: rs) (Ok (0, None, None, 0, z))).
      rewrite (last_default (r :: rs) _ (Ok (0, None, None, 0, z'))) by discriminate.
      assert (Hin : In (last (r :: rs) (Ok (0, None, None, 0, z'))) (r :: rs)) by (apply last_in; discriminate).
      rewrite Forall_forall in Hall. destruct (Hall _ Hin) as [s0 [zl El]].
      rewrite El in *. exact Hfin.
Qed.

(* ---- dns.query.inbound_xfr: which transports are used and what is reported (decision table) ---- *)
Definition tcp_outcome (kr : bool) (z : zone) (qt : Z) (s : option Z) (tbt : list (option Z * list wmsg)) : res (Z * zone) :=
  Ok (result_code (fst (xfr_run kr z qt s false (pick tbt s))), result_zone (fst (xfr_run kr z qt s false (pick tbt s)))).

Theorem inbound_xfr_decision_table : forall kr z qt s mode tbu tbt,
  (* an AXFR query, or udp_mode NEVER: TCP only, the UDP table is never consulted *)
  ((qt <> tIXFR \/ mode = 0) -> xfr_core kr z qt s mode tbu tbt = tcp_outcome kr z qt s tbt) /\
  (* an IXFR query with udp_mode TRY_FIRST / ONLY: UDP first *)
  (qt = tIXFR -> mode <> 0 ->
     let u := fst (xfr_run kr z qt s true (pick tbu s)) in
     (forall z', u = Done z' -> xfr_core kr z qt s mode tbu tbt = Ok (0, z')) /\
     (forall e z', u = Error e z' -> e <> eUseTCP -> xfr_core kr z qt s mode tbu tbt = Ok (e, z')) /\
     (forall z', u = Error eUseTCP z' -> mode = 2 -> xfr_core kr z qt s mode tbu tbt = Ok (eUseTCP, z')) /\
     (forall z', u = Error eUseTCP z' -> mode <> 2 -> xfr_core kr z qt s mode tbu tbt = tcp_outcome kr z qt s tbt)).
Proof.
  intros kr z qt s mode tbu tbt. unfold xfr_core, tcp_outcome. split.
  - intros [Hq|Hm].
    + apply Z.eqb_neq in Hq. rewrite Hq. cbn [andb]. destruct (xfr_run kr z qt s false (pick tbt s)); reflexivity.
    + subst mode. cbn [Z.eqb negb]. rewrite andb_false_r. destruct (xfr_run kr z qt s false (pick tbt s)); reflexivity.
  - intros Hq Hm. apply Z.eqb_eq in Hq. apply Z.eqb_neq in Hm. rewrite Hq, Hm. cbn [negb andb].
    destruct (xfr_run kr z qt s true (pick tbu s)) as [u n]. cbn [fst].
    repeat split.
    + intros z' ->. reflexivity.
    + intros e z' -> He. apply Z.eqb_neq in He. rewrite He. reflexivity.
    + intros z' -> ->. reflexivity.
    + intros z' -> Hm2. apply Z.eqb_neq in Hm2. rewrite Hm2. cbn [Z.eqb eUseTCP Pos.eqb].
      destruct (xfr_run kr z qt s false (pick tbt s)); reflexivity.
Qed.

(* whatever the mode and the tables: an error code is reported only with the zone untouched *)
Theorem xfr_core_error_leaves_zone : forall kr z qt s mode tbu tbt c z',
  xfr_core kr z qt s mode tbu tbt = Ok (c, z') -> c <> 0 -> z' = z.
Proof.
  intros kr z qt s mode tbu tbt c z' H Hc. unfold xfr_core in H.
  assert (TCP : forall r n, xfr_run kr z qt s false (pick tbt s) = (r, n) ->
                Ok (result_code r, result_zone r) = Ok (c, z') -> z' = z).
  { intros r n Hr E. inversion E; subst. destruct r as [zr|e zr]; cbn in *; [congruence|].
    eapply error_leaves_zone_t; exact Hr. }
  destruct ((qt =? tIXFR) && negb (mode =? 0)).
  - destruct (xfr_run kr z qt s true (pick tbu s)) as [u n] eqn:Hu. destruct u as [zu|e zu].
    + inversion H; subst. congruence.
    + assert (zu = z) by (eapply error_leaves_zone_t; exact Hu). subst zu.
      destruct (e =? eUseTCP).
      * destruct (mode =? 2); [inversion H; reflexivity|].
        destruct (xfr_run kr z qt s false (pick tbt s)) as [r n2] eqn:Hr. eapply TCP; [reflexivity|exact H].
      * inversion H; reflexivity.
  - destruct (xfr_run kr z qt s false (pick tbt s)) as [r n2] eqn:Hr. eapply TCP; [reflexivity|exact H].
Qed.

(* the query side: make_query with an explicit serial / keyring, then extract_serial_from_query *)
Theorem query_serial_table : forall zs ser,
  match make_query zs ser with
  | Ok (qt, s) =>
      extract_serial (qt, s) = Ok s /\
      match ser with
      | None => qt = tAXFR /\ s = None                                        (* serial=None forces AXFR *)
      | Some n =>
          if n =? 0 then match zs with
                         | Some z0 => qt = tIXFR /\ s = Some z0               (* 0: the zone's serial *)
                         | None => qt = tAXFR /\ s = None                     (* no SOA yet: AXFR *)
                         end
          else qt = tIXFR /\ s = Some n /\ 0 < n < two32                      (* an explicit base serial *)
      end
  | Internal _ => exists n, ser = Some n /\ n <> 0 /\ ~ (0 < n < two32)      (* ValueError: out of range *)
  | Lib _ => False
  end.
Proof.
  intros zs ser. unfold make_query. destruct ser as [n|]; [|cbn; auto].
  destruct (n =? 0) eqn:E0.
  - destruct zs; cbn; auto.
  - destruct ((0 <? n) && (n <? two32)) eqn:Er.
    + apply andb_true_iff in Er. destruct Er as [H1 H2]. apply Z.ltb_lt in H1. apply Z.ltb_lt in H2.
      cbn [extract_serial]. cbn. repeat split; auto.
    + exists n. apply Z.eqb_neq in E0. split; [reflexivity|]. split; [exact E0|].
      intros [H1 H2]. apply Z.ltb_lt in H1. apply Z.ltb_lt in H2. rewrite H1, H2 in Er. discriminate.
Qed.
