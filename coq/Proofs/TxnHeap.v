(* C10: the object-level model.  (1) All-or-nothing at the level of objects: whatever a transaction does,
   no node object that existed when it began is ever mutated (copy-on-write: every write goes to an object
   allocated by this transaction), so the published zone - and every older version a reader may hold - is
   intact whether the transaction commits, rolls back or dies.  (2) The object-level model refines the
   value-level model that `refines` is about. *)
From DV Require Import Base.Prelude Model.NameM Model.TxnM.
From DV Require Import Proofs.NameValid Proofs.NameOrder Proofs.NameRel.
From DV Require Import Proofs.TxnName Proofs.TxnStore Proofs.TxnLow Proofs.TxnSim Proofs.TxnThm Proofs.TxnAbs.
Open Scope Z_scope.

(* ---------------------------------------------------------------- maps of ids, heaps *)
Lemma amap_get_congr m k k' : name_eqb k k' = true -> amap_get m k = amap_get m k'.
Proof.
  intros H. induction m as [|[k0 v] m IH]; [reflexivity|]. cbn [amap_get].
  rewrite (name_eqb_trans_r k0 k k' H). rewrite IH. reflexivity.
Qed.

Lemma amap_get_set m k0 v k :
  amap_get (amap_set m k0 v) k = if name_eqb k0 k then Some v else amap_get m k.
Proof.
  induction m as [|[k' v'] m IH]; cbn [amap_set amap_get].
  - reflexivity.
  - destruct (name_eqb k' k0) eqn:E0; cbn [amap_get].
    + rewrite (name_eqb_trans_l k' k0 k E0). destruct (name_eqb k0 k); reflexivity.
    + rewrite IH. destruct (name_eqb k' k) eqn:E1; [|reflexivity].
      destruct (name_eqb k0 k) eqn:E2; [|reflexivity].
      exfalso. rewrite (name_eqb_sym k0 k) in E2. rewrite (name_eqb_trans_r k' k k0 E2) in E1. congruence.
Qed.

Lemma amap_get_remove m k0 k :
  amap_get (amap_remove m k0) k = if name_eqb k0 k then None else amap_get m k.
Proof.
  induction m as [|[k' v'] m IH]; cbn [amap_remove amap_get].
  - destruct (name_eqb k0 k); reflexivity.
  - destruct (name_eqb k' k0) eqn:E0; cbn [amap_get].
    + rewrite IH. rewrite (name_eqb_trans_l k' k0 k E0). destruct (name_eqb k0 k); reflexivity.
    + rewrite IH. destruct (name_eqb k' k) eqn:E1; [|reflexivity].
      destruct (name_eqb k0 k) eqn:E2; [|reflexivity].
      exfalso. rewrite (name_eqb_sym k0 k) in E2. rewrite (name_eqb_trans_r k' k k0 E2) in E1. congruence.
Qed.

Lemma amap_get_in m k id : amap_get m k = Some id -> In id (map snd m).
Proof.
  induction m as [|[k' v'] m IH]; cbn [amap_get map snd]; [discriminate|].
  destruct (name_eqb k' k); [intros H; inversion H; left; reflexivity|intros H; right; auto].
Qed.

Lemma amap_set_ids m k v id : In id (map snd (amap_set m k v)) -> id = v \/ In id (map snd m).
Proof.
  induction m as [|[k' v'] m IH]; cbn [amap_set map snd].
  - intros [H|[]]; auto.
  - destruct (name_eqb k' k); cbn [map snd In].
    + intros [H|H]; auto.
    + intros [H|H]; auto. destruct (IH H); auto.
Qed.

Lemma amap_remove_ids m k id : In id (map snd (amap_remove m k)) -> In id (map snd m).
Proof.
  induction m as [|[k' v'] m IH]; cbn [amap_remove map snd]; [auto|].
  destruct (name_eqb k' k); cbn [map snd In].
  - intros H. right. auto.
  - intros [H|H]; auto.
Qed.

Lemma hnode_app_l h x id : (id < length h)%nat -> hnode (h ++ x) id = hnode h id.
Proof. intros H. unfold hnode. apply app_nth1. exact H. Qed.

Lemma hnode_app_new h x : hnode (h ++ [x]) (length h) = x.
Proof. unfold hnode. rewrite app_nth2, Nat.sub_diag by lia. reflexivity. Qed.

Lemma hset_length h i nd : length (hset h i nd) = length h.
Proof. revert i. induction h as [|x h IH]; intros [|i]; cbn; auto. Qed.

Lemma hnode_hset_same h i nd : (i < length h)%nat -> hnode (hset h i nd) i = nd.
Proof. revert i. unfold hnode. induction h as [|x h IH]; intros [|i] H; cbn in *; try lia; auto. apply IH. lia. Qed.

Lemma hnode_hset_other h i nd j : i <> j -> hnode (hset h i nd) j = hnode h j.
Proof.
  revert i j. unfold hnode. induction h as [|x h IH]; intros [|i] [|j] H; cbn; auto; try congruence.
Qed.

Lemma changed_has_add l k k' : changed_has (changed_add l k) k' = changed_has l k' || name_eqb k k'.
Proof.
  unfold changed_add. destruct (changed_has l k) eqn:E.
  - destruct (name_eqb k k') eqn:E'; [|rewrite orb_false_r; reflexivity].
    rewrite orb_true_r. unfold changed_has in *. rewrite <- E. apply existsb_ext. intros x. symmetry.
    apply name_eqb_trans_r. exact E'.
  - unfold changed_has. rewrite existsb_app. cbn. rewrite orb_false_r. reflexivity.
Qed.

(* ---------------------------------------------------------------- (1) published objects are never mutated *)
Definition ids_ok (h : heap) (m : hmap) : Prop := forall id, In id (map snd m) -> (id < length h)%nat.

(* relative to the heap h0 of length b the transaction started from: changed names point to objects
   allocated since, and the objects below b are as they were *)
Definition HI (b : nat) (h0 : heap) (v : hver) : Prop :=
  ids_ok (hv_heap v) (hv_nodes v) /\
  (forall k id, changed_has (hv_changed v) k = true -> amap_get (hv_nodes v) k = Some id -> (b <= id)%nat) /\
  (b <= length (hv_heap v))%nat /\
  (forall id, (id < b)%nat -> hnode (hv_heap v) id = hnode h0 id).

Section Frame.
  Variable c : cfg.
  Variable b : nat.
  Variable h0 : heap.

  Lemma cow_frame v n v1 id k :
    HI b h0 v -> h_maybe_cow c v n = Ok (v1, id, k) ->
    HI b h0 v1 /\ (b <= id)%nat /\ (id < length (hv_heap v1))%nat.
  Proof.
    intros (Hids & Hfresh & Hb & Hfr). unfold h_maybe_cow.
    destruct (validate_name c n) as [k0| |]; cbn [bind]; try discriminate.
    destruct (amap_get (hv_nodes v) k0) as [id0|] eqn:G.
    - destruct (changed_has (hv_changed v) k0) eqn:Ch; intros H; inversion H; subst; clear H.
      + split; [repeat split; auto|]. split; [eapply Hfresh; eauto|]. apply Hids. eapply amap_get_in; eauto.
      + cbn [hv_heap hv_nodes hv_changed]. rewrite app_length. cbn [length]. split; [|split; lia].
        split; [|split; [|split]].
        * intros id Hin. cbn [hv_heap hv_nodes] in *. rewrite app_length. cbn. apply amap_set_ids in Hin.
          destruct Hin as [->|Hin]; [lia|]. specialize (Hids id Hin). lia.
        * intros k' id' Hc Hg. cbn [hv_nodes hv_changed] in *. rewrite changed_has_add in Hc. rewrite amap_get_set in Hg.
          destruct (name_eqb k k') eqn:E; [inversion Hg; lia|]. rewrite orb_false_r in Hc. eapply Hfresh; eauto.
        * cbn [hv_heap]. rewrite app_length. lia.
        * intros id' Hlt. cbn [hv_heap]. rewrite hnode_app_l by lia. apply Hfr. exact Hlt.
    - intros H; inversion H; subst; clear H.
      cbn [hv_heap hv_nodes hv_changed]. rewrite app_length. cbn [length]. split; [|split; lia].
      split; [|split; [|split]].
      * intros id Hin. cbn [hv_heap hv_nodes] in *. rewrite app_length. cbn. apply amap_set_ids in Hin.
        destruct Hin as [->|Hin]; [lia|]. specialize (Hids id Hin). lia.
      * intros k' id' Hc Hg. cbn [hv_nodes hv_changed] in *. rewrite changed_has_add in Hc. rewrite amap_get_set in Hg.
        destruct (name_eqb k k') eqn:E; [inversion Hg; lia|]. rewrite orb_false_r in Hc. eapply Hfresh; eauto.
      * cbn [hv_heap]. rewrite app_length. lia.
      * intros id' Hlt. cbn [hv_heap]. rewrite hnode_app_l by lia. apply Hfr. exact Hlt.
  Qed.

  Lemma HI_hset v id nd :
    HI b h0 v -> (b <= id)%nat ->
    HI b h0 (mkHver (hset (hv_heap v) id nd) (hv_nodes v) (hv_changed v)).
  Proof.
    intros (Hids & Hfresh & Hb & Hfr) Hid. split; [|split; [|split]]; cbn [hv_heap hv_nodes hv_changed].
    - intros i Hin. rewrite hset_length. auto.
    - exact Hfresh.
    - rewrite hset_length. exact Hb.
    - intros i Hlt. rewrite hnode_hset_other by lia. auto.
  Qed.

  Lemma put_frame v n r v' : HI b h0 v -> h_put_rdataset c v n r = Ok v' -> HI b h0 v'.
  Proof.
    intros HIv. unfold h_put_rdataset.
    destruct (h_maybe_cow c v n) as [[[v1 id] k]| |] eqn:Cw; cbn [bind]; try discriminate.
    destruct (cow_frame v n v1 id k HIv Cw) as (H1 & Hid & _).
    intros H; inversion H; subst. apply HI_hset; auto.
  Qed.

  Lemma HI_remove v k ch :
    HI b h0 v ->
    (forall k', changed_has ch k' = true -> name_eqb k k' = false -> changed_has (hv_changed v) k' = true) ->
    HI b h0 (mkHver (hv_heap v) (amap_remove (hv_nodes v) k) ch).
  Proof.
    intros (Hids & Hfresh & Hb & Hfr) Hch. split; [|split; [|split]]; cbn [hv_heap hv_nodes hv_changed]; auto.
    - intros i Hin. apply Hids. eapply amap_remove_ids; eauto.
    - intros k' id' Hc Hg. rewrite amap_get_remove in Hg. destruct (name_eqb k k') eqn:E; [discriminate|].
      eapply Hfresh; eauto.
  Qed.

  Lemma del_rds_frame v n ty cov v' : HI b h0 v -> h_delete_rdataset c v n ty cov = Ok v' -> HI b h0 v'.
  Proof.
    intros HIv. unfold h_delete_rdataset.
    destruct (h_maybe_cow c v n) as [[[v1 id] k]| |] eqn:Cw; cbn [bind]; try discriminate.
    destruct (cow_frame v n v1 id k HIv Cw) as (H1 & Hid & _).
    pose proof (HI_hset v1 id (node_delete (hnode (hv_heap v1) id) cIN ty cov) H1 Hid) as H2.
    destruct (node_delete (hnode (hv_heap v1) id) cIN ty cov) as [|x nd'].
    - unfold amap_del. destruct (amap_has (hv_nodes v1) k); cbn [bind]; [|discriminate].
      intros H; inversion H; subst.
      apply (HI_remove (mkHver (hset (hv_heap v1) id []) (hv_nodes v1) (hv_changed v1)) k (hv_changed v1) H2).
      intros k' Hc _. exact Hc.
    - intros H; inversion H; subst. exact H2.
  Qed.

  Lemma del_name_frame v n v' : HI b h0 v -> h_delete_node c v n = Ok v' -> HI b h0 v'.
  Proof.
    intros HIv. unfold h_delete_node. destruct (validate_name c n) as [k| |]; cbn [bind]; try discriminate.
    destruct (amap_has (hv_nodes v) k); intros H; inversion H; subst; [|exact HIv].
    apply (HI_remove v k (changed_add (hv_changed v) k) HIv).
    intros k' Hc E. rewrite changed_has_add, E, orb_false_r in Hc. exact Hc.
  Qed.

  Lemma h_get_cls v n ty cov r : h_get_rdataset c v n ty cov = Ok (Some r) -> r_cls r = cIN.
  Proof.
    unfold h_get_rdataset, h_get_node. destruct (validate_name c n) as [k| |]; cbn [bind]; try discriminate.
    destruct (amap_get (hv_nodes v) k); [|discriminate]. intros H; inversion H as [F]. eapply node_find_cls; eauto.
  Qed.

  (* every successful public call keeps the frame *)
  Lemma step_frame o z (t : txn (S:=hver)) x z' t' :
    op_valid o -> HI b h0 (t_st t) -> step (hstore c) c o z t = Ok (x, z', t') -> HI b h0 (t_st t').
  Proof.
    intros Vo Ht Hs.
    destruct (step_inv (hstore c) c (HI b h0) (fun _ => True)) with (o := o) (z := z) (t := t) (x := x) (z' := z') (t' := t') as [_ H]; auto.
    - intros s n ty cov r. apply h_get_cls.
    - intros s n r s' Hi _ _. apply put_frame; exact Hi.
    - intros s n s' Hi _. apply del_name_frame; exact Hi.
    - intros s n ty cov s' Hi _. apply del_rds_frame; exact Hi.
  Qed.
End Frame.

Definition hz_ok (z : hzone) : Prop := ids_ok (fst z) (snd z) /\ NoDup (map snd (snd z)).

Lemma HI_begin c z mode : ids_ok (fst z) (snd z) -> HI (length (fst z)) (fst z) (t_st (open_txn (hstore c) mode z)).
Proof.
  intros Hz. unfold open_txn. destruct (mode =? 2); cbn [t_st s_begin hstore].
  - split; [exact Hz|split; [intros k id H; discriminate|split; [cbn; lia|auto]]].
  - destruct (mode =? 1); (split; [|split; [intros k id H; discriminate|split; [cbn; lia|auto]]]); cbn; auto.
    intros id [].
Qed.

Lemma final_txn_frame c b h0 ops : Forall op_valid ops -> forall zz (t t' : txn (S:=hver)),
  HI b h0 (t_st t) -> final_txn (hstore c) c ops zz t = Some t' -> HI b h0 (t_st t').
Proof.
  induction 1 as [|o ops Fo Fr IH]; intros zz t t' H0; cbn [final_txn].
  - intros H; inversion H; subst. exact H0.
  - destruct (step (hstore c) c o zz t) as [[[x z1] t1]| |] eqn:Es; try discriminate.
    intros Hf. apply (IH z1 t1 t'); [|exact Hf]. eapply step_frame; eauto.
Qed.

(* Whatever sequence of calls succeeds inside a transaction opened on the published zone z - and whether
   the transaction then commits, rolls back or is abandoned - every node object that existed when it began
   still holds exactly what it held: in particular the objects the published map points to. *)
Theorem published_objects_never_mutated c z mode ops t' :
  ids_ok (fst z) (snd z) -> Forall op_valid ops ->
  final_txn (hstore c) c ops z (open_txn (hstore c) mode z) = Some t' ->
  forall id, (id < length (fst z))%nat -> hnode (hv_heap (t_st t')) id = hnode (fst z) id.
Proof.
  intros Hz F Hf.
  pose proof (final_txn_frame c (length (fst z)) (fst z) ops F z _ t' (HI_begin c z mode Hz) Hf) as (_ & _ & _ & H).
  exact H.
Qed.

(* ---------------------------------------------------------------- (2) the object level refines the value level *)
Definition RSh (hv : hver) (v : version) : Prop :=
  v_nodes v = deref (hv_heap hv, hv_nodes hv) /\ v_changed v = hv_changed hv /\
  ids_ok (hv_heap hv) (hv_nodes hv) /\ NoDup (map snd (hv_nodes hv)).

Definition RPh (hz : hzone) (z : nmap) : Prop := z = deref hz /\ hz_ok hz.

Lemma deref_get h m k : map_get (deref (h, m)) k = match amap_get m k with Some id => Some (hnode h id) | None => None end.
Proof.
  unfold deref. cbn [fst snd]. induction m as [|[k' id'] m IH]; cbn [map map_get amap_get fst snd]; [reflexivity|].
  destruct (name_eqb k' k); [reflexivity|exact IH].
Qed.

Lemma deref_app h x m : ids_ok h m -> deref (h ++ x, m) = deref (h, m).
Proof.
  unfold deref. cbn [fst snd]. intros H. apply map_ext_in. intros [k id] Hin. cbn [fst snd]. f_equal.
  apply hnode_app_l. apply H. apply in_map_iff. exists (k, id). auto.
Qed.

Lemma deref_set h m k id : deref (h, amap_set m k id) = map_set (deref (h, m)) k (hnode h id).
Proof.
  unfold deref. cbn [fst snd]. induction m as [|[k' id'] m IH]; cbn [amap_set map map_set fst snd]; [reflexivity|].
  destruct (name_eqb k' k); cbn [map fst snd]; [reflexivity|rewrite IH; reflexivity].
Qed.

Lemma deref_remove h m k : deref (h, amap_remove m k) = map_remove (deref (h, m)) k.
Proof.
  unfold deref. cbn [fst snd]. induction m as [|[k' id'] m IH]; cbn [amap_remove map map_remove fst snd]; [reflexivity|].
  destruct (name_eqb k' k); cbn [map fst snd]; [exact IH|rewrite IH; reflexivity].
Qed.

(* mutating the object of k in place = replacing the value at k: no other name shares the object *)
Lemma deref_hset h m k id nd :
  NoDup (map snd m) -> amap_get m k = Some id -> (id < length h)%nat ->
  deref (hset h id nd, m) = map_set (deref (h, m)) k nd.
Proof.
  unfold deref. cbn [fst snd]. intros N G L.
  induction m as [|[k' id'] m IH]; cbn [amap_get map map_set fst snd] in *; [discriminate|].
  inversion N as [|? ? Hn N']; subst.
  destruct (name_eqb k' k) eqn:E.
  - inversion G; subst id'. rewrite hnode_hset_same by exact L. f_equal.
    apply map_ext_in. intros [k1 id1] Hin. cbn [fst snd]. f_equal. apply hnode_hset_other.
    intros ->. apply Hn. apply in_map_iff. exists (k1, id1). auto.
  - rewrite (IH N' G). f_equal. f_equal. apply hnode_hset_other.
    intros ->. apply Hn. eapply amap_get_in; eauto.
Qed.

Lemma nodup_amap_set m k fresh :
  NoDup (map snd m) -> ~ In fresh (map snd m) -> NoDup (map snd (amap_set m k fresh)).
Proof.
  induction m as [|[k' id'] m IH]; intros N F; cbn [amap_set map snd] in *; [repeat constructor; intros []|].
  inversion N; subst. destruct (name_eqb k' k); cbn [map snd].
  - constructor; [|assumption]. intros Hin. apply F. right. exact Hin.
  - constructor.
    + intros Hin. apply amap_set_ids in Hin. destruct Hin as [->|Hin]; [|contradiction]. apply F. left. reflexivity.
    + apply IH; auto. intros Hin. apply F. right. exact Hin.
Qed.

Lemma fresh_not_in (h : heap) m : ids_ok h m -> ~ In (length h) (map snd m).
Proof. intros H Hin. specialize (H _ Hin). exact (Nat.lt_irrefl _ H). Qed.

Lemma ids_ok_set (h : heap) m k x : ids_ok h m -> ids_ok (h ++ [x]) (amap_set m k (length h)).
Proof.
  intros H i Hin. rewrite app_length. cbn [length]. apply amap_set_ids in Hin. destruct Hin as [->|Hin].
  - apply Nat.lt_succ_r. rewrite Nat.add_1_r. apply Nat.le_refl.
  - specialize (H i Hin). rewrite Nat.add_1_r. apply Nat.lt_lt_succ_r. exact H.
Qed.

Section HeapRefines.
  Variable c : cfg.

  Lemma hsim_node hv v n : RSh hv v -> h_get_node c hv n = get_node c v n.
  Proof.
    intros (Hn & _). unfold h_get_node, get_node. destruct (validate_name c n); cbn [bind]; try reflexivity.
    rewrite Hn, deref_get. reflexivity.
  Qed.

  Lemma hsim_get hv v n ty cov : RSh hv v -> h_get_rdataset c hv n ty cov = get_rdataset c v n ty cov.
  Proof. intros H. unfold h_get_rdataset, get_rdataset. rewrite (hsim_node hv v n H). reflexivity. Qed.

  Definition cow_rel (x : hver * nat * name) (y : version * node * name) : Prop :=
    let '(hv1, id, k) := x in let '(v1, nd, k') := y in
    k = k' /\ RSh hv1 v1 /\ nd = hnode (hv_heap hv1) id /\ amap_get (hv_nodes hv1) k = Some id /\
    (id < length (hv_heap hv1))%nat.

  Lemma hsim_cow hv v n : RSh hv v -> res_rel cow_rel (h_maybe_cow c hv n) (maybe_cow c v n).
  Proof.
    intros (Hn & Hc & Hids & Hnd). unfold h_maybe_cow, maybe_cow.
    destruct (validate_name c n) as [k| |]; cbn [bind res_rel]; auto.
    destruct v as [vn vc]. cbn [v_nodes v_changed] in *. subst vn vc. rewrite deref_get.
    destruct (amap_get (hv_nodes hv) k) as [id|] eqn:G.
    - assert (id < length (hv_heap hv))%nat as Lid by (apply Hids; eapply amap_get_in; eauto).
      destruct (changed_has (hv_changed hv) k); cbn [res_rel cow_rel].
      + repeat split; auto.
      + split; [reflexivity|]. cbn [hv_heap hv_nodes hv_changed]. split; [|split; [|split]].
        * split; [|split; [|split]]; cbn [v_nodes v_changed hv_heap hv_nodes hv_changed].
          -- rewrite deref_set, hnode_app_new, deref_app by exact Hids. reflexivity.
          -- reflexivity.
          -- apply ids_ok_set. exact Hids.
          -- apply nodup_amap_set; [exact Hnd|apply fresh_not_in; exact Hids].
        * rewrite hnode_app_new. reflexivity.
        * rewrite amap_get_set, name_eqb_refl. reflexivity.
        * rewrite app_length. cbn. lia.
    - cbn [res_rel cow_rel]. split; [reflexivity|]. cbn [hv_heap hv_nodes hv_changed]. split; [|split; [|split]].
      * split; [|split; [|split]]; cbn [v_nodes v_changed hv_heap hv_nodes hv_changed].
        -- rewrite deref_set, hnode_app_new, deref_app by exact Hids. reflexivity.
        -- reflexivity.
        -- apply ids_ok_set. exact Hids.
        -- apply nodup_amap_set; [exact Hnd|apply fresh_not_in; exact Hids].
      * rewrite hnode_app_new. reflexivity.
      * rewrite amap_get_set, name_eqb_refl. reflexivity.
      * rewrite app_length. cbn. lia.
  Qed.

  Lemma RSh_hset hv v k id nd :
    RSh hv v -> amap_get (hv_nodes hv) k = Some id -> (id < length (hv_heap hv))%nat ->
    RSh (mkHver (hset (hv_heap hv) id nd) (hv_nodes hv) (hv_changed hv))
        (mkVer (map_set (v_nodes v) k nd) (v_changed v)).
  Proof.
    intros (Hn & Hc & Hids & Hnd) G L. split; [|split; [|split]]; cbn [v_nodes v_changed hv_heap hv_nodes hv_changed]; auto.
    - rewrite Hn. symmetry. apply deref_hset; auto.
    - intros i Hin. rewrite hset_length. auto.
  Qed.

  Lemma hsim_put hv v n r : RSh hv v -> res_rel RSh (h_put_rdataset c hv n r) (put_rdataset c v n r).
  Proof.
    intros HR. unfold h_put_rdataset, put_rdataset. pose proof (hsim_cow hv v n HR) as Cw.
    destruct (h_maybe_cow c hv n) as [[[hv1 id] k]| |], (maybe_cow c v n) as [[[v1 nd] k']| |];
      cbn in Cw |- *; try contradiction; auto.
    destruct Cw as (<- & HR1 & -> & G & L). apply RSh_hset; auto.
  Qed.

  Lemma amap_has_deref h m k : amap_has m k = map_has (deref (h, m)) k.
  Proof. unfold amap_has, map_has. rewrite deref_get. destruct (amap_get m k); reflexivity. Qed.

  Lemma RSh_remove hv v k ch :
    RSh hv v -> RSh (mkHver (hv_heap hv) (amap_remove (hv_nodes hv) k) ch) (mkVer (map_remove (v_nodes v) k) ch).
  Proof.
    intros (Hn & Hc & Hids & Hnd). split; [|split; [|split]]; cbn [v_nodes v_changed hv_heap hv_nodes hv_changed]; auto.
    - rewrite Hn, deref_remove. reflexivity.
    - intros i Hin. apply Hids. eapply amap_remove_ids; eauto.
    - clear -Hnd. induction (hv_nodes hv) as [|[k' id'] m IH]; cbn [amap_remove map snd] in *; [constructor|].
      inversion Hnd; subst. destruct (name_eqb k' k); cbn [map snd]; [auto|].
      constructor; [|auto]. intros Hin. apply H1. eapply amap_remove_ids; eauto.
  Qed.

  Lemma hsim_del_rds hv v n ty cov : RSh hv v -> res_rel RSh (h_delete_rdataset c hv n ty cov) (delete_rdataset c v n ty cov).
  Proof.
    intros HR. unfold h_delete_rdataset, delete_rdataset. pose proof (hsim_cow hv v n HR) as Cw.
    destruct (h_maybe_cow c hv n) as [[[hv1 id] k]| |], (maybe_cow c v n) as [[[v1 nd] k']| |];
      cbn in Cw |- *; try contradiction; auto.
    destruct Cw as (<- & HR1 & -> & G & L).
    pose proof (RSh_hset hv1 v1 k id (node_delete (hnode (hv_heap hv1) id) cIN ty cov) HR1 G L) as H2.
    destruct (node_delete (hnode (hv_heap hv1) id) cIN ty cov) as [|x nd'] eqn:D.
    - unfold amap_del, map_del. destruct HR1 as (Hn1 & Hc1 & _). rewrite (amap_has_deref (hv_heap hv1)), <- Hn1.
      destruct (map_has (v_nodes v1) k); cbn [bind res_rel]; [|reflexivity].
      pose proof (RSh_remove _ _ k (hv_changed hv1) H2) as H3. cbn [hv_heap hv_nodes v_nodes] in H3.
      rewrite Hc1. replace (map_remove (v_nodes v1) k) with (map_remove (map_set (v_nodes v1) k []) k)
        by apply map_remove_set. exact H3.
    - cbn [res_rel]. exact H2.
  Qed.

  Lemma hsim_del_name hv v n : RSh hv v -> res_rel RSh (h_delete_node c hv n) (delete_node c v n).
  Proof.
    intros HR. unfold h_delete_node, delete_node. destruct (validate_name c n) as [k| |]; cbn [bind res_rel]; auto.
    pose proof HR as (Hn & Hc & _). rewrite (amap_has_deref (hv_heap hv)), <- Hn.
    destruct (map_has (v_nodes v) k); cbn [res_rel]; [|exact HR]. rewrite Hc. apply RSh_remove. exact HR.
  Qed.

  (* every history: same results, and the published object-level zone dereferences to the published
     value-level zone *)
  Theorem heap_refines_value h hz z :
    Forall spec_valid h -> RPh hz z ->
    Forall2 (ROut RPh) (heap_hist c h hz) (impl_hist c h z).
  Proof.
    intros F HP. unfold heap_hist, impl_hist.
    apply (sim_run_hist (hstore c) (zstore c) c c EV RSh RPh false); auto using hist_valid_rel; try discriminate.
    - split; [reflexivity|apply Valid_nil].
    - intros n1 n2 [-> _]. reflexivity.
    - intros z1 z2 b [-> [H1 H2]]. cbn [s_begin hstore zstore]. destruct b.
      + split; [reflexivity|split; [reflexivity|split; [intros i []|constructor]]].
      + split; [destruct z1; reflexivity|split; [reflexivity|split; assumption]].
    - intros s1 s2 (Hn & _ & H1 & H2). cbn [s_publish hstore zstore]. split; [exact Hn|split; assumption].
    - intros s1 s2 n1 n2 ty cov HR [-> _]. apply hsim_get; auto.
    - intros s2 n ty cov r. apply get_cls.
    - intros s1 s2 n1 n2 r HR [-> _] _. apply hsim_put; auto.
    - intros s1 s2 n1 n2 HR [-> _]. apply hsim_del_name; auto.
    - intros s1 s2 n1 n2 ty cov HR [-> _]. apply hsim_del_rds; auto.
    - intros s1 s2 n1 n2 HR [-> _]. cbn [s_exists hstore zstore]. rewrite (hsim_node s1 s2 n2 HR). reflexivity.
    - intros s1 s2 n1 n2 HR [-> _]. apply hsim_node; auto.
    - intros s1 s2 (_ & Hc & _). cbn [s_changed hstore zstore]. rewrite Hc. reflexivity.
  Qed.
End HeapRefines.

Lemma RPh_empty : RPh ([], []) [].
Proof. split; [reflexivity|split; [intros i []|constructor]]. Qed.
