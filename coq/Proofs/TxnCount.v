(* C10: the iterate calls inside the refinement.  iterate_names / iterate_rdatasets count the names and the
   rdatasets of the private state; to relate these counts the simulation relation is strengthened with the
   structural well-formedness of the node map (Proofs/TxnAbs.v) and with "every owner stored by the reference
   store is a canonical absolute name".  Then every history - iterate calls included - gives the same results
   on the zone model and on the reference store. *)
From DV Require Import Base.Prelude Model.NameM Model.TxnM.
From DV Require Import Proofs.NameValid Proofs.NameOrder Proofs.NameRel.
From DV Require Import Proofs.TxnName Proofs.TxnStore Proofs.TxnLow Proofs.TxnSim Proofs.TxnThm Proofs.TxnAbs.
Open Scope Z_scope.

(* ---------------------------------------------------------------- counting two equivalent stores *)
Lemma filter_length_split {A} (p : A -> bool) l :
  length l = (length (filter p l) + length (filter (fun x => negb (p x)) l))%nat.
Proof. induction l as [|x l IH]; cbn; [reflexivity|]. destruct (p x); cbn; lia. Qed.

Lemma entries_at_length a l : length (entries_at a l) = length (filter (at_name a) l).
Proof. unfold entries_at. apply map_length. Qed.

Lemma entries_at_drop a0 a l :
  entries_at a (filter (fun e => negb (at_name a0 e)) l) = if name_eqb a0 a then [] else entries_at a l.
Proof.
  transitivity (entries_at a (filter (fun e => negb (at_name a0 e && (fun _ : rds => true) (e_rds e))) l)).
  { f_equal. apply filter_ext. intros e. rewrite andb_true_r. reflexivity. }
  rewrite (entries_at_filter a0 (fun _ : rds => true) a l). destruct (name_eqb a0 a); [|reflexivity].
  induction (entries_at a l); cbn; auto.
Qed.

Lemma existsb_drop_other a0 a l :
  name_eqb a0 a = false ->
  existsb (at_name a) (filter (fun e => negb (at_name a0 e)) l) = existsb (at_name a) l.
Proof. intros E. rewrite !existsb_entries, entries_at_drop, E. reflexivity. Qed.

(* the number of distinct owners: one for the class of a0 if present, plus the others *)
Lemma distinct_names_drop a0 l :
  length (distinct_names l) =
  ((if existsb (at_name a0) l then 1 else 0) + length (distinct_names (filter (fun e => negb (at_name a0 e)) l)))%nat.
Proof.
  induction l as [|e l IH]; [reflexivity|]. cbn [distinct_names existsb filter].
  destruct (at_name a0 e) eqn:Ea; cbn [negb orb].
  - (* e belongs to the class of a0 *)
    rewrite distinct_names_mem.
    assert (existsb (at_name (e_name e)) l = existsb (at_name a0) l) as ->.
    { apply existsb_ext. intros x. unfold at_name in *. apply name_eqb_trans_r. exact Ea. }
    destruct (existsb (at_name a0) l); [exact IH|cbn [length]; rewrite IH; reflexivity].
  - cbn [distinct_names]. rewrite !distinct_names_mem.
    rewrite existsb_drop_other by (unfold at_name in Ea; rewrite name_eqb_sym; exact Ea).
    destruct (existsb (at_name (e_name e)) l); [exact IH|cbn [length]; rewrite IH; lia].
Qed.

Section Count.
  Variable c : cfg.
  Hypothesis W : wfc c.

  (* every owner in the reference store is a canonical absolute name *)
  Definition centries (l : list entry) : Prop :=
    Forall (fun e => Valid (e_name e) /\ canon c (e_name e) = Ok (e_name e)) l.

  Definition same_per_owner (l1 l2 : list entry) : Prop :=
    forall a, Valid a -> canon c a = Ok a -> entries_at a l1 = entries_at a l2.

  Lemma centries_filter p l : centries l -> centries (filter p l).
  Proof.
    intros H. apply Forall_forall. intros x Hx. apply filter_In in Hx. eapply Forall_forall in H; [exact H|tauto].
  Qed.

  Lemma entries_at_self e l : In e l -> entries_at (e_name e) l <> [].
  Proof.
    intros Hin H. assert (In (e_rds e) (entries_at (e_name e) l)) as K; [|rewrite H in K; exact K].
    unfold entries_at. apply in_map. apply filter_In. split; [exact Hin|apply name_eqb_refl].
  Qed.

  Lemma same_per_owner_counts n : forall l1 l2,
    (length l1 <= n)%nat -> centries l1 -> centries l2 -> same_per_owner l1 l2 ->
    length l1 = length l2 /\ length (distinct_names l1) = length (distinct_names l2).
  Proof.
    induction n as [|n IH]; intros l1 l2 Hn C1 C2 S.
    - destruct l1; [|cbn in Hn; lia].
      destruct l2 as [|e l2]; [auto|]. exfalso.
      inversion C2 as [|? ? [Ve Ce] _]; subst.
      apply (entries_at_self e (e :: l2)); [left; reflexivity|]. rewrite <- (S (e_name e) Ve Ce). reflexivity.
    - destruct l1 as [|e l1].
      + destruct l2 as [|e2 l2]; [auto|]. exfalso.
        inversion C2 as [|? ? [Ve Ce] _]; subst.
        apply (entries_at_self e2 (e2 :: l2)); [left; reflexivity|]. rewrite <- (S (e_name e2) Ve Ce). reflexivity.
      + inversion C1 as [|? ? [Ve Ce] C1']; subst. set (a0 := e_name e) in *.
        set (d := fun x : entry => negb (at_name a0 x)).
        assert (same_per_owner (filter d (e :: l1)) (filter d l2)) as S'.
        { intros a Va Ca. unfold d. rewrite !entries_at_drop. destruct (name_eqb a0 a); [reflexivity|apply S; auto]. }
        assert (length (filter d (e :: l1)) <= n)%nat as Hn'.
        { unfold d at 1. cbn [filter]. unfold at_name at 1. fold a0. rewrite name_eqb_refl. cbn [negb].
          pose proof (filter_length_split d l1) as K. cbn [length] in Hn. change (length (filter d l1) <= n)%nat. lia. }
        destruct (IH _ _ Hn' (centries_filter d _ C1) (centries_filter d _ C2) S') as [L1 L2].
        pose proof (S a0 Ve Ce) as Sa.
        split.
        * rewrite (filter_length_split (at_name a0) (e :: l1)), (filter_length_split (at_name a0) l2).
          fold d. rewrite <- !entries_at_length, Sa, L1. reflexivity.
        * rewrite (distinct_names_drop a0 (e :: l1)), (distinct_names_drop a0 l2). fold d. rewrite L2.
          rewrite !existsb_entries, Sa. reflexivity.
  Qed.

  (* ---------------------------------------------------------------- the strengthened relation *)
  Definition R2 (v : version) (s : rstate) : Prop := R c v s /\ zwf c (v_nodes v) /\ centries (rs_entries s).
  Definition RP2 (z : nmap) (l : list entry) : Prop := RP c z l /\ zwf c z /\ centries l.

  Lemma opt_node_inj l1 l2 : opt_node l1 = opt_node l2 -> l1 = l2.
  Proof. destruct l1, l2; cbn; intros H; inversion H; reflexivity. Qed.

  Lemma centries_abs m : zwf c m -> centries (abs c m).
  Proof.
    intros [_ H]. unfold abs. induction m as [|[k nd] m IH]; [constructor|].
    inversion H as [|? ? [K _] H2]; subst. cbn [flat_map fst snd]. apply Forall_app. split; [|apply IH; exact H2].
    destruct (key_ok_canon c k W K) as [Ca _]. destruct K as [Vk _].
    apply Forall_forall. intros e He. apply in_map_iff in He. destruct He as (r & <- & _). cbn [e_name].
    split; [eapply canon_valid; eauto|eapply canon_idem; eauto].
  Qed.

  Theorem R2_count v s : R2 v s -> s_count (zstore c) v = s_count (rstore c) s.
  Proof.
    intros (HR & Hz & Hc).
    destruct v as [m ch], s as [l d]. cbn [v_nodes rs_entries] in *.
    rewrite (iter_counts_abs c m ch d W Hz). cbn [s_count rstore rs_entries].
    assert (same_per_owner (abs c m) l) as S.
    { intros a Va Ca.
      pose proof (validate_canon c a W Va) as VC. rewrite Ca in VC.
      destruct (validate_name c a) as [k| |] eqn:Ev; try contradiction.
      destruct HR as (Hm & _). destruct (RP_abs c m W Hz) as (Hm' & _). cbn [v_nodes rs_entries] in *.
      apply opt_node_inj. rewrite <- (Hm a k a Va Ev Ca), <- (Hm' a k a Va Ev Ca). reflexivity. }
    destruct (same_per_owner_counts (length (abs c m)) (abs c m) l (Nat.le_refl _) (centries_abs m Hz) Hc S) as [L1 L2].
    unfold zlen. rewrite L1, L2. reflexivity.
  Qed.

  (* ---------------------------------------------------------------- preservation *)
  Lemma r_put_centries s n r s' : Valid n -> centries (rs_entries s) -> r_put c s n r = Ok s' -> centries (rs_entries s').
  Proof.
    intros Vn Hc. unfold r_put. destruct (canon c n) as [a| |] eqn:Ca; cbn [bind]; try discriminate.
    intros H; inversion H; subst. cbn [rs_entries]. apply Forall_app. split; [apply centries_filter; exact Hc|].
    constructor; [|constructor]. cbn [e_name]. split; [eapply canon_valid; eauto|eapply canon_idem; eauto].
  Qed.

  Lemma r_del_name_centries s n s' : centries (rs_entries s) -> r_del_name c s n = Ok s' -> centries (rs_entries s').
  Proof.
    intros Hc. unfold r_del_name. destruct (canon c n); cbn [bind]; try discriminate.
    destruct (existsb _ _); intros H; inversion H; subst; [apply centries_filter|]; exact Hc.
  Qed.

  Lemma r_del_rds_centries s n ty cov s' : centries (rs_entries s) -> r_del_rds c s n ty cov = Ok s' -> centries (rs_entries s').
  Proof.
    intros Hc. unfold r_del_rds. destruct (canon c n); cbn [bind]; try discriminate.
    intros H; inversion H; subst. apply centries_filter; exact Hc.
  Qed.

  Lemma sim2_put v s n r : R2 v s -> Valid n -> r_cls r = cIN -> res_rel R2 (put_rdataset c v n r) (r_put c s n r).
  Proof.
    intros (HR & Hz & Hc) Vn Cr. pose proof (sim_put c W v s n r HR Vn Cr) as SP.
    destruct (put_rdataset c v n r) as [v'| |] eqn:E1, (r_put c s n r) as [s'| |] eqn:E2; cbn in SP |- *; try contradiction; auto.
    split; [exact SP|split; [eapply put_wf; eauto|eapply r_put_centries; eauto]].
  Qed.

  Lemma sim2_del_name v s n : R2 v s -> Valid n -> res_rel R2 (delete_node c v n) (r_del_name c s n).
  Proof.
    intros (HR & Hz & Hc) Vn. pose proof (sim_del_name c W v s n HR Vn) as SP.
    destruct (delete_node c v n) as [v'| |] eqn:E1, (r_del_name c s n) as [s'| |] eqn:E2; cbn in SP |- *; try contradiction; auto.
    split; [exact SP|split; [eapply del_name_wf; eauto|eapply r_del_name_centries; eauto]].
  Qed.

  Lemma sim2_del_rds v s n ty cov : R2 v s -> Valid n -> res_rel R2 (delete_rdataset c v n ty cov) (r_del_rds c s n ty cov).
  Proof.
    intros (HR & Hz & Hc) Vn. pose proof (sim_del_rds c W v s n ty cov HR Vn) as SP.
    destruct (delete_rdataset c v n ty cov) as [v'| |] eqn:E1, (r_del_rds c s n ty cov) as [s'| |] eqn:E2;
      cbn in SP |- *; try contradiction; auto.
    split; [exact SP|split; [eapply del_rds_wf; eauto|eapply r_del_rds_centries; eauto]].
  Qed.
End Count.

(* ---------------------------------------------------------------- validity with the iterate calls *)
Definition op_valid_it (o : op) : Prop := match o with OIter => True | _ => op_valid o end.
Definition spec_valid_it (x : txnspec) : Prop := Forall op_valid_it (x_ops x).

Lemma op_valid_it_rel o : op_valid_it o -> op_rel_it true EV o o.
Proof.
  destruct o; cbn; intros H; try (constructor; auto using args_valid_rel, arg_valid_rel; fail).
  constructor. destruct n; cbn; auto using arg_valid_rel.
Qed.

Lemma hist_valid_it_rel h : Forall spec_valid_it h -> Forall2 (spec_rel_it true EV) h h.
Proof.
  induction 1 as [|x h Hx _ IH]; constructor; auto.
  repeat split; auto. unfold spec_valid_it in Hx. induction Hx; constructor; auto using op_valid_it_rel.
Qed.

(* The refinement with every observation of a transaction inside: add / replace / delete / delete_exact /
   update_serial / get / get_node / name_exists / changed / iterate_names / iterate_rdatasets / commit /
   rollback, any argument forms, any abort point. *)
Theorem refines_iter c h z l :
  wfc c -> Forall spec_valid_it h -> RP2 c z l ->
  Forall2 (ROut (RP2 c)) (impl_hist c h z) (spec_hist c h l).
Proof.
  intros W F HP. unfold impl_hist, spec_hist.
  apply (sim_run_hist (zstore c) (rstore c) c c EV (R2 c) (RP2 c) true); auto using hist_valid_it_rel.
  - split; [reflexivity|apply Valid_nil].
  - intros n1 n2 [-> _]. reflexivity.
  - intros z1 z2 b (H1 & H2 & H3). cbn [s_begin zstore rstore]. destruct b.
    + split; [apply RP_nil|split; [apply zwf_nil|constructor]].
    + split; [exact H1|split; [exact H2|exact H3]].
  - intros s1 s2 (H1 & H2 & H3). split; [apply sim_publish; exact H1|split; [exact H2|exact H3]].
  - intros s1 s2 n1 n2 ty cov [HR _] [-> Vn]. apply sim_get; auto.
  - intros s2 n ty cov r. apply r_get_cls.
  - intros s1 s2 n1 n2 r HR [-> Vn] Hc. apply sim2_put; auto.
  - intros s1 s2 n1 n2 HR [-> Vn]. apply sim2_del_name; auto.
  - intros s1 s2 n1 n2 ty cov HR [-> Vn]. apply sim2_del_rds; auto.
  - intros s1 s2 n1 n2 [HR _] [-> Vn]. apply sim_exists; auto.
  - intros s1 s2 n1 n2 [HR _] [-> Vn]. apply sim_node; auto.
  - intros s1 s2 [HR _]. apply sim_changed; auto.
  - intros _ s1 s2 HR. apply R2_count; auto.
Qed.

Lemma RP2_empty c : RP2 c [] [].
Proof. split; [apply RP_nil|split; [apply zwf_nil|constructor]]. Qed.

(* every well-formed zone is related to its abstraction *)
Lemma RP2_abs c m : wfc c -> zwf c m -> RP2 c m (abs c m).
Proof. intros W H. split; [apply RP_abs; auto|split; [exact H|apply centries_abs; auto]]. Qed.
