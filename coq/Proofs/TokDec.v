(* Decimal fields: f"{n}" printed by the rdata classes is read back by int() / Tokenizer.as_int /
   as_uintN as the same number, and is a "safe" word for the tokenizer. *)
From DV Require Import Base.Prelude Model.TokM Proofs.TokWords.
Open Scope Z_scope.

Ltac Zify.zify_post_hook ::= Z.to_euclidean_division_equations.

(* value of a digit string read left to right starting from accumulator a *)
Definition pv (s : list Z) (a : Z) : Z := fold_left (fun a c => a * 10 + (c - 48)) s a.

(* accumulator after reading the digits of n (as printed with the given fuel) *)
Fixpoint sh (fuel : nat) (n a : Z) : Z :=
  match fuel with
  | O => a
  | S f => if n <? 10 then a * 10 + n else sh f (n / 10) a * 10 + n mod 10
  end.

Lemma pv_digits f : forall n acc a,
  pv (digits_fuel f 10 n acc) a = pv acc (sh f n a).
Proof.
  induction f as [|f IH]; intros n acc a; [reflexivity|].
  cbn [digits_fuel sh]. destruct (n <? 10) eqn:E.
  - unfold pv. cbn [fold_left]. f_equal. lia.
  - rewrite IH. unfold pv. cbn [fold_left]. f_equal. lia.
Qed.

Lemma sh_ok f : forall n, 0 <= n < 10 ^ Z.of_nat f -> sh f n 0 = n.
Proof.
  induction f as [|f IH]; intros n Hn.
  - cbn in Hn. cbn [sh]. lia.
  - cbn [sh]. destruct (n <? 10) eqn:E; [lia|].
    rewrite Nat2Z.inj_succ, Z.pow_succ_r in Hn by lia.
    rewrite IH by lia. lia.
Qed.

Lemma fuel_enough n : 0 <= n -> n < 10 ^ Z.of_nat (S (Z.to_nat (Z.log2 n))).
Proof.
  intros Hn. rewrite Nat2Z.inj_succ, Z2Nat.id by apply Z.log2_nonneg.
  destruct (Z.eq_dec n 0) as [->|Hz]; [cbn; lia|].
  pose proof (Z.log2_spec n ltac:(lia)) as [_ H].
  eapply Z.lt_le_trans; [exact H|].
  apply Z.pow_le_mono_l. split; [lia|lia].
Qed.

Lemma digits_decimal f : forall n acc, 0 <= n ->
  forallb is_decimal acc = true -> forallb is_decimal (digits_fuel f 10 n acc) = true.
Proof.
  induction f as [|f IH]; intros n acc Hn Hacc; [exact Hacc|].
  cbn [digits_fuel]. destruct (n <? 10) eqn:E.
  - cbn [forallb]. rewrite Hacc. unfold is_decimal. lia.
  - apply IH; [lia|]. cbn [forallb]. rewrite Hacc. unfold is_decimal. lia.
Qed.

Lemma digits_nonempty f : forall n acc, (acc <> [] \/ f <> O) -> digits_fuel f 10 n acc <> [].
Proof.
  induction f as [|f IH]; intros n acc H.
  - cbn. destruct H; congruence.
  - cbn [digits_fuel]. destruct (n <? 10); [discriminate|]. apply IH. left. discriminate.
Qed.

Lemma dec_decimal n : 0 <= n -> forallb is_decimal (dec n) = true.
Proof. intros. unfold dec, print_base. apply digits_decimal; [assumption|reflexivity]. Qed.

Lemma dec_nonempty n : dec n <> [].
Proof. unfold dec, print_base. apply digits_nonempty. right. discriminate. Qed.

Lemma pv_dec n : 0 <= n -> pv (dec n) 0 = n.
Proof.
  intros Hn. unfold dec, print_base. rewrite pv_digits. unfold pv at 1. cbn [fold_left].
  apply sh_ok. split; [exact Hn|]. apply fuel_enough, Hn.
Qed.

(* int(): a string of ASCII digits *)
Lemma int_digits_pv s : forallb is_decimal s = true -> forall a p,
  (s <> [] \/ p = true) -> int_digits 10 s a p = Some (pv s a).
Proof.
  induction s as [|c s IH]; intros Hs a p Hp.
  - destruct Hp as [H| ->]; [congruence|]. reflexivity.
  - cbn [forallb] in Hs. apply andb_true_iff in Hs as [Hc Hs]. unfold is_decimal in Hc.
    cbn [int_digits]. replace (c =? 95) with false by lia.
    unfold digit_val. replace ((48 <=? c) && (c <=? 57)) with true by lia.
    replace (c - 48 <? 10) with true by lia.
    rewrite IH by (auto). reflexivity.
Qed.

Lemma lstrip_digit c s : is_decimal c = true -> lstrip (c :: s) = c :: s.
Proof.
  unfold is_decimal. intros H. cbn [lstrip]. unfold is_space.
  replace ((9 <=? c) && (c <=? 13) || (c =? 32)) with false by lia. reflexivity.
Qed.

Lemma strip_digits s : forallb is_decimal s = true -> strip s = s.
Proof.
  intros Hs. unfold strip.
  assert (L : forall t, forallb is_decimal t = true -> lstrip t = t).
  { intros [|c t] H; [reflexivity|]. cbn [forallb] in H. apply andb_true_iff in H as [Hc _].
    apply lstrip_digit, Hc. }
  rewrite (L s Hs).
  assert (Hr : forallb is_decimal (rev s) = true).
  { rewrite forallb_forall in *. intros x Hx. apply Hs. apply in_rev. exact Hx. }
  rewrite (L _ Hr). apply rev_involutive.
Qed.

Theorem py_int_dec n : 0 <= n -> py_int 10 (dec n) = Some n.
Proof.
  intros Hn. unfold py_int. rewrite strip_digits by (apply dec_decimal, Hn).
  pose proof (dec_decimal n Hn) as Hd. pose proof (dec_nonempty n) as Hne.
  pose proof (pv_dec n Hn) as Hv.
  destruct (dec n) as [|c s] eqn:E; [congruence|].
  assert (Hc : 48 <= c <= 57).
  { cbn [forallb] in Hd. apply andb_true_iff in Hd as [Hc _]. unfold is_decimal in Hc. lia. }
  replace (c =? 43) with false by lia. replace (c =? 45) with false by lia.
  replace (10 =? 8) with false by reflexivity.
  destruct s as [|p r].
  - cbv beta iota. repeat (cbn [andb]; replace (c =? 95) with false by lia).
    rewrite int_digits_pv by (auto; left; discriminate). rewrite Hv. reflexivity.
  - rewrite andb_false_r. cbv beta iota. repeat (cbn [andb]; replace (c =? 95) with false by lia).
    rewrite int_digits_pv by (auto; left; discriminate). rewrite Hv. reflexivity.
Qed.

(* digits are safe word characters for the tokenizer *)
Lemma decimal_safe s : forallb is_decimal s = true -> forallb safe s = true.
Proof.
  intros H. rewrite forallb_forall in *. intros c Hc. specialize (H c Hc).
  unfold is_decimal in H. unfold safe, is_delim.
  replace (c =? 32) with false by lia. replace (c =? 9) with false by lia.
  replace (c =? 10) with false by lia. replace (c =? 59) with false by lia.
  replace (c =? 40) with false by lia. replace (c =? 41) with false by lia.
  replace (c =? 34) with false by lia. replace (c =? 92) with false by lia. reflexivity.
Qed.

Lemma dec_safe n : 0 <= n -> forallb safe (dec n) = true.
Proof. intros. apply decimal_safe, dec_decimal. assumption. Qed.

(* Tokenizer.as_uint (and as_int) on the printed number *)
Theorem as_uint_dec maxv n : 0 <= n <= maxv ->
  as_uint maxv (mkTok tIDENT (dec n) false None) 10 = Ok n.
Proof.
  intros Hn. unfold as_uint, as_int, is_identifier. cbn [ttype tvalue].
  replace (tIDENT =? tIDENT) with true by reflexivity. cbn [negb].
  rewrite py_int_dec by lia. replace (n <? 0) with false by lia. cbn [bind].
  replace ((n <? 0) || (n >? maxv)) with false by lia. reflexivity.
Qed.

Theorem as_int_dec n : 0 <= n -> as_int (mkTok tIDENT (dec n) false None) 10 = Ok n.
Proof.
  intros Hn. unfold as_int, is_identifier. cbn [ttype tvalue].
  replace (tIDENT =? tIDENT) with true by reflexivity. cbn [negb].
  rewrite py_int_dec by lia. replace (n <? 0) with false by lia. reflexivity.
Qed.

(* dns.ttl.from_text on the printed number *)
Lemma dec_value_pv s a : dec_value s a = pv s a.
Proof. revert a. induction s as [|c s IH]; intros a; [reflexivity|]. cbn [dec_value]. rewrite IH. reflexivity. Qed.

Theorem ttl_from_text_dec n : 0 <= n <= MAX_TTL -> ttl_from_text (dec n) = Ok n.
Proof.
  intros Hn. unfold ttl_from_text.
  pose proof (dec_nonempty n) as Hne. rewrite dec_decimal by lia.
  destruct (dec n) eqn:E; [congruence|]. cbn [is_nil negb andb]. rewrite <- E.
  rewrite dec_value_pv, pv_dec by lia. cbn [bind]. unfold MAX_TTL in *.
  replace ((n <? 0) || (n >? 4294967295)) with false by lia. reflexivity.
Qed.
