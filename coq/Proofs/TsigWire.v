(* Wire-level "every message it signs validates under the same key", for the TSIG record:
   when the reader arrives at the TSIG RR that sign_message appended (the records before it
   are skipped independently of the TSIG), it reads back the same owner and rdata and
   dns.tsig.validate accepts, for every keyed hash H. *)
From DV Require Import Base.Prelude.
From DV Require Model.NameM.
From DV Require Import Proofs.NameValid Proofs.NameWire.
From DV Require Import Model.TsigM Proofs.TsigSpec Proofs.TsigLemmas Proofs.TsigInj Proofs.TsigReader
        Proofs.TsigStream Proofs.TsigSender Proofs.TsigTamper Proofs.TsigCodec.
Open Scope Z_scope.
Ltac Zify.zify_post_hook ::= Z.to_euclidean_division_equations.

Lemma skipn_skipn' : forall (A : Type) x y (l : list A), skipn x (skipn y l) = skipn (y + x) l.
Proof.
  intros A x y. induction y; intros l; cbn [skipn Nat.add]; [reflexivity|].
  destruct l; [now rewrite !skipn_nil|]. apply IHy.
Qed.

Lemma firstn_app_exact : forall (A : Type) n (a b : list A), length a = n -> firstn n (a ++ b) = a.
Proof. intros A n a b <-. apply firstn_app_len. Qed.

Lemma skipn_app_exact : forall (A : Type) n (a b : list A), length a = n -> skipn n (a ++ b) = b.
Proof. intros A n a b <-. apply skipn_app_len. Qed.

Lemma wire_split_ar : forall (wire : bytes) a b,
  slice wire 10 12 = [a; b] -> wire = firstn 10 wire ++ [a; b] ++ skipn 12 wire.
Proof.
  intros wire a b S. unfold slice in S. change (12 - 10)%nat with 2%nat in S.
  rewrite <- (firstn_skipn 10 wire) at 1. f_equal.
  rewrite <- (firstn_skipn 2 (skipn 10 wire)). rewrite S. rewrite skipn_skipn'. reflexivity.
Qed.

Lemma tsig_rr_inv : forall owner t rr,
  tsig_rr owner t = Ok rr ->
  NameM.is_absolute owner = true /\ NameM.is_absolute (t_alg t) = true
  /\ zlen (t_mac t) < 65536 /\ zlen (t_other t) < 65536.
Proof.
  intros owner t rr RR. unfold tsig_rr, NameM.to_wire in RR.
  destruct (NameM.is_absolute owner); cbn [bind] in RR; [|discriminate].
  destruct (tsig_to_wire t) as [rdw| |] eqn:TW; cbn [bind] in RR; try discriminate.
  unfold tsig_to_wire, NameM.to_wire in TW.
  destruct (NameM.is_absolute (t_alg t)); cbn [bind] in TW; [|discriminate].
  destruct (in_u16 (t_fudge t) && in_u16 (zlen (t_mac t))) eqn:X; cbn [negb] in TW; [|discriminate].
  destruct (in_u16 (t_oid t) && in_u16 (t_error t) && in_u16 (zlen (t_other t))) eqn:Y; cbn [negb] in TW; [|discriminate].
  apply andb_true_iff in X as [_ X]. apply andb_true_iff in Y as [_ Y].
  apply in_u16_iff in X, Y. repeat split; lia.
Qed.

Section WithH.
  Variable H : hashid -> bytes -> bytes -> bytes.

  Lemma signed_rr_reads_back_validated_lemma :
    forall wire k rd now rmac ctx multi out rd' c' now2 count st,
      sign_message H wire k (kname k) rd now rmac ctx multi = Ok (out, rd', c') ->
      Valid (kname k) -> Valid (t_alg rd) ->
      all_bytes wire = true -> (12 <= length wire)%nat ->
      t_error rd = 0 -> NameM.name_eqb (kalg k) (t_alg rd) = true ->
      rfc_time_ok now2 now (t_fudge rd) ->
      r_pos st = length wire -> r_ctx st = ctx ->
      get_rr H out (KR_Key k) rmac now2 multi 3 count (count - 1) st
      = Ok {| r_pos := length out; r_tsig := Some (kname k, rd'); r_ctx := c';
              r_recs := (3, TSIG, ANY, length wire) :: r_recs st |}.
  Proof.
    intros until st. intros SM Vk Va AB L12 Er Al Ti Pos Cx.
    apply sign_message_inv in SM as (SG & ad & rr & AD & RR & ->).
    pose proof (get_adcount_range _ _ AB AD) as ADr.
    (* shape of the message *)
    unfold get_adcount in AD.
    destruct (slice wire 10 12) as [|a [|b [|]]] eqn:S; try discriminate.
    assert (ad = a * 256 + b) by congruence. subst ad.
    pose proof (wire_split_ar wire a b S) as WS.
    assert (Ba : 0 <= a < 256 /\ 0 <= b < 256).
    { assert (In a wire /\ In b wire) as [Ia Ib].
      { rewrite WS. split; apply in_or_app; right; apply in_or_app; left; cbn; auto. }
      split; eapply all_bytes_In; eassumption. }
    set (pre := slice wire 0 10 ++ u16 (a * 256 + b + 1) ++ skipn 12 wire).
    assert (F10 : slice wire 0 10 = firstn 10 wire) by reflexivity.
    assert (LF : length (firstn 10 wire) = 10%nat) by (apply firstn_length_le; lia).
    assert (LP : length pre = length wire).
    { unfold pre. rewrite F10, !app_length, LF, skipn_length. unfold u16. cbn [length]. clear - L12. lia. }
    replace (slice wire 0 10 ++ u16 (a * 256 + b + 1) ++ skipn 12 wire ++ rr) with (pre ++ rr)
      by (unfold pre; now rewrite <- !app_assoc).
    (* the rdata sign produced is well-formed *)
    pose proof (tsig_rr_inv _ _ _ RR) as (Ak & Aa & Lm & Lo).
    pose proof SG as SG'. unfold sign in SG'.
    destruct (digest wire k rd (Some now) rmac ctx multi) as [cd| |]; cbn [bind] in SG'; try discriminate.
    destruct (mk_tsig _ _ _ _ _ _ _) as [r| |] eqn:M; cbn [bind] in SG'; try discriminate.
    destruct (maybe_start_digest k (ctx_sign H cd) multi) as [cc| |]; cbn [bind] in SG'; try discriminate.
    assert (r = rd') by congruence. subst r. clear SG'.
    pose proof (mk_tsig_fields _ _ _ _ _ _ _ _ M) as (Fa & Ft & Ff & Fm & Fo & Fe & Fot).
    assert (OKt : tsig_ok rd').
    { unfold mk_tsig in M.
      destruct (in_u48 now) eqn:I1; cbn [negb] in M; [|discriminate].
      destruct (in_u16 (t_fudge rd)) eqn:I2; cbn [negb] in M; [|discriminate].
      destruct (in_u16 (t_oid rd)) eqn:I3; cbn [negb] in M; [|discriminate].
      destruct ((0 <=? t_error rd) && (t_error rd <=? 4095)) eqn:I4; cbn [negb] in M; [|discriminate].
      unfold tsig_ok. rewrite Fa, Ft, Ff, Fo, Fe.
      unfold in_u48 in I1. apply andb_true_iff in I1 as [I1a I1b], I4 as [I4a I4b].
      apply in_u16_iff in I2, I3. apply Z.leb_le in I1a, I4a, I4b. apply Z.ltb_lt in I1b.
      rewrite Fa in Aa. split; [exact Va|]. repeat split; try assumption; lia. }
    rewrite (get_rr_on_tsig_rr H pre (kname k) rd' rr (KR_Key k) rmac now2 multi count st Vk Ak OKt RR)
      by (rewrite Pos; symmetry; exact LP).
    cbn [find_key bind].
    (* validate accepts: sign_then_validate on pre ++ rr *)
    assert (GA : get_adcount (pre ++ rr) = Ok (a * 256 + b + 1)).
    { unfold get_adcount, slice. change (12 - 10)%nat with 2%nat.
      unfold pre. rewrite F10. rewrite <- !app_assoc.
      rewrite (skipn_app_exact _ 10 (firstn 10 wire)) by exact LF.
      cbn [u16 app firstn]. f_equal. lia. }
    assert (ST : strip_tsig (pre ++ rr) (a * 256 + b + 1) (length pre) = wire).
    { unfold strip_tsig, slice. change (skipn 0 (pre ++ rr)) with (pre ++ rr). change (10 - 0)%nat with 10%nat.
      rewrite LP. unfold pre. rewrite F10. rewrite <- !app_assoc.
      rewrite (firstn_app_exact _ 10 (firstn 10 wire)) by exact LF.
      replace (firstn 10 wire ++ u16 (a * 256 + b + 1) ++ skipn 12 wire ++ rr)
         with ((firstn 10 wire ++ u16 (a * 256 + b + 1)) ++ skipn 12 wire ++ rr) by now rewrite <- app_assoc.
      rewrite (skipn_app_exact _ 12 (firstn 10 wire ++ u16 (a * 256 + b + 1)))
        by (rewrite app_length, LF; reflexivity).
      rewrite (firstn_app_exact _ (length wire - 12) (skipn 12 wire)) by (rewrite skipn_length; reflexivity).
      replace (a * 256 + b + 1 - 1) with (a * 256 + b) by lia.
      replace (u16 (a * 256 + b)) with [a; b] by (unfold u16; f_equal; [lia|f_equal; lia]).
      symmetry. exact WS. }
    rewrite Cx.
    rewrite (sign_then_validate_lemma H wire k rd now rmac ctx multi rd' c' (pre ++ rr) (length pre)
               (a * 256 + b + 1) now2 SG GA ltac:(lia) ST Er Al Ti).
    cbn [bind]. rewrite LP. reflexivity.
  Qed.
End WithH.
