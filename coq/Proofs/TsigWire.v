(* Wire-level "every message it signs validates under the same key", for the TSIG record:
   when the reader arrives at the TSIG RR that sign_message appended (the records before it
   are skipped independently of the TSIG), it reads back the same owner and rdata and
   dns.tsig.validate accepts, for every keyed hash H. *)
From DV Require Import Base.Prelude.
From DV Require Model.NameM.
From DV Require Import Proofs.NameValid Proofs.NameWire.
From DV Require Import Model.TsigM Proofs.TsigSpec Proofs.TsigLemmas Proofs.TsigInj Proofs.TsigReader
        Proofs.TsigStream Proofs.TsigSender Proofs.TsigTamper Proofs.TsigCodec.
Open Scope Z_scope.
Ltac Zify.zify_post_hook ::= Z.to_euclidean_division_equations.

Lemma skipn_skipn' : forall (A : Type) x y (l : list A), skipn x (skipn y l) = skipn (y + x) l.
Proof.
  intros A x y. induction y; intros l; cbn [skipn Nat.add]; [reflexivity|].
  destruct l; [now rewrite !skipn_nil|]. apply IHy.
Qed.

Lemma firstn_app_exact : forall (A : Type) n (a b : list A), length a = n -> firstn n (a ++ b) = a.
Proof. intros A n a b <-. apply firstn_app_len. Qed.

Lemma skipn_app_exact : forall (A : Type) n (a b : list A), length a = n -> skipn n (a ++ b) = b.
Proof. intros A n a b <-. apply skipn_app_len. Qed.

Lemma wire_split_ar : forall (wire : bytes) a b,
  slice wire 10 12 = [a; b] -> wire = firstn 10 wire ++ [a; b] ++ skipn 12 wire.
Proof.
  intros wire a b S. unfold slice in S. change (12 - 10)%nat with 2%nat in S.
  rewrite <- (firstn_skipn 10 wire) at 1. f_equal.
  rewrite <- (firstn_skipn 2 (skipn 10 wire)). rewrite S. rewrite skipn_skipn'. reflexivity.
Qed.

Lemma tsig_rr_inv : forall owner t rr,
  tsig_rr owner t = Ok rr ->
  NameM.is_absolute owner = true /\ NameM.is_absolute (t_alg t) = true
  /\ zlen (t_mac t) < 65536 /\ zlen (t_other t) < 65536.
Proof.
  intros owner t rr RR. unfold tsig_rr, NameM.to_wire in RR.
  destruct (NameM.is_absolute owner); cbn [bind] in RR; [|discriminate].
  destruct (tsig_to_wire t) as [rdw| |] eqn:TW; cbn [bind] in RR; try discriminate.
  unfold tsig_to_wire, NameM.to_wire in TW.
  destruct (NameM.is_absolute (t_alg t)); cbn [bind] in TW; [|discriminate].
  destruct (in_u16 (t_fudge t) && in_u16 (zlen (t_mac t))) eqn:X; cbn [negb] in TW; [|discriminate].
  destruct (in_u16 (t_oid t) && in_u16 (t_error t) && in_u16 (zlen (t_other t))) eqn:Y; cbn [negb] in TW; [|discriminate].
  apply andb_true_iff in X as [_ X]. apply andb_true_iff in Y as [_ Y].
  apply in_u16_iff in X, Y. repeat split; lia.
Qed.

Section WithH.
  Variable H : hashid -> bytes -> bytes -> bytes.

  Lemma signed_rr_reads_back_validated_lemma :
    forall wire k rd now rmac ctx multi out rd' c' now2 count st,
      sign_message H wire k (kname k) rd now rmac ctx multi = Ok (out, rd', c') ->
      Valid (kname k) -> Valid (t_alg rd) ->
      all_bytes wire = true -> (12 <= length wire)%nat ->
      t_error rd = 0 -> NameM.name_eqb (kalg k) (t_alg rd) = true ->
      rfc_time_ok now2 now (t_fudge rd) ->
      r_pos st = length wire -> r_ctx st = ctx -> r_origin st = None ->
      get_rr H out (KR_Key k) rmac now2 multi 3 count (count - 1) st
      = Ok {| r_pos := length out; r_tsig := Some (kname k, rd'); r_ctx := c';
              r_recs := (3, TSIG, ANY, length wire) :: r_recs st; r_opt := r_opt st; r_origin := None |}.
  Proof.
    intros until st. intros SM Vk Va AB L12 Er Al Ti Pos Cx ON.
    apply sign_message_inv in SM as (SG & ad & rr & AD & RR & ->).
    pose proof (get_adcount_range _ _ AB AD) as ADr.
    (* shape of the message *)
    unfold get_adcount in AD.
    destruct (slice wire 10 12) as [|a [|b [|]]] eqn:S; try discriminate.
    assert (ad = a * 256 + b) by congruence. subst ad.
    pose proof (wire_split_ar wire a b S) as WS.
    assert (Ba : 0 <= a < 256 /\ 0 <= b < 256).
    { assert (In a wire /\ In b wire) as [Ia Ib].
      { rewrite WS. split; apply in_or_app; right; apply in_or_app; left; cbn; auto. }
      split; eapply all_bytes_In; eassumption. }
    set (pre := slice wire 0 10 ++ u16 (a * 256 + b + 1) ++ skipn 12 wire).
    assert (F10 : slice wire 0 10 = firstn 10 wire) by reflexivity.
    assert (LF : length (firstn 10 wire) = 10%nat) by (apply firstn_length_le; lia).
    assert (LP : length pre = length wire).
    { unfold pre. rewrite F10, !app_length, LF, skipn_length. unfold u16. cbn [length]. clear - L12. lia. }
    replace (slice wire 0 10 ++ u16 (a * 256 + b + 1) ++ skipn 12 wire ++ rr) with (pre ++ rr)
      by (unfold pre; now rewrite <- !app_assoc).
    (* the rdata sign produced is well-formed *)
    pose proof (tsig_rr_inv _ _ _ RR) as (Ak & Aa & Lm & Lo).
    pose proof SG as SG'. unfold sign in SG'.
    destruct (digest wire k rd (Some now) rmac ctx multi) as [cd| |]; cbn [bind] in SG'; try discriminate.
    destruct (mk_tsig _ _ _ _ _ _ _) as [r| |] eqn:M; cbn [bind] in SG'; try discriminate.
    destruct (maybe_start_digest k (ctx_sign H cd) multi) as [cc| |]; cbn [bind] in SG'; try discriminate.
    assert (r = rd') by congruence. subst r. clear SG'.
    pose proof (mk_tsig_fields _ _ _ _ _ _ _ _ M) as (Fa & Ft & Ff & Fm & Fo & Fe & Fot).
    assert (OKt : tsig_ok rd').
    { unfold mk_tsig in M.
      destruct (in_u48 now) eqn:I1; cbn [negb] in M; [|discriminate].
      destruct (in_u16 (t_fudge rd)) eqn:I2; cbn [negb] in M; [|discriminate].
      destruct (in_u16 (t_oid rd)) eqn:I3; cbn [negb] in M; [|discriminate].
      destruct ((0 <=? t_error rd) && (t_error rd <=? 4095)) eqn:I4; cbn [negb] in M; [|discriminate].
      unfold tsig_ok. rewrite Fa, Ft, Ff, Fo, Fe.
      unfold in_u48 in I1. apply andb_true_iff in I1 as [I1a I1b], I4 as [I4a I4b].
      apply in_u16_iff in I2, I3. apply Z.leb_le in I1a, I4a, I4b. apply Z.ltb_lt in I1b.
      rewrite Fa in Aa. split; [exact Va|]. repeat split; try assumption; lia. }
    rewrite (get_rr_on_tsig_rr H pre (kname k) rd' rr (KR_Key k) rmac now2 multi count st Vk Ak OKt RR)
      by (assumption || (rewrite Pos; symmetry; exact LP)).
    cbn [find_key bind].
    (* validate accepts: sign_then_validate on pre ++ rr *)
    assert (GA : get_adcount (pre ++ rr) = Ok (a * 256 + b + 1)).
    { unfold get_adcount, slice. change (12 - 10)%nat with 2%nat.
      unfold pre. rewrite F10. rewrite <- !app_assoc.
      rewrite (skipn_app_exact _ 10 (firstn 10 wire)) by exact LF.
      cbn [u16 app firstn]. f_equal. lia. }
    assert (ST : strip_tsig (pre ++ rr) (a * 256 + b + 1) (length pre) = wire).
    { unfold strip_tsig, slice. change (skipn 0 (pre ++ rr)) with (pre ++ rr). change (10 - 0)%nat with 10%nat.
      rewrite LP. unfold pre. rewrite F10. rewrite <- !app_assoc.
      rewrite (firstn_app_exact _ 10 (firstn 10 wire)) by exact LF.
      replace (firstn 10 wire ++ u16 (a * 256 + b + 1) ++ skipn 12 wire ++ rr)
         with ((firstn 10 wire ++ u16 (a * 256 + b + 1)) ++ skipn 12 wire ++ rr) by now rewrite <- app_assoc.
      rewrite (skipn_app_exact _ 12 (firstn 10 wire ++ u16 (a * 256 + b + 1)))
        by (rewrite app_length, LF; reflexivity).
      rewrite (firstn_app_exact _ (length wire - 12) (skipn 12 wire)) by (rewrite skipn_length; reflexivity).
      replace (a * 256 + b + 1 - 1) with (a * 256 + b) by lia.
      replace (u16 (a * 256 + b)) with [a; b] by (unfold u16; f_equal; [lia|f_equal; lia]).
      symmetry. exact WS. }
    rewrite Cx.
    rewrite (sign_then_validate_lemma H wire k rd now rmac ctx multi rd' c' (pre ++ rr) (length pre)
               (a * 256 + b + 1) now2 SG GA ltac:(lia) ST Er Al Ti).
    cbn [bind]. rewrite LP. reflexivity.
  Qed.
End WithH.

(* ---------- from the reader's step to the whole read ---------- *)

Section WholeRead.
  Variable H : hashid -> bytes -> bytes -> bytes.

  (* the record loop of one section, n records starting at index i0 *)
  Fixpoint get_section_n (w : bytes) (kr : keyring) (rmac : bytes) (now : Z) (multi : bool)
           (section count i0 : Z) (n : nat) (st : rst) : res rst :=
    match n with
    | O => Ok st
    | S n' =>
        do st' <- get_rr H w kr rmac now multi section count i0 st;
        get_section_n w kr rmac now multi section count (i0 + 1) n' st'
    end.

  Lemma get_section_as_n : forall rem w kr rmac now multi section count st,
    get_section H w kr rmac now multi section count rem st
    = get_section_n w kr rmac now multi section count (count - Z.of_nat rem) rem st.
  Proof.
    induction rem; intros; cbn [get_section get_section_n]; [reflexivity|].
    destruct (get_rr H w kr rmac now multi section count (count - Z.of_nat (S rem)) st); cbn [bind]; try reflexivity.
    rewrite IHrem. f_equal. lia.
  Qed.

  Lemma get_section_n_snoc : forall n w kr rmac now multi section count i0 st,
    get_section_n w kr rmac now multi section count i0 (n + 1) st
    = (do st' <- get_section_n w kr rmac now multi section count i0 n st;
       get_rr H w kr rmac now multi section count (i0 + Z.of_nat n) st').
  Proof.
    induction n; intros; cbn [get_section_n Nat.add].
    - rewrite Z.add_0_r. cbn [bind]. destruct (get_rr H w kr rmac now multi section count i0 st); reflexivity.
    - destruct (get_rr H w kr rmac now multi section count i0 st); cbn [bind]; try reflexivity.
      rewrite IHn. replace (i0 + 1 + Z.of_nat n) with (i0 + Z.of_nat (S n)) by lia. reflexivity.
  Qed.

  (* records before the last one of a section never are the TSIG: context and tsig untouched *)
  Lemma get_section_n_prefix_keeps : forall n w kr rmac now multi section count i0 st st',
    i0 + Z.of_nat n <= count - 1 ->
    get_section_n w kr rmac now multi section count i0 n st = Ok st' ->
    r_tsig st' = r_tsig st /\ r_ctx st' = r_ctx st.
  Proof.
    induction n; intros until st'; intros B E; cbn [get_section_n] in E.
    - inversion E. auto.
    - destruct (get_rr H w kr rmac now multi section count i0 st) as [st1| |] eqn:G; cbn [bind] in E; try discriminate.
      apply get_rr_ok in G as [(ty & cl & _ & _ & T & C) | (_ & IL & _)]; [|lia].
      apply IHn in E as [T' C']; [|lia]. split; congruence.
  Qed.

  Lemma get_section_n_origin : forall n w kr rmac now multi section count i0 st st',
    get_section_n w kr rmac now multi section count i0 n st = Ok st' -> r_origin st' = r_origin st.
  Proof.
    induction n; intros until st'; intros E; cbn [get_section_n] in E.
    - inversion E. reflexivity.
    - destruct (get_rr H w kr rmac now multi section count i0 st) as [st1| |] eqn:G; cbn [bind] in E; try discriminate.
      apply get_rr_origin in G. apply IHn in E. congruence.
  Qed.

  (* The message `out` that sign_message produced, read back: if the part of `out` before the
     TSIG RR parses (questions, ANSWER, AUTHORITY and the ADDITIONAL records before the TSIG,
     ending where the TSIG RR starts), the whole read succeeds, validated, with the signer's
     follow-up context. *)
  Lemma read_signed_message_lemma :
    forall wire k rd now rmac ctx multi out rd' c' now2 fl qd an au ad p s1 s2 s3,
      sign_message H wire k (kname k) rd now rmac ctx multi = Ok (out, rd', c') ->
      Valid (kname k) -> Valid (t_alg rd) ->
      all_bytes wire = true -> (12 <= length wire)%nat ->
      t_error rd = 0 -> NameM.name_eqb (kalg k) (t_alg rd) = true ->
      rfc_time_ok now2 now (t_fudge rd) ->
      (* the header of `out` and the records before the TSIG RR *)
      get_uint out (length out) 2 2 = Ok fl -> get_uint out (length out) 4 2 = Ok qd ->
      get_uint out (length out) 6 2 = Ok an -> get_uint out (length out) 8 2 = Ok au ->
      get_uint out (length out) 10 2 = Ok ad ->
      ((fst fl / 2048) mod 16 =? 5) = false ->
      get_question out (Z.to_nat (fst qd)) 12 = Ok p ->
      get_section H out (KR_Key k) rmac now2 multi 1 (fst an) (Z.to_nat (fst an))
        {| r_pos := p; r_tsig := None; r_ctx := ctx; r_recs := []; r_opt := false; r_origin := None |} = Ok s1 ->
      get_section H out (KR_Key k) rmac now2 multi 2 (fst au) (Z.to_nat (fst au)) s1 = Ok s2 ->
      1 <= fst ad ->
      get_section_n out (KR_Key k) rmac now2 multi 3 (fst ad) 0 (Z.to_nat (fst ad - 1)) s2 = Ok s3 ->
      r_pos s3 = length wire ->
      read H out (KR_Key k) rmac ctx multi now2
      = Ok {| m_had_tsig := true; m_tsig := Some (kname k, rd'); m_ctx := c';
              m_recs := rev ((3, TSIG, ANY, length wire) :: r_recs s3) |}.
  Proof.
    intros until s3. intros SM Vk Va AB L12 Er Al Ti Hfl Hqd Han Hau Had Op Q S1 S2 A1 S3 Pos.
    assert (LO : (12 <= length out)%nat).
    { pose proof SM as SM'. apply sign_message_inv in SM' as (_ & ad0 & rr & _ & _ & ->).
      rewrite !app_length. change (slice wire 0 10) with (firstn 10 wire).
      rewrite firstn_length_le by lia. rewrite skipn_length. unfold u16. cbn [length]. lia. }
    (* contexts before the TSIG record *)
    apply get_section_ok in S1 as S1'. destruct S1' as (n1 & _ & [(_ & T1 & C1) | (Bad & _)]); [|discriminate].
    apply get_section_ok in S2 as S2'. destruct S2' as (n2 & _ & [(_ & T2 & C2) | (Bad & _)]); [|discriminate].
    cbn [r_tsig r_ctx] in T1, C1.
    apply get_section_n_prefix_keeps in S3 as S3'; [|rewrite Z2Nat.id by lia; lia].
    destruct S3' as (T3 & C3).
    assert (OR : r_origin s3 = None).
    { apply get_section_n_origin in S3. apply get_section_origin in S2. apply get_section_origin in S1.
      cbn [r_origin] in S1. congruence. }
    assert (CX : r_ctx s3 = ctx) by congruence.
    assert (TX : r_tsig s3 = None) by congruence.
    (* the last ADDITIONAL record *)
    pose proof (signed_rr_reads_back_validated_lemma H wire k rd now rmac ctx multi out rd' c' now2 (fst ad) s3
                  SM Vk Va AB L12 Er Al Ti Pos CX OR) as LAST.
    unfold read, read_gen.
    destruct (Nat.ltb_spec (length out) 12) as [Bad|_]; [lia|].
    rewrite Hfl, Hqd, Han, Hau, Had. cbn [bind]. rewrite Op. rewrite Q. cbn [bind].
    rewrite S1. cbn [bind]. rewrite S2. cbn [bind].
    rewrite get_section_as_n.
    replace (Z.to_nat (fst ad)) with (Z.to_nat (fst ad - 1) + 1)%nat by lia.
    replace (fst ad - Z.of_nat (Z.to_nat (fst ad - 1) + 1)) with 0 by lia.
    rewrite get_section_n_snoc. rewrite S3. cbn [bind].
    replace (0 + Z.of_nat (Z.to_nat (fst ad - 1))) with (fst ad - 1) by lia.
    rewrite LAST. cbn [bind r_pos r_tsig r_ctx r_recs].
    rewrite Nat.eqb_refl. cbn [negb].
    destruct c' as [c1|]; [|reflexivity].
    rewrite andb_false_r. reflexivity.
  Qed.
End WholeRead.
