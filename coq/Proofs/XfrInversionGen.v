(* C13 - the inversion of a completed incremental transfer with NO restriction on the records or on the client
   zone: records of any class, type (singleton types, CNAME, RRSIG(CNAME), SOA below the apex, ...) and TTL;
   only the apex SOA records are taken in their canonical form (class IN).  The denotation is then stated
   with the transaction operations themselves (exact deletion, add, replace of the SOA). *)
From DV Require Import Base.Prelude Model.XfrM Proofs.XfrSets Proofs.XfrSpec Proofs.XfrZone Proofs.XfrDiff
  Proofs.XfrSafety Proofs.XfrBasic Proofs.XfrRun Proofs.XfrIxfr Proofs.XfrAxfr Proofs.XfrPerm Proofs.XfrOrder
  Proofs.XfrFault Proofs.XfrGlue Proofs.XfrSections Proofs.XfrGroup Proofs.XfrSoaFaults Proofs.XfrInversion.

(* not an apex SOA record *)
Definition nsoa (r : rr) : Prop := ((r_type r =? tSOA) && (r_name r =? origin)) = false.

(* any record at all, the apex SOA records in canonical form *)
Definition any_rec (r : rr) : Prop := (exists b, r = soa_rr b /\ ttl_ok (v_ttl b)) \/ nsoa r.

(* what the transaction does with one deleted / added record (out-of-zone records are skipped) *)
Definition m_del (z : zone) (r : rr) : res zone :=
  if in_zone (r_name r) then t_delete_exact z (single r) else Ok z.
Definition m_add (z : zone) (r : rr) : res zone :=
  if in_zone (r_name r) then t_add false z (single r) else Ok z.

Fixpoint m_fold (f : zone -> rr -> res zone) (z : zone) (rs : list rr) : res zone :=
  match rs with
  | [] => Ok z
  | r :: t => match f z r with Ok z' => m_fold f z' t | Lib e => Lib e | Internal e => Internal e end
  end.

Definition m_soa (z : zone) (b : version) : res zone := t_add true z (single (soa_rr b)).

Fixpoint m_secs (z : zone) (secs : list sect) : res zone :=
  match secs with
  | [] => Ok z
  | c :: r =>
      match m_fold m_del z (c_dels c) with
      | Ok z1 => match m_soa z1 (c_new c) with
                 | Ok z2 => match m_fold m_add z2 (c_adds c) with
                            | Ok z3 => m_secs z3 r
                            | Lib e => Lib e | Internal e => Internal e end
                 | Lib e => Lib e | Internal e => Internal e end
      | Lib e => Lib e | Internal e => Internal e
      end
  end.

(* the SOA skeleton alone: the sections are chained by their serials, none starts with the announced SOA *)
Fixpoint skel_g (cur : Z) (fin : version) (secs : list sect) : Prop :=
  match secs with
  | [] => True
  | c :: r =>
      v_serial (c_old c) = cur /\ v_soa (c_old c) <> v_soa fin /\ ttl_ok (v_ttl (c_new c)) /\
      Forall nsoa (c_dels c) /\ Forall nsoa (c_adds c) /\ skel_g (v_serial (c_new c)) fin r
  end.

Lemma m_fold_app : forall f a b z, m_fold f z (a ++ b) =
  match m_fold f z a with Ok z' => m_fold f z' b | Lib e => Lib e | Internal e => Internal e end.
Proof.
  induction a as [|r a IH]; intros b z; cbn [app m_fold]; [reflexivity|].
  destruct (f z r); [apply IH|reflexivity|reflexivity].
Qed.

Lemma skel_g_join : forall a b cur fin,
  skel_g cur fin a -> skel_g (end_serial cur a) fin b -> skel_g cur fin (a ++ b).
Proof.
  induction a as [|c a IH]; intros b cur fin Ha Hb; cbn [app skel_g end_serial] in *; [exact Hb|].
  destruct Ha as (H1 & H2 & H3 & H4 & H5 & H6).
  exact (conj H1 (conj H2 (conj H3 (conj H4 (conj H5 (IH _ _ _ H6 Hb)))))).
Qed.

Lemma m_secs_join : forall a b z z1, m_secs z a = Ok z1 -> m_secs z (a ++ b) = m_secs z1 b.
Proof.
  induction a as [|c a IH]; intros b z z1 H; cbn [app m_secs] in *; [inversion H; reflexivity|].
  destruct (m_fold m_del z (c_dels c)) as [za| |]; try discriminate.
  destruct (m_soa za (c_new c)) as [zb| |]; try discriminate.
  destruct (m_fold m_add zb (c_adds c)) as [zc| |]; try discriminate. apply IH, H.
Qed.

(* ---- the steps, whatever the records are ---- *)
Section GENINV.
Variables (u : bool) (p z0 : zone) (ser : Z) (fin : version).
Let s0 := single (soa_rr fin).

Lemma step_other : forall l tz cur dm r, nsoa r ->
  step l (ist u p tz cur s0 false dm) (single r) =
  if negb (in_zone (r_name r)) then (ist u p tz cur s0 false dm, None)
  else if dm then res_of (ist u p tz cur s0 false dm) (t_delete_exact tz (single r)) (fun tz' => (ist u p tz' cur s0 false dm, None))
  else res_of (ist u p tz cur s0 false dm) (t_add false tz (single r)) (fun tz' => (ist u p tz' cur s0 false dm, None)).
Proof.
  intros l tz cur dm r Hr. unfold nsoa in Hr. unfold step, ist. cbn [done txn expecting delmode].
  change (s_type (single r)) with (r_type r). change (s_name (single r)) with (r_name r). rewrite Hr.
  destruct (in_zone (r_name r)); cbn [negb]; [|reflexivity].
  destruct dm; reflexivity.
Qed.

Lemma step_add_start_m : forall l tz cur b,
  step l (ist u p tz cur s0 false true) (single (soa_rr b)) =
  res_of (ist u p tz (v_serial b) s0 false false) (m_soa tz b) (fun tz' => (ist u p tz' (v_serial b) s0 false false, None)).
Proof.
  intros l tz cur b. unfold step, ist, s0, m_soa. cbn [done txn incremental delmode soa set_delmode negb].
  change ((s_type (single (soa_rr b)) =? tSOA) && (s_name (single (soa_rr b)) =? origin)) with true. cbv iota.
  cbn [orb]. rewrite andb_false_r.
  rewrite soa_serial_single. cbn [incremental set_expecting set_serial]. reflexivity.
Qed.

Lemma step_final_m : forall tz b, v_soa b = v_soa fin ->
  step Last (ist u p tz (v_serial b) s0 false false) (single (soa_rr b)) =
  res_of (ist u p tz (v_serial b) s0 false true) (m_soa tz b)
    (fun tz' => (mkSt tz' None tIXFR true (v_serial b) u (Some s0) true false true false, None)).
Proof.
  intros tz b Hb. unfold step, ist, s0, m_soa. cbn [done txn incremental delmode soa set_delmode negb].
  change ((s_type (single (soa_rr b)) =? tSOA) && (s_name (single (soa_rr b)) =? origin)) with true. cbv iota.
  rewrite soa_eqb. apply Z.eqb_eq in Hb. rewrite Hb. cbn [andb orb].
  rewrite soa_serial_single. cbn [expecting incremental serial]. rewrite Z.eqb_refl. cbn [negb andb].
  reflexivity.
Qed.

Inductive g_inv : list rr -> st -> Prop :=
| g_start : g_inv [] (ist u p z0 ser s0 true false)
| g_secs : forall secs tz,
    secs <> [] -> skel_g ser fin secs -> m_secs z0 secs = Ok tz ->
    g_inv (secs_stream secs) (ist u p tz (end_serial ser secs) s0 false false)
| g_del : forall secs a D tz0 tz,
    skel_g ser fin secs -> v_serial a = end_serial ser secs -> v_soa a <> v_soa fin -> Forall nsoa D ->
    m_secs z0 secs = Ok tz0 -> m_fold m_del tz0 D = Ok tz ->
    g_inv (secs_stream secs ++ soa_rr a :: D) (ist u p tz (v_serial a) s0 false true).

(* one more added record joins the additions of the last section *)
Lemma extend_last_g : forall secs z cur tz tz' x,
  secs <> [] -> skel_g cur fin secs -> m_secs z secs = Ok tz -> nsoa x -> m_add tz x = Ok tz' ->
  exists secs', secs' <> [] /\ secs_stream secs' = secs_stream secs ++ [x] /\ skel_g cur fin secs' /\
                m_secs z secs' = Ok tz' /\ end_serial cur secs' = end_serial cur secs.
Proof.
  induction secs as [|c rest IH]; intros z cur tz tz' x Hne Hsk Hap Hx Hadd; [congruence|].
  cbn [skel_g] in Hsk. destruct Hsk as (H1 & H2 & H3 & H4 & H5 & H6).
  cbn [m_secs] in Hap.
  destruct (m_fold m_del z (c_dels c)) as [z1| |] eqn:Hd; try discriminate.
  destruct (m_soa z1 (c_new c)) as [z2| |] eqn:Hso; try discriminate.
  destruct (m_fold m_add z2 (c_adds c)) as [z3| |] eqn:Ha; try discriminate.
  destruct rest as [|c2 rest].
  - cbn [m_secs] in Hap. inversion Hap; subst z3.
    exists [set_adds c (c_adds c ++ [x])]. split; [discriminate|]. split; [|split; [|split]].
    + cbn [secs_stream set_adds c_old c_dels c_new c_adds].
      repeat (first [rewrite <- app_assoc | progress cbn [app] | rewrite app_nil_r]). reflexivity.
    + cbn [skel_g set_adds c_old c_dels c_new c_adds].
      split; [exact H1|]. split; [exact H2|]. split; [exact H3|]. split; [exact H4|]. split; [|exact Logic.I].
      apply Forall_app. split; [exact H5|constructor; [exact Hx|constructor]].
    + cbn [m_secs set_adds c_old c_dels c_new c_adds]. rewrite Hd, Hso, m_fold_app, Ha. cbn [m_fold]. rewrite Hadd. reflexivity.
    + reflexivity.
  - destruct (IH _ _ _ _ x (ltac:(discriminate)) H6 Hap Hx Hadd) as (secs' & N & S1 & S2 & S3 & S4).
    exists (c :: secs'). split; [discriminate|]. split; [|split; [|split]].
    + cbn [secs_stream] in *. rewrite S1.
      repeat (first [rewrite <- app_assoc | progress cbn [app] | rewrite app_nil_r]). reflexivity.
    + cbn [skel_g]. auto 10.
    + cbn [m_secs]. rewrite Hd, Hso, Ha. exact S3.
    + cbn [end_serial]. exact S4.
Qed.

Lemma res_of_none : forall A s (r : res A) k s', res_of s r k = (s', None) -> exists a, r = Ok a /\ k a = (s', None).
Proof. intros A s [a|e|e] k s' H; cbn [res_of] in H; [eauto|discriminate|discriminate]. Qed.

Lemma g_inv_step : forall c s x s',
  g_inv c s -> any_rec x -> (c = [] -> exists b, x = soa_rr b /\ ttl_ok (v_ttl b)) ->
  step Mid s (single x) = (s', None) -> g_inv (c ++ [x]) s'.
Proof.
  intros c s x s' Hinv Hx Hfirst Hs. destruct Hinv as [|secs tz Hne Hsk Hap|secs a D tz0 tz Hsk Hser Hna HD Hap Hd].
  - destruct (Hfirst eq_refl) as [b [-> Httl]].
    destruct (Z.eq_dec (v_serial b) ser) as [Eser|Eser].
    + destruct (Z.eq_dec (v_soa b) (v_soa fin)) as [Eb|Eb].
      * destruct (step_fin_mid u p fin z0 ser true b Eb) as (s1 & c1 & Hc). unfold s0 in *. rewrite Hc in Hs. discriminate.
      * rewrite <- Eser in Hs. unfold s0 in Hs. rewrite (step_del_start u Mid p z0 fin b true Eb) in Hs. inversion Hs; subst.
        apply (g_del [] b [] z0 z0); try assumption; try reflexivity; constructor.
    + unfold s0 in Hs. rewrite (step_soa_mismatch Mid u p z0 ser fin true b Eser) in Hs. discriminate.
  - destruct Hx as [[b [-> Httl]]|Hn].
    + destruct (Z.eq_dec (v_serial b) (end_serial ser secs)) as [Eser|Eser].
      * destruct (Z.eq_dec (v_soa b) (v_soa fin)) as [Eb|Eb].
        -- destruct (step_fin_mid u p fin tz (end_serial ser secs) false b Eb) as (s1 & c1 & Hc). unfold s0 in Hs. rewrite Hc in Hs. discriminate.
        -- rewrite <- Eser in Hs. unfold s0 in Hs. rewrite (step_del_start u Mid p tz fin b false Eb) in Hs. inversion Hs; subst.
           apply (g_del secs b [] tz tz); try assumption; try reflexivity; constructor.
      * unfold s0 in Hs. rewrite (step_soa_mismatch Mid u p tz _ fin false b Eser) in Hs. discriminate.
    + rewrite (step_other Mid tz _ false x Hn) in Hs.
      assert (Hadd : exists tz', m_add tz x = Ok tz' /\ s' = ist u p tz' (end_serial ser secs) s0 false false).
      { unfold m_add. destruct (in_zone (r_name x)); cbn [negb] in Hs.
        - apply res_of_none in Hs. destruct Hs as [tz' [H1 H2]]. exists tz'. split; [exact H1|]. congruence.
        - exists tz. split; [reflexivity|]. congruence. }
      destruct Hadd as [tz' [Hadd ->]].
      destruct (extend_last_g secs z0 ser tz tz' x Hne Hsk Hap Hn Hadd) as (secs' & N & S1 & S2 & S3 & S4).
      rewrite <- S1, <- S4. apply g_secs; assumption.
  - destruct Hx as [[b [-> Httl]]|Hn].
    + rewrite (step_add_start_m Mid tz (v_serial a) b) in Hs.
      apply res_of_none in Hs. destruct Hs as [tz' [Hso Hk]]. inversion Hk; subst s'.
      set (c := mkSect a D b []).
      assert (E1 : (secs_stream secs ++ soa_rr a :: D) ++ [soa_rr b] = secs_stream (secs ++ [c])).
      { rewrite secs_stream_app. cbn [secs_stream c c_old c_dels c_new c_adds]. rewrite !app_nil_r.
        rewrite <- app_assoc. reflexivity. }
      assert (E2 : v_serial b = end_serial ser (secs ++ [c])) by (rewrite end_serial_join; reflexivity).
      rewrite E1, E2. apply g_secs.
      * destruct secs; discriminate.
      * apply skel_g_join; [exact Hsk|]. cbn [skel_g c c_old c_dels c_new c_adds].
        split; [exact Hser|]. split; [exact Hna|]. split; [exact Httl|]. split; [exact HD|]. split; [constructor|exact Logic.I].
      * rewrite (m_secs_join _ _ _ _ Hap). cbn [m_secs c c_old c_dels c_new c_adds m_fold]. rewrite Hd, Hso. reflexivity.
    + rewrite (step_other Mid tz _ true x Hn) in Hs.
      assert (Hdel : exists tz', m_del tz x = Ok tz' /\ s' = ist u p tz' (v_serial a) s0 false true).
      { unfold m_del. destruct (in_zone (r_name x)); cbn [negb] in Hs.
        - apply res_of_none in Hs. destruct Hs as [tz' [H1 H2]]. exists tz'. split; [exact H1|]. congruence.
        - exists tz. split; [reflexivity|]. congruence. }
      destruct Hdel as [tz' [Hdel ->]].
      assert (E : (secs_stream secs ++ soa_rr a :: D) ++ [x] = secs_stream secs ++ soa_rr a :: (D ++ [x])).
      { rewrite <- app_assoc. reflexivity. }
      rewrite E. apply (g_del secs a (D ++ [x]) tz0 tz'); try assumption.
      * apply Forall_app. split; [exact HD|constructor; [exact Hn|constructor]].
      * rewrite m_fold_app, Hd. cbn [m_fold]. rewrite Hdel. reflexivity.
Qed.

Lemma g_inv_run : forall c c0 s s1,
  g_inv c0 s -> Forall any_rec c ->
  (c0 = [] -> match c with x :: _ => exists b, x = soa_rr b /\ ttl_ok (v_ttl b) | [] => True end) ->
  loopn s (map single c) = (s1, None) -> g_inv (c0 ++ c) s1.
Proof.
  induction c as [|x c IH]; intros c0 s s1 Hinv Hf Hfirst Hl; cbn [map loopn] in Hl.
  - inversion Hl; subst. rewrite app_nil_r. exact Hinv.
  - inversion Hf as [|? ? Hx Hf']; subst.
    destruct (step Mid s (single x)) as [s' [e|]] eqn:Hs; [discriminate|].
    assert (H1 : g_inv (c0 ++ [x]) s') by (apply (g_inv_step c0 s x s' Hinv Hx Hfirst Hs)).
    replace (c0 ++ x :: c) with ((c0 ++ [x]) ++ c) by (rewrite <- app_assoc; reflexivity).
    apply (IH _ s' s1 H1 Hf'); [|exact Hl].
    intros E. destruct c0; discriminate.
Qed.

Lemma g_inv_final : forall c s x s2,
  g_inv c s -> any_rec x -> (c = [] -> exists b, x = soa_rr b /\ ttl_ok (v_ttl b)) ->
  step Last s (single x) = (s2, None) -> done s2 = true ->
  exists secs tz b, secs <> [] /\ c = secs_stream secs /\ skel_g ser fin secs /\ m_secs z0 secs = Ok tz /\
    end_serial ser secs = v_serial fin /\ x = soa_rr b /\ v_soa b = v_soa fin /\ m_soa tz b = Ok (pub s2).
Proof.
  intros c s x s2 Hinv Hx Hfirst Hs Hd.
  destruct (step Mid s (single x)) as [sm [em|]] eqn:Hm.
  2:{ exfalso. pose proof (g_inv_step c s x sm Hinv Hx Hfirst Hm) as Hi.
      rewrite (step_false_true _ _ _ Hm) in Hs. inversion Hs; subst.
      destruct Hi; cbn [ist done] in Hd; discriminate. }
  destruct Hinv as [|secs tz Hne Hsk Hap|secs a D tz0 tz Hsk Hser Hna HD Hap Hd0].
  - exfalso. destruct (Hfirst eq_refl) as [b [-> Httl]].
    destruct (Z.eq_dec (v_serial b) ser) as [Eser|Eser].
    + destruct (Z.eq_dec (v_soa b) (v_soa fin)) as [Eb|Eb].
      * unfold step, ist, s0 in Hs. cbn [done txn incremental delmode soa set_delmode negb] in Hs.
        change ((s_type (single (soa_rr b)) =? tSOA) && (s_name (single (soa_rr b)) =? origin)) with true in Hs. cbv iota in Hs.
        rewrite soa_eqb in Hs. apply Z.eqb_eq in Eb. rewrite Eb in Hs. cbn [andb orb] in Hs.
        rewrite soa_serial_single in Hs. cbn [expecting incremental serial set_delmode] in Hs. discriminate.
      * rewrite <- Eser in Hs. unfold s0 in Hs. rewrite (step_del_start u Last p z0 fin b true Eb) in Hs. inversion Hs; subst.
        cbn [ist done] in Hd. discriminate.
    + unfold s0 in Hs. rewrite (step_soa_mismatch Last u p z0 ser fin true b Eser) in Hs. discriminate.
  - destruct Hx as [[b [-> Httl]]|Hn].
    + destruct (Z.eq_dec (v_serial b) (end_serial ser secs)) as [Eser|Eser].
      * destruct (Z.eq_dec (v_soa b) (v_soa fin)) as [Eb|Eb].
        -- exists secs, tz, b. split; [exact Hne|]. split; [reflexivity|]. split; [exact Hsk|]. split; [exact Hap|].
           assert (Esf : v_serial b = v_serial fin) by (unfold v_serial; rewrite Eb; reflexivity).
           split; [congruence|]. split; [reflexivity|]. split; [exact Eb|].
           rewrite <- Eser in Hs. rewrite (step_final_m tz b Eb) in Hs.
           apply res_of_none in Hs. destruct Hs as [tz' [Hso Hk]]. inversion Hk; subst s2. exact Hso.
        -- exfalso. rewrite <- Eser in Hs. unfold s0 in Hs. rewrite (step_del_start u Last p tz fin b false Eb) in Hs.
           inversion Hs; subst. cbn [ist done] in Hd. discriminate.
      * exfalso. unfold s0 in Hs. rewrite (step_soa_mismatch Last u p tz _ fin false b Eser) in Hs. discriminate.
    + exfalso. rewrite (step_other Last tz _ false x Hn) in Hs.
      destruct (in_zone (r_name x)); cbn [negb] in Hs.
      * apply res_of_none in Hs. destruct Hs as [tz' [_ Hk]]. inversion Hk; subst. cbn [ist done] in Hd. discriminate.
      * inversion Hs; subst. cbn [ist done] in Hd. discriminate.
  - exfalso. destruct Hx as [[b [-> Httl]]|Hn].
    + rewrite (step_add_start_m Last tz (v_serial a) b) in Hs.
      apply res_of_none in Hs. destruct Hs as [tz' [_ Hk]]. inversion Hk; subst. cbn [ist done] in Hd. discriminate.
    + rewrite (step_other Last tz _ true x Hn) in Hs.
      destruct (in_zone (r_name x)); cbn [negb] in Hs.
      * apply res_of_none in Hs. destruct Hs as [tz' [_ Hk]]. inversion Hk; subst. cbn [ist done] in Hd. discriminate.
      * inversion Hs; subst. cbn [ist done] in Hd. discriminate.
Qed.
End GENINV.

(* Whenever a proper incremental transfer completes - ANY records, ANY client zone, any division into
   messages - the records read are the announced SOA, difference sequences chained by their serials from the
   client's serial to the announced one, the announced SOA again; every transaction operation succeeded; and
   the zone is the result of exactly these operations. *)
Theorem ixfr_done_is_denotation_any : forall fin z0 ser ws rest z' n,
  ttl_ok (v_ttl fin) -> v_serial fin <> ser -> serial_lt (v_serial fin) ser = false ->
  chunking tIXFR (soa_rr fin :: rest) ws -> Forall any_rec rest ->
  match rest with x :: _ => exists b, x = soa_rr b /\ ttl_ok (v_ttl b) | [] => True end ->
  inbound_xfr z0 tIXFR (Some ser) false ws = (Done z', n) ->
  exists secs z1 b extra,
    rest = secs_stream secs ++ soa_rr b :: extra /\ secs <> [] /\ skel_g ser fin secs /\
    end_serial ser secs = v_serial fin /\ v_soa b = v_soa fin /\ m_secs z0 secs = Ok z1 /\ m_soa z1 b = Ok z'.
Proof.
  intros fin z0 ser ws rest z' n Httl Hs Hlt Hch Hwr Hhead H.
  apply chunking_first in Hch. destruct Hch as (w & ws' & a & -> & Hr & Hw & Hws & Hcat).
  unfold inbound_xfr, xfr_run in H. rewrite init_ixfr in H. cbn [Z.eqb tIXFR Pos.eqb] in H.
  rewrite drive_cons in H by solve_req.
  rewrite (first_message_ixfr z0 ser false w (soa_rr fin) a Hw Hr) in H by (split; reflexivity).
  cbv zeta in H. change (r_data (soa_rr fin) mod two32) with (v_serial fin) in H.
  apply Z.eqb_neq in Hs. rewrite Hs, Hlt in H. cbn [andb] in H. rewrite after_tcp in H by reflexivity.
  set (s := ist false z0 z0 ser (single (soa_rr fin)) true false) in *.
  assert (Hrun : running s) by (repeat split; try reflexivity; discriminate).
  destruct (cont_done_inv ws' a s z' n Hrun Hws H) as (c & x & extra & s1 & s2 & Hc & Hn & Hd1 & Hst & Hd2 & Hp).
  rewrite Hcat in Hc. clear Hcat. subst rest.
  apply Forall_app in Hwr. destruct Hwr as [Hwc Hwx]. inversion Hwx as [|? ? Hx _]; subst.
  assert (Hinv : g_inv false z0 z0 ser fin c s1).
  { apply (g_inv_run false z0 z0 ser fin c [] s s1 (g_start _ _ _ _ _) Hwc); [|exact Hn].
    intros _. destruct c; [exact Logic.I|exact Hhead]. }
  destruct (g_inv_final false z0 z0 ser fin c s1 x s2 Hinv Hx) as (secs & tz & b & N & Ec & Hsk & Hap & Hend & Ex & Eb & Hpub); try assumption.
  { intros ->. exact Hhead. }
  exists secs, tz, b, extra. subst. auto 10.
Qed.

(* ---- and conversely: a stream of this form whose operations all succeed completes with that zone ---- *)
Section GENFWD.
Variables (u : bool) (p : zone) (fin : version).

Lemma loopn_m_del : forall D tz tz' cur, Forall nsoa D -> m_fold m_del tz D = Ok tz' ->
  loopn (ist u p tz cur (single (soa_rr fin)) false true) (map single D) = (ist u p tz' cur (single (soa_rr fin)) false true, None).
Proof.
  induction D as [|r D IH]; intros tz tz' cur Hf Hm; cbn [map loopn m_fold] in *.
  - inversion Hm; reflexivity.
  - inversion Hf as [|? ? Hr Hf']; subst. rewrite (step_other u p fin Mid tz cur true r Hr).
    unfold m_del in Hm. destruct (in_zone (r_name r)); cbn [negb].
    + destruct (t_delete_exact tz (single r)) as [z1| |]; try discriminate. cbn [res_of]. apply IH; assumption.
    + apply IH; assumption.
Qed.

Lemma loopn_m_add : forall A tz tz' cur, Forall nsoa A -> m_fold m_add tz A = Ok tz' ->
  loopn (ist u p tz cur (single (soa_rr fin)) false false) (map single A) = (ist u p tz' cur (single (soa_rr fin)) false false, None).
Proof.
  induction A as [|r A IH]; intros tz tz' cur Hf Hm; cbn [map loopn m_fold] in *.
  - inversion Hm; reflexivity.
  - inversion Hf as [|? ? Hr Hf']; subst. rewrite (step_other u p fin Mid tz cur false r Hr).
    unfold m_add in Hm. destruct (in_zone (r_name r)); cbn [negb].
    + destruct (t_add false tz (single r)) as [z1| |]; try discriminate. cbn [res_of]. apply IH; assumption.
    + apply IH; assumption.
Qed.

Lemma m_run : forall secs tz cur e z',
  skel_g cur fin secs -> m_secs tz secs = Ok z' ->
  loopn (ist u p tz cur (single (soa_rr fin)) e false) (map single (secs_stream secs)) =
  (ist u p z' (end_serial cur secs) (single (soa_rr fin)) (match secs with [] => e | _ => false end) false, None).
Proof.
  induction secs as [|c r IH]; intros tz cur e z' Hsk Hap.
  - cbn in *. inversion Hap; subst. reflexivity.
  - cbn [skel_g] in Hsk. destruct Hsk as (Hser & Hne & Httl & OD & OA & Hrest).
    cbn [m_secs] in Hap.
    destruct (m_fold m_del tz (c_dels c)) as [z1| |] eqn:Hd; try discriminate.
    destruct (m_soa z1 (c_new c)) as [z2| |] eqn:Hso; try discriminate.
    destruct (m_fold m_add z2 (c_adds c)) as [z3| |] eqn:Ha; try discriminate.
    cbn [secs_stream map loopn end_serial]. rewrite <- Hser.
    rewrite (step_del_start u Mid p tz fin (c_old c) e Hne).
    rewrite map_app, loopn_app, (loopn_m_del _ _ _ _ OD Hd).
    cbn [map loopn]. rewrite (step_add_start_m u p fin Mid z1 (v_serial (c_old c)) (c_new c)). rewrite Hso. cbn [res_of].
    rewrite map_app, loopn_app, (loopn_m_add _ _ _ _ OA Ha).
    rewrite (IH z3 (v_serial (c_new c)) false z' Hrest Hap). destruct r; reflexivity.
Qed.
End GENFWD.

Theorem ixfr_sections_applied_any : forall fin secs z0 z1 z' ser ws,
  secs <> [] -> skel_g ser fin secs -> end_serial ser secs = v_serial fin ->
  v_serial fin <> ser -> serial_lt (v_serial fin) ser = false ->
  m_secs z0 secs = Ok z1 -> m_soa z1 fin = Ok z' ->
  chunking tIXFR (soa_rr fin :: secs_stream secs ++ [soa_rr fin]) ws ->
  exists n, inbound_xfr z0 tIXFR (Some ser) false ws = (Done z', n).
Proof.
  intros fin secs z0 z1 z' ser ws Hne Hsk Hend Hs Hlt Hap Hso Hch.
  apply chunking_first in Hch. destruct Hch as (w & ws' & a & -> & Hr & Hw & Hws & Hcat).
  pose proof (m_run false z0 fin secs z0 ser true z1 Hsk Hap) as Hl.
  assert (E : (match secs with [] => true | _ :: _ => false end) = false) by (destruct secs; [congruence|reflexivity]).
  rewrite E, Hend in Hl.
  pose proof (step_final_m false z0 fin z1 fin eq_refl) as Hf. rewrite Hso in Hf. cbn [res_of] in Hf.
  unfold inbound_xfr, xfr_run. rewrite init_ixfr. cbn [Z.eqb tIXFR Pos.eqb]. rewrite drive_cons by solve_req.
  rewrite (first_message_ixfr z0 ser false w (soa_rr fin) a Hw Hr) by (split; reflexivity).
  cbv zeta. change (r_data (soa_rr fin) mod two32) with (v_serial fin).
  apply Z.eqb_neq in Hs. rewrite Hs, Hlt. cbn [andb]. rewrite after_tcp by reflexivity.
  assert (Hrun : running (ist false z0 z0 ser (single (soa_rr fin)) true false)).
  { repeat split; try reflexivity; discriminate. }
  destruct (cont_records ws' a (ist false z0 z0 ser (single (soa_rr fin)) true false)
              (secs_stream secs) (soa_rr fin) _ _ Hrun Hws Hcat Hl eq_refl Hf eq_refl) as [n Hn].
  exists n. exact Hn.
Qed.

(* the dichotomy for arbitrary records and client zones *)
Theorem ixfr_outcome_dichotomy_any : forall fin z0 ser ws rest,
  ttl_ok (v_ttl fin) -> v_serial fin <> ser -> serial_lt (v_serial fin) ser = false ->
  chunking tIXFR (soa_rr fin :: rest) ws -> Forall any_rec rest ->
  match rest with x :: _ => exists b, x = soa_rr b /\ ttl_ok (v_ttl b) | [] => True end ->
  (exists e n, inbound_xfr z0 tIXFR (Some ser) false ws = (Error e z0, n)) \/
  (exists secs z1 b extra z' n,
     inbound_xfr z0 tIXFR (Some ser) false ws = (Done z', n) /\
     rest = secs_stream secs ++ soa_rr b :: extra /\ secs <> [] /\ skel_g ser fin secs /\
     end_serial ser secs = v_serial fin /\ v_soa b = v_soa fin /\ m_secs z0 secs = Ok z1 /\ m_soa z1 b = Ok z').
Proof.
  intros fin z0 ser ws rest Httl Hs Hlt Hch Hwr Hhead.
  destruct (inbound_xfr z0 tIXFR (Some ser) false ws) as [[z'|e z] n] eqn:E.
  - right. destruct (ixfr_done_is_denotation_any fin z0 ser ws rest z' n Httl Hs Hlt Hch Hwr Hhead E)
      as (secs & z1 & b & extra & H1 & H2 & H3 & H4 & H5 & H6 & H7).
    exists secs, z1, b, extra, z', n. auto 10.
  - left. pose proof (error_leaves_zone _ _ _ _ _ _ _ _ E). subst z. eauto.
Qed.
