(* C09: the fuel of read_loop.  The lexer consumes at least one character per logical line, so
   length text + 1 iterations always suffice: with that much fuel the result does not depend on
   the fuel, and the out-of-fuel marker is never produced by the loop. *)
From DV Require Import Base.Prelude Model.NameM Model.ZoneTextM Proofs.ZoneTextBase Proofs.ZoneTextInv.
Open Scope Z_scope.

Lemma lex_rest : forall t ml m acc toks term rest,
  lex t ml m acc = (toks, term, rest) ->
  (length rest <= length t)%nat /\ (term = TEol -> (length rest < length t)%nat).
Proof.
  induction t as [|c r IH]; intros ml m acc toks term rest H.
  - cbn [lex] in H. destruct m; destruct ml; inversion H; subst; cbn; split; try lia; discriminate.
  - cbn [lex] in H.
    assert (Hrec : forall ml' m' acc', lex r ml' m' acc' = (toks, term, rest) ->
              (length rest <= length (c :: r))%nat /\ (term = TEol -> (length rest < length (c :: r))%nat)).
    { intros ml' m' acc' H'. destruct (IH _ _ _ _ _ _ H') as [H1 H2]. cbn [length]. split; [lia|intros E; specialize (H2 E); lia]. }
    assert (Hret : forall acc' tm, (rev acc', tm, r) = (toks, term, rest) ->
              (length rest <= length (c :: r))%nat /\ (term = TEol -> (length rest < length (c :: r))%nat)).
    { intros acc' tm H'. inversion H'; subst. cbn [length]. split; lia. }
    destruct m.
    + repeat match type of H with
             | (if ?b then _ else _) = _ => destruct b
             | match ?x with _ => _ end = _ => destruct x
             end; eauto.
    + destruct (is_delim c).
      * repeat match type of H with
               | (if ?b then _ else _) = _ => destruct b
               | match ?x with _ => _ end = _ => destruct x
               end; eauto.
      * destruct (c =? 92); eauto.
    + destruct (c =? 34); [eauto|]. destruct (c =? 10); [eauto|]. destruct (c =? 92); eauto.
    + destruct ((c =? 10) && negb q); [eauto|]. destruct q; eauto.
    + destruct (c =? 10); [|eauto]. destruct ml; eauto.
Qed.

(* with at least length text + 1 iterations the fuel is irrelevant *)
Theorem read_loop_fuel_irrelevant_proof c : forall f1 f2 text s,
  (length text < f1)%nat -> (length text < f2)%nat ->
  read_loop f1 c s text = read_loop f2 c s text.
Proof.
  induction f1 as [|f1 IH]; intros f2 text s H1 H2; [lia|].
  destruct f2 as [|f2]; [lia|]. cbn [read_loop].
  destruct (lex text 0 MSkip []) as [[toks term] rest] eqn:E.
  destruct (lex_rest _ _ _ _ _ _ _ E) as [Hle Hlt].
  destruct (process_line c s (starts_ws text) toks _) as [s'| |]; cbn [bind]; try reflexivity.
  destruct term; try reflexivity.
  specialize (Hlt eq_refl). apply IH; lia.
Qed.

(* the loop itself never runs out of fuel: an out-of-fuel result could only come from a line *)
Theorem read_loop_never_starves_proof c : forall f text s,
  (length text < f)%nat ->
  read_loop f c s text = Internal iFuelZ ->
  exists s' lead toks lerr, process_line c s' lead toks lerr = Internal iFuelZ.
Proof.
  induction f as [|f IH]; intros text s Hf H; [lia|]. cbn [read_loop] in H.
  destruct (lex text 0 MSkip []) as [[toks term] rest] eqn:E.
  destruct (lex_rest _ _ _ _ _ _ _ E) as [Hle Hlt].
  destruct (process_line c s (starts_ws text) toks _) as [s'|e|e] eqn:Ep; cbn [bind] in H.
  - destruct term; try discriminate. specialize (Hlt eq_refl). apply (IH rest s'); [lia|exact H].
  - discriminate.
  - inversion H; subst. eauto.
Qed.
