(* C09: the fuel of read_loop.  The lexer consumes at least one character per logical line, so
   length text + 1 iterations always suffice: with that much fuel the result does not depend on
   the fuel, and the out-of-fuel marker is never produced by the loop. *)
From DV Require Import Base.Prelude Model.NameM Model.ZoneTextM Proofs.ZoneTextBase Proofs.ZoneTextInv.
Open Scope Z_scope.

Lemma lex_rest : forall t ml m acc toks term rest,
  lex t ml m acc = (toks, term, rest) ->
  (length rest <= length t)%nat /\ (term = TEol -> (length rest < length t)%nat).
Proof.
  induction t as [|c r IH]; intros ml m acc toks term rest H.
  - cbn [lex] in H. destruct m; destruct ml; inversion H; subst; cbn; split; try lia; discriminate.
  - cbn [lex] in H.
    assert (Hrec : forall ml' m' acc', lex r ml' m' acc' = (toks, term, rest) ->
              (length rest <= length (c :: r))%nat /\ (term = TEol -> (length rest < length (c :: r))%nat)).
    { intros ml' m' acc' H'. destruct (IH _ _ _ _ _ _ H') as [H1 H2]. cbn [length]. split; [lia|intros E; specialize (H2 E); lia]. }
    assert (Hret : forall acc' tm, (rev acc', tm, r) = (toks, term, rest) ->
              (length rest <= length (c :: r))%nat /\ (term = TEol -> (length rest < length (c :: r))%nat)).
    { intros acc' tm H'. inversion H'; subst. cbn [length]. split; lia. }
    destruct m.
    + repeat match type of H with
             | (if ?b then _ else _) = _ => destruct b
             | match ?x with _ => _ end = _ => destruct x
             end; eauto.
    + destruct (is_delim c).
      * repeat match type of H with
               | (if ?b then _ else _) = _ => destruct b
               | match ?x with _ => _ end = _ => destruct x
               end; eauto.
      * destruct (c =? 92); eauto.
    + destruct (c =? 34); [eauto|]. destruct (c =? 10); [eauto|]. destruct (c =? 92); eauto.
    + destruct ((c =? 10) && negb q); [eauto|]. destruct q; eauto.
    + destruct (c =? 10); [|eauto]. destruct ml; eauto.
Qed.

(* with at least length text + 1 iterations the fuel is irrelevant *)
Theorem read_loop_fuel_irrelevant_proof c : forall f1 f2 text s,
  (length text < f1)%nat -> (length text < f2)%nat ->
  read_loop f1 c s text = read_loop f2 c s text.
Proof.
  induction f1 as [|f1 IH]; intros f2 text s H1 H2; [lia|].
  destruct f2 as [|f2]; [lia|]. cbn [read_loop].
  destruct (lex text 0 MSkip []) as [[toks term] rest] eqn:E.
  destruct (lex_rest _ _ _ _ _ _ _ E) as [Hle Hlt].
  destruct (process_line c s (starts_ws text) toks _) as [s'| |]; cbn [bind]; try reflexivity.
  destruct term; try reflexivity.
  specialize (Hlt eq_refl). apply IH; lia.
Qed.

(* the loop itself never runs out of fuel: an out-of-fuel result could only come from a line *)
Theorem read_loop_never_starves_proof c : forall f text s,
  (length text < f)%nat ->
  read_loop f c s text = Internal iFuelZ ->
  exists s' lead toks lerr, process_line c s' lead toks lerr = Internal iFuelZ.
Proof.
  induction f as [|f IH]; intros text s Hf H; [lia|]. cbn [read_loop] in H.
  destruct (lex text 0 MSkip []) as [[toks term] rest] eqn:E.
  destruct (lex_rest _ _ _ _ _ _ _ E) as [Hle Hlt].
  destruct (process_line c s (starts_ws text) toks _) as [s'|e|e] eqn:Ep; cbn [bind] in H.
  - destruct term; try discriminate. specialize (Hlt eq_refl). apply (IH rest s'); [lia|exact H].
  - discriminate.
  - inversion H; subst. eauto.
Qed.

(* ---------- no line ever answers "out of fuel" ---------- *)
From DV Require Import Proofs.NameValid Proofs.NameText.

Definition NoFuel {A} (r : res A) : Prop := r <> Internal iFuelZ.

Lemma nf_bind {A B} (r : res A) (f : A -> res B) :
  NoFuel r -> (forall a, r = Ok a -> NoFuel (f a)) -> NoFuel (bind r f).
Proof.
  unfold NoFuel. destruct r as [a|e|e]; cbn; intros H Hf; [apply Hf; reflexivity|discriminate|].
  intros X. apply H. inversion X. reflexivity.
Qed.

Lemma nf_ok {A} (a : A) : NoFuel (Ok a). Proof. discriminate. Qed.
Lemma nf_lib {A} e : NoFuel (@Lib A e). Proof. discriminate. Qed.

Ltac nf_step :=
  first
  [ apply nf_ok | apply nf_lib
  | lazymatch goal with |- NoFuel (bind _ _) => apply nf_bind; [|intros ? ?] end
  | lazymatch goal with
    | |- NoFuel (match ?x with _ => _ end) => destruct x eqn:?
    end
  | lazymatch goal with |- NoFuel (Internal ?k) => unfold NoFuel; try unfold k; discriminate end ].

Lemma ttl_loop_nf : forall t total cur need, NoFuel (ttl_loop t total cur need).
Proof. induction t as [|c t IH]; intros; cbn [ttl_loop]; repeat nf_step; apply IH. Qed.

Lemma ttl_nf t : NoFuel (ttl_from_text t).
Proof. unfold ttl_from_text. repeat nf_step. apply ttl_loop_nf. Qed.

Lemma ttl_not_internal t e : ttl_from_text t <> Internal e.
Proof.
  assert (H : forall t total cur need e, ttl_loop t total cur need <> Internal e).
  { induction t0 as [|c0 t0 IH]; intros; cbn [ttl_loop];
      repeat match goal with |- (if ?b then _ else _) <> _ => destruct b | |- Ok _ <> _ => discriminate
                        | |- Lib _ <> _ => discriminate end; apply IH. }
  unfold ttl_from_text. destruct t as [|c0 t0]; cbn [bind]; [discriminate|].
  destruct (all_digits (c0 :: t0)); cbn [bind].
  - destruct (_ || _); discriminate.
  - destruct (ttl_loop (c0 :: t0) 0 0 true) eqn:E; cbn [bind]; try discriminate.
    + destruct (_ || _); discriminate.
    + exfalso. eapply H; eauto.
Qed.

Lemma py_int_nf cur : NoFuel (py_int cur).
Proof. unfold py_int. repeat nf_step. Qed.

Lemma grange_loop_nf : forall t a b cur st, NoFuel (grange_loop t a b cur st).
Proof.
  induction t as [|c t IH]; intros; cbn [grange_loop]; repeat nf_step; try apply py_int_nf; apply IH.
Qed.

Lemma grange_nf t : NoFuel (grange_from_text t).
Proof.
  unfold grange_from_text. repeat nf_step; try apply grange_loop_nf; try apply py_int_nf.
Qed.

Lemma mk_name_nf n : NoFuel (mk_name n).
Proof. unfold NoFuel. apply mk_name_never_internal. Qed.

(* lift_name of a computation that has no Internal result and only the listed library errors *)
Lemma lift_name_nf {A} esc (r : res A) :
  (forall e, r <> Internal e) -> (forall e, r = Lib e -> e <> iFuelZ) -> NoFuel (lift_name esc r).
Proof.
  intros Hi Hl. unfold lift_name, NoFuel. destruct r as [a|e|e]; [discriminate| |exfalso; eapply Hi; reflexivity].
  unfold name_err. repeat match goal with |- (if ?b then _ else _) <> _ => destruct b end; try discriminate.
  intros H. inversion H. eapply Hl; eauto.
Qed.

Lemma mk_name_lib n e : mk_name n = Lib e -> e <> iFuelZ.
Proof.
  unfold mk_name. destruct (validate_labels n) as [[]|e0|e0] eqn:E; try discriminate.
  intros H. inversion H; subst. apply validate_error in E.
  destruct E as [[-> _]|[[-> _]|[-> _]]]; discriminate.
Qed.

Lemma from_text_lib v o e : NameM.from_text v o = Lib e -> e <> iFuelZ.
Proof.
  assert (Hft : forall t L lab esc ed tot e, ft_loop t L lab esc ed tot = Lib e -> e <> iFuelZ).
  { induction t as [|c t IH]; intros L lab esc ed tot e0; cbn [ft_loop]; [discriminate|].
    repeat match goal with
           | |- (if ?b then _ else _) = _ -> _ => destruct b
           | |- match ?x with _ => _ end = _ -> _ => destruct x
           end; try (intros H; inversion H; discriminate); apply IH. }
  unfold NameM.from_text.
  set (text := match v with [64] => [] | _ => v end).
  assert (Hfin : forall labels, mk_name (if negb (ends_with_root labels)
                                          then match o with Some o0 => labels ++ o0 | None => labels end
                                          else labels) = Lib e -> e <> iFuelZ) by (intros; eapply mk_name_lib; eauto).
  destruct (list_eq_dec Z.eq_dec text [46]) as [->|H46].
  { intros H. eapply mk_name_lib; eauto. }
  rewrite dot_match by assumption.
  destruct text as [|c0 t0]; cbn [bind]; [apply Hfin|].
  destruct (ft_loop (c0 :: t0) [] [] false 0%nat 0) as [[[labels lab] esc]|e0|e0] eqn:E; cbn [bind].
  - destruct esc; cbn [bind]; [intros H; inversion H; discriminate|apply Hfin].
  - intros H. inversion H; subst. eapply Hft; eauto.
  - discriminate.
Qed.

Lemma relativize_nf esc n o : NoFuel (lift_name esc (relativize n o)).
Proof.
  apply lift_name_nf.
  - intros e. unfold relativize. destruct (is_subdomain n o); [apply mk_name_never_internal|discriminate].
  - intros e. unfold relativize. destruct (is_subdomain n o); [apply mk_name_lib|discriminate].
Qed.

Lemma choose_relativity_props n o rl :
  (forall e, choose_relativity n o rl <> Internal e) /\ (forall e, choose_relativity n o rl = Lib e -> e <> iFuelZ).
Proof.
  unfold choose_relativity. destruct o as [[|x o']|]; [split; intros; discriminate| |split; intros; discriminate].
  destruct rl.
  - unfold relativize. destruct (is_subdomain n (x :: o')); [|split; intros; discriminate].
    split; [intros; apply mk_name_never_internal|intros e; apply mk_name_lib].
  - unfold derelativize, concatenate. destruct (negb (is_absolute n)); [|split; intros; discriminate].
    destruct (is_absolute n && _); [split; intros e; [discriminate|intros H; inversion H; discriminate]|].
    split; [intros; apply mk_name_never_internal|intros e; apply mk_name_lib].
Qed.

Lemma as_name_nf esc v o rl rto : NoFuel (as_name esc v o rl rto).
Proof.
  unfold as_name. apply nf_bind.
  - apply lift_name_nf; [intros e; apply from_text_no_internal|intros e; apply from_text_lib].
  - intros n _. destruct (choose_relativity_props n (match rto with Some o0 => Some o0 | None => o end) rl) as [H1 H2].
    apply lift_name_nf; assumption.
Qed.

Lemma tok_unescape_nf_len : forall n s, (length s <= n)%nat -> NoFuel (tok_unescape s).
Proof.
  induction n as [|n IH]; intros s Hl.
  - destruct s; [apply nf_ok|cbn in Hl; lia].
  - destruct s as [|c r]; [apply nf_ok|]. cbn [tok_unescape].
    destruct (c =? 92).
    + destruct r as [|c1 r1]; [apply nf_lib|]. destruct (is_digit c1).
      * destruct r1 as [|c2 [|c3 r3]]; try apply nf_lib.
        destruct (is_digit c2 && is_digit c3); [|apply nf_lib].
        destruct (_ >? 255); [apply nf_lib|]. apply nf_bind; [apply IH; cbn in *; lia|intros; apply nf_ok].
      * apply nf_bind; [apply IH; cbn in *; lia|intros; apply nf_ok].
    + apply nf_bind; [apply IH; cbn in *; lia|intros; apply nf_ok].
Qed.

Lemma tok_unescape_nf s : NoFuel (tok_unescape s).
Proof. eapply tok_unescape_nf_len; eauto. Qed.

Lemma unescape_all_nf : forall vs, NoFuel (unescape_all vs).
Proof.
  induction vs as [|v vs IH]; cbn [unescape_all]; [apply nf_ok|].
  apply nf_bind; [apply tok_unescape_nf|intros]. apply nf_bind; [exact IH|intros; apply nf_ok].
Qed.

Lemma strs_go_nf : forall toks,
  NoFuel ((fix go (l : list tok) : res (list (list Z)) :=
             match l with
             | [] => Ok []
             | t :: l' => do b <- tok_unescape (tokval t);
                          if zlen b >? 255 then Lib eSyntax else do rest <- go l'; Ok (b :: rest)
             end) toks).
Proof.
  induction toks as [|t toks IH]; [apply nf_ok|].
  apply nf_bind; [apply tok_unescape_nf|intros b _].
  destruct (zlen b >? 255); [apply nf_lib|]. apply nf_bind; [exact IH|intros; apply nf_ok].
Qed.

Lemma parse_fields_nf : forall ks toks co rel zo, NoFuel (parse_fields ks toks co rel zo).
Proof.
  induction ks as [|k ks IH]; intros toks co rel zo; cbn [parse_fields].
  - destruct toks; [apply nf_ok|apply nf_lib].
  - destruct k.
    + destruct toks as [|t toks']; [apply nf_lib|].
      apply nf_bind; [|intros; apply nf_bind; [apply IH|intros; apply nf_ok]].
      destruct t; [|apply nf_lib]. destruct (as_name _ _ _ _ _); [apply nf_ok|apply nf_lib|apply nf_lib].
    + destruct toks as [|t toks']; [apply nf_lib|].
      apply nf_bind; [|intros; apply nf_bind; [apply IH|intros; apply nf_ok]].
      apply nf_bind; [apply tok_unescape_nf|intros]. destruct t; [apply nf_ok|apply nf_lib].
    + destruct toks as [|t toks']; [apply nf_lib|].
      apply nf_bind; [|intros; apply nf_bind; [apply IH|intros; apply nf_ok]].
      destruct t; [|apply nf_lib]. apply nf_bind; [apply tok_unescape_nf|intros].
      destruct (ipv4_ok _); [apply nf_ok|apply nf_lib].
    + destruct toks as [|t toks']; [apply nf_lib|].
      apply nf_bind; [|intros; apply nf_bind; [apply IH|intros; apply nf_ok]].
      destruct t; [|apply nf_lib]. apply nf_bind; [apply tok_unescape_nf|intros].
      destruct (_ && _); [apply nf_ok|apply nf_lib].
    + destruct toks as [|t toks']; [apply nf_lib|].
      apply nf_bind; [|intros; apply nf_bind; [apply IH|intros; apply nf_ok]].
      destruct t; [|apply nf_lib]. apply nf_bind; [apply tok_unescape_nf|intros].
      destruct (ttl_from_text _); [apply nf_ok|apply nf_lib|apply nf_lib].
    + destruct toks as [|t toks']; [apply nf_lib|].
      apply nf_bind; [|intros; apply nf_bind; [apply IH|intros; apply nf_ok]].
      destruct (type_from_text _); [apply nf_ok|apply nf_lib].
    + destruct toks as [|t toks']; [apply nf_lib|].
      apply nf_bind; [exact (strs_go_nf (t :: toks'))|intros; apply nf_ok].
    + destruct (all_ids toks) as [[|v vs]|]; try apply nf_lib; try apply nf_ok.
      destruct allow_empty; [apply nf_ok|apply nf_lib].
Qed.

Lemma parse_generic_nf toks : NoFuel (parse_generic toks).
Proof.
  unfold parse_generic.
  repeat first [ apply nf_ok | apply nf_lib
               | lazymatch goal with |- NoFuel (bind _ _) => apply nf_bind; [first [apply tok_unescape_nf|apply unescape_all_nf]|intros ? ?] end
               | lazymatch goal with |- NoFuel (match ?x with _ => _ end) => destruct x end ].
Qed.

Lemma wire_fields_nf ks bs rel zo : NoFuel (wire_fields ks bs rel zo).
Proof.
  revert bs. induction ks as [|k ks IH]; intros bs; simpl.
  - destruct bs; [apply nf_ok|apply nf_lib].
  - apply nf_bind.
    + destruct k;
        repeat first [ apply nf_ok | apply nf_lib
                     | lazymatch goal with |- NoFuel (match ?x with _ => _ end) => destruct x end
                     | lazymatch goal with |- NoFuel (if ?x then _ else _) => destruct x end ].
    + intros [v rest] _. apply nf_bind; [apply IH|intros; apply nf_ok].
Qed.

Lemma parse_rdata_nf ty toks lerr co rel zo : NoFuel (parse_rdata ty toks lerr co rel zo).
Proof.
  unfold parse_rdata. destruct (tbl_by_code type_table ty) as [[m ks]|].
  - assert (H : NoFuel (do rd <- parse_fields ks toks co rel zo; if lerr then Lib eSyntax else Ok rd)).
    { apply nf_bind; [apply parse_fields_nf|intros]. destruct lerr; [apply nf_lib|apply nf_ok]. }
    destruct toks as [|t tl]; [exact H|]. destruct t as [v|v]; [|exact H].
    destruct v as [|c0 v]; [exact H|]. destruct c0 as [|p|p]; try exact H.
    repeat (destruct p as [p|p|]; try exact H).
    destruct v as [|c1 v]; [exact H|]. destruct c1 as [|p|p]; try exact H.
    repeat (destruct p as [p|p|]; try exact H).
    destruct v; [|exact H]. clear H.
    destruct (wire_modelled ks); [|apply nf_lib].
    apply nf_bind; [apply parse_generic_nf|intros g _].
    destruct g as [|a [|b [|c0 g]]]; try apply nf_lib.
    destruct c0, g; try apply nf_lib.
    apply nf_bind; [apply wire_fields_nf|intros]. destruct lerr; [apply nf_lib|apply nf_ok].
  - apply nf_bind; [apply parse_generic_nf|intros]. destruct lerr; [apply nf_lib|apply nf_ok].
Qed.

Lemma txn_add_nf zo rel z n ttl ty rd : NoFuel (txn_add zo rel z n ttl ty rd).
Proof.
  unfold txn_add. cbv zeta. destruct (_ && _ && _); [unfold NoFuel; discriminate|].
  apply nf_bind; [|intros; apply nf_ok].
  unfold cname_check. destruct (zfind z n) as [nd|]; [|apply nf_ok].
  repeat lazymatch goal with
         | |- NoFuel (match ?x with _ => _ end) => destruct x
         end; first [apply nf_ok|apply nf_lib].
Qed.

Lemma get_ident_nf toks : NoFuel (get_ident toks).
Proof. unfold get_ident. destruct toks as [|[v|v] r]; first [apply nf_ok|apply nf_lib]. Qed.

Lemma rr_fields_nf c s co zo n toks lerr : NoFuel (rr_fields c s co zo n toks lerr).
Proof.
  unfold rr_fields.
  repeat first [ apply nf_ok | apply nf_lib
               | lazymatch goal with |- NoFuel (bind _ _) =>
                   apply nf_bind; [first [apply get_ident_nf|apply parse_rdata_nf|apply txn_add_nf|idtac]|intros ? ?] end
               | lazymatch goal with |- NoFuel (match ?x with _ => _ end) => destruct x end
               | lazymatch goal with |- NoFuel (let '(_, _) := ?x in _) => destruct x end ].
Qed.

Ltac nf_auto :=
  repeat first
    [ apply nf_ok | apply nf_lib
    | lazymatch goal with |- NoFuel (bind _ _) =>
        apply nf_bind;
        [first [apply get_ident_nf|apply parse_rdata_nf|apply txn_add_nf|apply as_name_nf|apply relativize_nf
               |apply rr_fields_nf|apply grange_nf|idtac]|intros ? ?] end
    | lazymatch goal with |- NoFuel (match ?x with _ => _ end) => destruct x end
    | lazymatch goal with |- NoFuel (Internal ?k) => unfold NoFuel; try unfold k; discriminate end
    | apply rr_fields_nf | apply relativize_nf | apply as_name_nf ].

Lemma eol_ok_nf lerr s : NoFuel (eol_ok lerr s).
Proof. unfold eol_ok. destruct lerr; [apply nf_lib|apply nf_ok]. Qed.

Lemma rr_line_nf c s lead toks lerr : NoFuel (rr_line c s lead toks lerr).
Proof. unfold rr_line. nf_auto; try apply eol_ok_nf. Qed.

Lemma from_text_lift_nf v o : NoFuel (lift_name true (NameM.from_text v o)).
Proof. apply lift_name_nf; [intros e; apply from_text_no_internal|intros e; apply from_text_lib]. Qed.

Lemma gen_loop_nf c co zo lhs rhs lm rm ttl ty step : forall count i s,
  NoFuel (gen_loop count i step c s co zo lhs rhs lm rm ttl ty).
Proof.
  induction count as [|k IH]; intros i s; cbn [gen_loop]; [apply nf_ok|].
  destruct lm as [[[[lmod lneg] loff] lwidth] lbase]. destruct rm as [[[[rmod rneg] roff] rwidth] rbase].
  cbv beta iota.
  apply nf_bind; [apply from_text_lift_nf|intros nm _].
  destruct (negb (is_subdomain nm zo)); [apply nf_ok|].
  apply nf_bind; [destruct (c_rel c); [apply relativize_nf|apply nf_ok]|intros n _].
  destruct (lex _ 0 MSkip []) as [[toks term] rest0].
  apply nf_bind; [apply parse_rdata_nf|intros rd _].
  apply nf_bind; [apply txn_add_nf|intros z' _]. apply IH.
Qed.

Lemma parse_modify_nf side : NoFuel (parse_modify side).
Proof. unfold parse_modify. cbv zeta. destruct (negb _); [apply nf_lib|apply nf_ok]. Qed.

Lemma generate_line_nf c s toks lerr : NoFuel (generate_line c s toks lerr).
Proof.
  unfold generate_line.
  repeat first
    [ apply nf_ok | apply nf_lib
    | lazymatch goal with |- NoFuel (bind _ _) =>
        apply nf_bind; [first [apply get_ident_nf|apply parse_modify_nf|apply gen_loop_nf|idtac]|intros ? ?] end
    | lazymatch goal with |- NoFuel (match ?x with _ => _ end) => destruct x end
    | lazymatch goal with |- NoFuel (Internal ?k) => unfold NoFuel; try unfold k; discriminate end ].
Qed.

Lemma process_line_nf c s lead toks lerr : NoFuel (process_line c s lead toks lerr).
Proof.
  unfold process_line. destruct lead; [apply rr_line_nf|].
  destruct toks as [|t rest]; [apply eol_ok_nf|].
  assert (Hrr : NoFuel (rr_line c s false (t :: rest) lerr)) by apply rr_line_nf.
  destruct (tokval t) as [|c0 v0]; [exact Hrr|].
  destruct c0 as [|p|p]; try exact Hrr.
  repeat (destruct p as [p|p|]; try exact Hrr).
  repeat first
    [ apply nf_ok | apply nf_lib | apply eol_ok_nf | apply rr_line_nf
    | lazymatch goal with |- NoFuel (bind _ _) =>
        apply nf_bind; [first [apply get_ident_nf|apply generate_line_nf|apply as_name_nf|idtac]|intros ? ?] end
    | lazymatch goal with |- NoFuel (match ?x with _ => _ end) => destruct x end
    | lazymatch goal with |- NoFuel (Internal ?k) => unfold NoFuel; try unfold k; discriminate end ].
Qed.

(* with length text + 1 iterations the reader never answers "out of fuel" *)
Theorem read_loop_fuel_sufficient_proof c f text s :
  (length text < f)%nat -> read_loop f c s text <> Internal iFuelZ.
Proof.
  intros Hf H. destruct (read_loop_never_starves_proof c f text s Hf H) as (s' & lead & toks & lerr & Hp).
  exact (process_line_nf c s' lead toks lerr Hp).
Qed.
