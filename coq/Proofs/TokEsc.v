(* Quoted character-strings: _escapify, then Tokenizer.get and Token.unescape_to_bytes give the
   same octets back, for every octet string.  Per-octet facts (case analysis over esc_octet,
   arithmetic by lia) lifted by induction over the string. *)
From DV Require Import Base.Prelude Model.TokM.
Open Scope Z_scope.

Ltac Zify.zify_post_hook ::= Z.to_euclidean_division_equations.

Lemma is_byte_range c : is_byte c = true -> 0 <= c < 256.
Proof. unfold is_byte. intros H. apply andb_true_iff in H as [A B]. lia. Qed.

(* ---------- the three shapes of esc_octet ---------- *)
Inductive esc_shape (c : Z) : list Z -> Prop :=
| es_pair : (c = 34 \/ c = 92) -> esc_shape c [92; c]
| es_plain : 32 <= c < 127 -> c <> 34 -> c <> 92 -> esc_shape c [c]
| es_ddd d1 d2 d3 : (0 <= c < 32 \/ 127 <= c < 256) ->
    d1 = 48 + c / 100 -> d2 = 48 + (c / 10) mod 10 -> d3 = 48 + c mod 10 ->
    esc_shape c [92; d1; d2; d3].

Lemma esc_octet_shape c : 0 <= c < 256 -> esc_shape c (esc_octet c).
Proof.
  intros Hc. unfold esc_octet, q_escaped.
  destruct (c =? 34) eqn:E1; [apply es_pair; lia|].
  destruct (c =? 92) eqn:E2; [apply es_pair; lia|]. cbn [orb].
  destruct (c >=? 32) eqn:E3; destruct (c <? 127) eqn:E4; cbn [andb];
    try (apply es_plain; lia); eapply es_ddd; try reflexivity; lia.
Qed.

(* ---------- Token.unescape_to_bytes inverts _escapify ---------- *)
Lemma ub_step c t acc : 0 <= c < 256 ->
  ub_loop (esc_octet c ++ t) acc = ub_loop t (c :: acc).
Proof.
  intros Hc. destruct (esc_octet_shape c Hc) as [H|H1 H2 H3|d1 d2 d3 H -> -> ->].
  - cbn [app ub_loop]. replace (92 =? 92) with true by reflexivity.
    assert (is_decimal c = false) by (unfold is_decimal; lia). rewrite H0.
    unfold utf8_cp. replace (c <? 128) with true by lia. reflexivity.
  - cbn [app ub_loop]. replace (c =? 92) with false by lia.
    unfold utf8_cp. replace (c <? 128) with true by lia. reflexivity.
  - cbn [app ub_loop]. replace (92 =? 92) with true by reflexivity.
    unfold is_decimal.
    replace ((48 <=? 48 + c / 100) && (48 + c / 100 <=? 57)) with true by lia.
    replace ((48 <=? 48 + (c / 10) mod 10) && (48 + (c / 10) mod 10 <=? 57)) with true by lia.
    replace ((48 <=? 48 + c mod 10) && (48 + c mod 10 <=? 57)) with true by lia.
    cbn [andb negb].
    replace ((48 + c / 100 - 48) * 100 + (48 + (c / 10) mod 10 - 48) * 10 + (48 + c mod 10 - 48)) with c by lia.
    replace (c >? 255) with false by lia. reflexivity.
Qed.

Lemma ub_escapify s : all_bytes s = true -> forall t acc,
  ub_loop (escapify s ++ t) acc = ub_loop t (rev s ++ acc).
Proof.
  induction s as [|c s IH]; intros Hs t acc; [reflexivity|].
  cbn [all_bytes forallb] in Hs. apply andb_true_iff in Hs as [Hc Hs].
  unfold escapify in *. cbn [flat_map]. rewrite <- app_assoc.
  rewrite ub_step by (apply is_byte_range; exact Hc).
  rewrite IH by exact Hs. cbn [rev]. rewrite <- app_assoc. reflexivity.
Qed.

Theorem unescape_to_bytes_escapify s : all_bytes s = true ->
  ub_loop (escapify s) [] = Ok s.
Proof.
  intros Hs. rewrite <- (app_nil_r (escapify s)). rewrite ub_escapify by exact Hs.
  cbn [ub_loop]. rewrite app_nil_r, rev_involutive. reflexivity.
Qed.

(* ---------- Token.unescape (code points) then str.encode(): only octets < 128 come back ---------- *)
Lemma ue_step c t acc : 0 <= c < 256 ->
  ue_loop (esc_octet c ++ t) acc = ue_loop t (c :: acc).
Proof.
  intros Hc. destruct (esc_octet_shape c Hc) as [H|H1 H2 H3|d1 d2 d3 H -> -> ->].
  - cbn [app ue_loop]. replace (92 =? 92) with true by reflexivity.
    assert (is_decimal c = false) by (unfold is_decimal; lia). rewrite H0. reflexivity.
  - cbn [app ue_loop]. replace (c =? 92) with false by lia. reflexivity.
  - cbn [app ue_loop]. replace (92 =? 92) with true by reflexivity.
    unfold is_decimal.
    replace ((48 <=? 48 + c / 100) && (48 + c / 100 <=? 57)) with true by lia.
    replace ((48 <=? 48 + (c / 10) mod 10) && (48 + (c / 10) mod 10 <=? 57)) with true by lia.
    replace ((48 <=? 48 + c mod 10) && (48 + c mod 10 <=? 57)) with true by lia.
    cbn [andb negb].
    replace ((48 + c / 100 - 48) * 100 + (48 + (c / 10) mod 10 - 48) * 10 + (48 + c mod 10 - 48)) with c by lia.
    replace (c >? 255) with false by lia. reflexivity.
Qed.

Lemma ue_escapify s : all_bytes s = true -> forall t acc,
  ue_loop (escapify s ++ t) acc = ue_loop t (rev s ++ acc).
Proof.
  induction s as [|c s IH]; intros Hs t acc; [reflexivity|].
  cbn [all_bytes forallb] in Hs. apply andb_true_iff in Hs as [Hc Hs].
  unfold escapify in *. cbn [flat_map]. rewrite <- app_assoc.
  rewrite ue_step by (apply is_byte_range; exact Hc).
  rewrite IH by exact Hs. cbn [rev]. rewrite <- app_assoc. reflexivity.
Qed.

(* the code points obtained are the octets themselves *)
Lemma unescape_escapify s : all_bytes s = true -> ue_loop (escapify s) [] = Ok s.
Proof.
  intros Hs. rewrite <- (app_nil_r (escapify s)). rewrite ue_escapify by exact Hs.
  cbn [ue_loop]. rewrite app_nil_r, rev_involutive. reflexivity.
Qed.

Definition all_ascii (s : list Z) : bool := forallb (fun c => (0 <=? c) && (c <? 128)) s.

Lemma utf8_ascii s : all_ascii s = true -> utf8_encode s = Ok s.
Proof.
  induction s as [|c s IH]; intros H; [reflexivity|].
  cbn [all_ascii forallb] in H. apply andb_true_iff in H as [Hc Hs].
  cbn [utf8_encode]. unfold utf8_cp. replace (c <? 128) with true by lia.
  cbn [bind]. rewrite IH by exact Hs. reflexivity.
Qed.

(* get_string-style reading (unescape, then encode) of an escapified ASCII string *)
Theorem codepoint_path_ascii s : all_ascii s = true ->
  (do u <- ue_loop (escapify s) []; utf8_encode u) = Ok s.
Proof.
  intros H. assert (Hb : all_bytes s = true).
  { unfold all_bytes, all_ascii in *. rewrite forallb_forall in *. intros x Hx.
    specialize (H x Hx). unfold is_byte. lia. }
  rewrite unescape_escapify by exact Hb. cbn [bind]. apply utf8_ascii, H.
Qed.

(* ... and it is wrong for every octet >= 128: the witness of the HINFO-like asymmetry *)
Theorem codepoint_path_refuted :
  exists s, all_bytes s = true /\ (do u <- ue_loop (escapify s) []; utf8_encode u) <> Ok s.
Proof. exists [200]. split; [reflexivity|]. vm_compute. discriminate. Qed.

(* ---------- Tokenizer.get over a quoted string ---------- *)
(* inside quotes: one loop iteration per plain character, one per backslash pair *)
Lemma gl_plain f wc c r ml tok he :
  c <> 34 -> c <> 10 -> c <> 92 ->
  get_loop (S f) wc (c :: r) ml true tok tQUOTED he = get_loop f wc r ml true (c :: tok) tQUOTED he.
Proof.
  intros H1 H2 H3. cbn [get_loop is_delim].
  replace (c =? 34) with false by lia. replace (c =? 10) with false by lia.
  replace (c =? 92) with false by lia. cbn [andb]. reflexivity.
Qed.

Lemma gl_pair f wc c r ml tok he :
  get_loop (S f) wc (92 :: c :: r) ml true tok tQUOTED he
  = get_loop f wc r ml true (c :: 92 :: tok) tQUOTED true.
Proof.
  cbn [get_loop is_delim]. replace (92 =? 34) with false by reflexivity.
  replace (92 =? 10) with false by reflexivity. replace (92 =? 92) with true by reflexivity.
  cbn [andb negb]. rewrite andb_false_r. reflexivity.
Qed.

Lemma gl_octet c : 0 <= c < 256 -> forall f wc r ml tok he,
  exists f' he', (f <= f')%nat /\
    get_loop (length (esc_octet c) + f) wc (esc_octet c ++ r) ml true tok tQUOTED he
    = get_loop f' wc r ml true (rev (esc_octet c) ++ tok) tQUOTED he'.
Proof.
  intros Hc f wc r ml tok he.
  destruct (esc_octet_shape c Hc) as [H|H1 H2 H3|d1 d2 d3 H -> -> ->].
  - exists (S f), true. split; [lia|]. cbn [length app rev Nat.add]. apply gl_pair.
  - exists f, he. split; [lia|]. cbn [length app rev Nat.add]. apply gl_plain; lia.
  - exists (S f), true. split; [lia|]. cbn [length app rev Nat.add].
    rewrite gl_pair. rewrite gl_plain by lia. rewrite gl_plain by lia. reflexivity.
Qed.

Lemma gl_escapify s : all_bytes s = true -> forall f wc r ml tok he,
  exists f' he', (f <= f')%nat /\
    get_loop (length (escapify s) + f) wc (escapify s ++ r) ml true tok tQUOTED he
    = get_loop f' wc r ml true (rev (escapify s) ++ tok) tQUOTED he'.
Proof.
  induction s as [|c s IH]; intros Hs f wc r ml tok he.
  - exists f, he. split; [lia|]. reflexivity.
  - cbn [all_bytes forallb] in Hs. apply andb_true_iff in Hs as [Hc Hs].
    apply is_byte_range in Hc.
    unfold escapify in *. cbn [flat_map]. rewrite app_length, <- app_assoc, <- Nat.add_assoc.
    destruct (gl_octet c Hc (length (flat_map esc_octet s) + f)%nat wc
                (flat_map esc_octet s ++ r) ml tok he) as (f1 & he1 & Hf1 & E1).
    rewrite E1.
    destruct (IH Hs (f1 - length (flat_map esc_octet s))%nat wc r ml (rev (esc_octet c) ++ tok) he1)
      as (f2 & he2 & Hf2 & E2).
    replace (length (flat_map esc_octet s) + (f1 - length (flat_map esc_octet s)))%nat with f1 in E2 by lia.
    rewrite E2. exists f2, he2. split; [lia|].
    rewrite rev_app_distr, <- app_assoc. reflexivity.
Qed.

(* closing quote seen with a quoted token in progress: the token ends, the quote is pushed back *)
Lemma gl_close f wc r ml tok he :
  get_loop (S f) wc (34 :: r) ml true tok tQUOTED he
  = Ok (mkTok tQUOTED (rev tok) he None, (34 :: r, ml, true)).
Proof.
  cbn [get_loop is_delim]. replace (34 =? 34) with true by reflexivity.
  replace (tQUOTED =? tQUOTED) with true by reflexivity. cbn [negb]. rewrite andb_false_r.
  unfold finish. replace (tQUOTED =? tQUOTED) with true by reflexivity. cbn [negb].
  rewrite andb_false_r. reflexivity.
Qed.

(* the body of a quoted string up to and including the token *)
Lemma gl_quoted_body s : all_bytes s = true -> forall f wc r ml,
  exists he,
    get_loop (length (escapify s) + S f) wc (escapify s ++ 34 :: r) ml true [] tQUOTED false
    = Ok (mkTok tQUOTED (escapify s) he None, (34 :: r, ml, true)).
Proof.
  intros Hs f wc r ml.
  destruct (gl_escapify s Hs (S f) wc (34 :: r) ml [] false) as (f' & he' & Hf & E).
  rewrite E. destruct f' as [|f']; [lia|]. rewrite gl_close. exists he'.
  rewrite app_nil_r, rev_involutive. reflexivity.
Qed.
