(* C13 - the older API dns.zone.from_xfr(dns.query.xfr(...)) on an AXFR response: the zone that is built
   is the server's version. *)
From DV Require Import Base.Prelude Model.XfrM Proofs.XfrSets Proofs.XfrSpec Proofs.XfrZone Proofs.XfrDiff
  Proofs.XfrSafety Proofs.XfrBasic Proofs.XfrRun Proofs.XfrIxfr Proofs.XfrAxfr.

(* ---- how many messages the driver reads: cont_full with the count ---- *)
Lemma cont_full_count : forall ws one_rr g a rdt p tz ser v c,
  msg_parse_ok g -> msg_parse_ok (group one_rr) -> ttl_ok (v_ttl v) ->
  Forall (header_ok rdt) ws -> Forall plain c -> zsorted tz -> quiet tz ->
  a ++ concat (map w_records ws) = c ++ [soa_rr v] ->
  exists z' m, cont one_rr (loop (ast false rdt p tz ser (single (soa_rr v))) (g a)) ws = (Done z', S m)
    /\ concat (map w_records (skipn m ws)) = [].
Proof.
  induction ws as [|w ws IH]; intros one_rr g a rdt p tz ser v c Hg Hg1 Httl Hh Hc Hz Hq Hcat.
  - cbn [map concat] in Hcat. rewrite app_nil_r in Hcat. subst a.
    destruct Hg as (G1 & G2 & G3). rewrite (G1 c (soa_rr v) Hc eq_refl).
    rewrite loop_snoc, (loopn_addrs _ _ _ _ _ _ _ (G2 c Hc) Hq), (step_final_full _ _ _ _ _ _ Httl (quiet_addrs _ _ (G2 c Hc) Hq)).
    cbn [cont done pub]. eexists. exists 0%nat. split; reflexivity.
  - apply app_snoc_split in Hcat. destruct Hcat as [[c' [-> Hrest]]|[-> Hrest]].
    + apply Forall_app in Hc. destruct Hc as [Ha Hc'].
      destruct Hg as (G1 & G2 & G3).
      rewrite (loop_loopn _ _ _ (loopn_addrs _ _ _ _ _ _ _ (G2 a Ha) Hq)).
      cbn [cont]. unfold ast at 1. cbn [done]. fold (ast false rdt p (addrs tz (g a)) ser (single (soa_rr v))).
      inversion Hh as [|? ? Hw Hws]; subst.
      rewrite drive_cons by solve_req. unfold from_wire.
      rewrite process_running; [|apply running_ast|apply Hw|apply Hw]. cbn [m_answer].
      cbn [map concat] in Hrest.
      assert (Hz1 : zsorted (addrs tz (g a))).
      { eapply zsorted_zeq; [apply G3; assumption|apply adds_sorted, Hz]. }
      destruct (IH one_rr (group one_rr) (w_records w) rdt p (addrs tz (g a)) ser v c' Hg1 Hg1 Httl Hws Hc' Hz1
                  (quiet_addrs _ _ (G2 a Ha) Hq) Hrest) as [z' [m [Hn Hsk]]].
      rewrite Hn. exists z', (S m). split; [reflexivity|exact Hsk].
    + destruct Hg as (G1 & G2 & G3). rewrite (G1 c (soa_rr v) Hc eq_refl).
      rewrite loop_snoc, (loopn_addrs _ _ _ _ _ _ _ (G2 c Hc) Hq), (step_final_full _ _ _ _ _ _ Httl (quiet_addrs _ _ (G2 c Hc) Hq)).
      cbn [cont done pub]. eexists. exists 0%nat. split; [reflexivity|exact Hrest].
Qed.

(* ---- from_xfr's way of adding an RRset agrees with the transaction's on ordinary RRsets ---- *)
Lemma fx_add_rs : forall z s, rs_ok s -> quiet z ->
  fx_add z s = zput (skey s) (merge (look z (skey s)) (s_ttl s) (s_data s)) z.
Proof.
  intros z s (Hc & Ht & _ & Hne & Hs & Hsg & Hkd) Hq. unfold fx_add, merge, tmin.
  destruct (look z (skey s)) as [[t0 S0]|].
  - rewrite (fold_rds_add_union _ _ _ Hsg). reflexivity.
  - rewrite node_put_id by (apply quiet_addable; [exact Hq|exact Hkd]).
    rewrite (fold_rds_add_union _ _ _ Hsg). fold (union [] (s_data s)). rewrite (union_nil_sorted _ Hs). reflexivity.
Qed.

Lemma fx_addrs : forall l z, Forall rs_ok l -> quiet z -> fold_left fx_add l z = addrs z l.
Proof.
  induction l as [|s l IH]; intros z Hf Hq; cbn [fold_left addrs]; [reflexivity|].
  inversion Hf as [|? ? Hs Hf']; subst. rewrite (fx_add_rs z s Hs Hq). apply IH; [exact Hf'|].
  apply quiet_zput; [exact Hq|apply Hs].
Qed.

Lemma fx_add_soa_again : forall z v, ttl_ok (v_ttl v) -> look z soakey = Some (v_ttl v, [v_soa v]) ->
  fx_add z (single (soa_rr v)) = zput soakey (v_ttl v, [v_soa v]) z.
Proof.
  intros z v Httl Hl. unfold fx_add, single, soa_rr, skey.
  cbn [s_name s_type s_covers s_ttl s_data r_name r_type r_covers r_ttl r_data].
  change (origin, tSOA, 0) with soakey. rewrite Hl, (clamp_ok _ Httl), Z.ltb_irrefl. reflexivity.
Qed.

Lemma look_addrs_soa : forall l z, Forall rs_ok l -> look (addrs z l) soakey = look z soakey.
Proof.
  intros l z Hf. rewrite look_addrs. apply fm_notin. intros Hin. apply in_map_iff in Hin.
  destruct Hin as [s [Ek Hs]]. rewrite Forall_forall in Hf. destruct (Hf s Hs) as (_ & Ht & _).
  unfold skey, soakey in Ek. inversion Ek. congruence.
Qed.

Lemma flat_group_nil : forall ws, concat (map w_records ws) = [] ->
  flat_map (fun w => group false (w_records w)) ws = [].
Proof.
  induction ws as [|w ws IH]; cbn [map concat flat_map]; intros H; [reflexivity|].
  apply app_eq_nil in H. destruct H as [H1 H2]. rewrite H1, (IH H2). reflexivity.
Qed.

(* the RRsets of the messages, folded into the zone tz that already holds the SOA *)
Lemma fx_full : forall ws g a tz v c,
  msg_parse_ok g -> msg_parse_ok (group false) -> ttl_ok (v_ttl v) ->
  Forall plain c -> zsorted tz -> quiet tz -> look tz soakey = Some (v_ttl v, [v_soa v]) ->
  a ++ concat (map w_records ws) = c ++ [soa_rr v] ->
  zeq (fold_left fx_add (g a ++ flat_map (fun w => group false (w_records w)) ws) tz)
      (zput soakey (v_ttl v, [v_soa v]) (adds tz c)).
Proof.
  assert (FIN : forall g c tz v rest, msg_parse_ok g -> ttl_ok (v_ttl v) -> Forall plain c -> zsorted tz -> quiet tz ->
            look tz soakey = Some (v_ttl v, [v_soa v]) -> rest = [] ->
            zeq (fold_left fx_add (g (c ++ [soa_rr v]) ++ rest) tz) (zput soakey (v_ttl v, [v_soa v]) (adds tz c))).
  { intros g c tz v rest (G1 & G2 & G3) Httl Hc Hz Hq Hl ->. rewrite app_nil_r.
    rewrite (G1 c (soa_rr v) Hc eq_refl), fold_left_app, (fx_addrs _ _ (G2 c Hc) Hq). cbn [fold_left].
    rewrite fx_add_soa_again; [|exact Httl|rewrite (look_addrs_soa _ _ (G2 c Hc)); exact Hl].
    intros k. rewrite !look_zput. destruct (key_eqb k soakey); [reflexivity|apply G3; assumption]. }
  induction ws as [|w ws IH]; intros g a tz v c Hg Hg1 Httl Hc Hz Hq Hl Hcat.
  - cbn [map concat] in Hcat. rewrite app_nil_r in Hcat. subst a. cbn [flat_map]. apply FIN; auto.
  - apply app_snoc_split in Hcat. destruct Hcat as [[c' [-> Hrest]]|[-> Hrest]].
    + apply Forall_app in Hc. destruct Hc as [Ha Hc'].
      pose proof Hg as (G1 & G2 & G3).
      rewrite fold_left_app, (fx_addrs _ _ (G2 a Ha) Hq). cbn [flat_map]. cbn [map concat] in Hrest.
      assert (Hz1 : zsorted (addrs tz (g a))).
      { eapply zsorted_zeq; [apply G3; assumption|apply adds_sorted, Hz]. }
      eapply zeq_trans.
      * apply (IH (group false) (w_records w) (addrs tz (g a)) v c' Hg1 Hg1 Httl Hc' Hz1 (quiet_addrs _ _ (G2 a Ha) Hq)).
        -- rewrite (look_addrs_soa _ _ (G2 a Ha)). exact Hl.
        -- exact Hrest.
      * intros k. rewrite !look_zput. destruct (key_eqb k soakey); [reflexivity|]. rewrite adds_app.
        apply adds_zeq. apply G3; assumption.
    + apply FIN; auto.
      apply flat_group_nil, Hrest.
Qed.

Lemma firstn_skipn_records : forall n (ws : list wmsg),
  concat (map w_records (skipn n ws)) = [] ->
  concat (map w_records (firstn n ws)) = concat (map w_records ws).
Proof.
  intros n ws H. rewrite <- (firstn_skipn n ws) at 2. rewrite map_app, concat_app, H, app_nil_r. reflexivity.
Qed.

(* dns.zone.from_xfr(dns.query.xfr(...)): a well-formed version with NS records at the apex, any division of
   its AXFR response into messages: the zone that is built is the server's version *)
Theorem legacy_axfr_converges : forall v ws,
  version_wf v -> look (v_rest v) (origin, 2, 0) <> None ->
  chunking tAXFR (axfr_stream v) ws ->
  exists z, legacy_axfr ws = Ok z /\ zeq z (zone_of v).
Proof.
  intros v ws Hv Hns Hch. pose proof Hch as (HhAll & HcatAll & _). unfold axfr_stream in Hch.
  apply chunking_first in Hch. destruct Hch as (w & ws' & a & -> & Hr & Hw & Hws & Hcat).
  pose proof Hv as [Httl Hwf].
  unfold legacy_axfr, inbound_xfr, xfr_run. rewrite init_axfr. cbn [Z.eqb tAXFR tIXFR Pos.eqb].
  rewrite drive_cons by solve_req.
  rewrite (first_message_axfr [] None w (soa_rr v) a Hw Hr) by (split; reflexivity).
  destruct (cont_full_count ws' false (map single) a tAXFR [] [] 0 v
              (body (v_rest v)) parse_single_ok parse_group_ok Httl Hws (body_plain _ Hwf) zsorted_nil quiet_nil Hcat)
    as [z' [m [Hn Hsk]]].
  rewrite Hn.
  (* the messages that were yielded carry the whole stream *)
  assert (Hrec : a ++ concat (map w_records (firstn m ws')) = body (v_rest v) ++ [soa_rr v]).
  { rewrite (firstn_skipn_records m ws' Hsk). exact Hcat. }
  unfold from_xfr. cbv zeta. cbn [firstn flat_map]. rewrite Hr.
  rewrite (group_soa_first false (soa_rr v) a eq_refl). cbn [map app fold_left].
  set (tz0 := fx_add [] (single (soa_rr v))).
  assert (Etz0 : tz0 = [(soakey, (v_ttl v, [v_soa v]))]).
  { unfold tz0, fx_add, single, soa_rr, skey, node_put, node_clean, zput.
    cbn [s_name s_type s_covers s_ttl s_data r_name r_type r_covers r_ttl r_data look filter zremove fold_left].
    rewrite (clamp_ok _ Httl). reflexivity. }
  assert (Hq0 : quiet tz0).
  { rewrite Etz0. intros k Hk. cbn [look] in Hk. destruct (key_eqb k soakey) eqn:E; [|congruence].
    apply key_eqb_eq in E. subst. discriminate. }
  assert (Hs0 : zsorted tz0).
  { rewrite Etz0. intros k. cbn [look]. destruct (key_eqb k soakey); [apply ssorted_one|exact Logic.I]. }
  assert (Hl0 : look tz0 soakey = Some (v_ttl v, [v_soa v])) by (rewrite Etz0; reflexivity).
  assert (Hfin : zeq (fold_left fx_add (map single a ++ flat_map (fun w0 => group false (w_records w0)) (firstn m ws')) tz0)
                     (zone_of v)).
  { eapply zeq_trans.
    - apply (fx_full (firstn m ws') (map single) a tz0 v (body (v_rest v)) parse_single_ok parse_group_ok Httl
               (body_plain _ Hwf) Hs0 Hq0 Hl0 Hrec).
    - intros k. rewrite look_zput, look_zone_of. destruct (key_eqb k soakey) eqn:E; [reflexivity|].
      rewrite look_adds_fa, Etz0. cbn [look]. rewrite E.
      rewrite <- (adds_body _ Hwf k), look_adds_fa. reflexivity. }
  set (zf := fold_left fx_add _ tz0) in *.
  assert (H1 : look zf (origin, tSOA, 0) = Some (v_ttl v, [v_soa v])) by (rewrite Hfin; reflexivity).
  assert (H2 : look zf (origin, 2, 0) = look (v_rest v) (origin, 2, 0)) by (rewrite Hfin; reflexivity).
  rewrite H1. destruct (look zf (origin, 2, 0)) as [e|] eqn:E2.
  - exists zf. split; [reflexivity|exact Hfin].
  - exfalso. apply Hns. rewrite <- H2. reflexivity.
Qed.
