(* APL items: [!]family:address/prefix.  The printed item is one tokenizer word, the family digits contain no
   colon and the address text no slash, so the two str.split(sep, 1) calls of from_text cut where to_text joined. *)
From DV Require Import Base.Prelude Model.NameM Model.TokM Model.RdTextM.
From DV Require Import Proofs.TokEsc Proofs.TokWords Proofs.TokDec Proofs.TokHex Proofs.TokShape Proofs.RdTextAddr
     Proofs.RdTextFmtHex.
Open Scope Z_scope.
Set Warnings "-abstract-large-number".

Notation ns47 := (no_sep 47).

Lemma split_once_app sep a b : no_sep sep a = true -> split_once sep (a ++ sep :: b) = Some (a, b).
Proof.
  induction a as [|c a IH]; intros H; cbn [app split_once].
  - rewrite Z.eqb_refl. reflexivity.
  - unfold no_sep in H. cbn [forallb] in H. apply andb_true_iff in H as [Hc H]. apply negb_true_iff in Hc.
    rewrite Hc. rewrite (IH H). reflexivity.
Qed.

Lemma decimal_nosep sep s : sep <? 48 = true \/ 57 <? sep = true -> forallb is_decimal s = true -> no_sep sep s = true.
Proof.
  intros Hsep H. unfold no_sep. rewrite forallb_forall in *. intros c Hc. specialize (H c Hc).
  unfold is_decimal in H. apply negb_true_iff. lia.
Qed.

Lemma dec_ns sep n : 0 <= n -> sep <? 48 = true \/ 57 <? sep = true -> no_sep sep (dec n) = true.
Proof. intros Hn Hs. apply decimal_nosep; [exact Hs|apply dec_decimal, Hn]. Qed.

(* ---------- address texts contain no separator character below "0" other than "." ---------- *)
Lemma firstn_map {A B} (f : A -> B) n l : firstn n (map f l) = map f (firstn n l).
Proof. revert l. induction n; intros [|x l]; cbn; try reflexivity. f_equal. apply IHn. Qed.
Lemma skipn_map {A B} (f : A -> B) n l : skipn n (map f l) = map f (skipn n l).
Proof. revert l. induction n; intros [|x l]; cbn; try reflexivity. apply IHn. Qed.
Lemma Forall_firstn {A} (P : A -> Prop) n l : Forall P l -> Forall P (firstn n l).
Proof. intros H. apply Forall_forall. intros x Hx. rewrite Forall_forall in H. apply H. rewrite <- (firstn_skipn n l). apply in_or_app. left. exact Hx. Qed.
Lemma Forall_skipn {A} (P : A -> Prop) n l : Forall P l -> Forall P (skipn n l).
Proof. intros H. apply Forall_forall. intros x Hx. rewrite Forall_forall in H. apply H. eapply in_skipn_in; eauto. Qed.

Section NoSep.
  Variable sep : Z.
  Hypothesis Hlow : sep <? 48 = true.
  Hypothesis Hdot : (46 =? sep) = false.
  Hypothesis Hchunks : forallb (fun v => no_sep sep (chunk_of v)) (zrange 65536 0) = true.
  Notation ns := (no_sep sep).

  Lemma ns_single c : (c =? sep) = false -> ns [c] = true.
  Proof. intros H. unfold no_sep. cbn [forallb]. rewrite H. reflexivity. Qed.

  Lemma v4text_nosep b0 b1 b2 b3 : 0 <= b0 -> 0 <= b1 -> 0 <= b2 -> 0 <= b3 -> ns (v4text b0 b1 b2 b3) = true.
  Proof.
    intros. unfold v4text.
    repeat (apply no_sep_app; [apply dec_ns; [assumption|left; exact Hlow]|];
            change (ns (46 :: ?x)) with (ns ([46] ++ x)); apply no_sep_app; [apply ns_single, Hdot|]).
    apply dec_ns; [assumption|left; exact Hlow].
  Qed.

  Lemma ipv4_ntoa_nosep a t : all_bytes a = true -> ipv4_ntoa a = Ok t -> ns t = true.
  Proof.
    intros Hb. destruct a as [|a0 [|a1 [|a2 [|a3 [|? ?]]]]]; cbn [ipv4_ntoa]; try discriminate.
    cbn [all_bytes forallb] in Hb. repeat (apply andb_true_iff in Hb as [? Hb]).
    repeat match goal with H : is_byte _ = true |- _ => apply is_byte_range in H end.
    intros E. inversion E. apply (v4text_nosep a0 a1 a2 a3); lia.
  Qed.

  Lemma chunk_nosep v : 0 <= v < 65536 -> ns (chunk_of v) = true.
  Proof.
    intros Hv. pose proof Hchunks as G. rewrite forallb_forall in G. apply G. apply zrange_in.
    assert (E : Z.of_nat 65536 = 65536) by (vm_compute; reflexivity). rewrite E. lia.
  Qed.

  Lemma colon_ns : ns [58] = true /\ ns [58; 58] = true.
  Proof. assert ((58 =? sep) = false) by lia. unfold no_sep. cbn [forallb]. rewrite H. split; reflexivity. Qed.

  Lemma join_nosep vs : Forall (fun v => 0 <= v < 65536) vs -> ns (join_colon (map chunk_of vs)) = true.
  Proof.
    induction 1 as [|v vs Hv H IH]; [reflexivity|]. destruct vs as [|v2 vs]; [cbn [map join_colon]; apply chunk_nosep, Hv|].
    change (join_colon (map chunk_of (v :: v2 :: vs))) with (chunk_of v ++ [58] ++ join_colon (map chunk_of (v2 :: vs))).
    apply no_sep_app; [apply chunk_nosep, Hv|]. apply no_sep_app; [apply colon_ns|exact IH].
  Qed.

  Theorem ipv6_ntoa_nosep a t : all_bytes a = true -> ipv6_ntoa a = Ok t -> ns t = true.
  Proof.
    intros Hb. unfold ipv6_ntoa. destruct (Nat.eqb (length a) 16) eqn:EL; cbn [negb]; [|discriminate].
    pose proof (pairs16_range a Hb) as HR.
    change (map (fun v => strip0 (hex4 v)) (pairs16 a)) with (map chunk_of (pairs16 a)).
    destruct (zrun (map chunk_of (pairs16 a))) as [bs bl].
    destruct (bl >? 1).
    - destruct ((bs =? 0) && ((bl =? 6) || (bl =? 5) && zlist_eqb (nth 5 (map chunk_of (pairs16 a)) []) [102; 102; 102; 102])).
      + destruct (ipv4_ntoa (skipn 12 a)) as [v4| |] eqn:E4; cbn [bind]; try discriminate.
        assert (Hs : all_bytes (skipn 12 a) = true).
        { unfold all_bytes in *. rewrite forallb_forall in *. intros x Hx. apply Hb. eapply in_skipn_in; eauto. }
        intros E. inversion E. apply no_sep_app; [|apply (ipv4_ntoa_nosep _ _ Hs E4)].
        assert (E58 : (58 =? sep) = false) by lia. assert (E102 : (102 =? sep) = false) by lia.
        destruct (bl =? 6); unfold no_sep; cbn [forallb]; rewrite ?E58, ?E102; reflexivity.
      + intros E. inversion E. rewrite firstn_map, skipn_map.
        apply no_sep_app; [apply join_nosep, Forall_firstn, HR|].
        change (58 :: 58 :: ?x) with ([58; 58] ++ x). apply no_sep_app; [apply colon_ns|apply join_nosep, Forall_skipn, HR].
    - intros E. inversion E. apply join_nosep, HR.
  Qed.
End NoSep.

Lemma chunk_noslash_all : forallb (fun v => no_sep 47 (chunk_of v)) (zrange 65536 0) = true.
Proof. vm_compute. reflexivity. Qed.
Lemma chunk_nocomma_all : forallb (fun v => no_sep 44 (chunk_of v)) (zrange 65536 0) = true.
Proof. vm_compute. reflexivity. Qed.

Definition ipv4_ntoa_noslash := ipv4_ntoa_nosep 47 eq_refl eq_refl.
Definition ipv6_ntoa_noslash := ipv6_ntoa_nosep 47 eq_refl eq_refl chunk_noslash_all.
Definition ipv4_ntoa_nocomma := ipv4_ntoa_nosep 44 eq_refl eq_refl.
Definition ipv6_ntoa_nocomma := ipv6_ntoa_nosep 44 eq_refl eq_refl chunk_nocomma_all.

(* ---------- the hex text of an unknown family ---------- *)
Lemma hexval_hexdigit c v : hexval c = Some v -> is_hexdigit c = true.
Proof.
  unfold hexval, digit_val, is_hexdigit.
  destruct ((48 <=? c) && (c <=? 57)) eqn:E1; [intros _; lia|].
  destruct ((97 <=? c) && (c <=? 122)) eqn:E2.
  - destruct (c - 87 <? 16) eqn:E; [intros _; lia|discriminate].
  - destruct ((65 <=? c) && (c <=? 90)) eqn:E3; [|discriminate].
    destruct (c - 55 <? 16) eqn:E; [intros _; lia|discriminate].
Qed.

Lemma unhexlify_hexdigits : forall s d, unhexlify s = Ok d -> forallb is_hexdigit s = true.
Proof.
  fix IH 1. intros [|a [|b r]] d H; cbn [unhexlify] in H; [reflexivity|discriminate|].
  destruct (hexval a) as [x|] eqn:Ea; try discriminate. destruct (hexval b) as [y|] eqn:Eb; try discriminate.
  destruct (unhexlify r) as [t| |] eqn:Er; cbn [bind] in H; try discriminate.
  cbn [forallb]. rewrite (hexval_hexdigit a x Ea), (hexval_hexdigit b y Eb), (IH r t Er). reflexivity.
Qed.

Lemma hexdigits_facts s : forallb is_hexdigit s = true -> forallb safe s = true /\ all_ascii s = true /\ ns47 s = true.
Proof.
  induction s as [|c s IH]; intros H; [repeat split; reflexivity|].
  cbn [forallb] in H. apply andb_true_iff in H as [Hc H]. destruct (IH H) as (I1 & I2 & I3).
  pose proof (hexdigit_char_safe c Hc) as Sc. unfold all_ascii, no_sep in *. cbn [forallb]. rewrite Sc, I1, I2, I3.
  unfold is_hexdigit in Hc. repeat split; try reflexivity.
  - replace ((0 <=? c) && (c <? 128)) with true by lia. reflexivity.
  - replace (negb (c =? 47)) with true by lia. reflexivity.
Qed.

(* ---------- one item ---------- *)
Definition item_ok (it : aplitem) : Prop :=
  let '(family, neg, addr, prefix) := it in
  if family =? 1 then all_bytes addr = true /\ length addr = 4%nat /\ 0 <= prefix <= 32
  else if family =? 2 then all_bytes addr = true /\ length addr = 16%nat /\ 0 <= prefix <= 128
  else 0 <= family <= 65535 /\ zlen addr <= 127 /\ (exists d, unhexlify addr = Ok d) /\ 0 <= prefix <= 255.

Theorem apl_item_roundtrip it t : item_ok it -> apl_item_text it = Ok t ->
  forallb safe t = true /\ t <> [] /\ apl_item_of_token (mkTok tIDENT t (has_bs t) None) = Ok it.
Proof.
  destruct it as [[[family neg] addr] prefix]. unfold item_ok, apl_item_text. intros Hok Ht.
  (* the address text a, its properties, and how the constructor reads it back *)
  assert (HA : exists a, (if family =? 1 then ipv4_ntoa addr else if family =? 2 then ipv6_ntoa addr else Ok addr) = Ok a /\
                 forallb safe a = true /\ ns47 a = true /\ 0 <= family <= 65535 /\ 0 <= prefix <= 255 /\
                 apl_ctor family neg a prefix = Ok (family, neg, addr, prefix)).
  { unfold apl_ctor. destruct (family =? 1) eqn:E1.
    - destruct Hok as (Hb & Hl & Hp). apply Z.eqb_eq in E1. subst family.
      destruct (ipv4_roundtrip addr Hb Hl) as (a & En & Ea). exists a. split; [exact En|].
      destruct (ipv4_ntoa_word addr a Hb En) as [S _]. split; [exact S|]. split; [apply (ipv4_ntoa_noslash addr a Hb En)|].
      split; [lia|]. split; [lia|]. cbn [Z.ltb Z.gtb Z.compare orb Z.eqb Pos.eqb]. rewrite Ea. cbn [bind].
      replace ((prefix <? 0) || (prefix >? 32)) with false by lia. reflexivity.
    - destruct (family =? 2) eqn:E2.
      + destruct Hok as (Hb & Hl & Hp). apply Z.eqb_eq in E2. subst family.
        destruct (ipv6_roundtrip addr Hb Hl) as (a & En & Ea). exists a. split; [exact En|].
        destruct (ipv6_ntoa_word addr a Hb En) as [S _]. split; [exact S|]. split; [apply (ipv6_ntoa_noslash addr a Hb En)|].
        split; [lia|]. split; [lia|]. cbn [Z.ltb Z.gtb Z.compare orb Z.eqb Pos.eqb]. rewrite Ea. cbn [bind].
        replace ((prefix <? 0) || (prefix >? 128)) with false by lia. reflexivity.
      + destruct Hok as (Hf & Hl & (d & Hd) & Hp). exists addr. split; [reflexivity|].
        destruct (hexdigits_facts addr (unhexlify_hexdigits addr d Hd)) as (S & A & N).
        split; [exact S|]. split; [exact N|]. split; [exact Hf|]. split; [exact Hp|].
        replace ((family <? 0) || (family >? 65535)) with false by lia.
        rewrite utf8_ascii by exact A. cbn [bind]. replace (zlen addr >? 127) with false by lia. rewrite Hd. cbn [bind].
        replace ((prefix <? 0) || (prefix >? 255)) with false by lia. reflexivity. }
  destruct HA as (a & Ea & Sa & Na & Hf & Hp & Hctor). rewrite Ea in Ht. cbn [bind] in Ht. inversion Ht; subst t. clear Ht.
  set (body := dec family ++ 58 :: a ++ 47 :: dec prefix).
  change ((if neg then [33] else []) ++ dec family ++ [58] ++ a ++ [47] ++ dec prefix) with ((if neg then [33] else []) ++ body).
  assert (Sbody : forallb safe body = true).
  { unfold body. apply safe_app; [apply dec_safe; lia|]. change (58 :: ?x) with ([58] ++ x). apply safe_app; [reflexivity|].
    apply safe_app; [exact Sa|]. change (47 :: ?x) with ([47] ++ x). apply safe_app; [reflexivity|apply dec_safe; lia]. }
  assert (Hparse : forall pre, (* the part after the optional "!" *)
            match split_once 58 body with
            | Some (fam, rest) =>
                match py_int 10 fam with
                | Some fv => match split_once 47 rest with
                             | Some (ad, pfx) => match py_int 10 pfx with Some pv => apl_ctor fv pre ad pv | None => Internal iValueError end
                             | None => Internal iValueError
                             end
                | None => Internal iValueError
                end
            | None => Internal iValueError
            end = apl_ctor family pre a prefix).
  { intros pre. unfold body. rewrite (split_once_app 58 (dec family)) by (apply dec_ns; [lia|right; reflexivity]).
    rewrite py_int_dec by lia. rewrite (split_once_app 47 a) by exact Na. rewrite py_int_dec by lia. reflexivity. }
  assert (Hd0 : exists d0 dr, dec family = d0 :: dr /\ (d0 =? 33) = false).
  { pose proof (dec_decimal family ltac:(lia)) as D. pose proof (dec_nonempty family) as N.
    destruct (dec family) as [|d0 dr]; [congruence|]. exists d0, dr. split; [reflexivity|].
    cbn [forallb] in D. apply andb_true_iff in D as [D _]. unfold is_decimal in D. lia. }
  destruct Hd0 as (d0 & dr & Ed & E33).
  destruct neg.
  - (* negated *)
    change (([33] ++ body)) with (33 :: body).
    split; [cbn [forallb]; rewrite Sbody; reflexivity|]. split; [discriminate|].
    unfold apl_item_of_token, unescape. cbn [tesc tvalue].
    rewrite has_bs_safe by (cbn [forallb]; rewrite Sbody; reflexivity). cbn [negb bind tvalue].
    change (33 =? 33) with true. cbv iota. rewrite (Hparse true). exact Hctor.
  - change ([] ++ body) with body.
    split; [exact Sbody|]. split; [unfold body; rewrite Ed; discriminate|].
    unfold apl_item_of_token, unescape. cbn [tesc tvalue]. rewrite has_bs_safe by exact Sbody. cbn [negb bind tvalue].
    assert (Eb : body = d0 :: (dr ++ 58 :: a ++ 47 :: dec prefix)) by (unfold body; rewrite Ed; reflexivity).
    rewrite Eb. rewrite E33. cbv iota. rewrite <- Eb. rewrite (Hparse false). exact Hctor.
Qed.

(* ---------- the list of items ---------- *)
From DV Require Import Proofs.RdTextTypes Proofs.RdTextTail.

Lemma join_sp_cons_spaced t ts : join_sp (t :: ts) = t ++ spaced ts.
Proof.
  destruct ts as [|t2 r]; [cbn [join_sp spaced flat_map]; rewrite app_nil_r; reflexivity|].
  change (join_sp (t :: t2 :: r)) with (t ++ 32 :: join_sp (t2 :: r)). rewrite join_sp_spaced by discriminate. reflexivity.
Qed.

Lemma apl_items_texts items : Forall item_ok items -> forall ts, map_res apl_item_text items = Ok ts ->
  Forall uword ts /\ Forall (fun t => forallb safe t = true) ts /\ map_res apl_item_of_token (map utok ts) = Ok items.
Proof.
  induction 1 as [|it items Hit _ IH]; intros ts E.
  - inversion E; subst. repeat split; constructor.
  - cbn [map_res] in E. destruct (apl_item_text it) as [t| |] eqn:E1; cbn [bind] in E; try discriminate.
    destruct (map_res apl_item_text items) as [ts'| |] eqn:E2; cbn [bind] in E; try discriminate.
    inversion E; subst ts. destruct (IH ts' eq_refl) as (I1 & I2 & I3).
    destruct (apl_item_roundtrip it t Hit E1) as (S & N & P).
    split; [constructor; [split; [apply units_safe, S|exact N]|exact I1]|].
    split; [constructor; assumption|]. cbn [map map_res]. unfold utok at 1. rewrite P. cbn [bind]. rewrite I3. reflexivity.
Qed.
