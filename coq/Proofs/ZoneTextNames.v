(* C09: the per-name premise of zone_roundtrip (owner_ok / origin_ok) follows from the name
   theorems of C01 / C06 for every valid name, in the default name style (names printed as stored). *)
From DV Require Import Base.Prelude Model.NameM Model.ZoneTextM.
From DV Require Import Proofs.NameValid Proofs.NameText Proofs.NameTok Proofs.NameOrder Proofs.NameRel.
From DV Require Import Proofs.ZoneTextBase Proofs.ZoneTextLex Proofs.ZoneTextRecord Proofs.ZoneTextRoundtrip.
Open Scope Z_scope.

Lemma clean_id_clean_go w : clean w -> id_clean_go w false = true.
Proof.
  induction 1 as [|c w Hd H92 Hw IH|c w H10 Hw IH]; cbn [id_clean_go].
  - reflexivity.
  - replace (c =? 92) with false by (symmetry; apply Z.eqb_neq; exact H92).
    change (is_delim c) with (tok_delim c). rewrite Hd. exact IH.
  - cbn [Z.eqb Pos.eqb]. replace (c =? 10) with false by (symmetry; apply Z.eqb_neq; exact H10). exact IH.
Qed.

Lemma to_text_id_clean n : AllBytes n -> id_clean (to_text n) = true.
Proof.
  intros HB. destruct (to_text_clean n HB) as [Hc Hne].
  unfold id_clean. destruct (to_text n) eqn:E; [congruence|]. apply clean_id_clean_go. exact Hc.
Qed.

Lemma esc_octet_not_dollar c : exists h r, esc_octet c = h :: r /\ h <> 36.
Proof.
  unfold esc_octet. destruct (escaped c) eqn:E; [eexists _, _; split; [reflexivity|discriminate]|].
  destruct ((c >? 32) && (c <? 127)); [|eexists _, _; split; [reflexivity|discriminate]].
  eexists _, _; split; [reflexivity|]. intros ->. discriminate.
Qed.

Lemma to_text_not_dollar (n : name) : not_dollar (to_text n).
Proof.
  unfold name, label in *. destruct n as [|x n]; [exact Logic.I|].
  destruct x as [|c x].
  - destruct n as [|y n]; [exact Logic.I|].
    change (to_text ([] :: y :: n)) with ([] ++ 46 :: join_dot (map escapify (y :: n))). exact Logic.I.
  - destruct (esc_octet_not_dollar c) as (h & r & E & Hh).
    assert (Hhd : exists r', to_text ((c :: x) :: n) = h :: r').
    { change (to_text ((c :: x) :: n)) with (join_dot (map escapify ((c :: x) :: n))).
      destruct n as [|y n].
      - cbn [map join_dot]. unfold escapify. cbn [flat_map]. rewrite E. cbn [app]. eauto.
      - change (join_dot (map escapify ((c :: x) :: y :: n)))
          with (escapify (c :: x) ++ 46 :: join_dot (map escapify (y :: n))).
        unfold escapify at 1. cbn [flat_map]. rewrite E. cbn [app]. eauto. }
    destruct Hhd as (r' & ->). unfold not_dollar.
    destruct h as [|p|p]; try exact Logic.I.
    repeat (destruct p as [p|p|]; try exact Logic.I). congruence.
Qed.

Section Names.
  Variable c : cfg.
  Variable st : style.
  Variable zo : name.
  Hypothesis Hzo : Valid zo /\ AllBytes zo /\ is_absolute zo = true.
  (* names are printed as they are stored *)
  Hypothesis Hplain : st_origin st = None.

  Lemma name_text_plain n : name_text (st_origin st) (st_relativize st) false n = Ok (to_text n).
  Proof. rewrite Hplain. reflexivity. Qed.

  Lemma origin_ok_valid : origin_ok zo.
  Proof.
    destruct Hzo as (V & B & A). unfold origin_ok, as_name.
    rewrite (text_roundtrip zo V B). cbn [lift_name bind choose_relativity].
    split; [reflexivity|]. split; [exact A|apply to_text_id_clean; exact B].
  Qed.

  (* a relativized zone: the stored name is relative, the owner is name + origin *)
  Lemma owner_ok_relativized n :
    c_rel c = true -> Valid n -> AllBytes n -> is_absolute n = false -> Valid (n ++ zo) ->
    owner_ok c st zo n (to_text n) (n ++ zo).
  Proof.
    intros Hr V B A Vn. destruct Hzo as (Vz & Bz & Az).
    destruct (derel_rel n zo V Vz A Az Vn) as [Hd Hrel].
    assert (Habs : is_absolute (n ++ zo) = true).
    { destruct zo as [|z0 z']; [discriminate|]. rewrite is_absolute_app. exact Az. }
    unfold owner_ok. split; [apply name_text_plain|].
    split; [apply to_text_id_clean; exact B|]. split; [apply to_text_not_dollar|].
    split.
    - unfold as_name. rewrite (text_roundtrip_origin n (Some zo) V B), A.
      rewrite (mk_name_valid _ Vn). cbn [lift_name bind].
      rewrite (choose_derel_abs _ _ Habs). reflexivity.
    - split.
      + apply is_subdomain_iff. split; [rewrite Habs, Az; reflexivity|apply ci_suffix_app].
      + rewrite Hr, Hrel. reflexivity.
  Qed.

  (* an absolute zone: the stored name is the owner *)
  Lemma owner_ok_absolute n :
    c_rel c = false -> Valid n -> AllBytes n -> is_absolute n = true -> is_subdomain n zo = true ->
    owner_ok c st zo n (to_text n) n.
  Proof.
    intros Hr V B A Hs.
    unfold owner_ok. split; [apply name_text_plain|].
    split; [apply to_text_id_clean; exact B|]. split; [apply to_text_not_dollar|].
    split.
    - unfold as_name. rewrite (text_roundtrip_origin n (Some zo) V B), A. cbn [lift_name bind].
      rewrite (choose_derel_abs _ _ A). reflexivity.
    - split; [exact Hs|]. rewrite Hr. reflexivity.
  Qed.
End Names.

(* ---------- $ORIGIN-relative versus absolute spelling of a name ---------- *)
Lemma AllBytes_app (a b : name) : AllBytes a -> AllBytes b -> AllBytes (a ++ b).
Proof. unfold AllBytes. intros. apply Forall_app; split; assumption. Qed.

(* the relative spelling `n` and the absolute spelling `n.origin.` are the same name for the reader *)
Lemma from_text_rel_abs (n o : name) :
  Valid n -> AllBytes n -> is_absolute n = false ->
  AllBytes o -> is_absolute o = true -> Valid (n ++ o) ->
  NameM.from_text (to_text n) (Some o) = Ok (n ++ o) /\
  NameM.from_text (to_text (n ++ o)) (Some o) = Ok (n ++ o).
Proof.
  intros V B A Bo Ao Vn.
  assert (Habs : is_absolute (n ++ o) = true).
  { destruct o as [|z0 z']; [discriminate|]. rewrite is_absolute_app. exact Ao. }
  split.
  - rewrite (text_roundtrip_origin n (Some o) V B), A. apply mk_name_valid. exact Vn.
  - rewrite (text_roundtrip_origin (n ++ o) (Some o) Vn (AllBytes_app _ _ B Bo)), Habs. reflexivity.
Qed.

(* "@" is the current origin *)
Lemma from_text_at (o : name) : Valid o -> AllBytes o -> is_absolute o = true ->
  NameM.from_text [64] (Some o) = NameM.from_text (to_text o) (Some o).
Proof.
  intros V B A. rewrite (text_roundtrip_origin o (Some o) V B), A.
  cbn. apply mk_name_valid. exact V.
Qed.

(* ... so a record line may spell its owner either way *)
Theorem respell_origin_relative_proof c s co (n : name) toks lerr :
  corigin s = Some co ->
  Valid n -> AllBytes n -> is_absolute n = false ->
  AllBytes co -> is_absolute co = true -> Valid (n ++ co) ->
  rr_line c s false (TId (to_text n) :: toks) lerr =
  rr_line c s false (TId (to_text (n ++ co)) :: toks) lerr.
Proof.
  intros Hco V B A Bo Ao Vn.
  destruct (from_text_rel_abs n co V B A Bo Ao Vn) as [H1 H2].
  unfold rr_line, as_name. rewrite Hco, H1, H2. reflexivity.
Qed.

Theorem respell_origin_at_proof c s co toks lerr :
  corigin s = Some co -> Valid co -> AllBytes co -> is_absolute co = true ->
  rr_line c s false (TId [64] :: toks) lerr = rr_line c s false (TId (to_text co) :: toks) lerr.
Proof.
  intros Hco V B A. unfold rr_line, as_name. rewrite Hco, (from_text_at co V B A). reflexivity.
Qed.

(* the same inside rdata: a name field (NS, CNAME, MX, SOA, ...) *)
Theorem respell_rdata_name_relative_proof (n co : name) rel zo ks toks :
  Valid n -> AllBytes n -> is_absolute n = false ->
  AllBytes co -> is_absolute co = true -> Valid (n ++ co) ->
  parse_fields (KName :: ks) (TId (to_text n) :: toks) co rel zo =
  parse_fields (KName :: ks) (TId (to_text (n ++ co)) :: toks) co rel zo.
Proof.
  intros V B A Bo Ao Vn.
  destruct (from_text_rel_abs n co V B A Bo Ao Vn) as [H1 H2].
  cbn [parse_fields]. unfold as_name. rewrite H1, H2. reflexivity.
Qed.

(* a decision procedure for AllBytes, for examples *)
Lemma AllBytes_dec (n : name) : forallb all_bytes n = true -> AllBytes n.
Proof.
  intros H. unfold AllBytes. apply Forall_forall. intros l Hl.
  rewrite forallb_forall in H. specialize (H l Hl). unfold all_bytes in H.
  apply Forall_forall. intros x Hx. rewrite forallb_forall in H. specialize (H x Hx).
  unfold is_byte in H. apply andb_true_iff in H as [H1 H2]. apply Z.leb_le in H1. apply Z.ltb_lt in H2. lia.
Qed.
