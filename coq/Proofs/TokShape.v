(* Token-level lemmas for sequences of fields.  Between two fields of a record the tokenizer is in
   one of two states: after a word token (input continues with the separating blank) or after a
   quoted string (the closing quote is still pending, `quoting` is set).  For both states: the
   next word / quoted string / end of line is returned as the expected token. *)
From DV Require Import Base.Prelude Model.TokM Proofs.TokEsc Proofs.TokTxt Proofs.TokWords.
Open Scope Z_scope.

(* a word that may contain backslash pairs (names, `\#`) *)
Inductive units : list Z -> Prop :=
| un_nil : units []
| un_safe c w : safe c = true -> units w -> units (c :: w)
| un_pair c w : c <> 10 -> units w -> units (92 :: c :: w).

Lemma units_safe w : forallb safe w = true -> units w.
Proof.
  induction w as [|c w IH]; intros H; [constructor|].
  cbn [forallb] in H. apply andb_true_iff in H as [Hc H]. apply un_safe; auto.
Qed.

Lemma units_app a b : units a -> units b -> units (a ++ b).
Proof. induction 1; intros Hb; cbn [app]; [exact Hb|apply un_safe; auto|apply un_pair; auto]. Qed.

Lemma gl_bs_pair f wc c r ml tok tt he : c <> 10 ->
  get_loop (S f) wc (92 :: c :: r) ml false tok tt he = get_loop f wc r ml false (c :: 92 :: tok) tt true.
Proof.
  intros Hc. cbn [get_loop is_delim]. replace (c =? 10) with false by lia. reflexivity.
Qed.

Definition has_bs (w : list Z) : bool := existsb (Z.eqb 92) w.

Lemma safe_not_bs c : safe c = true -> (92 =? c) = false.
Proof. unfold safe. intros H. apply andb_true_iff in H as [_ H]. apply negb_true_iff in H. lia. Qed.

Lemma has_bs_safe w : forallb safe w = true -> has_bs w = false.
Proof.
  induction w as [|c w IH]; intros H; [reflexivity|]. cbn [forallb] in H.
  apply andb_true_iff in H as [Hc H]. unfold has_bs in *. cbn [existsb].
  rewrite safe_not_bs by exact Hc. apply IH, H.
Qed.

Lemma gl_units w : units w -> forall f wc r ml tok tt he,
  exists f', (f <= f')%nat /\
    get_loop (length w + f) wc (w ++ r) ml false tok tt he
    = get_loop f' wc r ml false (rev w ++ tok) tt (he || has_bs w).
Proof.
  induction 1 as [|c w Hc Hw IH|c w Hc Hw IH]; intros f wc r ml tok tt he.
  - exists f. split; [lia|]. unfold has_bs. cbn [existsb]. rewrite orb_false_r. reflexivity.
  - cbn [length app Nat.add]. rewrite gl_safe by exact Hc.
    destruct (IH f wc r ml (c :: tok) tt he) as (f' & Hf & E). rewrite E.
    exists f'. split; [exact Hf|]. cbn [rev]. rewrite <- app_assoc.
    unfold has_bs. cbn [existsb]. rewrite safe_not_bs by exact Hc. reflexivity.
  - cbn [length app Nat.add]. rewrite gl_bs_pair by exact Hc.
    replace (S (length w + f)) with (length w + S f)%nat by lia.
    destruct (IH (S f) wc r ml (c :: 92 :: tok) tt true) as (f' & Hf & E). rewrite E.
    exists f'. split; [lia|]. cbn [rev]. rewrite <- !app_assoc.
    unfold has_bs. cbn [existsb]. rewrite orb_true_r. reflexivity.
Qed.

(* ---------- the three kinds of "next thing" under surplus fuel ---------- *)
Lemma gl_word_any w r k wc : units w -> w <> [] -> word_end r ->
  get_loop (S (length (w ++ r)) + k) wc (w ++ r) 0%nat false [] tIDENT false
  = Ok (mkTok tIDENT w (has_bs w) None, (r, 0%nat, false)).
Proof.
  intros Hw Hne Hr. rewrite app_length.
  replace (S (length w + length r) + k)%nat with (length w + S (length r + k))%nat by lia.
  destruct (gl_units w Hw (S (length r + k)) wc r 0%nat [] tIDENT false) as (f' & Hf & E).
  rewrite E. destruct f' as [|f']; [lia|].
  rewrite gl_word_end; [|exact Hr|rewrite app_nil_r; destruct w; [congruence|]; cbn [rev]; destruct (rev w); discriminate].
  rewrite app_nil_r, rev_involutive. reflexivity.
Qed.

Lemma gl_quoted_any s r k wc : all_bytes s = true ->
  exists he, get_loop (S (length (34 :: escapify s ++ 34 :: r)) + k) wc (34 :: escapify s ++ 34 :: r)
                      0%nat false [] tIDENT false
             = Ok (mkTok tQUOTED (escapify s) he None, (34 :: r, 0%nat, true)).
Proof.
  intros Hs. cbn [length Nat.add].
  change (get_loop (S (S (length (escapify s ++ 34 :: r) + k))) wc (34 :: escapify s ++ 34 :: r) 0 false [] tIDENT false)
    with (get_loop (S (length (escapify s ++ 34 :: r) + k)) wc (escapify s ++ 34 :: r) 0 true [] tQUOTED false).
  rewrite app_length. cbn [length].
  replace (S (length (escapify s) + S (length r) + k))%nat with (length (escapify s) + S (S (length r + k)))%nat by lia.
  destruct (gl_quoted_body s Hs (S (length r + k)) wc r 0%nat) as (he & E). rewrite E. exists he. reflexivity.
Qed.

Lemma gl_end_any rest k wc : line_end rest ->
  exists t i, is_eol_or_eof t = true /\ is_identifier t = false /\ tesc t = false /\
    get_loop (S (length rest) + k) wc rest 0%nat false [] tIDENT false = Ok (t, (i, 0%nat, false)).
Proof.
  intros [->|[r ->]]; cbn [length Nat.add get_loop is_delim is_nil andb].
  - do 2 eexists. repeat split; reflexivity.
  - replace (10 =? 32) with false by reflexivity. replace (10 =? 9) with false by reflexivity.
    replace (10 =? 10) with true by reflexivity. cbn [orb is_nil andb].
    do 2 eexists. repeat split; reflexivity.
Qed.

Lemma gl_end_any_len rest k wc : line_end rest ->
  exists t i, is_eol_or_eof t = true /\ is_identifier t = false /\ tesc t = false /\ (length i <= length rest)%nat /\
    get_loop (S (length rest) + k) wc rest 0%nat false [] tIDENT false = Ok (t, (i, 0%nat, false)).
Proof.
  intros [->|[r ->]]; cbn [length Nat.add get_loop is_delim is_nil andb].
  - exists (mkTok tEOF [] false None), []. repeat split; reflexivity || (cbn; lia).
  - replace (10 =? 32) with false by reflexivity. replace (10 =? 9) with false by reflexivity.
    replace (10 =? 10) with true by reflexivity. cbn [orb is_nil andb].
    exists (mkTok tEOL [10] false None), r. repeat split; reflexivity || (cbn; lia).
Qed.

(* ---------- the two inter-field states ---------- *)
Definition pend (q : bool) : list Z := if q then [34] else [].
Definition stq (q : bool) (r : list Z) : tstate := mkSt (pend q ++ r) 0%nat q None.

Definition lift_gl (x : res gl_res) : res (token * tstate) :=
  match x with
  | Ok (t, (i, ml, q)) => Ok (t, mkSt i ml q None)
  | Lib e => Lib e
  | Internal e => Internal e
  end.

(* get() from either state, after the blanks: the main loop runs on X with enough fuel *)
Lemma get0_stq q bl X : forallb is_blank bl = true -> skip_ws 0 X = (0%nat, X) ->
  get0 (stq q (bl ++ X))
  = lift_gl (get_loop (S (length X) + (if q then length bl else 0)) false X 0%nat false [] tIDENT false).
Proof.
  intros Hbl HX. unfold get0, get, stq. cbn [ungot]. unfold get_fresh. cbn [multiline inp quoting].
  destruct q; cbn [pend app].
  - rewrite skip_ws_quote. cbn [andb]. unfold get_fuel. cbn [length]. rewrite gl_closing.
    rewrite skip_ws_blanks by exact Hbl. rewrite HX. cbn [snd]. rewrite app_length.
    replace (S (length bl + length X)) with (S (length X) + length bl)%nat by lia. reflexivity.
  - rewrite skip_ws_blanks by exact Hbl. rewrite HX. cbn [fst snd andb]. unfold get_fuel.
    rewrite Nat.add_0_r. reflexivity.
Qed.

Lemma skip_ws_units w r : units w -> w <> [] -> skip_ws 0 (w ++ r) = (0%nat, w ++ r).
Proof.
  intros Hw Hne. destruct Hw as [|c w Hc Hw|c w Hc Hw]; [congruence| |].
  - cbn [app]. apply skip_ws_safe, Hc.
  - reflexivity.
Qed.

Lemma skip_ws_line_end rest : line_end rest -> skip_ws 0 rest = (0%nat, rest).
Proof. intros [->|[r ->]]; reflexivity. Qed.

Theorem get0_word_q q bl w r : forallb is_blank bl = true -> units w -> w <> [] -> word_end r ->
  get0 (stq q (bl ++ w ++ r)) = Ok (mkTok tIDENT w (has_bs w) None, stq false r).
Proof.
  intros Hbl Hw Hne Hr. rewrite get0_stq by (auto using skip_ws_units).
  rewrite gl_word_any by assumption. reflexivity.
Qed.

Theorem get0_quoted_q q bl s r : forallb is_blank bl = true -> all_bytes s = true ->
  exists he, get0 (stq q (bl ++ 34 :: escapify s ++ 34 :: r))
             = Ok (mkTok tQUOTED (escapify s) he None, stq true r).
Proof.
  intros Hbl Hs. rewrite get0_stq by (auto; reflexivity).
  destruct (gl_quoted_any s r (if q then length bl else 0%nat) false Hs) as (he & E).
  rewrite E. exists he. reflexivity.
Qed.

Theorem get0_end_q q bl rest : forallb is_blank bl = true -> line_end rest ->
  exists t st, is_eol_or_eof t = true /\ is_identifier t = false /\ tesc t = false /\ ungot st = None /\
    get0 (stq q (bl ++ rest)) = Ok (t, st).
Proof.
  intros Hbl Hr. rewrite get0_stq by (auto using skip_ws_line_end).
  destruct (gl_end_any rest (if q then length bl else 0%nat) false Hr) as (t & i & H1 & H2 & H3 & E).
  rewrite E. do 2 eexists. repeat split; try eassumption. reflexivity.
Qed.

Theorem get0_end_q_len q bl rest : forallb is_blank bl = true -> line_end rest ->
  exists t st, is_eol_or_eof t = true /\ is_identifier t = false /\ tesc t = false /\ ungot st = None /\
    (length (inp st) <= length rest)%nat /\
    get0 (stq q (bl ++ rest)) = Ok (t, st).
Proof.
  intros Hbl Hr. rewrite get0_stq by (auto using skip_ws_line_end).
  destruct (gl_end_any_len rest (if q then length bl else 0%nat) false Hr) as (t & i & H1 & H2 & H3 & H4 & E).
  rewrite E. exists t, (mkSt i 0%nat false None). repeat split; try assumption.
Qed.

(* peek: a token that was read and pushed back is returned by the next get() *)
Lemma get0_unget st t st1 : get0 st = Ok (t, st1) -> ungot st1 = None ->
  (ttype t =? tWS) = false -> (ttype t =? tCOMMENT) = false ->
  exists stu, unget st1 t = Ok stu /\ get0 stu = Ok (t, st1).
Proof.
  intros _ Hu Hw Hc. unfold unget. rewrite Hu. eexists. split; [reflexivity|].
  unfold get0, get. cbn [ungot]. rewrite Hw, Hc. cbn [inp multiline quoting].
  destruct st1 as [i ml q u]. cbn in Hu. subst u. reflexivity.
Qed.
