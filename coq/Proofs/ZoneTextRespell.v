(* C09: equivalent spellings of one record line; records outside the origin. *)
From DV Require Import Base.Prelude Model.NameM Model.ZoneTextM Proofs.ZoneTextBase Proofs.ZoneTextInv.
Open Scope Z_scope.

(* ---------- a class is never a TTL ---------- *)
Lemma upper_digit c : is_digit c = true -> upper c = c.
Proof.
  unfold is_digit, upper. intros H. apply andb_true_iff in H as [H1 H2].
  apply Z.leb_le in H1, H2.
  replace (97 <=? c) with false by (symmetry; apply Z.leb_gt; lia). reflexivity.
Qed.

Lemma class_from_text_digit c r : is_digit c = true -> class_from_text (c :: r) = None.
Proof.
  intros H. pose proof (upper_digit c H) as Hu.
  unfold is_digit in H. apply andb_true_iff in H as [H1 H2]. apply Z.leb_le in H1, H2.
  unfold class_from_text, upper_l. cbn [map]. rewrite Hu.
  unfold class_names, assoc_l, sCLASS. cbn [zlist_eqb is_prefix].
  repeat match goal with
         | |- context [c =? ?k] => replace (c =? k) with false by (symmetry; apply Z.eqb_neq; lia)
         | |- context [?k =? c] => replace (k =? c) with false by (symmetry; apply Z.eqb_neq; lia)
         end.
  reflexivity.
Qed.

Lemma class_not_ttl v k : class_from_text v = Some k -> ttl_from_text v = Lib eBadTTL.
Proof.
  destruct v as [|c r]; [discriminate|].
  intros H. destruct (is_digit c) eqn:E.
  - rewrite class_from_text_digit in H by exact E. discriminate.
  - apply ttl_from_text_nondigit. exact E.
Qed.

(* ---------- TTL and class in either order ---------- *)
Lemma respell_ttl_class_order_fields c s co zo n tv cv t rest lerr :
  ttl_from_text tv = Ok t ->
  class_from_text cv = Some (c_class c) ->
  rr_fields c s co zo n (TId tv :: TId cv :: rest) lerr =
  rr_fields c s co zo n (TId cv :: TId tv :: rest) lerr.
Proof.
  intros Ht Hc. unfold rr_fields. cbn [get_ident bind].
  rewrite Ht, (class_not_ttl _ _ Hc). cbn [get_ident bind]. rewrite Hc, Z.eqb_refl. cbn [negb].
  cbn [get_ident bind]. rewrite Ht. reflexivity.
Qed.

(* the tokens after the owner field only matter through rr_fields *)
Lemma rr_line_fields_congr c s ov toks toks' lerr :
  (forall s1 co zo n, rr_fields c s1 co zo n toks lerr = rr_fields c s1 co zo n toks' lerr) ->
  rr_line c s false (TId ov :: toks) lerr = rr_line c s false (TId ov :: toks') lerr.
Proof.
  intros Hf. unfold rr_line.
  destruct (corigin s) as [co|]; [|reflexivity].
  destruct (as_name true ov (Some co) false None) as [n| |]; cbn [bind]; try reflexivity.
  destruct (lastname (set_last s n)); [|reflexivity].
  destruct (zorigin (set_last s n)); [|reflexivity].
  destruct (negb _); [reflexivity|].
  destruct (if c_rel c then _ else _); cbn [bind]; try reflexivity.
  apply Hf.
Qed.

Lemma rr_line_fields_congr_inherit c s t toks t' toks' lerr :
  (forall s1 co zo n, rr_fields c s1 co zo n (t :: toks) lerr = rr_fields c s1 co zo n (t' :: toks') lerr) ->
  rr_line c s true (t :: toks) lerr = rr_line c s true (t' :: toks') lerr.
Proof.
  intros Hf. unfold rr_line.
  destruct (corigin s) as [co|]; [|reflexivity].
  cbn [bind].
  destruct (lastname s); [|reflexivity].
  destruct (zorigin s); [|reflexivity].
  destruct (negb _); [reflexivity|].
  destruct (if c_rel c then _ else _); cbn [bind]; try reflexivity.
  apply Hf.
Qed.

(* "<owner> <ttl> <class> ..." and "<owner> <class> <ttl> ..." load alike, with an explicit or
   an inherited owner *)
Theorem respell_ttl_class_order_proof c s tv cv t rest lerr :
  ttl_from_text tv = Ok t ->
  class_from_text cv = Some (c_class c) ->
  (forall ov, rr_line c s false (TId ov :: TId tv :: TId cv :: rest) lerr =
              rr_line c s false (TId ov :: TId cv :: TId tv :: rest) lerr) /\
  rr_line c s true (TId tv :: TId cv :: rest) lerr = rr_line c s true (TId cv :: TId tv :: rest) lerr.
Proof.
  intros Ht Hc. split; [intros ov; apply rr_line_fields_congr|apply rr_line_fields_congr_inherit];
    intros; eapply respell_ttl_class_order_fields; eauto.
Qed.

(* ---------- inherited versus explicit owner ---------- *)
Lemma set_last_same s n : lastname s = Some n -> set_last s n = s.
Proof. destruct s; cbn. intros ->. reflexivity. Qed.

Theorem respell_owner_proof c s co ov n t toks lerr :
  corigin s = Some co ->
  lastname s = Some n ->
  as_name true ov (Some co) false None = Ok n ->
  rr_line c s false (TId ov :: t :: toks) lerr = rr_line c s true (t :: toks) lerr.
Proof.
  intros Hco Hl Hn. unfold rr_line. rewrite Hco, Hn. cbn [bind].
  rewrite (set_last_same _ _ Hl). reflexivity.
Qed.

(* ---------- records outside the origin ---------- *)
(* a record line whose owner is not inside the zone origin only moves `last_name` ... *)
Theorem outside_origin_line_proof c s co zo ov n toks :
  corigin s = Some co -> zorigin s = Some zo ->
  as_name true ov (Some co) false None = Ok n ->
  is_subdomain n zo = false ->
  rr_line c s false (TId ov :: toks) false = Ok (set_last s n).
Proof.
  intros Hco Hzo Hn Hs. unfold rr_line. rewrite Hco, Hn. cbn [bind].
  st_simpl. rewrite Hzo, Hs. reflexivity.
Qed.

(* ... and `last_name` is irrelevant for a following line that names its owner *)
Theorem last_name_irrelevant_proof c s m toks lerr t :
  rr_line c (set_last s m) false (t :: toks) lerr = rr_line c s false (t :: toks) lerr.
Proof.
  unfold rr_line. st_simpl.
  destruct (corigin s) as [co|]; [|reflexivity].
  destruct t as [v|v]; [|reflexivity].
  destruct (as_name true v (Some co) false None) as [n| |]; reflexivity.
Qed.

(* ---------- every name of the loaded zone comes from a name inside the origin ---------- *)
Definition in_zone (rel : bool) (zo k : name) : Prop :=
  exists nabs, is_subdomain nabs zo = true /\
               (if rel then lift_name true (relativize nabs zo) else Ok nabs) = Ok k.

Lemma zset_keys z n nd k : In k (map fst (zset z n nd)) -> In k (map fst z) \/ k = n.
Proof.
  induction z as [|[k' nd'] z IH]; cbn [zset map fst].
  - cbn. intros [H|[]]. right; symmetry; exact H.
  - destruct (name_eqb k' n); cbn [map fst In].
    + intros [H|H]; [left; left; exact H|left; right; exact H].
    + intros [H|H]; [left; left; exact H|]. destruct (IH H) as [H'|H']; [left; right; exact H'|right; exact H'].
Qed.

Lemma txn_add_keys zo rel z n ttl ty rd z' k :
  txn_add zo rel z n ttl ty rd = Ok z' -> In k (map fst z') -> In k (map fst z) \/ k = n.
Proof.
  unfold txn_add. destruct (_ && _ && _); [discriminate|].
  intros H. apply bind_ok in H as (u & _ & H). inversion H; subst; clear H.
  unfold zput. destruct (zfind z n).
  - apply zset_keys.
  - rewrite map_app, in_app_iff. cbn. intros [H|[H|[]]]; [left; exact H|right; symmetry; exact H].
Qed.

Lemma adds_in_zone rel zo z z' :
  adds rel zo z z' -> Forall (in_zone rel zo) (map fst z) -> Forall (in_zone rel zo) (map fst z').
Proof.
  induction 1 as [|z nabs n ttl ty rd z' z'' Hs Hn Ha Hr IH]; [auto|].
  intros Hz. apply IH. apply Forall_forall. intros k Hk.
  destruct (txn_add_keys _ _ _ _ _ _ _ _ _ Ha Hk) as [H|H]; [|subst k].
  - rewrite Forall_forall in Hz. auto.
  - exists nabs. auto.
Qed.

Theorem loaded_names_inside_proof c text o z :
  from_text c text = Ok (o, z) ->
  z = [] \/ exists zo, o = Some zo /\ Forall (in_zone (c_rel c) zo) (map fst z).
Proof.
  intros H. apply from_text_loaded in H as [H|(zo & Ho & Ha)]; [left; exact H|right; subst o].
  exists zo. split; [reflexivity|]. eapply adds_in_zone; eauto. constructor.
Qed.

(* the same for read_rrsets: the store is untouched, only `last_name` moves *)
Theorem rrsets_outside_origin_proof c zo s ov n toks :
  as_name true ov (Some zo) false None = Ok n ->
  is_subdomain n zo = false ->
  rrs_line c zo s false (TId ov :: toks) false =
  Ok (mkrr (Some n) (rr_lttl s) (rr_lttl_known s) (rr_dttl s) (rr_dttl_known s) (rr_store s)).
Proof.
  intros Hn Hs. unfold rrs_line. rewrite Hn. cbn [bind]. rewrite Hs. reflexivity.
Qed.
