(* C19 - clone isolation on the store-level model: for every history of store operations the
   world invariant holds, and an operation on one tree leaves the value-level abstraction of
   every other tree (original or clone) unchanged. *)
From DV Require Import Base.Prelude Model.BTreeM Model.BTreeStoreM Proofs.BTreeBase Proofs.BTreeWf Proofs.BTreeStore.

(* creators visible from tree k: k itself and every frozen tree created before it *)
Definition ancw (fr : nat -> bool) (k c : nat) : Prop := c = k \/ ((c < k)%nat /\ fr c = true).

Lemma ancw_refl fr a : ancw fr a a.
Proof. now left. Qed.

Lemma ancw_trans fr a b d : ancw fr a b -> ancw fr b d -> ancw fr a d.
Proof. unfold ancw. intros [->|(H1 & H2)] [->|(H3 & H4)]; auto. right. split; [lia|assumption]. Qed.

Definition frw (trees : list sbtree) (c : nat) : bool :=
  match nth_error trees c with Some b => sb_immut b | None => false end.

Definition visw (trees : list sbtree) := vis (ancw (frw trees)).
Definition okw (trees : list sbtree) := store_ok (ancw (frw trees)).

Definition WI (w : sworld) : Prop :=
  okw (sw_trees w) (sw_store w) /\
  forall k b, nth_error (sw_trees w) k = Some b -> sb_cr b = k /\ visw (sw_trees w) (sw_store w) k (sb_root b).

(* monotonicity in the set of frozen trees *)
Definition fr_le (fr fr' : nat -> bool) : Prop := forall c, fr c = true -> fr' c = true.

Lemma vis_mono fr fr' s k id : fr_le fr fr' -> vis (ancw fr) s k id -> vis (ancw fr') s k id.
Proof. intros Hle (n & Hn & [Ha|(Ha & Hb)]); exists n; split; auto; [now left|right; auto]. Qed.

Lemma store_ok_mono fr fr' s : fr_le fr fr' -> store_ok (ancw fr) s -> store_ok (ancw fr') s.
Proof. intros Hle Hs id n Hn. eapply Forall_impl; [|apply (Hs id n Hn)]. intros a. now apply vis_mono. Qed.

(* ---------------------------------------------------------------- abs only reads reachable nodes *)

Fixpoint reach_ne (c fuel : nat) (s : store) (id : nat) : Prop :=
  match fuel with
  | O => True
  | S f => exists n, nth_error s id = Some n /\ s_cr n <> c /\ Forall (reach_ne c f s) (s_kids n)
  end.

Lemma abs_frame c : forall fuel s s' id,
  ext c s s' -> reach_ne c fuel s id -> abs fuel s' id = abs fuel s id.
Proof.
  induction fuel as [|f IH]; intros s s' id He Hr; [reflexivity|].
  destruct Hr as (n & Hn & Hc & Hk). cbn [abs]. rewrite Hn.
  pose proof He as (_ & He'). destruct (He' id n Hn) as (Hsame & _). rewrite (Hsame Hc).
  assert (Hgo : forall ks, Forall (reach_ne c f s) ks ->
            (fix go (ks : list nat) : option (list tree) :=
               match ks with
               | [] => Some []
               | k :: r => match abs f s' k, go r with Some k', Some r' => Some (k' :: r') | _, _ => None end
               end) ks =
            (fix go (ks : list nat) : option (list tree) :=
               match ks with
               | [] => Some []
               | k :: r => match abs f s k, go r with Some k', Some r' => Some (k' :: r') | _, _ => None end
               end) ks).
  { induction ks as [|k r IHr]; intros HF; [reflexivity|]. inversion HF; subst.
    rewrite (IH s s' k) by assumption. rewrite IHr by assumption. reflexivity. }
  rewrite Hgo by assumption. reflexivity.
Qed.

Lemma vis_reach (anc : nat -> nat -> Prop) (anc_trans : forall a b d, anc a b -> anc b d -> anc a d) c s k :
  store_ok anc s -> ~ anc k c -> forall fuel id, vis anc s k id -> reach_ne c fuel s id.
Proof.
  intros Hs Hna. induction fuel as [|f IH]; intros id (n & Hn & Ha); [exact Logic.I|].
  exists n. split; [assumption|]. split.
  - intros Hc. apply Hna. now rewrite <- Hc.
  - eapply Forall_impl; [|apply (Hs id n Hn)]. intros a Hv. apply IH. eapply vis_trans; eauto.
Qed.

(* ---------------------------------------------------------------- one operation *)

(* the tree an operation is applied to *)
Definition target (x : sop) : option nat :=
  match x with
  | SNew _ _ => None
  | SIns ti _ _ _ _ => Some (Z.to_nat ti)
  | SDel ti _ _ _ => Some (Z.to_nat ti)
  | SFreeze ti => Some (Z.to_nat ti)
  | SClone _ _ => None
  | SPop ti _ | SPopFirst ti | SClear ti | SSetDefault ti _ _ => Some (Z.to_nat ti)
  end.

Lemma nth_set_nth_other {A} i j (x : A) l : i <> j -> nth_error (set_nth i x l) j = nth_error l j.
Proof. apply nth_set_nth_ne. Qed.

Lemma frw_set_same trees i b b' :
  nth_error trees i = Some b -> sb_immut b' = sb_immut b -> forall c, frw (set_nth i b' trees) c = frw trees c.
Proof.
  intros Hb Him c. unfold frw. destruct (Nat.eq_dec i c) as [<-|Hne].
  - rewrite nth_set_nth_eq by (apply nth_error_Some; congruence). now rewrite Hb.
  - now rewrite nth_set_nth_ne.
Qed.

Lemma vis_ext_fun anc anc' s k id : (forall a b, anc a b <-> anc' a b) -> vis anc s k id -> vis anc' s k id.
Proof. intros H (n & Hn & Ha). exists n. split; [assumption|now apply H]. Qed.

Lemma ancw_ext fr fr' : (forall c, fr c = fr' c) -> forall a b, ancw fr a b <-> ancw fr' a b.
Proof. intros H a b. unfold ancw. now rewrite H. Qed.

Lemma store_ok_ext_fun anc anc' s : (forall a b, anc a b <-> anc' a b) -> store_ok anc s -> store_ok anc' s.
Proof.
  intros H Hs id n Hn. eapply Forall_impl; [|apply (Hs id n Hn)]. intros a. now apply vis_ext_fun.
Qed.

(* a mutation by the (not frozen) tree i *)
Lemma mutate_isolated w i b s' b' :
  WI w -> nth_error (sw_trees w) i = Some b -> sb_immut b = false ->
  sb_immut b' = false -> sb_cr b' = i ->
  G (ancw (frw (sw_trees w))) i (sw_store w) s' ->
  visw (sw_trees w) s' i (sb_root b') ->
  WI (mkSW s' (set_nth i b' (sw_trees w))) /\
  forall k bk, k <> i -> nth_error (sw_trees w) k = Some bk ->
    nth_error (set_nth i b' (sw_trees w)) k = Some bk /\
    forall fuel, abs fuel s' (sb_root bk) = abs fuel (sw_store w) (sb_root bk).
Proof.
  intros (Hok & Htr) Hb Him Him' Hcr' (Hs' & He) Hroot.
  assert (Hfr : forall c, frw (set_nth i b' (sw_trees w)) c = frw (sw_trees w) c).
  { apply (frw_set_same _ i b b' Hb). congruence. }
  split.
  - split; cbn [sw_trees sw_store].
    + eapply store_ok_ext_fun; [|exact Hs']. intros a d. apply ancw_ext. intros c. now rewrite Hfr.
    + intros k bk Hk. destruct (Nat.eq_dec i k) as [<-|Hne].
      * rewrite nth_set_nth_eq in Hk by (apply nth_error_Some; congruence). inversion Hk; subst bk.
        split; [assumption|]. eapply vis_ext_fun; [|exact Hroot]. intros a d. apply ancw_ext. intros c. now rewrite Hfr.
      * rewrite nth_set_nth_ne in Hk by assumption. destruct (Htr k bk Hk) as (Hc & Hv). split; [assumption|].
        eapply vis_ext_fun; [|eapply vis_ext; [exact He|exact Hv]]. intros a d. apply ancw_ext. intros c. now rewrite Hfr.
  - intros k bk Hne Hk. split; [now rewrite nth_set_nth_ne by auto|].
    intros fuel. apply (abs_frame i). { exact He. }
    destruct (Htr k bk Hk) as (Hc & Hv).
    apply (vis_reach (ancw (frw (sw_trees w))) (ancw_trans _) i (sw_store w) k Hok); [|exact Hv].
    (* the mutating tree is not frozen, hence not visible from any other tree *)
    intros [Heq|(Hlt & Hf)]; [congruence|]. unfold frw in Hf. rewrite Hb in Hf. congruence.
Qed.

Lemma exec_prim_isolated w x w' o :
  WI w -> exec_prim w x = (w', o) ->
  WI w' /\
  forall k bk, target x <> Some k -> nth_error (sw_trees w) k = Some bk ->
    nth_error (sw_trees w') k = Some bk /\
    forall fuel, abs fuel (sw_store w') (sb_root bk) = abs fuel (sw_store w) (sb_root bk).
Proof.
  intros HW H. pose proof HW as (Hok & Htr). destruct x; cbn [exec_prim target] in *;
    try (inversion H; subst; split; [assumption|]; intros; split; auto; fail).
  - (* new tree *)
    unfold s_new in H. destruct (Z.to_nat t <? 3)%nat.
    { inversion H; subst. split; [assumption|]. intros; split; auto. }
    cbn [alloc] in H. unfold alloc in H. inversion H; subst w' o. clear H.
    set (c := length (sw_trees w)) in *. set (nd := mkS c true [] []).
    set (nb := mkSB (Z.to_nat t) (length (sw_store w)) c 0 false (bool_of io)).
    assert (Hfr : forall d, frw (sw_trees w ++ [nb]) d = frw (sw_trees w) d).
    { intros d. unfold frw. destruct (Nat.lt_ge_cases d (length (sw_trees w))).
      - now rewrite nth_error_app1.
      - rewrite nth_error_app2 by assumption. destruct (nth_error (sw_trees w) d) eqn:E.
        + assert (d < length (sw_trees w))%nat by (apply nth_error_Some; congruence). lia.
        + destruct (d - length (sw_trees w))%nat as [|[|]]; reflexivity. }
    destruct (alloc_ok (ancw (frw (sw_trees w))) (ancw_refl _) (ancw_trans _) c (sw_store w) nd Hok eq_refl) as (Hs1 & He1 & Ho1); [constructor|].
    split.
    + split; cbn [sw_trees sw_store].
      * eapply store_ok_ext_fun; [|exact Hs1]. intros a d. apply ancw_ext. intros e. now rewrite Hfr.
      * intros k bk Hk. destruct (Nat.lt_ge_cases k (length (sw_trees w))).
        -- rewrite nth_error_app1 in Hk by assumption. destruct (Htr k bk Hk) as (Hc & Hv). split; [assumption|].
           eapply vis_ext_fun; [|eapply vis_ext; [exact He1|exact Hv]]. intros a d. apply ancw_ext. intros e. now rewrite Hfr.
        -- rewrite nth_error_app2 in Hk by assumption.
           destruct (k - length (sw_trees w))%nat as [|[|]] eqn:Ek; cbn in Hk; try discriminate. inversion Hk; subst bk.
           assert (k = c) by (unfold c; lia). subst k. split; [reflexivity|]. cbn [sb_root].
           eapply vis_ext_fun; [|apply own_vis; [apply ancw_refl|exact Ho1]]. intros a d. apply ancw_ext. intros e. now rewrite Hfr.
    + intros k bk _ Hk. cbn [sw_trees sw_store]. split.
      * rewrite nth_error_app1; [assumption|]. apply nth_error_Some. congruence.
      * intros fuel. apply (abs_frame c). { exact He1. }
        destruct (Htr k bk Hk) as (Hc & Hv).
        apply (vis_reach (ancw (frw (sw_trees w))) (ancw_trans _) c (sw_store w) k Hok); [|exact Hv].
        assert (k < c)%nat by (unfold c; apply nth_error_Some; congruence).
        intros [Heq|(Hlt & _)]; lia.
  - (* insert *)
    unfold s_with_tree in H. destruct (nth_error (sw_trees w) (Z.to_nat ti)) as [b|] eqn:Eb.
    2:{ inversion H; subst. split; [assumption|]. intros; split; auto. }
    unfold s_mutate in H.
    destruct (s_insert_element (sw_store w) b (k, v) match io with Some x => x | None => sb_inorder b end)
      as [((s' & b') & oe)|e|e] eqn:Ei; cbn [bind] in H.
    2,3: inversion H; subst; split; [assumption|]; intros; split; auto.
    inversion H; subst w' o. clear H.
    destruct (Htr _ b Eb) as (Hcb & Hvb).
    assert (Him : sb_immut b = false).
    { unfold s_insert_element in Ei. destruct (sb_immut b); [discriminate|reflexivity]. }
    destruct (s_insert_element_ok (ancw (frw (sw_trees w))) (ancw_refl _) (ancw_trans _) (Z.to_nat ti)
                (sw_store w) b (k, v) _ s' b' oe Hok Hvb Hcb Ei) as (HG & Hown & Hcr' & Him').
    destruct (mutate_isolated w (Z.to_nat ti) b s' b' HW Eb Him Him' Hcr' HG) as (HW' & Hiso).
    { apply own_vis; [apply ancw_refl|exact Hown]. }
    split; [exact HW'|]. intros k0 bk Hne Hk. apply Hiso; [congruence|assumption].
  - (* delete *)
    unfold s_with_tree in H. destruct (nth_error (sw_trees w) (Z.to_nat ti)) as [b|] eqn:Eb.
    2:{ inversion H; subst. split; [assumption|]. intros; split; auto. }
    unfold s_mutate in H.
    destruct (s_delete (sw_store w) b k exact) as [((s' & b') & od)|e|e] eqn:Ei; cbn [bind] in H.
    2,3: inversion H; subst; split; [assumption|]; intros; split; auto.
    inversion H; subst w' o. clear H.
    destruct (Htr _ b Eb) as (Hcb & Hvb).
    assert (Him : sb_immut b = false).
    { unfold s_delete in Ei. destruct (sb_immut b); [discriminate|reflexivity]. }
    destruct (s_delete_ok (ancw (frw (sw_trees w))) (ancw_refl _) (ancw_trans _) (Z.to_nat ti)
                (sw_store w) b k exact s' b' od Hok Hvb Hcb Ei) as (HG & Hvis & Hcr' & Him').
    destruct (mutate_isolated w (Z.to_nat ti) b s' b' HW Eb Him Him' Hcr' HG Hvis) as (HW' & Hiso).
    split; [exact HW'|]. intros k0 bk Hne Hk. apply Hiso; [congruence|assumption].
  - (* freeze *)
    unfold s_with_tree in H. destruct (nth_error (sw_trees w) (Z.to_nat ti)) as [b|] eqn:Eb.
    2:{ inversion H; subst. split; [assumption|]. intros; split; auto. }
    inversion H; subst w' o. clear H. cbn [sw_trees sw_store].
    set (b' := mkSB (sb_t b) (sb_root b) (sb_cr b) (sb_size b) true (sb_inorder b)).
    assert (Hle : fr_le (frw (sw_trees w)) (frw (set_nth (Z.to_nat ti) b' (sw_trees w)))).
    { intros c Hc. unfold frw in *. destruct (Nat.eq_dec (Z.to_nat ti) c) as [<-|Hne].
      - rewrite nth_set_nth_eq by (apply nth_error_Some; congruence). reflexivity.
      - now rewrite nth_set_nth_ne. }
    split.
    + split; cbn [sw_trees sw_store].
      * eapply store_ok_mono; eassumption.
      * intros k bk Hk. destruct (Nat.eq_dec (Z.to_nat ti) k) as [<-|Hne].
        -- rewrite nth_set_nth_eq in Hk by (apply nth_error_Some; congruence). inversion Hk; subst bk.
           destruct (Htr _ b Eb) as (Hc & Hv). split; [assumption|]. eapply vis_mono; eassumption.
        -- rewrite nth_set_nth_ne in Hk by assumption. destruct (Htr k bk Hk) as (Hc & Hv). split; [assumption|].
           eapply vis_mono; eassumption.
    + intros k bk Hne Hk. split; [|reflexivity]. rewrite nth_set_nth_ne; [assumption|congruence].
  - (* clone *)
    unfold s_with_tree in H. destruct (nth_error (sw_trees w) (Z.to_nat ti)) as [b|] eqn:Eb.
    2:{ inversion H; subst. split; [assumption|]. intros; split; auto. }
    unfold s_clone in H. destruct (sb_immut b) eqn:Him.
    2:{ inversion H; subst. split; [assumption|]. intros; split; auto. }
    inversion H; subst w' o. clear H. cbn [sw_trees sw_store].
    set (c := length (sw_trees w)) in *.
    set (nb := mkSB (sb_t b) (sb_root b) c (sb_size b) false io).
    assert (Hfr : forall d, frw (sw_trees w ++ [nb]) d = frw (sw_trees w) d).
    { intros d. unfold frw. destruct (Nat.lt_ge_cases d (length (sw_trees w))).
      - now rewrite nth_error_app1.
      - rewrite nth_error_app2 by assumption. destruct (nth_error (sw_trees w) d) eqn:E.
        + assert (d < length (sw_trees w))%nat by (apply nth_error_Some; congruence). lia.
        + destruct (d - length (sw_trees w))%nat as [|[|]]; reflexivity. }
    split.
    + split; cbn [sw_trees sw_store].
      * eapply store_ok_ext_fun; [|exact Hok]. intros a d. apply ancw_ext. intros e. now rewrite Hfr.
      * intros k bk Hk. destruct (Nat.lt_ge_cases k (length (sw_trees w))).
        -- rewrite nth_error_app1 in Hk by assumption. destruct (Htr k bk Hk) as (Hc & Hv). split; [assumption|].
           eapply vis_ext_fun; [|exact Hv]. intros a d. apply ancw_ext. intros e. now rewrite Hfr.
        -- rewrite nth_error_app2 in Hk by assumption.
           destruct (k - length (sw_trees w))%nat as [|[|]] eqn:Ek; cbn in Hk; try discriminate. inversion Hk; subst bk.
           assert (k = c) by (unfold c; lia). subst k. split; [reflexivity|]. cbn [sb_root].
           (* the clone sees what the frozen original sees, and the original itself *)
           destruct (Htr _ b Eb) as (Hcb & Hvb).
           assert (Hti : (Z.to_nat ti < c)%nat) by (unfold c; apply nth_error_Some; congruence).
           assert (Hold : vis (ancw (frw (sw_trees w))) (sw_store w) c (sb_root b)).
           { eapply vis_trans; [apply ancw_trans| |exact Hvb]. right. split; [assumption|]. unfold frw. now rewrite Eb. }
           eapply vis_ext_fun; [|exact Hold]. intros a d. apply ancw_ext. intros e. now rewrite Hfr.
    + intros k bk _ Hk. split; [|reflexivity].
      rewrite nth_error_app1; [assumption|]. apply nth_error_Some. congruence.
Qed.

(* the mixin operations are compositions of primitive operations on the same tree *)
Lemma s_clear_isolated ti : forall fuel w,
  WI w ->
  WI (s_clear fuel w ti) /\
  forall k bk, Z.to_nat ti <> k -> nth_error (sw_trees w) k = Some bk ->
    nth_error (sw_trees (s_clear fuel w ti)) k = Some bk /\
    forall f, abs f (sw_store (s_clear fuel w ti)) (sb_root bk) = abs f (sw_store w) (sb_root bk).
Proof.
  induction fuel as [|fuel IH]; intros w HW; cbn [s_clear].
  { split; [assumption|]. intros; split; auto. }
  destruct (s_first w ti) as [e|]; [|split; [assumption|]; intros; split; auto].
  destruct (exec_prim w (SDel ti (fst e) None 2)) as (w1 & o1) eqn:E1. cbn [fst].
  destruct (exec_prim_isolated _ _ _ _ HW E1) as (HW1 & Hiso1). cbn [target] in Hiso1.
  destruct (IH w1 HW1) as (HW2 & Hiso2). split; [assumption|].
  intros k bk Hne Hk. destruct (Hiso1 k bk) as (Hk1 & Ha1); [congruence|assumption|].
  destruct (Hiso2 k bk Hne Hk1) as (Hk2 & Ha2). split; [assumption|]. intros f. now rewrite Ha2, Ha1.
Qed.

Theorem exec_isolated w x w' o :
  WI w -> exec w x = (w', o) ->
  WI w' /\
  forall k bk, target x <> Some k -> nth_error (sw_trees w) k = Some bk ->
    nth_error (sw_trees w') k = Some bk /\
    forall fuel, abs fuel (sw_store w') (sb_root bk) = abs fuel (sw_store w) (sb_root bk).
Proof.
  intros HW H.
  assert (Htriv : forall w0 o0, (w, o) = (w0, o0) -> WI w0 /\ forall k bk, target x <> Some k -> nth_error (sw_trees w) k = Some bk ->
             nth_error (sw_trees w0) k = Some bk /\ forall fuel, abs fuel (sw_store w0) (sb_root bk) = abs fuel (sw_store w) (sb_root bk)).
  { intros w0 o0 E. inversion E; subst. split; [assumption|]. intros; split; auto. }
  destruct x; cbn [exec] in H; try (exact (exec_prim_isolated _ _ _ _ HW H)).
  - destruct (s_lookup w ti k); [|inversion H; subst; split; [assumption|]; intros; split; auto].
    destruct (exec_prim_isolated _ _ _ _ HW H) as (HW' & Hiso). split; [assumption|]. exact Hiso.
  - destruct (s_first w ti) as [e|]; [|inversion H; subst; split; [assumption|]; intros; split; auto].
    destruct (exec_prim_isolated _ _ _ _ HW H) as (HW' & Hiso). split; [assumption|]. exact Hiso.
  - inversion H; subst w' o. destruct (s_clear_isolated ti (S (tree_size w ti)) w HW) as (HW' & Hiso).
    split; [assumption|]. intros k bk Hne Hk. apply Hiso; [|assumption]. cbn [target] in Hne. congruence.
  - destruct (s_lookup w ti k); [inversion H; subst; split; [assumption|]; intros; split; auto|].
    destruct (exec_prim_isolated _ _ _ _ HW H) as (HW' & Hiso). split; [assumption|]. exact Hiso.
Qed.

(* ---------------------------------------------------------------- all histories *)

Fixpoint execs (w : sworld) (xs : list sop) : sworld :=
  match xs with
  | [] => w
  | x :: r => execs (fst (exec w x)) r
  end.

Lemma WI_empty : WI (mkSW [] []).
Proof.
  split.
  - intros id n Hn. destruct id; discriminate.
  - intros k b Hk. destruct k; discriminate.
Qed.

Theorem WI_reachable xs : WI (execs (mkSW [] []) xs).
Proof.
  assert (forall w, WI w -> WI (execs w xs)) as H; [|apply H, WI_empty].
  induction xs as [|x r IH]; intros w Hw; [assumption|]. cbn [execs]. apply IH.
  destruct (exec w x) as (w' & o) eqn:E. cbn [fst]. now destruct (exec_isolated w x w' o Hw E).
Qed.

(* the statement exported to Props: after any history, any further operation on tree i leaves
   every other tree - its root pointer and the whole value-level tree read from the store -
   exactly as it was *)
Theorem cow_isolated_proof xs x w' o :
  let w := execs (mkSW [] []) xs in
  exec w x = (w', o) ->
  forall k bk, target x <> Some k -> nth_error (sw_trees w) k = Some bk ->
    nth_error (sw_trees w') k = Some bk /\
    forall fuel, abs fuel (sw_store w') (sb_root bk) = abs fuel (sw_store w) (sb_root bk).
Proof.
  intros w H. exact (proj2 (exec_isolated w x w' o (WI_reachable xs) H)).
Qed.
