(* C19 - basic lemmas: list primitives, key-sorted lists, search_in_node = linear search. *)
From DV Require Import Base.Prelude Model.BTreeM.
Ltac Zify.zify_post_hook ::= Z.to_euclidean_division_equations.
#[global] Arguments t_min : simpl never.
#[global] Arguments t_max : simpl never.

(* ---------------------------------------------------------------- list primitives *)

Lemma split_at_app {A} (a : list A) x b i :
  length a = i -> split_at i (a ++ x :: b) = Ok (a, x, b).
Proof.
  intros <-. unfold split_at.
  rewrite skipn_app, skipn_all, Nat.sub_diag. cbn.
  rewrite firstn_app, firstn_all, Nat.sub_diag. cbn. now rewrite app_nil_r.
Qed.

Lemma split_at_inv {A} i (l : list A) a x b :
  split_at i l = Ok (a, x, b) -> l = a ++ x :: b /\ length a = i.
Proof.
  unfold split_at. destruct (skipn i l) eqn:E; [discriminate|].
  intros H; inversion H; subst. split.
  - rewrite <- E. symmetry. apply firstn_skipn.
  - rewrite firstn_length. apply Nat.min_l.
    destruct (Nat.le_gt_cases i (length l)); [assumption|].
    rewrite skipn_all2 in E by lia. discriminate.
Qed.

Lemma split_at_ok {A} i (l : list A) :
  (i < length l)%nat -> exists a x b, split_at i l = Ok (a, x, b) /\ l = a ++ x :: b /\ length a = i.
Proof.
  intros H. unfold split_at. destruct (skipn i l) eqn:E.
  - apply (f_equal (@length A)) in E. rewrite skipn_length in E. cbn in E. lia.
  - eexists _, _, _. split; [reflexivity|]. split.
    + rewrite <- E. symmetry. apply firstn_skipn.
    + rewrite firstn_length. lia.
Qed.

Lemma split_at_err {A} i (l : list A) a x b e :
  split_at i l = Ok (a, x, b) -> Internal e <> Ok (a, x, b) .
Proof. discriminate. Qed.

Lemma pop_last_app {A} (l : list A) x : pop_last (l ++ [x]) = Ok (l, x).
Proof. unfold pop_last. rewrite rev_app_distr. cbn. now rewrite rev_involutive. Qed.

Lemma pop_last_ok {A} (l : list A) : l <> [] -> exists l' x, l = l' ++ [x] /\ pop_last l = Ok (l', x).
Proof.
  intros H. destruct (exists_last H) as (l' & x & ->). exists l', x. split; [reflexivity|apply pop_last_app].
Qed.

Lemma insert_at_app {A} (a b : list A) x i : length a = i -> insert_at i x (a ++ b) = a ++ x :: b.
Proof.
  intros <-. unfold insert_at.
  rewrite firstn_app, firstn_all, Nat.sub_diag, skipn_app, skipn_all, Nat.sub_diag. cbn.
  now rewrite app_nil_r.
Qed.

Lemma nth_error_app_mid {A} (a : list A) x b : nth_error (a ++ x :: b) (length a) = Some x.
Proof. rewrite nth_error_app2 by lia. now rewrite Nat.sub_diag. Qed.

(* ---------------------------------------------------------------- key-sorted lists *)

Definition all_lt (l : list elt) (k : Z) : Prop := Forall (fun e => fst e < k) l.
Definition all_gt (l : list elt) (k : Z) : Prop := Forall (fun e => k < fst e) l.

Fixpoint ksorted (l : list elt) : Prop :=
  match l with
  | [] => True
  | e :: r => all_gt r (fst e) /\ ksorted r
  end.

Lemma all_lt_app a b k : all_lt (a ++ b) k <-> all_lt a k /\ all_lt b k.
Proof. unfold all_lt. apply Forall_app. Qed.
Lemma all_gt_app a b k : all_gt (a ++ b) k <-> all_gt a k /\ all_gt b k.
Proof. unfold all_gt. apply Forall_app. Qed.

Lemma all_gt_weaken l k k' : k' <= k -> all_gt l k -> all_gt l k'.
Proof. intros H. unfold all_gt. apply Forall_impl. intros; lia. Qed.
Lemma all_lt_weaken l k k' : k <= k' -> all_lt l k -> all_lt l k'.
Proof. intros H. unfold all_lt. apply Forall_impl. intros; lia. Qed.

Lemma ksorted_app a b :
  ksorted (a ++ b) <-> ksorted a /\ ksorted b /\ (forall x, In x a -> all_gt b (fst x)).
Proof.
  induction a as [|e a IH]; cbn.
  - intuition.
  - rewrite IH, all_gt_app. split.
    + intros ((H1 & H2) & H3 & H4 & H5). repeat split; try assumption.
      intros x [<-|Hx]; auto.
    + intros ((H1 & H2) & H3 & H4). repeat split; auto.
Qed.

Lemma ksorted_cons_inv e r : ksorted (e :: r) -> all_gt r (fst e) /\ ksorted r.
Proof. exact (fun H => H). Qed.

(* everything after a prefix that ends below k ... *)
Lemma ksorted_mid a x b : ksorted (a ++ x :: b) -> all_lt a (fst x) /\ all_gt b (fst x) /\ ksorted a /\ ksorted b.
Proof.
  rewrite ksorted_app. cbn. intros (Ha & (Hb & Hb') & H). repeat split; auto.
  unfold all_lt. apply Forall_forall. intros y Hy. specialize (H y Hy). inversion H; subst. assumption.
Qed.

Lemma sorted_keys_iff l : sorted_keys l = true <-> ksorted l.
Proof.
  induction l as [|[k v] r IH]; cbn; [tauto|].
  destruct r as [|[k' v'] r'].
  - cbn. split; [intros _; split; [apply Forall_nil|exact Logic.I]|reflexivity].
  - rewrite andb_true_iff, IH, Z.ltb_lt. cbn. split.
    + intros (Hlt & Hg & Hs). split; [|split; assumption].
      constructor; [assumption|]. eapply all_gt_weaken; [|exact Hg]. cbn. lia.
    + intros (Hg & Hg' & Hs). inversion Hg; subst. cbn in *. tauto.
Qed.

(* ---------------------------------------------------------------- lsearch *)

Lemma lsearch_spec k es :
  ksorted es ->
  exists ea eb, es = ea ++ eb /\ length ea = fst (lsearch k es) /\ all_lt ea k /\
    (if snd (lsearch k es) then exists v eb', eb = (k, v) :: eb' /\ all_gt eb' k else all_gt eb k).
Proof.
  induction es as [|[k' v] r IH]; cbn; intros Hs.
  - exists [], []. repeat split; constructor.
  - destruct Hs as (Hg & Hs).
    destruct (Z.eqb_spec k k') as [->|Hne].
    + exists [], ((k', v) :: r). cbn. repeat split; [constructor|]. eauto.
    + destruct (Z.ltb_spec k k').
      * exists [], ((k', v) :: r). cbn. repeat split; [constructor|].
        constructor; [cbn; lia|]. eapply all_gt_weaken; [|exact Hg]. cbn. lia.
      * destruct (IH Hs) as (ea & eb & -> & Hl & Hlt & Hrest).
        destruct (lsearch k (ea ++ eb)) as [i e] eqn:E. cbn in *.
        exists ((k', v) :: ea), eb. cbn. repeat split; [congruence| |assumption].
        constructor; [cbn; lia|assumption].
Qed.

Lemma lsearch_app_lt ea eb k : all_lt ea k -> lsearch k (ea ++ eb) = ((length ea + fst (lsearch k eb))%nat, snd (lsearch k eb)).
Proof.
  induction ea as [|[k' v] ea IH]; cbn; intros H.
  - now destruct (lsearch k eb).
  - inversion H; subst. cbn in *. destruct (Z.eqb_spec k k'); [lia|]. destruct (Z.ltb_spec k k'); [lia|].
    rewrite IH by assumption. reflexivity.
Qed.

Lemma lsearch_gt eb k : all_gt eb k -> lsearch k eb = (0%nat, false).
Proof.
  destruct eb as [|[k' v] r]; cbn; [reflexivity|]. intros H. inversion H; subst. cbn in *.
  destruct (Z.eqb_spec k k'); [lia|]. destruct (Z.ltb_spec k k'); [reflexivity|lia].
Qed.

Lemma lsearch_hit ea eb k v : all_lt ea k -> lsearch k (ea ++ (k, v) :: eb) = (length ea, true).
Proof.
  intros H. rewrite lsearch_app_lt by assumption. cbn. rewrite Z.eqb_refl. cbn. f_equal. lia.
Qed.

Lemma lsearch_miss ea eb k : all_lt ea k -> all_gt eb k -> lsearch k (ea ++ eb) = (length ea, false).
Proof.
  intros H1 H2. rewrite lsearch_app_lt, lsearch_gt by assumption. cbn. f_equal. lia.
Qed.

(* position of the m-th key relative to the search result *)
Lemma lsearch_nth k es m k' v :
  ksorted es -> nth_error es m = Some (k', v) ->
  let j := fst (lsearch k es) in let e := snd (lsearch k es) in
  ((m < j)%nat -> k' < k) /\ (m = j -> e = true -> k' = k) /\ (m = j -> e = false -> k < k') /\ ((j < m)%nat -> k < k')
  /\ (j <= length es)%nat /\ (e = true -> (j < length es)%nat).
Proof.
  intros Hs Hn. destruct (lsearch_spec k es Hs) as (ea & eb & -> & Hl & Hlt & Hrest).
  destruct (lsearch k (ea ++ eb)) as [j e]. cbn in *. subst j.
  assert (Hlen : (length ea <= length (ea ++ eb))%nat) by (rewrite app_length; lia).
  repeat split.
  - intros Hm. rewrite nth_error_app1 in Hn by assumption.
    apply nth_error_In in Hn. unfold all_lt in Hlt. rewrite Forall_forall in Hlt. apply (Hlt _ Hn).
  - intros -> ->. destruct Hrest as (v' & eb' & -> & _). rewrite nth_error_app_mid in Hn. congruence.
  - intros -> ->. rewrite nth_error_app2, Nat.sub_diag in Hn by lia.
    destruct eb; [discriminate|]. cbn in Hn. inversion Hn; subst. inversion Hrest; subst. assumption.
  - intros Hm. rewrite nth_error_app2 in Hn by lia.
    destruct e.
    + destruct Hrest as (v' & eb' & -> & Hg).
      destruct (m - length ea)%nat eqn:Ed; [lia|]. cbn in Hn. apply nth_error_In in Hn.
      unfold all_gt in Hg. rewrite Forall_forall in Hg. apply (Hg _ Hn).
    + apply nth_error_In in Hn. unfold all_gt in Hrest. rewrite Forall_forall in Hrest. apply (Hrest _ Hn).
  - assumption.
  - intros ->. destruct Hrest as (v' & eb' & -> & _). rewrite app_length. cbn. lia.
Qed.

Lemma bs_spec fuel : forall k es l i,
  ksorted es ->
  let j := fst (lsearch k es) in let e := snd (lsearch k es) in
  (l <= j <= i)%nat -> (i <= length es)%nat -> (e = true -> (j < i)%nat) -> (i - l < fuel)%nat ->
  bs fuel k es l i = Ok (j, e).
Proof.
  induction fuel as [|f IH]; intros k es l i Hs j e Hj Hi He Hf; [lia|].
  cbn [bs]. destruct (Nat.ltb_spec l i) as [Hli|Hli].
  - set (m := ((l + (i - 1)) / 2)%nat).
    assert (Hm : (l <= m < i)%nat) by (subst m; split; [apply Nat.div_le_lower_bound; lia|apply Nat.div_lt_upper_bound; lia]).
    destruct (nth_error es m) as [[k' v]|] eqn:En.
    2:{ apply nth_error_None in En. lia. }
    pose proof (lsearch_nth k es m k' v Hs En) as (H1 & H2 & H3 & H4 & H5 & H6). fold j e in H1, H2, H3, H4, H5, H6.
    destruct (Z.eqb_spec k k') as [Heq|Hne].
    + assert (m = j) by (destruct (Nat.lt_trichotomy m j) as [?|[?|?]]; [specialize (H1 H); lia|assumption|specialize (H4 H); lia]).
      subst m. destruct e eqn:Ee; [now rewrite H|]. specialize (H3 H eq_refl). lia.
    + destruct (Z.ltb_spec k k') as [Hlt|Hge].
      * assert (j <= m)%nat by (destruct (Nat.le_gt_cases j m); [assumption|specialize (H1 H); lia]).
        apply IH; try assumption; try lia;
        fold j e; intros Ee; destruct (Nat.eq_dec j m) as [Hjm|]; try lia; symmetry in Hjm; specialize (H2 Hjm Ee); lia.
      * assert (m < j)%nat.
        { destruct (Nat.lt_trichotomy m j) as [?|[?|?]]; [assumption| |specialize (H4 H); lia].
          destruct e eqn:Ee; [specialize (H2 H eq_refl); lia|specialize (H3 H eq_refl); lia]. }
        apply IH; try assumption; fold j e; try lia.
  - assert (j = i) by lia. destruct e eqn:Ee; [specialize (He eq_refl); lia|]. now subst.
Qed.

Theorem search_lsearch k es : ksorted es -> search k es = Ok (lsearch k es).
Proof.
  intros Hs. unfold search. destruct (length es) as [|n'] eqn:El.
  - destruct es; [|discriminate]. reflexivity.
  - destruct (nth_error es n') as [[kl v]|] eqn:En.
    2:{ apply nth_error_None in En. lia. }
    pose proof (lsearch_nth k es n' kl v Hs En) as (H1 & H2 & H3 & H4 & H5 & H6).
    destruct (lsearch k es) as [j e] eqn:E. cbn [fst snd] in *.
    destruct (Z.ltb_spec kl k) as [Hlt|Hge].
    + assert (n' < j)%nat.
      { destruct (Nat.lt_trichotomy n' j) as [?|[?|?]]; [assumption| |specialize (H4 H); lia].
        destruct e; [specialize (H2 H eq_refl); lia|specialize (H3 H eq_refl); lia]. }
      assert (j = S n') by lia. destruct e; [specialize (H6 eq_refl); lia|]. now subst.
    + rewrite <- El. replace (j, e) with (fst (lsearch k es), snd (lsearch k es)) by now rewrite E.
      apply bs_spec; rewrite ?E; cbn [fst snd]; try assumption; try lia.
Qed.

(* the two forms in which the proofs consume a search *)
Lemma search_hit ea eb k v : ksorted (ea ++ (k, v) :: eb) -> search k (ea ++ (k, v) :: eb) = Ok (length ea, true).
Proof.
  intros Hs. rewrite search_lsearch by assumption. f_equal. apply lsearch_hit.
  apply ksorted_mid in Hs. tauto.
Qed.

Lemma search_miss ea eb k : ksorted (ea ++ eb) -> all_lt ea k -> all_gt eb k -> search k (ea ++ eb) = Ok (length ea, false).
Proof. intros Hs H1 H2. rewrite search_lsearch by assumption. f_equal. now apply lsearch_miss. Qed.

(* case analysis on a search in a sorted list *)
Lemma search_cases k es :
  ksorted es ->
  (exists ea v eb, es = ea ++ (k, v) :: eb /\ search k es = Ok (length ea, true) /\ all_lt ea k /\ all_gt eb k)
  \/ (exists ea eb, es = ea ++ eb /\ search k es = Ok (length ea, false) /\ all_lt ea k /\ all_gt eb k).
Proof.
  intros Hs. destruct (lsearch_spec k es Hs) as (ea & eb & -> & Hl & Hlt & Hrest).
  destruct (snd (lsearch k (ea ++ eb))) eqn:E.
  - destruct Hrest as (v & eb' & -> & Hg). left. exists ea, v, eb'. repeat split; try assumption.
    now apply search_hit.
  - right. exists ea, eb. repeat split; try assumption. now apply search_miss.
Qed.

(* ---------------------------------------------------------------- reference list operations *)

Lemma ins_sorted_mid a c b e :
  all_lt a (fst e) -> all_gt b (fst e) -> c <> [] \/ b = [] \/ True ->
  ins_sorted e (a ++ c ++ b) = a ++ ins_sorted e (c ++ b).
Proof.
  intros Ha _ _. induction a as [|[k v] a IH]; cbn; [reflexivity|].
  inversion Ha; subst. cbn in *. destruct (Z.eqb_spec (fst e) k); [lia|]. destruct (Z.ltb_spec (fst e) k); [lia|].
  now rewrite IH.
Qed.

Lemma ins_sorted_lt a l e : all_lt a (fst e) -> ins_sorted e (a ++ l) = a ++ ins_sorted e l.
Proof.
  intros Ha. induction a as [|[k v] a IH]; cbn; [reflexivity|].
  inversion Ha; subst. cbn in *. destruct (Z.eqb_spec (fst e) k); [lia|]. destruct (Z.ltb_spec (fst e) k); [lia|].
  now rewrite IH.
Qed.

Lemma ins_sorted_gt b e : all_gt b (fst e) -> ins_sorted e b = e :: b.
Proof.
  destruct b as [|[k v] b]; cbn; [reflexivity|]. intros H; inversion H; subst. cbn in *.
  destruct (Z.eqb_spec (fst e) k); [lia|]. destruct (Z.ltb_spec (fst e) k); [reflexivity|lia].
Qed.

Lemma ins_sorted_hit v b e : ins_sorted e ((fst e, v) :: b) = e :: b.
Proof. cbn. now rewrite Z.eqb_refl. Qed.

(* inserting into the middle part of a sorted list *)
Lemma ins_sorted_in_mid a c b e :
  all_lt a (fst e) -> all_gt b (fst e) -> ksorted (c ++ b) ->
  ins_sorted e (a ++ c ++ b) = a ++ ins_sorted e c ++ b.
Proof.
  intros Ha Hb Hs. rewrite ins_sorted_lt by assumption. f_equal.
  clear Ha. induction c as [|[k v] c IH]; cbn.
  - now apply ins_sorted_gt.
  - cbn in Hs. destruct Hs as (Hg & Hs).
    destruct (Z.eqb_spec (fst e) k); [reflexivity|]. destruct (Z.ltb_spec (fst e) k); [reflexivity|].
    cbn. now rewrite IH.
Qed.

Lemma find_sorted_lt a l k : all_lt a k -> find_sorted k (a ++ l) = find_sorted k l.
Proof.
  intros Ha. induction a as [|[k' v] a IH]; cbn; [reflexivity|]. inversion Ha; subst. cbn in *.
  destruct (Z.eqb_spec k k'); [lia|]. auto.
Qed.

Lemma find_sorted_gt b k : all_gt b k -> find_sorted k b = None.
Proof.
  induction b as [|[k' v] b IH]; cbn; [reflexivity|]. intros H; inversion H; subst. cbn in *.
  destruct (Z.eqb_spec k k'); [lia|]. auto.
Qed.

Lemma find_sorted_app_gt c b k : all_gt b k -> find_sorted k (c ++ b) = find_sorted k c.
Proof.
  intros Hb. induction c as [|[k' v] c IH]; cbn; [now apply find_sorted_gt|].
  destruct (Z.eqb_spec k k'); auto.
Qed.

Lemma find_sorted_in_mid a c b k : all_lt a k -> all_gt b k -> find_sorted k (a ++ c ++ b) = find_sorted k c.
Proof. intros. rewrite find_sorted_lt by assumption. now apply find_sorted_app_gt. Qed.

Lemma del_sorted_lt a l k : all_lt a k -> del_sorted k (a ++ l) = a ++ del_sorted k l.
Proof.
  intros Ha. induction a as [|[k' v] a IH]; cbn; [reflexivity|]. inversion Ha; subst. cbn in *.
  destruct (Z.eqb_spec k k'); [lia|]. now rewrite IH.
Qed.

Lemma del_sorted_gt b k : all_gt b k -> del_sorted k b = b.
Proof.
  induction b as [|[k' v] b IH]; cbn; [reflexivity|]. intros H; inversion H; subst. cbn in *.
  destruct (Z.eqb_spec k k'); [lia|]. now rewrite IH.
Qed.

Lemma del_sorted_app_gt c b k : all_gt b k -> del_sorted k (c ++ b) = del_sorted k c ++ b.
Proof.
  intros Hb. induction c as [|[k' v] c IH]; cbn; [now apply del_sorted_gt|].
  destruct (Z.eqb_spec k k'); [reflexivity|]. cbn. now rewrite IH.
Qed.

Lemma del_sorted_in_mid a c b k : all_lt a k -> all_gt b k -> del_sorted k (a ++ c ++ b) = a ++ del_sorted k c ++ b.
Proof. intros. rewrite del_sorted_lt by assumption. f_equal. now apply del_sorted_app_gt. Qed.

Lemma del_sorted_hit v b k : del_sorted k ((k, v) :: b) = b.
Proof. cbn. now rewrite Z.eqb_refl. Qed.
