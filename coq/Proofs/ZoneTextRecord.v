(* C09: one printed record line is read back as the record it prints. *)
From DV Require Import Base.Prelude Model.NameM Model.ZoneTextM Proofs.ZoneTextBase Proofs.ZoneTextInv
  Proofs.ZoneTextRespell Proofs.ZoneTextRead Proofs.ZoneTextLex Proofs.ZoneTextLines.
Open Scope Z_scope.

Lemma id_clean_starts v r : id_clean v = true -> starts_ws (v ++ r) = false.
Proof.
  destruct v as [|c v]; [discriminate|]. unfold id_clean. cbn [id_clean_go app starts_ws].
  destruct (c =? 92) eqn:E.
  - apply Z.eqb_eq in E. subst. reflexivity.
  - intros H. apply andb_true_iff in H as [H _]. apply negb_true_iff in H.
    unfold is_delim in H. repeat (apply orb_false_iff in H as [H ?]).
    repeat match goal with HH : (c =? _) = false |- _ => rewrite HH; clear HH end. reflexivity.
Qed.

Lemma digits_clean_go v : all_digits v = true -> id_clean_go v false = true.
Proof.
  induction v as [|c v IH]; [reflexivity|]. unfold all_digits. cbn [forallb id_clean_go].
  intros H. apply andb_true_iff in H as [Hc Hv].
  unfold is_digit in Hc. apply andb_true_iff in Hc as [H1 H2]. apply Z.leb_le in H1, H2.
  replace (c =? 92) with false by (symmetry; apply Z.eqb_neq; lia).
  unfold is_delim.
  repeat match goal with |- context [c =? ?k] => replace (c =? k) with false by (symmetry; apply Z.eqb_neq; lia) end.
  cbn [orb negb andb]. apply IH. exact Hv.
Qed.

Lemma digits_clean v : all_digits v = true -> v <> [] -> id_clean v = true.
Proof. intros H Hn. destruct v; [congruence|]. unfold id_clean. apply digits_clean_go. exact H. Qed.

Definition not_dollar (v : list Z) : Prop := match v with 36 :: _ => False | _ => True end.

Lemma process_line_record c s v r lerr :
  not_dollar v -> process_line c s false (TId v :: r) lerr = rr_line c s false (TId v :: r) lerr.
Proof.
  unfold process_line, not_dollar. cbn [tokval]. intros H.
  destruct v as [|c0 v']; [reflexivity|].
  destruct c0 as [|p|p]; try reflexivity.
  repeat (destruct p as [p|p|]; try reflexivity). contradiction.
Qed.

(* the blank owner field of a de-duplicated line *)
Definition bpieces (nj : Z) : list piece :=
  if nj =? 0 then [Sp 4] else [Sp (4 + Z.to_nat (- nj - 4))].

Lemma render_bpieces nj : nj <= 0 -> render (bpieces nj) = justify blank4 nj.
Proof.
  intros H. unfold bpieces, justify, blank4, spaces.
  destruct (Z.eqb_spec nj 0) as [E|E]; [reflexivity|].
  replace (nj <? 0) with true by (symmetry; apply Z.ltb_lt; lia).
  cbn [render app]. rewrite app_nil_r. unfold zlen. cbn [length Z.of_nat].
  rewrite repeat_app. reflexivity.
Qed.

Section Record.
  Variable c : cfg.
  Variable st : style.
  Variable zo : name.

  (* the style keeps every piece of information, and is in the modelled (non-generic) fragment *)
  Definition lossless : Prop :=
    st_first_dup st = false /\ st_omit_ttl st = false /\ st_generic st = false /\
    st_name_just st <= 0 /\ st_omit_dot st = false /\
    (forall d, st_default_ttl st = Some d -> 0 <= d <= MAX_TTL).

  (* the printed owner field parses back (C01's round trip, for this name) *)
  Definition owner_ok (n : name) (v : list Z) (nabs : name) : Prop :=
    name_text (st_origin st) (st_relativize st) false n = Ok v /\
    id_clean v = true /\ not_dollar v /\
    as_name true v (Some zo) false None = Ok nabs /\
    is_subdomain nabs zo = true /\
    (if c_rel c then lift_name true (relativize nabs zo) else Ok nabs) = Ok n.

  (* the printed rdata parses back (C05's round trip, for this record) *)
  Definition rdata_ok (ty : Z) (rd : rdata) (toks : list tok) : Prop :=
    rdata_text ty (st_origin st) (st_relativize st) false rd = Ok (join_sp (map render_tok toks)) /\
    forallb tok_clean toks = true /\
    parse_rdata ty toks false zo (c_rel c) zo = Ok rd.

  Definition type_ok (ty : Z) : Prop :=
    type_text_ok (type_to_text ty) ty /\ id_clean (type_to_text ty) = true.

  Definition class_ok : Prop :=
    class_from_text (class_to_text (c_class c)) = Some (c_class c) /\
    id_clean (class_to_text (c_class c)) = true.

  (* reader state while the records are read *)
  Definition st_inv (s : rstate) : Prop :=
    corigin s = Some zo /\ zorigin s = Some zo /\
    (forall d, st_default_ttl st = Some d -> dttl_known s = true /\ dttl s = d).

  Definition explicit_ttl (ttl : Z) : bool :=
    negb (match st_default_ttl st with Some d => ttl =? d | None => false end).

  Definition ttl_field (ttl : Z) : list Z :=
    justify (if st_omit_ttl st || (match st_default_ttl st with Some d => ttl =? d | None => false end)
             then [] else dec ttl ++ [32]) (st_ttl_just st).
  Definition class_field : list Z :=
    justify (if st_omit_class st then []
             else if st_generic st then sCLASS ++ dec (c_class c) ++ [32]
             else class_to_text (c_class c) ++ [32]) (st_class_just st).
  Definition type_field (ty : Z) : list Z :=
    justify (if st_generic st then sTYPE ++ dec ty else type_to_text ty) (st_type_just st).

  Definition owner_field (ownt : option (list Z)) : list Z :=
    match ownt with
    | Some v => justify (v ++ [32]) (st_name_just st)
    | None => justify blank4 (st_name_just st)
    end.

  Definition next_state (s : rstate) (nabs : name) (ttl ty : Z) (rd : rdata) (z' : zone) : rstate :=
    set_zn (after_soa (after_ttl (set_last s nabs) (explicit_ttl ttl) ttl) ty rd) z'.

  Lemma next_state_origins s nabs ttl ty rd z' :
    corigin (next_state s nabs ttl ty rd z') = corigin s /\
    zorigin (next_state s nabs ttl ty rd z') = zorigin s.
  Proof.
    unfold next_state, after_soa, after_ttl.
    destruct (explicit_ttl ttl); st_simpl;
      destruct (negb _ && _); st_simpl; try (split; reflexivity);
      destruct (nth_error rd 6) as [[| |m| |]|]; split; reflexivity.
  Qed.

  Lemma next_state_dttl s nabs ttl ty rd z' :
    dttl_known s = true ->
    dttl_known (next_state s nabs ttl ty rd z') = true /\
    dttl (next_state s nabs ttl ty rd z') = dttl s.
  Proof.
    intros Hk. unfold next_state, after_soa, after_ttl.
    destruct (explicit_ttl ttl); st_simpl; rewrite Hk; cbn [negb andb]; st_simpl; split; auto.
  Qed.

  Lemma next_state_inv s nabs ttl ty rd z' : st_inv s -> st_inv (next_state s nabs ttl ty rd z').
  Proof.
    intros (Hc & Hz & Hd). unfold st_inv.
    destruct (next_state_origins s nabs ttl ty rd z') as [-> ->].
    split; [exact Hc|]. split; [exact Hz|].
    intros d Hdd. destruct (Hd d Hdd) as [Hk Hv].
    destruct (next_state_dttl s nabs ttl ty rd z' Hk) as [-> ->]. auto.
  Qed.

  Lemma next_state_zn s nabs ttl ty rd z' : zn (next_state s nabs ttl ty rd z') = z'.
  Proof. reflexivity. Qed.

  Lemma next_state_last s nabs ttl ty rd z' : lastname (next_state s nabs ttl ty rd z') = Some nabs.
  Proof.
    unfold next_state, after_soa, after_ttl.
    destruct (explicit_ttl ttl); st_simpl;
      destruct (negb _ && _); st_simpl; try reflexivity;
      destruct (nth_error rd 6) as [[| |m| |]|]; reflexivity.
  Qed.

  Lemma zn_pre s nabs ttl ty rd :
    zn (after_soa (after_ttl (set_last s nabs) (explicit_ttl ttl) ttl) ty rd) = zn s.
  Proof.
    unfold after_soa, after_ttl.
    destruct (explicit_ttl ttl); st_simpl;
      destruct (negb _ && _); st_simpl; try reflexivity;
      destruct (nth_error rd 6) as [[| |m| |]|]; reflexivity.
  Qed.

  (* one record line *)
  Lemma record_line_reads s n nabs (ownt : option (list Z)) ttl ty rd toks z' :
    lossless -> class_ok -> st_inv s ->
    match ownt with
    | Some v => owner_ok n v nabs
    | None => lastname s = Some nabs /\ is_subdomain nabs zo = true /\
              (if c_rel c then lift_name true (relativize nabs zo) else Ok nabs) = Ok n
    end ->
    0 <= ttl <= MAX_TTL -> type_ok ty -> rdata_ok ty rd toks ->
    txn_add zo (c_rel c) (zn s) n ttl ty rd = Ok z' ->
    line_reads c s
      (owner_field ownt ++ ttl_field ttl ++ class_field ++ type_field ty ++
       32 :: join_sp (map render_tok toks))
      (next_state s nabs ttl ty rd z').
  Proof.
    intros (Hfd & Hot & Hg & Hnj & Hod & Hdr) (Hcl & Hclc) (Hco & Hzo & Hd) Hown Httl (Hty & Htyc) (Hrt & Hrc & Hrp) Hadd.
    set (explicit := explicit_ttl ttl).
    set (ttlo := if explicit then Some (dec ttl) else None).
    set (clso := if st_omit_class st then None else Some (class_to_text (c_class c))).
    set (Pn := match ownt with Some v => jpieces (Some v) (st_name_just st) | None => bpieces (st_name_just st) end).
    set (ps := Pn ++ jpieces ttlo (st_ttl_just st) ++ jpieces clso (st_class_just st) ++
               typieces (type_to_text ty) (st_type_just st) ++ interleave toks).
    assert (Hrender : owner_field ownt ++ ttl_field ttl ++ class_field ++ type_field ty ++
                      32 :: join_sp (map render_tok toks) = render ps).
    { unfold ps. rewrite !render_app, render_interleave.
      rewrite render_typieces. unfold type_field. rewrite Hg.
      f_equal; [|f_equal; [|f_equal]].
      - unfold owner_field, Pn. destruct ownt; [rewrite render_jpieces; reflexivity|rewrite render_bpieces by exact Hnj; reflexivity].
      - unfold ttl_field, ttlo, explicit, explicit_ttl. rewrite render_jpieces, Hot. cbn [orb].
        destruct (match st_default_ttl st with Some d => ttl =? d | None => false end); reflexivity.
      - unfold class_field, clso. rewrite render_jpieces, Hg.
        destruct (st_omit_class st); reflexivity. }
    rewrite Hrender.
    assert (Hdec : id_clean (dec ttl) = true).
    { destruct (dec_spec ttl ltac:(lia)) as (Ha & _ & Hne). apply digits_clean; assumption. }
    assert (Hex : if explicit then 0 <= ttl <= MAX_TTL else dttl_known s = true /\ dttl s = ttl).
    { unfold explicit, explicit_ttl. destruct (st_default_ttl st) as [d|] eqn:Ed; cbn [negb]; [|exact Httl].
      destruct (Z.eqb_spec ttl d) as [E|E]; cbn [negb]; [|exact Httl]. subst d. exact (Hd ttl eq_refl). }
    assert (Hcls : forall ct, clso = Some ct -> class_from_text ct = Some (c_class c)).
    { unfold clso. destruct (st_omit_class st); intros ct Hct; inversion Hct; subst. exact Hcl. }
    destruct (typieces_ok (type_to_text ty) (st_type_just st) Htyc) as (Hts & Hte & Htt).
    assert (Hj1 : sep_ok (jpieces ttlo (st_ttl_just st)) = true /\ ends_ok (jpieces ttlo (st_ttl_just st)) = true).
    { apply jpieces_ok. unfold ttlo. destruct explicit; intros v Hv; inversion Hv; subst. exact Hdec. }
    assert (Hj2 : sep_ok (jpieces clso (st_class_just st)) = true /\ ends_ok (jpieces clso (st_class_just st)) = true).
    { apply jpieces_ok. unfold clso. destruct (st_omit_class st); intros v Hv; inversion Hv; subst. exact Hclc. }
    assert (HPn : sep_ok Pn = true /\ ends_ok Pn = true).
    { unfold Pn. destruct ownt as [v|].
      - apply jpieces_ok. intros v' Hv'. inversion Hv'; subst. destruct Hown as (_ & Hv & _). exact Hv.
      - unfold bpieces. destruct (st_name_just st =? 0); split; reflexivity. }
    assert (Hsep : sep_ok ps = true).
    { unfold ps. apply sep_ok_app; [apply HPn|apply HPn|].
      apply sep_ok_app; [apply Hj1|apply Hj1|].
      apply sep_ok_app; [apply Hj2|apply Hj2|].
      apply sep_ok_app; [exact Hts|exact Hte|]. apply sep_interleave. exact Hrc. }
    assert (Htoks : toks_of ps = opt_tok ownt ++ opt_tok ttlo ++ opt_tok clso ++ TId (type_to_text ty) :: toks).
    { assert (HP : toks_of Pn = opt_tok ownt).
      { unfold Pn. destruct ownt; [rewrite toks_jpieces; reflexivity|]. unfold bpieces.
        destruct (st_name_just st =? 0); reflexivity. }
      unfold ps. rewrite !toks_of_app, HP, !toks_jpieces, Htt, toks_interleave.
      destruct ttlo; destruct clso; reflexivity. }
    apply line_reads_pieces; [exact Hsep|]. rewrite Htoks. unfold ttlo.
    pose proof (rr_line_printed c s zo zo nabs n ownt explicit ttl clso (type_to_text ty) ty toks rd Hco Hzo) as HR.
    destruct ownt as [v|].
    - destruct Hown as (Hnt & Hvc & Hnd & Han & Hsub & Hrel).
      assert (Hlead : starts_ws (render ps ++ [10]) = false).
      { unfold ps, Pn, jpieces.
        destruct (Z.eqb_spec (st_name_just st) 0); [|destruct (Z.ltb_spec (st_name_just st) 0); [|lia]];
          cbn [app render render_tok]; rewrite <- !app_assoc; apply id_clean_starts; exact Hvc. }
      rewrite Hlead. cbn [opt_tok app]. rewrite process_line_record by exact Hnd.
      cbn [opt_tok app] in HR. rewrite (HR Han Hsub Hrel Hex Hcls Hty Hrp).
      cbv zeta. unfold explicit. rewrite zn_pre, Hadd. reflexivity.
    - destruct Hown as (Hln & Hsub & Hrel).
      assert (Hlead : starts_ws (render ps ++ [10]) = true).
      { unfold ps, Pn, bpieces. destruct (st_name_just st =? 0); reflexivity. }
      rewrite Hlead. unfold process_line. cbn [opt_tok app] in *.
      rewrite (HR Hln Hsub Hrel Hex Hcls Hty Hrp).
      cbv zeta. unfold explicit. rewrite zn_pre, Hadd. reflexivity.
  Qed.
End Record.
