(* C19 - refinement, continued: minimum, element replacement, deletion.  The one ghost check of the
   store model (the child found again after rebalancing must be owned) is discharged here: under
   the B-tree invariant the re-search lands on the child that has grown, which balance has copied. *)
From DV Require Import Base.Prelude Model.BTreeM Model.BTreeStoreM Proofs.BTreeBase Proofs.BTreeWf Proofs.BTreeInsert
  Proofs.BTreeDelete Proofs.BTreeStore Proofs.BTreeRefine Proofs.BTreeRefine2.

Section SIM3.
Variable c : nat.
Variable t : nat.
Hypothesis Ht : (3 <= t)%nat.
Notation own := (ownc c).
Notation wfn := (wfn t).

Lemma minimum_sim s : forall fuel h lo n id fp e,
  wfn lo h n -> (h <= fuel)%nat -> rep s id n fp -> minimum n = Ok e -> s_minimum fuel s id = Ok e.
Proof.
  induction fuel as [|f IH]; intros h lo n id fp e Hw Hf Hr Hv.
  { pose proof (wfn_pos t Ht _ _ _ Hw). lia. }
  destruct n as [lf es ks]. cbn [minimum] in Hv. cbn [s_minimum].
  apply rep_inv in Hr as (nn & fps & Hnn & Hl & He & Hks & -> & Hnd & Hlk).
  rewrite (sget_some _ _ _ Hnn). cbn [bind]. rewrite Hl, He. destruct lf; [exact Hv|].
  destruct ks as [|k ks']; [discriminate|]. apply reps_cons_inv in Hks as (kid & kids' & fk & fps' & -> & -> & Hrk & _).
  apply wfn_inv in Hw as (_ & [(? & _)|(_ & h' & -> & _ & Hall)]); [discriminate|]. inversion Hall; subst.
  eapply (IH h'); eauto. lia.
Qed.

Lemma replace_key_sim key e s : forall fuel id n fp n' old,
  rep s id n fp -> own s id -> replace_key fuel n key e = Ok (n', old) ->
  exists s' fp', s_replace_key fuel s id key e = Ok (s', old) /\
     rep s' id n' fp' /\ sub s fp fp' /\ fr s s' fp /\ own s' id.
Proof.
  intros fuel. revert s. induction fuel as [|f IH]; intros s id n fp n' old Hr Hop Hv; [discriminate|].
  destruct n as [lf es ks]. cbn [replace_key] in Hv. cbn [s_replace_key].
  destruct (rep_root _ _ _ _ _ _ Hr) as (nn & Hnn & Hl & He).
  rewrite (sget_some _ _ _ Hnn). cbn [bind]. rewrite He.
  destruct (search key es) as [(i & eq)| |]; cbn [bind] in Hv |- *; try discriminate.
  destruct eq.
  { destruct (split_at i es) as [((a & o) & b)| |]; cbn [bind] in Hv |- *; try discriminate.
    inversion Hv; subst n' old. destruct (write_elts_sim c s id lf es ks fp nn (a ++ e :: b) Hr Hnn Hop) as (H1 & H2 & H3).
    eexists _, fp. split; [reflexivity|]. split; [assumption|]. split; [apply sub_refl|]. auto. }
  rewrite Hl. destruct lf; [discriminate|].
  destruct (split_at i ks) as [((ka & child) & kb)| |] eqn:Esp; cbn [bind] in Hv; try discriminate.
  apply split_at_inv in Esp as (-> & Hka). subst i.
  destruct (cow_child_ok _ _ _ _ _ _ _ _ _ Hr eq_refl) as (s1 & cid & Ecow). rewrite Ecow. cbn [bind].
  destruct (cow_child_sim _ _ _ _ _ _ _ _ _ _ _ _ Hr eq_refl Hop Ecow)
    as (n1 & ia & ib & fa & fc & fb & Hn1 & Hcn1 & Hln1 & Hen1 & Hkn1 & Hra & Hrc & Hrb & Hlia & Hnd1 & Hoc & Hfr1 & Hsub1 & _).
  assert (Hopen1 : opened c s1 id es ia cid ib ka child kb fa fc fb).
  { exists n1. repeat split; try assumption; try congruence. }
  assert (Hfr1' : fr s s1 fp) by (eapply fr_weaken; [exact Hfr1|]; intros x [<-|[]]; eapply rep_root_in; eauto).
  destruct (replace_key f child key e) as [(c' & old')| |] eqn:Erec; cbn [bind] in Hv; try discriminate.
  inversion Hv; subst n' old.
  destruct (IH s1 cid child fc c' old' Hrc Hoc Erec) as (s2 & fc' & Hs2 & Hrc' & Hsubc & Hfrc & Hoc').
  rewrite Hs2.
  destruct (child_step _ _ _ _ _ _ _ _ _ _ _ _ _ _ _ _ Hopen1 Hrc' Hfrc Hsubc) as (Hopen2 & Hsub12).
  destruct (opened_close _ _ _ _ _ _ _ _ _ _ _ _ _ Hopen2) as (Hr2 & Hop2).
  assert (Hfr12 : fr s1 s2 (id :: concat (fa ++ fc :: fb))).
  { eapply fr_weaken; [exact Hfrc|]. intros x Hx. right. rewrite concat_mid, !in_app_iff. tauto. }
  destruct (fr_step _ _ _ _ _ _ Hfr1' Hsub1 Hfr12 Hsub12). exists s2, (id :: concat (fa ++ fc' :: fb)). auto.
Qed.

(* ---------------------------------------------------------------- the recursive step of delete *)

Definition drec_sim (rec : tree -> Z -> option Z -> res (tree * dout))
    (srec : store -> nat -> Z -> option Z -> res (store * dout)) (h : nat) : Prop :=
  forall s cid ck fc key exact ck' o,
    wfn (t_min t) h ck -> (t_min t < length (n_elts ck))%nat -> ksorted (elements ck) ->
    rep s cid ck fc -> own s cid -> rec ck key exact = Ok (ck', o) ->
    exists s' fc', srec s cid key exact = Ok (s', o) /\ rep s' cid ck' fc' /\ sub s fc fc' /\ fr s s' fc /\ own s' cid.

Lemma del_down_sim rec srec lo h key exact ea eb ka ck kb s id fp n' o :
  drec_sim rec srec h ->
  length ka = length ea -> length kb = length eb ->
  wfn lo (S h) (Node false (ea ++ eb) (ka ++ ck :: kb)) ->
  (1 <= length (ea ++ eb))%nat ->
  ksorted (elements (Node false (ea ++ eb) (ka ++ ck :: kb))) ->
  all_lt ea key -> all_gt eb key ->
  rep s id (Node false (ea ++ eb) (ka ++ ck :: kb)) fp -> own s id ->
  del_down t rec (Node false (ea ++ eb) (ka ++ ck :: kb)) key (length ka) exact = Ok (n', o) ->
  exists s' fp', s_del_down t srec s id key (length ka) exact = Ok (s', o) /\
     rep s' id n' fp' /\ sub s fp fp' /\ fr s s' fp /\ own s' id.
Proof.
  intros Hrec H1 H2 Hw Hne Hs Hlt Hgt Hr Hop Hv.
  pose proof Hw as Hw0.
  apply wfn_inv in Hw as (Hb & [(? & _)|(_ & h' & Hh & Hk & Hall)]); [discriminate|].
  inversion Hh; subst h'. apply Forall_mid in Hall as (Hka & Hcw & Hkb).
  unfold del_down in Hv. cbn [n_kids] in Hv. rewrite split_at_app in Hv by reflexivity. cbn [bind] in Hv.
  rewrite is_minimal_eq in Hv.
  unfold s_del_down.
  destruct (cow_child_ok _ _ _ _ _ _ _ _ _ Hr eq_refl) as (s1 & cid & Ecow). rewrite Ecow. cbn [bind].
  destruct (cow_child_sim _ _ _ _ _ _ _ _ _ _ _ _ Hr eq_refl Hop Ecow)
    as (n1 & ia & ib & fa & fc & fb & Hn1 & Hcn1 & Hln1 & Hen1 & Hkn1 & Hra & Hrc & Hrb & Hlia & Hnd1 & Hoc & Hfr1 & Hsub1 & _).
  assert (Hopen1 : opened c s1 id (ea ++ eb) ia cid ib ka ck kb fa fc fb).
  { exists n1. repeat split; try assumption; try congruence. }
  assert (Hfr1' : fr s s1 fp) by (eapply fr_weaken; [exact Hfr1|]; intros x [<-|[]]; eapply rep_root_in; eauto).
  destruct (opened_close _ _ _ _ _ _ _ _ _ _ _ _ _ Hopen1) as (Hr1 & Hop1).
  destruct ck as [clf ces cks]. destruct (rep_root _ _ _ _ _ _ Hrc) as (cn & Hcnn & Hcl & Hce).
  rewrite (sget_some _ _ _ Hcnn). cbn [bind]. rewrite Hce. cbn [n_elts] in Hv.
  destruct (is_minimal_l t (length ces)) as [mn| |] eqn:Emn; cbn [bind] in Hv |- *; try discriminate.
  assert (Hmn : mn = (length ces =? t_min t)%nat).
  { pose proof (is_minimal_ok t Ht _ _ Hcw) as Hq. rewrite is_minimal_eq in Hq. cbn [n_elts] in Hq. congruence. }
  destruct mn.
  - (* the child is minimal: rebalance first *)
    symmetry in Hmn. apply Nat.eqb_eq in Hmn.
    destruct (balance t (Node false (ea ++ eb) (ka ++ Node clf ces cks :: kb)) (length ka)) as [nb| |] eqn:Ebal; cbn [bind] in Hv; try discriminate.
    destruct (balance_spec t Ht lo h key ea eb ka (Node clf ces cks) kb H1 H2 Hw0 Hne Hmn Hs Hlt Hgt)
      as (ea1 & eb1 & ka1 & c1 & kb1 & Hbal & H1' & H2' & Hlt1 & Hgt1 & Hw1 & He1 & Hc1 & Hidx).
    rewrite Hbal in Ebal. inversion Ebal; subst nb. clear Ebal.
    assert (Hs1 : ksorted (elements (Node false (ea1 ++ eb1) (ka1 ++ c1 :: kb1)))) by now rewrite He1.
    pose proof (node_es_sorted t Ht _ _ _ Hw1 Hs1) as Hes1. cbn [n_elts] in Hes1, Hv.
    rewrite search_miss in Hv by assumption. cbn [bind] in Hv.
    rewrite <- H1' in Hv. rewrite split_at_app in Hv by reflexivity. cbn [bind] in Hv.
    assert (Hkid1 : kid_at s1 id (length ka) cid).
    { exists n1. split; [assumption|]. rewrite Hkn1, <- Hlia. apply nth_error_app_mid. }
    destruct (balance_sim c t s1 id _ _ cid (length ka) _ Hr1 Hop1 Hoc Hkid1 Hbal)
      as (s2 & fp2 & Hs2 & Hr2 & Hsub2 & Hfr2 & Hop2 & gid & Hkg & Hog).
    rewrite Hs2. cbn [bind]. rewrite <- Hidx in Hkg.
    destruct (rep_open _ _ _ _ _ _ _ _ _ Hr2 Hop2) as (ia2 & cid2 & ib2 & fa2 & fc2 & fb2 & Hopen2 & -> & _).
    pose proof Hopen2 as (n2 & Hn2 & Hcn2 & Hln2 & Hen2 & Hkn2 & Hra2 & Hrc2 & Hrb2 & Hlia2 & Hnd2).
    rewrite (sget_some _ _ _ Hn2). cbn [bind]. rewrite Hen2. rewrite search_miss by assumption. cbn [bind].
    rewrite Hkn2. rewrite <- H1', <- Hlia2. rewrite split_at_app by reflexivity. cbn [bind].
    assert (gid = cid2).
    { destruct Hkg as (m & Hm & Hkm). assert (m = n2) by congruence. subst m. rewrite Hkn2, <- Hlia2, nth_error_app_mid in Hkm. congruence. }
    subst gid.
    destruct c1 as [c1lf c1es c1ks]. destruct (rep_root _ _ _ _ _ _ Hrc2) as (c2 & Hc2 & Hc2l & Hc2e).
    rewrite (sget_some _ _ _ Hc2). cbn [bind].
    assert (Hcr2 : s_cr c2 = s_cr n2).
    { destruct Hog as (m & Hm & Hcm). assert (m = c2) by congruence. subst m. congruence. }
    rewrite Hcr2, Nat.eqb_refl. cbn [negb]. rewrite Hc2e.
    rewrite is_minimal_eq in Hv. cbn [n_elts] in Hv, Hc1.
    destruct (is_minimal_l t (length c1es)) as [mn1| |]; cbn [bind] in Hv |- *; try discriminate.
    destruct mn1; try discriminate.
    destruct (rec (Node c1lf c1es c1ks) key exact) as [(c' & o')| |] eqn:Erec; cbn [bind] in Hv; try discriminate.
    inversion Hv; subst n' o. clear Hv.
    (* facts about the child the deletion continues in *)
    apply wfn_inv in Hw1 as Hw1i. destruct Hw1i as (_ & [(? & _)|(_ & h' & Hh' & _ & Hall1)]); [discriminate|].
    inversion Hh'; subst h'. apply Forall_mid in Hall1 as (_ & Hcw1 & _).
    destruct (kid_sorted ea1 eb1 ka1 _ kb1 H1' H2' Hs1) as (Hcs1 & _).
    destruct (Hrec s2 cid2 _ fc2 key exact c' o' Hcw1 Hc1 Hcs1 Hrc2 Hog Erec) as (s3 & fc3 & Hs3 & Hrc3 & Hsubc & Hfrc & Hoc3).
    cbn [bind]. rewrite Hs3.
    destruct (child_step _ _ _ _ _ _ _ _ _ _ _ _ _ _ _ _ Hopen2 Hrc3 Hfrc Hsubc) as (Hopen3 & Hsub23).
    destruct (opened_close _ _ _ _ _ _ _ _ _ _ _ _ _ Hopen3) as (Hr3 & Hop3).
    assert (Hfr23 : fr s2 s3 (id :: concat (fa2 ++ fc2 :: fb2))).
    { eapply fr_weaken; [exact Hfrc|]. intros x Hx. right. rewrite concat_mid, !in_app_iff. tauto. }
    destruct (fr_step _ _ _ _ _ _ Hfr1' Hsub1 Hfr2 Hsub2) as (Hfr02 & Hsub02).
    destruct (fr_step _ _ _ _ _ _ Hfr02 Hsub02 Hfr23 Hsub23) as (Hfr03 & Hsub03).
    exists s3, (id :: concat (fa2 ++ fc3 :: fb2)). auto.
  - (* the child has room *)
    cbn [bind]. cbn [bind] in Hv. rewrite split_at_app in Hv by reflexivity. cbn [bind] in Hv.
    destruct (rec (Node clf ces cks) key exact) as [(c' & o')| |] eqn:Erec; cbn [bind] in Hv; try discriminate.
    inversion Hv; subst n' o. clear Hv.
    symmetry in Hmn. apply Nat.eqb_neq in Hmn.
    pose proof (wfn_len t Ht _ _ _ Hcw) as Hcl2. cbn [n_elts] in Hcl2.
    destruct (kid_sorted ea eb ka _ kb H1 H2 Hs) as (Hcs & _).
    destruct (Hrec s1 cid _ fc key exact c' o' Hcw ltac:(cbn; lia) Hcs Hrc Hoc Erec) as (s2 & fc2 & Hs2 & Hrc2 & Hsubc & Hfrc & Hoc2).
    rewrite Hs2.
    destruct (child_step _ _ _ _ _ _ _ _ _ _ _ _ _ _ _ _ Hopen1 Hrc2 Hfrc Hsubc) as (Hopen2 & Hsub12).
    destruct (opened_close _ _ _ _ _ _ _ _ _ _ _ _ _ Hopen2) as (Hr2 & Hop2).
    assert (Hfr12 : fr s1 s2 (id :: concat (fa ++ fc :: fb))).
    { eapply fr_weaken; [exact Hfrc|]. intros x Hx. right. rewrite concat_mid, !in_app_iff. tauto. }
    destruct (fr_step _ _ _ _ _ _ Hfr1' Hsub1 Hfr12 Hsub12). exists s2, (id :: concat (fa ++ fc2 :: fb)). auto.
Qed.

(* ---------------------------------------------------------------- _Node.delete *)

Lemma del_sim : forall fuel h, (h <= fuel)%nat -> forall (isroot : bool) n key exact s id fp n' o,
  wfn (if isroot then root_lo n else t_min t) h n ->
  (isroot = false -> (t_min t < length (n_elts n))%nat) ->
  ksorted (elements n) ->
  rep s id n fp -> own s id ->
  del t fuel isroot n key exact = Ok (n', o) ->
  exists s' fp', s_del t fuel isroot s id key exact = Ok (s', o) /\
     rep s' id n' fp' /\ sub s fp fp' /\ fr s s' fp /\ own s' id.
Proof.
  induction fuel as [|f IH]; intros h Hf isroot n key exact s id fp n' o Hw Hnm Hs Hr Hop Hv.
  { pose proof (wfn_pos t Ht _ _ _ Hw). lia. }
  pose proof (node_es_sorted t Ht _ _ _ Hw Hs) as Hes.
  pose proof (wfn_len t Ht _ _ _ Hw) as Hlen.
  destruct n as [lf es ks]. cbn [n_elts] in *. cbn [del] in Hv. cbn [s_del].
  destruct (rep_root _ _ _ _ _ _ Hr) as (sn & Hsn & Hsl & Hse).
  rewrite (sget_some _ _ _ Hsn). cbn [bind]. rewrite Hse, Hsl.
  assert (Hmn : (if isroot then Ok false else is_minimal t (Node lf es ks)) = Ok false).
  { destruct isroot; [reflexivity|]. specialize (Hnm eq_refl). unfold is_minimal. cbn [n_elts].
    destruct (Nat.ltb_spec (length es) (t_min t)); [lia|]. destruct (Nat.eqb_spec (length es) (t_min t)); [lia|reflexivity]. }
  rewrite Hmn in Hv. cbn [bind] in Hv.
  assert (Hmn' : (if isroot then Ok false else is_minimal_l t (length es)) = Ok false).
  { destruct isroot; [reflexivity|]. rewrite is_minimal_eq in Hmn. exact Hmn. }
  rewrite Hmn'. cbn [bind].
  assert (Hrec : forall h', h = S h' -> drec_sim (fun c k ex => del t f false c k ex) (fun s c k ex => s_del t f false s c k ex) h').
  { intros h' -> s0 cid ck fc k ex ck' o0 Hc Hcl Hcs Hrc Hoc Hd.
    apply (IH h' ltac:(lia) false ck k ex s0 cid fc ck' o0); auto. }
  assert (Hne : lf = false -> (1 <= length es)%nat).
  { intros ->. unfold root_lo in Hlen. cbn [n_leaf] in Hlen. destruct isroot; [cbn in Hlen; lia|]. specialize (Hnm eq_refl). lia. }
  cbn zeta in Hv. cbn zeta.
  destruct (search_cases key es Hes) as [(ea & v & eb & -> & Hsr & Hlt & Hgt)|(ea & eb & -> & Hsr & Hlt & Hgt)];
    rewrite Hsr in Hv |- *; cbn [bind] in Hv |- *.
  - (* the key is in this node *)
    rewrite split_at_app in Hv |- * by reflexivity. cbn [bind] in Hv |- *.
    destruct (exact_mismatch exact (key, v)).
    { inversion Hv; subst n' o. exists s, fp. split; [reflexivity|]. split; [assumption|]. split; [apply sub_refl|]. split; [apply fr_refl|assumption]. }
    pose proof Hw as Hw0.
    apply wfn_inv in Hw as (Hb & [(-> & -> & ->)|(-> & h' & -> & Hk & Hall)]).
    + (* leaf *)
      inversion Hv; subst n' o.
      destruct (write_elts_sim c s id true _ [] fp sn (ea ++ eb) Hr Hsn Hop) as (Hr' & Hfr' & Hop').
      eexists _, fp. split; [reflexivity|]. split; [exact Hr'|]. split; [apply sub_refl|]. auto.
    + (* internal: replace by the least successor *)
      destruct (node_decomp2 (ea ++ (key, v) :: eb) ks (length ea) Hk) as (ea' & pe & eb' & ka & cl & cr & kb & He & -> & H1 & H2 & H3).
      { rewrite app_length. cbn. lia. }
      destruct (app_eq_len _ _ _ _ He H1) as (-> & Hq). inversion Hq; subst pe eb'. clear Hq He H1.
      apply Forall_mid in Hall as (Hka & Hclw & Hkb). inversion Hkb; subst. rename H1 into Hcrw. rename H4 into Hkb'.
      assert (Eks : ka ++ cl :: cr :: kb = (ka ++ [cl]) ++ cr :: kb) by (now rewrite <- app_assoc).
      assert (Ees : ea ++ (key, v) :: eb = (ea ++ [(key, v)]) ++ eb) by (now rewrite <- app_assoc).
      assert (Hi : S (length ea) = length (ka ++ [cl])) by (rewrite app_length; cbn; lia).
      rewrite Eks, Ees, Hi in *.
      destruct (rep_open c _ _ _ _ _ _ _ _ Hr Hop) as (ia & cid & ib & fa & fc & fb & Hopen & -> & _).
      pose proof Hopen as (n0 & Hn0 & Hcn0 & Hln0 & Hen0 & Hkn0 & Hra0 & Hrc0 & Hrb0 & Hlia0 & Hnd0).
      assert (n0 = sn) by congruence. subst n0.
      rewrite Hkn0. rewrite <- Hlia0. rewrite split_at_app by reflexivity. rewrite Hlia0.
      rewrite split_at_app in Hv by reflexivity. cbn [bind] in Hv |- *.
      assert (Hm : (1 <= t_min t)%nat) by (unfold t_min; lia).
      destruct (minimum_spec t Ht h' _ cr Hcrw Hm) as (succ & rest & Hmin & Hcr). rewrite Hmin in Hv. cbn [bind] in Hv.
      rewrite (minimum_sim s (S f) h' _ cr cid fc succ Hcrw ltac:(lia) Hrc0 Hmin). cbn [bind].
      assert (H2' : length (ka ++ [cl]) = length (ea ++ [(key, v)])) by (rewrite !app_length; cbn; lia).
      destruct (kid_sorted _ _ _ _ _ H2' H3 Hs) as (_ & _ & _ & _ & Hbound).
      assert (Hsin : In succ (elements cr)) by (rewrite Hcr; now left).
      destruct (Hbound succ Hsin) as (Hslt & Hsgt).
      assert (Hne1 : (1 <= length ((ea ++ [(key, v)]) ++ eb))%nat) by (rewrite !app_length; cbn; lia).
      destruct (del_down t (fun c0 k ex => del t f false c0 k ex) (Node false ((ea ++ [(key, v)]) ++ eb) ((ka ++ [cl]) ++ cr :: kb))
                  (fst succ) (length (ka ++ [cl])) None) as [(n1 & o1)| |] eqn:Ed; cbn [bind] in Hv; try discriminate.
      destruct (del_down_sim _ _ _ h' (fst succ) None _ _ _ cr kb s id _ n1 o1 (Hrec h' eq_refl) H2' H3 Hw0 Hne1 Hs Hslt Hsgt Hr Hop Ed)
        as (s1 & fp1 & Hs1 & Hr1 & Hsub1 & Hfr1 & Hop1).
      rewrite Hs1. cbn [bind].
      destruct o1; try discriminate.
      destruct (replace_key (S f) n1 key e) as [(n2 & old)| |] eqn:Erk; cbn [bind] in Hv; try discriminate.
      inversion Hv; subst n' o.
      destruct (replace_key_sim key e s1 (S f) id n1 fp1 n2 old Hr1 Hop1 Erk) as (s2 & fp2 & Hs2 & Hr2 & Hsub2 & Hfr2 & Hop2).
      rewrite Hs2. cbn [bind].
      destruct (fr_step _ _ _ _ _ _ Hfr1 Hsub1 Hfr2 Hsub2).
      exists s2, fp2. auto.
  - (* the key is not in this node *)
    pose proof Hw as Hw0.
    apply wfn_inv in Hw as (Hb & [(-> & -> & ->)|(-> & h' & -> & Hk & Hall)]).
    + inversion Hv; subst n' o. exists s, fp. split; [reflexivity|]. split; [assumption|]. split; [apply sub_refl|]. split; [apply fr_refl|assumption].
    + destruct (node_decomp1 (ea ++ eb) ks (length ea) Hk) as (ea' & eb' & ka & ck & kb & He & -> & H1 & H2 & H3).
      { rewrite app_length. lia. }
      destruct (app_eq_len _ _ _ _ He H1) as (-> & ->).
      rewrite <- H2 in Hv |- *.
      apply (del_down_sim _ _ _ h' key exact ea eb ka ck kb s id fp n' o (Hrec h' eq_refl) H2 H3 Hw0 (Hne eq_refl) Hs Hlt Hgt Hr Hop Hv).
Qed.

End SIM3.
