(* NID / L64: the 64-bit value as four groups of four hexadecimal digits joined by ":" - the text is kept
   verbatim by the record and only validated (parse_formatted_hex); a validated text is one tokenizer
   word, and the text built from 8 octets by the constructors is valid. *)
From DV Require Import Base.Prelude Model.NameM Model.TokM Model.RdTextM.
From DV Require Import Proofs.TokEsc Proofs.TokWords Proofs.TokHex.
Open Scope Z_scope.

Ltac Zify.zify_post_hook ::= Z.to_euclidean_division_equations.

Lemma hexdigit_char_safe c : is_hexdigit c = true -> safe c = true.
Proof.
  unfold is_hexdigit. intros H. unfold safe, is_delim.
  replace (c =? 32) with false by lia. replace (c =? 9) with false by lia.
  replace (c =? 10) with false by lia. replace (c =? 59) with false by lia.
  replace (c =? 40) with false by lia. replace (c =? 41) with false by lia.
  replace (c =? 34) with false by lia. replace (c =? 92) with false by lia. reflexivity.
Qed.

Lemma colon_safe : safe 58 = true.
Proof. reflexivity. Qed.

Lemma hexdigit_is_hex v : 0 <= v < 16 -> is_hexdigit (hexdigit v) = true.
Proof. intros Hv. unfold is_hexdigit, hexdigit. destruct (v <? 10) eqn:E; lia. Qed.

Theorem fmthex_word t : fmthex_ok t = true -> forallb safe t = true /\ t <> [].
Proof.
  unfold fmthex_ok. intros H. apply andb_true_iff in H as [HL H]. apply Nat.eqb_eq in HL.
  do 19 (destruct t as [|? t]; [discriminate|]). destruct t; [|discriminate]. split; [|discriminate].
  cbn [pfh_loop firstn skipn is_nil forallb orb] in H.
  repeat match type of H with
         | (if ?b then _ else _) = true => let E := fresh "E" in destruct b eqn:E; try discriminate
         end.
  repeat match goal with
         | E : negb _ = false |- _ => apply negb_false_iff in E
         | E : (_ && _) = true |- _ => apply andb_true_iff in E; destruct E
         | E : (_ =? 58) = true |- _ => apply Z.eqb_eq in E; subst
         end.
  cbn [forallb].
  repeat match goal with
         | E : is_hexdigit ?c = true |- _ => rewrite (hexdigit_char_safe c E); clear E
         end.
  reflexivity.
Qed.

Theorem fmthex_of_bytes_ok b : all_bytes b = true -> length b = 8%nat -> fmthex_ok (fmthex_of_bytes b) = true.
Proof.
  intros Hb HL. do 8 (destruct b as [|? b]; [discriminate|]). destruct b; [|discriminate].
  cbn [all_bytes forallb] in Hb.
  repeat match type of Hb with (_ && _) = true => apply andb_true_iff in Hb; destruct Hb as [? Hb] end.
  repeat match goal with E : is_byte _ = true |- _ => apply is_byte_range in E end.
  unfold fmthex_of_bytes, wordbreak, hexlify. change (4 <=? 0) with false. cbv iota. change (Z.to_nat 4) with 4%nat.
  cbn [flat_map app length chunks_fuel firstn skipn join_sep].
  unfold fmthex_ok. cbn [length Nat.eqb andb pfh_loop firstn skipn is_nil forallb orb].
  rewrite !hexdigit_is_hex by lia. cbn [andb negb]. change (58 =? 58) with true. cbv iota. reflexivity.
Qed.
