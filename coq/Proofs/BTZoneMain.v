(* C20, layer D7: transactions and histories; the theorems incremental_eq_spec and
   iteration_canonical. *)
From DV Require Import Base.Prelude Model.NameM Model.BTZoneM
     Proofs.BTZoneOrder Proofs.BTZoneList Proofs.BTZoneSpec Proofs.BTZoneWalk Proofs.BTZoneInv
     Proofs.BTZoneMaster Proofs.BTZoneOps Proofs.BTZoneOps2 Proofs.BTZoneOps3 Proofs.BTZoneOps4.
Open Scope Z_scope.

Lemma Inv_changed_irrel : forall c l d ch ch', Inv c (mkVer l d ch) -> Inv c (mkVer l d ch').
Proof. intros c l d ch ch' [A B C D E F]. constructor; auto. Qed.

(* ---------- names handed to a transaction ---------- *)
Definition name_ok (c : cfg) (n : name) : Prop :=
  forall n', validate_name c n = Ok n' -> validk c (K n').

Definition top_name (o : top) : name :=
  match o with
  | TAdd n _ _ | TReplace n _ _ | TDelName n | TDelType n _ | TDelRdatas n _ _ => n
  end.

Definition vop_valid (c : cfg) (o : vop) : Prop :=
  match o with
  | VPut n _ _ | VDelRds n _ | VDelNode n => validk c (K n)
  end.

(* ---------- version-level steps ---------- *)
Theorem vstep_inv : forall c v o,
    Inv c v -> vop_valid c o -> exists v', vstep c v o = Ok v' /\ Inv c v'.
Proof.
  intros c v [n t x|n t|n] HI Hv; cbn [vstep vop_valid] in *.
  - eexists. split; [reflexivity|]. apply put_inv; auto.
  - apply delete_rdataset_inv; auto.
  - apply delete_node_inv; auto.
Qed.

Theorem vsteps_inv : forall c os v,
    Inv c v -> Forall (vop_valid c) os -> exists v', vsteps c v os = Ok v' /\ Inv c v'.
Proof.
  induction os as [|o os IH]; intros v HI Hv; cbn [vsteps].
  - eauto.
  - inversion Hv; subst. destruct (vstep_inv c v o HI H1) as (v1 & E1 & HI1). rewrite E1. cbn [bind].
    apply IH; auto.
Qed.

Lemma dispatch_valid : forall c v o os,
    name_ok c (top_name o) -> dispatch c v o = Ok os -> Forall (vop_valid c) os.
Proof.
  intros c v o os Hok H. destruct o as [n t x|n t x|n|n t|n t x]; cbn [dispatch top_name] in *;
    destruct (validate_name c n) as [n'|e|e] eqn:Ev; cbn [bind] in H; try discriminate;
    specialize (Hok n' Ev).
  - destruct (get_rdataset v n' t); inversion H; subst; repeat constructor; auto.
  - inversion H; subst; repeat constructor; auto.
  - inversion H; subst; repeat constructor; auto.
  - destruct (get_rdataset v n' t); inversion H; subst; repeat constructor; auto.
  - destruct x as [|x0 x].
    + inversion H; subst; repeat constructor; auto.
    + destruct (get_rdataset v n' t) as [ex|]; [|inversion H; subst; constructor].
      destruct (ids_diff ex (x0 :: x)); inversion H; subst; repeat constructor; auto.
Qed.

Theorem tstep_inv : forall c v o v',
    Inv c v -> name_ok c (top_name o) -> tstep c v o = Ok v' -> Inv c v'.
Proof.
  intros c v o v' HI Hok H. unfold tstep in H. destruct (dispatch c v o) as [os|e|e] eqn:Ed; cbn [bind] in H;
    try discriminate.
  destruct (vsteps_inv c os v HI (dispatch_valid c v o os Hok Ed)) as (v1 & E1 & HI1). congruence.
Qed.

(* the KeyError of `del self.nodes[name]` is unreachable: a step fails only in name validation *)
Theorem tstep_fails_only_in_validation : forall c v o,
    Inv c v -> name_ok c (top_name o) ->
    (exists v', tstep c v o = Ok v') \/
    (forall n', validate_name c (top_name o) <> Ok n').
Proof.
  intros c v o HI Hok. unfold tstep. destruct (dispatch c v o) as [os|e|e] eqn:Ed; cbn [bind].
  - left. destruct (vsteps_inv c os v HI (dispatch_valid c v o os Hok Ed)) as (v1 & E1 & _). eauto.
  - right. intros n' Hn. destruct o; cbn [dispatch top_name] in *; rewrite Hn in Ed; cbn [bind] in Ed;
      repeat match type of Ed with context [match ?x with _ => _ end] => destruct x end; discriminate.
  - right. intros n' Hn. destruct o; cbn [dispatch top_name] in *; rewrite Hn in Ed; cbn [bind] in Ed;
      repeat match type of Ed with context [match ?x with _ => _ end] => destruct x end; discriminate.
Qed.

Theorem run_ops_inv : forall c os v,
    Inv c v -> Forall (fun o => name_ok c (top_name o)) os -> Inv c (fst (run_ops c v os)).
Proof.
  induction os as [|o os IH]; intros v HI Hok; cbn [run_ops]; auto.
  inversion Hok; subst. destruct (tstep c v o) as [v'|e|e] eqn:Et.
  - specialize (IH v' (tstep_inv c v o v' HI H1 Et) H2). destruct (run_ops c v' os). exact IH.
  - specialize (IH v HI H2). destruct (run_ops c v os). exact IH.
  - specialize (IH v HI H2). destruct (run_ops c v os). exact IH.
Qed.

(* ---------- commit: keys are re-spelled ---------- *)
Definition respell (l l' : nodes_t) : Prop :=
  (forall k' x, In (k', x) l' -> exists k, K k = K k' /\ In (k, x) l) /\
  (forall k x, In (k, x) l -> exists k', K k' = K k /\ In (k', x) l').

Lemma respell_refl : forall l, respell l l.
Proof. intros l. split; intros k x H; exists k; auto. Qed.

Lemma respell_trans : forall a b d, respell a b -> respell b d -> respell a d.
Proof.
  intros a b d [A1 A2] [B1 B2]. split.
  - intros k' x H. apply B1 in H as (k1 & E1 & H). apply A1 in H as (k2 & E2 & H). exists k2. split; congruence.
  - intros k x H. apply A2 in H as (k1 & E1 & H). apply B2 in H as (k2 & E2 & H). exists k2. split; congruence.
Qed.

Lemma respell_set : forall (l : nodes_t) n nd, sorted l -> al_get n l = Some nd -> respell l (al_set n nd l).
Proof.
  intros l n nd S G. apply al_get_some in G as (n0 & Hin & E). split.
  - intros k' x H. apply al_set_in in H as [H|[H _]]; auto.
    + inversion H; subst. exists n0. auto.
    + exists k'. auto.
  - intros k x H. destruct (key_eq_dec (K k) (K n)) as [Ek|Ek].
    + assert ((k, x) = (n0, nd)) by (eapply sorted_functional; eauto; congruence). inversion H0; subst.
      exists n. split; auto. apply al_set_in; auto.
    + exists k. split; auto. apply al_set_in; auto.
Qed.

Lemma freeze_respell : forall ch (l : nodes_t), sorted l -> sorted (freeze_nodes l ch) /\ respell l (freeze_nodes l ch).
Proof.
  induction ch as [|n ch IH]; intros l S; cbn [freeze_nodes fold_left].
  - split; auto. apply respell_refl.
  - destruct (al_get n l) as [nd|] eqn:G.
    + destruct (IH (al_set n nd l) (al_set_sorted _ _ _ S)) as [A B]. split; auto.
      eapply respell_trans; [apply respell_set; eauto|exact B].
    + apply IH; auto.
Qed.

Lemma respell_owner : forall c l l', respell l l' -> forall k, owner c l' k <-> owner c l k.
Proof.
  intros c l l' [R1 R2] k. unfold owner. split.
  - intros (m & nd & Hin & Hns & E). apply R1 in Hin as (m0 & E0 & Hin). exists m0, nd.
    repeat split; auto; [|congruence]. unfold ns_owner in *. cbn [fst snd] in *.
    rewrite (is_apex_ext c m0 m); auto.
  - intros (m & nd & Hin & Hns & E). apply R2 in Hin as (m0 & E0 & Hin). exists m0, nd.
    repeat split; auto; [|congruence]. unfold ns_owner in *. cbn [fst snd] in *.
    rewrite (is_apex_ext c m0 m); auto.
Qed.

Lemma respell_inv : forall c l d ch l' ch',
    Inv c (mkVer l d ch) -> sorted l' -> respell l l' -> Inv c (mkVer l' d ch').
Proof.
  intros c l d ch l' ch' HI S' R. pose proof (respell_owner c l l' R) as Hown.
  assert (Hocc : forall m, occluded c l' m = occluded c l m) by (intros; apply occluded_owner_ext; auto).
  destruct R as [R1 R2].
  constructor; cbn [v_nodes v_delegs]; auto.
  - apply (inv_sd c _ HI).
  - intros k Hk. apply keys_in in Hk as (k' & x & Hin & <-). apply R1 in Hin as (k0 & E & Hin).
    rewrite <- E. apply (inv_v c _ HI). eapply in_keys; eauto.
  - intros k' x Hin. apply R1 in Hin as (k0 & E & Hin). apply (inv_nd c _ HI k0 x Hin).
  - intros k' x Hin. apply R1 in Hin as (k0 & E & Hin). rewrite flags_of_eq, Hocc.
    rewrite (inv_flags c _ HI k0 x Hin). cbn [v_nodes].
    rewrite (is_apex_ext c k0 k'), (occluded_ext c l k0 k') by auto. reflexivity.
  - intros y. rewrite (inv_d c _ HI). cbn [v_nodes]. rewrite Hown. unfold occk.
    split; intros [H1 H2]; split; auto; intros (o & Ho & Hs); apply H2; exists o; split; auto; apply Hown; auto.
Qed.

(* ---------- transactions and histories ---------- *)
Definition ZInv (c : cfg) (z : zone) : Prop := Inv c (mkVer (z_nodes z) (z_delegs z) []).

Lemma Inv_empty : forall c ch, Inv c (mkVer [] [] ch).
Proof.
  intros. constructor; cbn [v_nodes v_delegs]; try exact Logic.I; try (intros; contradiction).
  intros k. split; [intros []|]. intros [(m & nd & [] & _) _].
Qed.

Definition txn_ok (c : cfg) (t : txn) : Prop := Forall (fun o => name_ok c (top_name o)) (t_ops t).

Theorem run_txn_inv : forall c z t, ZInv c z -> txn_ok c t -> ZInv c (fst (run_txn c z t)).
Proof.
  intros c z t HZ Hok. unfold run_txn.
  assert (HI0 : Inv c (begin_txn z (t_repl t))).
  { unfold begin_txn. destruct (t_repl t); [apply Inv_empty|exact HZ]. }
  pose proof (run_ops_inv c (t_ops t) _ HI0 Hok) as HI.
  destruct (run_ops c (begin_txn z (t_repl t)) (t_ops t)) as [v rs]. cbn [fst] in *.
  unfold end_txn. destruct (t_commit t); auto. destruct v as [l d ch]. cbn [v_changed v_nodes v_delegs].
  destruct ch as [|n0 ch]; auto. unfold ZInv. cbn [z_nodes z_delegs].
  destruct (freeze_respell (n0 :: ch) l (inv_sn c _ HI)) as [S' R].
  eapply respell_inv; eauto.
Qed.

Definition history_ok (c : cfg) (h : list txn) : Prop := Forall (txn_ok c) h.

Theorem exec_inv : forall c h, history_ok c h -> ZInv c (exec c h).
Proof.
  intros c h. unfold exec.
  assert (forall z, ZInv c z -> history_ok c h -> ZInv c (fold_left (fun z t => fst (run_txn c z t)) h z)).
  { induction h as [|t h IH]; intros z HZ Hok; cbn [fold_left]; auto.
    inversion Hok; subst. apply IH; auto. apply run_txn_inv; auto. }
  intros Hok. apply H; auto. apply Inv_empty.
Qed.

(* ---------- the theorems ---------- *)
Theorem incremental_eq_spec_main : forall c h,
    history_ok c h ->
    let z := exec c h in
    (forall n nd, In (n, nd) (z_nodes z) -> nflags nd = flags_of c (z_nodes z) (n, nd)) /\
    map K (map fst (z_delegs z)) = map K (delegations_of c (z_nodes z)).
Proof.
  intros c h Hok z. pose proof (exec_inv c h Hok) as HI. fold z in HI. unfold ZInv in HI. split.
  - apply (inv_f c _ HI).
  - apply ksorted_unique.
    + pose proof (inv_sd c _ HI) as Sd. unfold sorted, keys in Sd. cbn [v_delegs] in Sd. rewrite map_map. exact Sd.
    + apply delegations_of_sorted. apply (inv_sn c _ HI).
    + intros k. rewrite delegations_of_in. rewrite <- (inv_d c _ HI k). cbn [v_delegs v_nodes].
      unfold keys. rewrite map_map. reflexivity.
Qed.

Fixpoint increasing (l : list name) : Prop :=
  match l with
  | [] => True
  | a :: r => (forall b, In b r -> order a b < 0) /\ increasing r
  end.

Lemma ksorted_increasing : forall (l : nodes_t), sorted l -> increasing (map fst l).
Proof.
  induction l as [|[k v] l IH]; intros S; cbn; [exact Logic.I|].
  apply sorted_cons in S as [S1 S2]. split; auto.
  intros b Hb. apply in_map_iff in Hb as ([k' v'] & <- & Hin). cbn [fst].
  apply Z.ltb_lt. apply order_lt_kcmp. apply (S1 k' v' Hin).
Qed.

Theorem iteration_canonical_main : forall c h,
    history_ok c h -> increasing (map fst (z_nodes (exec c h))).
Proof.
  intros c h Hok. apply ksorted_increasing. apply (inv_sn c _ (exec_inv c h Hok)).
Qed.
