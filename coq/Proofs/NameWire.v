(* C01: wire decoding (dns.name.from_wire / from_wire_parser over dns.wirebase.Parser):
   termination (fuel sufficiency), pointers strictly decrease, uncompressed round trip. *)
From DV Require Import Base.Prelude Model.NameM Proofs.NameValid.
Open Scope Z_scope.

(* ---------- the parser primitives ---------- *)

Lemma get_bytes_inv wire p n l p' :
  get_bytes wire p n = Ok (l, p') ->
  (n <= length wire - cur p)%nat /\
  l = firstn n (skipn (cur p) wire) /\
  p' = {| cur := cur p + n; furthest := Nat.max (furthest p) (cur p + n) |}.
Proof.
  unfold get_bytes. destruct (Nat.ltb_spec (length wire - cur p) n); [discriminate|].
  intros H0; inversion H0; subst. auto.
Qed.

Lemma get_bytes_not_internal wire p n e : get_bytes wire p n <> Internal e.
Proof. unfold get_bytes. destruct (Nat.ltb _ _); discriminate. Qed.

Lemma get_u8_inv wire p b p' :
  get_u8 wire p = Ok (b, p') ->
  (1 <= length wire - cur p)%nat /\
  nth_error wire (cur p) = Some b /\
  p' = {| cur := cur p + 1; furthest := Nat.max (furthest p) (cur p + 1) |}.
Proof.
  unfold get_u8. destruct (get_bytes wire p 1) as [[l q]| |] eqn:E; try discriminate.
  destruct l as [|x [|y l]]; try discriminate. intros H; inversion H; subst.
  apply get_bytes_inv in E. destruct E as (H1 & H2 & H3). split; [exact H1|]. split; [|exact H3].
  clear -H2. revert H2. generalize (cur p). intros k. revert wire.
  induction k as [|k IH]; intros wire H2.
  - destruct wire; cbn in *; congruence.
  - destruct wire; cbn in *; [discriminate|]. apply IH. exact H2.
Qed.

Lemma get_u8_not_internal wire p e : get_u8 wire p <> Internal e.
Proof.
  unfold get_u8. pose proof (get_bytes_not_internal wire p 1) as H.
  destruct (get_bytes wire p 1) as [[[|x [|y l]] q]| |]; try discriminate.
  intros X; inversion X; subst. eapply H; reflexivity.
Qed.

(* ---------- termination: the fuel of from_wire is sufficient ---------- *)

Section Fuel.
  Variable wire : list Z.
  Let endp := length wire.

  Definition meas (p : pst) (biggest : nat) : nat := (biggest * S endp + (endp - cur p))%nat.

  (* the only Python-level "exception" of the loop is the model's own fuel marker, and it is
     unreachable when the fuel exceeds the measure  biggest * (end + 1) + (end - current),
     which strictly decreases at every label read and at every pointer jump *)
  Lemma fw_go_enough : forall fuel p biggest acc e,
    (cur p <= endp)%nat -> (meas p biggest < fuel)%nat ->
    fw_go wire fuel p biggest acc <> Internal e.
  Proof.
    induction fuel as [|f IH]; intros p biggest acc e Hc Hm; [lia|].
    cbn [fw_go].
    destruct (get_u8 wire p) as [[count p1]|e1|e1] eqn:E1; [|discriminate|].
    2:{ exfalso. eapply get_u8_not_internal; eauto. }
    apply get_u8_inv in E1. destruct E1 as (B1 & _ & ->).
    destruct (count =? 0); [discriminate|].
    destruct (count <? 64).
    - destruct (get_bytes wire _ (Z.to_nat count)) as [[l p2]|e2|e2] eqn:E2; [|discriminate|].
      2:{ exfalso. eapply get_bytes_not_internal; eauto. }
      apply get_bytes_inv in E2. destruct E2 as (B2 & _ & ->). cbn [cur] in *.
      apply IH; cbn [cur]; fold endp in B1, B2 |- *; [lia|]. unfold meas in *. cbn [cur]. lia.
    - destruct (192 <=? count); [|discriminate].
      destruct (get_u8 wire _) as [[lo p2]|e2|e2] eqn:E2; [|discriminate|].
      2:{ exfalso. eapply get_u8_not_internal; eauto. }
      destruct (Nat.leb_spec biggest (Z.to_nat ((count - 192) * 256 + lo))); [discriminate|].
      destruct (Nat.ltb_spec (length wire) (Z.to_nat ((count - 192) * 256 + lo))); [discriminate|].
      apply IH; cbn [cur]; fold endp; [lia|].
      unfold meas in *. cbn [cur]. fold endp in H0. nia.
  Qed.

  Lemma fw_fuel_enough start : (start <= endp)%nat ->
    (meas {| cur := start; furthest := start |} start < fw_fuel wire start)%nat.
  Proof. intros H. unfold meas, fw_fuel. cbn [cur]. fold endp. nia. Qed.
End Fuel.

(* dns.name.from_wire terminates on every message and every offset, and the only exceptions
   are the library's own *)
Theorem from_wire_total wire start e : from_wire wire start <> Internal e.
Proof.
  unfold from_wire. destruct (Nat.ltb_spec (length wire) start); [discriminate|].
  pose proof (fw_go_enough wire (fw_fuel wire start) {| cur := start; furthest := start |} start []) as G.
  destruct (fw_go wire _ _ _ _) as [[labels p]|e1|e1] eqn:E; [|discriminate|].
  - cbn [bind]. destruct (mk_name labels) eqn:M; cbn [bind]; try discriminate.
    exfalso. eapply mk_name_never_internal; eauto.
  - exfalso. eapply G; [cbn [cur]; lia|apply fw_fuel_enough; lia|reflexivity].
Qed.

(* ---------- fuel irrelevance, accumulator generalisation ---------- *)

Lemma fw_go_fuel_mono wire : forall f p b acc r,
  fw_go wire f p b acc = r -> (forall e, r <> Internal e) ->
  forall k, fw_go wire (f + k) p b acc = r.
Proof.
  induction f as [|f IH]; intros p b acc r H NI k.
  - cbn in H. subst. exfalso. eapply NI; reflexivity.
  - cbn [Nat.add fw_go] in *.
    destruct (get_u8 wire p) as [[count p1]|e1|e1]; auto.
    destruct (count =? 0); auto.
    destruct (count <? 64).
    + destruct (get_bytes wire p1 _) as [[l p2]|e2|e2]; auto.
    + destruct (192 <=? count); auto.
      destruct (get_u8 wire p1) as [[lo p2]|e2|e2]; auto.
      destruct (Nat.leb _ _); auto. destruct (Nat.ltb _ _); auto.
Qed.

Lemma fw_go_fuel_indep wire f1 f2 p b acc r1 r2 :
  fw_go wire f1 p b acc = r1 -> fw_go wire f2 p b acc = r2 ->
  (forall e, r1 <> Internal e) -> (forall e, r2 <> Internal e) -> r1 = r2.
Proof.
  intros H1 H2 N1 N2.
  pose proof (fw_go_fuel_mono wire f1 p b acc r1 H1 N1 f2) as A.
  pose proof (fw_go_fuel_mono wire f2 p b acc r2 H2 N2 f1) as B.
  rewrite Nat.add_comm in B. congruence.
Qed.

Definition with_acc (acc : list label) (r : res (list label * pst)) : res (list label * pst) :=
  match r with
  | Ok (ls, p') => Ok (rev acc ++ ls, p')
  | Lib e => Lib e
  | Internal e => Internal e
  end.

Lemma fw_go_acc wire : forall f p b acc,
  fw_go wire f p b acc = with_acc acc (fw_go wire f p b []).
Proof.
  induction f as [|f IH]; intros p b acc; [reflexivity|].
  cbn [fw_go].
  destruct (get_u8 wire p) as [[count p1]|e1|e1]; try reflexivity.
  destruct (count =? 0).
  { cbn [with_acc rev app]. reflexivity. }
  destruct (count <? 64).
  - destruct (get_bytes wire p1 _) as [[l p2]|e2|e2]; try reflexivity.
    etransitivity; [apply (IH p2 b (l :: acc))|].
    symmetry. etransitivity; [apply f_equal, (IH p2 b (l :: nil))|]. symmetry.
    destruct (fw_go wire f p2 b []) as [[ls p']| |]; cbn [with_acc]; try reflexivity.
    cbn [rev app]. rewrite <- app_assoc. reflexivity.
  - destruct (192 <=? count); try reflexivity.
    destruct (get_u8 wire p1) as [[lo p2]|e2|e2]; try reflexivity.
    destruct (Nat.leb _ _); try reflexivity. destruct (Nat.ltb _ _); try reflexivity.
    apply IH.
Qed.

(* ---------- the pointer trace ---------- *)

(* a strictly decreasing list of offsets, every one below the bound *)
Inductive desc : nat -> list nat -> Prop :=
| desc_nil b : desc b []
| desc_cons b c r : (c < b)%nat -> desc c r -> desc b (c :: r).

Definition erase_tr (r : res (list label * pst * list nat)) : res (list label * pst) :=
  match r with
  | Ok (ls, p, _) => Ok (ls, p)
  | Lib e => Lib e
  | Internal e => Internal e
  end.

(* the instrumented loop computes the same result as the loop of the model *)
Lemma fw_go_tr_erase wire : forall f p b acc tr,
  fw_go wire f p b acc = erase_tr (fw_go_tr wire f p b acc tr).
Proof.
  induction f as [|f IH]; intros p b acc tr; [reflexivity|].
  cbn [fw_go fw_go_tr].
  destruct (get_u8 wire p) as [[count p1]|e1|e1]; try reflexivity.
  destruct (count =? 0); [reflexivity|].
  destruct (count <? 64).
  - destruct (get_bytes wire p1 _) as [[l p2]|e2|e2]; try reflexivity. apply IH.
  - destruct (192 <=? count); try reflexivity.
    destruct (get_u8 wire p1) as [[lo p2]|e2|e2]; try reflexivity.
    destruct (Nat.leb _ _); try reflexivity. destruct (Nat.ltb _ _); try reflexivity.
    apply IH.
Qed.

Lemma fw_go_tr_desc wire : forall f p b acc tr ls p' out,
  fw_go_tr wire f p b acc tr = Ok (ls, p', out) ->
  exists new, out = rev tr ++ new /\ desc b new /\ Forall (fun c => (c <= length wire)%nat) new.
Proof.
  induction f as [|f IH]; intros p b acc tr ls p' out H; [discriminate|].
  cbn [fw_go_tr] in H.
  destruct (get_u8 wire p) as [[count p1]|e1|e1]; try discriminate.
  destruct (count =? 0).
  { inversion H; subst. exists []. rewrite app_nil_r. repeat split; constructor. }
  destruct (count <? 64).
  - destruct (get_bytes wire p1 _) as [[l p2]|e2|e2]; try discriminate. eapply IH; eauto.
  - destruct (192 <=? count); try discriminate.
    destruct (get_u8 wire p1) as [[lo p2]|e2|e2]; try discriminate.
    destruct (Nat.leb_spec b (Z.to_nat ((count - 192) * 256 + lo))); try discriminate.
    destruct (Nat.ltb_spec (length wire) (Z.to_nat ((count - 192) * 256 + lo))); try discriminate.
    apply IH in H. destruct H as (new & -> & D & B).
    exists (Z.to_nat ((count - 192) * 256 + lo) :: new). cbn [rev]. rewrite <- app_assoc.
    split; [reflexivity|]. split; constructor; auto.
Qed.

(* every pointer followed by from_wire lies strictly before the start offset and strictly
   before every pointer target followed earlier *)
Theorem pointers_strictly_decrease wire start n consumed tr :
  from_wire_tr wire start = Ok (n, consumed, tr) ->
  desc start tr /\ Forall (fun c => (c <= length wire)%nat) tr /\
  from_wire wire start = Ok (n, consumed).
Proof.
  unfold from_wire_tr, from_wire. destruct (Nat.ltb (length wire) start); [discriminate|].
  rewrite (fw_go_tr_erase wire _ _ _ _ []).
  destruct (fw_go_tr wire _ _ _ _ _) as [[[ls p] out]|e|e] eqn:E; try discriminate.
  cbn [erase_tr bind]. destruct (mk_name ls) as [m| |]; cbn [bind]; try discriminate.
  intros H; inversion H; subst.
  apply fw_go_tr_desc in E. destruct E as (new & -> & D & B). cbn [rev app]. auto.
Qed.

(* and the instrumented decoder is total in the same sense / agrees on errors *)
Theorem from_wire_tr_erase wire start :
  from_wire wire start =
    match from_wire_tr wire start with
    | Ok (n, c, _) => Ok (n, c)
    | Lib e => Lib e
    | Internal e => Internal e
    end.
Proof.
  unfold from_wire_tr, from_wire. destruct (Nat.ltb (length wire) start); [reflexivity|].
  rewrite (fw_go_tr_erase wire _ _ _ _ []).
  destruct (fw_go_tr wire _ _ _ _ _) as [[[ls p] out]|e|e]; try reflexivity.
  cbn [erase_tr bind]. destruct (mk_name ls); reflexivity.
Qed.

(* ---------- uncompressed round trip ---------- *)

Lemma skipn_app_len {A} (a b : list A) : skipn (length a) (a ++ b) = b.
Proof. rewrite skipn_app, skipn_all, Nat.sub_diag. reflexivity. Qed.

Lemma firstn_app_len {A} (a b : list A) : firstn (length a) (a ++ b) = a.
Proof. rewrite firstn_app, firstn_all, Nat.sub_diag. cbn [firstn]. apply app_nil_r. Qed.

Lemma wire_labels_cons canon l n :
  wire_labels canon (l :: n) = zlen l :: (if canon then lower_l l else l) ++ wire_labels canon n.
Proof. reflexivity. Qed.

Lemma wire_labels_app canon a b : wire_labels canon (a ++ b) = wire_labels canon a ++ wire_labels canon b.
Proof. unfold wire_labels. apply flat_map_app. Qed.

Lemma wire_labels_length canon n : Z.of_nat (length (wire_labels canon n)) = wire_length n.
Proof.
  induction n as [|l n IH]; [reflexivity|].
  rewrite wire_labels_cons, wire_length_cons. cbn [length]. rewrite app_length.
  assert (length (if canon then lower_l l else l) = length l) as ->
    by (destruct canon; [apply map_length|reflexivity]).
  unfold zlen. lia.
Qed.

Lemma get_u8_at wire k pre x rest fur :
  wire = pre ++ x :: rest -> k = length pre ->
  get_u8 wire {| cur := k; furthest := fur |} =
    Ok (x, {| cur := k + 1; furthest := Nat.max fur (k + 1) |}).
Proof.
  intros -> ->. unfold get_u8, get_bytes. cbn [cur furthest].
  rewrite app_length. cbn [length].
  destruct (Nat.ltb_spec (length pre + S (length rest) - length pre) 1); [lia|].
  rewrite skipn_app_len. reflexivity.
Qed.

Lemma get_bytes_at wire k n pre l rest fur :
  wire = pre ++ l ++ rest -> k = length pre -> n = length l ->
  get_bytes wire {| cur := k; furthest := fur |} n =
    Ok (l, {| cur := k + n; furthest := Nat.max fur (k + n) |}).
Proof.
  intros -> -> ->. unfold get_bytes. cbn [cur furthest].
  rewrite !app_length.
  destruct (Nat.ltb_spec (length pre + (length l + length rest) - length pre) (length l)); [lia|].
  rewrite skipn_app_len, firstn_app_len. reflexivity.
Qed.

Lemma fw_go_plain : forall (ls : list label) wire pre post k f b acc,
  wire = pre ++ wire_labels false (ls ++ [[]]) ++ post -> k = length pre ->
  Forall (fun l => l <> [] /\ zlen l <= 63) ls -> (length ls < f)%nat ->
  fw_go wire f {| cur := k; furthest := k |} b acc =
    Ok (rev acc ++ ls ++ [[]],
        {| cur := k + length (wire_labels false (ls ++ [[]]));
           furthest := k + length (wire_labels false (ls ++ [[]])) |}).
Proof.
  induction ls as [|l ls IH]; intros wire pre post k f b acc Hw Hk HF Hf.
  - destruct f as [|f]; [lia|]. cbn [app wire_labels flat_map] in *. cbn [fw_go].
    change (zlen (@nil Z)) with 0 in Hw.
    rewrite (get_u8_at wire k pre 0 post k Hw Hk). cbn [Z.eqb].
    rewrite Nat.max_r by lia. cbn [rev length]. reflexivity.
  - destruct f as [|f]; [cbn in Hf; lia|]. apply Forall_cons_iff in HF. destruct HF as [[Hne Hlen] HF'].
    cbn [app] in Hw. rewrite wire_labels_cons in Hw. cbn [app] in Hw. rewrite <- ?app_assoc in Hw. cbn [fw_go].
    rewrite (get_u8_at wire k pre (zlen l) (l ++ wire_labels false (ls ++ [[]]) ++ post) k)
      by assumption.
    assert (0 < zlen l) as Hpos by (unfold zlen; destruct l; [congruence|cbn; lia]).
    replace (zlen l =? 0) with false by lia. replace (zlen l <? 64) with true by lia.
    rewrite Nat.max_r by lia.
    rewrite (get_bytes_at wire (k + 1) (Z.to_nat (zlen l)) (pre ++ [zlen l]) l
               (wire_labels false (ls ++ [[]]) ++ post) (k + 1)%nat).
    2:{ rewrite <- app_assoc. exact Hw. }
    2:{ rewrite app_length. cbn [length]. lia. }
    2:{ unfold zlen. lia. }
    rewrite Nat.max_r by lia.
    etransitivity.
    { apply (IH wire (pre ++ zlen l :: l) post (k + 1 + Z.to_nat (zlen l))%nat f b (l :: acc)).
      + rewrite <- app_assoc. exact Hw.
      + rewrite app_length. cbn [length]. unfold zlen. lia.
      + exact HF'.
      + cbn in Hf. lia. }
    f_equal. f_equal.
    + cbn [rev]. rewrite <- app_assoc. reflexivity.
    + cbn [app]. rewrite wire_labels_cons. cbn [length]. rewrite !app_length.
      unfold zlen. f_equal; lia.
Qed.

(* a valid absolute name is a list of non-empty labels followed by the root label *)
Lemma Valid_absolute_shape n : Valid n -> is_absolute n = true ->
  exists ls, n = ls ++ [[]] /\ Forall (fun l => l <> [] /\ zlen l <= 63) ls.
Proof.
  intros (V1 & _ & V3) A. apply is_absolute_true in A. destruct A as [ls ->]. exists ls. split; [reflexivity|].
  rewrite removelast_last in V3. apply Forall_app in V1. destruct V1 as [V1 _].
  rewrite Forall_forall in *. intros l Hl. auto.
Qed.

(* decoding the uncompressed encoding of a name, anywhere inside any byte string, returns
   exactly the name and consumes exactly the octets of the encoding *)
Theorem wire_roundtrip n pre post :
  Valid n -> is_absolute n = true ->
  to_wire n None false = Ok (wire_labels false n) /\
  from_wire (pre ++ wire_labels false n ++ post) (length pre) = Ok (n, length (wire_labels false n)).
Proof.
  intros V A. split; [unfold to_wire; rewrite A; reflexivity|].
  destruct (Valid_absolute_shape n V A) as (ls & -> & HF).
  unfold from_wire.
  destruct (Nat.ltb_spec (length (pre ++ wire_labels false (ls ++ [[]]) ++ post)) (length pre)) as [H|_].
  { rewrite app_length in H. lia. }
  rewrite (fw_go_plain ls _ pre post (length pre)); [| reflexivity | reflexivity | exact HF |].
  - change (rev (@nil label) ++ ls ++ [[]]) with (ls ++ [[]]).
    pose proof (mk_name_valid _ V) as M. unfold name, label in *. rewrite M.
    cbn [bind furthest]. f_equal. f_equal. lia.
  - unfold fw_fuel. rewrite !app_length, wire_labels_app, app_length.
    assert (length ls <= length (wire_labels false ls))%nat as L.
    { clear. induction ls as [|l ls IH]; [cbn; lia|]. rewrite wire_labels_cons. cbn [length].
      rewrite app_length. lia. }
    rewrite Nat.mul_succ_l. unfold label in *. lia.
Qed.

(* ---------- faithfulness notes for two arithmetic rewrites in the model ---------- *)

(* from_wire_parser computes (count & 0x3F) * 256 + lo; the model writes (count - 192) * 256 + lo.
   For a first pointer octet (192..255) the two agree. *)
Lemma pointer_mask_equiv c : 192 <= c < 256 -> Z.land c 63 = c - 192.
Proof.
  intros H.
  assert (forallb (fun k => Z.land (192 + Z.of_nat k) 63 =? Z.of_nat k) (seq 0 64) = true) as T
    by (vm_compute; reflexivity).
  rewrite forallb_forall in T. specialize (T (Z.to_nat (c - 192))).
  rewrite Z2Nat.id in T by lia. replace (192 + (c - 192)) with c in T by lia.
  apply Z.eqb_eq. apply T. apply in_seq. lia.
Qed.

(* __hash__ computes h += (h << 3) + c; the model writes h + h * 8 + c *)
Lemma hash_shift_equiv h c : h + (Z.shiftl h 3 + c) = h + (h * 8) + c.
Proof. rewrite Z.shiftl_mul_pow2 by lia. change (2 ^ 3) with 8. lia. Qed.
