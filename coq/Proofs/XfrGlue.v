(* C13 - out-of-zone records ("glue that is not a subdomain of the origin") in an AXFR are ignored:
   the outcome is exactly the outcome of the stream without them. *)
From DV Require Import Base.Prelude Model.XfrM Proofs.XfrSets Proofs.XfrSpec Proofs.XfrZone Proofs.XfrDiff
  Proofs.XfrSafety Proofs.XfrBasic Proofs.XfrRun Proofs.XfrIxfr Proofs.XfrAxfr Proofs.XfrPerm Proofs.XfrOrder.

Definition glue (r : rr) : bool := (r_name r <? 0) && negb (r_type r =? tSOA).
Definition rs_glue (s : rrset) : bool := (s_name s <? 0) && negb (s_type s =? tSOA).
Definition erase (x : list rr) : list rr := filter (fun r => negb (glue r)) x.
Definition rs_erase (l : list rrset) : list rrset := filter (fun s => negb (rs_glue s)) l.

Lemma rs_glue_single : forall r, rs_glue (single r) = glue r.
Proof. reflexivity. Qed.

Lemma rs_glue_rrset_add : forall s r, rs_glue (rrset_add s r) = rs_glue s.
Proof. reflexivity. Qed.

Lemma same_rrset_glue : forall r s, same_rrset r s = true -> rs_glue s = glue r.
Proof.
  intros r s H. unfold same_rrset in H. rewrite !andb_true_iff, !Z.eqb_eq in H.
  destruct H as [[[Hn _] Ht] _]. unfold rs_glue, glue. rewrite Hn, Ht. reflexivity.
Qed.

(* a glue record only ever touches glue RRsets *)
Lemma erase_add_to_glue : forall r acc, glue r = true -> rs_erase (add_to r acc) = rs_erase acc.
Proof.
  intros r acc Hg. induction acc as [|s acc IH]; cbn [add_to rs_erase filter].
  - rewrite rs_glue_single, Hg. reflexivity.
  - destruct (same_rrset r s) eqn:E.
    + cbn [filter]. rewrite rs_glue_rrset_add, (same_rrset_glue r s E), Hg. reflexivity.
    + cbn [filter]. fold (rs_erase (add_to r acc)). fold (rs_erase acc). rewrite IH. reflexivity.
Qed.

(* a non-glue record never merges into a glue RRset *)
Lemma erase_add_to_keep : forall r acc, glue r = false -> rs_erase (add_to r acc) = add_to r (rs_erase acc).
Proof.
  intros r acc Hg. induction acc as [|s acc IH]; cbn [add_to rs_erase filter].
  - rewrite rs_glue_single, Hg. reflexivity.
  - destruct (same_rrset r s) eqn:E.
    + cbn [filter]. rewrite rs_glue_rrset_add, (same_rrset_glue r s E), Hg. cbn [negb add_to]. rewrite E. reflexivity.
    + cbn [filter]. fold (rs_erase (add_to r acc)). fold (rs_erase acc).
      destruct (rs_glue s); cbn [negb]; [exact IH|]. cbn [add_to]. rewrite E, IH. reflexivity.
Qed.

(* parsing the erased section = erasing the parsed section *)
Lemma erase_group_go : forall x f acc,
  rs_erase (group_go f acc x) = group_go f (rs_erase acc) (erase x).
Proof.
  induction x as [|r x IH]; intros f acc; cbn [group_go erase filter]; [reflexivity|].
  fold (erase x). destruct (glue r) eqn:Hg; cbn [negb].
  - (* a glue record is not an SOA: the force_unique flag does not change *)
    assert (Ht : (r_type r =? tSOA) = false).
    { unfold glue in Hg. apply andb_true_iff in Hg. destruct Hg as [_ H]. apply negb_true_iff in H. exact H. }
    rewrite Ht, orb_false_r. rewrite IH. f_equal.
    destruct f.
    + unfold rs_erase. rewrite filter_app. cbn [filter]. rewrite rs_glue_single, Hg. cbn [negb]. apply app_nil_r.
    + apply erase_add_to_glue, Hg.
  - cbn [group_go]. rewrite IH. f_equal.
    destruct (f || (r_type r =? tSOA)).
    + unfold rs_erase. rewrite filter_app. cbn [filter]. rewrite rs_glue_single, Hg. reflexivity.
    + apply erase_add_to_keep, Hg.
Qed.

Lemma erase_group : forall f x, rs_erase (group f x) = group f (erase x).
Proof. intros f x. unfold group. rewrite erase_group_go. reflexivity. Qed.

Lemma erase_singles : forall x, rs_erase (map single x) = map single (erase x).
Proof.
  induction x as [|r x IH]; cbn [map rs_erase erase filter]; [reflexivity|].
  rewrite rs_glue_single. destruct (glue r); cbn [negb map]; fold (rs_erase (map single x)); fold (erase x);
    rewrite IH; reflexivity.
Qed.

(* in a full transfer a glue RRset is skipped: the state does not change *)
Lemma step_glue_skip : forall l u rdt p tz ser s0 s, rs_glue s = true ->
  step l (ast u rdt p tz ser s0) s = (ast u rdt p tz ser s0, None).
Proof.
  intros l u rdt p tz ser s0 s Hg. unfold rs_glue in Hg. apply andb_true_iff in Hg. destruct Hg as [Hn _].
  apply Z.ltb_lt in Hn. unfold ast, step. cbn [done txn expecting delmode].
  assert (E : (s_name s =? origin) = false) by (apply Z.eqb_neq; unfold origin; lia).
  rewrite E, andb_false_r.
  assert (Z : in_zone (s_name s) = false) by (apply Z.leb_gt; exact Hn).
  rewrite Z. reflexivity.
Qed.

Lemma loopn_erase : forall l u rdt p tz ser s0 l',
  rs_erase l = l' -> Forall rs_ok l' ->
  loopn (ast u rdt p tz ser s0) l = (ast u rdt p (addrs tz l') ser s0, None).
Proof.
  induction l as [|s l IH]; intros u rdt p tz ser s0 l' He Hok; cbn [rs_erase filter] in He.
  - subst l'. reflexivity.
  - cbn [loopn]. destruct (rs_glue s) eqn:Hg; cbn [negb] in He.
    + rewrite step_glue_skip by exact Hg. apply IH; assumption.
    + subst l'. inversion Hok as [|? ? Hs Hok']; subst.
      rewrite (step_rs_add _ _ _ _ _ _ _ _ Hs). cbn [addrs]. apply IH; [reflexivity|exact Hok'].
Qed.

(* a record of a response that may carry out-of-zone glue *)
Definition okrec (r : rr) : Prop := glue r = true \/ plain r.

Lemma erase_plain : forall x, Forall okrec x -> Forall plain (erase x).
Proof.
  intros x H. apply Forall_forall. intros r Hr. unfold erase in Hr. apply filter_In in Hr.
  destruct Hr as [Hin Hg]. rewrite Forall_forall in H. destruct (H r Hin) as [G|P]; [|exact P].
  rewrite G in Hg. discriminate.
Qed.

Lemma erase_app : forall a b, erase (a ++ b) = erase a ++ erase b.
Proof. intros. unfold erase. apply filter_app. Qed.

Definition parse_ok_glue (g : list rr -> list rrset) : Prop :=
  msg_parse_ok g /\
  (forall x r, r_type r = tSOA -> g (x ++ [r]) = g x ++ [single r]) /\
  (forall x, rs_erase (g x) = g (erase x)).

Lemma parse_single_ok_glue : parse_ok_glue (map single).
Proof.
  split; [apply parse_single_ok|]. split; [intros; rewrite map_app; reflexivity|apply erase_singles].
Qed.

Lemma parse_group_ok_glue : parse_ok_glue (group false).
Proof.
  split; [apply parse_group_ok|]. split; [|apply erase_group].
  intros x r Hr. unfold group. apply group_go_snoc_soa, Hr.
Qed.

(* the driver on a full transfer whose body may contain glue *)
Lemma cont_full_glue : forall ws one_rr g a rdt p tz ser v c,
  parse_ok_glue g -> parse_ok_glue (group one_rr) -> ttl_ok (v_ttl v) ->
  Forall (header_ok rdt) ws -> Forall okrec c -> zsorted tz ->
  a ++ concat (map w_records ws) = c ++ [soa_rr v] ->
  exists z' n, cont one_rr (loop (ast false rdt p tz ser (single (soa_rr v))) (g a)) ws = (Done z', n)
    /\ zeq z' (zput soakey (v_ttl v, [v_soa v]) (adds tz (erase c))).
Proof.
  induction ws as [|w ws IH]; intros one_rr g a rdt p tz ser v c Hg Hg1 Httl Hh Hc Hz Hcat.
  - cbn [map concat] in Hcat. rewrite app_nil_r in Hcat. subst a.
    destruct Hg as ((_ & G2 & G3) & G1 & G4). rewrite (G1 c (soa_rr v) eq_refl).
    pose proof (erase_plain c Hc) as Hpl.
    rewrite loop_snoc, (loopn_erase _ _ _ _ _ _ _ _ (G4 c) (G2 _ Hpl)), (step_final_full _ _ _ _ _ _ Httl).
    cbn [cont done pub]. eexists. eexists. split; [reflexivity|].
    intros k. rewrite !look_zput. destruct (key_eqb k soakey); [reflexivity|apply G3; assumption].
  - apply app_snoc_split in Hcat. destruct Hcat as [[c' [-> Hrest]]|[-> Hrest]].
    + apply Forall_app in Hc. destruct Hc as [Ha Hc'].
      destruct Hg as ((_ & G2 & G3) & G1 & G4).
      pose proof (erase_plain a Ha) as Hpl.
      rewrite (loop_loopn _ _ _ (loopn_erase _ _ _ _ _ _ _ _ (G4 a) (G2 _ Hpl))).
      cbn [cont]. unfold ast at 1. cbn [done]. fold (ast false rdt p (addrs tz (g (erase a))) ser (single (soa_rr v))).
      inversion Hh as [|? ? Hw Hws]; subst.
      rewrite drive_cons. unfold from_wire.
      rewrite process_running; [|apply running_ast|apply Hw|apply Hw]. cbn [m_answer].
      cbn [map concat] in Hrest.
      assert (Hz1 : zsorted (addrs tz (g (erase a)))).
      { eapply zsorted_zeq; [apply G3; assumption|apply adds_sorted, Hz]. }
      destruct (IH one_rr (group one_rr) (w_records w) rdt p (addrs tz (g (erase a))) ser v c' Hg1 Hg1 Httl Hws Hc' Hz1 Hrest)
        as [z' [n [Hn Hz']]].
      rewrite Hn. exists z', (S n). split; [reflexivity|].
      eapply zeq_trans; [exact Hz'|]. intros k. rewrite !look_zput.
      destruct (key_eqb k soakey); [reflexivity|]. rewrite erase_app, adds_app.
      apply adds_zeq. apply G3; assumption.
    + destruct Hg as ((_ & G2 & G3) & G1 & G4). rewrite (G1 c (soa_rr v) eq_refl).
      pose proof (erase_plain c Hc) as Hpl.
      rewrite loop_snoc, (loopn_erase _ _ _ _ _ _ _ _ (G4 c) (G2 _ Hpl)), (step_final_full _ _ _ _ _ _ Httl).
      cbn [cont done pub]. eexists. eexists. split; [reflexivity|].
      intros k. rewrite !look_zput. destruct (key_eqb k soakey); [reflexivity|apply G3; assumption].
Qed.

(* an AXFR response: the records of the zone in any order, with repetitions, interleaved with
   out-of-zone glue of any content *)
Definition axfr_response_glue (v : version) (recs : list rr) : Prop :=
  exists B, Forall okrec B /\ same_set (erase B) (body (v_rest v)) /\ recs = soa_rr v :: B ++ [soa_rr v].

Theorem axfr_converges_with_glue : forall v z0 ser recs ws,
  version_wf v -> axfr_response_glue v recs -> chunking tAXFR recs ws ->
  exists z' n, inbound_xfr z0 tAXFR ser false ws = (Done z', n) /\ zeq z' (zone_of v).
Proof.
  intros v z0 ser recs ws Hv [B [HB [PB ->]]] Hch.
  apply chunking_first in Hch. destruct Hch as (w & ws' & a & -> & Hr & Hw & Hws & Hcat).
  unfold inbound_xfr. rewrite init_axfr. cbn [Z.eqb tAXFR tIXFR Pos.eqb]. rewrite drive_cons.
  rewrite (first_message_axfr z0 ser w (soa_rr v) a Hw Hr) by (split; reflexivity).
  pose proof Hv as [Httl Hwf].
  destruct (cont_full_glue ws' false (map single) a tAXFR z0 [] (match ser with Some sv => sv | None => 0 end) v
              B parse_single_ok_glue parse_group_ok_glue Httl Hws HB zsorted_nil Hcat)
    as [z' [n [Hn Hz']]].
  exists z', n. split; [exact Hn|]. apply full_target; [exact Hv|].
  eapply zeq_trans; [exact Hz'|]. apply zput_zeq, adds_same_set; [exact PB|apply zsorted_nil].
Qed.
