(* C13 - out-of-zone records ("glue that is not a subdomain of the origin") in an AXFR are ignored:
   the outcome is exactly the outcome of the stream without them. *)
From DV Require Import Base.Prelude Model.XfrM Proofs.XfrSets Proofs.XfrSpec Proofs.XfrZone Proofs.XfrDiff
  Proofs.XfrSafety Proofs.XfrBasic Proofs.XfrRun Proofs.XfrIxfr Proofs.XfrAxfr Proofs.XfrPerm Proofs.XfrOrder.
From Coq Require Import Sorting.Permutation.

Definition glue (r : rr) : bool := (r_name r <? 0) && negb (r_type r =? tSOA).
Definition rs_glue (s : rrset) : bool := (s_name s <? 0) && negb (s_type s =? tSOA).
Definition erase (x : list rr) : list rr := filter (fun r => negb (glue r)) x.
Definition rs_erase (l : list rrset) : list rrset := filter (fun s => negb (rs_glue s)) l.

Lemma rs_glue_single : forall r, rs_glue (single r) = glue r.
Proof. reflexivity. Qed.

Lemma rs_glue_rrset_add : forall s r, rs_glue (rrset_add s r) = rs_glue s.
Proof. reflexivity. Qed.

Lemma same_rrset_glue : forall r s, same_rrset r s = true -> rs_glue s = glue r.
Proof.
  intros r s H. unfold same_rrset in H. rewrite !andb_true_iff, !Z.eqb_eq in H.
  destruct H as [[[Hn _] Ht] _]. unfold rs_glue, glue. rewrite Hn, Ht. reflexivity.
Qed.

(* a glue record only ever touches glue RRsets *)
Lemma erase_add_to_glue : forall r acc, glue r = true -> rs_erase (add_to r acc) = rs_erase acc.
Proof.
  intros r acc Hg. induction acc as [|s acc IH]; cbn [add_to rs_erase filter].
  - rewrite rs_glue_single, Hg. reflexivity.
  - destruct (same_rrset r s) eqn:E.
    + cbn [filter]. rewrite rs_glue_rrset_add, (same_rrset_glue r s E), Hg. reflexivity.
    + cbn [filter]. fold (rs_erase (add_to r acc)). fold (rs_erase acc). rewrite IH. reflexivity.
Qed.

(* a non-glue record never merges into a glue RRset *)
Lemma erase_add_to_keep : forall r acc, glue r = false -> rs_erase (add_to r acc) = add_to r (rs_erase acc).
Proof.
  intros r acc Hg. induction acc as [|s acc IH]; cbn [add_to rs_erase filter].
  - rewrite rs_glue_single, Hg. reflexivity.
  - destruct (same_rrset r s) eqn:E.
    + cbn [filter]. rewrite rs_glue_rrset_add, (same_rrset_glue r s E), Hg. cbn [negb add_to]. rewrite E. reflexivity.
    + cbn [filter]. fold (rs_erase (add_to r acc)). fold (rs_erase acc).
      destruct (rs_glue s); cbn [negb]; [exact IH|]. cbn [add_to]. rewrite E, IH. reflexivity.
Qed.

(* parsing the erased section = erasing the parsed section *)
Lemma erase_group_go : forall x f acc,
  rs_erase (group_go f acc x) = group_go f (rs_erase acc) (erase x).
Proof.
  induction x as [|r x IH]; intros f acc; cbn [group_go erase filter]; [reflexivity|].
  fold (erase x). destruct (glue r) eqn:Hg; cbn [negb].
  - (* a glue record is not an SOA: the force_unique flag does not change *)
    assert (Ht : (r_type r =? tSOA) = false).
    { unfold glue in Hg. apply andb_true_iff in Hg. destruct Hg as [_ H]. apply negb_true_iff in H. exact H. }
    rewrite Ht, orb_false_r. rewrite IH. f_equal.
    destruct f.
    + unfold rs_erase. rewrite filter_app. cbn [filter]. rewrite rs_glue_single, Hg. cbn [negb]. apply app_nil_r.
    + apply erase_add_to_glue, Hg.
  - cbn [group_go]. rewrite IH. f_equal.
    destruct (f || (r_type r =? tSOA)).
    + unfold rs_erase. rewrite filter_app. cbn [filter]. rewrite rs_glue_single, Hg. reflexivity.
    + apply erase_add_to_keep, Hg.
Qed.

Lemma erase_group : forall f x, rs_erase (group f x) = group f (erase x).
Proof. intros f x. unfold group. rewrite erase_group_go. reflexivity. Qed.

Lemma erase_singles : forall x, rs_erase (map single x) = map single (erase x).
Proof.
  induction x as [|r x IH]; cbn [map rs_erase erase filter]; [reflexivity|].
  rewrite rs_glue_single. destruct (glue r); cbn [negb map]; fold (rs_erase (map single x)); fold (erase x);
    rewrite IH; reflexivity.
Qed.

(* in a full transfer a glue RRset is skipped: the state does not change *)
Lemma step_glue_skip : forall l u rdt p tz ser s0 s, rs_glue s = true ->
  step l (ast u rdt p tz ser s0) s = (ast u rdt p tz ser s0, None).
Proof.
  intros l u rdt p tz ser s0 s Hg. unfold rs_glue in Hg. apply andb_true_iff in Hg. destruct Hg as [Hn _].
  apply Z.ltb_lt in Hn. unfold ast, step. cbn [done txn expecting delmode].
  assert (E : (s_name s =? origin) = false) by (apply Z.eqb_neq; unfold origin; lia).
  rewrite E, andb_false_r.
  assert (Z : in_zone (s_name s) = false) by (apply Z.leb_gt; exact Hn).
  rewrite Z. reflexivity.
Qed.

Lemma loopn_erase : forall l u rdt p tz ser s0 l',
  rs_erase l = l' -> Forall rs_ok l' -> quiet tz ->
  loopn (ast u rdt p tz ser s0) l = (ast u rdt p (addrs tz l') ser s0, None).
Proof.
  induction l as [|s l IH]; intros u rdt p tz ser s0 l' He Hok Hq; cbn [rs_erase filter] in He.
  - subst l'. reflexivity.
  - cbn [loopn]. destruct (rs_glue s) eqn:Hg; cbn [negb] in He.
    + rewrite step_glue_skip by exact Hg. apply IH; assumption.
    + subst l'. inversion Hok as [|? ? Hs Hok']; subst.
      rewrite (step_rs_add _ _ _ _ _ _ _ _ Hs Hq). cbn [addrs]. apply IH; [reflexivity|exact Hok'|].
      apply quiet_zput; [exact Hq|apply Hs].
Qed.

(* a record of a response that may carry out-of-zone glue *)
Definition okrec (r : rr) : Prop := glue r = true \/ plain r.

Lemma erase_plain : forall x, Forall okrec x -> Forall plain (erase x).
Proof.
  intros x H. apply Forall_forall. intros r Hr. unfold erase in Hr. apply filter_In in Hr.
  destruct Hr as [Hin Hg]. rewrite Forall_forall in H. destruct (H r Hin) as [G|P]; [|exact P].
  rewrite G in Hg. discriminate.
Qed.

Lemma erase_app : forall a b, erase (a ++ b) = erase a ++ erase b.
Proof. intros. unfold erase. apply filter_app. Qed.

Definition parse_ok_glue (g : list rr -> list rrset) : Prop :=
  msg_parse_ok g /\
  (forall x r, r_type r = tSOA -> g (x ++ [r]) = g x ++ [single r]) /\
  (forall x, rs_erase (g x) = g (erase x)).

Lemma parse_single_ok_glue : parse_ok_glue (map single).
Proof.
  split; [apply parse_single_ok|]. split; [intros; rewrite map_app; reflexivity|apply erase_singles].
Qed.

Lemma parse_group_ok_glue : parse_ok_glue (group false).
Proof.
  split; [apply parse_group_ok|]. split; [|apply erase_group].
  intros x r Hr. unfold group. apply group_go_snoc_soa, Hr.
Qed.

(* the driver on a full transfer whose body may contain glue *)
Lemma cont_full_glue : forall ws one_rr g a rdt p tz ser v c,
  parse_ok_glue g -> parse_ok_glue (group one_rr) -> ttl_ok (v_ttl v) ->
  Forall (header_ok rdt) ws -> Forall okrec c -> zsorted tz -> quiet tz ->
  a ++ concat (map w_records ws) = c ++ [soa_rr v] ->
  exists z' n, cont one_rr (loop (ast false rdt p tz ser (single (soa_rr v))) (g a)) ws = (Done z', n)
    /\ zeq z' (zput soakey (v_ttl v, [v_soa v]) (adds tz (erase c))).
Proof.
  induction ws as [|w ws IH]; intros one_rr g a rdt p tz ser v c Hg Hg1 Httl Hh Hc Hz Hq Hcat.
  - cbn [map concat] in Hcat. rewrite app_nil_r in Hcat. subst a.
    destruct Hg as ((_ & G2 & G3) & G1 & G4). rewrite (G1 c (soa_rr v) eq_refl).
    pose proof (erase_plain c Hc) as Hpl.
    rewrite loop_snoc, (loopn_erase _ _ _ _ _ _ _ _ (G4 c) (G2 _ Hpl) Hq), (step_final_full _ _ _ _ _ _ Httl (quiet_addrs _ _ (G2 _ Hpl) Hq)).
    cbn [cont done pub]. eexists. eexists. split; [reflexivity|].
    intros k. rewrite !look_zput. destruct (key_eqb k soakey); [reflexivity|apply G3; assumption].
  - apply app_snoc_split in Hcat. destruct Hcat as [[c' [-> Hrest]]|[-> Hrest]].
    + apply Forall_app in Hc. destruct Hc as [Ha Hc'].
      destruct Hg as ((_ & G2 & G3) & G1 & G4).
      pose proof (erase_plain a Ha) as Hpl.
      rewrite (loop_loopn _ _ _ (loopn_erase _ _ _ _ _ _ _ _ (G4 a) (G2 _ Hpl) Hq)).
      cbn [cont]. unfold ast at 1. cbn [done]. fold (ast false rdt p (addrs tz (g (erase a))) ser (single (soa_rr v))).
      inversion Hh as [|? ? Hw Hws]; subst.
      rewrite drive_cons by solve_req. unfold from_wire.
      rewrite process_running; [|apply running_ast|apply Hw|apply Hw]. cbn [m_answer].
      cbn [map concat] in Hrest.
      assert (Hz1 : zsorted (addrs tz (g (erase a)))).
      { eapply zsorted_zeq; [apply G3; assumption|apply adds_sorted, Hz]. }
      destruct (IH one_rr (group one_rr) (w_records w) rdt p (addrs tz (g (erase a))) ser v c' Hg1 Hg1 Httl Hws Hc' Hz1 (quiet_addrs _ _ (G2 _ Hpl) Hq) Hrest)
        as [z' [n [Hn Hz']]].
      rewrite Hn. exists z', (S n). split; [reflexivity|].
      eapply zeq_trans; [exact Hz'|]. intros k. rewrite !look_zput.
      destruct (key_eqb k soakey); [reflexivity|]. rewrite erase_app, adds_app.
      apply adds_zeq. apply G3; assumption.
    + destruct Hg as ((_ & G2 & G3) & G1 & G4). rewrite (G1 c (soa_rr v) eq_refl).
      pose proof (erase_plain c Hc) as Hpl.
      rewrite loop_snoc, (loopn_erase _ _ _ _ _ _ _ _ (G4 c) (G2 _ Hpl) Hq), (step_final_full _ _ _ _ _ _ Httl (quiet_addrs _ _ (G2 _ Hpl) Hq)).
      cbn [cont done pub]. eexists. eexists. split; [reflexivity|].
      intros k. rewrite !look_zput. destruct (key_eqb k soakey); [reflexivity|apply G3; assumption].
Qed.

(* an AXFR response: the records of the zone in any order, with repetitions, interleaved with
   out-of-zone glue of any content *)
Definition axfr_response_glue (v : version) (recs : list rr) : Prop :=
  exists B, Forall okrec B /\ same_set (erase B) (body (v_rest v)) /\ recs = soa_rr v :: B ++ [soa_rr v].

Theorem axfr_converges_with_glue : forall v z0 ser recs ws,
  version_wf v -> axfr_response_glue v recs -> chunking tAXFR recs ws ->
  exists z' n, inbound_xfr z0 tAXFR ser false ws = (Done z', n) /\ zeq z' (zone_of v).
Proof.
  intros v z0 ser recs ws Hv [B [HB [PB ->]]] Hch.
  apply chunking_first in Hch. destruct Hch as (w & ws' & a & -> & Hr & Hw & Hws & Hcat).
  unfold inbound_xfr, xfr_run. rewrite init_axfr. cbn [Z.eqb tAXFR tIXFR Pos.eqb]. rewrite drive_cons by solve_req.
  rewrite (first_message_axfr z0 ser w (soa_rr v) a Hw Hr) by (split; reflexivity).
  pose proof Hv as [Httl Hwf].
  destruct (cont_full_glue ws' false (map single) a tAXFR z0 [] (match ser with Some sv => sv | None => 0 end) v
              B parse_single_ok_glue parse_group_ok_glue Httl Hws HB zsorted_nil quiet_nil Hcat)
    as [z' [n [Hn Hz']]].
  exists z', n. split; [exact Hn|]. apply full_target; [exact Hv|].
  eapply zeq_trans; [exact Hz'|]. apply zput_zeq, adds_same_set; [exact PB|apply zsorted_nil].
Qed.

(* ---- AXFR-style answer to an IXFR request, with glue ---- *)
Lemma step_fallback_glue : forall l p tz ser s0 r, okrec r ->
  step l (ist false p tz ser s0 true false) (single r) =
  (ast false tIXFR p (adds [] (erase [r])) ser s0, None).
Proof.
  intros l p tz ser s0 r [Hg|Hp].
  - unfold erase. cbn [filter]. rewrite Hg. cbn [negb adds].
    unfold glue in Hg. apply andb_true_iff in Hg. destruct Hg as [Hn _]. apply Z.ltb_lt in Hn.
    unfold step, ist. cbn [done txn expecting].
    assert (E : (s_name (single r) =? origin) = false) by (apply Z.eqb_neq; cbn; unfold origin; lia).
    rewrite E, andb_false_r.
    assert (Z : in_zone (s_name (single r)) = false) by (apply Z.leb_gt; exact Hn).
    rewrite Z. reflexivity.
  - assert (Hg : glue r = false).
    { destruct Hp as (_ & _ & Hn & _). unfold glue. apply andb_false_iff. left. apply Z.ltb_ge. exact Hn. }
    unfold erase. cbn [filter]. rewrite Hg. cbn [negb]. apply step_fallback, Hp.
Qed.

Lemma cont_fallback_glue : forall ws a p tz ser v r c,
  ttl_ok (v_ttl v) -> Forall (header_ok tIXFR) ws -> okrec r -> Forall okrec c ->
  a ++ concat (map w_records ws) = r :: c ++ [soa_rr v] ->
  exists z' n, cont true (loop (ist false p tz ser (single (soa_rr v)) true false) (map single a)) ws = (Done z', n)
    /\ zeq z' (zput soakey (v_ttl v, [v_soa v]) (adds [] (erase (r :: c)))).
Proof.
  assert (PG : parse_ok_glue (group true)).
  { destruct parse_single_ok_glue as (G0 & G1 & G4).
    split; [apply parse_group_true_ok|]. split; intros; rewrite ?group_true; auto. }
  induction ws as [|w ws IH]; intros a p tz ser v r c Httl Hh Hr Hc Hcat.
  - cbn [map concat] in Hcat. rewrite app_nil_r in Hcat. subst a.
    cbn [map]. assert (L : forall rest, loop (ist false p tz ser (single (soa_rr v)) true false) (single r :: rest)
                             = loop (ast false tIXFR p (adds [] (erase [r])) ser (single (soa_rr v))) rest).
    { intros rest. cbn [loopT]. rewrite step_fallback_glue by assumption. reflexivity. }
    rewrite L.
    destruct (cont_full_glue [] true (map single) (c ++ [soa_rr v]) tIXFR p (adds [] (erase [r])) ser v c
                parse_single_ok_glue PG Httl Hh Hc) as [z' [n [Hn Hz']]].
    { apply adds_sorted, zsorted_nil. }
    { apply quiet_adds; [apply erase_plain; constructor; [exact Hr|constructor]|exact quiet_nil]. }
    { cbn. rewrite app_nil_r. reflexivity. }
    exists z', n. split; [exact Hn|].
    change (r :: c) with ([r] ++ c). rewrite erase_app, adds_app. exact Hz'.
  - destruct a as [|y a].
    + cbn [map loopT cont ist done]. inversion Hh as [|? ? Hw Hws]; subst.
      rewrite drive_cons by solve_req. unfold from_wire. rewrite group_true.
      rewrite process_running; [|repeat split; try reflexivity; discriminate|apply Hw|apply Hw]. cbn [m_answer].
      cbn [app map concat] in Hcat.
      destruct (IH (w_records w) p tz ser v r c Httl Hws Hr Hc Hcat) as [z' [n [Hn Hz']]].
      fold (ist false p tz ser (single (soa_rr v)) true false). rewrite Hn.
      exists z', (S n). split; [reflexivity|exact Hz'].
    + cbn [app] in Hcat. inversion Hcat; subst.
      cbn [map]. assert (L : forall rest, loop (ist false p tz ser (single (soa_rr v)) true false) (single r :: rest)
                             = loop (ast false tIXFR p (adds [] (erase [r])) ser (single (soa_rr v))) rest).
      { intros rest. cbn [loopT]. rewrite step_fallback_glue by assumption. reflexivity. }
      rewrite L.
      destruct (cont_full_glue (w :: ws) true (map single) a tIXFR p (adds [] (erase [r])) ser v c
                  parse_single_ok_glue PG Httl Hh Hc) as [z' [n [Hn Hz']]].
      { apply adds_sorted, zsorted_nil. }
      { apply quiet_adds; [apply erase_plain; constructor; [exact Hr|constructor]|exact quiet_nil]. }
      { assumption. }
      exists z', n. split; [exact Hn|].
      change (r :: c) with ([r] ++ c). rewrite erase_app, adds_app. exact Hz'.
Qed.

Theorem axfr_style_ixfr_converges_with_glue : forall v z0 ser recs ws,
  version_wf v -> v_rest v <> [] -> axfr_response_glue v recs ->
  v_serial v <> ser -> serial_lt (v_serial v) ser = false ->
  chunking tIXFR recs ws ->
  exists z' n, inbound_xfr z0 tIXFR (Some ser) false ws = (Done z', n) /\ zeq z' (zone_of v).
Proof.
  intros v z0 ser recs ws Hv Hne [B [HB [PB ->]]] Hs Hlt Hch.
  apply chunking_first in Hch. destruct Hch as (w & ws' & a & -> & Hr & Hw & Hws & Hcat).
  pose proof Hv as [Httl Hwf].
  destruct B as [|r c].
  { exfalso.
    destruct (v_rest v) as [|[k [t ds]] rest]; [congruence|].
    destruct Hwf as [_ Hf]. inversion Hf as [|? ? He _]; subst.
    destruct k as [[n ty] cv]. cbn in He. destruct He as (_ & _ & _ & Hds & _).
    destruct ds as [|d ds]; [congruence|].
    apply (proj2 (PB (mkRR n cIN ty cv t d))). unfold body. cbn [flat_map]. apply in_or_app. left.
    cbn. left. reflexivity. }
  inversion HB as [|? ? Hpr Hpc]; subst.
  unfold inbound_xfr, xfr_run. rewrite init_ixfr. cbn [Z.eqb tIXFR Pos.eqb]. rewrite drive_cons by solve_req.
  rewrite (first_message_ixfr z0 ser false w (soa_rr v) a Hw Hr) by (split; reflexivity).
  cbv zeta. change (r_data (soa_rr v) mod two32) with (v_serial v).
  apply Z.eqb_neq in Hs. rewrite Hs, Hlt. cbn [andb]. rewrite after_tcp by reflexivity.
  destruct (cont_fallback_glue ws' a z0 z0 ser v r c Httl Hws Hpr Hpc Hcat) as [z' [n [Hn Hz']]].
  exists z', n. split; [exact Hn|].
  apply full_target; [exact Hv|].
  eapply zeq_trans; [exact Hz'|]. apply zput_zeq, adds_same_set; [exact PB|apply zsorted_nil].
Qed.

(* ---- incremental transfers whose sections also carry out-of-zone records ---- *)
Lemma step_glue_skip_ist : forall l u p tz ser s0 dm r, glue r = true ->
  step l (ist u p tz ser s0 false dm) (single r) = (ist u p tz ser s0 false dm, None).
Proof.
  intros l u p tz ser s0 dm r Hg. unfold glue in Hg. apply andb_true_iff in Hg. destruct Hg as [Hn _].
  apply Z.ltb_lt in Hn. unfold ist, step. cbn [done txn expecting].
  assert (E : (s_name (single r) =? origin) = false) by (apply Z.eqb_neq; cbn; unfold origin; lia).
  rewrite E, andb_false_r.
  assert (Z : in_zone (s_name (single r)) = false) by (apply Z.leb_gt; exact Hn).
  rewrite Z. reflexivity.
Qed.

(* the version that is needed: all non-glue records are plain *)
Lemma loopn_erase_dels : forall x u p tz tz' ser s0,
  Forall okrec x -> quiet tz -> dels tz (erase x) = Some tz' ->
  loopn (ist u p tz ser s0 false true) (map single x) = (ist u p tz' ser s0 false true, None).
Proof.
  induction x as [|r x IH]; intros u p tz tz' ser s0 Hok Hq Hd; cbn [map erase filter] in *.
  - inversion Hd; reflexivity.
  - inversion Hok as [|? ? Hr Hok']; subst. fold (erase x) in Hd. cbn [loopn].
    destruct Hr as [Hg|Hp].
    + rewrite Hg in Hd. cbn [negb] in Hd. rewrite step_glue_skip_ist by exact Hg. apply IH; assumption.
    + assert (Hg : glue r = false).
      { destruct Hp as (_ & _ & Hn & _). unfold glue. apply andb_false_iff. left. apply Z.ltb_ge. exact Hn. }
      rewrite Hg in Hd. cbn [negb dels] in Hd. unfold ist at 1. rewrite step_plain_del by assumption.
      destruct (del1 (look tz (rkey r)) (r_data r)) as [oe|] eqn:E; [|discriminate]. apply IH; try assumption.
      apply quiet_zset; [exact Hq|]. unfold del1 in E. destruct (look tz (rkey r)); discriminate.
Qed.

Lemma loopn_erase_adds : forall x u p tz ser s0,
  Forall okrec x -> quiet tz ->
  loopn (ist u p tz ser s0 false false) (map single x) = (ist u p (adds tz (erase x)) ser s0 false false, None).
Proof.
  induction x as [|r x IH]; intros u p tz ser s0 Hok Hq; cbn [map erase filter]; [reflexivity|].
  inversion Hok as [|? ? Hr Hok']; subst. fold (erase x). cbn [loopn].
  destruct Hr as [Hg|Hp].
  - rewrite Hg. cbn [negb]. rewrite step_glue_skip_ist by exact Hg. apply IH; assumption.
  - assert (Hg : glue r = false).
    { destruct Hp as (_ & _ & Hn & _). unfold glue. apply andb_false_iff. left. apply Z.ltb_ge. exact Hn. }
    rewrite Hg. cbn [negb adds]. unfold ist at 1. rewrite step_plain_add by assumption. apply IH; [assumption|].
    apply quiet_zput; [exact Hq|rewrite rkey_kind; apply Hp].
Qed.

Inductive ixfr_seqs_glue : version -> list version -> list rr -> Prop :=
| seqsg_nil : forall v, ixfr_seqs_glue v [] []
| seqsg_cons : forall v w rest D A tail,
    Forall okrec D -> Forall okrec A ->
    Permutation (erase D) (zminus (v_rest v) (v_rest w)) ->
    same_set (erase A) (zminus (v_rest w) (v_rest v)) ->
    ixfr_seqs_glue w rest tail ->
    ixfr_seqs_glue v (w :: rest) (soa_rr v :: D ++ soa_rr w :: A ++ tail).

Definition ixfr_response_glue (v0 : version) (chain : list version) (recs : list rr) : Prop :=
  exists mid, ixfr_seqs_glue v0 chain mid /\
              recs = soa_rr (last chain v0) :: mid ++ [soa_rr (last chain v0)].

Lemma section_run_glue : forall u p tz vn a b e D A,
  version_wf a -> version_wf b -> v_soa a <> v_soa vn -> zsorted tz ->
  (forall k, k <> soakey -> look tz k = look (v_rest a) k) ->
  Forall okrec D -> Forall okrec A ->
  Permutation (erase D) (zminus (v_rest a) (v_rest b)) -> same_set (erase A) (zminus (v_rest b) (v_rest a)) ->
  exists tz',
    loopn (ist u p tz (v_serial a) (single (soa_rr vn)) e false) (map single (soa_rr a :: D ++ soa_rr b :: A)) =
    (ist u p tz' (v_serial b) (single (soa_rr vn)) false false, None)
    /\ zeq tz' (zone_of b).
Proof.
  intros u p tz vn a b e D A [Hta Ha] [Htb Hb] Hne Hs Hz OD OA PD PA.
  destruct (diff_apply (v_rest a) (v_rest b) tz Ha Hb Hz) as [z1 [Hd [_ Hadd]]].
  destruct (dels_perm _ (erase D) tz z1 (Permutation_sym PD) Hs Hd) as [z1' [Hd' Hz1]].
  assert (Hq : quiet tz) by (apply (agree_quiet (v_rest a)); assumption).
  assert (Hq1 : quiet z1') by (apply (quiet_dels _ _ _ Hd' Hq)).
  assert (Hq2 : quiet (zput soakey (v_ttl b, [v_soa b]) z1')) by (apply quiet_zput; [exact Hq1|discriminate]).
  exists (adds (zput soakey (v_ttl b, [v_soa b]) z1') (erase A)). split.
  - cbn [map loopn]. rewrite step_del_start by assumption.
    rewrite map_app, loopn_app.
    rewrite (loopn_erase_dels D u p tz z1' _ _ OD Hq Hd').
    cbn [map loopn]. rewrite step_add_start by assumption.
    rewrite (loopn_erase_adds A u p _ _ _ OA Hq2). reflexivity.
  - assert (S1 : zsorted z1').
    { intros k. pose proof (look_dels_fd _ _ _ Hd' k) as F.
      clear - F Hs. revert F. generalize (look z1' k). generalize (Hs k). generalize (look tz k).
      induction (erase D) as [|r D' IH]; intros e0 He0 e1 F; cbn [fd] in F.
      - inversion F; subst; exact He0.
      - destruct (key_eqb (rkey r) k); [|eapply IH; eassumption].
        destruct (del1 e0 (r_data r)) as [e'|] eqn:E; cbn [bindo] in F; [|discriminate].
        eapply IH; [|exact F]. eapply wf_e_del1; eassumption. }
    eapply zeq_trans; [apply adds_same_set; [exact PA|apply zsorted_zput_one, S1]|].
    eapply zeq_trans; [apply adds_zeq, zput_zeq, Hz1|].
    intros k. rewrite Hadd, look_zone_of. reflexivity.
Qed.

Lemma chain_run_glue : forall u chain p tz vn v0 e mid,
  ixfr_seqs_glue v0 chain mid ->
  chain <> [] -> version_wf v0 -> Forall version_wf chain -> zsorted tz ->
  (forall v, In v (v0 :: removelast chain) -> v_soa v <> v_soa vn) ->
  (forall k, k <> soakey -> look tz k = look (v_rest v0) k) ->
  exists tz',
    loopn (ist u p tz (v_serial v0) (single (soa_rr vn)) e false) (map single mid) =
    (ist u p tz' (v_serial (last chain v0)) (single (soa_rr vn)) false false, None)
    /\ zeq tz' (zone_of (last chain v0)).
Proof.
  intros u chain p tz vn v0 e mid HS. revert p tz e.
  induction HS as [v|v w rest D A tail OD OA PD PA HS IH]; intros p tz e Hne Hv0 Hch Hs Hd Hz; [congruence|].
  inversion Hch as [|? ? Hw Hch']; subst.
  destruct (section_run_glue u p tz vn v w e D A Hv0 Hw (Hd v (or_introl eq_refl)) Hs Hz OD OA PD PA) as [tz1 [Hr1 Hz1]].
  assert (E : soa_rr v :: D ++ soa_rr w :: A ++ tail = (soa_rr v :: D ++ soa_rr w :: A) ++ tail).
  { cbn [app]. f_equal. rewrite <- app_assoc. reflexivity. }
  rewrite E, map_app, loopn_app, Hr1.
  destruct rest as [|w2 rest].
  - inversion HS; subst. cbn [map loopn last]. exists tz1. auto.
  - assert (H1 : w2 :: rest <> []) by discriminate.
    assert (H2 : forall x, In x (w :: removelast (w2 :: rest)) -> v_soa x <> v_soa vn).
    { intros x Hin. apply Hd. right. exact Hin. }
    assert (H3 : forall k, k <> soakey -> look tz1 k = look (v_rest w) k).
    { intros k Hk. rewrite Hz1, look_zone_of. apply key_eqb_neq in Hk. rewrite Hk. reflexivity. }
    assert (S1 : zsorted tz1) by (eapply zsorted_zeq; [exact Hz1|apply zsorted_zone_of, Hw]).
    destruct (IH p tz1 false H1 Hw Hch' S1 H2 H3) as [tz2 [Hr2 Hz2]].
    change (last (w :: w2 :: rest) v) with (last (w2 :: rest) v).
    rewrite (last_default (w2 :: rest) v w H1).
    exists tz2. split; [exact Hr2|exact Hz2].
Qed.

Theorem ixfr_converges_with_glue : forall v0 chain z0 recs ws,
  chain_ok v0 chain -> zeq z0 (zone_of v0) -> ixfr_response_glue v0 chain recs -> chunking tIXFR recs ws ->
  exists z' n, inbound_xfr z0 tIXFR (Some (v_serial v0)) false ws = (Done z', n)
               /\ zeq z' (zone_of (last chain v0)).
Proof.
  intros v0 chain z0 recs ws Hok Hz [mid [HS ->]] Hch.
  apply chunking_first in Hch. destruct Hch as (w & ws' & a & -> & Hr & Hw & Hws & Hcat).
  pose proof Hok as (Hne0 & Hv0 & Hchain & Hser & Hlt).
  destruct (chain_run_glue false chain z0 z0 (last chain v0) v0 true mid HS Hne0 Hv0 Hchain) as [tz' [Hl Hz']].
  { eapply zsorted_zeq; [exact Hz|apply zsorted_zone_of, Hv0]. }
  { apply chain_ok_soa, Hok. }
  { intros k Hk. rewrite Hz, look_zone_of. apply key_eqb_neq in Hk. rewrite Hk. reflexivity. }
  pose proof (version_wf_last chain v0 Hv0 Hchain) as Hvn. pose proof Hvn as [Httl _].
  pose proof (step_final false z0 tz' (last chain v0) Httl (zeq_zone_of_quiet _ _ Hvn Hz')) as Hf.
  unfold inbound_xfr, xfr_run. rewrite init_ixfr. cbn [Z.eqb tIXFR Pos.eqb]. rewrite drive_cons by solve_req.
  rewrite (first_message_ixfr z0 (v_serial v0) false w (soa_rr (last chain v0)) a Hw Hr) by (split; reflexivity).
  cbv zeta. change (r_data (soa_rr (last chain v0)) mod two32) with (v_serial (last chain v0)).
  assert (Hne : (v_serial (last chain v0) =? v_serial v0) = false).
  { apply Z.eqb_neq. intros E. apply (Hser v0 (or_introl eq_refl)). symmetry. exact E. }
  rewrite Hne, Hlt. cbn [andb]. rewrite after_tcp by reflexivity.
  assert (Hrun : running (ist false z0 z0 (v_serial v0) (single (soa_rr (last chain v0))) true false)).
  { repeat split; try reflexivity; discriminate. }
  destruct (cont_records ws' a (ist false z0 z0 (v_serial v0) (single (soa_rr (last chain v0))) true false)
              mid (soa_rr (last chain v0)) _ _ Hrun Hws Hcat Hl eq_refl Hf eq_refl) as [n Hn].
  eexists. exists n. split; [exact Hn|].
  cbn [pub]. intros k. rewrite look_zput, look_zone_of.
  destruct (key_eqb k soakey) eqn:E; [reflexivity|]. rewrite Hz', look_zone_of, E. reflexivity.
Qed.
