(* The RFC 8945 digest input determines the authenticated fields (injectivity), hence an
   accepted message that differs from the signed one in an authenticated field exhibits a
   collision of the (truncated) keyed hash on two distinct inputs.  No assumption on H. *)
From DV Require Import Base.Prelude.
From DV Require Model.NameM.
From DV Require Import Model.TsigM Proofs.TsigSpec Proofs.TsigLemmas.
Open Scope Z_scope.

Lemma app_inv_len : forall (A : Type) (a b c d : list A),
  a ++ b = c ++ d -> length a = length c -> a = c /\ b = d.
Proof.
  intros A a. induction a as [|x a IH]; intros b c d E L; destruct c as [|y c]; cbn in *; try discriminate.
  - auto.
  - inversion E; subst. inversion L. destruct (IH _ _ _ H1 H0). subst. auto.
Qed.

Lemma app_inv_len_r : forall (A : Type) (a b c d : list A),
  a ++ b = c ++ d -> length b = length d -> a = c /\ b = d.
Proof.
  intros A a b c d E L. apply app_inv_len; [assumption|].
  apply (f_equal (@length A)) in E. rewrite !app_length in E. lia.
Qed.

(* the well-formedness the TSIG rdata constructor guarantees *)
Definition vars_wf (oid : Z) (v : tsig_variables) : Prop :=
  0 <= oid < 65536 /\ 0 <= v_time v < 281474976710656 /\ 0 <= v_fudge v < 65536
  /\ 0 <= v_error v < 65536 /\ olen (v_other v) < 65536.

Lemma pow_2 : 256 ^ Z.of_nat 2 = 65536. Proof. reflexivity. Qed.
Lemma pow_6 : 256 ^ Z.of_nat 6 = 281474976710656. Proof. reflexivity. Qed.

(* Same receiver key (canonical name and algorithm name), same request MAC, same shape (the
   digested messages or the other-data fields have the same length): equal inputs force equal
   original id, message octets, time, fudge, error and other data. *)
Lemma rfc_input_injective : forall rm oid1 oid2 w1 w2 v1 v2,
  canonical_name (v_name v1) = canonical_name (v_name v2) ->
  canonical_name (v_alg v1) = canonical_name (v_alg v2) ->
  (length (skipn 2 w1) = length (skipn 2 w2) \/ length (v_other v1) = length (v_other v2)) ->
  vars_wf oid1 v1 -> vars_wf oid2 v2 ->
  rfc8945_input rm oid1 w1 v1 = rfc8945_input rm oid2 w2 v2 ->
  oid1 = oid2 /\ skipn 2 w1 = skipn 2 w2 /\ v_time v1 = v_time v2 /\ v_fudge v1 = v_fudge v2
  /\ v_error v1 = v_error v2 /\ v_other v1 = v_other v2.
Proof.
  intros rm oid1 oid2 w1 w2 v1 v2 Kn An Sh (O1 & T1 & F1 & E1 & L1) (O2 & T2 & F2 & E2 & L2) E.
  unfold rfc8945_input in E. apply app_inv_head in E.
  unfold rfc_dns_message, rfc_tsig_variables in E. rewrite Kn, An in E.
  repeat rewrite <- app_assoc in E.
  (* original id *)
  apply app_inv_len in E as [Eo E]; [|now rewrite !be_length].
  apply be_inj in Eo; [|rewrite pow_2; lia|rewrite pow_2; lia].
  (* lengths *)
  assert (LEN : length (skipn 2 w1) = length (skipn 2 w2)).
  { destruct Sh as [S|S]; [exact S|].
    apply (f_equal (@length Z)) in E. repeat rewrite app_length in E. rewrite !be_length in E. lia. }
  apply app_inv_len in E as [Ew E]; [|exact LEN].
  apply app_inv_head in E. apply app_inv_head in E. apply app_inv_head in E. apply app_inv_head in E.
  apply app_inv_len in E as [Et E]; [|now rewrite !be_length].
  apply app_inv_len in E as [Ef E]; [|now rewrite !be_length].
  apply app_inv_len in E as [Ee E]; [|now rewrite !be_length].
  apply app_inv_len in E as [_ Eot]; [|now rewrite !be_length].
  apply be_inj in Et; [|rewrite pow_6; lia|rewrite pow_6; lia].
  apply be_inj in Ef; [|rewrite pow_2; lia|rewrite pow_2; lia].
  apply be_inj in Ee; [|rewrite pow_2; lia|rewrite pow_2; lia].
  repeat split; assumption.
Qed.

(* the request MAC is bound: two inputs that differ only in the request MAC are different *)
Lemma rfc_input_request_mac_injective : forall rm1 rm2 oid w v,
  (forall m, rm1 = Some m -> olen m < 65536) -> (forall m, rm2 = Some m -> olen m < 65536) ->
  rfc8945_input rm1 oid w v = rfc8945_input rm2 oid w v -> rm1 = rm2.
Proof.
  intros rm1 rm2 oid w v L1 L2 E. unfold rfc8945_input in E.
  apply app_inv_tail in E.
  destruct rm1 as [m1|], rm2 as [m2|]; unfold rfc_request_mac in E.
  - assert (LEN : length m1 = length m2).
    { apply (f_equal (@length Z)) in E. rewrite !app_length, !be_length in E. lia. }
    apply app_inv_len_r in E as [_ ->]; auto.
  - apply (f_equal (@length Z)) in E. rewrite app_length, be_length in E. cbn in E. lia.
  - apply (f_equal (@length Z)) in E. rewrite app_length, be_length in E. cbn in E. lia.
  - reflexivity.
Qed.

Lemma omac_inj : forall a b, omac a = omac b -> a = b.
Proof. intros [|x a] [|y b]; cbn; intros E; try discriminate; congruence. Qed.

Definition tsig_wf (rd : tsig) : Prop :=
  0 <= t_oid rd < 65536 /\ 0 <= t_time rd < 281474976710656 /\ 0 <= t_fudge rd < 65536
  /\ 0 <= t_error rd < 65536 /\ zlen (t_other rd) < 65536.

Lemma mk_tsig_wf : forall a t f m o e ot r, mk_tsig a t f m o e ot = Ok r -> zlen ot < 65536 -> tsig_wf r.
Proof.
  intros a t f m o e ot r M L. unfold mk_tsig in M.
  destruct (in_u48 t) eqn:A; cbn [negb] in M; [|discriminate].
  destruct (in_u16 f) eqn:B; cbn [negb] in M; [|discriminate].
  destruct (in_u16 o) eqn:C; cbn [negb] in M; [|discriminate].
  destruct ((0 <=? e) && (e <=? 4095)) eqn:D; cbn [negb] in M; [|discriminate].
  inversion M. unfold tsig_wf. cbn.
  apply in_u16_iff in B, C. unfold in_u48 in A.
  apply andb_true_iff in A as [A1 A2], D as [D1 D2].
  apply Z.leb_le in A1, D1, D2. apply Z.ltb_lt in A2. lia.
Qed.

Section WithH.
  Variable H : hashid -> bytes -> bytes -> bytes.

  (* the authenticated content of a received message, as RFC 8945 4.3 defines it: the message
     before the TSIG RR from octet 2 on (ARCOUNT decremented), original id, time, fudge,
     error, other data; key name and algorithm are the receiver's *)
  Definition authenticated (wire : bytes) (adcount : Z) (start : nat) (rd : tsig) :=
    (skipn 2 (rfc_received_message wire adcount start), t_oid rd, t_time rd, t_fudge rd,
     t_error rd, t_other rd).

  (* Two messages accepted under the same key, request MAC and MAC value: either their
     authenticated content is identical, or the keyed hash collides (after truncation) on the
     two distinct RFC inputs. *)
  Lemma tamper_needs_collision_lemma :
    forall k rmac ctx multi wire1 owner1 rd1 now1 start1 r1 wire2 owner2 rd2 now2 start2 r2,
      (ctx = None \/ multi = false) ->
      all_bytes wire1 = true -> all_bytes wire2 = true ->
      tsig_wf rd1 -> tsig_wf rd2 ->
      validate H wire1 k owner1 rd1 now1 rmac start1 ctx multi = Ok r1 ->
      validate H wire2 k owner2 rd2 now2 rmac start2 ctx multi = Ok r2 ->
      t_mac rd1 = t_mac rd2 ->
      exists ad1 ad2 h sz,
        get_adcount wire1 = Ok ad1 /\ get_adcount wire2 = Ok ad2 /\
        assoc_name hashes (kalg k) = Some (h, sz) /\
        let d1 := rfc8945_input (omac rmac) (t_oid rd1) (rfc_received_message wire1 ad1 start1) (vars_of k rd1 (t_time rd1)) in
        let d2 := rfc8945_input (omac rmac) (t_oid rd2) (rfc_received_message wire2 ad2 start2) (vars_of k rd2 (t_time rd2)) in
        ((length (skipn 2 (rfc_received_message wire1 ad1 start1)) = length (skipn 2 (rfc_received_message wire2 ad2 start2))
          \/ length (t_other rd1) = length (t_other rd2)) ->
         authenticated wire1 ad1 start1 rd1 = authenticated wire2 ad2 start2 rd2
         \/ (d1 <> d2 /\
             rfc_truncate (trunc_of sz) (H h (ksecret k) d1) = rfc_truncate (trunc_of sz) (H h (ksecret k) d2))).
  Proof.
    intros until r2. intros F A1 A2 W1 W2 V1 V2 M.
    apply (validate_accepts_mac_is_rfc H) in V1 as (ad1 & h1 & sz1 & P1 & Hh1 & M1); try assumption.
    apply (validate_accepts_mac_is_rfc H) in V2 as (ad2 & h2 & sz2 & P2 & Hh2 & M2); try assumption.
    rewrite Hh1 in Hh2. inversion Hh2; subst h2 sz2. clear Hh2.
    exists ad1, ad2, h1, sz1.
    destruct P1 as (G1 & _). destruct P2 as (G2 & _).
    repeat split; try assumption.
    intros d1 d2 Sh.
    destruct (list_eq_dec Z.eq_dec d1 d2) as [E|NE].
    - left. unfold d1, d2 in E.
      assert (V1 : vars_wf (t_oid rd1) (vars_of k rd1 (t_time rd1))).
      { destruct W1 as (a & b & c & d & e). unfold vars_wf, olen. cbn. unfold zlen in e. auto. }
      assert (V2 : vars_wf (t_oid rd2) (vars_of k rd2 (t_time rd2))).
      { destruct W2 as (a & b & c & d & e). unfold vars_wf, olen. cbn. unfold zlen in e. auto. }
      pose proof (rfc_input_injective (omac rmac) (t_oid rd1) (t_oid rd2) _ _
                    (vars_of k rd1 (t_time rd1)) (vars_of k rd2 (t_time rd2))
                    eq_refl eq_refl Sh V1 V2 E)
        as (Eo & Ew & Et & Ef & Ee & Eot).
      cbn in Et, Ef, Ee, Eot. unfold authenticated. congruence.
    - right. split; [exact NE|]. fold d1 in M1. fold d2 in M2. congruence.
  Qed.

  (* a response is bound to the request MAC: validating with a different request MAC than the
     one the signer used succeeds only on a collision *)
  Lemma wrong_request_mac_lemma :
    forall wire k rd t rmac1 rmac2 ctx multi rd' c' wire' start adcount now owner r,
      (ctx = None \/ multi = false) ->
      all_bytes wire' = true ->
      zlen rmac1 < 65536 -> zlen rmac2 < 65536 ->
      sign H wire k rd (Some t) rmac1 ctx multi = Ok (rd', c') ->
      get_adcount wire' = Ok adcount ->
      rfc_received_message wire' adcount start = wire ->
      rmac1 <> rmac2 ->
      validate H wire' k owner rd' now rmac2 start ctx multi = Ok r ->
      exists h sz,
        assoc_name hashes (kalg k) = Some (h, sz) /\
        let d1 := rfc8945_input (omac rmac1) (t_oid rd) wire (vars_of k rd t) in
        let d2 := rfc8945_input (omac rmac2) (t_oid rd) wire (vars_of k rd t) in
        d1 <> d2 /\
        rfc_truncate (trunc_of sz) (H h (ksecret k) d1) = rfc_truncate (trunc_of sz) (H h (ksecret k) d2).
  Proof.
    intros until r. intros F A L1 L2 S G W NE V.
    apply (sign_mac_is_rfc H) in S as (h & sz & Hh & Ms & Ft & Fa & Ff & Fo & Fe & Fot); [|assumption].
    apply (validate_accepts_mac_is_rfc H) in V as (ad & h2 & sz2 & P & Hh2 & Mv); try assumption.
    rewrite Hh in Hh2. inversion Hh2; subst h2 sz2. clear Hh2.
    destruct P as (G' & _). rewrite G in G'. inversion G'; subst ad. clear G'.
    rewrite W in Mv.
    exists h, sz. split; [assumption|]. intros d1 d2.
    assert (VE : vars_of k rd' (t_time rd') = vars_of k rd t).
    { unfold vars_of. rewrite Ft, Ff, Fe, Fot. reflexivity. }
    rewrite VE, Fo in Mv.
    split.
    - intro E. unfold d1, d2 in E. apply rfc_input_request_mac_injective in E.
      + apply omac_inj in E. contradiction.
      + intros m Hm. destruct rmac1; inversion Hm; subst. exact L1.
      + intros m Hm. destruct rmac2; inversion Hm; subst. exact L2.
    - fold d1 in Ms. fold d2 in Mv. congruence.
  Qed.
End WithH.
