(* sign_zone -> _sign_zone_nsec: the NSEC chain and the set of signed RRsets equal the reference
   (RFC 4035 2.2/2.3): every authoritative name exactly once, in canonical order, next = canonical
   successor, the last one wraps to the origin, names beneath delegations are skipped, exact bitmaps. *)
From Coq Require Import Permutation Sorted.
From DV Require Import Base.Prelude Model.NameM Model.DnssecM.
From DV Require Import Proofs.NameOrder Proofs.NameValid Proofs.NameRel Proofs.DnssecRef Proofs.DnssecSort
     Proofs.DnssecBitmap Proofs.DnssecOrder.
Open Scope Z_scope.

Fixpoint chain_pairs (present : name -> list Z) (l : list name) : list (name * name * list Z) :=
  match l with
  | a :: ((b :: _) as r) => (a, b, present a) :: chain_pairs present r
  | _ => []
  end.

Lemma chain_pairs_snoc present : forall l m n,
  chain_pairs present ((l ++ [m]) ++ [n]) = chain_pairs present (l ++ [m]) ++ [(m, n, present m)].
Proof.
  induction l as [|a l IH]; intros m n; [reflexivity|].
  cbn [app]. destruct l as [|b l]; [reflexivity|].
  cbn [app chain_pairs] in *. f_equal. apply (IH m n).
Qed.

Lemma rfc_chain_pairs origin apex nodes : forall l m,
  rfc_chain origin apex nodes (l ++ [m])
  = chain_pairs (rfc_present_types apex nodes) (l ++ [m]) ++ [(m, origin, rfc_present_types apex nodes m)].
Proof.
  induction l as [|a l IH]; intros m; [reflexivity|].
  cbn [app rfc_chain]. rewrite IH. destruct l as [|b l]; reflexivity.
Qed.

Lemma nsec_calls_app a b : nsec_calls (a ++ b) = nsec_calls a ++ nsec_calls b.
Proof. unfold nsec_calls. apply flat_map_app. Qed.
Lemma rr_calls_app a b : rr_calls (a ++ b) = rr_calls a ++ rr_calls b.
Proof. unfold rr_calls. apply flat_map_app. Qed.

Section Chain.
  Variables (origin apex : name) (relativize : bool) (nodes : list znode) (sorted : list name) (ab : bool).

  Notation types_at := (types_at nodes).
  Notation cut := (rfc_cut apex nodes).
  Notation occl := (rfc_occluded apex nodes sorted).
  Notation present := (rfc_present_types apex nodes).
  Definition pkeep (n : name) : bool := negb (occl n).

  Hypothesis Hdist : ci_distinct sorted.
  Hypothesis Habs : Forall (fun n => is_absolute n = ab) sorted.
  Hypothesis Hsorted : StronglySorted name_le sorted.
  Hypothesis Horigin : is_absolute origin = true.
  Hypothesis Hform : (ab = true /\ apex = origin /\ relativize = false)
                     \/ (ab = false /\ apex = [] /\ relativize = true).
  Hypothesis Htypes : forall n, In n sorted ->
      types_at n <> [] /\ Forall (fun t => 1 <= t <= 65535) (types_at n).

  (* what the loop's delegation variable amounts to *)
  Definition raw_cut (n : name) : bool := has_type (types_at n) tNS && negb (name_eqb n origin).
  Definition deleg_of (n : name) : option name := if raw_cut n then Some n else None.

  Lemma abs_of n : In n sorted -> is_absolute n = ab.
  Proof. intros H. rewrite Forall_forall in Habs. now apply Habs. Qed.

  Lemma name_eqb_diff_abs a b : is_absolute a <> is_absolute b -> name_eqb a b = false.
  Proof.
    intros H. destruct (name_eqb a b) eqn:E; [|reflexivity].
    apply name_eqb_iff_ci in E. apply ci_equal_absolute in E. contradiction.
  Qed.

  Lemma name_eqb_nil n : name_eqb n [] = match n with [] => true | _ => false end.
  Proof.
    destruct n as [|l n]; [apply name_eqb_iff_ci; reflexivity|].
    destruct (name_eqb (l :: n) []) eqn:E; [|reflexivity].
    apply name_eqb_iff_ci in E. discriminate.
  Qed.

  Lemma truthy_deleg n : In n sorted -> truthy (deleg_of n) = cut n.
  Proof.
    intros Hn. unfold deleg_of, raw_cut, rfc_cut. pose proof (abs_of n Hn) as Ea.
    destruct Hform as [(-> & -> & _)|(-> & -> & _)].
    - destruct (has_type (types_at n) tNS && negb (name_eqb n origin)); [|reflexivity].
      destruct n; [discriminate|reflexivity].
    - rewrite (name_eqb_diff_abs n origin) by congruence. rewrite name_eqb_nil.
      destruct (has_type (types_at n) tNS); destruct n; reflexivity.
  Qed.

  Lemma deleg_subdomain n x : In n sorted ->
    (match deleg_of n with Some (y :: d) => is_subdomain x (y :: d) | _ => false end)
    = cut n && is_subdomain x n.
  Proof.
    intros Hn. rewrite <- (truthy_deleg n Hn). unfold deleg_of.
    destruct (raw_cut n); [|reflexivity]. destruct n; reflexivity.
  Qed.

  Lemma get_node_types n : In n sorted -> exists t ts, get_node nodes n = Some (t :: ts) /\ types_at n = t :: ts.
  Proof.
    intros Hn. destruct (Htypes n Hn) as [Hne _]. unfold DnssecRef.types_at in *.
    destruct (get_node nodes n) as [[|t ts]|]; try congruence. eauto.
  Qed.

  (* ---------- the skip test is the reference's "below a zone cut" ---------- *)
  Lemma first_not_occluded n suf : sorted = n :: suf -> occl n = false.
  Proof.
    intros E. unfold rfc_occluded. apply not_true_is_false. intros H.
    apply existsb_exists in H as (c & Hc & Hp). apply andb_true_iff in Hp as [Hp Hs]. apply andb_true_iff in Hp as [_ Hne].
    apply negb_true_iff in Hne. pose proof (proper_ancestor_lt _ _ Hs Hne) as Hlt.
    assert (Hs' := Hsorted). rewrite E in Hs', Hc. apply StronglySorted_inv in Hs' as [_ Hall].
    destruct Hc as [<-|Hc]; [rewrite order_refl in Hlt; lia|].
    rewrite Forall_forall in Hall. specialize (Hall _ Hc). unfold name_le in Hall.
    apply order_antisym_lt in Hlt. lia.
  Qed.

  Lemma occluder_before pre n suf c :
    sorted = pre ++ n :: suf -> In c sorted -> name_eqb c n = false -> is_subdomain n c = true -> In c pre.
  Proof.
    intros E Hc Hne Hs. pose proof (proper_ancestor_lt _ _ Hs Hne) as Hlt.
    rewrite E in Hc. apply in_app_or in Hc as [Hc|Hc]; [exact Hc|exfalso].
    assert (Hs' := Hsorted). rewrite E in Hs'. apply sorted_app_inv in Hs' as (_ & S2 & _).
    apply StronglySorted_inv in S2 as [_ Hall].
    destruct Hc as [<-|Hc]; [rewrite order_refl in Hlt; lia|].
    rewrite Forall_forall in Hall. specialize (Hall _ Hc). unfold name_le in Hall.
    apply order_antisym_lt in Hlt. lia.
  Qed.

  Lemma distinct_neq pre n suf x : sorted = pre ++ n :: suf -> In x pre -> name_eqb x n = false.
  Proof.
    intros E Hx. destruct (name_eqb x n) eqn:Eq; [|reflexivity]. exfalso.
    apply name_eqb_iff_ci in Eq. destruct Hdist as [N D].
    assert (x = n) by (apply D; [rewrite E; apply in_or_app; now left|rewrite E; apply in_or_app; right; now left|exact Eq]).
    subst x. rewrite E in N. apply NoDup_remove_2 in N. apply N. apply in_or_app. now left.
  Qed.

  (* state of the loop after the names `pre` *)
  Inductive SInv (pre : list name) (s : sst) : Prop :=
  | SInv_intro (pre1 : list name) (m : name) (after : list name)
      (si_split : pre = pre1 ++ m :: after)
      (si_keep_m : pkeep m = true)
      (si_after_occ : Forall (fun x => pkeep x = false) after)
      (si_after_sub : Forall (fun x => is_subdomain x m = true) after)
      (si_after_cut : after <> [] -> cut m = true)
      (si_last : s_last s = Some m)
      (si_deleg : s_deleg s = deleg_of m)
      (si_last_deleg : s_last_deleg s = cut m)
      (si_rr : rr_calls (s_calls s) = rfc_signed apex nodes (filter pkeep pre))
      (si_nsec : Forall2 nsec_matches (nsec_calls (s_calls s)) (chain_pairs present (filter pkeep pre))).

  Lemma filter_split pre1 m after :
    pkeep m = true -> Forall (fun x => pkeep x = false) after ->
    filter pkeep (pre1 ++ m :: after) = filter pkeep pre1 ++ [m].
  Proof.
    intros Hm Ha. rewrite filter_app. cbn [filter]. rewrite Hm. f_equal. f_equal.
    induction Ha as [|x r Hx _ IH]; [reflexivity|]. cbn [filter]. now rewrite Hx.
  Qed.

  Lemma skip_iff pre s n suf :
    sorted = pre ++ n :: suf -> SInv pre s ->
    (match s_deleg s with Some (x :: d) => is_subdomain n (x :: d) | _ => false end) = occl n.
  Proof.
    intros E I. destruct I as [pre1 m after Esp Km Ao As Ac Hl Hd Hld _ _].
    assert (Hm_in : In m sorted) by (rewrite E, Esp; apply in_or_app; left; apply in_or_app; right; now left).
    assert (Hn_in : In n sorted) by (rewrite E; apply in_or_app; right; now left).
    rewrite Hd, (deleg_subdomain m n Hm_in).
    destruct (cut m && is_subdomain n m) eqn:Em.
    - (* model skips -> occluded by m *)
      symmetry. apply existsb_exists. exists m. split; [exact Hm_in|].
      apply andb_true_iff in Em as [Ec Es]. rewrite Ec, Es.
      rewrite (distinct_neq pre n suf m E) by (rewrite Esp; apply in_or_app; right; now left). reflexivity.
    - (* model does not skip -> not occluded *)
      symmetry. apply not_true_is_false. intros H.
      apply existsb_exists in H as (c & Hc & Hp). apply andb_true_iff in Hp as [Hp Hs]. apply andb_true_iff in Hp as [Hcut Hne].
      apply negb_true_iff in Hne.
      pose proof (occluder_before pre n suf c E Hc Hne Hs) as Hcp.
      rewrite Esp in Hcp. apply in_app_or in Hcp as [Hc1|[<-|Hca]].
      + (* c before m: then m itself would be occluded *)
        assert (Hs_all := Hsorted). rewrite E, Esp in Hs_all.
        rewrite <- app_assoc in Hs_all. cbn [app] in Hs_all.
        apply sorted_app_inv in Hs_all as (_ & S2 & C1).
        assert (Lcm : name_le c m) by (apply C1; [exact Hc1|now left]).
        apply StronglySorted_inv in S2 as [_ Hm_all].
        assert (Lmn : name_le m n).
        { rewrite Forall_forall in Hm_all. apply Hm_all. apply in_or_app. right. now left. }
        assert (Hsm : is_subdomain m c = true).
        { apply (subtree_contiguous c m n); auto; rewrite !abs_of; auto. }
        assert (Hcm : name_eqb c m = false).
        { apply (distinct_neq pre1 m (after ++ n :: suf)); [|exact Hc1].
          rewrite E, Esp. rewrite <- app_assoc. reflexivity. }
        unfold pkeep in Km. apply negb_true_iff in Km.
        assert (occl m = true); [|congruence].
        apply existsb_exists. exists c. split; [exact Hc|]. now rewrite Hcut, Hcm, Hsm.
      + (* c = m *)
        rewrite Hcut, Hs in Em. discriminate.
      + (* c after m: c is below m, m is a cut *)
        rewrite Forall_forall in As. specialize (As _ Hca).
        assert (cut m = true) by (apply Ac; intros ->; destruct Hca).
        rewrite H, (is_subdomain_trans _ _ _ Hs As) in Em. discriminate.
  Qed.
  (* ---------- what one visited name contributes ---------- *)
  Lemma sign_rrsets_calls (n : name) (c : bool) (ts : list Z) :
    rr_calls (sign_rrsets n ts (if c then Some n else None)) =
      map (pair n) (filter (fun t => negb (t =? tRRSIG) && (negb (truthy (if c then Some n else None)) || (t =? tDS))) ts)
    /\ nsec_calls (sign_rrsets n ts (if c then Some n else None)) = [].
  Proof.
    induction ts as [|t ts [IH1 IH2]]; [split; reflexivity|].
    unfold sign_rrsets in *. cbn [flat_map filter].
    rewrite rr_calls_app, nsec_calls_app, IH1, IH2.
    destruct (t =? tRRSIG); cbn [negb andb]; [split; reflexivity|].
    destruct (truthy (if c then Some n else None)); cbn [negb andb orb].
    - destruct (t =? tDS); cbn [negb]; split; reflexivity.
    - split; reflexivity.
  Qed.

  Lemma rr_calls_sign n : In n sorted ->
    rr_calls (sign_rrsets n (types_at n) (deleg_of n)) = rfc_signed apex nodes [n]
    /\ nsec_calls (sign_rrsets n (types_at n) (deleg_of n)) = [].
  Proof.
    intros Hn. unfold deleg_of. destruct (sign_rrsets_calls n (raw_cut n) (types_at n)) as [H1 H2].
    split; [|exact H2]. rewrite H1. unfold rfc_signed. cbn [flat_map]. rewrite app_nil_r.
    fold (deleg_of n). now rewrite (truthy_deleg n Hn).
  Qed.

  Lemma add_nsec_ok m nx at_d :
    In m sorted -> nx <> [] -> at_d = cut m ->
    exists ws, add_nsec nodes m nx at_d = Ok [SignNSEC m nx ws]
               /\ nsec_matches (m, nx, ws) (m, nx, present m).
  Proof.
    intros Hm Hnx ->. destruct (get_node_types m Hm) as (t & ts & Eg & Et).
    destruct (Htypes m Hm) as [_ Hr]. rewrite Et in Hr.
    unfold add_nsec. rewrite Eg. destruct nx as [|x nx]; [congruence|].
    set (tys := (if cut m then filter (fun x0 => (x0 =? tNS) || (x0 =? tDS)) (t :: ts) else t :: ts) ++ [tRRSIG; tNSEC]).
    assert (Hrange : Forall (fun u => 0 <= u <= 65535) tys).
    { unfold tys. apply Forall_app. split.
      - assert (F : Forall (fun u => 0 <= u <= 65535) (t :: ts)) by (eapply Forall_impl; [|exact Hr]; cbn; intros; lia).
        destruct (cut m); [|exact F]. apply Forall_forall. intros u Hu. apply filter_In in Hu as [Hu _].
        rewrite Forall_forall in F. now apply F.
      - repeat constructor; unfold tRRSIG, tNSEC; lia. }
    destruct (from_rdtypes_members tys Hrange) as (ws & Ews & Wf & Si & Mem).
    exists ws. fold tys. rewrite Ews. cbn [bind]. split; [reflexivity|].
    assert (Ep : present m = tys) by (unfold rfc_present_types, tys; now rewrite Et).
    unfold nsec_matches, is_type_set. cbn [fst snd]. rewrite Ep.
    split; [reflexivity|]. split; [reflexivity|]. split; [exact Wf|]. split; [exact Si|exact Mem].
  Qed.

  Lemma rfc_signed_app a b : rfc_signed apex nodes (a ++ b) = rfc_signed apex nodes a ++ rfc_signed apex nodes b.
  Proof. unfold rfc_signed. apply flat_map_app. Qed.

  Definition sst_init : sst := {| s_deleg := None; s_last := None; s_last_deleg := false; s_calls := [] |}.

  Lemma sz_step_first n suf :
    sorted = n :: suf -> exists s', sz_step nodes origin sst_init n = Ok s' /\ SInv [n] s'.
  Proof.
    intros E. assert (Hn : In n sorted) by (rewrite E; now left).
    unfold sz_step, sst_init. cbn [s_deleg s_last s_last_deleg s_calls bind app].
    fold (types_at n). change (if has_type (types_at n) tNS && negb (name_eqb n origin) then Some n else None) with (deleg_of n).
    eexists. split; [reflexivity|].
    destruct (rr_calls_sign n Hn) as [R1 R2].
    assert (Kn : pkeep n = true) by (unfold pkeep; now rewrite (first_not_occluded n suf E)).
    apply (SInv_intro [n] _ [] n []); cbn [s_deleg s_last s_last_deleg s_calls]; auto.
    - apply truthy_deleg; exact Hn.
    - rewrite app_nil_r. cbn [filter]. rewrite Kn. exact R1.
    - rewrite app_nil_r, R2. cbn [filter]. rewrite Kn. constructor.
  Qed.

  Lemma later_nonempty pre n suf : sorted = pre ++ n :: suf -> pre <> [] -> n <> [].
  Proof.
    intros E Hp ->. destruct pre as [|x pre]; [congruence|].
    assert (Hx : In x sorted) by (rewrite E; now left).
    assert (Hn : In [] sorted) by (rewrite E; apply in_or_app; right; now left).
    assert (Eab : ab = false) by (rewrite <- (abs_of [] Hn); reflexivity).
    assert (Hs' := Hsorted). rewrite E in Hs'. cbn [app] in Hs'. apply StronglySorted_inv in Hs' as [_ Hall].
    rewrite Forall_forall in Hall. specialize (Hall [] ltac:(apply in_or_app; right; now left)).
    apply name_le_nil in Hall; [|rewrite (abs_of x Hx); exact Eab]. subst x.
    pose proof (distinct_neq ([] :: pre) [] suf [] E ltac:(now left)) as Hne.
    rewrite name_eqb_nil in Hne. discriminate.
  Qed.

  Lemma sz_step_inv pre s n suf :
    sorted = pre ++ n :: suf -> pre <> [] -> SInv pre s ->
    exists s', sz_step nodes origin s n = Ok s' /\ SInv (pre ++ [n]) s'.
  Proof.
    intros E Hp I. pose proof (skip_iff pre s n suf E I) as Hskip.
    assert (Hn : In n sorted) by (rewrite E; apply in_or_app; right; now left).
    destruct I as [pre1 m after Esp Km Ao As Ac Hl Hd Hld Hrr Hns].
    assert (Hm : In m sorted) by (rewrite E, Esp; apply in_or_app; left; apply in_or_app; right; now left).
    unfold sz_step. rewrite Hskip. destruct (occl n) eqn:Eo.
    - (* beneath a delegation: continue *)
      exists s. split; [reflexivity|].
      assert (Hsub : cut m && is_subdomain n m = true) by (rewrite <- (deleg_subdomain m n Hm), <- Hd; exact Hskip).
      apply andb_true_iff in Hsub as [Hc Hs].
      assert (Kn : pkeep n = false) by (unfold pkeep; now rewrite Eo).
      apply (SInv_intro _ _ pre1 m (after ++ [n])); auto.
      + rewrite Esp, <- app_assoc. reflexivity.
      + apply Forall_app. split; [exact Ao|constructor; [exact Kn|constructor]].
      + apply Forall_app. split; [exact As|constructor; [exact Hs|constructor]].
      + rewrite filter_app. cbn [filter]. rewrite Kn, app_nil_r. exact Hrr.
      + rewrite filter_app. cbn [filter]. rewrite Kn, app_nil_r. exact Hns.
    - (* an authoritative name *)
      fold (types_at n). change (if has_type (types_at n) tNS && negb (name_eqb n origin) then Some n else None) with (deleg_of n).
      rewrite Hl, Hld.
      destruct (add_nsec_ok m n (cut m) Hm (later_nonempty pre n suf E Hp) eq_refl) as (ws & Ea & Mt).
      rewrite Ea. cbn [bind]. eexists. split; [reflexivity|].
      destruct (rr_calls_sign n Hn) as [R1 R2].
      assert (Kn : pkeep n = true) by (unfold pkeep; now rewrite Eo).
      assert (Hf : filter pkeep pre = filter pkeep pre1 ++ [m]) by (rewrite Esp; now apply filter_split).
      apply (SInv_intro _ _ pre n []); cbn [s_deleg s_last s_last_deleg s_calls]; auto.
      + apply truthy_deleg; exact Hn.
      + rewrite !rr_calls_app, Hrr, R1. cbn [rr_calls flat_map app]. rewrite app_nil_r.
        rewrite filter_app. cbn [filter]. rewrite Kn. now rewrite rfc_signed_app.
      + rewrite !nsec_calls_app, R2. cbn [nsec_calls flat_map app].
        rewrite filter_app. cbn [filter]. rewrite Kn, Hf. rewrite chain_pairs_snoc.
        apply Forall2_app; [rewrite <- Hf; exact Hns|]. constructor; [exact Mt|constructor].
  Qed.

  Lemma sz_loop_inv : forall suf pre s,
    sorted = pre ++ suf -> pre <> [] -> SInv pre s ->
    exists s', sz_loop nodes origin s suf = Ok s' /\ SInv sorted s'.
  Proof.
    induction suf as [|n suf IH]; intros pre s E Hp I.
    - rewrite app_nil_r in E. subst pre. exists s. split; [reflexivity|exact I].
    - destruct (sz_step_inv pre s n suf E Hp I) as (s1 & E1 & I1).
      cbn [sz_loop]. rewrite E1. cbn [bind].
      apply (IH (pre ++ [n]) s1); [rewrite <- app_assoc; exact E|destruct pre; discriminate|exact I1].
  Qed.

  Hypothesis Hsoa : has_type (types_at apex) tSOA = true.
  Hypothesis Hperm : Permutation (map fst nodes) sorted.

  Lemma has_soa_apex : has_soa origin relativize nodes = has_type (types_at apex) tSOA.
  Proof.
    unfold has_soa, DnssecRef.types_at.
    destruct Hform as [(_ & -> & ->)|(_ & -> & ->)]; match goal with |- context [get_node ?a ?b] => destruct (get_node a b) end; reflexivity.
  Qed.

  Lemma sorted_cons : exists n0 suf0, sorted = n0 :: suf0.
  Proof.
    destruct sorted as [|n0 suf0] eqn:Es; [|eauto]. exfalso.
    apply Permutation_sym, Permutation_nil in Hperm.
    unfold DnssecRef.types_at in Hsoa. destruct nodes; [cbn in Hsoa; discriminate|discriminate].
  Qed.

  Lemma sz_loop_all : exists s', sz_loop nodes origin sst_init sorted = Ok s' /\ SInv sorted s'.
  Proof.
    destruct sorted_cons as (n0 & suf0 & Es).
    destruct (sz_step_first n0 suf0 Es) as (s1 & E1 & I1).
    destruct (sz_loop_inv suf0 [n0] s1 Es ltac:(discriminate) I1) as (s' & El & I).
    exists s'. split; [|exact I]. rewrite Es. cbn [sz_loop]. rewrite E1. cbn [bind]. exact El.
  Qed.

  Theorem sign_zone_nsec_eq_rfc :
    exists calls, sign_zone_nsec origin relativize nodes = Ok calls
      /\ rr_calls calls = rfc_signed apex nodes (rfc_secure apex nodes sorted)
      /\ Forall2 nsec_matches (nsec_calls calls) (rfc_chain origin apex nodes (rfc_secure apex nodes sorted)).
  Proof.
    unfold sign_zone_nsec. rewrite has_soa_apex, Hsoa. cbn [negb].
    assert (Hsn : sort_names (map fst nodes) = sorted).
    { symmetry. apply sorted_names_unique; auto using sort_names_sorted.
      rewrite <- Hperm. apply sort_names_perm. }
    rewrite Hsn. fold sst_init.
    destruct sz_loop_all as (s' & El & I). rewrite El. cbn [bind].
    destruct I as [pre1 m after Esp Km Ao As Ac Hl Hd Hld Hrr Hns].
    assert (Hm : In m sorted) by (rewrite Esp; apply in_or_app; right; now left).
    rewrite Hl, Hld.
    assert (Ho : origin <> []) by (intros Eo; rewrite Eo in Horigin; discriminate).
    destruct (add_nsec_ok m origin (cut m) Hm Ho eq_refl) as (ws & Ea & Mt).
    rewrite Ea. cbn [bind]. eexists. split; [reflexivity|].
    unfold rfc_secure.
    change (filter (fun n => negb (occl n)) sorted) with (filter pkeep sorted).
    assert (Hf : filter pkeep sorted = filter pkeep pre1 ++ [m]).
    { rewrite Esp at 1. now apply filter_split. }
    split.
    - rewrite rr_calls_app, Hrr. cbn. now rewrite app_nil_r.
    - rewrite nsec_calls_app. cbn [nsec_calls flat_map app].
      rewrite Hf, rfc_chain_pairs. apply Forall2_app; [rewrite <- Hf; exact Hns|].
      constructor; [exact Mt|constructor].
  Qed.
End Chain.

(* the chain visits exactly the names it is given, in that order, each once *)
Lemma rfc_chain_owners origin apex nodes : forall l,
  map (fun e => fst (fst e)) (rfc_chain origin apex nodes l) = l.
Proof. induction l as [|a l IH]; cbn [rfc_chain map fst]; [reflexivity|]. now rewrite IH. Qed.

(* the last entry wraps to the origin, every other entry points to the following owner *)
Lemma rfc_chain_next origin apex nodes : forall l,
  map (fun e => snd (fst e)) (rfc_chain origin apex nodes l) = match l with [] => [] | _ :: r => r ++ [origin] end.
Proof.
  induction l as [|a l IH]; [reflexivity|]. cbn [rfc_chain map fst snd]. rewrite IH.
  destruct l; reflexivity.
Qed.

(* consequences read off the implementation's own output *)
Lemma Forall2_owners got ref :
  Forall2 nsec_matches got ref ->
  map (fun e => fst (fst e)) got = map (fun e => fst (fst e)) ref
  /\ map (fun e => snd (fst e)) got = map (fun e => snd (fst e)) ref.
Proof.
  induction 1 as [|g r gs rs (H1 & H2 & _) _ [IH1 IH2]]; [split; reflexivity|].
  cbn [map]. rewrite H1, H2, IH1, IH2. split; reflexivity.
Qed.

Lemma filter_sorted {A} (le : A -> A -> Prop) (p : A -> bool) l :
  StronglySorted le l -> StronglySorted le (filter p l).
Proof.
  induction 1 as [|x r Hr IH Hx]; cbn [filter]; [constructor|].
  destruct (p x); [|exact IH]. constructor; [exact IH|].
  apply Forall_forall. intros y Hy. apply filter_In in Hy as [Hy _]. rewrite Forall_forall in Hx. auto.
Qed.

Theorem nsec_owners_exact origin apex relativize nodes sorted ab :
  ci_distinct sorted ->
  Forall (fun n => is_absolute n = ab) sorted ->
  StronglySorted name_le sorted ->
  is_absolute origin = true ->
  (ab = true /\ apex = origin /\ relativize = false) \/ (ab = false /\ apex = [] /\ relativize = true) ->
  (forall n, In n sorted ->
     types_at nodes n <> [] /\ Forall (fun t => 1 <= t <= 65535) (types_at nodes n)) ->
  has_type (types_at nodes apex) tSOA = true ->
  Permutation (map fst nodes) sorted ->
  exists calls, sign_zone_nsec origin relativize nodes = Ok calls /\
    let owners := map (fun e => fst (fst e)) (nsec_calls calls) in
    let nexts := map (fun e => snd (fst e)) (nsec_calls calls) in
    (* exactly the names that are not beneath a zone cut, each once, in canonical order *)
    owners = rfc_secure apex nodes sorted /\ NoDup owners /\ StronglySorted name_le owners /\
    (forall n, In n owners <-> In n sorted /\ rfc_occluded apex nodes sorted n = false) /\
    (* next = the following owner; the last one wraps to the origin *)
    nexts = match owners with [] => [] | _ :: r => r ++ [origin] end.
Proof.
  intros Hd Ha Hs Ho Hf Ht Hsoa Hp.
  destruct (sign_zone_nsec_eq_rfc origin apex relativize nodes sorted ab Hd Ha Hs Ho Hf Ht Hsoa Hp)
    as (calls & E & _ & F2).
  exists calls. split; [exact E|]. cbv zeta.
  destruct (Forall2_owners _ _ F2) as [Eo En]. rewrite Eo, En, rfc_chain_owners, rfc_chain_next.
  unfold rfc_secure. split; [reflexivity|]. split; [apply NoDup_filter; apply Hd|].
  split; [now apply filter_sorted|]. split; [|reflexivity].
  intros n. rewrite filter_In, negb_true_iff. tauto.
Qed.
