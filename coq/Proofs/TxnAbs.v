(* C10: the abstraction function.  A well-formed node map (no duplicate key, validated keys, no empty
   node, one rdataset per (type, covers)) denotes the reference store `abs c m`; well-formedness is an
   invariant of every public call; hence  abs (exec_impl h z) ~ exec_spec h (abs z)  for every
   well-formed zone z, not only for the zones already known to be related to some store. *)
From DV Require Import Base.Prelude Model.NameM Model.TxnM.
From DV Require Import Proofs.NameValid Proofs.NameOrder Proofs.NameRel.
From DV Require Import Proofs.TxnName Proofs.TxnStore Proofs.TxnLow Proofs.TxnSim Proofs.TxnThm.
Open Scope Z_scope.

(* ---------------------------------------------------------------- well-formed maps *)
Definition key_ok (c : cfg) (k : name) : Prop := Valid k /\ validate_name c k = Ok k.

Fixpoint nodupk (m : nmap) : Prop :=
  match m with
  | [] => True
  | (k, _) :: r => map_get r k = None /\ nodupk r
  end.

Definition node_ok (nd : node) : Prop := nd <> [] /\ node_wf nd.

Definition zwf (c : cfg) (m : nmap) : Prop :=
  nodupk m /\ Forall (fun kn => key_ok c (fst kn) /\ node_ok (snd kn)) m.

Definition abs_key (c : cfg) (k : name) : name := if c_rel c then k ++ c_origin c else k.

Definition abs (c : cfg) (m : nmap) : list entry :=
  flat_map (fun kn => map (mkEntry (abs_key c (fst kn))) (snd kn)) m.

(* ---------------------------------------------------------------- keys *)
Lemma validate_key_ok c n k : wfc c -> Valid n -> validate_name c n = Ok k -> key_ok c k.
Proof.
  intros [Vo Ao] Vn. unfold validate_name.
  destruct (is_absolute n) eqn:An.
  - destruct (is_subdomain n (c_origin c)) eqn:Sd; cbn [negb]; [|discriminate].
    destruct (c_rel c) eqn:Rl.
    + destruct (rel_derel n (c_origin c) Vn Sd) as (r & Hr & Hn & _ & Hd & C). rewrite Hr.
      intros H; inversion H; subst k. clear H.
      assert (Valid r) as Vr by (rewrite Hn in Vn; eapply Valid_prefix; eauto).
      assert (is_absolute r = false) as Ar.
      { destruct (is_absolute r) eqn:E; [|reflexivity]. exfalso.
        unfold derelativize in Hd. rewrite E in Hd. cbn [negb] in Hd. inversion Hd as [Hl].
        apply (f_equal (@length _)) in Hl. rewrite app_length in Hl. destruct (c_origin c); [discriminate|]. cbn in Hl. lia. }
      split; [exact Vr|]. unfold validate_name. rewrite Ar, Hd, Rl. reflexivity.
    + intros H; inversion H; subst k. split; [exact Vn|]. unfold validate_name. rewrite An, Sd, Rl. reflexivity.
  - rewrite derelativize_relative by exact An.
    destruct (mk_name (n ++ c_origin c)) as [a|e|e] eqn:M; [|destruct (e =? eNameTooLong); discriminate|discriminate].
    pose proof M as M'. apply mk_name_ok in M'. destruct M' as [-> V].
    destruct (c_rel c) eqn:Rl; intros H; inversion H; subst k.
    + split; [exact Vn|]. unfold validate_name. rewrite An, derelativize_relative, M, Rl by exact An. reflexivity.
    + split; [exact V|]. unfold validate_name.
      assert (is_absolute (n ++ c_origin c) = true) as A.
      { destruct (c_origin c) as [|o0 o'] eqn:Eo; [discriminate|]. rewrite is_absolute_app. exact Ao. }
      assert (is_subdomain (n ++ c_origin c) (c_origin c) = true) as Sd.
      { apply is_subdomain_iff. split; [congruence|apply ci_suffix_app]. }
      rewrite A, Sd, Rl. reflexivity.
Qed.

(* a stored key denotes the owner abs_key *)
Lemma key_ok_canon c k : wfc c -> key_ok c k -> canon c k = Ok (abs_key c k) /\ key_rel c k (abs_key c k).
Proof.
  intros W [Vk Hk]. pose proof W as [Vo Ao].
  pose proof (validate_canon c k W Vk) as VC. rewrite Hk in VC.
  destruct (canon c k) as [a|e|e] eqn:Ca; try contradiction. destruct VC as (KR & _).
  assert (a = abs_key c k) as ->; [|auto].
  unfold canon in Ca. unfold validate_name in Hk. unfold abs_key.
  destruct (is_absolute k) eqn:Ak.
  - destruct (is_subdomain k (c_origin c)) eqn:Sd; [|discriminate]. inversion Ca; subst a. cbn [negb] in Hk.
    destruct (c_rel c) eqn:Rl; [|reflexivity]. exfalso.
    destruct (rel_derel k (c_origin c) Vk Sd) as (r & Hr & Hn & Hs & _). rewrite Hr in Hk. inversion Hk; subst r.
    apply ci_equal_length in Hs. rewrite skipn_length in Hs.
    destruct (c_origin c); [discriminate|]. cbn [length] in Hs. lia.
  - rewrite derelativize_relative in Hk by exact Ak.
    destruct (mk_name (k ++ c_origin c)) as [a'|e|e] eqn:M.
    + inversion Ca; subst a'. apply mk_name_ok in M. destruct M as [-> _].
      destruct (c_rel c) eqn:Rl; [reflexivity|]. exfalso. inversion Hk as [Hl].
      apply (f_equal (@length _)) in Hl. rewrite app_length in Hl. destruct (c_origin c); [discriminate|]. cbn in Hl. lia.
    + destruct (e =? eNameTooLong); discriminate.
    + discriminate.
Qed.

(* ---------------------------------------------------------------- abs denotes the map *)
Lemma entries_at_map a a0 nd : entries_at a (map (mkEntry a0) nd) = if name_eqb a0 a then nd else [].
Proof.
  unfold entries_at, at_name. induction nd as [|r nd IH]; cbn [map filter e_name]; [destruct (name_eqb a0 a); reflexivity|].
  destruct (name_eqb a0 a) eqn:E; cbn [map e_rds]; [rewrite IH; reflexivity|exact IH].
Qed.

Lemma abs_cons c k nd m : abs c ((k, nd) :: m) = map (mkEntry (abs_key c k)) nd ++ abs c m.
Proof. reflexivity. Qed.

Lemma RP_abs c m : wfc c -> zwf c m -> RP c m (abs c m).
Proof.
  intros W [Hnd Hall]. split; [|split]; cbn [v_nodes v_changed rs_entries rs_dirty]; [| |reflexivity].
  - (* lookups *)
    intros n k a Vn Ev Ec.
    pose proof (validate_canon c n W Vn) as VC. rewrite Ev, Ec in VC. destruct VC as (KR & _).
    induction m as [|[k0 nd0] m IH]; [reflexivity|].
    destruct Hnd as [Hn0 Hnd]. inversion Hall as [|? ? [K0 [Ne0 _]] Hall']; subst. cbn [fst snd] in *.
    destruct (key_ok_canon c k0 W K0) as [_ KR0].
    rewrite abs_cons, entries_at_app, entries_at_map. cbn [map_get].
    rewrite <- (key_rel_eqb c k0 (abs_key c k0) k a KR0 KR).
    specialize (IH Hnd Hall').
    destruct (name_eqb k0 k) eqn:E.
    + rewrite <- (map_get_congr m k0 k E), Hn0 in IH. symmetry in IH. apply opt_node_none in IH. rewrite IH, app_nil_r.
      destruct nd0; [contradiction|reflexivity].
    + exact IH.
  - (* per-owner well-formedness: at most one node per owner *)
    intros a. induction m as [|[k0 nd0] m IH]; [apply node_wf_nil|].
    destruct Hnd as [Hn0 Hnd]. inversion Hall as [|? ? [K0 [Ne0 Wf0]] Hall']; subst. cbn [fst snd] in *.
    rewrite abs_cons, entries_at_app, entries_at_map.
    destruct (name_eqb (abs_key c k0) a) eqn:E; [|apply IH; auto].
    assert (entries_at a (abs c m) = []) as ->; [|rewrite app_nil_r; exact Wf0].
    (* another node for the same owner would have an equal key *)
    clear IH Hall. induction m as [|[k1 nd1] m IH]; [reflexivity|].
    cbn [map_get] in Hn0. destruct (name_eqb k1 k0) eqn:E1; [discriminate|].
    destruct Hnd as [_ Hnd]. inversion Hall' as [|? ? [K1 _] Hall'']; subst. cbn [fst] in *.
    rewrite abs_cons, entries_at_app, entries_at_map.
    destruct (key_ok_canon c k0 W K0) as [_ KR0]. destruct (key_ok_canon c k1 W K1) as [_ KR1].
    assert (name_eqb (abs_key c k1) a = false) as ->.
    { rewrite <- (name_eqb_trans_r (abs_key c k1) (abs_key c k0) a E).
      rewrite <- (key_rel_eqb c k1 (abs_key c k1) k0 (abs_key c k0) KR1 KR0). exact E1. }
    apply IH; auto.
Qed.

(* ---------------------------------------------------------------- map surgery keeps well-formedness *)
Lemma map_get_none_set m k0 v k : name_eqb k0 k = false -> map_get m k = None -> map_get (map_set m k0 v) k = None.
Proof. intros E H. rewrite map_get_set, E. exact H. Qed.

Lemma nodupk_set m k v : nodupk m -> nodupk (map_set m k v).
Proof.
  induction m as [|[k' v'] m IH]; intros H; cbn [map_set nodupk]; [auto|].
  destruct H as [H1 H2]. destruct (name_eqb k' k) eqn:E; cbn [nodupk]; [auto|].
  split; [|auto]. apply map_get_none_set; [|exact H1]. rewrite name_eqb_sym. exact E.
Qed.

Lemma nodupk_remove m k : nodupk m -> nodupk (map_remove m k).
Proof.
  induction m as [|[k' v'] m IH]; intros H; cbn [map_remove nodupk]; [auto|].
  destruct H as [H1 H2]. destruct (name_eqb k' k) eqn:E; cbn [nodupk]; [auto|].
  split; [|auto]. rewrite map_get_remove. destruct (name_eqb k k'); [reflexivity|exact H1].
Qed.

Lemma forall_set (Q : name * node -> Prop) m k v :
  Forall Q m -> (forall k', name_eqb k' k = true -> In k' (map fst m) -> Q (k', v)) -> Q (k, v) -> Forall Q (map_set m k v).
Proof.
  induction m as [|[k' v'] m IH]; intros F H1 H2; cbn [map_set]; [repeat constructor; auto|].
  inversion F; subst. destruct (name_eqb k' k) eqn:E.
  - constructor; [apply H1; [exact E|left; reflexivity]|assumption].
  - constructor; [assumption|]. apply IH; auto. intros k'' E' Hin. apply H1; [exact E'|right; exact Hin].
Qed.

Lemma forall_remove (Q : name * node -> Prop) m k : Forall Q m -> Forall Q (map_remove m k).
Proof.
  induction m as [|[k' v'] m IH]; intros F; cbn [map_remove]; [constructor|].
  inversion F; subst. destruct (name_eqb k' k); [auto|constructor; auto].
Qed.

Lemma zwf_set c m k nd : zwf c m -> key_ok c k -> node_ok nd -> zwf c (map_set m k nd).
Proof.
  intros [H1 H2] Hk Hn. split; [apply nodupk_set; exact H1|].
  apply forall_set; [exact H2| |split; auto].
  intros k' _ Hin. cbn [fst snd]. split; [|exact Hn].
  apply in_map_iff in Hin. destruct Hin as ([k1 v1] & <- & Hin). eapply Forall_forall in H2; eauto. cbn in H2. tauto.
Qed.

Lemma zwf_remove c m k : zwf c m -> zwf c (map_remove m k).
Proof. intros [H1 H2]. split; [apply nodupk_remove|apply forall_remove]; assumption. Qed.

Lemma map_set_set m k x y : map_set (map_set m k x) k y = map_set m k y.
Proof.
  induction m as [|[k' v'] m IH]; cbn [map_set]; [rewrite name_eqb_refl; reflexivity|].
  destruct (name_eqb k' k) eqn:E; cbn [map_set]; rewrite E; [reflexivity|rewrite IH; reflexivity].
Qed.

Lemma map_remove_set m k x : map_remove (map_set m k x) k = map_remove m k.
Proof.
  induction m as [|[k' v'] m IH]; cbn [map_set map_remove]; [rewrite name_eqb_refl; reflexivity|].
  destruct (name_eqb k' k) eqn:E; cbn [map_remove]; rewrite E; [reflexivity|rewrite IH; reflexivity].
Qed.

Lemma zwf_get c m k nd : zwf c m -> map_get m k = Some nd -> node_ok nd.
Proof.
  intros [_ H]. induction m as [|[k' v'] m IH]; cbn [map_get]; [discriminate|].
  inversion H; subst. destruct (name_eqb k' k); [intros E; inversion E; subst; cbn in *; tauto|auto].
Qed.

Lemma node_find_cls nd cls ty cov r : node_find nd cls ty cov = Some r -> r_cls r = cls.
Proof.
  induction nd as [|x nd IH]; cbn [node_find]; [discriminate|].
  destruct (rds_match x cls ty cov) eqn:M; [intros H; inversion H; subst; eapply rds_match_cls; eauto|exact IH].
Qed.

(* ---------------------------------------------------------------- the version operations *)
Section Ops.
  Variable c : cfg.
  Hypothesis W : wfc c.

  Definition vwf (v : version) : Prop := zwf c (v_nodes v).

  Lemma cow_nodes v n k :
    validate_name c n = Ok k ->
    exists v1 nd, maybe_cow c v n = Ok (v1, nd, k) /\
      nd = match map_get (v_nodes v) k with Some x => x | None => [] end /\
      v_nodes v1 = match map_get (v_nodes v) k with
                   | Some x => if changed_has (v_changed v) k then v_nodes v else map_set (v_nodes v) k x
                   | None => map_set (v_nodes v) k []
                   end.
  Proof.
    intros Ev. unfold maybe_cow. rewrite Ev. cbn [bind].
    destruct (map_get (v_nodes v) k) as [nd|] eqn:G.
    - destruct (changed_has (v_changed v) k); eexists _, nd; repeat split.
    - eexists _, []. repeat split.
  Qed.

  (* writing the node that is already there does not change the map *)
  Lemma map_set_same m k x : map_get m k = Some x -> map_set m k x = m.
  Proof.
    induction m as [|[k' v'] m IH]; cbn [map_get map_set]; [discriminate|].
    destruct (name_eqb k' k); [intros H; inversion H; reflexivity|intros H; rewrite (IH H); reflexivity].
  Qed.

  Lemma put_wf v n r v' : vwf v -> Valid n -> r_cls r = cIN -> put_rdataset c v n r = Ok v' -> vwf v'.
  Proof.
    intros Hv Vn Cr. unfold put_rdataset.
    destruct (validate_name c n) as [k|e|e] eqn:Ev; [|unfold maybe_cow; rewrite Ev; discriminate..].
    destruct (cow_nodes v n k Ev) as (v1 & nd & -> & Hnd & Hm). cbn [bind].
    intros H; inversion H; subst v'. unfold vwf. cbn [v_nodes]. rewrite Hm.
    pose proof (validate_key_ok c n k W Vn Ev) as Kk.
    assert (node_wf nd) as Wn.
    { subst nd. destruct (map_get (v_nodes v) k) eqn:G; [eapply zwf_get; eauto|apply node_wf_nil]. }
    assert (node_ok (node_replace nd r)) as No.
    { split; [|apply node_replace_wf; auto]. rewrite node_replace_filter by auto. destruct (filter _ nd); discriminate. }
    destruct (map_get (v_nodes v) k) as [x|] eqn:G.
    - destruct (changed_has (v_changed v) k); [|rewrite map_set_set]; apply zwf_set; auto.
    - rewrite map_set_set. apply zwf_set; auto.
  Qed.

  Lemma del_rds_wf v n ty cov v' : vwf v -> Valid n -> delete_rdataset c v n ty cov = Ok v' -> vwf v'.
  Proof.
    intros Hv Vn. unfold delete_rdataset.
    destruct (validate_name c n) as [k|e|e] eqn:Ev; [|unfold maybe_cow; rewrite Ev; discriminate..].
    destruct (cow_nodes v n k Ev) as (v1 & nd & -> & Hnd & Hm). cbn [bind].
    pose proof (validate_key_ok c n k W Vn Ev) as Kk.
    assert (node_wf nd) as Wn.
    { subst nd. destruct (map_get (v_nodes v) k) eqn:G; [eapply zwf_get; eauto|apply node_wf_nil]. }
    destruct (node_delete nd cIN ty cov) as [|x nd'] eqn:D.
    - unfold map_del. destruct (map_has (v_nodes v1) k); cbn [bind]; [|discriminate].
      intros H; inversion H; subst v'. unfold vwf. cbn [v_nodes]. rewrite Hm.
      destruct (map_get (v_nodes v) k) as [y|] eqn:G.
      + destruct (changed_has (v_changed v) k); [|rewrite map_remove_set]; apply zwf_remove; exact Hv.
      + rewrite map_remove_set. apply zwf_remove; exact Hv.
    - intros H; inversion H; subst v'. unfold vwf. cbn [v_nodes]. rewrite Hm.
      assert (node_ok (x :: nd')) as No.
      { split; [discriminate|]. rewrite <- D. rewrite node_delete_filter by exact Wn. apply node_wf_filter; exact Wn. }
      destruct (map_get (v_nodes v) k) as [y|] eqn:G.
      + destruct (changed_has (v_changed v) k); [|rewrite map_set_set]; apply zwf_set; auto.
      + rewrite map_set_set. apply zwf_set; auto.
  Qed.

  Lemma del_name_wf v n v' : vwf v -> delete_node c v n = Ok v' -> vwf v'.
  Proof.
    intros Hv. unfold delete_node. destruct (validate_name c n) as [k| |]; cbn [bind]; try discriminate.
    destruct (map_has (v_nodes v) k); intros H; inversion H; subst; [apply zwf_remove|]; exact Hv.
  Qed.

  Lemma get_cls v n ty cov r : get_rdataset c v n ty cov = Ok (Some r) -> r_cls r = cIN.
  Proof.
    unfold get_rdataset, get_node. destruct (validate_name c n) as [k| |]; cbn [bind]; try discriminate.
    destruct (map_get (v_nodes v) k) as [nd|]; [|discriminate]. intros H; inversion H as [F].
    eapply node_find_cls; eauto.
  Qed.
End Ops.

(* ---------------------------------------------------------------- invariants of the private state
   (any store): preserved by the low-level operations => preserved by every public call and history *)
Lemma add_parse_valid a rest n r rest1 :
  Forall arg_valid (a :: rest) -> add_parse a rest = Ok (n, r, rest1) -> Valid n.
Proof.
  intros F H. inversion F as [|? ? Fa Fr]; subst.
  pose proof (add_parse_rel EV a a rest rest (arg_valid_rel a Fa) (args_valid_rel rest Fr)) as P.
  rewrite H in P. cbn in P. destruct P as ([_ V] & _). exact V.
Qed.

Section Inv.
  Context {P S : Type}.
  Variable st : store P S.
  Variable c : cfg.
  Variable IS : S -> Prop.
  Variable IP : P -> Prop.
  Hypothesis I_begin : forall z b, IP z -> IS (s_begin st z b).
  Hypothesis I_publish : forall s, IS s -> IP (s_publish st s).
  Hypothesis I_get_cls : forall s n ty cov r, s_get st s n ty cov = Ok (Some r) -> r_cls r = cIN.
  Hypothesis I_put : forall s n r s', IS s -> Valid n -> r_cls r = cIN -> s_put st s n r = Ok s' -> IS s'.
  Hypothesis I_del_name : forall s n s', IS s -> Valid n -> s_del_name st s n = Ok s' -> IS s'.
  Hypothesis I_del_rds : forall s n ty cov s', IS s -> Valid n -> s_del_rds st s n ty cov = Ok s' -> IS s'.

  Lemma hl_add_inv rep args s s' : IS s -> Forall arg_valid args -> hl_add st c rep args s = Ok s' -> IS s'.
  Proof.
    intros Hs F. unfold hl_add. destruct args as [|a rest]; [discriminate|].
    destruct (add_parse a rest) as [[[n r] rest1]|e|e] eqn:Ep; cbn [bind]; try discriminate.
    pose proof (add_parse_valid a rest n r rest1 F Ep) as Vn.
    destruct (r_cls r =? cIN) eqn:Ec; cbn [negb]; [|discriminate]. apply Z.eqb_eq in Ec.
    destruct (_ && _); [discriminate|]. destruct rest1; [|discriminate].
    destruct rep; cbn [bind]; [apply I_put; auto|].
    destruct (s_get st s n (r_ty r) (r_cov r)) as [ex|e|e] eqn:G; cbn [bind]; try discriminate.
    apply I_put; auto. destruct ex as [e0|]; [|exact Ec]. rewrite rds_union_cls. eapply I_get_cls; eauto.
  Qed.

  Lemma hl_delete_common_inv exact n ord rest s s' :
    IS s -> Valid n -> hl_delete_common st exact n ord rest s = Ok s' -> IS s'.
  Proof.
    intros Hs Vn. unfold hl_delete_common. destruct rest; [|discriminate].
    assert ((if exact then do ex <- s_exists st s n; if negb ex then Lib eDeleteNotExact else s_del_name st s n
             else s_del_name st s n) = Ok s' -> IS s') as K.
    { destruct exact; [|apply I_del_name; auto].
      destruct (s_exists st s n) as [b| |]; cbn [bind]; try discriminate.
      destruct (negb b); [discriminate|apply I_del_name; auto]. }
    destruct ord as [[cls ty cov ttl items]|]; [|exact K]. destruct items; [exact K|].
    destruct (negb _); [discriminate|].
    destruct (s_get st s n ty cov) as [ex|e|e] eqn:G; cbn [bind]; try discriminate.
    destruct ex as [e0|]; [|destruct exact; [discriminate|intros H; inversion H; subst; exact Hs]].
    destruct (exact && _); [discriminate|].
    destruct (r_items (rds_difference e0 _)) eqn:D.
    - apply I_del_rds; auto.
    - apply I_put; auto. cbn. eapply I_get_cls; eauto.
  Qed.

  Lemma hl_delete_inv exact args s s' : IS s -> Forall arg_valid args -> hl_delete st exact args s = Ok s' -> IS s'.
  Proof.
    intros Hs F. unfold hl_delete. destruct args as [|a rest]; [discriminate|].
    inversion F as [|? ? Fa Fr]; subst.
    assert (forall n, Valid n -> (do y <- rdataset_from_args true rest; hl_delete_common st exact n (fst y) (snd y) s) = Ok s' -> IS s') as Kc.
    { intros n Vn. destruct (rdataset_from_args true rest) as [[o r1]| |]; cbn [bind]; try discriminate.
      apply hl_delete_common_inv; auto. }
    assert (forall n t rest1, Valid n -> hl_delete_bytype st exact n t rest1 s = Ok s' -> IS s') as Kt.
    { intros n t rest1 Vn. unfold hl_delete_bytype. destruct (make_type t) as [ty| |]; cbn [bind]; try discriminate.
      destruct (match rest1 with [] => _ | _ :: _ => _ end) as [[cov rest2]| |]; cbn [bind]; try discriminate.
      destruct rest2; [|discriminate].
      destruct (s_get st s n ty cov) as [ex| |]; cbn [bind]; try discriminate.
      destruct ex; [apply I_del_rds; auto|destruct exact; [discriminate|intros H; inversion H; subst; exact Hs]]. }
    destruct a; try discriminate; cbn [arg_valid] in Fa.
    - destruct rest as [|t rest1]; [apply Kc; auto|]. destruct (is_type_arg t); [apply Kt|apply Kc]; auto.
    - destruct rest as [|t rest1]; [apply Kc; auto|]. destruct (is_type_arg t); [apply Kt|apply Kc]; auto.
    - apply hl_delete_common_inv; auto.
  Qed.

  Definition IT (t : txn (S:=S)) : Prop := IS (t_st t).

  Lemma hl_write_inv f t t' :
    (forall s s', IS s -> f s = Ok s' -> IS s') -> IT t -> hl_write f t = Ok t' -> IT t'.
  Proof.
    intros Hf Ht. unfold hl_write. destruct (t_ended t); [discriminate|]. destruct (t_ro t); [discriminate|].
    destruct (f (t_st t)) eqn:E; cbn [bind]; try discriminate. intros H; inversion H; subst. unfold IT. cbn. eauto.
  Qed.

  Lemma step_inv o z t x z' t' :
    op_valid o -> IP z -> IT t -> step st c o z t = Ok (x, z', t') -> IP z' /\ IT t'.
  Proof.
    intros Vo Hz Ht. destruct o; cbn [step op_valid] in *.
    1-2: match goal with |- context [hl_write ?f ?tt] => destruct (hl_write f tt) as [t1| |] eqn:Ew end;
         cbn [bind]; try discriminate; intros H; inversion H; subst; (split; [exact Hz|]);
         eapply hl_write_inv; [|exact Ht|exact Ew]; intros s s' Ws Hs; cbv beta in Hs; eapply hl_add_inv; eauto.
    1-2: match goal with |- context [hl_write ?f ?tt] => destruct (hl_write f tt) as [t1| |] eqn:Ew end;
         cbn [bind]; try discriminate; intros H; inversion H; subst; (split; [exact Hz|]);
         eapply hl_write_inv; [|exact Ht|exact Ew]; intros s s' Ws Hs; cbv beta in Hs; eapply hl_delete_inv; eauto.
    - match goal with |- context [hl_update_serial ?a1 ?a2 ?a3 ?a4 ?a5 ?a6] => destruct (hl_update_serial a1 a2 a3 a4 a5 a6) as [t1| |] eqn:Eu end; cbn [bind]; try discriminate.
      intros H; inversion H; subst. split; [exact Hz|].
      unfold hl_update_serial in Eu. destruct (t_ended t); [discriminate|]. destruct (value <? 0); [discriminate|].
      destruct (match n with None => Ok NameM.empty | Some a => name_of_arg a end) as [n0| |] eqn:En; cbn [bind] in Eu; try discriminate.
      assert (Valid n0) as Vn.
      { destruct n as [a|]; [|inversion En; apply Valid_nil]. destruct a; cbn in En, Vo; inversion En; subst; exact Vo. }
      destruct (s_get _ _ _ _ _) as [ex| |]; cbn [bind] in Eu; try discriminate. destruct ex as [e0|]; [|discriminate].
      destruct (r_items e0) as [|[body serial] ?]; [discriminate|].
      destruct (if relative then _ else _); cbn [bind] in Eu; try discriminate.
      eapply hl_write_inv; [|exact Ht|exact Eu]. intros s s' Ws Hs. cbv beta in Hs. eapply hl_add_inv; [exact Ws| |exact Hs].
      constructor; [exact Vn|constructor; [exact Logic.I|constructor]].
    - destruct (t_ended t); [discriminate|]. destruct (name_of_arg n); cbn [bind]; try discriminate.
      destruct (make_type (AInt ty)); cbn [bind]; try discriminate.
      destruct (make_type (AInt cov)); cbn [bind]; try discriminate.
      destruct (s_get _ _ _ _ _); cbn [bind]; intros H; inversion H; subst; auto.
    - destruct (t_ended t); [discriminate|]. destruct (name_of_arg n); cbn [bind]; try discriminate.
      destruct (s_exists _ _ _); cbn [bind]; intros H; inversion H; subst; auto.
    - destruct (t_ended t); [discriminate|]. intros H; inversion H; subst; auto.
    - contradiction.
    - destruct (t_ended t); [discriminate|]. destruct (name_of_arg n); cbn [bind]; try discriminate.
      destruct (s_node _ _ _); cbn [bind]; intros H; inversion H; subst; auto.
    - unfold hl_end. destruct (t_ended t); cbn [bind]; [discriminate|]. intros H; inversion H; subst. cbn.
      split; [|exact Ht]. destruct (_ && _); [apply I_publish; exact Ht|exact Hz].
    - unfold hl_end. destruct (t_ended t); cbn [bind]; [discriminate|]. intros H; inversion H; subst. cbn.
      split; [|exact Ht]. destruct (_ && _); [apply I_publish; exact Ht|exact Hz].
  Qed.

  Lemma exit_inv clean z t : IP z -> IT t -> IP (hl_exit st clean z t).
  Proof.
    intros Hz Ht. unfold hl_exit, hl_end. destruct (t_ended t); [exact Hz|]. cbn.
    destruct (_ && _); [apply I_publish; exact Ht|exact Hz].
  Qed.

  Lemma run_manual_inv ops : forall z t, Forall op_valid ops -> IP z -> IT t -> IP (snd (run_manual st c ops z t)).
  Proof.
    induction ops as [|o ops IH]; intros z t F Hz Ht; cbn [run_manual]; [cbn; apply exit_inv; auto|].
    inversion F as [|? ? Fo Fr]; subst.
    destruct (step st c o z t) as [[[x z'] t']|e|e] eqn:E.
    - destruct (step_inv o z t x z' t' Fo Hz Ht E) as [Hz' Ht'].
      specialize (IH z' t' Fr Hz' Ht'). destruct (run_manual st c ops z' t'). exact IH.
    - specialize (IH z t Fr Hz Ht). destruct (run_manual st c ops z t). exact IH.
    - specialize (IH z t Fr Hz Ht). destruct (run_manual st c ops z t). exact IH.
  Qed.

  Lemma run_with_inv ops : forall fault z t, Forall op_valid ops -> IP z -> IT t -> IP (snd (run_with st c ops fault z t)).
  Proof.
    induction ops as [|o ops IH]; intros fault z t F Hz Ht.
    - destruct fault as [[|k]|]; cbn; apply exit_inv; auto.
    - inversion F as [|? ? Fo Fr]; subst.
      destruct fault as [[|k]|]; cbn [run_with]; [cbn; apply exit_inv; auto| |].
      + destruct (step st c o z t) as [[[x z'] t']|e|e] eqn:E; [|cbn; apply exit_inv; auto|cbn; apply exit_inv; auto].
        destruct (step_inv o z t x z' t' Fo Hz Ht E) as [Hz' Ht'].
        specialize (IH (Some k) z' t' Fr Hz' Ht'). destruct (run_with st c ops (Some k) z' t'). exact IH.
      + destruct (step st c o z t) as [[[x z'] t']|e|e] eqn:E; [|cbn; apply exit_inv; auto|cbn; apply exit_inv; auto].
        destruct (step_inv o z t x z' t' Fo Hz Ht E) as [Hz' Ht'].
        specialize (IH None z' t' Fr Hz' Ht'). destruct (run_with st c ops None z' t'). exact IH.
  Qed.

  Theorem run_hist_inv h : forall z, Forall spec_valid h -> IP z -> Forall (fun x => IP (snd x)) (run_hist st c h z).
  Proof.
    induction h as [|x h IH]; intros z F Hz; cbn [run_hist]; [constructor|].
    inversion F as [|? ? Fx Fh]; subst.
    destruct (run_txn st c x z) as [outs z'] eqn:E.
    assert (IP z') as Hz'.
    { unfold run_txn in E. assert (IT (open_txn st (x_mode x) z)) as Ho.
      { unfold open_txn, IT. destruct (x_mode x =? 2); cbn; apply I_begin; exact Hz. }
      destruct (x_style x =? 1).
      - pose proof (run_with_inv (x_ops x) (x_fault x) z _ Fx Hz Ho) as K. rewrite E in K. exact K.
      - pose proof (run_manual_inv (x_ops x) z _ Fx Hz Ho) as K. rewrite E in K. exact K. }
    constructor; [exact Hz'|]. apply IH; auto.
  Qed.
End Inv.

(* ---------------------------------------------------------------- the zone model *)
Theorem impl_zwf c h z :
  wfc c -> Forall spec_valid h -> zwf c z -> Forall (fun x => zwf c (snd x)) (impl_hist c h z).
Proof.
  intros W V Hz. unfold impl_hist.
  apply (run_hist_inv (zstore c) c (vwf c) (zwf c)); auto.
  - intros z0 b H. cbn. unfold vwf. cbn. destruct b; [split; constructor|exact H].
  - intros s n ty cov r. apply get_cls.
  - intros s n r s' Hs Vn Cr. apply put_wf; auto.
  - intros s n s' Hs Vn. apply del_name_wf; auto.
  - intros s n ty cov s' Hs Vn. apply del_rds_wf; auto.
Qed.

(* two reference stores that look the same to every reader *)
Definition store_equiv (c : cfg) (l1 l2 : list entry) : Prop :=
  forall n, Valid n -> ref_node c l1 n = ref_node c l2 n.

(* abs (exec_impl h z) ~ exec_spec h (abs z), with equal results, for every well-formed zone z *)
Theorem refines_abs c h z :
  wfc c -> Forall spec_valid h -> zwf c z ->
  Forall2 (fun x y => fst x = fst y /\ zwf c (snd x) /\ store_equiv c (abs c (snd x)) (snd y))
          (impl_hist c h z) (spec_hist c h (abs c z)).
Proof.
  intros W V Hz.
  pose proof (refines_hist c h z (abs c z) W V (RP_abs c z W Hz)) as Rf.
  pose proof (impl_zwf c h z W V Hz) as Zf.
  revert Zf. induction Rf as [|x y hx hy [Hxy Hp] Rf IH]; intros Zf; [constructor|].
  inversion Zf; subst. constructor; [|apply IH; assumption].
  split; [exact Hxy|]. split; [assumption|].
  intros n Vn. rewrite <- (RP_observe c (snd x) (abs c (snd x)) n W Vn (RP_abs c (snd x) W H1)).
  apply RP_observe; auto.
Qed.

(* structural form of "empty nodes removed": no node of a reachable zone is empty, under any key *)
Corollary no_empty_node_anywhere c h z :
  wfc c -> Forall spec_valid h -> zwf c z ->
  Forall (fun x => Forall (fun kn => snd kn <> []) (snd x)) (impl_hist c h z).
Proof.
  intros W V Hz. pose proof (impl_zwf c h z W V Hz) as Zf.
  eapply Forall_impl; [|exact Zf]. intros x [_ H]. eapply Forall_impl; [|exact H]. intros kn (_ & [Hn _]). exact Hn.
Qed.

Lemma zwf_nil c : zwf c [].
Proof. split; constructor. Qed.

(* ---------------------------------------------------------------- iteration counts (OIter)
   iterate_names / iterate_rdatasets of a well-formed version count exactly the distinct owners and the
   records of its abstraction - the one observation that `refines` leaves out *)
Lemma existsb_ext {A} (f g : A -> bool) l : (forall x, f x = g x) -> existsb f l = existsb g l.
Proof. intros H. induction l; cbn; [reflexivity|]. rewrite H, IHl. reflexivity. Qed.

Lemma distinct_names_mem l : forall a,
  existsb (fun x => name_eqb x a) (distinct_names l) = existsb (at_name a) l.
Proof.
  induction l as [|e l IH]; intros a; cbn [distinct_names existsb]; [reflexivity|].
  destruct (existsb (fun x => name_eqb x (e_name e)) (distinct_names l)) eqn:M.
  - rewrite IH. destruct (at_name a e) eqn:E; [|reflexivity]. cbn [orb].
    rewrite IH in M. rewrite <- M. apply existsb_ext. intros x. unfold at_name in *. symmetry.
    apply name_eqb_trans_r. exact E.
  - cbn [existsb]. rewrite IH. reflexivity.
Qed.

Lemma distinct_names_same_owner a nd l :
  nd <> [] -> existsb (at_name a) l = false ->
  distinct_names (map (mkEntry a) nd ++ l) = a :: distinct_names l.
Proof.
  intros Hn Hl. induction nd as [|r nd IH]; [contradiction|]. cbn [map app distinct_names e_name].
  destruct nd as [|r2 nd].
  - cbn [map app]. rewrite distinct_names_mem, Hl. reflexivity.
  - rewrite IH by discriminate. cbn [existsb]. rewrite name_eqb_refl. reflexivity.
Qed.

Theorem iter_counts_abs c m ch d :
  wfc c -> zwf c m -> s_count (zstore c) (mkVer m ch) = s_count (rstore c) (mkRst (abs c m) d).
Proof.
  intros W [Hnd Hall]. cbn [s_count zstore rstore v_nodes rs_entries]. f_equal.
  - (* names *)
    unfold zlen. f_equal. induction m as [|[k0 nd0] m IH]; [reflexivity|].
    destruct Hnd as [Hn0 Hnd]. inversion Hall as [|? ? [K0 [Ne0 _]] Hall']; subst. cbn [fst snd] in *.
    rewrite abs_cons, distinct_names_same_owner; [cbn [length]; rewrite (IH Hnd Hall'); reflexivity|exact Ne0|].
    (* no other node belongs to the same owner *)
    pose proof (RP_abs c m W (conj Hnd Hall')) as (Hm & _ & _). cbn [v_nodes rs_entries] in Hm.
    destruct K0 as [Vk Hk]. destruct (key_ok_canon c k0 W (conj Vk Hk)) as [Ca _].
    specialize (Hm k0 k0 (abs_key c k0) Vk Hk Ca). rewrite Hn0 in Hm. symmetry in Hm. apply opt_node_none in Hm.
    rewrite existsb_entries, Hm. reflexivity.
  - (* rdatasets *)
    clear Hnd Hall. induction m as [|[k0 nd0] m IH]; [reflexivity|].
    rewrite abs_cons. cbn [fold_right snd]. rewrite IH. unfold zlen. rewrite app_length, map_length. lia.
Qed.
