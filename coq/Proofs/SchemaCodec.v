(* Generic codec lemmas: integers, the parser at a known position, and the round trip
   decode (encode vs) = vs of the field language of Model/SchemaM.v. *)
From DV Require Import Base.Prelude Model.NameM Model.SchemaM Proofs.SchemaName.
Open Scope Z_scope.
Ltac Zify.zify_post_hook ::= Z.to_euclidean_division_equations.

(* ---------- res monad ---------- *)
Lemma bind_ok {A B} (r : res A) (k : A -> res B) (y : B) :
  bind r k = Ok y -> exists x, r = Ok x /\ k x = Ok y.
Proof. destruct r; cbn; intros H; try discriminate. eauto. Qed.

Ltac inv_bind H :=
  let x := fresh "x" in let H1 := fresh "E" in
  apply bind_ok in H; destruct H as (x & H1 & H).

(* ---------- big-endian integers ---------- *)
Lemma pow256_pos : forall w, 0 < pow256 w.
Proof. induction w; cbn [pow256]; lia. Qed.

Lemma be_encode_length : forall w v, length (be_encode w v) = w.
Proof. induction w; intros; cbn [be_encode]; [reflexivity|]. rewrite app_length, IHw. cbn. lia. Qed.

Lemma be_decode_snoc : forall bs b, be_decode (bs ++ [b]) = be_decode bs * 256 + b.
Proof. intros. unfold be_decode. rewrite fold_left_app. reflexivity. Qed.

Lemma be_decode_encode : forall w v, 0 <= v < pow256 w -> be_decode (be_encode w v) = v.
Proof.
  induction w; intros v Hv; cbn [be_encode pow256] in *.
  - cbn. lia.
  - rewrite be_decode_snoc, IHw; lia.
Qed.

Lemma be_decode_bounds : forall bs, all_bytes bs = true -> 0 <= be_decode bs < pow256 (length bs).
Proof.
  induction bs as [|b bs IH] using rev_ind; intros H.
  - cbn. lia.
  - unfold all_bytes in *. rewrite forallb_app in H. apply andb_prop in H as [H1 H2].
    cbn in H2. rewrite andb_true_r in H2. unfold is_byte in H2.
    rewrite be_decode_snoc, app_length. cbn [length]. rewrite Nat.add_1_r. cbn [pow256].
    specialize (IH H1). lia.
Qed.

Lemma be_encode_decode : forall bs, all_bytes bs = true -> be_encode (length bs) (be_decode bs) = bs.
Proof.
  induction bs as [|b bs IH] using rev_ind; intros H; [reflexivity|].
  unfold all_bytes in *. rewrite forallb_app in H. apply andb_prop in H as [H1 H2].
  cbn in H2. rewrite andb_true_r in H2. unfold is_byte in H2.
  rewrite be_decode_snoc, app_length. cbn [length]. rewrite Nat.add_1_r. cbn [be_encode].
  pose proof (be_decode_bounds bs H1).
  replace ((be_decode bs * 256 + b) / 256) with (be_decode bs) by lia.
  replace ((be_decode bs * 256 + b) mod 256) with b by lia.
  rewrite IH by assumption. reflexivity.
Qed.

(* ---------- Parser.get_bytes at a known position ---------- *)
Lemma gb_at : forall (A b R P : list Z),
  get_bytes (A ++ b ++ R ++ P) (length A + length b + length R) (length A) (length b)
  = Ok (b, (length A + length b)%nat).
Proof.
  intros. unfold get_bytes.
  destruct (Nat.ltb_spec (length A + length b + length R - length A) (length b)); [lia|].
  rewrite skipn_app_len, firstn_app_len. reflexivity.
Qed.

Lemma gb_at' : forall W endp cur n (A b R P : list Z),
  W = A ++ b ++ R ++ P -> endp = (length A + length b + length R)%nat ->
  cur = length A -> n = length b ->
  get_bytes W endp cur n = Ok (b, (length A + length b)%nat).
Proof. intros; subst. apply gb_at. Qed.

Ltac list_eq := rewrite <- ?app_assoc; cbn [app]; reflexivity.
Ltac len_eq := rewrite ?app_length, ?be_encode_length; cbn [length]; lia.

Lemma firstn_endp : forall (A b R P : list Z),
  firstn (length A + length b + length R) (A ++ b ++ R ++ P) = A ++ b ++ R.
Proof.
  intros. replace (A ++ b ++ R ++ P) with ((A ++ b ++ R) ++ P) by (rewrite <- !app_assoc; reflexivity).
  replace (length A + length b + length R)%nat with (length (A ++ b ++ R))
    by (rewrite !app_length; lia).
  apply firstn_app_len.
Qed.

Lemma to_wire_nonempty : forall n o c b, NameM.to_wire n o c = Ok b -> (1 <= length b)%nat.
Proof.
  intros n o c b H. unfold NameM.to_wire in H.
  assert (Habs : forall m, is_absolute m = true -> (1 <= length (wire_labels c m))%nat).
  { intros [|l r] Hm; [discriminate|]. rewrite wire_labels_cons. cbn [app length]. lia. }
  destruct (is_absolute n) eqn:E.
  - injection H as <-. auto.
  - destruct o as [o|]; [|discriminate]. destruct (is_absolute o) eqn:Eo; [|discriminate].
    destruct (wire_length n + wire_length o >? 255); [discriminate|].
    injection H as <-. rewrite app_length. specialize (Habs o Eo). lia.
Qed.

(* ====================================================================== round trip *)
Section RoundTrip.
  Variable o : option name.
  (* what is required of a name value so that it is read back unchanged (instantiated below
     for "no origin" and for an absolute origin) *)
  Variable NOK : bool -> name -> Prop.
  Hypothesis Hname : forall rel n b A R P,
    NOK rel n -> NameM.to_wire n o false = Ok b ->
    get_name (A ++ b ++ R ++ P) o rel (length A + length b + length R) (length A)
    = Ok (n, (length A + length b)%nat).

  Definition nok_s (f : sfld) (v : sval) : Prop :=
    match f, v with FName rel, VN n => NOK rel n | _, _ => True end.
  Fixpoint nok_row (fs : list sfld) (vs : list sval) : Prop :=
    match fs, vs with f :: fr, v :: vr => nok_s f v /\ nok_row fr vr | _, _ => True end.
  Definition nok_f (f : fld) (v : val) : Prop :=
    match f, v with
    | FS s, VS x => nok_s s x
    | FRepeat _ _ row, VL rows => Forall (nok_row row) rows
    | _, _ => True
    end.
  Fixpoint nok_fields (fs : list fld) (vs : list val) : Prop :=
    match fs, vs with f :: fr, v :: vr => nok_f f v /\ nok_fields fr vr | _, _ => True end.

  Lemma dec_s_rt : forall f v b A R P,
    sfld_wf f = true -> valid_s f v = true -> nok_s f v -> enc_s o f v = Ok b ->
    dec_s (A ++ b ++ R ++ P) o f (length A + length b + length R) (length A)
    = Ok (v, (length A + length b)%nat).
  Proof.
    intros f v b A R P Hwf Hv Hn He.
    destruct f as [w maxv|n|w lo hi|rel]; destruct v as [z|x|nm]; cbn in Hv, He; try discriminate.
    - (* FU *)
      destruct ((0 <=? z) && (z <? pow256 w)) eqn:Er; [|discriminate].
      injection He as <-. cbn [dec_s].
      rewrite <- (be_encode_length w z) at 3.
      rewrite gb_at. cbn [bind fst snd]. rewrite be_decode_encode by lia. reflexivity.
    - (* FFixed *)
      injection He as <-. cbn [dec_s]. apply Nat.eqb_eq in Hv. subst n.
      rewrite gb_at. reflexivity.
    - (* FCounted *)
      destruct (zlen x <? pow256 w) eqn:Er; [|discriminate].
      injection He as <-. cbn [dec_s].
      rewrite (gb_at' _ _ _ _ A (be_encode w (zlen x)) (x ++ R) P) by (try list_eq; len_eq).
      cbn [bind fst snd].
      rewrite be_decode_encode by (pose proof (zlen_nonneg x); lia).
      replace (Z.to_nat (zlen x)) with (length x) by (unfold zlen; lia).
      rewrite (gb_at' _ _ _ _ (A ++ be_encode w (zlen x)) x R P) by (try list_eq; len_eq).
      cbn [bind fst snd]. f_equal. f_equal. len_eq.
    - (* FName *)
      cbn [dec_s]. cbn in Hn. rewrite (Hname rel nm b A R P Hn He). reflexivity.
  Qed.

  Lemma enc_s_nonempty : forall f v b,
    sfld_wf f = true -> valid_s f v = true -> enc_s o f v = Ok b -> (1 <= length b)%nat.
  Proof.
    intros f v b Hwf Hv He.
    destruct f as [w maxv|n|w lo hi|rel]; destruct v as [z|x|nm]; cbn in Hv, He; try discriminate;
      unfold sfld_wf in Hwf.
    - destruct ((0 <=? z) && (z <? pow256 w)); [|discriminate]. injection He as <-.
      rewrite be_encode_length. apply andb_prop in Hwf as [Hwf _]. apply andb_prop in Hwf as [Hwf _].
      apply Nat.ltb_lt in Hwf. lia.
    - injection He as <-. apply Nat.eqb_eq in Hv. apply Nat.ltb_lt in Hwf. lia.
    - destruct (zlen x <? pow256 w); [|discriminate]. injection He as <-.
      rewrite app_length, be_encode_length.
      apply andb_prop in Hwf as [Hwf _]. apply andb_prop in Hwf as [Hwf _].
      apply Nat.ltb_lt in Hwf. lia.
    - eapply to_wire_nonempty; eauto.
  Qed.

  Lemma dec_s_rt' : forall W endp cur f v b A R P,
    W = A ++ b ++ R ++ P -> endp = (length A + length b + length R)%nat -> cur = length A ->
    sfld_wf f = true -> valid_s f v = true -> nok_s f v -> enc_s o f v = Ok b ->
    dec_s W o f endp cur = Ok (v, (length A + length b)%nat).
  Proof. intros; subst. apply dec_s_rt; assumption. Qed.

  Lemma dec_row_rt : forall fs vs b A R P,
    forallb sfld_wf fs = true -> valid_row fs vs = true -> nok_row fs vs -> enc_row o fs vs = Ok b ->
    dec_row (A ++ b ++ R ++ P) o fs (length A + length b + length R) (length A)
    = Ok (vs, (length A + length b)%nat).
  Proof.
    induction fs as [|f fr IH]; intros vs b A R P Hwf Hv Hn He; destruct vs as [|v vr]; cbn in Hv, He; try discriminate.
    - injection He as <-. cbn. rewrite Nat.add_0_r. reflexivity.
    - cbn [forallb] in Hwf. apply andb_prop in Hwf as [Hwf1 Hwf2].
      apply andb_prop in Hv as [Hv1 Hv2]. destruct Hn as [Hn1 Hn2].
      inv_bind He. inv_bind He. injection He as <-. rename x into b1, x0 into b2.
      cbn [dec_row].
      rewrite (dec_s_rt' _ _ _ f v b1 A (b2 ++ R) P) by (try assumption; try list_eq; len_eq).
      cbn [bind fst snd].
      pose proof (IH vr b2 (A ++ b1) R P Hwf2 Hv2 Hn2 E0) as H.
      replace ((A ++ b1) ++ b2 ++ R ++ P) with (A ++ (b1 ++ b2) ++ R ++ P) in H by list_eq.
      replace (length (A ++ b1) + length b2 + length R)%nat
        with (length A + length (b1 ++ b2) + length R)%nat in H by len_eq.
      replace (length (A ++ b1)) with (length A + length b1)%nat in H by len_eq.
      rewrite H. cbn [bind fst snd]. f_equal. f_equal. len_eq.
  Qed.

  Lemma dec_row_rt' : forall W endp cur fs vs b A R P,
    W = A ++ b ++ R ++ P -> endp = (length A + length b + length R)%nat -> cur = length A ->
    forallb sfld_wf fs = true -> valid_row fs vs = true -> nok_row fs vs -> enc_row o fs vs = Ok b ->
    dec_row W o fs endp cur = Ok (vs, (length A + length b)%nat).
  Proof. intros; subst. apply dec_row_rt; assumption. Qed.

  Lemma enc_row_nonempty : forall fs vs b,
    fs <> [] -> forallb sfld_wf fs = true -> valid_row fs vs = true -> enc_row o fs vs = Ok b ->
    (1 <= length b)%nat.
  Proof.
    intros [|f fr] vs b Hne Hwf Hv He; [congruence|]. destruct vs as [|v vr]; cbn in Hv, He; try discriminate.
    cbn [forallb] in Hwf. apply andb_prop in Hwf as [Hwf1 _]. apply andb_prop in Hv as [Hv1 _].
    inv_bind He. inv_bind He. injection He as <-.
    pose proof (enc_s_nonempty f v x Hwf1 Hv1 E). rewrite app_length. lia.
  Qed.

  Lemma dec_rows_rt : forall row rows b fuel A P,
    row <> [] -> forallb sfld_wf row = true ->
    forallb (valid_row row) rows = true -> Forall (nok_row row) rows ->
    enc_rows o row rows = Ok b -> (length b < fuel)%nat ->
    dec_rows (A ++ b ++ P) o fuel row (length A + length b) (length A)
    = Ok (rows, (length A + length b)%nat).
  Proof.
    induction rows as [|r rr IH]; intros b fuel A P Hne Hwf Hv Hn He Hfuel; cbn in He.
    - injection He as <-. destruct fuel; cbn [dec_rows length]; rewrite Nat.add_0_r, Nat.leb_refl; reflexivity.
    - inv_bind He. inv_bind He. injection He as <-. rename x into b1, x0 into b2.
      cbn [forallb] in Hv. apply andb_prop in Hv as [Hv1 Hv2].
      inversion Hn as [|? ? Hn1 Hn2]; subst.
      pose proof (enc_row_nonempty row r b1 Hne Hwf Hv1 E) as Hb1.
      destruct fuel as [|fuel']; [lia|].
      cbn [dec_rows].
      destruct (Nat.leb_spec (length A + length (b1 ++ b2)) (length A)) as [Hle|Hgt].
      { rewrite app_length in Hle. lia. }
      rewrite (dec_row_rt' _ _ _ row r b1 A b2 P) by (try assumption; try list_eq; len_eq).
      cbn [bind fst snd].
      assert (Hf : (length b2 < fuel')%nat) by (rewrite app_length in Hfuel; lia).
      pose proof (IH b2 fuel' (A ++ b1) P Hne Hwf Hv2 Hn2 E0 Hf) as H.
      replace ((A ++ b1) ++ b2 ++ P) with (A ++ (b1 ++ b2) ++ P) in H by list_eq.
      replace (length (A ++ b1) + length b2)%nat with (length A + length (b1 ++ b2))%nat in H by len_eq.
      replace (length (A ++ b1)) with (length A + length b1)%nat in H by len_eq.
      rewrite H. cbn [bind fst snd]. reflexivity.
  Qed.

  (* a field in last position: the encoding runs to the end of the RDATA *)
  Definition last_wf (f : fld) : bool :=
    match f with
    | FS s => sfld_wf s
    | FRemaining lo => 0 <=? lo
    | FRemN n => true
    | FOptC8 hi => (0 <=? hi) && (hi <=? 255)
    | FRepeat _ asc row => row_wf asc row
    end.

  Lemma dec_f_rt : forall f v b A P,
    last_wf f = true -> valid_f f v = true -> nok_f f v -> enc_f o f v = Ok b ->
    dec_f (A ++ b ++ P) o f (length A + length b) (length A)
    = Ok (v, (length A + length b)%nat).
  Proof.
    intros f v b A P Hwf Hv Hn He.
    destruct f as [s|lo|n|hi|min1 asc row]; destruct v as [x|rows]; cbn in Hv, He; try discriminate.
    - (* FS *)
      cbn [dec_f]. pose proof (dec_s_rt s x b A [] P Hwf Hv Hn He) as H.
      cbn [app length] in H. rewrite Nat.add_0_r in H. rewrite H. reflexivity.
    - (* FRemaining *)
      destruct x as [z|x|nm]; try discriminate. injection He as <-. cbn [dec_f].
      replace (length A + length x - length A)%nat with (length x) by lia.
      pose proof (gb_at A x [] P) as H. cbn [app length] in H. rewrite Nat.add_0_r in H.
      rewrite H. reflexivity.
    - (* FRemN *)
      destruct x as [z|x|nm]; try discriminate. injection He as <-. cbn [dec_f].
      replace (length A + length x - length A)%nat with (length x) by lia.
      pose proof (gb_at A x [] P) as H. cbn [app length] in H. rewrite Nat.add_0_r in H.
      rewrite H. reflexivity.
    - (* FOptC8 *)
      destruct x as [z|x|nm]; try discriminate. cbn [dec_f].
      destruct x as [|c x'].
      + injection He as <-. cbn [length]. rewrite Nat.add_0_r, Nat.ltb_irrefl. reflexivity.
      + assert (Hlen : (1 <= length b)%nat).
        { match type of He with context [if ?c then _ else _] => destruct c end; [|discriminate].
          injection He as <-. cbn [length]. lia. }
        destruct (Nat.ltb_spec (length A) (length A + length b)) as [Hlt|Hge]; [|lia].
        apply andb_prop in Hwf as [Hwf1 Hwf2].
        pose proof (dec_s_rt (FCounted 1 0 255) (VB (c :: x')) b A [] P) as H.
        cbn [app length] in H. rewrite Nat.add_0_r in H.
        rewrite H; [reflexivity|reflexivity| |exact Logic.I|exact He].
        cbn [valid_s]. unfold len_in. pose proof (zlen_nonneg (c :: x')).
        apply andb_true_intro; split; lia.
    - (* FRepeat *)
      cbn [dec_f].
      apply andb_prop in Hv as [Hv Hasc]. apply andb_prop in Hv as [Hv Hmin].
      unfold row_wf in Hwf. apply andb_prop in Hwf as [Hwf Hne].
      assert (Hrow : row <> []) by (destruct row; [discriminate|congruence]).
      replace (length A + length b - length A)%nat with (length b) by lia.
      rewrite (dec_rows_rt row rows b (S (length b)) A P) by (auto; lia).
      reflexivity.
  Qed.

  Lemma dec_fields_rt : forall fs vs b A P,
    schema_wf fs = true -> valid_fields fs vs = true -> nok_fields fs vs -> enc_fields o fs vs = Ok b ->
    dec_fields (A ++ b ++ P) o fs (length A + length b) (length A)
    = Ok (vs, (length A + length b)%nat).
  Proof.
    induction fs as [|f fr IH]; intros vs b A P Hwf Hv Hn He; destruct vs as [|v vr]; cbn in Hv, He; try discriminate.
    - injection He as <-. cbn. rewrite Nat.add_0_r. reflexivity.
    - apply andb_prop in Hv as [Hv1 Hv2]. destruct Hn as [Hn1 Hn2].
      inv_bind He. inv_bind He. injection He as <-. rename x into b1, x0 into b2.
      destruct fr as [|f2 fr'].
      + (* last field *)
        destruct vr; [|discriminate]. cbn in E0. injection E0 as <-.
        rewrite app_nil_r. cbn [dec_fields].
        assert (Hl : last_wf f = true) by (destruct f; exact Hwf).
        rewrite (dec_f_rt f v b1 A P) by assumption. reflexivity.
      + (* inner field: must be self-delimiting *)
        destruct f as [s| | | |]; try (cbn in Hwf; discriminate).
        assert (Hs : sfld_wf s = true /\ schema_wf (f2 :: fr') = true).
        { cbn [schema_wf] in Hwf. apply andb_prop in Hwf. exact Hwf. }
        destruct Hs as [Hs Hr].
        destruct v as [x|]; [|discriminate].
        remember (f2 :: fr') as frr eqn:Hfrr.
        cbn [dec_fields dec_f].
        cbn in Hn1, Hv1, E.
        rewrite (dec_s_rt' _ _ _ s x b1 A b2 P) by (try assumption; try list_eq; len_eq).
        cbn [bind fst snd].
        pose proof (IH vr b2 (A ++ b1) P Hr Hv2 Hn2 E0) as H.
        replace ((A ++ b1) ++ b2 ++ P) with (A ++ (b1 ++ b2) ++ P) in H by list_eq.
        replace (length (A ++ b1) + length b2)%nat with (length A + length (b1 ++ b2))%nat in H by len_eq.
        replace (length (A ++ b1)) with (length A + length b1)%nat in H by len_eq.
        rewrite H. cbn [bind fst snd]. reflexivity.
  Qed.

  (* dns.rdata.from_wire on the encoding of a validated record, anywhere in a message *)
  Theorem roundtrip_gen : forall fs ck vs b A P,
    schema_wf fs = true -> validate fs ck vs = true -> nok_fields fs vs ->
    enc_fields o fs vs = Ok b ->
    decode_rdata o fs ck (A ++ b ++ P) (length A) (length b) = Ok vs.
  Proof.
    intros fs ck vs b A P Hwf Hv Hn He. unfold decode_rdata.
    destruct (Nat.ltb_spec (length (A ++ b ++ P)) (length A)) as [H|H].
    { rewrite app_length in H. lia. }
    destruct (Nat.ltb_spec (length (A ++ b ++ P) - length A) (length b)) as [H2|H2].
    { rewrite !app_length in H2. lia. }
    cbv zeta.
    pose proof Hv as Hv'. unfold validate in Hv'. apply andb_prop in Hv' as [Hvf _].
    rewrite (dec_fields_rt fs vs b A P) by assumption.
    cbn [bind fst snd]. rewrite Hv. cbn [negb]. rewrite Nat.eqb_refl. reflexivity.
  Qed.
End RoundTrip.
