(* Names inside records: the text printed by Name.to_styled_text is one tokenizer word (with
   backslash pairs), never the generic-syntax marker `\#`; choose_relativity keeps names valid. *)
From DV Require Import Base.Prelude Model.NameM Model.TokM Model.RdTextM.
From DV Require Import Proofs.NameValid Proofs.NameText Proofs.TokEsc Proofs.TokWords Proofs.TokShape.
Open Scope Z_scope.

Ltac Zify.zify_post_hook ::= Z.to_euclidean_division_equations.

Lemma safe_char c : c <> 32 -> c <> 9 -> c <> 10 -> c <> 59 -> c <> 40 -> c <> 41 -> c <> 34 -> c <> 92 ->
  safe c = true.
Proof.
  intros. unfold safe, is_delim.
  replace (c =? 32) with false by lia. replace (c =? 9) with false by lia.
  replace (c =? 10) with false by lia. replace (c =? 59) with false by lia.
  replace (c =? 40) with false by lia. replace (c =? 41) with false by lia.
  replace (c =? 34) with false by lia. replace (c =? 92) with false by lia. reflexivity.
Qed.

(* units of one escaped octet of a name, and its first two characters *)
Lemma name_esc_octet_units c : 0 <= c < 256 ->
  units (NameM.esc_octet c) /\ NameM.esc_octet c <> [] /\
  (forall r, exists a t, NameM.esc_octet c ++ r = a :: t /\ (a <> 92 \/ exists b t', t = b :: t' /\ b <> 35)).
Proof.
  intros Hc. unfold NameM.esc_octet.
  destruct (escaped c) eqn:E.
  - assert (c = 34 \/ c = 40 \/ c = 41 \/ c = 46 \/ c = 59 \/ c = 92 \/ c = 64 \/ c = 36) as H.
    { unfold escaped in E. lia. }
    split; [apply un_pair; [lia|constructor]|]. split; [discriminate|].
    intros r. exists 92, (c :: r). split; [reflexivity|]. right. exists c, r. split; [reflexivity|lia].
  - assert (c <> 34 /\ c <> 40 /\ c <> 41 /\ c <> 46 /\ c <> 59 /\ c <> 92 /\ c <> 64 /\ c <> 36) as H.
    { unfold escaped in E. lia. }
    destruct ((c >? 32) && (c <? 127)) eqn:E2.
    + split; [apply un_safe; [apply safe_char; lia|constructor]|]. split; [discriminate|].
      intros r. exists c, r. split; [reflexivity|]. left. lia.
    + split.
      * apply un_pair; [lia|]. apply un_safe; [apply safe_char; lia|].
        apply un_safe; [apply safe_char; lia|constructor].
      * split; [discriminate|]. intros r. eexists _, _. split; [reflexivity|]. right.
        eexists _, _. split; [reflexivity|]. lia.
Qed.

Lemma name_escapify_units l : Forall (fun c => 0 <= c < 256) l -> units (NameM.escapify l).
Proof.
  induction 1 as [|c l Hc _ IH]; [constructor|]. unfold NameM.escapify in *. cbn [flat_map].
  apply units_app; [apply name_esc_octet_units, Hc|exact IH].
Qed.

Lemma join_dot_units (ls : list (list Z)) : Forall units ls -> units (join_dot ls).
Proof.
  induction 1 as [|x ls Hx _ IH]; [constructor|]. destruct ls as [|y ls]; [exact Hx|].
  change (join_dot (x :: y :: ls)) with (x ++ 46 :: join_dot (y :: ls)).
  apply units_app; [exact Hx|]. apply un_safe; [reflexivity|exact IH].
Qed.

(* the printed name: one non-empty word that is not `\#` *)
Theorem name_text_word (n : name) : Valid n -> AllBytes n ->
  units (NameM.to_text n) /\ NameM.to_text n <> [] /\ zlist_eqb (NameM.to_text n) [92; 35] = false.
Proof.
  intros V HB. unfold name, label in *.
  destruct n as [|x n]; [split; [apply un_safe; [reflexivity|constructor]|split; [discriminate|reflexivity]]|].
  destruct x as [|c x].
  { destruct n as [|y n]; [split; [apply un_safe; [reflexivity|constructor]|split; [discriminate|reflexivity]]|].
    exfalso. eapply Valid_head_nonempty; eauto. }
  change (NameM.to_text ((c :: x) :: n)) with (join_dot (map NameM.escapify ((c :: x) :: n))).
  split.
  - apply join_dot_units. apply Forall_map. eapply Forall_impl; [|exact HB].
    intros l Hl. apply name_escapify_units, Hl.
  - assert (Hc : 0 <= c < 256) by (inversion HB as [|? ? H1 _]; inversion H1; assumption).
    destruct (name_esc_octet_units c Hc) as (_ & _ & Hh).
    assert (exists r, join_dot (map NameM.escapify ((c :: x) :: n)) = NameM.esc_octet c ++ r) as [r Er].
    { cbn [map]. unfold NameM.escapify at 1. cbn [flat_map].
      destruct (map NameM.escapify n) as [|y ys].
      - cbn [join_dot]. eexists. reflexivity.
      - change (join_dot ((NameM.esc_octet c ++ flat_map NameM.esc_octet x) :: y :: ys))
          with ((NameM.esc_octet c ++ flat_map NameM.esc_octet x) ++ 46 :: join_dot (y :: ys)).
        rewrite <- app_assoc. eexists. reflexivity. }
    rewrite Er. destruct (Hh r) as (a & t & Et & Ha). rewrite Et.
    split; [discriminate|].
    destruct Ha as [Ha|(b & t' & -> & Hb)].
    + cbn [zlist_eqb]. replace (a =? 92) with false by lia. reflexivity.
    + cbn [zlist_eqb]. replace (b =? 35) with false by lia. rewrite andb_false_r. reflexivity.
Qed.

(* ---------- choose_relativity keeps names valid and made of octets ---------- *)
Lemma AllBytes_app a b : AllBytes a -> AllBytes b -> AllBytes (a ++ b).
Proof. unfold AllBytes. intros. apply Forall_app. split; assumption. Qed.

Lemma AllBytes_firstn k (n : name) : AllBytes n -> AllBytes (firstn k n).
Proof.
  unfold AllBytes. revert k. induction n as [|l n IH]; intros k H; [destruct k; constructor|].
  destruct k; [constructor|]. inversion H; subst. cbn [firstn]. constructor; [assumption|apply IH; assumption].
Qed.

Definition oAllBytes (o : option name) : Prop := match o with Some x => AllBytes x | None => True end.

Lemma choose_relativity_ok n o rel n1 : Valid n -> AllBytes n -> oAllBytes o ->
  choose_relativity n o rel = Ok n1 -> Valid n1 /\ AllBytes n1.
Proof.
  intros V HB HO. unfold choose_relativity.
  destruct o as [[|x o']|]; [intros E; inversion E; subst; auto| |intros E; inversion E; subst; auto].
  cbn [oAllBytes] in HO. destruct rel.
  - unfold relativize. destruct (is_subdomain n (x :: o')).
    + intros E. apply mk_name_ok in E as [-> V1]. split; [exact V1|]. unfold drop_last. apply AllBytes_firstn, HB.
    + intros E; inversion E; subst; auto.
  - unfold derelativize. destruct (negb (is_absolute n)).
    + unfold concatenate. destruct (is_absolute n && (0 <? zlen (x :: o'))); [discriminate|].
      intros E. apply mk_name_ok in E as [-> V1]. split; [exact V1|]. apply AllBytes_app; assumption.
    + intros E; inversion E; subst; auto.
Qed.

(* the name-level effect of printing under a style and parsing under a context *)
Definition name_path (st : style) (c : pctx) (n : name) : res name :=
  do n1 <- choose_relativity n (s_origin st) (s_relativize st);
  do n2 <- (if is_absolute n1 then Ok n1
            else match p_origin c with Some o => mk_name (n1 ++ o) | None => Ok n1 end);
  choose_relativity n2 (relto_or_origin c) (p_relativize c).

Theorem as_name_printed st c n text he : Valid n -> AllBytes n -> oAllBytes (s_origin st) ->
  name_to_styled_text st n = Ok text ->
  as_name c (mkTok tIDENT text he None) = name_path st c n.
Proof.
  intros V HB HO. unfold name_to_styled_text, name_path.
  destruct (choose_relativity n (s_origin st) (s_relativize st)) as [n1| |] eqn:E; cbn [bind]; try discriminate.
  intros H. inversion H; subst text. clear H.
  destruct (choose_relativity_ok _ _ _ _ V HB HO E) as [V1 B1].
  unfold as_name, is_identifier. cbn [ttype tvalue]. replace (tIDENT =? tIDENT) with true by reflexivity.
  cbn [negb]. rewrite text_roundtrip_origin by assumption. reflexivity.
Qed.
