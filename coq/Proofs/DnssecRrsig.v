(* _make_rrsig_signature_data = RFC 4034 3.1.8.1 signed data, with the wildcard label
   reduction of RFC 4035 5.3.2 and the canonical RR order of RFC 4034 6.3. *)
From Coq Require Import Permutation Sorted.
From DV Require Import Base.Prelude Model.NameM Model.DnssecM.
From DV Require Import Proofs.NameValid Proofs.NameOrder Proofs.DnssecRef Proofs.DnssecCanon Proofs.DnssecSort.
Open Scope Z_scope.

Lemma rfc_expand_abs n origin a : rfc_expand n origin = Ok a -> is_absolute a = true.
Proof.
  unfold rfc_expand. destruct (is_absolute n) eqn:E; [intros H; inversion H; now subst|].
  destruct origin as [o|]; [|discriminate]. destruct (is_absolute o) eqn:Eo; [|discriminate].
  destruct (wire_length n + wire_length o >? 255); [discriminate|].
  intros H; inversion H; subst. destruct o as [|x o']; [discriminate|].
  now rewrite is_absolute_app.
Qed.

(* if not n.is_absolute(): n = n.derelativize(origin) *)
Lemma absolutize_rfc n origin a :
  rfc_expand n origin = Ok a -> Valid a -> absolutize n origin = Ok a.
Proof.
  unfold absolutize, rfc_expand. destruct (is_absolute n) eqn:E; [auto|].
  destruct origin as [o|]; [|discriminate]. destruct (is_absolute o); [|discriminate].
  destruct (wire_length n + wire_length o >? 255); [discriminate|].
  intros H Hv; inversion H; subst. unfold derelativize, concatenate. rewrite E. cbn [negb andb].
  now apply mk_name_valid.
Qed.

Lemma absolutize_no_origin n : is_absolute n = false -> absolutize n None = Lib eValidationFailure.
Proof. intros E. unfold absolutize. now rewrite E. Qed.

Lemma to_wire_abs n canon : is_absolute n = true -> to_wire n None canon = Ok (rfc_name_wire canon n).
Proof. intros H. unfold to_wire. now rewrite H. Qed.

Lemma header_length r : length (rrsig_header r) = 18%nat.
Proof. reflexivity. Qed.

(* wire[:18] of the RRSIG rdata is the fixed part, whatever the signer name is *)
Lemma rrsig_prefix r origin signer :
  rfc_expand (r_signer r) origin = Ok signer ->
  exists w, rrsig_to_wire r origin false = Ok w /\ firstn 18 w = rrsig_header r.
Proof.
  intros Hs. unfold rrsig_to_wire. rewrite to_wire_rfc, Hs. cbn [bind].
  eexists; (split; [reflexivity|]).
  change 18%nat with (length (rrsig_header r) + 0)%nat. rewrite firstn_app_2. cbn [firstn].
  apply app_nil_r.
Qed.

(* ---------- wildcard label reduction ---------- *)
Lemma from_text_star s : from_text [42] (Some s) = mk_name ([42] :: s).
Proof. reflexivity. Qed.

Lemma wire_length_prefix_ge2 (p : name) :
  p <> [] -> Forall (fun l => l <> []) p -> 2 <= wire_length p.
Proof.
  destruct p as [|l p]; [congruence|]. intros _ H. inversion H as [|? ? Hl _]; subst.
  rewrite wire_length_cons. pose proof (wire_length_nonneg p).
  destruct l; [congruence|]. unfold zlen. cbn [length]. lia.
Qed.

Lemma Valid_star_suffix (p : name) x b :
  p <> [] -> Valid (p ++ x :: b) -> Valid ([42] :: x :: b).
Proof.
  intros Hp Hv. pose proof (Valid_app_r _ _ Hv) as (S1 & S2 & S3).
  pose proof (Valid_app_l_nonempty _ _ _ Hv) as Hne.
  destruct Hv as (_ & V2 & _). rewrite wire_length_app in V2.
  pose proof (wire_length_prefix_ge2 p Hp Hne).
  repeat split.
  - constructor; [cbn; lia|exact S1].
  - rewrite wire_length_cons. change (zlen [42]) with 1. lia.
  - rewrite removelast_cons2. constructor; [discriminate|exact S3].
Qed.

Lemma wild_owner_model owner labels :
  Valid owner -> is_absolute owner = true -> 0 <= labels -> labels <= rfc_label_count owner ->
  (if labels <? zlen owner - 1
   then do ps <- split owner (labels + 1); from_text [42] (Some (snd ps))
   else Ok owner) = Ok (rfc_wildcard_owner owner labels)
  /\ Valid (rfc_wildcard_owner owner labels)
  /\ is_absolute (rfc_wildcard_owner owner labels) = true.
Proof.
  intros Hv Ha H0 Hle. unfold rfc_wildcard_owner, rfc_label_count in *.
  destruct (labels <? zlen owner - 1) eqn:E; [|auto].
  apply Z.ltb_lt in E.
  set (k := (length owner - Z.to_nat (labels + 1))%nat).
  assert (Hk : Z.to_nat (zlen owner - 1 - labels) = k) by (unfold k, zlen in *; lia).
  rewrite Hk.
  assert (Hk1 : (1 <= k)%nat) by (unfold k, zlen in *; lia).
  assert (Hk2 : (k < length owner)%nat) by (unfold k, zlen in *; lia).
  pose proof (firstn_skipn k owner) as Esplit.
  destruct (skipn k owner) as [|x b] eqn:Es.
  { apply (f_equal (@length _)) in Es. rewrite skipn_length in Es. cbn in Es. lia. }
  assert (Hp : firstn k owner <> []).
  { intros Z0. apply (f_equal (@length _)) in Z0. rewrite firstn_length in Z0. cbn in Z0. lia. }
  assert (Hvo : Valid (firstn k owner ++ x :: b)) by (rewrite Esplit; exact Hv).
  pose proof (Valid_star_suffix _ _ _ Hp Hvo) as Hvs.
  split; [|split].
  - unfold split.
    replace (labels + 1 =? 0) with false by lia.
    replace (labels + 1 =? zlen owner) with false by lia.
    replace ((labels + 1 <? 0) || (labels + 1 >? zlen owner)) with false by lia.
    unfold drop_last, take_last. fold k. rewrite Es.
    rewrite (mk_name_valid (firstn k owner)) by (eapply Valid_prefix; exact Hvo).
    rewrite (mk_name_valid (x :: b)) by (eapply Valid_app_r; exact Hvo).
    cbn [bind snd]. rewrite from_text_star. now apply mk_name_valid.
  - exact Hvs.
  - rewrite is_absolute_cons. rewrite <- Esplit in Ha. now rewrite is_absolute_app in Ha.
Qed.

(* ---------- framing of the RRs ---------- *)
Lemma map_res_ext {A B} (f g : A -> res B) l :
  Forall (fun x => f x = g x) l -> map_res f l = map_res g l.
Proof. induction 1 as [|x r Hx _ IH]; cbn; [reflexivity|]. now rewrite Hx, IH. Qed.

Lemma map_res_frames rrnamebuf rrfixed : forall l,
  Forall (fun c => zlen c < 65536) l ->
  map_res (rr_frame rrnamebuf rrfixed) l
  = Ok (map (fun rd => rrnamebuf ++ rrfixed ++ u16 (zlen rd) ++ rd) l).
Proof.
  induction 1 as [|c r Hc _ IH]; cbn [map_res map]; [reflexivity|].
  unfold rr_frame at 1, pack_len16, in_range.
  assert (0 <= zlen c) by (unfold zlen; lia).
  replace ((0 <=? zlen c) && (zlen c <? 65536)) with true by lia.
  cbn [bind]. now rewrite IH.
Qed.

Lemma concat_map_flat_map {A B} (f : A -> list B) l : concat (map f l) = flat_map f l.
Proof. induction l; cbn; congruence. Qed.

Definition labels_ok (owner : name) (labels : Z) : Prop :=
  0 <= labels <= rfc_label_count owner /\
  (is_wild owner = true -> labels = rfc_label_count owner - 1).

Theorem make_rrsig_data_eq_rfc (tbl : list entry) :
  forallb flag_ok tbl = true ->
  forall r rrname rdclass rdtype rdatas origin signer owner canon sorted,
    rfc_expand (r_signer r) origin = Ok signer -> Valid signer ->
    rfc_expand rrname origin = Ok owner -> Valid owner ->
    labels_ok owner (r_labels r) ->
    Forall (fun fs => arity_ok tbl rdclass rdtype fs = true) rdatas ->
    map_res (fun fs => rfc4034_canonical_rdata rdtype fs origin) rdatas = Ok canon ->
    Forall (fun c => zlen c < 65536) canon ->
    is_canonical_order canon sorted ->
    make_rrsig_data tbl r rrname rdclass rdtype rdatas origin
    = Ok (rfc_rrsig_input (r_covered r) (r_alg r) (r_labels r) (r_ottl r) (r_exp r) (r_inc r) (r_tag r)
                          signer owner rdclass rdtype sorted).
Proof.
  intros Htbl r rrname rdclass rdtype rdatas origin signer owner canon sorted
         Es Vs Eo Vo [[L0 L1] Lw] Har Hcanon Hlen Hsorted.
  unfold make_rrsig_data.
  rewrite (absolutize_rfc _ _ _ Es Vs). cbn [bind].
  pose proof (rfc_expand_abs _ _ _ Es) as As. pose proof (rfc_expand_abs _ _ _ Eo) as Ao.
  destruct (rrsig_prefix r origin signer Es) as (w & Ew & Fw). rewrite Ew. cbn [bind]. rewrite Fw.
  rewrite (to_wire_abs signer true As). cbn [bind].
  rewrite (absolutize_rfc _ _ _ Eo Vo). cbn [bind].
  unfold rfc_label_count in *.
  replace (is_wild owner && negb (r_labels r =? zlen owner - 2)) with false.
  2:{ destruct (is_wild owner) eqn:W; [|reflexivity]. specialize (Lw eq_refl). cbn [andb]. lia. }
  replace (zlen owner - 1 <? r_labels r) with false by lia.
  destruct (wild_owner_model owner (r_labels r) Vo Ao L0 L1) as (Ew2 & Vw & Aw).
  rewrite Ew2. cbn [bind].
  rewrite (to_wire_abs _ true Aw). cbn [bind].
  rewrite (map_res_ext _ (fun fs => rfc4034_canonical_rdata rdtype fs origin)).
  2:{ eapply Forall_impl; [|exact Har]. intros fs Hfs. now apply digestable_eq_rfc. }
  rewrite Hcanon. cbn [bind].
  assert (Hs : sort_bytes canon = sorted)
    by (eapply canonical_order_unique; [apply sort_bytes_canonical|exact Hsorted]).
  rewrite Hs.
  rewrite map_res_frames.
  2:{ destruct Hsorted as [P _]. eapply Permutation_Forall; eauto. }
  cbn [bind]. f_equal. unfold rfc_rrsig_input, rfc_rrsig_rdata, rrsig_header.
  rewrite concat_map_flat_map. rewrite <- !app_assoc. repeat f_equal.
Qed.

(* RFC 4035 5.3.1: an RRSIG whose labels field exceeds the owner's label count is refused *)
Theorem make_rrsig_data_rejects_long_labels tbl r rrname rdclass rdtype rdatas origin signer owner :
  rfc_expand (r_signer r) origin = Ok signer -> Valid signer ->
  rfc_expand rrname origin = Ok owner -> Valid owner ->
  rfc_label_count owner < r_labels r ->
  make_rrsig_data tbl r rrname rdclass rdtype rdatas origin = Lib eValidationFailure.
Proof.
  intros Es Vs Eo Vo Hl. unfold make_rrsig_data.
  rewrite (absolutize_rfc _ _ _ Es Vs). cbn [bind].
  pose proof (rfc_expand_abs _ _ _ Es) as As.
  destruct (rrsig_prefix r origin signer Es) as (w & Ew & Fw). rewrite Ew. cbn [bind].
  rewrite (to_wire_abs signer true As). cbn [bind].
  rewrite (absolutize_rfc _ _ _ Eo Vo). cbn [bind].
  unfold rfc_label_count in Hl.
  destruct (is_wild owner && negb (r_labels r =? zlen owner - 2)); [reflexivity|].
  replace (zlen owner - 1 <? r_labels r) with true by lia. reflexivity.
Qed.

(* a relative owner or signer without an origin is refused with ValidationFailure *)
Theorem make_rrsig_data_needs_origin tbl r rrname rdclass rdtype rdatas :
  is_absolute (r_signer r) = false ->
  make_rrsig_data tbl r rrname rdclass rdtype rdatas None = Lib eValidationFailure.
Proof. intros H. unfold make_rrsig_data. now rewrite absolutize_no_origin. Qed.

(* wildcard reduction, stated on its own *)
Theorem wildcard_reduction_spec owner labels :
  Valid owner -> is_absolute owner = true -> 0 <= labels <= rfc_label_count owner ->
  rfc_wildcard_owner owner labels =
    (if labels =? rfc_label_count owner then owner
     else [42] :: skipn (length owner - 1 - Z.to_nat labels) owner)
  /\ Valid (rfc_wildcard_owner owner labels).
Proof.
  intros Hv Ha [H0 H1]. split.
  - unfold rfc_wildcard_owner, rfc_label_count in *.
    destruct (labels =? zlen owner - 1) eqn:E.
    + replace (labels <? zlen owner - 1) with false by lia. reflexivity.
    + replace (labels <? zlen owner - 1) with true by lia. f_equal. f_equal. unfold zlen in *. lia.
  - now destruct (wild_owner_model owner labels Hv Ha H0 H1) as (_ & V & _).
Qed.

(* RFC 4034 3.1.3: the labels field does not count a leading "*"; a wildcard owner with any other
   labels value is refused *)
Theorem make_rrsig_data_rejects_wild_mismatch tbl r rrname rdclass rdtype rdatas origin signer owner :
  rfc_expand (r_signer r) origin = Ok signer -> Valid signer ->
  rfc_expand rrname origin = Ok owner -> Valid owner ->
  is_wild owner = true -> r_labels r <> rfc_label_count owner - 1 ->
  make_rrsig_data tbl r rrname rdclass rdtype rdatas origin = Lib eValidationFailure.
Proof.
  intros Es Vs Eo Vo Hw Hl. unfold make_rrsig_data.
  rewrite (absolutize_rfc _ _ _ Es Vs). cbn [bind].
  pose proof (rfc_expand_abs _ _ _ Es) as As.
  destruct (rrsig_prefix r origin signer Es) as (w & Ew & Fw). rewrite Ew. cbn [bind].
  rewrite (to_wire_abs signer true As). cbn [bind].
  rewrite (absolutize_rfc _ _ _ Eo Vo). cbn [bind].
  unfold rfc_label_count in Hl. rewrite Hw.
  replace (r_labels r =? zlen owner - 2) with false by lia. reflexivity.
Qed.
