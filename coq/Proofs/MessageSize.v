(* C08: size bound, exact rollback, table offsets stay inside the message. *)
From DV Require Import Base.Prelude Model.NameM Model.MessageM.
From DV Require Import Proofs.NameOrder Proofs.NameValid Proofs.NameRel Proofs.NameWire Proofs.NameCompress.
From DV Require Import Proofs.MessageName Proofs.MessageRender.
Open Scope Z_scope.

Ltac nlia := unfold name, label in *; lia.

Definition SInv (eff : Z) (r : rst) : Prop :=
  12 <= zlen (out r) /\ zlen (out r) <= Z.max 12 (maxsz r) /\ TblBelow r /\
  maxsz r + reserved r = eff /\ 0 <= reserved r.

Lemma TblBelow_step r em new :
  TblBelow r ->
  Forall (fun kv => zlen (out r) <= snd kv < zlen (out r) + zlen em /\ 1 < zlen (fst kv)) new ->
  Forall (fun kv => snd kv < zlen (out r ++ em)) (tbl r ++ new).
Proof.
  intros TB F. rewrite zlen_app'. apply Forall_app. split.
  - eapply Forall_impl; [|exact TB]. cbn beta. intros kv H. pose proof (zlen_nn em). nlia.
  - eapply Forall_impl; [|exact F]. cbn beta. intros kv (H & _). nlia.
Qed.

Lemma tracked_SInv E sec n eff r b r' :
  ext_em E -> SInv eff r -> tracked E sec n r = Ok (b, r') ->
  SInv eff r' /\ (b = false -> zlen (out r') <= maxsz r') /\ maxsz r' = maxsz r /\ padded r' = padded r
  /\ rflags r' = rflags r.
Proof.
  intros X (I1 & I2 & I3 & I4 & I5) H.
  destruct (tracked_spec E sec n r b r' X I3 H) as (_ & em & new & HE & F & [(-> & Hfit & ->)|(-> & Hbig & ->)]).
  - pose proof (zlen_nn em). pose proof (TblBelow_step r em new I3 F) as TB'.
    unfold SInv, TblBelow. cbn [out tbl maxsz reserved inc_count set_out set_rsec padded rflags].
    rewrite zlen_app' in *.
    split; [split; [lia|split; [lia|split; [exact TB'|split; [exact I4|exact I5]]]]|].
    split; [intros _; lia|]. auto.
  - unfold SInv, TblBelow. cbn [out tbl maxsz reserved set_rsec padded rflags].
    split; [split; [lia|split; [lia|split; [exact I3|split; [exact I4|exact I5]]]]|].
    split; [discriminate|]. auto.
Qed.

Lemma add_questions_SInv o eff : forall l r b r',
  SInv eff r -> add_questions o l r = Ok (b, r') ->
  SInv eff r' /\ maxsz r' = maxsz r /\ padded r' = padded r /\ rflags r' = rflags r.
Proof.
  induction l as [|rs l IH]; intros r b r' I H.
  - inversion H; subst. auto.
  - cbn [add_questions] in H. apply bind_ok in H. destruct H as ([b1 r1] & H1 & H).
    rewrite add_question_tracked in H1.
    destruct (tracked_SInv _ _ _ _ _ _ _ (ext_q_em _ _ _ _) I H1) as (I' & _ & M & P & Fl).
    cbn [fst snd] in H. destruct b1.
    + inversion H; subst. auto.
    + destruct (IH _ _ _ I' H) as (I'' & M' & P' & Fl'). split; [exact I''|]. repeat split; congruence.
Qed.

Lemma add_rrsets_SInv o sec eff : forall l r b r',
  SInv eff r -> add_rrsets o sec l r = Ok (b, r') ->
  SInv eff r' /\ maxsz r' = maxsz r /\ padded r' = padded r /\ rflags r' = rflags r.
Proof.
  induction l as [|rs l IH]; intros r b r' I H.
  - inversion H; subst. auto.
  - cbn [add_rrsets] in H. apply bind_ok in H. destruct H as ([b1 r1] & H1 & H).
    rewrite add_rrset_tracked in H1.
    destruct (tracked_SInv _ _ _ _ _ _ _ (ext_rrset_em _ _ _) I H1) as (I' & _ & M & P & Fl).
    cbn [fst snd] in H. destruct b1.
    + inversion H; subst. auto.
    + destruct (IH _ _ _ I' H) as (I'' & M' & P' & Fl'). split; [exact I''|]. repeat split; congruence.
Qed.

Lemma reserve_spec size r r' :
  reserve size r = Ok r' ->
  out r' = out r /\ tbl r' = tbl r /\ maxsz r' + reserved r' = maxsz r + reserved r /\
  reserved r <= reserved r' /\ rflags r' = rflags r /\ padded r' = padded r /\ rsec r' = rsec r
  /\ cq r' = cq r /\ can r' = can r /\ cau r' = cau r /\ cad r' = cad r.
Proof.
  unfold reserve. destruct (Z.ltb_spec size 0); [discriminate|].
  destruct (Z.gtb_spec size (maxsz r)); [discriminate|].
  intros Hr; inversion Hr; subst. cbn. repeat split; lia.
Qed.

Lemma eff_limit_range ms rp : 512 <= eff_limit ms rp <= 65535.
Proof.
  unfold eff_limit.
  set (m := if ms =? 0 then if rp =? 0 then 65535 else rp else ms).
  destruct (Z.ltb_spec m 512); [lia|]. destruct (Z.gtb_spec m 65535); lia.
Qed.

Lemma write_header_out id r r' :
  write_header id r = Ok r' ->
  exists h, zlen h = 12 /\ r' = set_out r (h ++ skipn 12 (out r)) (tbl r).
Proof.
  intros H. unfold write_header in H.
  apply bind_ok in H. destruct H as (a & Ea & H). apply bind_ok in H. destruct H as (b & Eb & H).
  apply bind_ok in H. destruct H as (c0 & E0 & H). apply bind_ok in H. destruct H as (c1 & E1 & H).
  apply bind_ok in H. destruct H as (c2 & E2 & H). apply bind_ok in H. destruct H as (c3 & E3 & H).
  apply pack16_len in Ea, Eb, E0, E1, E2, E3.
  exists (a ++ b ++ c0 ++ c1 ++ c2 ++ c3). split.
  - rewrite !zlen_app'. lia.
  - injection H as <-. rewrite <- !app_assoc. reflexivity.
Qed.

Lemma zlen_skipn {A} (l : list A) n : (n <= length l)%nat -> zlen (skipn n l) = zlen l - Z.of_nat n.
Proof. intros H. unfold zlen. rewrite skipn_length. lia. Qed.

Lemma skipn_app_exact {A} (a b : list A) n : length a = n -> skipn n (a ++ b) = b.
Proof. intros <-. rewrite skipn_app, skipn_all, Nat.sub_diag. reflexivity. Qed.

Lemma write_header_spec id r r' :
  12 <= zlen (out r) -> write_header id r = Ok r' ->
  zlen (out r') = zlen (out r) /\ tbl r' = tbl r /\ maxsz r' = maxsz r /\ reserved r' = reserved r
  /\ padded r' = padded r /\ skipn 12 (out r') = skipn 12 (out r) /\ rsec r' = rsec r /\ rflags r' = rflags r
  /\ cq r' = cq r /\ can r' = can r /\ cau r' = cau r /\ cad r' = cad r.
Proof.
  intros H12 H. destruct (write_header_out _ _ _ H) as (h & Hh & ->).
  cbn [out tbl maxsz reserved padded set_out rsec rflags cq can cau cad].
  repeat split; try reflexivity.
  - rewrite zlen_app', zlen_skipn by (unfold zlen in H12; lia). lia.
  - apply skipn_app_exact. unfold zlen in Hh. lia.
Qed.

Lemma SInv_set_padded eff r : SInv eff r -> SInv eff (set_padded r).
Proof. intros H. exact H. Qed.

Lemma add_opt_SInv o opt pad os ts eff r b r' :
  SInv eff r -> add_opt o opt pad os ts r = Ok (b, r') ->
  SInv eff r' /\ (b = false -> zlen (out r') <= maxsz r') /\ maxsz r' = maxsz r /\ rflags r' = rflags r.
Proof.
  intros I H. unfold add_opt in H.
  destruct (pad =? 0).
  - apply bind_ok in H. destruct H as (rs & _ & H). rewrite add_rrset_tracked in H.
    destruct (tracked_SInv _ _ _ _ _ _ _ (ext_rrset_em _ _ _) I H) as (A & B & C & _ & D). auto.
  - apply bind_ok in H. destruct H as (rs & _ & H). rewrite add_rrset_tracked in H.
    destruct (tracked_SInv _ _ _ _ _ _ _ (ext_rrset_em _ _ _) (SInv_set_padded _ _ I) H) as (A & B & C & _ & D).
    auto.
Qed.

Lemma write_tsig_eq o kn rd r :
  write_tsig o kn rd r =
    do br <- tracked (rr_em kn tTSIG cANY 0 rd o None (negb (padded r)) false) 3 1 r;
    if fst br then Ok br
    else do c <- pack16 (cad (snd br));
         Ok (false, set_out (snd br) (patch16 (out (snd br)) 10 (cad (snd br))) (tbl (snd br))).
Proof.
  unfold write_tsig, tracked.
  destruct (set_section 3 r) as [r1| |]; cbn [bind]; try reflexivity.
  rewrite rr_to_wire_em. unfold run_em.
  destruct (rr_em kn tTSIG cANY 0 rd o None (negb (padded r)) false (zlen (out r1)) (tbl r1)) as [[e1 t1]| |];
    cbn [bind fst snd]; try reflexivity.
  destruct (track_end _ _) as [big r2]. destruct big; reflexivity.
Qed.

Lemma zlen_patch16 f pos v : 0 <= pos -> pos + 2 <= zlen f -> zlen (patch16 f pos v) = zlen f.
Proof.
  intros H0 H. unfold patch16. rewrite !zlen_app'. unfold zlen in *.
  rewrite firstn_length, skipn_length. cbn [length MessageM.u16]. lia.
Qed.

Lemma write_tsig_SInv o kn rd eff r b r' :
  SInv eff r -> write_tsig o kn rd r = Ok (b, r') ->
  SInv eff r' /\ (b = false -> zlen (out r') <= maxsz r') /\ maxsz r' = maxsz r.
Proof.
  intros I H. rewrite write_tsig_eq in H. apply bind_ok in H. destruct H as ([b1 r1] & H1 & H).
  destruct (tracked_SInv _ _ _ _ _ _ _ (ext_rr_em _ _ _ _ _ _ _ _ _) I H1) as (I' & B & M & _).
  cbn [fst snd] in H. destruct b1.
  - inversion H; subst. auto.
  - apply bind_ok in H. destruct H as (c & _ & H). inversion H; subst.
    destruct I' as (J1 & J2 & J3 & J4 & J5).
    assert (Hz : zlen (patch16 (out r1) 10 (cad r1)) = zlen (out r1)) by (apply zlen_patch16; lia).
    unfold SInv, TblBelow. cbn [out tbl maxsz reserved set_out]. rewrite Hz.
    split; [auto|]. split; [intros _; apply B; reflexivity|exact M].
Qed.

(* every step keeps the output within max(12, max_size); after release_reserved max_size is the
   effective limit again *)
Theorem to_wire_st_SInv m origin ms rp prefer pad r :
  to_wire_st m origin ms rp prefer pad = Ok r ->
  SInv (eff_limit ms rp) r /\ zlen (out r) <= eff_limit ms rp.
Proof.
  intros H. unfold to_wire_st in H.
  set (eff := eff_limit ms rp) in *. pose proof (eff_limit_range ms rp) as Heff. fold eff in Heff.
  set (r0 := mkRst (repeat 0 12) [] 0 0 0 0 0 (mflags m) eff 0 false) in *.
  apply bind_ok in H. destruct H as (r1 & R1 & H).
  apply bind_ok in H. destruct H as (tr & _ & H).
  apply bind_ok in H. destruct H as (r2 & R2 & H).
  apply reserve_spec in R1. destruct R1 as (O1 & T1 & L1 & V1 & _).
  apply reserve_spec in R2. destruct R2 as (O2 & T2 & L2 & V2 & _).
  assert (I2 : SInv eff r2).
  { unfold SInv, TblBelow. rewrite O2, O1, T2, T1. cbn [out tbl r0 maxsz reserved] in *.
    change (zlen (repeat 0 12)) with 12. repeat split; try lia. constructor. }
  apply bind_ok in H. destruct H as ([b1 s1] & S1 & H).
  destruct (add_questions_SInv _ _ _ _ _ _ I2 S1) as (J1 & _).
  apply bind_ok in H. destruct H as ([b2 s2] & S2 & H). cbn [fst snd] in S2.
  assert (J2 : SInv eff s2).
  { destruct b1; [inversion S2; subst; exact J1|]. eapply add_rrsets_SInv; eassumption. }
  apply bind_ok in H. destruct H as ([b3 s3] & S3 & H). cbn [fst snd] in S3.
  assert (J3 : SInv eff s3).
  { destruct b2; [inversion S3; subst; exact J2|]. eapply add_rrsets_SInv; eassumption. }
  apply bind_ok in H. destruct H as ([b4 s4] & S4 & H). cbn [fst snd] in S4.
  assert (J4 : SInv eff s4).
  { destruct b3; [inversion S4; subst; exact J3|]. eapply add_rrsets_SInv; eassumption. }
  apply bind_ok in H. destruct H as (r3 & R3 & H). cbn [fst snd] in R3.
  assert (J5 : SInv eff r3).
  { destruct b4.
    - destruct prefer; [|discriminate]. inversion R3; subst.
      destruct (rsec s4 <? 3); exact J4.
    - inversion R3; subst. exact J4. }
  set (r4 := release_reserved r3) in *.
  assert (J6 : SInv eff r4 /\ maxsz r4 = eff).
  { destruct J5 as (K1 & K2 & K3 & K4 & K5). unfold r4, release_reserved, SInv, TblBelow.
    cbn [out tbl maxsz reserved set_limits]. repeat split; try lia; try assumption. }
  destruct J6 as (J6 & M6).
  apply bind_ok in H. destruct H as (r5 & R5 & H).
  assert (J7 : SInv eff r5 /\ maxsz r5 = eff /\ zlen (out r5) <= eff).
  { destruct (mopt m) as [o|].
    - apply bind_ok in R5. destruct R5 as ([b5 s5] & A5 & R5). unfold raise_if_big in R5. cbn [fst snd] in R5.
      destruct b5; [discriminate|]. inversion R5; subst.
      destruct (add_opt_SInv _ _ _ _ _ _ _ _ _ J6 A5) as (A & B & C & _).
      split; [exact A|]. split; [congruence|]. rewrite <- M6, <- C. apply B. reflexivity.
    - inversion R5; subst. split; [exact J6|]. split; [exact M6|].
      destruct J6 as (K1 & K2 & _). lia. }
  destruct J7 as (J7 & M7 & Z7).
  apply bind_ok in H. destruct H as (r6 & R6 & H).
  assert (J8 : SInv eff r6 /\ maxsz r6 = eff /\ zlen (out r6) <= eff).
  { destruct J7 as (K1 & K2 & K3 & K4 & K5).
    destruct (write_header_spec _ _ _ K1 R6) as (A & B & C & D & _).
    unfold SInv, TblBelow. rewrite A, B, C, D. repeat split; try lia; try assumption. }
  destruct J8 as (J8 & M8 & Z8).
  destruct (mtsig m) as [[kn rd]|].
  - apply bind_ok in H. destruct H as ([b7 s7] & A7 & H).
    apply bind_ok in H. destruct H as (r7 & R7 & H). unfold raise_if_big in R7. cbn [fst snd] in R7.
    destruct b7; [discriminate|]. inversion R7; subst.
    destruct (write_tsig_SInv _ _ _ _ _ _ _ J8 A7) as (A & B & C).
    destruct A as (K1 & K2 & K3 & K4 & K5).
    destruct (write_header_spec _ _ _ K1 H) as (A' & B' & C' & D' & _).
    split.
    + unfold SInv, TblBelow. rewrite A', B', C', D'. repeat split; try lia; try assumption.
    + rewrite A'. specialize (B eq_refl). lia.
  - inversion H; subst. auto.
Qed.

Theorem size_bound_lemma m origin ms rp prefer pad w :
  to_wire m origin ms rp prefer pad = Ok w -> zlen w <= eff_limit ms rp.
Proof.
  unfold to_wire. intros H. apply bind_ok in H. destruct H as (r & R & H). inversion H; subst.
  apply (to_wire_st_SInv _ _ _ _ _ _ _ R).
Qed.

(* no compression-table offset lies at or beyond the end of the rendered message *)
Theorem table_inside_lemma m origin ms rp prefer pad r :
  to_wire_st m origin ms rp prefer pad = Ok r -> Forall (fun kv => snd kv < zlen (out r)) (tbl r).
Proof. intros H. destruct (to_wire_st_SInv _ _ _ _ _ _ _ H) as ((_ & _ & T & _) & _). exact T. Qed.

(* a record set that does not fit is removed whole: output, table and counts are exactly what
   they were before it (no table entry at or beyond the cut); one that fits is present whole *)
Theorem rollback_whole_rrset_lemma origin sec rs r b r' :
  0 <= sec <= 3 -> TblBelow r -> add_rrset origin sec rs r = Ok (b, r') ->
  exists em new,
    rrset_em rs origin true (zlen (out r)) (tbl r) = Ok (em, tbl r ++ new) /\
    if b then
      zlen (out r) + zlen em > maxsz r /\
      out r' = out r /\ tbl r' = tbl r /\ TblBelow r' /\
      (cq r', can r', cau r', cad r') = (cq r, can r, cau r, cad r)
    else
      zlen (out r') <= maxsz r' /\
      out r' = out r ++ em /\ tbl r' = tbl r ++ new /\ TblBelow r' /\
      cq r' + can r' + cau r' + cad r' = cq r + can r + cau r + cad r + rrset_count rs.
Proof.
  intros Hsec TB H. rewrite add_rrset_tracked in H.
  destruct (tracked_spec _ _ _ _ _ _ (ext_rrset_em _ _ _) TB H) as (_ & em & new & HE & F & [(-> & Hfit & ->)|(-> & Hbig & ->)]).
  - exists em, new. split; [exact HE|]. cbn [out tbl maxsz inc_count set_out set_rsec cq can cau cad].
    split; [rewrite zlen_app'; lia|]. split; [reflexivity|]. split; [reflexivity|].
    split; [unfold TblBelow; cbn [out tbl]; apply TblBelow_step; assumption|].
    assert (sec = 0 \/ sec = 1 \/ sec = 2 \/ sec = 3) as [Hs|[Hs|[Hs|Hs]]] by lia; subst sec; cbn [Z.eqb Pos.eqb]; lia.
  - exists em, new. split; [exact HE|]. cbn [out tbl set_rsec cq can cau cad].
    split; [exact Hbig|]. repeat split. exact TB.
Qed.

(* the statement of C08 size_bound *)
Lemma size_bound_stmt : forall m origin max_size request_payload prefer_truncation pad w,
  to_wire m origin max_size request_payload prefer_truncation pad = Ok w ->
  zlen w <= eff_limit max_size request_payload /\ 512 <= eff_limit max_size request_payload <= 65535.
Proof. intros. split; [eapply size_bound_lemma; eassumption|apply eff_limit_range]. Qed.
