(* C08: when padding is requested the final length, TSIG included, is a multiple of the block
   size. *)
From DV Require Import Base.Prelude Model.NameM Model.MessageM.
From DV Require Import Proofs.NameOrder Proofs.NameValid Proofs.NameRel Proofs.NameWire Proofs.NameCompress.
From DV Require Import Proofs.MessageName Proofs.MessageRender Proofs.MessageSize.
Open Scope Z_scope.

Ltac Zify.zify_post_hook ::= Z.to_euclidean_division_equations.

(* ---------- no key of the table is the root name ---------- *)
Definition KeysLong (t : ctable) : Prop := Forall (fun kv => 1 < zlen (fst kv)) t.

Lemma tbl_get_root t : KeysLong t -> tbl_get t [[]] = None.
Proof.
  induction 1 as [|[k v] t Hk _ IH]; [reflexivity|]. cbn [tbl_get fst] in *.
  destruct (name_eqb k [[]]) eqn:E; [|exact IH].
  apply name_eqb_iff_ci in E. unfold ci_equal in E. apply (f_equal (@length label)) in E.
  rewrite !map_length in E. cbn [length] in E. unfold zlen in Hk. nlia.
Qed.

Lemma tracked_KL E sec n r b r' :
  ext_em E -> TblBelow r -> KeysLong (tbl r) -> tracked E sec n r = Ok (b, r') -> KeysLong (tbl r').
Proof.
  intros X TB KL H.
  destruct (tracked_spec E sec n r b r' X TB H) as (_ & em & new & HE & F & [(-> & Hfit & ->)|(-> & Hbig & ->)]).
  - cbn [tbl inc_count set_out]. apply Forall_app. split; [exact KL|].
    eapply Forall_impl; [|exact F]. cbn beta. intros kv (_ & Hk). exact Hk.
  - exact KL.
Qed.

Lemma add_questions_KL o eff : forall l r b r',
  SInv eff r -> KeysLong (tbl r) -> add_questions o l r = Ok (b, r') -> KeysLong (tbl r').
Proof.
  induction l as [|rs l IH]; intros r b r' I KL H.
  - inversion H; subst. exact KL.
  - cbn [add_questions] in H. apply bind_ok in H. destruct H as ([b1 r1] & H1 & H).
    rewrite add_question_tracked in H1.
    destruct (tracked_SInv _ _ _ _ _ _ _ (ext_q_em _ _ _ _) I H1) as (I' & _).
    pose proof (tracked_KL _ _ _ _ _ _ (ext_q_em _ _ _ _) (proj1 (proj2 (proj2 I))) KL H1) as KL'.
    cbn [fst snd] in H. destruct b1; [inversion H; subst; exact KL'|]. eapply IH; eassumption.
Qed.

Lemma add_rrsets_KL o sec eff : forall l r b r',
  SInv eff r -> KeysLong (tbl r) -> add_rrsets o sec l r = Ok (b, r') -> KeysLong (tbl r').
Proof.
  induction l as [|rs l IH]; intros r b r' I KL H.
  - inversion H; subst. exact KL.
  - cbn [add_rrsets] in H. apply bind_ok in H. destruct H as ([b1 r1] & H1 & H).
    rewrite add_rrset_tracked in H1.
    destruct (tracked_SInv _ _ _ _ _ _ _ (ext_rrset_em _ _ _) I H1) as (I' & _).
    pose proof (tracked_KL _ _ _ _ _ _ (ext_rrset_em _ _ _) (proj1 (proj2 (proj2 I))) KL H1) as KL'.
    cbn [fst snd] in H. destruct b1; [inversion H; subst; exact KL'|]. eapply IH; eassumption.
Qed.

(* ---------- lengths ---------- *)
Lemma fold_shift (os : list (Z * list Z)) a :
  fold_left (fun acc cd => acc + zlen (snd cd) + 4) os a = a + fold_left (fun acc cd => acc + zlen (snd cd) + 4) os 0.
Proof.
  revert a. induction os as [|cd os IH]; intros a; cbn [fold_left]; [lia|].
  rewrite IH. rewrite (IH (0 + zlen (snd cd) + 4)). lia.
Qed.

Lemma opts_wire_len : forall os wb,
  opts_wire os = Ok wb -> zlen wb = fold_left (fun acc cd => acc + zlen (snd cd) + 4) os 0.
Proof.
  induction os as [|[c d] os IH]; intros wb H.
  - injection H as <-. reflexivity.
  - cbn [opts_wire] in H. apply bind_ok in H. destruct H as (h1 & E1 & H). apply bind_ok in H. destruct H as (h2 & E2 & H).
    apply bind_ok in H. destruct H as (rest & E3 & H). injection H as <-.
    apply pack16_len in E1, E2. rewrite !zlen_app', E1, E2, (IH _ E3). cbn [fold_left snd].
    rewrite (fold_shift os (0 + zlen d + 4)). lia.
Qed.

Lemma zlen_repeat {A} (x : A) n : zlen (repeat x n) = Z.of_nat n.
Proof. unfold zlen. rewrite repeat_length. reflexivity. Qed.

(* the OPT record: root owner (one octet), ten octets of fixed fields, the options *)
Lemma opt_em_len o origin pos t em t' rs :
  KeysLong t -> opt_rrset o = Ok rs -> rrset_em rs origin true pos t = Ok (em, t') ->
  zlen em = 11 + fold_left (fun acc cd => acc + zlen (snd cd) + 4) (oopts o) 0.
Proof.
  intros KL HR H. unfold opt_rrset in HR. apply bind_ok in HR. destruct HR as (wb & HW & HR). injection HR as <-.
  unfold rrset_em, wclass in H. cbn [rrds rdeleting rname rtype rclass rttl rrs_em] in H.
  apply bind_ok in H. destruct H as ([e1 t1] & H1 & H). cbn [bind fst snd] in H. injection H as <- <-.
  rewrite app_nil_r. unfold rr_em in H1.
  apply bind_ok in H1. destruct H1 as ([e0 t0] & H0 & H1).
  apply bind_ok in H1. destruct H1 as (h1 & E1 & H1). apply bind_ok in H1. destruct H1 as (h2 & E2 & H1).
  apply bind_ok in H1. destruct H1 as (h3 & E3 & H1). apply bind_ok in H1. destruct H1 as ([e2 t2] & H2 & H1).
  cbn [fst snd] in *. destruct (zlen e2 >? 65535); [discriminate|]. injection H1 as <- <-.
  cbn [rd_em] in H2. injection H2 as <- <-.
  unfold nm_em, full_labels in H0. cbn [is_absolute bind] in H0.
  change (mk_name [[]]) with (@Ok name [[]]) in H0. cbn [bind] in H0. injection H0 as H0.
  cbn [tw_em] in H0. rewrite (tbl_get_root t KL) in H0. cbn [fst snd tw_em app] in H0.
  change (1 <? zlen [@nil Z]) with false in H0. cbn [andb fst snd] in H0. injection H0 as <- <-.
  apply pack16_len in E1, E2. apply pack32_len in E3.
  rewrite !zlen_app', !zlen_cons', E1, E2, E3, app_nil_r, (opts_wire_len _ _ HW).
  change (zlen (@nil Z)) with 0. lia.
Qed.

(* ---------- emission without compression does not depend on position or table ---------- *)
Lemma nm_em_nc n o pos t em t' :
  nm_em n o false pos t = Ok (em, t') -> t' = t /\ forall pos' t2, nm_em n o false pos' t2 = Ok (em, t2).
Proof.
  unfold nm_em. intros H. apply bind_ok in H. destruct H as (labels & HL & H). injection H as <- <-.
  split; [reflexivity|]. intros pos' t2. rewrite HL. reflexivity.
Qed.

Lemma rd_em_nc : forall rd o pos t em t',
  rd_em rd o false pos t = Ok (em, t') -> t' = t /\ forall pos' t2, rd_em rd o false pos' t2 = Ok (em, t2).
Proof.
  induction rd as [|p r IH]; intros o pos t em t' H.
  - injection H as <- <-. split; [reflexivity|]. intros. reflexivity.
  - destruct p as [b|n|n|n]; cbn [rd_em] in *.
    + apply bind_ok in H. destruct H as ([e2 t2] & H2 & H). injection H as <- <-. cbn [fst snd].
      destruct (IH _ _ _ _ _ H2) as (-> & I2). split; [reflexivity|]. intros pos' t3. rewrite I2. reflexivity.
    + apply bind_ok in H. destruct H as ([e1 t1] & H1 & H). apply bind_ok in H. destruct H as ([e2 t2] & H2 & H).
      injection H as <- <-. cbn [fst snd] in *. destruct (nm_em_nc _ _ _ _ _ _ H1) as (-> & I1).
      destruct (IH _ _ _ _ _ H2) as (-> & I2). split; [reflexivity|]. intros pos' t3.
      rewrite I1. cbn [bind fst snd]. rewrite I2. reflexivity.
    + apply bind_ok in H. destruct H as ([e1 t1] & H1 & H). apply bind_ok in H. destruct H as ([e2 t2] & H2 & H).
      injection H as <- <-. cbn [fst snd] in *. destruct (nm_em_nc _ _ _ _ _ _ H1) as (-> & I1).
      destruct (IH _ _ _ _ _ H2) as (-> & I2). split; [reflexivity|]. intros pos' t3.
      rewrite I1. cbn [bind fst snd]. rewrite I2. reflexivity.
    + apply bind_ok in H. destruct H as ([e1 t1] & H1 & H). apply bind_ok in H. destruct H as ([e2 t2] & H2 & H).
      injection H as <- <-. cbn [fst snd] in *. destruct (nm_em_nc _ _ _ _ _ _ H1) as (-> & I1).
      destruct (IH _ _ _ _ _ H2) as (-> & I2). split; [reflexivity|]. intros pos' t3.
      rewrite I1. cbn [bind fst snd]. rewrite I2. reflexivity.
Qed.

Lemma full_labels_abs_origin n o : is_absolute n = true -> full_labels n o = full_labels n None.
Proof. intros A. unfold full_labels. rewrite A. reflexivity. Qed.

Lemma rr_em_nc kn ty cl ttl rd o pos t em t' :
  rr_em kn ty cl ttl rd o None false false pos t = Ok (em, t') -> is_absolute kn = true ->
  rr_em kn ty cl ttl rd None None false false 0 [] = Ok (em, []).
Proof.
  intros H A. unfold rr_em in *.
  apply bind_ok in H. destruct H as ([e1 t1] & H1 & H).
  apply bind_ok in H. destruct H as (h1 & E1 & H). apply bind_ok in H. destruct H as (h2 & E2 & H).
  apply bind_ok in H. destruct H as (h3 & E3 & H). apply bind_ok in H. destruct H as ([e2 t2] & H2 & H).
  cbn [fst snd] in *.
  assert (H1' : nm_em kn None false 0 [] = Ok (e1, [])).
  { unfold nm_em in *. rewrite (full_labels_abs_origin kn o A) in H1.
    apply bind_ok in H1. destruct H1 as (labels & HL & H1). injection H1 as <- <-. rewrite HL. reflexivity. }
  rewrite H1'. cbn [bind fst snd]. rewrite E1, E2, E3. cbn [bind].
  destruct (rd_em_nc _ _ _ _ _ _ H2) as (-> & I2). rewrite I2. cbn [bind fst snd].
  destruct (zlen e2 >? 65535); [discriminate|]. injection H as <- _. reflexivity.
Qed.

Lemma pad_arith L pad : 0 < pad ->
  (L + (if L mod pad =? 0 then 0 else pad - L mod pad)) mod pad = 0.
Proof.
  intros Hp. destruct (Z.eqb_spec (L mod pad) 0) as [E|E].
  - rewrite Z.add_0_r. exact E.
  - pose proof (Z.mod_pos_bound L pad Hp).
    replace (L + (pad - L mod pad)) with (pad * (L / pad + 1)) by (pose proof (Z.div_mod L pad); lia).
    rewrite Z.mul_comm. apply Z.mod_mul. lia.
Qed.

Lemma tsig_reserve_spec m kn rd tr :
  mtsig m = Some (kn, rd) -> compute_tsig_reserve m = Ok tr ->
  is_absolute kn = true /\ exists et, rr_em kn tTSIG cANY 0 rd None None false false 0 [] = Ok (et, []) /\ tr = zlen et.
Proof.
  intros HT H. unfold compute_tsig_reserve in H. rewrite HT in H.
  apply bind_ok in H. destruct H as ([[f t] n] & HW & H). injection H as <-. cbn [fst].
  rewrite rrset_to_wire_em in HW. apply bind_ok in HW. destruct HW as ([f' t'] & HR & HW). injection HW as <- <- _.
  unfold run_em in HR. apply bind_ok in HR. destruct HR as ([em t2] & HE & HR). cbn [fst snd app] in HR. injection HR as <- <-.
  unfold rrset_em, tsig_rrset, wclass in HE. cbn [rrds rdeleting rname rtype rclass rttl rrs_em] in HE.
  change (zlen (@nil Z)) with 0 in HE.
  apply bind_ok in HE. destruct HE as ([e1 t1] & H1 & HE). cbn [bind fst snd] in HE. injection HE as <- <-.
  rewrite app_nil_r.
  assert (A : is_absolute kn = true).
  { unfold rr_em in H1. apply bind_ok in H1. destruct H1 as (x & H0 & _). unfold nm_em, full_labels in H0.
    destruct (is_absolute kn); [reflexivity|discriminate]. }
  split; [exact A|]. exists e1. split; [|reflexivity].
  exact (rr_em_nc _ _ _ _ _ _ _ _ _ _ H1 A).
Qed.

Theorem pad_multiple_lemma m origin ms rp prefer pad o w :
  0 < pad -> mopt m = Some o -> to_wire m origin ms rp prefer pad = Ok w -> zlen w mod pad = 0.
Proof.
  intros Hp HO H. unfold to_wire in H. apply bind_ok in H. destruct H as (r & H & Hw). injection Hw as <-.
  unfold to_wire_st in H.
  set (eff := eff_limit ms rp) in *. pose proof (eff_limit_range ms rp) as Heff. fold eff in Heff.
  set (r0 := mkRst (repeat 0 12) [] 0 0 0 0 0 (mflags m) eff 0 false) in *.
  set (ores := compute_opt_reserve m pad) in *.
  apply bind_ok in H. destruct H as (r1 & R1 & H).
  apply bind_ok in H. destruct H as (tr & TR & H).
  apply bind_ok in H. destruct H as (r2 & R2 & H).
  apply reserve_spec in R1. destruct R1 as (O1 & T1 & L1 & V1 & _).
  apply reserve_spec in R2. destruct R2 as (O2 & T2 & L2 & V2 & _).
  assert (I2 : SInv eff r2).
  { unfold SInv, TblBelow. rewrite O2, O1, T2, T1. cbn [out tbl r0 maxsz reserved] in *.
    change (zlen (repeat 0 12)) with 12. repeat split; try lia. constructor. }
  assert (K2 : KeysLong (tbl r2)) by (rewrite T2, T1; constructor).
  apply bind_ok in H. destruct H as ([b1 s1] & S1 & H).
  destruct (add_questions_SInv _ _ _ _ _ _ I2 S1) as (J1 & _).
  pose proof (add_questions_KL _ _ _ _ _ _ I2 K2 S1) as KL1.
  apply bind_ok in H. destruct H as ([b2 s2] & S2 & H). cbn [fst snd] in S2.
  assert (J2 : SInv eff s2 /\ KeysLong (tbl s2)).
  { destruct b1; [inversion S2; subst; auto|]. split; [eapply add_rrsets_SInv; eassumption|eapply add_rrsets_KL; eassumption]. }
  destruct J2 as (J2 & KL2).
  apply bind_ok in H. destruct H as ([b3 s3] & S3 & H). cbn [fst snd] in S3.
  assert (J3 : SInv eff s3 /\ KeysLong (tbl s3)).
  { destruct b2; [inversion S3; subst; auto|]. split; [eapply add_rrsets_SInv; eassumption|eapply add_rrsets_KL; eassumption]. }
  destruct J3 as (J3 & KL3).
  apply bind_ok in H. destruct H as ([b4 s4] & S4 & H). cbn [fst snd] in S4.
  assert (J4 : SInv eff s4 /\ KeysLong (tbl s4)).
  { destruct b3; [inversion S4; subst; auto|]. split; [eapply add_rrsets_SInv; eassumption|eapply add_rrsets_KL; eassumption]. }
  destruct J4 as (J4 & KL4).
  apply bind_ok in H. destruct H as (r3 & R3 & H). cbn [fst snd] in R3.
  assert (J5 : SInv eff r3 /\ KeysLong (tbl r3)).
  { destruct b4.
    - destruct prefer; [|discriminate]. inversion R3; subst. destruct (rsec s4 <? 3); auto.
    - inversion R3; subst. auto. }
  destruct J5 as (J5 & KL5).
  set (r4 := release_reserved r3) in *.
  assert (J6 : SInv eff r4 /\ KeysLong (tbl r4)).
  { destruct J5 as (K1 & K2' & K3 & K4 & K5). unfold r4, release_reserved, SInv, TblBelow.
    cbn [out tbl maxsz reserved set_limits]. repeat split; try lia; try assumption. }
  destruct J6 as (J6 & KL6).
  rewrite HO in H.
  apply bind_ok in H. destruct H as (r5 & R5 & H).
  apply bind_ok in R5. destruct R5 as ([b5 s5] & A5 & R5). unfold raise_if_big in R5. cbn [fst snd] in R5.
  destruct b5; [discriminate|]. injection R5 as <-.
  (* the OPT record with its padding *)
  unfold add_opt in A5. destruct (Z.eqb_spec pad 0) as [|_]; [lia|].
  set (L := zlen (out r4)) in *.
  set (rem := (L + ores + tr) mod pad) in *.
  set (padding := if rem =? 0 then [] else repeat 0 (Z.to_nat (pad - rem))) in *.
  apply bind_ok in A5. destruct A5 as (rs & HRS & A5). rewrite add_rrset_tracked in A5.
  assert (TB4 : TblBelow (set_padded r4)) by (destruct J6 as (_ & _ & T & _); exact T).
  destruct (tracked_spec _ _ _ _ _ _ (ext_rrset_em _ _ _) TB4 A5) as (_ & emo & new & HE & _ & [(_ & _ & ->)|(Hb & _)]);
    [|discriminate].
  cbn [out tbl set_padded] in HE.
  pose proof (opt_em_len _ _ _ _ _ _ _ KL6 HRS HE) as Lo. cbn [oopts] in Lo.
  rewrite fold_left_app in Lo. cbn [fold_left snd] in Lo.
  assert (Hores : ores = 11 + fold_left (fun acc cd => acc + zlen (snd cd) + 4) (oopts o) 0 + 4).
  { unfold ores, compute_opt_reserve. rewrite HO. destruct (Z.eqb_spec pad 0); [lia|]. rewrite fold_shift. lia. }
  assert (Hpadlen : zlen padding = if rem =? 0 then 0 else pad - rem).
  { unfold padding. destruct (rem =? 0); [reflexivity|]. rewrite zlen_repeat.
    assert (0 <= rem < pad) by (unfold rem; apply Z.mod_pos_bound; lia). lia. }
  set (s5 := inc_count (set_out (set_rsec (set_padded r4) 3) (out r4 ++ emo) (tbl r4 ++ new)) 3 (rrset_count rs)) in *.
  assert (Z5 : zlen (out s5) = L + ores + zlen padding).
  { unfold s5. cbn [out inc_count set_out]. rewrite zlen_app'. fold L. lia. }
  assert (P5 : padded s5 = true) by reflexivity.
  assert (I5 : 12 <= zlen (out s5)).
  { destruct J6 as (K1 & _). fold L in K1. unfold s5. cbn [out inc_count set_out]. rewrite zlen_app'. fold L.
    pose proof (zlen_nn emo). lia. }
  (* header, then the TSIG record written without compression *)
  apply bind_ok in H. destruct H as (r6 & R6 & H).
  destruct (write_header_spec _ _ _ I5 R6) as (A6 & B6 & C6 & D6 & P6 & _).
  destruct (mtsig m) as [[kn rd]|] eqn:HT.
  - destruct (tsig_reserve_spec m kn rd tr HT TR) as (Akn & et0 & HE0 & ->).
    apply bind_ok in H. destruct H as ([b7 s7] & A7 & H).
    apply bind_ok in H. destruct H as (r7 & R7 & H). unfold raise_if_big in R7. cbn [fst snd] in R7.
    destruct b7; [discriminate|]. injection R7 as <-.
    rewrite write_tsig_eq in A7. rewrite P6, P5 in A7. cbn [negb] in A7.
    apply bind_ok in A7. destruct A7 as ([b8 s8] & A8 & A7). cbn [fst snd] in A7.
    assert (TB6 : TblBelow r6).
    { unfold TblBelow. rewrite B6, A6. unfold s5. cbn [out tbl inc_count set_out].
      destruct J6 as (_ & _ & T & _).
      destruct (tracked_spec _ _ _ _ _ _ (ext_rrset_em _ _ _) TB4 A5) as (_ & emo' & new' & HE' & F' & [(_ & _ & E')|(Hb & _)]);
        [|discriminate].
      cbn [out tbl set_padded] in HE'. rewrite HE in HE'. injection HE' as <- Hn. apply app_inv_head in Hn. subst new'.
      apply TblBelow_step; assumption. }
    destruct (tracked_spec _ _ _ _ _ _ (ext_rr_em _ _ _ _ _ _ _ _ _) TB6 A8) as (_ & et & new8 & HE8 & _ & [(-> & _ & ->)|(-> & _ & ->)]).
    + pose proof (rr_em_nc _ _ _ _ _ _ _ _ _ _ HE8 Akn) as HE8'. rewrite HE0 in HE8'. injection HE8' as <-.
      apply bind_ok in A7. destruct A7 as (c & _ & A7). injection A7 as <-.
      set (s8 := inc_count (set_out (set_rsec r6 3) (out r6 ++ et0) (tbl r6 ++ new8)) 3 1) in *.
      assert (Z8 : zlen (out s8) = zlen (out r6) + zlen et0) by (unfold s8; cbn [out inc_count set_out]; apply zlen_app').
      assert (I8 : 12 <= zlen (patch16 (out s8) 10 (cad s8))).
      { rewrite zlen_patch16; pose proof (zlen_nn et0); lia. }
      destruct (write_header_spec (mid m) (set_out s8 (patch16 (out s8) 10 (cad s8)) (tbl s8)) _ I8 H) as (A9 & _).
      rewrite A9. cbn [out set_out]. rewrite zlen_patch16 by (pose proof (zlen_nn et0); lia).
      rewrite Z8, A6, Z5, Hpadlen.
      replace (L + ores + (if rem =? 0 then 0 else pad - rem) + zlen et0)
        with ((L + ores + zlen et0) + (if rem =? 0 then 0 else pad - rem)) by lia.
      apply pad_arith. exact Hp.
    + discriminate.
  - unfold compute_tsig_reserve in TR. rewrite HT in TR. injection TR as <-. injection H as <-. rewrite A6, Z5, Hpadlen.
    unfold rem. rewrite Z.add_0_r. apply pad_arith. exact Hp.
Qed.
