(* Rdata.__getstate__ / __setstate__ (copy, deepcopy, pickle) and Rdata.replace of Model/SetM.v:
   a copy has exactly the fields of the original - also the fields kept in the instance
   dictionary by classes without __slots__ -, and replace() cannot change class or type. *)
From DV Require Import Base.Prelude Model.SetM.
Open Scope Z_scope.

Section Alist.
  Variable V : Type.
  Implicit Types l acc : list (Z * V).

  Lemma alist_set_fresh k v l : ~ In k (map fst l) -> alist_set k v l = l ++ [(k, v)].
  Proof.
    induction l as [|[k' v'] r IH]; cbn; [reflexivity|]. intros H.
    destruct (Z.eqb_spec k' k) as [->|Hn]; [exfalso; apply H; auto|].
    rewrite IH; [reflexivity|]. intros Hin. apply H. auto.
  Qed.

  Lemma alist_get_in k v l : NoDup (map fst l) -> In (k, v) l -> alist_get k l = Some v.
  Proof.
    induction l as [|[k' v'] r IH]; cbn; [contradiction|]. intros Hnd [E|Hin].
    - inversion E; subst. rewrite Z.eqb_refl. reflexivity.
    - inversion Hnd as [|? ? Hk Hr]; subst. destruct (Z.eqb_spec k' k) as [->|Hn]; [|apply IH; assumption].
      exfalso. apply Hk. change k with (fst (k, v)). apply in_map, Hin.
  Qed.

  Lemma alist_get_notin k l : ~ In k (map fst l) -> alist_get k l = None.
  Proof.
    induction l as [|[k' v'] r IH]; cbn; [reflexivity|]. intros H.
    destruct (Z.eqb_spec k' k) as [->|Hn]; [exfalso; apply H; auto|]. apply IH. intros Hin. apply H. auto.
  Qed.

  Lemma fold_set_fresh : forall kvs acc,
    NoDup (map fst kvs) -> (forall k, In k (map fst kvs) -> ~ In k (map fst acc)) ->
    fold_left (fun a kv => alist_set (fst kv) (snd kv) a) kvs acc = acc ++ kvs.
  Proof.
    induction kvs as [|[k v] r IH]; intros acc Hnd Hd; cbn [fold_left]; [now rewrite app_nil_r|].
    inversion Hnd as [|? ? Hk Hr]; subst. cbn [fst snd].
    rewrite alist_set_fresh by (apply Hd; left; reflexivity).
    rewrite IH; [now rewrite <- app_assoc| exact Hr |].
    intros k' Hk' Hin. rewrite map_app, in_app_iff in Hin. cbn in Hin.
    destruct Hin as [Hin|[<-|[]]]; [eapply Hd; [right; exact Hk'|exact Hin]|contradiction].
  Qed.
End Alist.

(* an object of a class with slot list cs: every slot set (in the class's order), dictionary
   keys distinct and different from the slot names *)
Definition wf_obj (cs : list Z) (o : pyobj) : Prop :=
  map fst (oslots o) = cs /\ NoDup cs /\ NoDup (map fst (odict o)) /\
  (forall k, In k (map fst (odict o)) -> ~ In k cs).

Lemma slots_fold (sl : list (Z * pval)) : NoDup (map fst sl) ->
  forall rest done, sl = done ++ rest ->
    fold_left (fun acc k => do st <- acc;
                            match alist_get k sl with
                            | Some v => Ok (alist_set k v st)
                            | None => Internal iAttributeError
                            end) (map fst rest) (Ok done) = Ok sl.
Proof.
  intros Hnd. induction rest as [|[k v] r IH]; intros done E; cbn [map fold_left].
  - rewrite app_nil_r in E. congruence.
  - cbn [bind fst]. rewrite (alist_get_in pval k v sl Hnd) by (subst; apply in_app_iff; right; left; reflexivity).
    rewrite alist_set_fresh.
    + apply IH. subst. rewrite <- app_assoc. reflexivity.
    + subst sl. rewrite map_app in Hnd. cbn in Hnd. apply NoDup_remove_2 in Hnd.
      intros Hin. apply Hnd. apply in_app_iff. auto.
Qed.

(* __getstate__ returns every field: the slots, then the instance dictionary *)
Theorem getstate_all_fields cs o : wf_obj cs o -> getstate cs o = Ok (oslots o ++ odict o).
Proof.
  intros (Hs & Hnd & Hdd & Hdis). unfold getstate. rewrite <- Hs.
  rewrite (slots_fold (oslots o)); [|rewrite Hs; exact Hnd|reflexivity]. cbn [bind].
  rewrite fold_set_fresh; [reflexivity|exact Hdd|]. intros k Hk. rewrite Hs. apply Hdis, Hk.
Qed.

Lemma setattr_fold cs hd : forall state o,
  (forall k, In k (map fst state) -> In k cs \/ hd = true) ->
  fold_left (fun acc kv => do o <- acc; osetattr cs hd o (fst kv) (snd kv)) state (Ok o)
  = Ok (mkObj (fold_left (fun a kv => alist_set (fst kv) (snd kv) a)
                         (filter (fun kv => existsb (Z.eqb (fst kv)) cs) state) (oslots o))
              (fold_left (fun a kv => alist_set (fst kv) (snd kv) a)
                         (filter (fun kv => negb (existsb (Z.eqb (fst kv)) cs)) state) (odict o))).
Proof.
  induction state as [|[k v] r IH]; intros o H; cbn [fold_left filter].
  - destruct o; reflexivity.
  - cbn [bind fst snd]. unfold osetattr at 2.
    destruct (existsb (Z.eqb k) cs) eqn:E; cbn [negb fold_left fst snd].
    + rewrite IH by (intros k' Hk'; apply H; right; exact Hk'). reflexivity.
    + destruct hd.
      * rewrite IH by (intros k' Hk'; apply H; right; exact Hk'). reflexivity.
      * exfalso. destruct (H k (or_introl eq_refl)) as [Hin|Hd]; [|discriminate].
        assert (existsb (Z.eqb k) cs = true) by (apply existsb_exists; exists k; split; [exact Hin|apply Z.eqb_refl]).
        congruence.
Qed.

Lemma filter_all {A} (f : A -> bool) l : (forall x, In x l -> f x = true) -> filter f l = l.
Proof. induction l as [|a l IH]; cbn; intros H; [reflexivity|]. rewrite H, IH; auto. Qed.

Lemma filter_none {A} (f : A -> bool) l : (forall x, In x l -> f x = false) -> filter f l = [].
Proof. induction l as [|a l IH]; cbn; intros H; [reflexivity|]. rewrite H, IH; auto. Qed.

Lemma filter_app_split (cs : list Z) (sl dc : list (Z * pval)) :
  (forall kv, In kv sl -> In (fst kv) cs) -> (forall kv, In kv dc -> ~ In (fst kv) cs) ->
  filter (fun kv => existsb (Z.eqb (fst kv)) cs) (sl ++ dc) = sl /\
  filter (fun kv => negb (existsb (Z.eqb (fst kv)) cs)) (sl ++ dc) = dc.
Proof.
  intros Hs Hd.
  assert (Ein : forall k, In k cs -> existsb (Z.eqb k) cs = true)
    by (intros k Hk; apply existsb_exists; exists k; split; [exact Hk|apply Z.eqb_refl]).
  assert (Eout : forall k, ~ In k cs -> existsb (Z.eqb k) cs = false).
  { intros k Hk. destruct (existsb (Z.eqb k) cs) eqn:E; [|reflexivity].
    apply existsb_exists in E as (x & Hx & Ex). apply Z.eqb_eq in Ex. subst. contradiction. }
  rewrite !filter_app. split.
  - rewrite filter_all by (intros kv Hkv; apply Ein, Hs, Hkv).
    rewrite filter_none by (intros kv Hkv; apply Eout, Hd, Hkv). apply app_nil_r.
  - rewrite filter_none by (intros kv Hkv; rewrite (Ein _ (Hs kv Hkv)); reflexivity).
    rewrite filter_all by (intros kv Hkv; rewrite (Eout _ (Hd kv Hkv)); reflexivity). reflexivity.
Qed.

(* copy / deepcopy / pickle: cls.__new__(cls).__setstate__(self.__getstate__()) has exactly the
   fields of the original, including those of classes without __slots__ *)
Theorem copy_has_the_same_fields cs hd o state :
  wf_obj cs o -> In rdcomment_id cs -> (odict o = [] \/ hd = true) ->
  getstate cs o = Ok state -> setstate cs hd state = Ok o.
Proof.
  intros Hwf Hrc Hd Hg. rewrite (getstate_all_fields cs o Hwf) in Hg. inversion Hg; subst state; clear Hg.
  destruct Hwf as (Hs & Hnd & Hdd & Hdis). unfold setstate.
  assert (Hsl : forall kv, In kv (oslots o) -> In (fst kv) cs)
    by (intros kv Hkv; rewrite <- Hs; apply in_map, Hkv).
  assert (Hdc : forall kv, In kv (odict o) -> ~ In (fst kv) cs)
    by (intros kv Hkv; apply Hdis, in_map, Hkv).
  rewrite setattr_fold.
  2:{ intros k Hk. rewrite map_app, in_app_iff in Hk. destruct Hk as [Hk|Hk].
      - left. rewrite <- Hs. exact Hk.
      - destruct Hd as [Hd|Hd]; [rewrite Hd in Hk; contradiction|right; exact Hd]. }
  destruct (filter_app_split cs (oslots o) (odict o) Hsl Hdc) as [-> ->]. cbn [oslots odict].
  rewrite !fold_set_fresh; try (intros k _ []); try assumption; [|rewrite Hs; exact Hnd].
  cbn [bind app]. unfold ogetattr. cbn [oslots].
  destruct (alist_get rdcomment_id (oslots o)) eqn:E; [destruct o; reflexivity|].
  exfalso. rewrite <- Hs in Hrc. apply in_map_iff in Hrc as ([k v] & Hk & Hin). cbn in Hk. subst k.
  rewrite (alist_get_in pval _ v (oslots o)) in E; [discriminate|rewrite Hs; exact Hnd|exact Hin].
Qed.

(* ---------- replace ---------- *)

Theorem replace_refuses_class_and_type params ctor cs hd o kwargs k v :
  In (k, v) kwargs -> (k = 0 \/ k = 1) ->
  replace params ctor cs hd o kwargs = Internal iAttributeError.
Proof.
  intros Hin Hk. unfold replace.
  assert (E : existsb (fun kv => negb (fst kv =? rdcomment_id)
                && (negb (existsb (Z.eqb (fst kv)) params) || (fst kv =? 0) || (fst kv =? 1))) kwargs = true).
  { apply existsb_exists. exists (k, v). split; [exact Hin|]. cbn [fst].
    destruct Hk as [-> | ->]; cbn; rewrite ?orb_true_r; reflexivity. }
  rewrite E. reflexivity.
Qed.

Theorem replace_refuses_unknown_field params ctor cs hd o kwargs k v :
  In (k, v) kwargs -> k <> rdcomment_id -> ~ In k params ->
  replace params ctor cs hd o kwargs = Internal iAttributeError.
Proof.
  intros Hin Hk Hp. unfold replace.
  assert (E : existsb (fun kv => negb (fst kv =? rdcomment_id)
                && (negb (existsb (Z.eqb (fst kv)) params) || (fst kv =? 0) || (fst kv =? 1))) kwargs = true).
  { apply existsb_exists. exists (k, v). split; [exact Hin|]. cbn [fst].
    apply Z.eqb_neq in Hk. rewrite Hk. cbn.
    destruct (existsb (Z.eqb k) params) eqn:E; [|reflexivity].
    apply existsb_exists in E as (x & Hx & Ex). apply Z.eqb_eq in Ex. subst. contradiction. }
  rewrite E. reflexivity.
Qed.

(* without arguments replace() rebuilds the record from its own fields through the constructor
   (so the result is validated and normalised like any other record) *)
Theorem replace_nothing params ctor cs hd o :
  ogetattr o rdcomment_id = Some VNone ->
  replace params ctor cs hd o [] =
  (do args <- map_res (fun k => match ogetattr o k with Some v => Ok v | None => Internal iAttributeError end) params;
   ctor args).
Proof.
  intros Hc. unfold replace. cbn [existsb alist_get]. rewrite Hc.
  destruct (map_res _ params) as [args| |]; cbn [bind]; try reflexivity.
  destruct (ctor args); reflexivity.
Qed.
