(* C13 - specification side (definitions only): what a well-formed response header / first record
   is, the initial Inbound states, server zone versions and the response streams a server sends. *)
From DV Require Import Base.Prelude Model.XfrM.

(* a response message whose header is acceptable: NOERROR, and no question or the right one *)
Definition header_ok (rdt : Z) (w : wmsg) : Prop :=
  w_rcode w = 0 /\ (w_question w = [] \/ exists q, w_question w = (origin, rdt) :: q).

Definition apex_soa (r : rr) : Prop := r_name r = origin /\ r_type r = tSOA.

(* the Inbound object right after __init__ *)
Definition ixfr_init (z : zone) (ser : Z) (udp : bool) : st :=
  mkSt z None tIXFR true ser udp None false false false.

Definition axfr_init (z : zone) (ser : option Z) : st :=
  mkSt z None tAXFR false (match ser with Some sv => sv | None => 0 end) false None false false false.

