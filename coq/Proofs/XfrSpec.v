(* C13 - specification side (definitions only): what a well-formed response header / first record
   is, the initial Inbound states, server zone versions and the response streams a server sends. *)
From DV Require Import Base.Prelude Model.XfrM Proofs.XfrSets.
From Coq Require Import Sorting.Permutation.

(* a response message whose header is acceptable: NOERROR, and no question or the right one *)
Definition header_ok (rdt : Z) (w : wmsg) : Prop :=
  w_rcode w = 0 /\ (w_question w = [] \/ exists q, w_question w = (origin, rdt) :: q).

Definition apex_soa (r : rr) : Prop := r_name r = origin /\ r_type r = tSOA.

(* the Inbound object right after __init__ *)
Definition ixfr_init (z : zone) (ser : Z) (udp : bool) : st :=
  mkSt z None tIXFR true ser udp None false false false false.

Definition axfr_init (z : zone) (ser : option Z) : st :=
  mkSt z None tAXFR false (match ser with Some sv => sv | None => 0 end) false None false false false false.


(* ---- the server side ---- *)
Definition soakey : key := (origin, tSOA, 0).

(* one version of the server's zone: its SOA (TTL, rdata) and everything else *)
Record version := mkV { v_ttl : Z; v_soa : Z; v_rest : zone }.

Definition zone_of (v : version) : zone := (soakey, (v_ttl v, [v_soa v])) :: v_rest v.
Definition v_serial (v : version) : Z := v_soa v mod two32.

Definition ttl_ok (t : Z) : Prop := 0 <= t <= 2147483647.

(* an RRset of the zone other than the SOA: owner at or below the origin, a non-empty set; its type is
   not one of the other singleton types (NXT, DNAME, NSEC, CNAME), whose replace-on-add semantics the
   theorems do not cover, and it is not RRSIG(CNAME) (no CNAME-kind rdataset: dns/node.py's
   CNAME-and-other-data exclusion never fires) *)
Definition entry_wf (ke : key * entry) : Prop :=
  let '((n, t, c), (ttl, ds)) := ke in
  0 <= n /\ t <> tSOA /\ ttl_ok ttl /\ ds <> [] /\ ssorted ds /\ is_singleton t = false /\ kind_of t c <> 2.

Definition rest_wf (z : zone) : Prop := NoDup (map fst z) /\ Forall entry_wf z.
Definition version_wf (v : version) : Prop := ttl_ok (v_ttl v) /\ rest_wf (v_rest v).

Definition soa_rr (v : version) : rr := mkRR origin cIN tSOA 0 (v_ttl v) (v_soa v).

Definition rrs_of_entry (ke : key * entry) : list rr :=
  let '((n, t, c), (ttl, ds)) := ke in map (fun d => mkRR n cIN t c ttl d) ds.

(* all records of a zone (without the SOA), RRset by RRset *)
Definition body (z : zone) : list rr := flat_map rrs_of_entry z.

Definition rkey (r : rr) : key := (r_name r, r_type r, r_covers r).

Definition has_rr (z : zone) (r : rr) : bool :=
  match look z (rkey r) with
  | Some (ttl, ds) => (ttl =? r_ttl r) && mem (r_data r) ds
  | None => false
  end.

(* RFC 1995: the RRs (owner, type, TTL, rdata) of a that are not RRs of b *)
Definition zminus (a b : zone) : list rr := filter (fun r => negb (has_rr b r)) (body a).

(* one difference sequence: old SOA, deleted RRs, new SOA, added RRs *)
Definition diff_seq (a b : version) : list rr :=
  soa_rr a :: zminus (v_rest a) (v_rest b) ++ soa_rr b :: zminus (v_rest b) (v_rest a).

Fixpoint diff_seqs (v : version) (chain : list version) : list rr :=
  match chain with
  | [] => []
  | w :: rest => diff_seq v w ++ diff_seqs w rest
  end.

(* the IXFR response taking the client from v0 through chain = [v1; ...; vn] *)
Definition ixfr_stream (v0 : version) (chain : list version) : list rr :=
  let vn := last chain v0 in
  soa_rr vn :: diff_seqs v0 chain ++ [soa_rr vn].

(* the AXFR response for v (also the AXFR-style answer to an IXFR request) *)
Definition axfr_stream (v : version) : list rr := soa_rr v :: body (v_rest v) ++ [soa_rr v].

(* zones are compared as finite maps *)
Definition zeq (a b : zone) : Prop := forall k, look a k = look b k.

Definition chain_ok (v0 : version) (chain : list version) : Prop :=
  chain <> [] /\ version_wf v0 /\ Forall version_wf chain /\
  (forall v, In v (v0 :: removelast chain) -> v_serial v <> v_serial (last chain v0)) /\
  serial_lt (v_serial (last chain v0)) (v_serial v0) = false.

(* any division of a record stream into TCP messages with acceptable headers; the first message
   carries at least one record; later ones may be empty *)
Definition chunking (rdt : Z) (stream : list rr) (ws : list wmsg) : Prop :=
  Forall (header_ok rdt) ws /\ concat (map w_records ws) = stream /\
  match ws with w :: _ => w_records w <> [] | [] => False end.

(* the zone holds, at the apex, an SOA RRset with the rdata of the SOA announced in s0 *)
Definition announced (s0 : rrset) (z : zone) : Prop :=
  exists ttl ds, look z (origin, tSOA, s_covers s0) = Some (ttl, ds) /\ set_eqb ds (s_data s0) = true.

(* RFC 1995 does not fix the order of the records inside a deletion or addition section, RFC 5936
   does not fix the order of an AXFR body: the general form of a valid response.  Deleted records
   may come in any order; added records / body records in any order and with repetitions. *)
Definition same_set (x y : list rr) : Prop := forall r, In r x <-> In r y.

Inductive ixfr_seqs : version -> list version -> list rr -> Prop :=
| seqs_nil : forall v, ixfr_seqs v [] []
| seqs_cons : forall v w rest D A tail,
    Permutation D (zminus (v_rest v) (v_rest w)) ->
    same_set A (zminus (v_rest w) (v_rest v)) ->
    ixfr_seqs w rest tail ->
    ixfr_seqs v (w :: rest) (soa_rr v :: D ++ soa_rr w :: A ++ tail).

Definition ixfr_response (v0 : version) (chain : list version) (recs : list rr) : Prop :=
  exists mid, ixfr_seqs v0 chain mid /\
              recs = soa_rr (last chain v0) :: mid ++ [soa_rr (last chain v0)].

Definition axfr_response (v : version) (recs : list rr) : Prop :=
  exists B, same_set B (body (v_rest v)) /\ recs = soa_rr v :: B ++ [soa_rr v].
