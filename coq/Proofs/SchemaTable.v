(* From the generated table to the generic theorems: an entry that satisfies entry_ok has a
   reader that decodes exactly like its writer's field list (no origin), so round trip and
   fixed point hold between the type's own _to_wire side and from_wire_parser side. *)
From DV Require Import Base.Prelude Model.NameM Model.SchemaM Proofs.SchemaName Proofs.SchemaCodec
  Proofs.SchemaThm Proofs.SchemaFix.
Open Scope Z_scope.

(* ---------- fields equal up to the origin flag of names decode alike without origin ---------- *)
Lemma sfld_eqb_spec : forall a b, sfld_eqb a b = true ->
  a = b \/ exists r r', a = FName r /\ b = FName r'.
Proof.
  intros [w m|n|w lo hi|r] [w' m'|n'|w' lo' hi'|r'] H; cbn in H; try discriminate.
  - apply andb_prop in H as [H1 H2]. apply Nat.eqb_eq in H1. apply Z.eqb_eq in H2. left; congruence.
  - apply Nat.eqb_eq in H. left; congruence.
  - apply andb_prop in H as [H H3]. apply andb_prop in H as [H1 H2].
    apply Nat.eqb_eq in H1. apply Z.eqb_eq in H2. apply Z.eqb_eq in H3. left; congruence.
  - right; eauto.
Qed.

Lemma get_name_none_rel : forall w r r' e c, get_name w None r e c = get_name w None r' e c.
Proof. intros. unfold get_name. destruct (NameM.from_wire (firstn e w) c) as [[n k]| |]; destruct r, r'; reflexivity. Qed.

Lemma dec_s_sim : forall w a b e c, sfld_eqb a b = true -> dec_s w None a e c = dec_s w None b e c.
Proof.
  intros w a b e c H. destruct (sfld_eqb_spec a b H) as [->|(r & r' & -> & ->)]; [reflexivity|].
  cbn [dec_s]. rewrite (get_name_none_rel w r r'). reflexivity.
Qed.

Lemma valid_s_sim : forall a b v, sfld_eqb a b = true -> valid_s a v = valid_s b v.
Proof.
  intros a b v H. destruct (sfld_eqb_spec a b H) as [->|(r & r' & -> & ->)]; reflexivity.
Qed.

Lemma dec_row_sim : forall w a b e c, row_eqb a b = true -> dec_row w None a e c = dec_row w None b e c.
Proof.
  induction a as [|x a IH]; intros [|y b] e c H; cbn in H; try discriminate; [reflexivity|].
  apply andb_prop in H as [H1 H2]. cbn [dec_row]. rewrite (dec_s_sim w x y e c H1).
  destruct (dec_s w None y e c) as [[v c1]| |]; cbn [bind fst snd]; try reflexivity.
  rewrite (IH b e c1 H2). reflexivity.
Qed.

Lemma valid_row_sim : forall a b vs, row_eqb a b = true -> valid_row a vs = valid_row b vs.
Proof.
  induction a as [|x a IH]; intros [|y b] vs H; cbn in H; try discriminate; [reflexivity|].
  apply andb_prop in H as [H1 H2]. destruct vs as [|v vr]; [reflexivity|].
  cbn [valid_row]. rewrite (valid_s_sim x y v H1), (IH b vr H2). reflexivity.
Qed.

Lemma dec_rows_sim : forall w fuel a b e c, row_eqb a b = true ->
  dec_rows w None fuel a e c = dec_rows w None fuel b e c.
Proof.
  induction fuel as [|f IH]; intros a b e c H; cbn [dec_rows]; [reflexivity|].
  destruct (Nat.leb e c); [reflexivity|].
  rewrite (dec_row_sim w a b e c H).
  destruct (dec_row w None b e c) as [[r c1]| |]; cbn [bind fst snd]; try reflexivity.
  rewrite (IH a b e c1 H). reflexivity.
Qed.

Lemma dec_f_sim : forall w a b e c, fld_eqb a b = true -> dec_f w None a e c = dec_f w None b e c.
Proof.
  intros w [s|lo|n|hi|m a row] [s'|lo'|n'|hi'|m' a' row'] e c H; cbn in H; try discriminate; cbn [dec_f].
  - rewrite (dec_s_sim w s s' e c H). reflexivity.
  - reflexivity.
  - reflexivity.
  - reflexivity.
  - apply andb_prop in H as [H H3]. rewrite (dec_rows_sim w _ row row' e c H3). reflexivity.
Qed.

Lemma valid_f_sim : forall a b v, fld_eqb a b = true -> valid_f a v = valid_f b v.
Proof.
  intros [s|lo|n|hi|m a row] [s'|lo'|n'|hi'|m' a' row'] v H; cbn in H; try discriminate; cbn [valid_f].
  - destruct v; [apply valid_s_sim; assumption|reflexivity].
  - apply Z.eqb_eq in H. subst. reflexivity.
  - apply Nat.eqb_eq in H. subst. reflexivity.
  - apply Z.eqb_eq in H. subst. reflexivity.
  - apply andb_prop in H as [H H3]. apply andb_prop in H as [H1 H2].
    apply eqb_prop in H1. apply eqb_prop in H2. subst.
    destruct v as [|rows]; [reflexivity|].
    replace (forallb (valid_row row) rows) with (forallb (valid_row row') rows); [reflexivity|].
    induction rows as [|r rr IHr]; [reflexivity|]. cbn [forallb]. rewrite IHr.
    rewrite (valid_row_sim row row' r H3). reflexivity.
Qed.

Lemma dec_fields_sim : forall w a b e c, sides_eqb a b = true ->
  dec_fields w None (map fst a) e c = dec_fields w None (map fst b) e c.
Proof.
  induction a as [|[x s] a IH]; intros [|[y t] b] e c H; cbn in H; try discriminate; [reflexivity|].
  apply andb_prop in H as [H H3]. apply andb_prop in H as [H1 H2].
  cbn [map fst dec_fields]. rewrite (dec_f_sim w x y e c H1).
  destruct (dec_f w None y e c) as [[v c1]| |]; cbn [bind fst snd]; try reflexivity.
  rewrite (IH b e c1 H3). reflexivity.
Qed.

Lemma valid_fields_sim : forall a b vs, sides_eqb a b = true ->
  valid_fields (map fst a) vs = valid_fields (map fst b) vs.
Proof.
  induction a as [|[x s] a IH]; intros [|[y t] b] vs H; cbn in H; try discriminate; [reflexivity|].
  apply andb_prop in H as [H H3]. apply andb_prop in H as [H1 H2].
  cbn [map fst]. destruct vs as [|v vr]; [reflexivity|].
  cbn [valid_fields]. rewrite (valid_f_sim x y v H1), (IH b vr H3). reflexivity.
Qed.

Lemma decode_rdata_sim : forall a b ck w c l, sides_eqb a b = true ->
  decode_rdata None (map fst a) ck w c l = decode_rdata None (map fst b) ck w c l.
Proof.
  intros. unfold decode_rdata, validate.
  rewrite (dec_fields_sim w a b _ _ H).
  destruct (dec_fields w None (map fst b) (c + l) c) as [[vs c1]| |]; cbn [bind fst snd]; try reflexivity.
  rewrite (valid_fields_sim a b vs H). reflexivity.
Qed.

(* ---------- a final `get_remaining() + exact length` reads like a fixed-size field ---------- *)
Lemma dec_fields_app1 : forall w o pre f e c,
  dec_fields w o (pre ++ [f]) e c =
  (do vc <- dec_fields w o pre e c; do xc <- dec_f w o f e (snd vc); Ok (fst vc ++ [fst xc], snd xc)).
Proof.
  induction pre as [|g pre IH]; intros f e c; cbn [app dec_fields bind fst snd].
  - destruct (dec_f w o f e c) as [[v c1]| |]; reflexivity.
  - destruct (dec_f w o g e c) as [[v c1]| |]; cbn [bind fst snd]; try reflexivity.
    rewrite IH. destruct (dec_fields w o pre e c1) as [[vs c2]| |]; cbn [bind fst snd]; try reflexivity.
    destruct (dec_f w o f e c2) as [[x c3]| |]; reflexivity.
Qed.

Lemma dec_fields_length : forall w o fs e c vs c', dec_fields w o fs e c = Ok (vs, c') -> length vs = length fs.
Proof.
  induction fs as [|f fr IH]; intros e c vs c' H; cbn [dec_fields] in H.
  - injection H as <- <-. reflexivity.
  - inv_bind H. inv_bind H. injection H as <- <-. destruct x0 as [vr c2]. cbn [fst length]. f_equal. eapply IH; eauto.
Qed.

Lemma valid_fields_app1 : forall pre f vs v, length vs = length pre ->
  valid_fields (pre ++ [f]) (vs ++ [v]) = valid_fields pre vs && valid_f f v.
Proof.
  induction pre as [|g pre IH]; intros f [|x vs] v H; cbn in H; try discriminate.
  - cbn. rewrite andb_true_r. reflexivity.
  - cbn [app valid_fields]. rewrite IH by lia. rewrite andb_assoc. reflexivity.
Qed.

Lemma firstn_skipn_length : forall (w : list Z) c k, (c + k <= length w)%nat -> length (firstn k (skipn c w)) = k.
Proof. intros. rewrite firstn_length, skipn_length. lia. Qed.

Lemma decode_rdata_remn : forall o pre n ck w c l,
  decode_rdata o (pre ++ [FS (FFixed n)]) ck w c l = decode_rdata o (pre ++ [FRemN n]) ck w c l.
Proof.
  intros. unfold decode_rdata.
  destruct (Nat.ltb_spec (length w) c) as [|Hc]; [reflexivity|].
  destruct (Nat.ltb_spec (length w - c) l) as [|Hl]; [reflexivity|].
  cbv zeta. rewrite !dec_fields_app1.
  destruct (dec_fields w o pre (c + l) c) as [[vs c1]| |] eqn:Ep; cbn [bind fst snd]; try reflexivity.
  pose proof (dec_fields_length _ _ _ _ _ _ _ Ep) as Hlen.
  cbn [dec_f dec_s]. unfold get_bytes.
  destruct (Nat.ltb_spec (c + l - c1) (c + l - c1)) as [|_]; [lia|].
  destruct (Nat.ltb_spec (c + l - c1) n) as [Hlt|Hge]; cbn [bind fst snd];
    unfold validate; rewrite ?valid_fields_app1 by assumption; cbn [valid_f valid_s].
  - (* fewer than n octets left: the fixed read fails, the exact-length test fails *)
    destruct (Nat.le_gt_cases c1 (c + l)) as [Hle|Hgt].
    + rewrite (firstn_skipn_length w c1 (c + l - c1)) by lia.
      destruct (Nat.eqb_spec (c + l - c1) n); [lia|]. rewrite andb_false_r. reflexivity.
    + replace (c + l - c1)%nat with 0%nat by lia. cbn [firstn length].
      destruct (Nat.eqb_spec 0 n); [lia|]. rewrite andb_false_r. reflexivity.
  - destruct (Nat.le_gt_cases c1 (c + l)) as [Hle|Hgt].
    + rewrite (firstn_skipn_length w c1 (c + l - c1)) by lia.
      rewrite (firstn_skipn_length w c1 n) by lia. rewrite Nat.eqb_refl.
      destruct (Nat.eqb_spec (c + l - c1) n) as [Heq|Hne].
      * rewrite Heq. replace (c1 + n)%nat with (c + l)%nat by lia. reflexivity.
      * rewrite andb_false_r. cbn [andb negb].
        destruct (valid_fields pre vs && true && check_ok ck (vs ++ [VS (VB (firstn n (skipn c1 w)))])); cbn [negb]; [|reflexivity].
        destruct (Nat.eqb_spec (c1 + n) (c + l)); [lia|reflexivity].
    + (* c1 beyond the end (n = 0): both sides fail the final position test *)
      assert (n = 0%nat) by lia. subst n.
      replace (c + l - c1)%nat with 0%nat by lia. rewrite Nat.add_0_r. reflexivity.
Qed.

Lemma norm_last_map : forall r,
  map fst (norm_last r) = map fst r \/
  exists pre n, map fst r = pre ++ [FRemN n] /\ map fst (norm_last r) = pre ++ [FS (FFixed n)].
Proof.
  induction r as [|[f s] r IH]; [left; reflexivity|].
  destruct r as [|y r'].
  - destruct f; try (left; reflexivity). right. exists [], n. split; reflexivity.
  - assert (E : norm_last ((f, s) :: y :: r') = (f, s) :: norm_last (y :: r')) by (destruct f; reflexivity).
    rewrite E. cbn [map fst]. destruct IH as [IH|(pre & n & H1 & H2)].
    + left. f_equal. exact IH.
    + right. exists (f :: pre), n. cbn [map fst] in H1, H2. rewrite H1, H2. split; reflexivity.
Qed.

Lemma decode_rdata_norm_last : forall o r ck w c l,
  decode_rdata o (map fst (norm_last r)) ck w c l = decode_rdata o (map fst r) ck w c l.
Proof.
  intros. destruct (norm_last_map r) as [->|(pre & n & -> & ->)]; [reflexivity|].
  apply decode_rdata_remn.
Qed.

(* ---------- the table theorems ---------- *)
Lemma entry_ok_decode : forall e w r ck wire c l,
  entry_ok e = true -> e_codec e = CSchema w r ck ->
  decode_rdata None (map fst r) ck wire c l = decode_rdata None (map fst w) ck wire c l.
Proof.
  intros e w r ck wire c l Hok Hc. unfold entry_ok in Hok. rewrite Hc in Hok.
  apply andb_prop in Hok as [Hok _]. apply andb_prop in Hok as [Hok _]. apply andb_prop in Hok as [Hs _].
  rewrite <- decode_rdata_norm_last. symmetry. apply decode_rdata_sim. exact Hs.
Qed.

Lemma entry_ok_wf : forall e w r ck, entry_ok e = true -> e_codec e = CSchema w r ck -> schema_wf (map fst w) = true.
Proof.
  intros e w r ck Hok Hc. unfold entry_ok in Hok. rewrite Hc in Hok.
  apply andb_prop in Hok as [Hok _]. apply andb_prop in Hok as [Hok _]. apply andb_prop in Hok as [_ H]. exact H.
Qed.

Theorem table_roundtrip_none : forall tbl e w r ck vs b A P,
  forallb entry_ok tbl = true -> In e tbl -> e_codec e = CSchema w r ck ->
  encode_rdata None (map fst w) ck vs = Ok b ->
  decode_rdata None (map fst r) ck (A ++ b ++ P) (length A) (length b) = Ok vs.
Proof.
  intros tbl e w r ck vs b A P Ht Hin Hc He.
  rewrite forallb_forall in Ht. specialize (Ht e Hin).
  rewrite (entry_ok_decode e w r ck _ _ _ Ht Hc).
  apply schema_roundtrip_none; [eapply entry_ok_wf; eauto|exact He].
Qed.

Theorem table_fixed_point_none : forall tbl e w r ck wire cur rdlen vs,
  forallb entry_ok tbl = true -> In e tbl -> e_codec e = CSchema w r ck ->
  decode_rdata None (map fst r) ck wire cur rdlen = Ok vs ->
  exists w', encode_rdata None (map fst w) ck vs = Ok w' /\
             decode_rdata None (map fst r) ck w' 0 (length w') = Ok vs /\
             (forall vs', decode_rdata None (map fst r) ck w' 0 (length w') = Ok vs' ->
                          encode_rdata None (map fst w) ck vs' = Ok w').
Proof.
  intros tbl e w r ck wire cur rdlen vs Ht Hin Hc Hd.
  rewrite forallb_forall in Ht. specialize (Ht e Hin).
  rewrite (entry_ok_decode e w r ck _ _ _ Ht Hc) in Hd.
  destruct (schema_fixed_point_none _ _ _ _ _ _ (entry_ok_wf e w r ck Ht Hc) Hd) as (w' & H1 & H2 & H3).
  exists w'. split; [exact H1|]. rewrite (entry_ok_decode e w r ck _ _ _ Ht Hc). split; [exact H2|exact H3].
Qed.

(* unknown types (GenericRdata) are the one-field schema [Remaining] *)
Lemma generic_entry_ok : entry_ok (mk_ent 0 0 generic_codec) = true.
Proof. reflexivity. Qed.

(* ---------- which types may compress embedded names (RFC 3597 section 4) ---------- *)
(* NS MD MF CNAME SOA MB MG MR PTR MINFO MX (RFC 1035) and, in dnspython, SRV and NAPTR - all of
   them are down-cased in the DNSSEC canonical form, so case-insensitive compression keeps a
   rendered record equal to the original.  The translator reports for every type whether its
   writer hands the compression table to a name (name_compress) and how many such name writes
   exist in classes that must not do so (helpers and hand-modelled codecs included). *)
Definition may_compress : list Z := [2; 3; 4; 5; 6; 7; 8; 9; 12; 14; 15; 33; 35].

Definition compress_ok (flags : list (Z * Z * bool)) (stray_sites : nat) : bool :=
  forallb (fun x => let '(_, t, c) := x in negb c || existsb (Z.eqb t) may_compress) flags
  && Nat.eqb stray_sites 0.
