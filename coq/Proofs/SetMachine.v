(* The dns.set.Set machine of Model/SetM.v: every public method keeps every set duplicate-free,
   for all operation sequences; the algebra of Proofs/SetAlg.v instantiated at records. *)
From Coq Require Import Permutation.
From DV Require Import Base.Prelude Model.SetM Proofs.SetAlg Proofs.SetRdata.
Open Scope Z_scope.

Definition ND : list rdata -> Prop := NoDupE rdata rd_eqb.

(* ---------- register file helpers ---------- *)

Lemma Forall_set_nth {A} (P : A -> Prop) st n v : Forall P st -> P v -> Forall P (set_nth st n v).
Proof.
  intros H Hv. revert n. induction H as [|x l Hx Hl IH]; intros n; cbn; [constructor|].
  destruct n; constructor; auto.
Qed.

Lemma Forall_assign {A} (P : A -> Prop) st d v st' :
  Forall P st -> P v -> assign st d v = Some st' -> Forall P st'.
Proof.
  intros H Hv. unfold assign.
  destruct (Nat.ltb d (length st)).
  - intros E; inversion E; subst. apply Forall_set_nth; assumption.
  - destruct (Nat.eqb d (length st)); [|discriminate].
    intros E; inversion E; subst. apply Forall_app. split; [assumption|constructor; auto].
Qed.

Lemma Forall_nth_error {A} (P : A -> Prop) st n x : Forall P st -> nth_error st n = Some x -> P x.
Proof. intros H E. rewrite Forall_forall in H. apply H. eapply nth_error_In, E. Qed.

(* ---------- instantiated algebra ---------- *)

Definition rd_equiv_refl := rd_eqb_refl.
Definition rd_equiv_sym := rd_eqb_sym.
Definition rd_equiv_trans := rd_eqb_trans.

Lemma salg_is_g a s o same : salg a s o same = salg_g rdata rd_eqb a s o same.
Proof. destruct a; reflexivity. Qed.

Lemma ND_salg a s o same : ND s -> ND o -> (same = true -> o = s) -> ND (salg a s o same).
Proof.
  intros. rewrite salg_is_g.
  apply (salg_nodup rdata rd_eqb rd_eqb_refl rd_eqb_sym rd_eqb_trans); assumption.
Qed.

Lemma ND_sadd x s : ND s -> ND (sadd rd_eqb x s).
Proof. apply (nodup_sadd rdata rd_eqb rd_eqb_sym). Qed.

Lemma ND_sdel x s : ND s -> ND (sdel rd_eqb x s).
Proof. apply (nodup_sdel rdata rd_eqb rd_eqb_sym rd_eqb_trans). Qed.

Lemma ND_supdate o s : ND s -> ND (supdate rd_eqb s o).
Proof. apply (nodup_supdate rdata rd_eqb rd_eqb_sym). Qed.

Lemma ND_nil : ND [].
Proof. constructor. Qed.

Lemma ND_fold_sdel l s : ND s -> ND (fold_left (fun acc x => sdel rd_eqb x acc) l s).
Proof. apply (nodup_fold_sdel rdata rd_eqb rd_eqb_sym rd_eqb_trans). Qed.

Lemma ND_spop s x s' : ND s -> spop s = Ok (x, s') -> ND s'.
Proof. apply (nodup_spop rdata rd_eqb). Qed.

(* ---------- one step ---------- *)

Lemma same_reg st r o (s os : sset) :
  nth_error st r = Some s -> nth_error st o = Some os -> Nat.eqb r o = true -> os = s.
Proof. intros H1 H2 E. apply Nat.eqb_eq in E. subst. congruence. Qed.

Ltac dm := match goal with |- context [match ?x with _ => _ end] => destruct x eqn:? end.
Ltac ndreg := eapply Forall_nth_error; eassumption.

Theorem sstep_nodup st op : Forall ND st -> Forall ND (fst (sstep st op)).
Proof.
  intros H.
  destruct op; cbn [sstep]; unfold bad, sremove, sdelitem, sdelslice;
    repeat dm; cbn [fst]; try exact H;
    repeat match goal with
           | E : match ?x with _ => _ end = _ |- _ => destruct x eqn:?; try discriminate E
           end;
    repeat match goal with E : Ok _ = Ok _ |- _ => inversion E; subst; clear E end;
    try (apply Forall_set_nth; [exact H|]);
    try (eapply Forall_assign; [exact H| |eassumption]).
  - apply ND_supdate, ND_nil.
  - apply ND_sadd. ndreg.
  - apply ND_sdel. ndreg.
  - apply ND_sdel. ndreg.
  - eapply ND_spop; [|eassumption]. ndreg.
  - apply ND_nil.
  - ndreg.
  - apply ND_salg; [ndreg|ndreg|]. eapply same_reg; eassumption.
  - apply ND_supdate. ndreg.
  - apply ND_salg; [ndreg|ndreg|discriminate].
  - apply ND_supdate. ndreg.
  - apply ND_sdel. ndreg.
  - apply ND_fold_sdel. ndreg.
Qed.

(* every reachable state of the Set machine: all sets duplicate-free *)
Theorem sexec_nodup ops st : Forall ND st -> Forall ND (sexec st ops).
Proof.
  revert st. induction ops as [|op ops IH]; intros st H; cbn; [exact H|].
  apply IH, sstep_nodup, H.
Qed.

Corollary set_machine_nodup ops : Forall ND (sexec [] ops).
Proof. apply sexec_nodup. constructor. Qed.

(* ---------- the algebra at records (used by Props/C07.v) ---------- *)

Definition rmem := mem rd_eqb.

Theorem set_alg_mem a s o same x :
  ND s -> ND o -> (same = true -> o = s) ->
  rmem x (salg a s o same) = alg_bool a (rmem x s) (rmem x o).
Proof.
  intros. rewrite salg_is_g.
  apply (salg_mem rdata rd_eqb rd_eqb_refl rd_eqb_sym rd_eqb_trans); assumption.
Qed.

Theorem set_alg_order a s o :
  ND s -> ND o -> salg a s o false = alg_order rdata rd_eqb a s o.
Proof.
  intros. rewrite salg_is_g.
  apply (salg_order rdata rd_eqb rd_eqb_refl rd_eqb_sym rd_eqb_trans); assumption.
Qed.

Theorem set_alg_aliased a s :
  salg a s s true = match a with AUnion | AInter => s | ADiff | ASym => [] end.
Proof. rewrite salg_is_g. apply salg_same. Qed.

Theorem set_eq_ignores_order s o :
  ND s -> ND o -> (seq rd_eqb s o = true <-> forall x, rmem x s = rmem x o).
Proof. apply (seq_spec rdata rd_eqb rd_eqb_refl rd_eqb_sym rd_eqb_trans). Qed.

Corollary set_eq_perm s s' : ND s -> Permutation s s' -> seq rd_eqb s s' = true.
Proof.
  intros Hs Hp. unfold seq. rewrite (Permutation_length Hp), Nat.eqb_refl. cbn.
  apply forallb_forall. intros x Hx. apply (mem_In rdata rd_eqb rd_eqb_refl).
  eapply Permutation_in; eassumption.
Qed.

(* ---------- named forms, in-place (with the aliasing flag) and copying ---------- *)

Section Named.
  Variables (s o : list rdata) (same : bool) (x : rdata).
  Hypothesis Hs : ND s.
  Hypothesis Ho : ND o.
  Hypothesis Hsame : same = true -> o = s.

  Lemma union_update_mem : rmem x (sunion_update rd_eqb s o same) = rmem x s || rmem x o.
  Proof. exact (set_alg_mem AUnion s o same x Hs Ho Hsame). Qed.
  Lemma inter_update_mem : rmem x (sinter_update rd_eqb s o same) = rmem x s && rmem x o.
  Proof. exact (set_alg_mem AInter s o same x Hs Ho Hsame). Qed.
  Lemma diff_update_mem : rmem x (sdiff_update rd_eqb s o same) = rmem x s && negb (rmem x o).
  Proof. exact (set_alg_mem ADiff s o same x Hs Ho Hsame). Qed.
  Lemma sym_update_mem : rmem x (ssym_update rd_eqb s o same) = xorb (rmem x s) (rmem x o).
  Proof. exact (set_alg_mem ASym s o same x Hs Ho Hsame). Qed.
End Named.

Section NamedCopy.
  (* o may be s itself: a.union(a) etc. *)
  Variables (s o : list rdata) (x : rdata).
  Hypothesis Hs : ND s.
  Hypothesis Ho : ND o.

  Let nosame : false = true -> o = s.
  Proof. discriminate. Qed.

  Lemma union_mem : rmem x (sunion rd_eqb s o) = rmem x s || rmem x o.
  Proof. exact (set_alg_mem AUnion s o false x Hs Ho nosame). Qed.
  Lemma inter_mem : rmem x (sinter rd_eqb s o) = rmem x s && rmem x o.
  Proof. exact (set_alg_mem AInter s o false x Hs Ho nosame). Qed.
  Lemma diff_mem : rmem x (sdiff rd_eqb s o) = rmem x s && negb (rmem x o).
  Proof. exact (set_alg_mem ADiff s o false x Hs Ho nosame). Qed.
  Lemma sym_mem : rmem x (ssym rd_eqb s o) = xorb (rmem x s) (rmem x o).
  Proof. exact (set_alg_mem ASym s o false x Hs Ho nosame). Qed.

  (* first-insertion order: the exact key lists *)
  Lemma union_order : sunion rd_eqb s o = s ++ filter (fun y => negb (rmem y s)) o.
  Proof. exact (set_alg_order AUnion s o Hs Ho). Qed.
  Lemma inter_order : sinter rd_eqb s o = filter (fun y => rmem y o) s.
  Proof. exact (set_alg_order AInter s o Hs Ho). Qed.
  Lemma diff_order : sdiff rd_eqb s o = filter (fun y => negb (rmem y o)) s.
  Proof. exact (set_alg_order ADiff s o Hs Ho). Qed.
  Lemma sym_order :
    ssym rd_eqb s o = filter (fun y => negb (rmem y o)) s ++ filter (fun y => negb (rmem y s)) o.
  Proof. exact (set_alg_order ASym s o Hs Ho). Qed.
End NamedCopy.

Lemma order_first_insertion_all s o :
  ND s -> ND o ->
  sunion_update rd_eqb s o false = s ++ filter (fun y => negb (rmem y s)) o /\
  sinter_update rd_eqb s o false = filter (fun y => rmem y o) s /\
  sdiff_update rd_eqb s o false = filter (fun y => negb (rmem y o)) s /\
  ssym_update rd_eqb s o false
    = filter (fun y => negb (rmem y o)) s ++ filter (fun y => negb (rmem y s)) o.
Proof.
  intros Hs Ho. repeat split.
  - exact (set_alg_order AUnion s o Hs Ho).
  - exact (set_alg_order AInter s o Hs Ho).
  - exact (set_alg_order ADiff s o Hs Ho).
  - exact (set_alg_order ASym s o Hs Ho).
Qed.

Lemma add_spec x s :
  ND s -> sadd rd_eqb x s = (if rmem x s then s else s ++ [x]) /\ ND (sadd rd_eqb x s).
Proof. intros H. split; [reflexivity|apply ND_sadd, H]. Qed.

Theorem subset_spec s o :
  sissubset rd_eqb s o = true <-> (forall x, rmem x s = true -> rmem x o = true).
Proof. apply (sissubset_spec rdata rd_eqb rd_eqb_refl rd_eqb_sym rd_eqb_trans). Qed.

Theorem superset_spec s o :
  sissuperset rd_eqb s o = true <-> (forall x, rmem x o = true -> rmem x s = true).
Proof. apply (sissuperset_spec rdata rd_eqb rd_eqb_refl rd_eqb_sym rd_eqb_trans). Qed.

Theorem disjoint_spec s o :
  sisdisjoint rd_eqb s o = true <-> (forall x, rmem x s = true -> rmem x o = true -> False).
Proof. apply (sisdisjoint_spec rdata rd_eqb rd_eqb_refl rd_eqb_sym rd_eqb_trans). Qed.
